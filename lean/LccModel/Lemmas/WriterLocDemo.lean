/-
  The demo project of `Props/C06Loc.lean` (definitions only): suites alpha / alpha.beta / beta / beta.alpha with a test
  `exchange` in each, run at the same time by four workers.  Core Lean only.
-/
import LccModel.Model.Session
import LccModel.Lemmas.WriterLoc

namespace LccModel.WriterLoc
open LccModel.Report LccModel.WriterIso

def md (n : String) (r : Nat) : Meta :=
  { name := n, description := n, tags := [], properties := [], links := [], rank := r }

/-- alpha / alpha.beta / beta / beta.alpha, a test `exchange` in each; four workers (1–4) run them at the same time, worker 2
    (alpha.beta.exchange) with an `lcc.Thread` (20); their records interleave -/
def crossOps : List (Nat × Session.Op) :=
  [(1, .startTestSession),
   (1, .startSuite ["alpha"] (md "alpha" 0)), (1, .startSuite ["alpha", "beta"] (md "beta" 0)),
   (3, .startSuite ["beta"] (md "beta" 1)), (3, .startSuite ["beta", "alpha"] (md "alpha" 0)),
   (1, .startTest ["alpha", "exchange"] (md "exchange" 0)), (2, .startTest ["alpha", "beta", "exchange"] (md "exchange" 0)),
   (3, .startTest ["beta", "exchange"] (md "exchange" 0)), (4, .startTest ["beta", "alpha", "exchange"] (md "exchange" 0)),
   (1, .setStep "S"), (2, .setStep "S"), (3, .setStep "S"), (4, .setStep "S"),
   (3, .log .info "beta"), (2, .log .info "alpha.beta"), (1, .log .info "alpha"), (4, .log .info "beta.alpha"),
   (2, .threadCreate 20), (20, .threadRun), (3, .check "beta 2" true none), (20, .log .info "alpha.beta thread"),
   (20, .threadEnd), (4, .url "u" "beta.alpha 2"), (2, .attach "f" "alpha.beta 2" false),
   (3, .endTest ["beta", "exchange"]), (2, .endTest ["alpha", "beta", "exchange"]),
   (1, .endTest ["alpha", "exchange"]), (4, .endTest ["beta", "alpha", "exchange"]),
   (1, .endSuite ["alpha", "beta"]), (1, .endSuite ["alpha"]), (3, .endSuite ["beta", "alpha"]), (3, .endSuite ["beta"]),
   (1, .endTestSession)]

/-- the report the writer builds from the stream fired by `crossOps` -/
def crossReport : Option Report :=
  match Session.runOps Session.St.init crossOps with
  | .ok s =>
    match Writer.run Writer.initState s.fired with
    | .ok w => some w.report
    | .error _ => none
  | .error _ => none

def entryText : Entry → String
  | .log _ m _ => m | .check d _ _ _ => d | .attachment d _ _ _ => d | .url d _ _ => d

def stepsView : Option (List Step) → List (String × List String)
  | none => []
  | some ss => ss.map (fun s => (s.description, s.entries.map entryText))

/-- what the tests of a suite hold (nothing for no suite) -/
def suiteView (o : Option SuiteResult) : List (List (String × List String)) :=
  match o with
  | none => []
  | some s => s.tests.map (fun t => stepsView (some t.result.steps))

/-- suite `api` holds the test `v2.status` (a name with a dot: `@lcc.test(name="v2.status")`, a parametrized naming scheme fed
    with versions) and the sub-suite `v2` with a test `status`: the two halves of the dotted name spell the path of the
    sibling.  Workers 1 and 2 run the two tests at the same time, worker 1 with an `lcc.Thread` (10). -/
def dottedOps : List (Nat × Session.Op) :=
  [(1, .startTestSession),
   (1, .startSuite ["api"] (md "api" 0)), (1, .startSuite ["api", "v2"] (md "v2" 0)),
   (1, .startTest ["api", "v2.status"] (md "v2.status" 0)), (2, .startTest ["api", "v2", "status"] (md "status" 0)),
   (1, .setStep "request"), (2, .setStep "connect"),
   (2, .log .info "nested 1"), (1, .log .info "flat 1"), (1, .threadCreate 10), (10, .threadRun),
   (10, .log .info "flat thread"), (2, .check "nested 2" true none), (10, .threadEnd), (1, .url "u" "flat 2"),
   (2, .endTest ["api", "v2", "status"]), (1, .endTest ["api", "v2.status"]),
   (1, .endSuite ["api", "v2"]), (1, .endSuite ["api"]), (1, .endTestSession)]

def dottedReport : Option Report :=
  match Session.runOps Session.St.init dottedOps with
  | .ok s =>
    match Writer.run Writer.initState s.fired with
    | .ok w => some w.report
    | .error _ => none
  | .error _ => none

/-- a location rebuilt from the DOTTED rendering of a path (`tuple(node.path.split("."))`) instead of the names of the
    node's ancestors -/
def splitDots : List Char → List Char → List String
  | [], cur => [String.ofList cur.reverse]
  | c :: cs, cur => if c = '.' then String.ofList cur.reverse :: splitDots cs [] else splitDots cs (c :: cur)

def resplit (p : Path) : Path := splitDots (".".intercalate p).toList []

end LccModel.WriterLoc

/-
  Lemmas about `forE` / `foldE` (`Model/Loops.lean`).  Core Lean only.
-/
import LccModel.Model.Loops

namespace LccModel.Loops

/-! ### forE / foldE -/

theorem forE_ok_iff {α ε : Type} (l : List α) (f : α → Except ε Unit) :
    forE l f = .ok () ↔ ∀ a ∈ l, f a = .ok () := by
  induction l with
  | nil => simp [forE]
  | cons a as ih =>
    unfold forE
    cases h : f a with
    | error e => simp [h]
    | ok u => cases u; simp [ih, h]

theorem forE_error {α ε : Type} {l : List α} {f : α → Except ε Unit} {e : ε}
    (h : forE l f = .error e) : ∃ a ∈ l, f a = .error e := by
  induction l with
  | nil => simp [forE] at h
  | cons a as ih =>
    unfold forE at h
    cases h' : f a with
    | error e' => rw [h'] at h; injection h with h; subst h; exact ⟨a, by simp, h'⟩
    | ok u =>
      cases u; rw [h'] at h
      obtain ⟨b, hb, hfb⟩ := ih h
      exact ⟨b, by simp [hb], hfb⟩

theorem forE_ok_or_error {α ε : Type} (l : List α) (f : α → Except ε Unit) :
    forE l f = .ok () ∨ ∃ e, forE l f = .error e := by
  cases h : forE l f with
  | error e => exact .inr ⟨e, rfl⟩
  | ok u => cases u; exact .inl rfl

/-- invariant rule for `foldE` -/
theorem foldE_inv {α β ε : Type} {f : β → α → Except ε β} (I : β → Prop) :
    ∀ (l : List α) (b r : β), I b → (∀ b a b', I b → a ∈ l → f b a = .ok b' → I b') →
      foldE f l b = .ok r → I r := by
  intro l
  induction l with
  | nil => intro b r hb _ h; simp [foldE] at h; subst h; exact hb
  | cons a as ih =>
    intro b r hb hstep h
    unfold foldE at h
    cases h' : f b a with
    | error e => rw [h'] at h; cases h
    | ok b' =>
      rw [h'] at h
      exact ih b' r (hstep b a b' hb (by simp) h')
        (fun b a' b'' hI ha' hf => hstep b a' b'' hI (by simp [ha']) hf) h

theorem foldE_error {α β ε : Type} {f : β → α → Except ε β} :
    ∀ (l : List α) (b : β) (e : ε), foldE f l b = .error e → ∃ b' a, a ∈ l ∧ f b' a = .error e := by
  intro l
  induction l with
  | nil => intro b e h; simp [foldE] at h
  | cons a as ih =>
    intro b e h
    unfold foldE at h
    cases h' : f b a with
    | error e' => rw [h'] at h; injection h with h; subst h; exact ⟨b, a, by simp, h'⟩
    | ok b' =>
      rw [h'] at h
      obtain ⟨b'', a', ha', hf⟩ := ih b' e h
      exact ⟨b'', a', by simp [ha'], hf⟩

/-- if every step succeeds (whatever the accumulator) the loop succeeds -/
theorem foldE_ok_of_steps {α β ε : Type} {f : β → α → Except ε β} :
    ∀ (l : List α) (b : β), (∀ b a, a ∈ l → ∃ b', f b a = .ok b') → ∃ r, foldE f l b = .ok r := by
  intro l
  induction l with
  | nil => intro b _; exact ⟨b, rfl⟩
  | cons a as ih =>
    intro b h
    obtain ⟨b', hb'⟩ := h b a (by simp)
    obtain ⟨r, hr⟩ := ih b' (fun b a' ha' => h b a' (by simp [ha']))
    exact ⟨r, by unfold foldE; rw [hb']; exact hr⟩

/-- every step of a successful loop succeeded on some accumulator -/
theorem foldE_ok_steps {α β ε : Type} {f : β → α → Except ε β} :
    ∀ (l : List α) (b r : β), foldE f l b = .ok r → ∀ a ∈ l, ∃ b₁ b₂, f b₁ a = .ok b₂ := by
  intro l
  induction l with
  | nil => intro b r _ a ha; simp at ha
  | cons a as ih =>
    intro b r h x hx
    unfold foldE at h
    cases h' : f b a with
    | error e => rw [h'] at h; cases h
    | ok b' =>
      rw [h'] at h
      rcases List.mem_cons.mp hx with rfl | hx
      · exact ⟨b, b', h'⟩
      · exact ih b' r h x hx


/-! ### lookups in an insertion-ordered dict with distinct keys -/

theorem find_eq_some_iff_of_nodup {α : Type} (key : α → String) :
    ∀ (l : List α), (l.map key).Nodup → ∀ (k : String) (a : α),
      (l.find? (fun x => decide (key x = k)) = some a ↔ a ∈ l ∧ key a = k) := by
  intro l hnd k a
  constructor
  · intro h
    have h1 := List.find?_some h
    exact ⟨List.mem_of_find?_eq_some h, by simpa using h1⟩
  · rintro ⟨hm, hk⟩
    induction l with
    | nil => cases hm
    | cons g rest ih =>
      simp only [List.map_cons, List.nodup_cons] at hnd
      rcases List.mem_cons.mp hm with e | hm
      · subst e; simp [List.find?, hk]
      · have hne : key g ≠ k := by
          intro e; apply hnd.1; rw [e, ← hk]; exact List.mem_map_of_mem hm
        simp only [List.find?, hne, decide_false]
        exact ih hnd.2 hm

theorem find_eq_none_iff {α : Type} (key : α → String) (l : List α) (k : String) :
    l.find? (fun x => decide (key x = k)) = none ↔ ∀ a ∈ l, key a ≠ k := by
  rw [List.find?_eq_none]
  simp

theorem nodup_map_filter {α : Type} (key : α → String) (q : α → Bool) (l : List α)
    (h : (l.map key).Nodup) : ((l.filter q).map key).Nodup :=
  List.Nodup.sublist (List.Sublist.map key List.filter_sublist) h

end LccModel.Loops

/-
  `Store.run` (the files hold serialised values) and `Store.specRun` (the files stand for the report values that
  were current when they were saved) give the same outcomes on every operation sequence.
-/
import LccModel.Model.Store

namespace LccModel.Store
open LccModel.Report LccModel.Serial LccModel.JsonFile

/-- the file content a snapshot stands for -/
def Holds (c : Content) (sn : Snap) : Prop :=
  match sn.fmt with
  | .json o => c = .json o (toJson sn.g sn.report)
  | .xml => ∃ x, xmlFile sn.g sn.report = .ok x ∧ c = .xml x

def Rel : List (Nat × Content) → List (Nat × Snap) → Prop
  | [], [] => True
  | (p, c) :: cs, (q, sn) :: ss => p = q ∧ Holds c sn ∧ Rel cs ss
  | [], _ :: _ => False
  | _ :: _, [] => False

theorem rel_lookup_none {p : Nat} : ∀ {cs : List (Nat × Content)} {ss : List (Nat × Snap)}, Rel cs ss →
    (lookupFile p cs = none ↔ lookupFile p ss = none)
  | [], [], _ => by simp [lookupFile]
  | (q, c) :: cs, (q', sn) :: ss, h => by
    obtain ⟨rfl, _, hr⟩ := h
    simp only [lookupFile]
    by_cases hq : q = p
    · simp [hq]
    · simp only [hq, if_false]
      exact rel_lookup_none hr
  | [], _ :: _, h => h.elim
  | _ :: _, [], h => h.elim

theorem rel_lookup_some {p : Nat} : ∀ {cs : List (Nat × Content)} {ss : List (Nat × Snap)} {c : Content}, Rel cs ss →
    lookupFile p cs = some c → ∃ sn, lookupFile p ss = some sn ∧ Holds c sn
  | [], [], _, _, h => by simp [lookupFile] at h
  | (q, c') :: cs, (q', sn) :: ss, c, hrel, h => by
    obtain ⟨rfl, hh, hr⟩ := hrel
    simp only [lookupFile] at h ⊢
    by_cases hq : q = p
    · simp only [hq, if_true] at h ⊢
      cases h
      exact ⟨sn, rfl, hh⟩
    · simp only [hq, if_false] at h ⊢
      exact rel_lookup_some hr h
  | [], _ :: _, _, h, _ => h.elim
  | _ :: _, [], _, h, _ => h.elim

/-- the outcome of loading a file equals the one-shot round trip of the report value it stands for -/
theorem load_outcome {c : Content} {sn : Snap} (h : Holds c sn) : loadContent c = oneShot sn.fmt sn.g sn.report := by
  unfold Holds at h
  cases hf : sn.fmt with
  | json o =>
    rw [hf] at h
    subst h
    rfl
  | xml =>
    rw [hf] at h
    obtain ⟨x, hx, rfl⟩ := h
    simp only [oneShot, hx]

/-- one step: same outcome, related states -/
theorem step_sim (s : St) (sp : Spec) (hr : s.report = sp.report) (hf : Rel s.files sp.files) (op : Op) :
    (step s op).2 = (specStep sp op).2 ∧ (step s op).1.report = (specStep sp op).1.report
      ∧ Rel (step s op).1.files (specStep sp op).1.files := by
  cases op with
  | mutate f => simp [step, specStep, hr, hf]
  | save p fmt g =>
    cases fmt with
    | json o =>
      simp only [step, specStep, saveOutcome]
      exact ⟨trivial, hr, rfl, by simp [Holds, hr], hf⟩
    | xml =>
      simp only [step, specStep, saveOutcome, ← hr]
      cases hx : xmlFile g s.report with
      | error e => exact ⟨rfl, hr, hf⟩
      | ok c => exact ⟨rfl, rfl, rfl, ⟨c, hx, rfl⟩, hf⟩
  | load p =>
    simp only [step, specStep]
    cases hl : lookupFile p s.files with
    | none =>
      rw [(rel_lookup_none hf).mp hl]
      exact ⟨rfl, hr, hf⟩
    | some c =>
      obtain ⟨sn, hsn, hh⟩ := rel_lookup_some hf hl
      rw [hsn]
      simp only [load_outcome hh]
      exact ⟨trivial, hr, hf⟩

theorem run_eq_specRun : ∀ (ops : List Op) (s : St) (sp : Spec), s.report = sp.report → Rel s.files sp.files →
    run s ops = specRun sp ops
  | [], _, _, _, _ => rfl
  | op :: ops, s, sp, hr, hf => by
    obtain ⟨h1, h2, h3⟩ := step_sim s sp hr hf op
    have ih := run_eq_specRun ops (step s op).1 (specStep sp op).1 h2 h3
    unfold run specRun
    cases hs : step s op with
    | mk s' o =>
      cases hsp : specStep sp op with
      | mk sp' o' =>
        rw [hs, hsp] at h1 ih
        simp only at h1 ih
        subst h1
        cases o <;> simp [ih]

/-- the XML one-shot outcome is `Serial.xmlRoundTrip` -/
theorem oneShot_xml (g : Time) (r : Report) : oneShot .xml g r = ofXmlOutcome (xmlRoundTrip g r) := by
  simp only [oneShot, xmlFile, xmlRoundTrip]
  cases toXml g r with
  | error e => rfl
  | ok x =>
    simp only
    cases etNorm x with
    | error e => cases e <;> rfl
    | ok y => simp only [loadContent]; cases fromXml y <;> rfl

/-! ### the last load of a sequence -/

def specExec (s : Spec) : List Op → Spec
  | [] => s
  | op :: ops => specExec (specStep s op).1 ops

theorem specRun_append (a b : List Op) : ∀ s : Spec, specRun s (a ++ b) = specRun s a ++ specRun (specExec s a) b := by
  induction a with
  | nil => intro s; rfl
  | cons op ops ih =>
    intro s
    simp only [List.cons_append, specRun, specExec]
    cases hs : specStep s op with
    | mk s' o =>
      cases o with
      | none => simp only [ih]
      | some o => simp only [ih, List.cons_append]

theorem specStep_report (s : Spec) (op : Op) :
    (specStep s op).1.report = (match op with | .mutate f => f s.report | _ => s.report) := by
  cases op with
  | mutate f => rfl
  | save p fmt g =>
    simp only [specStep]
    cases saveOutcome fmt g s.report <;> rfl
  | load p =>
    simp only [specStep]
    cases lookupFile p s.files <;> rfl

theorem specExec_report : ∀ (ops : List Op) (s : Spec), (specExec s ops).report = reportAfter s.report ops
  | [], _ => rfl
  | op :: ops, s => by
    simp only [specExec]
    rw [specExec_report ops, specStep_report]
    cases op <;> rfl

theorem specStep_lookup (s : Spec) (op : Op) (p : Nat) (h : op.savesTo p = false) :
    lookupFile p (specStep s op).1.files = lookupFile p s.files := by
  cases op with
  | mutate f => rfl
  | save q fmt g =>
    have hq : ¬ q = p := by simpa [Op.savesTo] using h
    simp only [specStep]
    cases saveOutcome fmt g s.report <;> simp [lookupFile, hq]
  | load q =>
    simp only [specStep]
    cases lookupFile q s.files <;> rfl

theorem specExec_lookup : ∀ (ops : List Op) (s : Spec) (p : Nat), (∀ op ∈ ops, op.savesTo p = false) →
    lookupFile p (specExec s ops).files = lookupFile p s.files
  | [], _, _, _ => rfl
  | op :: ops, s, p, h => by
    simp only [specExec]
    rw [specExec_lookup ops _ p (fun o ho => h o (List.mem_cons_of_mem _ ho)), specStep_lookup s op p (h op List.mem_cons_self)]

/-- Save to `p`, then anything that does not save to `p` again, then load `p`: the load's outcome is the one-shot
    round trip of the report as it was AT THE SAVE — whatever was saved before, whatever was modified after. -/
theorem specRun_last_load (pre post : List Op) (p : Nat) (fmt : Fmt) (g : Time) (s : Spec)
    (hsave : saveOutcome fmt g (reportAfter s.report pre) = .saved)
    (hpost : ∀ op ∈ post, op.savesTo p = false) :
    (specRun s (pre ++ [.save p fmt g] ++ post ++ [.load p])).getLast? =
      some (oneShot fmt g (reportAfter s.report pre)) := by
  rw [specRun_append, specRun_append, specRun_append]
  have h1 : (specExec s pre).report = reportAfter s.report pre := specExec_report pre s
  have hstep : specStep (specExec s pre) (.save p fmt g) =
      ({ specExec s pre with files := (p, { fmt := fmt, g := g, report := reportAfter s.report pre }) :: (specExec s pre).files },
        some .saved) := by
    simp only [specStep, h1, hsave]
  have h2 : specExec (specExec s pre) [.save p fmt g] =
      { specExec s pre with files := (p, { fmt := fmt, g := g, report := reportAfter s.report pre }) :: (specExec s pre).files } := by
    simp only [specExec, hstep]
  have h3 : specExec s (pre ++ [.save p fmt g]) = specExec (specExec s pre) [.save p fmt g] := by
    clear hstep h2 h1 hsave
    induction pre generalizing s with
    | nil => rfl
    | cons op ops ih => simp only [List.cons_append, specExec]; exact ih _
  have h4 : specExec s (pre ++ [.save p fmt g] ++ post) = specExec (specExec s (pre ++ [.save p fmt g])) post := by
    generalize pre ++ [Op.save p fmt g] = a
    clear hstep h2 h1 hsave h3
    induction a generalizing s with
    | nil => rfl
    | cons op ops ih => simp only [List.cons_append, specExec]; exact ih _
  have hl : lookupFile p (specExec s (pre ++ [.save p fmt g] ++ post)).files =
      some { fmt := fmt, g := g, report := reportAfter s.report pre } := by
    rw [h4, specExec_lookup post _ p hpost, h3, h2]
    simp [lookupFile]
  have : specRun (specExec s (pre ++ [.save p fmt g] ++ post)) [.load p] = [oneShot fmt g (reportAfter s.report pre)] := by
    simp only [specRun, specStep, hl]
  rw [this]
  simp

end LccModel.Store

/-
  Helper definitions and lemmas for Props/C17Seq.lean (model: Model/MatcherObj.lean).  Core Lean only.
-/
import LccModel.Model.MatcherObj
import LccModel.Lemmas.MatcherDesc

namespace LccModel.MatcherObj
open LccModel.Matcher

/-- two worlds with the same store and the same objects (their check logs may differ) -/
def World.same (w w' : World) : Prop := w.store = w'.store ∧ w.heap = w'.heap

theorem World.same_refl (w : World) : w.same w := ⟨rfl, rfl⟩

/-- what an operation of operations.py appends to the check log and does to its caller — a function of the match outcome,
    the hint and `quiet` only (not of the log) -/
def OpKind.effect (k : OpKind) (hint : Option Str) (v : Val) (m : M) (quiet : Bool) : List Check × OpResult :=
  match matchOf m v with
  | .error e => ([], .pyError e)
  | .ok r =>
    match k with
    | .check => ([logEntry hint m r quiet], .returned r)
    | .require => ([logEntry hint m r quiet], if r.ok then .returned r else .abortTest)
    | .assert => if r.ok then ([], .returned r) else ([logEntry hint m r quiet], .abortTest)

theorem OpKind.fn_eq_effect (k : OpKind) (hint : Option Str) (v : Val) (m : M) (quiet : Bool) (log : List Check) :
    k.fn hint v m quiet log = (log ++ (k.effect hint v m quiet).1, (k.effect hint v m quiet).2) := by
  cases k <;> simp only [OpKind.fn, OpKind.effect, checkThat, requireThat, assertThat] <;>
    cases matchOf m v with
    | error e => simp
    | ok r => first | (cases hr : r.ok <;> simp [hr]) | simp

/-- the output of a `check_that` / `require_that` / `assert_that` step, without the log -/
theorem step_check_out (w : World) (k : OpKind) (i : Nat) (hint : Option Str) (a : VArg) (quiet : Bool) :
    (step w (.check k i hint a quiet)).2 =
      .checked (k.effect hint (a.read w.store) (w.obj i) quiet).1 (k.effect hint (a.read w.store) (w.obj i) quiet).2 := by
  simp only [step, OpKind.fn_eq_effect, List.drop_left]

theorem step_check_world (w : World) (k : OpKind) (i : Nat) (hint : Option Str) (a : VArg) (quiet : Bool) :
    (step w (.check k i hint a quiet)).1 =
      { w with log := w.log ++ (k.effect hint (a.read w.store) (w.obj i) quiet).1 } := by
  simp only [step, OpKind.fn_eq_effect]

/-- every step does the same to the store and the objects, and returns the same, in two worlds that differ by their logs only -/
theorem step_same {w w' : World} (h : w.same w') (o : Op) :
    (step w o).1.same (step w' o).1 ∧ (step w o).2 = (step w' o).2 := by
  obtain ⟨hs, hh⟩ := h
  cases o with
  | build t => simp only [step, World.same, hs, hh, and_self]
  | mutate l μ => simp only [step, World.same, hs, hh, and_self]
  | describe i t =>
    have : w.obj i = w'.obj i := by simp only [World.obj, World.expr, World.tmpl, hs, hh]
    simp only [step, World.same, hs, hh, this, and_self]
  | check k i hint a quiet =>
    have : w.obj i = w'.obj i := by simp only [World.obj, World.expr, World.tmpl, hs, hh]
    refine ⟨?_, ?_⟩
    · simp only [step_check_world, World.same, hs, hh, and_self]
    · simp only [step_check_out, hs, this]

theorem run_same : ∀ (ops : List Op) {w w' : World}, w.same w' → run w ops = run w' ops ∧ (exec w ops).same (exec w' ops)
  | [], _, _, h => ⟨rfl, h⟩
  | o :: os, w, w', h => by
    obtain ⟨h1, h2⟩ := step_same h o
    obtain ⟨h3, h4⟩ := run_same os h1
    exact ⟨by simp only [run, h2, h3], by simpa only [exec] using h4⟩

/-- a use changes neither the store nor the objects -/
theorem step_use_same (w : World) (o : Op) (h : o.isUse = true) : (step w o).1.same w := by
  cases o with
  | build t => simp [Op.isUse] at h
  | mutate l μ => simp [Op.isUse] at h
  | describe i t => exact ⟨rfl, rfl⟩
  | check k i hint a quiet => simp only [step_check_world, World.same, and_self]

theorem exec_uses_same : ∀ (us : List Op) (w : World), (∀ u ∈ us, u.isUse = true) → (exec w us).same w
  | [], w, _ => w.same_refl
  | u :: us, w, h => by
    have h1 := step_use_same w u (h u (List.mem_cons_self))
    have h2 := exec_uses_same us (step w u).1 (fun x hx => h x (List.mem_cons_of_mem _ hx))
    exact ⟨h2.1.trans h1.1, h2.2.trans h1.2⟩

theorem exec_append : ∀ (xs ys : List Op) (w : World), exec w (xs ++ ys) = exec (exec w xs) ys
  | [], _, _ => rfl
  | x :: xs, ys, w => by simp only [List.cons_append, exec]; exact exec_append xs ys _

theorem run_append : ∀ (xs ys : List Op) (w : World), run w (xs ++ ys) = run w xs ++ run (exec w xs) ys
  | [], _, _ => rfl
  | x :: xs, ys, w => by simp only [List.cons_append, run, exec, run_append xs ys]

/-- objects are only ever added: the heap grows at its end -/
theorem step_heap_prefix (w : World) (o : Op) : ∃ suffix, (step w o).1.heap = w.heap ++ suffix := by
  cases o with
  | build t => exact ⟨[link w.heap t], rfl⟩
  | mutate l μ => exact ⟨[], by simp [step]⟩
  | describe i t => exact ⟨[], by simp [step]⟩
  | check k i hint a quiet => exact ⟨[], by simp [step_check_world]⟩

theorem exec_heap_prefix : ∀ (ops : List Op) (w : World), ∃ suffix, (exec w ops).heap = w.heap ++ suffix
  | [], w => ⟨[], by simp [exec]⟩
  | o :: os, w => by
    obtain ⟨s1, h1⟩ := step_heap_prefix w o
    obtain ⟨s2, h2⟩ := exec_heap_prefix os (step w o).1
    exact ⟨s1 ++ s2, by simp only [exec, h2, h1, List.append_assoc]⟩

end LccModel.MatcherObj

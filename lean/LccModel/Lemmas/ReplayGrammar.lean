/-
  Lemmas for C18 (grammar side): the stream `replay now tid r` run through the acceptor of `Model/Grammar.lean`.
  Strict / sequential mode for finished reports (every item returns the acceptor to the state it was entered in);
  lenient mode (containment) for every report.
-/
import LccModel.Model.Replay
import LccModel.Model.Grammar
import LccModel.Lemmas.Sort
set_option linter.unusedSimpArgs false
set_option linter.unusedVariables false
namespace LccModel.ReplayGrammar
open LccModel.Replay
open LccModel.Report LccModel.Writer LccModel.Grammar

theorem grun_append (m : Mode) (g : GState) (es1 es2 : List Event) :
    Grammar.run m g (es1 ++ es2) = match Grammar.run m g es1 with
      | some g' => Grammar.run m g' es2
      | none => none := by
  induction es1 generalizing g with
  | nil => rfl
  | cons e es ih =>
    simp only [List.cons_append, Grammar.run]
    cases Grammar.step m g e with
    | some g' => simp [ih]
    | none => rfl

theorem grun_append_of {m : Mode} {g g1 g2 : GState} {es1 es2 : List Event}
    (h1 : Grammar.run m g es1 = some g1) (h2 : Grammar.run m g1 es2 = some g2) : Grammar.run m g (es1 ++ es2) = some g2 := by
  rw [grun_append, h1]; exact h2

theorem grun_single {m : Mode} {g g1 : GState} {e : Event} (h : Grammar.step m g e = some g1) :
    Grammar.run m g [e] = some g1 := by simp [Grammar.run, h]

theorem evTime_ne_zero (now : Time) (h : now ≠ 0) (t : Option Time) : evTime now t ≠ 0 := by
  cases t with
  | none => exact h
  | some t => simp only [evTime]; split <;> assumption

theorem endEvent_of_real (t : Option Time) (mk : Time → Event) (h : realTime t = true) :
    ∃ e, e ≠ 0 ∧ endEvent t mk = [mk e] := by
  cases t with
  | none => simp [realTime] at h
  | some t => simp only [realTime, bne_iff_ne, ne_eq] at h; exact ⟨t, h, by simp [endEvent, h]⟩

/-! ### strict (and sequential) acceptance of the replay of a FINISHED report: every item returns the acceptor to the
    state it was entered in -/

theorem entryEvent_time (now : Time) (hnow : now ≠ 0) (tid : Nat) (loc : Loc) (d : String) (e : Entry) :
    Grammar.time (entryEvent now tid loc d e) ≠ 0 := by
  cases e <;> simp only [entryEvent, Grammar.time] <;> exact evTime_ne_zero now hnow _

theorem strict_entries (m : Mode) (now : Time) (hnow : now ≠ 0) (tid : Nat) (g : GState) (hr : g.phase = .running) (loc : Loc)
    (d : String) (hl : g.openSteps.lookup tid = some loc) :
    ∀ es : List Entry, Grammar.run m g (es.map (entryEvent now tid loc d)) = some g
  | [] => rfl
  | e :: es => by
    have ht := entryEvent_time now hnow tid loc d e
    have : Grammar.step m g (entryEvent now tid loc d e) = some g := by
      cases e <;> simp [entryEvent, Grammar.step, Grammar.time, logOk, hr, hl] at ht ⊢ <;> exact ht
    simp [Grammar.run, this, strict_entries m now hnow tid g hr loc d hl es]

theorem strict_step (m : Mode) (now : Time) (hnow : now ≠ 0) (tid : Nat) (g : GState) (hr : g.phase = .running) (loc : Loc)
    (hl : loc ∈ g.openResults) (hs : g.openSteps = [])
    (s : Step) (hf : stepFinished s = true) : Grammar.run m g (replayStep now tid loc s) = some g := by
  obtain ⟨e, hne, he⟩ := endEvent_of_real s.endTime (fun t => Event.stepEnd loc s.description tid t) hf
  unfold replayStep
  rw [he]
  have h1 : Grammar.step m g (.stepStart loc s.description tid (evTime now s.startTime))
      = some { g with openSteps := [(tid, loc)] } := by
    simp [Grammar.step, Grammar.time, evTime_ne_zero now hnow, hr, hl, hs, whenB]
  have h2 := strict_entries m now hnow tid { g with openSteps := [(tid, loc)] } hr loc s.description (by simp [List.lookup]) s.entries
  have h3 : Grammar.step m { g with openSteps := [(tid, loc)] } (.stepEnd loc s.description tid e) = some g := by
    simp [Grammar.step, Grammar.time, hne, hr, List.lookup]
    cases g; simp_all
  exact grun_append_of (grun_append_of (grun_single h1) h2) (grun_single h3)

theorem strict_steps (m : Mode) (now : Time) (hnow : now ≠ 0) (tid : Nat) (g : GState) (hr : g.phase = .running) (loc : Loc)
    (hl : loc ∈ g.openResults) (hs : g.openSteps = []) :
    ∀ steps : List Step, (∀ s ∈ steps, stepFinished s = true) → Grammar.run m g (replaySteps now tid loc steps) = some g
  | [], _ => rfl
  | s :: steps, h => by
    simp only [replaySteps, List.flatMap_cons]
    exact grun_append_of (strict_step m now hnow tid g hr loc hl hs s (h s (by simp)))
      (strict_steps m now hnow tid g hr loc hl hs steps (fun x hx => h x (by simp [hx])))

/-- a quiescent point of a sequential stream: running, no result and no step open -/
structure Quiet (g : GState) : Prop where
  running : g.phase = .running
  noResults : g.openResults = []
  noSteps : g.openSteps = []

/-- a finished result between a start event that opens `loc` and an end event that closes it -/
theorem strict_result (m : Mode) (now : Time) (hnow : now ≠ 0) (tid : Nat) (g : GState) (hq : Quiet g) (loc : Loc)
    (startE endE : Time → Event)
    (hStart : ∀ t, t ≠ 0 → Grammar.step m g (startE t) = some { g with openResults := [loc] })
    (hEnd : ∀ t, t ≠ 0 → Grammar.step m { g with openResults := [loc] } (endE t) = some g)
    (res : Result) (hf : resultFinished res = true) :
    Grammar.run m g ([startE (evTime now res.startTime)] ++ replaySteps now tid loc res.steps ++ endEvent res.endTime endE)
      = some g := by
  simp only [resultFinished, Bool.and_eq_true, List.all_eq_true] at hf
  obtain ⟨e, hne, he⟩ := endEvent_of_real res.endTime endE hf.1
  rw [he]
  have h2 := strict_steps m now hnow tid { g with openResults := [loc] } hq.running loc (by simp) hq.noSteps res.steps hf.2
  exact grun_append_of (grun_append_of (grun_single (hStart _ (evTime_ne_zero now hnow _))) h2) (grun_single (hEnd e hne))

theorem strict_phase (m : Mode) (now : Time) (hnow : now ≠ 0) (tid : Nat) (g : GState) (hq : Quiet g) (loc : Loc)
    (startE endE : Time → Event)
    (hStart : ∀ t, t ≠ 0 → Grammar.step m g (startE t) = some { g with openResults := [loc] })
    (hEnd : ∀ t, t ≠ 0 → Grammar.step m { g with openResults := [loc] } (endE t) = some g)
    (o : Option Result) (hf : optResultFinished o = true) :
    Grammar.run m g (replayPhase now tid loc startE endE o) = some g := by
  cases o with
  | none => rfl
  | some res => exact strict_result m now hnow tid g hq loc startE endE hStart hEnd res hf

theorem strict_open (m : Mode) (g : GState) (hq : Quiet g) (loc : Loc) :
    openResult m g loc = some { g with openResults := [loc] } := by
  simp [openResult, hq.noResults, whenB]

theorem strict_close (m : Mode) (g : GState) (hq : Quiet g) (loc : Loc) :
    closeResult m { g with openResults := [loc] } loc = some g := by
  have := hq.noResults
  have h2 := hq.noSteps
  cases g
  simp_all [closeResult, stepOpenAt, whenB]

theorem strict_test (m : Mode) (now : Time) (hnow : now ≠ 0) (tid : Nat) (g : GState) (hq : Quiet g) (p : Path) (hp : p ≠ [])
    (hopen : p ∈ g.openSuites) (t : TestResult)
    (hf : testFinished t = true) : Grammar.run m g (replayTest now tid p t) = some g := by
  have hdrop : (p ++ [t.md.name]).dropLast = p := List.dropLast_concat
  have hnamed : named (p ++ [t.md.name]) t.md = true := by simp [named]
  have hpe : p.isEmpty = false := by cases p <;> simp_all
  have hrun : ∀ (res : Result), resultFinished res = true →
      Grammar.run m g ([Event.testStart (p ++ [t.md.name]) t.md (evTime now res.startTime)]
        ++ replaySteps now tid (.test (p ++ [t.md.name])) res.steps
        ++ endEvent res.endTime (fun e => Event.testEnd (p ++ [t.md.name]) e)) = some g := by
    intro res hres
    apply strict_result m now hnow tid g hq (.test (p ++ [t.md.name])) (fun x => Event.testStart (p ++ [t.md.name]) t.md x)
      (fun e => Event.testEnd (p ++ [t.md.name]) e) _ _ res hres
    · intro x hx
      have : Grammar.step m g (Event.testStart (p ++ [t.md.name]) t.md x) = openResult m g (.test (p ++ [t.md.name])) := by
        simp [Grammar.step, Grammar.time, hx, hq.running, hdrop, hpe, hopen, hnamed]
      rw [this, strict_open m g hq]
    · intro x hx
      have : Grammar.step m { g with openResults := [.test (p ++ [t.md.name])] } (Event.testEnd (p ++ [t.md.name]) x)
          = closeResult m { g with openResults := [.test (p ++ [t.md.name])] } (.test (p ++ [t.md.name])) := by
        simp [Grammar.step, Grammar.time, hx, hq.running]
      rw [this, strict_close m g hq]
  have hby : bypass m g (p ++ [t.md.name]) t.md = some g := by
    simp [bypass, hdrop, hpe, hopen, hnamed, hq.noResults, whenB]
  cases hst : t.result.status with
  | none => simp only [testFinished, hst] at hf; simpa [replayTest, hst] using hrun t.result hf
  | some st =>
    cases st with
    | passed => simp only [testFinished, hst] at hf; simpa [replayTest, hst] using hrun t.result hf
    | failed => simp only [testFinished, hst] at hf; simpa [replayTest, hst] using hrun t.result hf
    | skipped =>
      simp only [replayTest, hst]
      apply grun_single
      simp [Grammar.step, Grammar.time, evTime_ne_zero now hnow, hq.running, hby]
    | disabled =>
      simp only [replayTest, hst]
      apply grun_single
      simp [Grammar.step, Grammar.time, evTime_ne_zero now hnow, hq.running, hby]

theorem strict_tests (m : Mode) (now : Time) (hnow : now ≠ 0) (tid : Nat) (g : GState) (hq : Quiet g) (p : Path) (hp : p ≠ [])
    (hopen : p ∈ g.openSuites) :
    ∀ ts : List TestResult, (∀ t ∈ ts, testFinished t = true) → Grammar.run m g (ts.flatMap (replayTest now tid p)) = some g
  | [], _ => rfl
  | t :: ts, h => by
    simp only [List.flatMap_cons]
    exact grun_append_of (strict_test m now hnow tid g hq p hp hopen t (h t (by simp)))
      (strict_tests m now hnow tid g hq p hp hopen ts (fun x hx => h x (by simp [hx])))

mutual
theorem strict_suite (m : Mode) (now : Time) (hnow : now ≠ 0) (tid : Nat) :
    ∀ (s : SuiteResult) (parent : Path) (g : GState), Quiet g →
    (∀ q ∈ g.openSuites, q.length ≤ parent.length) → (parent = [] ∨ parent ∈ g.openSuites) → suiteFinished s = true →
    Grammar.run m g (replaySuite now tid parent s) = some g
  | .mk md st en su td ts ss, parent, g, hq, hb, hpar, hf => by
    simp only [suiteFinished, Bool.and_eq_true, List.all_eq_true] at hf
    obtain ⟨⟨⟨⟨hen, hsu⟩, htd⟩, hts⟩, hss⟩ := hf
    obtain ⟨e, hne, he⟩ := endEvent_of_real en (fun t => Event.suiteEnd (parent ++ [md.name]) t) hen
    have hp : parent ++ [md.name] ≠ [] := by simp
    have hdrop : (parent ++ [md.name]).dropLast = parent := List.dropLast_concat
    have hnotin : (parent ++ [md.name]) ∉ g.openSuites := by
      intro hin; have := hb _ hin; simp at this; omega
    have hq1 : Quiet { g with openSuites := (parent ++ [md.name]) :: g.openSuites } := ⟨hq.running, hq.noResults, hq.noSteps⟩
    have hopen : (parent ++ [md.name]) ∈ ({ g with openSuites := (parent ++ [md.name]) :: g.openSuites } : GState).openSuites := by
      simp
    have hb1 : ∀ q ∈ ({ g with openSuites := (parent ++ [md.name]) :: g.openSuites } : GState).openSuites,
        q.length ≤ (parent ++ [md.name]).length := by
      intro q hq'
      simp only [List.mem_cons] at hq'
      rcases hq' with rfl | hq'
      · exact Nat.le_refl _
      · have := hb q hq'; simp; omega
    -- suite start
    have h0 : Grammar.step m g (.suiteStart (parent ++ [md.name]) md (evTime now st))
        = some { g with openSuites := (parent ++ [md.name]) :: g.openSuites } := by
      have hparent : parentOpen g (parent ++ [md.name]) = true := by
        rcases hpar with rfl | hpar <;> simp [parentOpen, hdrop, *]
      simp [Grammar.step, Grammar.time, evTime_ne_zero now hnow, hq.running, hparent, named, hnotin, hq.noResults, whenB]
    -- setup / teardown
    have h1 := strict_phase m now hnow tid _ hq1 (.suiteSetup (parent ++ [md.name])) (fun t => .suiteSetupStart (parent ++ [md.name]) t)
      (fun t => .suiteSetupEnd (parent ++ [md.name]) t)
      (fun t ht => by
        have : Grammar.step m { g with openSuites := (parent ++ [md.name]) :: g.openSuites }
            (.suiteSetupStart (parent ++ [md.name]) t)
            = openResult m { g with openSuites := (parent ++ [md.name]) :: g.openSuites } (.suiteSetup (parent ++ [md.name])) := by
          simp [Grammar.step, Grammar.time, ht, hq.running]
        rw [this, strict_open m _ hq1])
      (fun t ht => by
        have : Grammar.step m { g with openSuites := (parent ++ [md.name]) :: g.openSuites, openResults := [.suiteSetup (parent ++ [md.name])] }
            (.suiteSetupEnd (parent ++ [md.name]) t)
            = closeResult m { g with openSuites := (parent ++ [md.name]) :: g.openSuites, openResults := [.suiteSetup (parent ++ [md.name])] }
                (.suiteSetup (parent ++ [md.name])) := by
          simp [Grammar.step, Grammar.time, ht, hq.running]
        rw [this]; exact strict_close m _ hq1 _) su hsu
    have h4 := strict_phase m now hnow tid _ hq1 (.suiteTeardown (parent ++ [md.name]))
      (fun t => .suiteTeardownStart (parent ++ [md.name]) t) (fun t => .suiteTeardownEnd (parent ++ [md.name]) t)
      (fun t ht => by
        have : Grammar.step m { g with openSuites := (parent ++ [md.name]) :: g.openSuites }
            (.suiteTeardownStart (parent ++ [md.name]) t)
            = openResult m { g with openSuites := (parent ++ [md.name]) :: g.openSuites } (.suiteTeardown (parent ++ [md.name])) := by
          simp [Grammar.step, Grammar.time, ht, hq.running]
        rw [this, strict_open m _ hq1])
      (fun t ht => by
        have : Grammar.step m { g with openSuites := (parent ++ [md.name]) :: g.openSuites, openResults := [.suiteTeardown (parent ++ [md.name])] }
            (.suiteTeardownEnd (parent ++ [md.name]) t)
            = closeResult m { g with openSuites := (parent ++ [md.name]) :: g.openSuites, openResults := [.suiteTeardown (parent ++ [md.name])] }
                (.suiteTeardown (parent ++ [md.name])) := by
          simp [Grammar.step, Grammar.time, ht, hq.running]
        rw [this]; exact strict_close m _ hq1 _) td htd
    have h2 := strict_tests m now hnow tid _ hq1 _ hp hopen ts hts
    have h3 := strict_suites m now hnow tid ss (parent ++ [md.name]) _ hq1 hb1 (Or.inr hopen) hss
    -- suite end
    have h5 : Grammar.step m { g with openSuites := (parent ++ [md.name]) :: g.openSuites } (.suiteEnd (parent ++ [md.name]) e)
        = some g := by
      have hinside : ∀ ph os, insideClosed ⟨ph, (parent ++ [md.name]) :: g.openSuites, [], os⟩ (parent ++ [md.name]) = true := by
        intro ph os
        simp only [insideClosed, Bool.and_eq_true, List.all_eq_true]
        refine ⟨?_, by simp⟩
        intro q hq'
        simp only [List.mem_cons] at hq'
        rcases hq' with rfl | hq'
        · simp [hdrop]
        · have hl := hb q hq'
          have : q.dropLast ≠ parent ++ [md.name] := by
            intro heq
            have := congrArg List.length heq
            simp at this; omega
          simp [this]
      simp [Grammar.step, Grammar.time, hne, hq.running, hq.noResults, whenB]
      refine ⟨Or.inr (hinside _ _), ?_⟩
      have h1 := hq.running
      have h2 := hq.noResults
      cases g; simp_all
    simp only [replaySuite, he]
    exact grun_append_of (grun_append_of (grun_append_of (grun_append_of (grun_append_of (grun_single h0) h1) h2) h3) h4)
      (grun_single h5)
theorem strict_suites (m : Mode) (now : Time) (hnow : now ≠ 0) (tid : Nat) :
    ∀ (ss : List SuiteResult) (parent : Path) (g : GState), Quiet g →
    (∀ q ∈ g.openSuites, q.length ≤ parent.length) → (parent = [] ∨ parent ∈ g.openSuites) → suitesFinished ss = true →
    Grammar.run m g (replaySuites now tid parent ss) = some g
  | [], _, _, _, _, _, _ => rfl
  | s :: ss, parent, g, hq, hb, hpar, hf => by
    simp only [suitesFinished, Bool.and_eq_true] at hf
    simp only [replaySuites]
    exact grun_append_of (strict_suite m now hnow tid s parent g hq hb hpar hf.1)
      (strict_suites m now hnow tid ss parent g hq hb hpar hf.2)
end



/-! ### containment holds for the replay of EVERY report -/

/-- what an item's events leave behind in lenient mode: still running, same suites open -/
def Keeps (g g' : GState) : Prop := g'.phase = .running ∧ g'.openSuites = g.openSuites

theorem lenient_entries (now : Time) (hnow : now ≠ 0) (tid : Nat) (g : GState) (hr : g.phase = .running) (loc : Loc)
    (d : String) (hl : g.openSteps.lookup tid = some loc) (es : List Entry) :
    Grammar.run .lenient g (es.map (entryEvent now tid loc d)) = some g :=
  strict_entries .lenient now hnow tid g hr loc d hl es

theorem lenient_step (now : Time) (hnow : now ≠ 0) (tid : Nat) (g : GState) (hr : g.phase = .running) (loc : Loc)
    (hl : loc ∈ g.openResults) (s : Step) :
    ∃ g', Grammar.run .lenient g (replayStep now tid loc s) = some g' ∧ Keeps g g' ∧ g'.openResults = g.openResults := by
  unfold replayStep
  have h1 : Grammar.step .lenient g (.stepStart loc s.description tid (evTime now s.startTime))
      = some { g with openSteps := (tid, loc) :: g.openSteps } := by
    simp [Grammar.step, Grammar.time, evTime_ne_zero now hnow, hr, hl, whenB, Mode.lenient]
  have h2 := lenient_entries now hnow tid { g with openSteps := (tid, loc) :: g.openSteps } hr loc s.description
    (by simp [List.lookup]) s.entries
  cases hen : s.endTime with
  | none =>
    exact ⟨{ g with openSteps := (tid, loc) :: g.openSteps }, by simpa [endEvent] using grun_append_of (grun_single h1) h2,
      ⟨hr, rfl⟩, rfl⟩
  | some e =>
    by_cases he : e = 0
    · subst he
      exact ⟨{ g with openSteps := (tid, loc) :: g.openSteps }, by simpa [endEvent] using grun_append_of (grun_single h1) h2,
        ⟨hr, rfl⟩, rfl⟩
    · have h3 : Grammar.step .lenient { g with openSteps := (tid, loc) :: g.openSteps } (.stepEnd loc s.description tid e)
          = some { g with openSteps := ((tid, loc) :: g.openSteps).erase (tid, loc) } := by
        simp [Grammar.step, Grammar.time, he, hr, List.lookup]
      exact ⟨{ g with openSteps := ((tid, loc) :: g.openSteps).erase (tid, loc) },
        by simpa [endEvent, he] using grun_append_of (grun_append_of (grun_single h1) h2) (grun_single h3), ⟨hr, rfl⟩, rfl⟩

theorem lenient_steps (now : Time) (hnow : now ≠ 0) (tid : Nat) (loc : Loc) :
    ∀ (steps : List Step) (g : GState), g.phase = .running → loc ∈ g.openResults →
      ∃ g', Grammar.run .lenient g (replaySteps now tid loc steps) = some g' ∧ Keeps g g' ∧ g'.openResults = g.openResults
  | [], g, hr, _ => ⟨g, rfl, ⟨hr, rfl⟩, rfl⟩
  | s :: steps, g, hr, hl => by
    obtain ⟨g1, h1, k1, r1⟩ := lenient_step now hnow tid g hr loc hl s
    obtain ⟨g2, h2, k2, r2⟩ := lenient_steps now hnow tid loc steps g1 k1.1 (by rw [r1]; exact hl)
    refine ⟨g2, ?_, ⟨k2.1, by rw [k2.2, k1.2]⟩, by rw [r2, r1]⟩
    simp only [replaySteps, List.flatMap_cons]
    exact grun_append_of h1 h2

theorem lenient_result (now : Time) (hnow : now ≠ 0) (tid : Nat) (g : GState) (hr : g.phase = .running) (loc : Loc)
    (startE endE : Time → Event)
    (hStart : ∀ t, t ≠ 0 → Grammar.step .lenient g (startE t) = some { g with openResults := loc :: g.openResults })
    (hEnd : ∀ (g1 : GState) t, t ≠ 0 → g1.phase = .running → loc ∈ g1.openResults →
      Grammar.step .lenient g1 (endE t) = some { g1 with openResults := g1.openResults.erase loc })
    (res : Result) :
    ∃ g', Grammar.run .lenient g ([startE (evTime now res.startTime)] ++ replaySteps now tid loc res.steps
      ++ endEvent res.endTime endE) = some g' ∧ Keeps g g' := by
  obtain ⟨g1, h1, k1, r1⟩ := lenient_steps now hnow tid loc res.steps { g with openResults := loc :: g.openResults } hr (by simp)
  have h0 := grun_single (hStart _ (evTime_ne_zero now hnow res.startTime))
  cases hen : res.endTime with
  | none => exact ⟨g1, by simpa [endEvent] using grun_append_of h0 h1, k1⟩
  | some e =>
    by_cases he : e = 0
    · subst he; exact ⟨g1, by simpa [endEvent] using grun_append_of h0 h1, k1⟩
    · have h3 := hEnd g1 e he k1.1 (by rw [r1]; simp)
      exact ⟨{ g1 with openResults := g1.openResults.erase loc },
        by simpa [endEvent, he] using grun_append_of (grun_append_of h0 h1) (grun_single h3), ⟨k1.1, k1.2⟩⟩

theorem lenient_close (g1 : GState) (loc : Loc) (hl : loc ∈ g1.openResults) :
    closeResult .lenient g1 loc = some { g1 with openResults := g1.openResults.erase loc } := by
  simp [closeResult, hl, whenB, Mode.lenient]

theorem lenient_phase (now : Time) (hnow : now ≠ 0) (tid : Nat) (g : GState) (hr : g.phase = .running) (loc : Loc)
    (startE endE : Time → Event)
    (hStart : ∀ t, t ≠ 0 → Grammar.step .lenient g (startE t) = some { g with openResults := loc :: g.openResults })
    (hEnd : ∀ (g1 : GState) t, t ≠ 0 → g1.phase = .running → loc ∈ g1.openResults →
      Grammar.step .lenient g1 (endE t) = some { g1 with openResults := g1.openResults.erase loc })
    (o : Option Result) :
    ∃ g', Grammar.run .lenient g (replayPhase now tid loc startE endE o) = some g' ∧ Keeps g g' := by
  cases o with
  | none => exact ⟨g, rfl, hr, rfl⟩
  | some res => exact lenient_result now hnow tid g hr loc startE endE hStart hEnd res

theorem lenient_test (now : Time) (hnow : now ≠ 0) (tid : Nat) (g : GState) (hr : g.phase = .running) (p : Path) (hp : p ≠ [])
    (hopen : p ∈ g.openSuites) (t : TestResult) :
    ∃ g', Grammar.run .lenient g (replayTest now tid p t) = some g' ∧ Keeps g g' := by
  have hdrop : (p ++ [t.md.name]).dropLast = p := List.dropLast_concat
  have hnamed : named (p ++ [t.md.name]) t.md = true := by simp [named]
  have hpe : p.isEmpty = false := by cases p <;> simp_all
  have hrun := lenient_result now hnow tid g hr (.test (p ++ [t.md.name])) (fun x => Event.testStart (p ++ [t.md.name]) t.md x)
      (fun e => Event.testEnd (p ++ [t.md.name]) e)
      (fun x hx => by simp [Grammar.step, Grammar.time, hx, hr, hdrop, hpe, hopen, hnamed, openResult, whenB, Mode.lenient])
      (fun g1 x hx hr1 hl => by
        have : Grammar.step .lenient g1 (Event.testEnd (p ++ [t.md.name]) x) = closeResult .lenient g1 (.test (p ++ [t.md.name])) := by
          simp [Grammar.step, Grammar.time, hx, hr1]
        rw [this, lenient_close g1 _ hl]) t.result
  have hby : bypass .lenient g (p ++ [t.md.name]) t.md = some g := by
    simp [bypass, hdrop, hpe, hopen, hnamed, whenB, Mode.lenient]
  cases hst : t.result.status with
  | none => simpa [replayTest, hst] using hrun
  | some st =>
    cases st with
    | passed => simpa [replayTest, hst] using hrun
    | failed => simpa [replayTest, hst] using hrun
    | skipped =>
      refine ⟨g, ?_, hr, rfl⟩
      simp only [replayTest, hst]
      apply grun_single
      simp [Grammar.step, Grammar.time, evTime_ne_zero now hnow, hr, hby]
    | disabled =>
      refine ⟨g, ?_, hr, rfl⟩
      simp only [replayTest, hst]
      apply grun_single
      simp [Grammar.step, Grammar.time, evTime_ne_zero now hnow, hr, hby]

theorem lenient_tests (now : Time) (hnow : now ≠ 0) (tid : Nat) (p : Path) (hp : p ≠ []) :
    ∀ (ts : List TestResult) (g : GState), g.phase = .running → p ∈ g.openSuites →
      ∃ g', Grammar.run .lenient g (ts.flatMap (replayTest now tid p)) = some g' ∧ Keeps g g'
  | [], g, hr, _ => ⟨g, rfl, hr, rfl⟩
  | t :: ts, g, hr, ho => by
    obtain ⟨g1, h1, k1⟩ := lenient_test now hnow tid g hr p hp ho t
    obtain ⟨g2, h2, k2⟩ := lenient_tests now hnow tid p hp ts g1 k1.1 (by rw [k1.2]; exact ho)
    refine ⟨g2, ?_, k2.1, by rw [k2.2, k1.2]⟩
    simp only [List.flatMap_cons]
    exact grun_append_of h1 h2

/-- what a suite's events leave behind: still running, and no suite path of length ≤ that of the parent was touched -/
def KeepsUpTo (n : Nat) (g g' : GState) : Prop :=
  g'.phase = .running ∧ ∀ q : Path, q.length ≤ n → (q ∈ g'.openSuites ↔ q ∈ g.openSuites)

mutual
theorem lenient_suite (now : Time) (hnow : now ≠ 0) (tid : Nat) :
    ∀ (s : SuiteResult) (parent : Path) (g : GState), g.phase = .running → (parent = [] ∨ parent ∈ g.openSuites) →
      ∃ g', Grammar.run .lenient g (replaySuite now tid parent s) = some g' ∧ KeepsUpTo parent.length g g'
  | .mk md st en su td ts ss, parent, g, hr, hpar => by
    have hp : parent ++ [md.name] ≠ [] := by simp
    have hdrop : (parent ++ [md.name]).dropLast = parent := List.dropLast_concat
    have h0 : Grammar.step .lenient g (.suiteStart (parent ++ [md.name]) md (evTime now st))
        = some { g with openSuites := (parent ++ [md.name]) :: g.openSuites } := by
      have hparent : parentOpen g (parent ++ [md.name]) = true := by
        rcases hpar with rfl | hpar <;> simp [parentOpen, hdrop, *]
      simp [Grammar.step, Grammar.time, evTime_ne_zero now hnow, hr, hparent, named, whenB, Mode.lenient]
    have hphase : ∀ (g0 : GState), g0.phase = .running → (parent ++ [md.name]) ∈ g0.openSuites →
        ∀ (isSetup : Bool) (o : Option Result),
        ∃ g', Grammar.run .lenient g0 (replayPhase now tid
            (if isSetup then .suiteSetup (parent ++ [md.name]) else .suiteTeardown (parent ++ [md.name]))
            (fun t => if isSetup then .suiteSetupStart (parent ++ [md.name]) t else .suiteTeardownStart (parent ++ [md.name]) t)
            (fun t => if isSetup then .suiteSetupEnd (parent ++ [md.name]) t else .suiteTeardownEnd (parent ++ [md.name]) t) o)
          = some g' ∧ Keeps g0 g' := by
      intro g0 hr0 ho isSetup o
      apply lenient_phase now hnow tid g0 hr0
      · intro t ht
        cases isSetup <;> simp [Grammar.step, Grammar.time, ht, hr0, ho, openResult, whenB, Mode.lenient]
      · intro g1 t ht hr1 hl
        cases isSetup
        · have : Grammar.step .lenient g1 (.suiteTeardownEnd (parent ++ [md.name]) t)
              = closeResult .lenient g1 (.suiteTeardown (parent ++ [md.name])) := by
            simp [Grammar.step, Grammar.time, ht, hr1]
          simp only [Bool.false_eq_true, if_false] at hl ⊢
          rw [this, lenient_close g1 _ hl]
        · have : Grammar.step .lenient g1 (.suiteSetupEnd (parent ++ [md.name]) t)
              = closeResult .lenient g1 (.suiteSetup (parent ++ [md.name])) := by
            simp [Grammar.step, Grammar.time, ht, hr1]
          simp only [if_true] at hl ⊢
          rw [this, lenient_close g1 _ hl]
    -- chain
    obtain ⟨g1, e1, k1⟩ := hphase { g with openSuites := (parent ++ [md.name]) :: g.openSuites } hr (by simp) true su
    have o1 : (parent ++ [md.name]) ∈ g1.openSuites := by rw [k1.2]; simp
    obtain ⟨g2, e2, k2⟩ := lenient_tests now hnow tid _ hp ts g1 k1.1 o1
    have o2 : (parent ++ [md.name]) ∈ g2.openSuites := by rw [k2.2]; exact o1
    obtain ⟨g3, e3, k3⟩ := lenient_suites now hnow tid ss (parent ++ [md.name]) g2 k2.1 (Or.inr o2)
    have o3 : (parent ++ [md.name]) ∈ g3.openSuites := (k3.2 _ (Nat.le_refl _)).mpr o2
    obtain ⟨g4, e4, k4⟩ := hphase g3 k3.1 o3 false td
    have o4 : (parent ++ [md.name]) ∈ g4.openSuites := by rw [k4.2]; exact o3
    simp only [if_true] at e1
    simp only [Bool.false_eq_true, if_false] at e4
    have hupto : ∀ q : Path, q.length ≤ parent.length → (q ∈ g4.openSuites ↔ q ∈ g.openSuites) := by
      intro q hq
      rw [k4.2, k3.2 q (by simp; omega), k2.2, k1.2]
      simp only [List.mem_cons]
      constructor
      · rintro (rfl | h)
        · simp at hq; omega
        · exact h
      · exact Or.inr
    have hall := grun_append_of (grun_append_of (grun_append_of (grun_append_of (grun_single h0) e1) e2) e3) e4
    cases hen : en with
    | none => exact ⟨g4, by simpa [replaySuite, endEvent, hen] using hall, k4.1, hupto⟩
    | some e =>
      by_cases he : e = 0
      · subst he; exact ⟨g4, by simpa [replaySuite, endEvent, hen] using hall, k4.1, hupto⟩
      · have h5 : Grammar.step .lenient g4 (.suiteEnd (parent ++ [md.name]) e)
            = some { g4 with openSuites := g4.openSuites.erase (parent ++ [md.name]) } := by
          simp [Grammar.step, Grammar.time, he, k4.1, o4, whenB, Mode.lenient]
        refine ⟨{ g4 with openSuites := g4.openSuites.erase (parent ++ [md.name]) },
          by simpa [replaySuite, endEvent, hen, he] using grun_append_of hall (grun_single h5), k4.1, ?_⟩
        intro q hq
        have hne : q ≠ parent ++ [md.name] := by
          intro heq; subst heq; simp at hq; omega
        show q ∈ g4.openSuites.erase (parent ++ [md.name]) ↔ q ∈ g.openSuites
        rw [List.mem_erase_of_ne hne]
        exact hupto q hq
theorem lenient_suites (now : Time) (hnow : now ≠ 0) (tid : Nat) :
    ∀ (ss : List SuiteResult) (parent : Path) (g : GState), g.phase = .running → (parent = [] ∨ parent ∈ g.openSuites) →
      ∃ g', Grammar.run .lenient g (replaySuites now tid parent ss) = some g' ∧ KeepsUpTo parent.length g g'
  | [], _, g, hr, _ => ⟨g, rfl, hr, fun _ _ => Iff.rfl⟩
  | s :: ss, parent, g, hr, hpar => by
    obtain ⟨g1, e1, k1⟩ := lenient_suite now hnow tid s parent g hr hpar
    have hpar1 : parent = [] ∨ parent ∈ g1.openSuites := by
      rcases hpar with h | h
      · exact Or.inl h
      · exact Or.inr ((k1.2 parent (Nat.le_refl _)).mpr h)
    obtain ⟨g2, e2, k2⟩ := lenient_suites now hnow tid ss parent g1 k1.1 hpar1
    refine ⟨g2, ?_, k2.1, fun q hq => (k2.2 q hq).trans (k1.2 q hq)⟩
    simp only [replaySuites]
    exact grun_append_of e1 e2
end



/-! ### the whole report -/

theorem suitesFinished_iff : ∀ ss : List SuiteResult, suitesFinished ss = true ↔ ∀ s ∈ ss, suiteFinished s = true
  | [] => by simp [suitesFinished]
  | s :: ss => by simp [suitesFinished, suitesFinished_iff ss]

mutual
theorem suiteFinished_sortDeep : ∀ s : SuiteResult, suiteFinished s = true → suiteFinished (sortDeep s) = true
  | .mk md st en su td ts ss => by
    intro h
    simp only [suiteFinished, Bool.and_eq_true] at h
    obtain ⟨⟨⟨⟨h1, h2⟩, h3⟩, h4⟩, h5⟩ := h
    simp only [sortDeep, suiteFinished, Bool.and_eq_true]
    refine ⟨⟨⟨⟨h1, h2⟩, h3⟩, ?_⟩, ?_⟩
    · rw [all_sortByRank]; exact h4
    · rw [suitesFinished_iff]
      intro s hs
      rw [mem_sortByRank] at hs
      exact (suitesFinished_iff _).mp (suitesFinished_sortDeepList ss h5) s hs
theorem suitesFinished_sortDeepList : ∀ ss : List SuiteResult, suitesFinished ss = true → suitesFinished (sortDeepList ss) = true
  | [] => by simp [sortDeepList]
  | s :: ss => by
    intro h
    simp only [suitesFinished, Bool.and_eq_true] at h
    simp only [sortDeepList, suitesFinished, Bool.and_eq_true]
    exact ⟨suiteFinished_sortDeep s h.1, suitesFinished_sortDeepList ss h.2⟩
end

theorem suitesFinished_view (r : Report) (h : suitesFinished r.suites = true) : suitesFinished (view r) = true := by
  rw [suitesFinished_iff]
  intro s hs
  unfold view at hs
  rw [mem_sortByRank] at hs
  exact (suitesFinished_iff _).mp (suitesFinished_sortDeepList r.suites h) s hs

/-- the replayed stream of a finished report is accepted, in any strict mode, and ends in the `ended` phase -/
theorem strict_replay (m : Mode) (hm : m.strict = true) (now : Time) (hnow : now ≠ 0) (tid : Nat) (r : Report)
    (hf : finished r = true) :
    Grammar.run m Grammar.init (replay now tid r) = some { Grammar.init with phase := .ended } := by
  simp only [finished, Bool.and_eq_true] at hf
  obtain ⟨⟨⟨hen, hsu⟩, htd⟩, hss⟩ := hf
  obtain ⟨e, hne, he⟩ := endEvent_of_real r.endTime Event.sessionEnd hen
  have hq : Quiet { Grammar.init with phase := .running } := ⟨rfl, rfl, rfl⟩
  have h0 : Grammar.step m Grammar.init (.sessionStart (evTime now r.startTime)) = some { Grammar.init with phase := .running } := by
    simp [Grammar.step, Grammar.time, evTime_ne_zero now hnow, Grammar.init]
  have h1 := strict_phase m now hnow tid _ hq .sessionSetup .sessionSetupStart .sessionSetupEnd
    (fun t ht => by
      have : Grammar.step m { Grammar.init with phase := .running } (.sessionSetupStart t)
          = openResult m { Grammar.init with phase := .running } .sessionSetup := by
        simp [Grammar.step, Grammar.time, ht]
      rw [this, strict_open m _ hq])
    (fun t ht => by
      have : Grammar.step m { Grammar.init with phase := .running, openResults := [.sessionSetup] } (.sessionSetupEnd t)
          = closeResult m { Grammar.init with phase := .running, openResults := [.sessionSetup] } .sessionSetup := by
        simp [Grammar.step, Grammar.time, ht]
      rw [this]; exact strict_close m _ hq _) r.setup hsu
  have h3 := strict_phase m now hnow tid _ hq .sessionTeardown .sessionTeardownStart .sessionTeardownEnd
    (fun t ht => by
      have : Grammar.step m { Grammar.init with phase := .running } (.sessionTeardownStart t)
          = openResult m { Grammar.init with phase := .running } .sessionTeardown := by
        simp [Grammar.step, Grammar.time, ht]
      rw [this, strict_open m _ hq])
    (fun t ht => by
      have : Grammar.step m { Grammar.init with phase := .running, openResults := [.sessionTeardown] } (.sessionTeardownEnd t)
          = closeResult m { Grammar.init with phase := .running, openResults := [.sessionTeardown] } .sessionTeardown := by
        simp [Grammar.step, Grammar.time, ht]
      rw [this]; exact strict_close m _ hq _) r.teardown htd
  have h2 := strict_suites m now hnow tid (view r) [] _ hq (by simp [Grammar.init]) (Or.inl rfl) (suitesFinished_view r hss)
  have h4 : Grammar.step m { Grammar.init with phase := .running } (.sessionEnd e) = some { Grammar.init with phase := .ended } := by
    simp [Grammar.step, Grammar.time, hne, Grammar.init, whenB]
  unfold replay
  rw [he]
  exact grun_append_of (grun_append_of (grun_append_of (grun_append_of (grun_single h0) h1) h2) h3) (grun_single h4)

/-- the replayed stream of ANY report satisfies containment -/
theorem lenient_replay (now : Time) (hnow : now ≠ 0) (tid : Nat) (r : Report) :
    ∃ g, Grammar.run .lenient Grammar.init (replay now tid r) = some g := by
  have h0 : Grammar.step .lenient Grammar.init (.sessionStart (evTime now r.startTime))
      = some { Grammar.init with phase := .running } := by
    simp [Grammar.step, Grammar.time, evTime_ne_zero now hnow, Grammar.init]
  have hphase : ∀ (g0 : GState), g0.phase = .running → ∀ (isSetup : Bool) (o : Option Result),
      ∃ g', Grammar.run .lenient g0 (replayPhase now tid (if isSetup then .sessionSetup else .sessionTeardown)
          (fun t => if isSetup then .sessionSetupStart t else .sessionTeardownStart t)
          (fun t => if isSetup then .sessionSetupEnd t else .sessionTeardownEnd t) o) = some g' ∧ Keeps g0 g' := by
    intro g0 hr0 isSetup o
    apply lenient_phase now hnow tid g0 hr0
    · intro t ht
      cases isSetup <;> simp [Grammar.step, Grammar.time, ht, hr0, openResult, whenB, Mode.lenient]
    · intro g1 t ht hr1 hl
      cases isSetup
      · have : Grammar.step .lenient g1 (.sessionTeardownEnd t) = closeResult .lenient g1 .sessionTeardown := by
          simp [Grammar.step, Grammar.time, ht, hr1]
        simp only [Bool.false_eq_true, if_false] at hl ⊢
        rw [this, lenient_close g1 _ hl]
      · have : Grammar.step .lenient g1 (.sessionSetupEnd t) = closeResult .lenient g1 .sessionSetup := by
          simp [Grammar.step, Grammar.time, ht, hr1]
        simp only [if_true] at hl ⊢
        rw [this, lenient_close g1 _ hl]
  obtain ⟨g1, e1, k1⟩ := hphase { Grammar.init with phase := .running } rfl true r.setup
  obtain ⟨g2, e2, k2⟩ := lenient_suites now hnow tid (view r) [] g1 k1.1 (Or.inl rfl)
  obtain ⟨g3, e3, k3⟩ := hphase g2 k2.1 false r.teardown
  simp only [if_true] at e1
  simp only [Bool.false_eq_true, if_false] at e3
  have hall := grun_append_of (grun_append_of (grun_append_of (grun_single h0) e1) e2) e3
  unfold replay
  cases hen : r.endTime with
  | none => exact ⟨g3, by simpa [endEvent] using hall⟩
  | some e =>
    by_cases he : e = 0
    · subst he; exact ⟨g3, by simpa [endEvent] using hall⟩
    · have h5 : Grammar.step .lenient g3 (.sessionEnd e) = some { g3 with phase := .ended } := by
        simp [Grammar.step, Grammar.time, he, k3.1, whenB, Mode.lenient]
      exact ⟨{ g3 with phase := .ended }, by simpa [endEvent, he] using grun_append_of hall (grun_single h5)⟩

end LccModel.ReplayGrammar

/-
  Definitions used by `Props/C04Setup.lean` (property theorem files hold theorems only): "the suite has a setup phase", and a sample
  project — a NESTED suite with a setup_suite hook whose only test is disabled, under --force-disabled.
-/
import LccModel.Model.Run

namespace LccModel.Run.SetupSample
open LccModel.Report LccModel.Run

/-- the suite has something to set up or tear down -/
def hasSetupPhase (P : Proj) (sv : SuiteView) : Bool :=
  !(suiteFixtures P sv).isEmpty || !sv.spec.injected.isEmpty || sv.spec.setupSuite.isSome || sv.spec.teardownSuite.isSome

def inner : SuiteSpec := .mk "sub" 0 false (some ([], [.log .info])) none none none [] [⟨"t", 0, true, false, [], [], [.log .info]⟩] []
def outer : SuiteSpec := .mk "s" 0 false none none none none [] [⟨"u", 0, false, false, [], [], [.log .info]⟩] [inner]
def PF : Proj := ⟨[], [outer], 1, true, false⟩

end LccModel.Run.SetupSample

import LccModel.Model.EventManager

namespace LccModel.EM

/-- what the handler thread has seen so far, given whether it is still alive -/
def Seen (fails : Nat → Bool) (s : St) : Prop :=
  if s.alive then s.pending = none ∧ ∀ x ∈ s.handled, fails x = false
  else ∃ pre e, s.handled = pre ++ [e] ∧ s.pending = some e ∧ fails e = true ∧ ∀ x ∈ pre, fails x = false

structure Inv (fails : Nat → Bool) (s : St) : Prop where
  split : s.handled ++ s.queue = s.fired
  seen  : Seen fails s

theorem inv_init (fails : Nat → Bool) (cap : Option Nat) : Inv fails (init cap) :=
  ⟨rfl, by simp [Seen, init]⟩

theorem inv_fire {fails : Nat → Bool} {s s' : St} {e : Nat} (h : Inv fails s) (hf : fire s e = some s') :
    Inv fails s' := by
  unfold fire at hf
  split at hf
  · injection hf with hf; subst hf
    refine ⟨?_, ?_⟩
    · show s.handled ++ (s.queue ++ [e]) = s.fired ++ [e]
      rw [← List.append_assoc, h.split]
    · exact h.seen
  · cases hf

theorem inv_handle {fails : Nat → Bool} {s s' : St} (h : Inv fails s) (hh : handle fails s = some s') :
    Inv fails s' := by
  unfold handle at hh
  split at hh
  next ha =>
    cases hq : s.queue with
    | nil => rw [hq] at hh; cases hh
    | cons e q =>
      rw [hq] at hh; simp only at hh
      have hs := h.seen; unfold Seen at hs; rw [if_pos ha] at hs
      have hsp := h.split; rw [hq] at hsp
      split at hh
      next hfe =>
        injection hh with hh; subst hh
        refine ⟨?_, ?_⟩
        · show (s.handled ++ [e]) ++ q = s.fired
          rw [List.append_assoc]; exact hsp
        · unfold Seen; simp only [Bool.false_eq_true, if_false]
          exact ⟨s.handled, e, rfl, rfl, hfe, hs.2⟩
      next hfe =>
        injection hh with hh; subst hh
        refine ⟨?_, ?_⟩
        · show (s.handled ++ [e]) ++ q = s.fired
          rw [List.append_assoc]; exact hsp
        · unfold Seen; simp only [ha, if_true]
          refine ⟨hs.1, ?_⟩
          intro x hx
          rcases List.mem_append.mp hx with hx | hx
          · exact hs.2 x hx
          · have : x = e := by simpa using hx
            subst this; simpa using hfe
  · cases hh

theorem inv_step {fails : Nat → Bool} {s s' : St} {o : Op} (h : Inv fails s) (hs : step fails s o = some s') :
    Inv fails s' := by
  cases o with
  | fire e => exact inv_fire h hs
  | handle =>
    simp only [step, Option.some.injEq] at hs
    cases hh : handle fails s with
    | none => rw [hh] at hs; simp only [Option.getD_none] at hs; subst hs; exact h
    | some s2 => rw [hh] at hs; simp only [Option.getD_some] at hs; subst hs; exact inv_handle h hh

theorem inv_run {fails : Nat → Bool} : ∀ (ops : List Op) {s s' : St}, Inv fails s → run fails s ops = some s' → Inv fails s'
  | [], s, s', h, hr => by simp only [run, Option.some.injEq] at hr; subst hr; exact h
  | o :: os, s, s', h, hr => by
    simp only [run] at hr
    cases hs : step fails s o with
    | none => rw [hs] at hr; cases hr
    | some s2 => rw [hs] at hr; exact inv_run os (inv_step h hs) hr

/-! ### the queue bound is kept by every transition -/

theorem cap_fire {s s' : St} {e : Nat} (h : fire s e = some s') : s'.cap = s.cap := by
  unfold fire at h; split at h
  · injection h with h; subst h; rfl
  · cases h

theorem cap_handle {fails : Nat → Bool} {s s' : St} (h : handle fails s = some s') : s'.cap = s.cap := by
  unfold handle at h
  split at h
  · cases hq : s.queue with
    | nil => rw [hq] at h; cases h
    | cons e q =>
      rw [hq] at h; simp only at h
      split at h <;> (injection h with h; subst h; rfl)
  · cases h

theorem cap_step {fails : Nat → Bool} {s s' : St} {o : Op} (h : step fails s o = some s') : s'.cap = s.cap := by
  cases o with
  | fire e => exact cap_fire h
  | handle =>
    simp only [step, Option.some.injEq] at h
    cases hh : handle fails s with
    | none => rw [hh] at h; simp only [Option.getD_none] at h; subst h; rfl
    | some s2 => rw [hh] at h; simp only [Option.getD_some] at h; subst h; exact cap_handle hh

theorem cap_run {fails : Nat → Bool} : ∀ (ops : List Op) {s s' : St}, run fails s ops = some s' → s'.cap = s.cap
  | [], s, s', hr => by simp only [run, Option.some.injEq] at hr; subst hr; rfl
  | o :: os, s, s', hr => by
    simp only [run] at hr
    cases hs : step fails s o with
    | none => rw [hs] at hr; cases hr
    | some s2 => rw [hs] at hr; rw [cap_run os hr, cap_step hs]

/-! ### draining -/

theorem uptoFirstFailure_all_ok {fails : Nat → Bool} : ∀ {l : List Nat}, (∀ x ∈ l, fails x = false) → uptoFirstFailure fails l = l
  | [], _ => rfl
  | e :: es, h => by
    have he : fails e = false := h e (by simp)
    simp only [uptoFirstFailure, he, Bool.false_eq_true, if_false]
    rw [uptoFirstFailure_all_ok (fun x hx => h x (by simp [hx]))]

theorem uptoFirstFailure_append_ok {fails : Nat → Bool} : ∀ {l : List Nat} (r : List Nat), (∀ x ∈ l, fails x = false) →
    uptoFirstFailure fails (l ++ r) = l ++ uptoFirstFailure fails r
  | [], _, _ => rfl
  | e :: es, r, h => by
    have he : fails e = false := h e (by simp)
    simp only [List.cons_append, uptoFirstFailure, he, Bool.false_eq_true, if_false]
    rw [uptoFirstFailure_append_ok r (fun x hx => h x (by simp [hx]))]

theorem uptoFirstFailure_stop {fails : Nat → Bool} {pre : List Nat} {e : Nat} (r : List Nat)
    (hpre : ∀ x ∈ pre, fails x = false) (he : fails e = true) :
    uptoFirstFailure fails (pre ++ [e] ++ r) = pre ++ [e] := by
  rw [List.append_assoc, uptoFirstFailure_append_ok _ hpre]
  simp [uptoFirstFailure, he]

/-- after the drain (fuel ≥ queue length) the handler thread has consumed the queue up to its first failing event -/
theorem drain_spec (fails : Nat → Bool) : ∀ (n : Nat) (s : St), s.alive = true → s.queue.length ≤ n →
    (drain fails n s).handled = s.handled ++ uptoFirstFailure fails s.queue ∧
    (drain fails n s).fired = s.fired
  | 0, s, _, hn => by
    have : s.queue = [] := List.eq_nil_of_length_eq_zero (Nat.le_zero.mp hn)
    simp [drain, this, uptoFirstFailure]
  | n + 1, s, ha, hn => by
    cases hq : s.queue with
    | nil => simp [drain, handle, ha, hq, uptoFirstFailure]
    | cons e q =>
      by_cases hfe : fails e = true
      · have : handle fails s = some { s with queue := q, alive := false, handled := s.handled ++ [e], pending := some e } := by
          simp [handle, ha, hq, hfe]
        simp only [drain, this]
        -- the loop has stopped: further iterations do nothing
        have hdead : ∀ (m : Nat) (t : St), t.alive = false → drain fails m t = t := by
          intro m; induction m with
          | zero => intro t _; rfl
          | succ m ih => intro t ht; simp [drain, handle, ht]
        rw [hdead n _ rfl]
        simp [uptoFirstFailure, hfe]
      · have hfe' : fails e = false := by simpa using hfe
        have : handle fails s = some { s with queue := q, handled := s.handled ++ [e] } := by
          simp [handle, ha, hq, hfe']
        simp only [drain, this]
        have hlen : q.length ≤ n := by rw [hq] at hn; simpa using hn
        have ih := drain_spec fails n { s with queue := q, handled := s.handled ++ [e] } ha hlen
        simp only at ih
        refine ⟨?_, ih.2⟩
        rw [ih.1]; simp [uptoFirstFailure, hfe']

/-- the pending failure after the drain is the first failing event of the queue -/
theorem drain_pending (fails : Nat → Bool) : ∀ (n : Nat) (s : St), s.alive = true → s.pending = none → s.queue.length ≤ n →
    (drain fails n s).pending = s.queue.find? fails
  | 0, s, _, hp, hn => by
    have : s.queue = [] := List.eq_nil_of_length_eq_zero (Nat.le_zero.mp hn)
    simp [drain, this, hp]
  | n + 1, s, ha, hp, hn => by
    cases hq : s.queue with
    | nil => simp [drain, handle, ha, hq, hp]
    | cons e q =>
      by_cases hfe : fails e = true
      · have : handle fails s = some { s with queue := q, alive := false, handled := s.handled ++ [e], pending := some e } := by
          simp [handle, ha, hq, hfe]
        simp only [drain, this]
        have hdead : ∀ (m : Nat) (t : St), t.alive = false → drain fails m t = t := by
          intro m; induction m with
          | zero => intro t _; rfl
          | succ m ih => intro t ht; simp [drain, handle, ht]
        rw [hdead n _ rfl]
        simp [List.find?, hfe]
      · have hfe' : fails e = false := by simpa using hfe
        have : handle fails s = some { s with queue := q, handled := s.handled ++ [e] } := by
          simp [handle, ha, hq, hfe']
        simp only [drain, this]
        have hlen : q.length ≤ n := by rw [hq] at hn; simpa using hn
        have ih := drain_pending fails n { s with queue := q, handled := s.handled ++ [e] } ha hp hlen
        simp only at ih
        rw [ih]; simp [List.find?, hfe']

theorem drain_dead (fails : Nat → Bool) : ∀ (m : Nat) (t : St), t.alive = false → drain fails m t = t := by
  intro m; induction m with
  | zero => intro t _; rfl
  | succ m _ => intro t ht; simp [drain, handle, ht]

/-- the handler thread has ended once it was given as many iterations as there were queued events -/
theorem drain_ended (fails : Nat → Bool) : ∀ (n : Nat) (s : St), s.queue.length ≤ n → threadEnded (drain fails n s) = true := by
  intro n
  induction n with
  | zero =>
    intro s h
    have : s.queue = [] := List.eq_nil_of_length_eq_zero (Nat.le_zero.mp h)
    simp [drain, threadEnded, this]
  | succ n ih =>
    intro s h
    cases ha : s.alive with
    | false => simp [drain, handle, ha, threadEnded]
    | true =>
      cases hq : s.queue with
      | nil => simp [drain, handle, ha, hq, threadEnded]
      | cons e q =>
        have hlen : q.length ≤ n := by rw [hq] at h; simpa using h
        cases hf : fails e with
        | true =>
          simp only [drain, handle, ha, hq, hf, if_true]
          exact ih _ hlen
        | false =>
          simp only [drain, handle, ha, hq, hf, if_true, Bool.false_eq_true, if_false]
          exact ih _ hlen

end LccModel.EM

/-
  C05 helpers, part 11: the erasure `eraseTimes` ("only timestamps differ"), streams that differ in labels only
  (`SameUpToLabels`), and the executable checks `drivers/C05.lean` runs on the REAL streams of an N-thread run and of a
  1-thread run: `nThreadsCheckB` (soundness: `C05.n_threads_check_sound` in Props/C05.lean).
-/
import LccModel.Lemmas.WriterTid
import LccModel.Lemmas.WriterTrace
set_option linter.unusedSimpArgs false
set_option linter.unusedVariables false
namespace LccModel.Writer
open LccModel.Report

/-! ### the canonical re-labellings -/

/-- `attachments/<counter>_<name>` ↦ `attachments/<name>`: the file name `Session._prepare_attachment` builds is
    `"%04d_%s" % (global counter, name)` under `attachments/` — at least four digits, then `_`.  Anything else is kept. -/
def dropCounter (cs : List Char) : List Char :=
  let pre := "attachments/".toList
  if pre.isPrefixOf cs then
    let rest := cs.drop pre.length
    let digits := rest.takeWhile Char.isDigit
    match rest.dropWhile Char.isDigit with
    | '_' :: tail => if 4 ≤ digits.length then pre ++ tail else cs
    | _ => cs
  else cs

def blankCounter (s : String) : String := String.ofList (dropCounter s.toList)

/-- the finest re-labelling that forgets everything two schedules of one run may differ in: every time becomes 0 — except
    step-end times, of which "is zero" is kept (the writer reads it) — and the attachment counter is dropped -/
def normLab : Lab :=
  { stepEnd := fun t => if t = 0 then 0 else 1, time := fun _ => 0, file := blankCounter }

theorem normLab_ok : normLab.Ok := by
  intro t
  simp only [normLab]
  split <;> simp_all

/-- all times := 0 (present stays present, absent stays absent), attachment counters dropped -/
def eraseLab : Lab := { stepEnd := fun _ => 0, time := fun _ => 0, file := blankCounter }

def eraseOnly : Lab := { stepEnd := fun _ => 0, time := fun _ => 0, file := id }

theorem eraseOnly_comp_normLab : eraseOnly.comp normLab = eraseLab := rfl

/-- **`eraseTimes`**: what is left of a report when "only timestamps differ" is taken away — every time field that is set
    becomes `some 0` (so "finished / not finished" stays visible, as in the harness's timestamp-free normal form
    `run/oracles.py:normal_form`), every log / check / attachment / url time becomes 0, and the global counter in attachment
    file names is dropped. -/
def eraseTimes (r : Report) : Report := labReport eraseLab r
/-- the same on a list of suites (the rank-sorted `view`) -/
def eraseTimesSuites (ss : List SuiteResult) : List SuiteResult := labSuites eraseLab ss

theorem eraseTimes_eq (r : Report) : eraseTimes r = labReport eraseOnly (labReport normLab r) := by
  rw [labReport_comp, eraseOnly_comp_normLab]; rfl

/-- `view` commutes with `eraseTimes` -/
theorem view_eraseTimes (r : Report) : view (eraseTimes r) = eraseTimesSuites (view r) := view_lab eraseLab r

theorem distinctSiblingRanks_eraseTimes (r : Report) : DistinctSiblingRanks (eraseTimes r) ↔ DistinctSiblingRanks r :=
  distinctSiblingRanks_lab eraseLab r

/-! ### streams that differ in labels only -/

/-- The two streams are the same up to the labels the writer copies: position by position the same event, except for
    times — a step-end time may only be replaced by a time that is zero iff it is — and for the counter in attachment file
    names. -/
def SameUpToLabels (es es' : List Event) : Prop := es.map (labEvent normLab) = es'.map (labEvent normLab)

instance (es es' : List Event) : Decidable (SameUpToLabels es es') := by unfold SameUpToLabels; exact inferInstance

theorem SameUpToLabels.symm {es es' : List Event} (h : SameUpToLabels es es') : SameUpToLabels es' es := Eq.symm h

/-- a per-event re-labelling that changes labels only -/
theorem sameUpToLabels_map {τ : Event → Event} (hτ : ∀ e, labEvent normLab (τ e) = labEvent normLab e) (es : List Event) :
    SameUpToLabels (es.map τ) es := by
  simp only [SameUpToLabels, List.map_map]
  apply List.map_congr_left
  intro e _
  exact hτ e

theorem except_map_map {ε α β γ : Type} (g : β → γ) (f : α → β) (x : Except ε α) :
    Except.map g (Except.map f x) = Except.map (fun a => g (f a)) x := by cases x <;> rfl

/-- **Time (and attachment-counter) re-labelling invariance**: two streams that differ in labels only are handled with the
    same outcome — the same error, or reports that are equal once times and attachment counters are erased. -/
theorem fold_sameUpToLabels {es es' : List Event} (h : SameUpToLabels es es') :
    Except.map eraseTimes (fold es) = Except.map eraseTimes (fold es') := by
  have h1 := fold_lab normLab_ok es
  have h2 := fold_lab normLab_ok es'
  rw [show es.map (labEvent normLab) = es'.map (labEvent normLab) from h, h2] at h1
  have h3 := congrArg (Except.map (labReport eraseOnly)) h1
  rw [except_map_map, except_map_map] at h3
  have : (fun a => labReport eraseOnly (labReport normLab a)) = eraseTimes := funext fun a => (eraseTimes_eq a).symm
  rw [this] at h3
  exact h3.symm

/-- …and are inside the discipline together -/
theorem drun_sameUpToLabels {es es' : List Event} (h : SameUpToLabels es es') :
    (∃ w, drun initState es = .ok w) → ∃ w', drun initState es' = .ok w' := by
  rintro ⟨w, hw⟩
  have h1 := drun_lab normLab_ok es initState
  have h2 := drun_lab normLab_ok es' initState
  rw [show es.map (labEvent normLab) = es'.map (labEvent normLab) from h, h2, hw] at h1
  cases hd : drun initState es' with
  | ok w' => exact ⟨w', rfl⟩
  | error e => rw [hd] at h1; cases h1

/-! ### `SameContent` is kept by a re-labelling -/

theorem sameSuite_lab_both (L : Lab) :
    (∀ s s', SameSuite s s' → SameSuite (labSuite L s) (labSuite L s')) ∧
    (∀ l l', SameSuites l l' → SameSuites (labSuites L l) (labSuites L l')) := by
  apply SameSuite.mutual_ind
  · intro md st en su td ts ts' ss ss' hp _ ih
    simp only [labSuite]
    exact .mk md _ _ _ _ (hp.map _) ih
  · exact .nil
  · intro s s' l l' _ _ ih1 ih2
    simp only [labSuites]
    exact .cons ih1 ih2
  · intro a b l
    simp only [labSuites]
    exact .swap _ _ _
  · intro l₁ l₂ l₃ _ _ ih1 ih2
    exact .trans ih1 ih2

theorem sameContent_lab (L : Lab) {r r' : Report} (h : SameContent r r') : SameContent (labReport L r) (labReport L r') := by
  refine ⟨h.1, h.2, h.3, ?_, ?_, ?_, ?_, ?_, (sameSuite_lab_both L).2 _ _ h.9⟩
  · simp only [labReport, h.4]
  · simp only [labReport, h.5]
  · simp only [labReport, h.6]
  · simp only [labReport, h.7]
  · simp only [labReport, h.8]

/-! ### the executable checks -/

/-- handled without error within the strengthened discipline, from the empty report -/
def disciplinedTB (es : List Event) : Bool := (drunT initState es).toOption.isSome

theorem disciplinedTB_sound {es : List Event} (h : disciplinedTB es = true) : ∃ w, drunT initState es = .ok w := by
  unfold disciplinedTB at h
  cases hd : drunT initState es with
  | ok w => exact ⟨w, rfl⟩
  | error e => rw [hd] at h; simp [Except.toOption] at h

/-- `ρ` is injective on the (location, thread id) pairs of the stream -/
def tidInjOnB (ρ : Loc → Nat → Nat) (es : List Event) : Bool :=
  let ps := tidLocs es
  ps.all fun p => ps.all fun q => (ρ p.1 p.2 != ρ q.1 q.2) || (p == q)

theorem tidInjOnB_sound {ρ : Loc → Nat → Nat} {es : List Event} (h : tidInjOnB ρ es = true) : TidInjOn ρ es := by
  intro l t l' t' hp hq heq
  have h1 := List.all_eq_true.mp h (l, t) hp
  have h2 := List.all_eq_true.mp h1 (l', t') hq
  simp only [Bool.or_eq_true, bne_iff_ne, ne_eq, beq_iff_eq, Prod.mk.injEq] at h2
  rcases h2 with h3 | h3
  · exact absurd heq h3
  · exact h3

/-- `TidOk`, as a boolean -/
def tidOkB (ρ : Loc → Nat → Nat) (es : List Event) : Bool := tidInjOnB ρ es || tidSimB ρ es

theorem tidOkB_sound {ρ : Loc → Nat → Nat} {es : List Event} (h : tidOkB ρ es = true) : TidOk ρ es := by
  simp only [tidOkB, Bool.or_eq_true] at h
  rcases h with h | h
  · exact Or.inl (tidInjOnB_sound h)
  · exact Or.inr h

/-- the re-labelling of thread ids given by a finite table ((location, old id) ↦ new id; identity elsewhere) -/
def tableRho (tab : List ((Loc × Nat) × Nat)) (l : Loc) (t : Nat) : Nat :=
  match tab.lookup (l, t) with
  | some n => n
  | none => t

/-- **The whole hypothesis list of `C05.n_threads_equals_one_thread`, as a boolean** over the REAL streams `esN` (N threads)
    and `es1` (one thread), the re-labelled streams `a`, `b` the harness built from them, and the two thread-id tables it
    used: both real streams are inside the strengthened discipline; each table is injective on the (location, thread id)
    pairs of its stream or, more generally, keeps every lookup on the same binding (`TidOk`); `a` (`b`) is the real N-thread (1-thread) stream with thread ids re-labelled through the table,
    up to times and attachment counters; and `a`, `b` pass `scheduleCheckB` (same events, no event twice, dependent events
    in the same order). -/
def nThreadsCheckB (esN es1 a b : List Event) (tabN tab1 : List ((Loc × Nat) × Nat)) : Bool :=
  disciplinedTB esN && disciplinedTB es1 &&
  tidOkB (tableRho tabN) esN && tidOkB (tableRho tab1) es1 &&
  decide (SameUpToLabels a (esN.map (relabelTid (tableRho tabN)))) &&
  decide (SameUpToLabels b (es1.map (relabelTid (tableRho tab1)))) &&
  scheduleCheckB a b

theorem fold_of_drunT {es : List Event} {w : WriterState} (h : drunT initState es = .ok w) : fold es = .ok w.report := by
  simp only [fold, run_of_drun (drun_of_drunT h)]

/-! ### "times become positions" -/

def setTime (t : Time) : Event → Event
  | .sessionStart _ => .sessionStart t
  | .sessionEnd _ => .sessionEnd t
  | .sessionSetupStart _ => .sessionSetupStart t
  | .sessionSetupEnd _ => .sessionSetupEnd t
  | .sessionTeardownStart _ => .sessionTeardownStart t
  | .sessionTeardownEnd _ => .sessionTeardownEnd t
  | .suiteStart p md _ => .suiteStart p md t
  | .suiteEnd p _ => .suiteEnd p t
  | .suiteSetupStart p _ => .suiteSetupStart p t
  | .suiteSetupEnd p _ => .suiteSetupEnd p t
  | .suiteTeardownStart p _ => .suiteTeardownStart p t
  | .suiteTeardownEnd p _ => .suiteTeardownEnd p t
  | .testStart p md _ => .testStart p md t
  | .testEnd p _ => .testEnd p t
  | .testSkipped p md r _ => .testSkipped p md r t
  | .testDisabled p md r _ => .testDisabled p md r t
  | .stepStart loc d tid _ => .stepStart loc d tid t
  | .stepEnd loc s tid _ => .stepEnd loc s tid t
  | .log loc s tid level m _ => .log loc s tid level m t
  | .check loc s tid d ok det _ => .check loc s tid d ok det t
  | .attachment loc s tid path d img _ => .attachment loc s tid path d img t
  | .url loc s tid u d _ => .url loc s tid u d t

/-- the time of every event := its position (counted from `k + 1`) -/
def retimeFrom (k : Nat) : List Event → List Event
  | [] => []
  | e :: es => setTime (k + 1) e :: retimeFrom (k + 1) es

/-- a step-end event whose time is 0 (`Step.end_time` falsy: the step still accepts logs) -/
def stepEndAtZero : Event → Bool
  | .stepEnd _ _ _ t => t == 0
  | _ => false

theorem setTime_succ_sameLabels (k : Nat) {e : Event} (h : stepEndAtZero e = false) :
    labEvent normLab (setTime (k + 1) e) = labEvent normLab e := by
  cases e <;> first | rfl | skip
  rename_i loc s tid t
  simp only [stepEndAtZero, beq_eq_false_iff_ne, ne_eq] at h
  simp [setTime, labEvent, normLab, h]

/-- **replacing every time by the event's position changes labels only**, provided no step ends at time 0 -/
theorem retimeFrom_sameUpToLabels : ∀ (k : Nat) (es : List Event), (∀ e ∈ es, stepEndAtZero e = false) →
    SameUpToLabels (retimeFrom k es) es
  | _, [], _ => rfl
  | k, e :: es, h => by
    have ih := retimeFrom_sameUpToLabels (k + 1) es (fun e' he' => h e' (List.mem_cons_of_mem _ he'))
    simp only [SameUpToLabels, retimeFrom, List.map_cons] at ih ⊢
    rw [setTime_succ_sameLabels k (h e List.mem_cons_self), ih]

end LccModel.Writer

/-
  Helper lemmas for `Props/C13Heads.lean`: the heads of the suites in the directory loader's table
  are preserved by the module/directory merge.
-/
import LccModel.Model.LoaderHeads
import LccModel.Lemmas.LoaderDir

namespace LccModel.Loader

open List

theorem attach_head_tests {s s' : Suite} {subs : List Suite} (h : attach s subs = .ok s') :
    s'.head = s.head ∧ s'.tests = s.tests := by
  cases s with
  | mk hd ts ss =>
    unfold attach at h
    cases ha : addSuites ss subs with
    | error e => simp [ha] at h
    | ok ss' =>
      simp only [ha, Except.ok.injEq] at h
      subst h
      exact ⟨rfl, rfl⟩

theorem heads_append (t u : Table) : Table.heads (t ++ u) = Table.heads t ++ Table.heads u := by
  simp [Table.heads]

theorem heads_update (k : Key) (s s' : Suite) (hh : s'.head = s.head) :
    ∀ (t : Table), t.lookup k = some s → Table.heads (Table.update k s' t) = Table.heads t
  | [], h => by simp [List.lookup] at h
  | (k', s0) :: rest, h => by
    simp only [List.lookup] at h
    by_cases hk : k = k'
    · subst hk
      simp only [beq_self_eq_true] at h
      injection h with h; subst h
      simp [Table.update, Table.heads, hh]
    · have hb : (k == k') = false := by simpa using hk
      have hk' : ¬ k' = k := fun h => hk h.symm
      simp only [hb] at h
      have ih := heads_update k s s' hh rest h
      simp only [Table.update, hk', if_false, Table.heads, List.map_cons] at ih ⊢
      rw [ih]

theorem lookup_isNone_update (k : Key) (s : Suite) (k' : Key) : ∀ (t : Table),
    ((Table.update k s t).lookup k').isNone = (t.lookup k').isNone
  | [] => rfl
  | (k0, s0) :: rest => by
    simp only [Table.update]
    by_cases hk : k0 = k
    · simp only [hk, if_true, List.lookup]
      cases (k' == k) <;> rfl
    · simp only [hk, if_false, List.lookup]
      cases (k' == k0)
      · exact lookup_isNone_update k s k' rest
      · rfl

theorem lookup_file_append_dir (x dn : String) (s : Suite) : ∀ (t : Table),
    (t ++ [(Key.dir dn, s)]).lookup (Key.file x) = t.lookup (Key.file x)
  | [] => by
    have : (Key.file x == Key.dir dn) = false := by simp
    simp [List.lookup, this]
  | (k0, s0) :: rest => by
    simp only [List.cons_append, List.lookup]
    cases (Key.file x == k0)
    · exact lookup_file_append_dir x dn s rest
    · rfl

theorem synthHeads_congr {t t' : Table} (h : ∀ x, (t'.lookup (Key.file x)).isNone = (t.lookup (Key.file x)).isNone)
    (rs : List (String × Except LoadErr (List Suite))) : synthHeads t' rs = synthHeads t rs := by
  unfold synthHeads
  congr 1
  apply List.filter_congr
  intro p _
  exact h p.1

/-- The second loop, head-wise. -/
theorem mergeDirs_heads_aux : ∀ (rs : List (String × Except LoadErr (List Suite))) (t t' : Table),
    mergeDirs t rs = .ok t' → Table.heads t' = Table.heads t ++ synthHeads t rs
  | [], t, t', h => by
    simp only [mergeDirs, Except.ok.injEq] at h; subst h; simp [synthHeads]
  | (dn, r) :: rest, t, t', h => by
    simp only [mergeDirs] at h
    cases r with
    | error e => simp at h
    | ok subs =>
      simp only at h
      cases hl : t.lookup (Key.file dn) with
      | some s =>
        simp only [hl] at h
        cases ha : attach s subs with
        | error e => simp [ha] at h
        | ok s' =>
          simp only [ha] at h
          have ih := mergeDirs_heads_aux rest _ t' h
          rw [ih, heads_update (Key.file dn) s s' (attach_head_tests ha).1 t hl,
            synthHeads_congr (fun x => lookup_isNone_update (Key.file dn) s' (Key.file x) t)]
          simp [synthHeads, hl]
      | none =>
        simp only [hl] at h
        cases ha : attach (synthetic dn) subs with
        | error e => simp [ha] at h
        | ok s' =>
          simp only [ha] at h
          have ih := mergeDirs_heads_aux rest _ t' h
          have hc := synthHeads_congr (t := t) (t' := t ++ [(Key.dir dn, s')])
            (fun x => by rw [lookup_file_append_dir x dn s' t]) rest
          rw [ih, heads_append, hc]
          simp [synthHeads, hl, Table.heads, (attach_head_tests ha).1]

theorem mem_heads {t : Table} {k : Key} {h : SuiteHead} :
    (k, h) ∈ Table.heads t ↔ ∃ s, (k, s) ∈ t ∧ s.head = h := by
  simp only [Table.heads, List.mem_map, Prod.mk.injEq]
  constructor
  · rintro ⟨⟨k', s⟩, hm, rfl, rfl⟩; exact ⟨s, hm, rfl⟩
  · rintro ⟨s, hm, rfl⟩; exact ⟨(k, s), hm, rfl, rfl⟩

theorem synthHeads_mem {t : Table} {rs : List (String × Except LoadErr (List Suite))} {k : Key} {h : SuiteHead}
    (hm : (k, h) ∈ synthHeads t rs) :
    ∃ dn, k = Key.dir dn ∧ h = (synthetic dn).head ∧ t.lookup (Key.file dn) = none ∧ dn ∈ rs.map Prod.fst := by
  simp only [synthHeads, List.mem_map, List.mem_filter, Prod.mk.injEq] at hm
  obtain ⟨p, ⟨hp, hn⟩, rfl, rfl⟩ := hm
  refine ⟨p.1, rfl, rfl, ?_, List.mem_map.mpr ⟨p, hp, rfl⟩⟩
  cases hl : t.lookup (Key.file p.1) with
  | none => rfl
  | some s => simp [hl] at hn

/-- The first loop, head-wise. -/
theorem loadModTable_heads_aux : ∀ (ms : List Module) (t : Table), loadModTable ms = .ok t →
    Table.heads t = modHeads ms
  | [], t, h => by
    simp only [loadModTable, Except.ok.injEq] at h; subst h; rfl
  | m :: rest, t, h => by
    simp only [loadModTable] at h
    cases hf : loadFile m with
    | error e => simp [hf] at h
    | ok s =>
      cases hr : loadModTable rest with
      | error e => simp [hf, hr] at h
      | ok t0 =>
        simp only [hf, hr, Except.ok.injEq] at h
        have ih := loadModTable_heads_aux rest t0 hr
        subst h
        unfold modHeads at ih ⊢
        simp only [List.filterMap_cons, hf]
        cases s.hidden <;> simp [Table.heads, ← ih]

theorem loadModTable_keys_file : ∀ (ms : List Module) (t : Table), loadModTable ms = .ok t →
    ∀ p ∈ t, ∃ stem, p.1 = Key.file stem := by
  intro ms t h p hp
  have hh : (p.1, p.2.head) ∈ Table.heads t := mem_heads.mpr ⟨p.2, hp, rfl⟩
  rw [loadModTable_heads_aux ms t h] at hh
  simp only [modHeads, List.mem_filterMap] at hh
  obtain ⟨m, _, hm⟩ := hh
  cases hf : loadFile m with
  | error e => simp [hf] at hm
  | ok s =>
    simp only [hf] at hm
    cases hs : s.hidden
    · simp [hs] at hm; exact ⟨m.stem, hm.1.symm⟩
    · simp [hs] at hm

theorem loadTests_nil : loadTests [] = .ok [] := rfl
theorem loadSubSuites_nil : loadSubSuites (loadClassList []) = .ok [] := rfl

/-- `load_suite_from_file` on a module that declares only a `SUITE` dict. -/
theorem loadFile_metadata_only (m : Module) (i : SuiteInfo)
    (ht : m.tests = []) (hc : m.classes = []) (hi : m.info = some i) (hb : m.broken = false) :
    loadFile m = .ok (.mk (infoHead m i) [] []) := by
  simp only [loadFile, hb, loadModule, ht, hc, loadTests_nil, loadSubSuites_nil, collapse, hi,
    infoHead, Module.suiteName, Module.suiteDesc, Module.suiteRank, Module.suiteMeta, Module.visible]
  simp

theorem addSuites_ok_append : ∀ (subs ss ss' : List Suite), addSuites ss subs = .ok ss' → ss' = ss ++ subs
  | [], ss, ss', ha => by simp [addSuites] at ha; simp [ha]
  | x :: xs, ss, ss', ha => by
    simp only [addSuites] at ha
    cases hx : addSuite ss x with
    | error e => simp [hx] at ha
    | ok acc' =>
      simp only [hx] at ha
      have := ((addSuite_ok_iff ss x acc').mp hx).1
      subst this
      rw [addSuites_ok_append xs _ _ ha]; simp

theorem attach_subs {s s' : Suite} {subs : List Suite} (h : attach s subs = .ok s') :
    s'.subs = s.subs ++ subs := by
  cases s with
  | mk hd ts ss =>
    unfold attach at h
    cases ha : addSuites ss subs with
    | error e => simp [ha] at h
    | ok ss' =>
      simp only [ha, Except.ok.injEq] at h
      subst h
      exact addSuites_ok_append subs ss ss' ha

theorem lookup_none_not_mem (k : Key) : ∀ (t : Table), t.lookup k = none → ∀ s, (k, s) ∉ t
  | [], _, _ => by simp
  | (k0, s0) :: rest, h, s => by
    simp only [List.lookup] at h
    by_cases hk : k = k0
    · subst hk; simp at h
    · have hb : (k == k0) = false := by simpa using hk
      simp only [hb] at h
      intro hm
      rcases List.mem_cons.mp hm with he | hm
      · exact hk (by injection he)
      · exact lookup_none_not_mem k rest h s hm

/-! ### Sample layout for the kernel-evaluated instance in `Props/C13Heads.lean` -/

/-- `suites/api.py` = `SUITE` dict only; `suites/api/users.py` with one test. -/
def apiDir : Dir :=
  .mk "suites"
    [ { stem := "api", autoRank := 1,
        info := some { desc := some "The API",
                       md := { tags := ["api"], props := [("layer", "http")], links := [("http://bt/1", some "BT-1")] } } } ]
    [ .mk "api" [{ stem := "users", autoRank := 3, tests := [{ attr := "list_users", rank := 2 }] }] [] ]

def topHeads (r : Except LoadErr (List Suite)) : Option (List SuiteHead) :=
  match r with
  | .ok ss => some (ss.map Suite.head)
  | .error _ => none

end LccModel.Loader

/-
  Lemmas for `Props/C01Expand.lean`: the expansion of one declaration, the loader model versus the
  specification, and the run-level project of an expanded tree.
-/
import LccModel.Model.Expand
import LccModel.Lemmas.Loader
import LccModel.Lemmas.Graph

namespace LccModel.Expand
open LccModel.Report (Path)
open LccModel.Loader (PVal Params Seg Meta Disabled LoadErr render renderD renderSeg renderSegD orDefault descFromName discover sequenceE)

/-! ### `expandSets` -/

theorem length_expandSets (b : Test) (n : Naming) : ∀ (sets : List Params) (nb : Nat), (expandSets b n nb sets).length = sets.length
  | [], _ => rfl
  | _ :: rest, nb => by simp [expandSets, length_expandSets b n rest (nb + 1)]

theorem params_expandSets (b : Test) (n : Naming) : ∀ (sets : List Params) (nb : Nat), (expandSets b n nb sets).map (·.params) = sets
  | [], _ => rfl
  | _ :: rest, nb => by simp [expandSets, params_expandSets b n rest (nb + 1)]

theorem mem_expandSets (b : Test) (n : Naming) : ∀ (sets : List Params) (nb : Nat) (t : Test), t ∈ expandSets b n nb sets →
    t.rank = b.rank ∧ t.md = b.md ∧ t.disabled = b.disabled ∧ t.deps = b.deps ∧ t.params ∈ sets
  | [], _, t, h => by simp [expandSets] at h
  | ps :: rest, nb, t, h => by
    simp only [expandSets, List.mem_cons] at h
    rcases h with h | h
    · subst h; exact ⟨rfl, rfl, rfl, rfl, List.mem_cons_self⟩
    · obtain ⟨h1, h2, h3, h4, h5⟩ := mem_expandSets b n rest (nb + 1) t h
      exact ⟨h1, h2, h3, h4, List.mem_cons_of_mem _ h5⟩

theorem names_expandSets (b : Test) (n : Naming) : ∀ (sets : List Params) (nb : Nat),
    (expandSets b n nb sets).map (·.name) = (sets.zipIdx nb).map (fun pi => (namingD n b.name b.desc pi.1 pi.2).1)
  | [], _ => rfl
  | _ :: rest, nb => by simp [expandSets, List.zipIdx_cons, names_expandSets b n rest (nb + 1)]

theorem descs_expandSets (b : Test) (n : Naming) : ∀ (sets : List Params) (nb : Nat),
    (expandSets b n nb sets).map (·.desc) = (sets.zipIdx nb).map (fun pi => (namingD n b.name b.desc pi.1 pi.2).2)
  | [], _ => rfl
  | _ :: rest, nb => by simp [expandSets, List.zipIdx_cons, descs_expandSets b n rest (nb + 1)]

/-! ### decimal numerals are injective, so are `name_<nb>` and `description #<nb>` -/

theorem toString_nat_inj {m n : Nat} (h : toString m = toString n) : m = n := by
  have h' : (Nat.repr m).toList = (Nat.repr n).toList := by
    simp only [Nat.toString_eq_repr] at h; rw [h]
  rw [Nat.toList_repr, Nat.toList_repr] at h'
  rw [← Nat.ofDigitChars_ten_toDigits (n := m), ← Nat.ofDigitChars_ten_toDigits (n := n), h']

theorem append_toString_inj (pre : String) {m n : Nat} (h : pre ++ toString m = pre ++ toString n) : m = n := by
  have h' := congrArg String.toList h
  rw [String.toList_append, String.toList_append] at h'
  exact toString_nat_inj (String.toList_inj.mp (List.append_cancel_left h'))

theorem nodup_zipIdx_map {α β : Type} (f : Nat → β) (hf : ∀ i j, f i = f j → i = j) :
    ∀ (l : List α) (nb : Nat), ((l.zipIdx nb).map (fun pi => f pi.2)).Nodup := by
  intro l nb
  have h1 : (l.zipIdx nb).map (fun pi => f pi.2) = ((l.zipIdx nb).map Prod.snd).map f := by
    rw [List.map_map]; rfl
  rw [h1, List.zipIdx_map_snd]
  exact List.Pairwise.map f (fun a b hab hfab => hab (hf a b hfab)) List.nodup_range'

/-! ### the loader model against the specification -/

def isOk {α : Type} : Except LoadErr α → Bool
  | .ok _ => true
  | .error _ => false

def okVal {α : Type} : Except LoadErr α → Option α
  | .ok a => some a
  | .error _ => none

theorem renderSeg_ok_eq (ps : Params) (s : Seg) (a : String) (h : renderSeg ps s = .ok a) : a = renderSegD ps s := by
  cases s with
  | lit s => simp [renderSeg] at h; simp [renderSegD, h]
  | field k =>
    simp only [renderSeg] at h
    simp only [renderSegD]
    cases hl : ps.lookup k with
    | none => simp [hl] at h
    | some v => simp [hl] at h; exact h.symm

theorem render_ok_eq (ps : Params) : ∀ (segs : List Seg) (a : String), render ps segs = .ok a → a = renderD ps segs
  | [], a, h => by simp [render] at h; simp [renderD, h]
  | s :: rest, a, h => by
    simp only [render] at h
    cases h1 : renderSeg ps s with
    | error e => simp [h1] at h
    | ok x =>
      cases h2 : render ps rest with
      | error e => simp [h1, h2] at h
      | ok y =>
        simp [h1, h2] at h
        rw [renderD, ← renderSeg_ok_eq ps s x h1, ← render_ok_eq ps rest y h2, h]

theorem applyNaming_ok_eq (n : Naming) (name desc : String) (ps : Params) (nb : Nat) (r : String × String)
    (h : applyNaming n name desc ps nb = .ok r) : r = namingD n name desc ps nb := by
  cases n with
  | default => simp [applyNaming] at h; simp [namingD, h]
  | custom f => simp [applyNaming] at h; simp [namingD, h]
  | format nt dt =>
    simp only [applyNaming] at h
    cases h1 : render ps nt with
    | error e => simp [h1] at h
    | ok x =>
      cases h2 : render ps dt with
      | error e => simp [h1, h2] at h
      | ok y =>
        simp [h1, h2] at h
        simp only [namingD]
        rw [← render_ok_eq ps nt x h1, ← render_ok_eq ps dt y h2, h]

/-- when no item of the lazy stream is an exception, the visible items are the specified expansions -/
theorem loadSets_allOk (b : Test) (n : Naming) : ∀ (sets : List Params) (nb : Nat) (vis : Bool),
    (∀ x ∈ loadSets b vis n nb sets, isOk x = true) →
    (loadSets b vis n nb sets).filterMap okVal = if vis then expandSets b n nb sets else []
  | [], _, vis, _ => by cases vis <;> rfl
  | ps :: rest, nb, vis, h => by
    simp only [loadSets] at h ⊢
    cases ha : applyNaming n b.name b.desc ps nb with
    | error e =>
      rw [ha] at h
      have := h (.error e) (by simp)
      simp [isOk] at this
    | ok r =>
      rw [ha] at h
      have hr := applyNaming_ok_eq n b.name b.desc ps nb r ha
      obtain ⟨nm, ds⟩ := r
      simp only at h ⊢
      cases vis with
      | false =>
        simp only [Bool.false_eq_true, if_false] at h ⊢
        have := loadSets_allOk b n rest (nb + 1) false h
        simpa using this
      | true =>
        simp only [if_true] at h ⊢
        have ih := loadSets_allOk b n rest (nb + 1) true (fun x hx => h x (List.mem_cons_of_mem _ hx))
        simp only [if_true] at ih
        simp only [List.filterMap_cons, okVal, ih, expandSets]
        have h1 : nm = (namingD n b.name b.desc ps nb).1 := by rw [← hr]
        have h2 : ds = (namingD n b.name b.desc ps nb).2 := by rw [← hr]
        rw [h1, h2]

theorem loadDecl_allOk (d : TestDecl) (h : ∀ x ∈ loadDecl d, isOk x = true) : (loadDecl d).filterMap okVal = expand d := by
  unfold loadDecl expand at *
  cases hp : d.param with
  | none =>
    cases hh : d.hidden <;> simp [okVal]
  | some sn =>
    obtain ⟨sets, n⟩ := sn
    rw [hp] at h
    simp only at h ⊢
    rw [loadSets_allOk (baseTest d) n sets 1 (!d.hidden) h]
    cases d.hidden <;> simp

theorem addTest_ok (acc : List Test) (t : Test) (r : List Test) (h : addTest acc t = .ok r) : r = acc ++ [t] := by
  unfold addTest at h
  split at h
  · cases h
  · split at h
    · cases h
    · injection h with h; exact h.symm

theorem addAll_ok : ∀ (items : List (Except LoadErr Test)) (acc r : List Test), addAll acc items = .ok r →
    (∀ x ∈ items, isOk x = true) ∧ r = acc ++ items.filterMap okVal
  | [], acc, r, h => by simp [addAll] at h; simp [h]
  | .error e :: rest, acc, r, h => by simp [addAll] at h
  | .ok t :: rest, acc, r, h => by
    simp only [addAll] at h
    cases h1 : addTest acc t with
    | error e => simp [h1] at h
    | ok acc' =>
      simp only [h1] at h
      obtain ⟨h2, h3⟩ := addAll_ok rest acc' r h
      have := addTest_ok acc t acc' h1
      subst this
      refine ⟨?_, ?_⟩
      · intro x hx
        rcases List.mem_cons.mp hx with hx | hx
        · subst hx; rfl
        · exact h2 x hx
      · simp [h3, okVal, List.append_assoc]

theorem flatMap_congr' {α β : Type} {f g : α → List β} : ∀ l : List α, (∀ a ∈ l, f a = g a) → l.flatMap f = l.flatMap g
  | [], _ => rfl
  | a :: rest, h => by
    rw [List.flatMap_cons, List.flatMap_cons, h a List.mem_cons_self,
      flatMap_congr' rest (fun b hb => h b (List.mem_cons_of_mem _ hb))]

/-- **a successful `loadTests` returns exactly the specified expansions, in declaration order** -/
theorem loadTests_ok (ds : List TestDecl) (ts : List Test) (h : loadTests ds = .ok ts) : ts = (testOrder ds).flatMap expand := by
  unfold loadTests at h
  obtain ⟨h1, h2⟩ := addAll_ok _ [] ts h
  rw [h2, List.nil_append, List.filterMap_flatMap]
  apply flatMap_congr'
  intro d hd
  exact loadDecl_allOk d (fun x hx => h1 x (List.mem_flatMap.mpr ⟨d, hd, hx⟩))

theorem addSuite_ok (acc : List Suite) (s : Suite) (r : List Suite) (h : addSuite acc s = .ok r) : r = acc ++ [s] := by
  unfold addSuite at h
  split at h
  · cases h
  · split at h
    · cases h
    · injection h with h; exact h.symm

theorem addSuites_ok : ∀ (xs acc r : List Suite), addSuites acc xs = .ok r → r = acc ++ xs
  | [], acc, r, h => by simp [addSuites] at h; simp [h]
  | s :: rest, acc, r, h => by
    simp only [addSuites] at h
    cases h1 : addSuite acc s with
    | error e => simp [h1] at h
    | ok acc' =>
      simp only [h1] at h
      rw [addSuites_ok rest acc' r h, addSuite_ok acc s acc' h1, List.append_assoc]; rfl

/-- wrap a loaded suite as a successful result, keeping its keys -/
def wrap (k : Keyed Suite) : Keyed (Except LoadErr Suite) := ⟨k.attr, k.rank, k.hidden, .ok k.val⟩

theorem sequenceK_wrap : ∀ l : List (Keyed Suite), sequenceK (l.map wrap) = .ok l
  | [] => rfl
  | k :: rest => by
    simp only [List.map_cons, sequenceK, wrap, sequenceK_wrap rest]

theorem subOrder_wrap (l : List (Keyed Suite)) : subOrder (l.map wrap) = (subOrder l).map wrap := by
  unfold subOrder
  exact Loader.discover_map wrap Keyed.attr (fun k => (k.rank : Int)) Keyed.attr (fun k => (k.rank : Int))
    (fun _ => rfl) (fun _ => rfl) l

theorem sequenceK_allOk {α : Type} : ∀ (l : List (Keyed (Except LoadErr α))) (r : List (Keyed α)), sequenceK l = .ok r →
    ∀ k ∈ l, isOk k.val = true
  | [], _, _, k, hk => by simp at hk
  | x :: rest, r, h, k, hk => by
    simp only [sequenceK] at h
    cases hx : x.val with
    | error e => simp [hx] at h
    | ok a =>
      simp only [hx] at h
      cases hr : sequenceK rest with
      | error e => simp [hr] at h
      | ok as =>
        rcases List.mem_cons.mp hk with hk | hk
        · subst hk; rw [hx]; rfl
        · exact sequenceK_allOk rest as hr k hk

mutual
/-- **When the loader model succeeds on a class, it returns the suite the class stands for.** -/
theorem loadSuite_ok : ∀ (c : SuiteDecl) (s : Suite), loadSuite c = .ok s → s = expandSuite c
  | .mk h tests subs, s, hl => by
    rw [loadSuite] at hl
    cases h1 : loadTests tests with
    | error e => simp [h1] at hl
    | ok ts =>
      simp only [h1] at hl
      cases h2 : loadSubs (loadKeyed subs) with
      | error e => simp [h2] at hl
      | ok ss =>
        simp only [h2] at hl
        injection hl with hl
        subst hl
        rw [expandSuite, loadTests_ok tests ts h1]
        congr 1
        unfold loadSubs at h2
        cases h3 : sequenceK (subOrder (loadKeyed subs)) with
        | error e => simp [h3] at h2
        | ok loaded =>
          simp only [h3] at h2
          have hall : ∀ k ∈ loadKeyed subs, isOk k.val = true := by
            intro k hk
            exact sequenceK_allOk _ loaded h3 k (Loader.mem_discover.mpr hk)
          have hw := loadKeyed_ok subs hall
          rw [hw, subOrder_wrap, sequenceK_wrap] at h3
          injection h3 with h3
          subst h3
          have := addSuites_ok _ [] ss h2
          simpa using this
theorem loadKeyed_ok : ∀ (cs : List SuiteDecl), (∀ k ∈ loadKeyed cs, isOk k.val = true) → loadKeyed cs = (expandKeyed cs).map wrap
  | [], _ => by rw [loadKeyed, expandKeyed]; rfl
  | c :: cs, h => by
    rw [loadKeyed] at h ⊢
    rw [expandKeyed, List.map_cons]
    have hc := h _ List.mem_cons_self
    have ih := loadKeyed_ok cs (fun k hk => h k (List.mem_cons_of_mem _ hk))
    cases hl : loadSuite c with
    | error e => simp [hl, isOk] at hc
    | ok s =>
      rw [loadSuite_ok c s hl, ih]
      rfl
end

theorem loadSuites_ok : ∀ (cs : List SuiteDecl) (ss : List Suite), loadSuites cs = .ok ss → ss = expandSuites cs
  | [], ss, h => by simp [loadSuites] at h; simp [expandSuites, h]
  | c :: cs, ss, h => by
    simp only [loadSuites] at h
    cases h1 : loadSuite c with
    | error e => simp [h1] at h
    | ok s =>
      cases h2 : loadSuites cs with
      | error e => simp [h1, h2] at h
      | ok rest =>
        simp only [h1, h2] at h
        injection h with h
        have ih := loadSuites_ok cs rest h2
        have hs := loadSuite_ok c s h1
        unfold expandSuites at ih ⊢
        cases hh : c.head.hidden <;> simp [hh] at h ⊢ <;> rw [← h, ih] <;> simp [hs]

/-! ### counting -/

theorem length_expand (d : TestDecl) : (expand d).length = expansionCount d := by
  unfold expand expansionCount
  cases d.hidden with
  | true => rfl
  | false =>
    simp only [Bool.false_eq_true, if_false]
    cases d.param with
    | none => rfl
    | some sn => obtain ⟨sets, n⟩ := sn; exact length_expandSets _ _ _ _

theorem sum_perm {l l' : List Nat} (h : l.Perm l') : l.sum = l'.sum := by
  induction h with
  | nil => rfl
  | cons x _ ih => simp [ih]
  | swap x y l => simp; omega
  | trans _ _ ih1 ih2 => exact ih1.trans ih2

theorem length_flatMap_expand (ds : List TestDecl) : ((testOrder ds).flatMap expand).length = (ds.map expansionCount).sum := by
  rw [List.length_flatMap]
  have hp : (testOrder ds).Perm ds := Loader.discover_perm _ _ ds
  rw [show (testOrder ds).map (fun d => (expand d).length) = (testOrder ds).map expansionCount from
    List.map_congr_left (fun d _ => length_expand d)]
  exact sum_perm (hp.map _)

theorem length_suitesTests (parent : Path) : ∀ ss : List Suite,
    (suitesTests parent ss).length = (ss.map (fun s => (suiteTests parent s).length)).sum
  | [] => by rw [suitesTests]; rfl
  | s :: rest => by rw [suitesTests, List.length_append, length_suitesTests parent rest]; simp

/-- what a keyed sub-suite contributes to the test count -/
def cnt (parent : Path) (k : Keyed Suite) : Nat := if k.hidden then 0 else (suiteTests parent k.val).length

theorem sum_filter_cnt (parent : Path) : ∀ l : List (Keyed Suite),
    (((l.filter (fun k => !k.hidden)).map Keyed.val).map (fun s => (suiteTests parent s).length)).sum = (l.map (cnt parent)).sum
  | [] => rfl
  | k :: rest => by
    have ih := sum_filter_cnt parent rest
    rw [List.map_map] at ih
    cases hh : k.hidden <;> simp [hh, cnt, ih]

mutual
/-- the number of tests of the suite a class stands for is the number of expansions it declares -/
theorem length_suiteTests_expand : ∀ (c : SuiteDecl) (parent : Path), (suiteTests parent (expandSuite c)).length = declCount c
  | .mk h tests subs, parent => by
    rw [expandSuite, suiteTests, List.length_append, List.length_map, length_flatMap_expand, declCount,
      length_suitesTests, sum_filter_cnt]
    congr 1
    have hp : (subOrder (expandKeyed subs)).Perm (expandKeyed subs) := Loader.discover_perm _ _ _
    rw [sum_perm (hp.map _)]
    exact sum_cnt_keyed subs _
theorem sum_cnt_keyed : ∀ (cs : List SuiteDecl) (parent : Path), ((expandKeyed cs).map (cnt parent)).sum = declCountKeyed cs
  | [], _ => by rw [expandKeyed, declCountKeyed]; rfl
  | c :: cs, parent => by
    rw [expandKeyed, declCountKeyed, List.map_cons, List.sum_cons, sum_cnt_keyed cs parent]
    congr 1
    simp only [cnt]
    rw [length_suiteTests_expand c parent]
end

theorem length_suitesTests_expandSuites (parent : Path) : ∀ cs : List SuiteDecl,
    (suitesTests parent (expandSuites cs)).length = ((cs.filter (fun c => !c.head.hidden)).map declCount).sum
  | [] => by simp [expandSuites, suitesTests]
  | c :: cs => by
    have ih := length_suitesTests_expandSuites parent cs
    unfold expandSuites at ih ⊢
    cases hh : c.head.hidden
    · simp only [List.filter_cons, hh, Bool.not_false, if_true, List.map_cons, suitesTests, List.length_append, List.sum_cons,
        length_suiteTests_expand, ih]
    · simpa [List.filter_cons, hh] using ih

/-! ### the run-level project of a tree -/

/-- a (path, test specification) pair with the rank blanked: the run-level ranks of a suite's tests are `denseRank`s (they
    depend on the siblings), everything else is `toSpecTest` of the test alone -/
def noRank (pt : Path × Run.TestSpec) : Path × Run.TestSpec := (pt.1, { pt.2 with rank := 0 })

theorem map_noRank_toSpecTests (p : Path) (ts : List Test) :
    ((toSpecTests ts).map (fun t => (p ++ [t.name], t))).map noRank =
    (ts.map (fun t => (p ++ [t.name], t))).map (fun pt => noRank (pt.1, toSpecTest pt.2)) := by
  unfold toSpecTests
  simp only [List.map_map]
  apply List.map_congr_left
  intro t _
  simp [noRank, toSpecTest]

open LccModel.Run LccModel.TaskGraph in
mutual
theorem testsUnder_toSpec (parent : Path) (inh : Bool) : ∀ s : Suite,
    (testsUnder (flattenSuite parent inh (toSpec s))).map noRank =
      (suiteTests parent s).map (fun pt => noRank (pt.1, toSpecTest pt.2))
  | .mk h ts subs => by
    rw [toSpec, flattenSuite_eq]
    unfold testsUnder
    rw [List.flatMap_cons]
    have ih := testsUnder_toSpecs (parent ++ [h.name]) (inh || h.disabled.isDisabled) subs
    unfold testsUnder at ih
    rw [List.map_append, ih, suiteTests, List.map_append]
    congr 1
    have := map_noRank_toSpecTests (parent ++ [h.name]) ts
    simpa [SuiteSpec.tests, List.append_assoc] using this
theorem testsUnder_toSpecs (parent : Path) (inh : Bool) : ∀ ss : List Suite,
    (testsUnder (flattenSuites parent inh (toSpecs ss))).map noRank =
      (suitesTests parent ss).map (fun pt => noRank (pt.1, toSpecTest pt.2))
  | [] => by rw [toSpecs, flattenSuites_nil, suitesTests]; rfl
  | s :: rest => by
    rw [toSpecs, flattenSuites_cons, suitesTests, List.map_append]
    unfold testsUnder
    rw [List.flatMap_append, List.map_append]
    have h1 := testsUnder_toSpec parent inh s
    have h2 := testsUnder_toSpecs parent inh rest
    unfold testsUnder at h1 h2
    rw [h1, h2]
end

open LccModel.Run LccModel.TaskGraph in
/-- the tests of the run-level project of a tree: path by path `toSpecTest` of the loaded test, up to the rank (which is
    the order-isomorphic `denseRank` among the siblings) -/
theorem projTests_projOf (ss : List Suite) (n : Nat) (f st : Bool) :
    (projTests (projOf ss n f st)).map noRank = (suitesTests [] ss).map (fun pt => noRank (pt.1, toSpecTest pt.2)) := by
  have := testsUnder_toSpecs [] false ss
  unfold testsUnder at this
  unfold projTests allSuites projOf
  exact this

open LccModel.Run LccModel.TaskGraph in
theorem projTests_projOf_paths (ss : List Suite) (n : Nat) (f st : Bool) :
    (projTests (projOf ss n f st)).map (·.1) = (suitesTests [] ss).map (·.1) := by
  have h := congrArg (List.map (·.1)) (projTests_projOf ss n f st)
  simpa [List.map_map, noRank, Function.comp_def] using h

end LccModel.Expand

/-! ### sample declarations for the non-vacuity examples of `Props/C01Expand.lean` -/
namespace LccModel.Expand.Sample
open LccModel.Report (Path)
open LccModel.Loader (PVal Params Seg Meta Disabled LoadErr)

/-- `@lcc.test("Pay with currency") @lcc.disabled("sandbox is down") @lcc.tags("net") @lcc.depends_on("payments.regular")
    @lcc.parametrized([{"currency": "EUR"}, {"currency": "USD"}, {"currency": "GBP"}])` — the shape of the seeded change C01-3 -/
def pay : TestDecl :=
  { attr := "pay", desc := some "Pay with currency", rank := 3, disabled := .reason "sandbox is down",
    md := { tags := ["net"], props := [("prio", "high")], links := [("http://t/1", none)] },
    deps := [.path ["payments", "regular"]], args := ["currency"],
    param := some ([[("currency", .str "EUR")], [("currency", .str "USD")], [("currency", .str "GBP")]], .default) }

def regular : TestDecl := { attr := "regular", desc := some "Regular test", rank := 1 }
def plainDisabled : TestDecl := { attr := "plain_disabled", rank := 2, disabled := .yes }
def hiddenOne : TestDecl := { attr := "ghost", rank := 4, hidden := true, param := some ([[("i", .int 1)], [("i", .int 2)]], .default) }
def byFormat : TestDecl :=
  { attr := "conv", rank := 5,
    param := some ([[("a", .int 1), ("b", .str "x")], [("a", .int (-4)), ("b", .str "y")]],
                   .format [.lit "conv_", .field "a", .lit "_", .field "b"] [.lit "Convert ", .field "a", .lit " to ", .field "b"]) }
def noSets : TestDecl := { attr := "never", rank := 6, param := some ([], .default) }

/-- `@lcc.suite("Payments") class payments` with a nested disabled class and a hidden class -/
def payments : SuiteDecl :=
  .mk { attr := "payments", desc := some "Payments", rank := 9 } [pay, regular, plainDisabled, hiddenOne, byFormat, noSets]
    [.mk { attr := "refunds", rank := 7, disabled := .yes } [{ attr := "full", rank := 6, param := some ([[("n", .int 1)], [("n", .int 2)]], .default) }] [],
     .mk { attr := "internal", rank := 8, hidden := true } [{ attr := "secret", rank := 7 }] []]

/-- two declarations whose expansions clash: `x_1` twice -/
def clash : SuiteDecl :=
  .mk { attr := "S", rank := 3 } [{ attr := "x", rank := 1, param := some ([[("i", .int 1)]], .default) }, { attr := "y", rank := 2, name := some "x_1" }] []

def errOf {α : Type} : Except LoadErr α → Option LoadErr
  | .ok _ => none
  | .error e => some e

def pathsOf (ss : List Suite) : List Path := (suitesTests [] ss).map (·.1)

end LccModel.Expand.Sample

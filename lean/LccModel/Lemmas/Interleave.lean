/-
  Lemmas about M12c (`Model/Interleave.lean`): threads whose steps only touch objects they own and whose
  ownership sets are disjoint compute, under ANY schedule, what they compute alone; the description programs
  are such threads; alone, the in-place negating program yields `describe`.
-/
import LccModel.Model.Interleave

namespace LccModel.Interleave
open LccModel.Matcher

/-- the steps of the thread only look at, and only write, objects the thread owns -/
def Thread.Local {S : Type} (T : Thread S) : Prop :=
  ∀ σ h h', (∀ r, T.owns r = true → h r = h' r) →
    (T.step σ h = none ∧ T.step σ h' = none) ∨
    ∃ σ' h₁ h₁', T.step σ h = some (σ', h₁) ∧ T.step σ h' = some (σ', h₁') ∧
      (∀ r, T.owns r = true → h₁ r = h₁' r) ∧ (∀ r, T.owns r = false → h₁ r = h r) ∧
      (∀ r, T.owns r = false → h₁' r = h' r)

/-- no object is owned by two threads -/
def Disjoint {S : Type} (T : Nat → Thread S) : Prop :=
  ∀ i j r, i ≠ j → (T i).owns r = true → (T j).owns r = false

theorem runAlone_of_none {S : Type} (T : Thread S) {σ : S} {h : Heap} (hn : T.step σ h = none) :
    ∀ k, runAlone T k σ h = (σ, h)
  | 0 => rfl
  | k + 1 => by simp [runAlone, hn]

/-- running alone from two heaps that agree on the owned objects: same private state, same owned objects -/
theorem runAlone_congr {S : Type} (T : Thread S) (hl : T.Local) : ∀ (k : Nat) (σ : S) (h h' : Heap),
    (∀ r, T.owns r = true → h r = h' r) →
    (runAlone T k σ h).1 = (runAlone T k σ h').1 ∧
      ∀ r, T.owns r = true → (runAlone T k σ h).2 r = (runAlone T k σ h').2 r
  | 0, σ, h, h', he => ⟨rfl, he⟩
  | k + 1, σ, h, h', he => by
    rcases hl σ h h' he with ⟨a, b⟩ | ⟨σ', h₁, h₁', a, b, c, _, _⟩
    · simp only [runAlone, a, b]; first | exact ⟨rfl, he⟩ | exact ⟨trivial, he⟩
    · simp only [runAlone, a, b]; exact runAlone_congr T hl k σ' h₁ h₁' c

/-- **Schedule independence.**  Local threads with pairwise disjoint ownership: after ANY schedule, the
    private state of thread `i` and the objects it owns are those of thread `i` running alone, from the
    initial heap, for as many steps as the schedule gave it. -/
theorem schedule_independent {S : Type} (T : Nat → Thread S) (hl : ∀ i, (T i).Local) (hd : Disjoint T) :
    ∀ (sched : List Nat) (c : Cfg S) (i : Nat),
      (runSched T c sched).st i = (runAlone (T i) (sched.count i) (c.st i) c.heap).1 ∧
      ∀ r, (T i).owns r = true →
        (runSched T c sched).heap r = (runAlone (T i) (sched.count i) (c.st i) c.heap).2 r
  | [], c, i => ⟨rfl, fun _ _ => rfl⟩
  | j :: rest, c, i => by
    have ih := schedule_independent T hl hd rest (stepSys T c j) i
    simp only [runSched]
    by_cases hij : j = i
    · subst hij
      simp only [List.count_cons_self]
      cases hs : (T j).step (c.st j) c.heap with
      | none =>
        have hst : (stepSys T c j).st j = c.st j := by simp [stepSys, hs]
        have hhp : (stepSys T c j).heap = c.heap := by simp [stepSys, hs]
        rw [hst, hhp, runAlone_of_none (T j) hs] at ih
        simp only [runAlone, hs]
        exact ih
      | some p =>
        obtain ⟨σ', h'⟩ := p
        have hst : (stepSys T c j).st j = σ' := by simp [stepSys, hs]
        have hhp : (stepSys T c j).heap = h' := by simp [stepSys, hs]
        rw [hst, hhp] at ih
        simp only [runAlone, hs]
        exact ih
    · have hne : (j == i) = false := by simp [hij]
      simp only [List.count_cons, hne, Bool.false_eq_true, if_false, Nat.add_zero]
      -- the step of j leaves i's private state alone and only writes objects i does not own
      have hst : (stepSys T c j).st i = c.st i := by
        simp only [stepSys]
        split
        · rfl
        · have : i ≠ j := fun e => hij e.symm
          simp [this]
      have hheap : ∀ r, (T i).owns r = true → c.heap r = (stepSys T c j).heap r := by
        intro r hr
        have hjr : (T j).owns r = false := hd i j r (fun e => hij e.symm) hr
        simp only [stepSys]
        rcases hl j (c.st j) c.heap c.heap (fun _ _ => rfl) with ⟨a, _⟩ | ⟨σ', h₁, h₁', a, b, _, d, _⟩
        · simp [a]
        · simp only [a]; exact (d r hjr).symm
      rw [hst] at ih
      have hcg := runAlone_congr (T i) (hl i) (rest.count i) (c.st i) c.heap (stepSys T c j).heap hheap
      exact ⟨ih.1.trans hcg.1.symm, fun r hr => (ih.2 r hr).trans (hcg.2 r hr).symm⟩

/-! ### the description programs are local threads -/

theorem progThread_local (owns : Nat → Bool) : (progThread owns).Local := by
  intro σ h h' he
  obtain ⟨todo, out⟩ := σ
  cases todo with
  | nil => left; exact ⟨rfl, rfl⟩
  | cons i is =>
    cases ho : owns i.obj with
    | false => left; simp [progThread, pstep, ho]
    | true =>
      right
      cases i with
      | emit r d =>
        have ho' : owns r = true := ho
        have hr : h r = h' r := he r ho'
        refine ⟨⟨is, out ++ [(h r).apply d]⟩, h, h', ?_, ?_, he, fun _ _ => rfl, fun _ _ => rfl⟩
        · simp [progThread, pstep, Instr.obj, ho']
        · simp [progThread, pstep, Instr.obj, ho', hr]
      | flip r =>
        have ho' : owns r = true := ho
        have hr : h r = h' r := he r ho'
        refine ⟨⟨is, out⟩, (fun x => if x = r then (h r).neg else h x), (fun x => if x = r then (h' r).neg else h' x),
          ?_, ?_, ?_, ?_, ?_⟩
        · simp [progThread, pstep, Instr.obj, ho']
        · simp [progThread, pstep, Instr.obj, ho']
        · intro x hx; by_cases hxr : x = r
          · simp [hxr, hr]
          · simp only [hxr, if_false]; exact he x hx
        · intro x hx
          have : x ≠ r := by
            intro e; subst e
            have hx' : owns x = false := hx
            rw [ho'] at hx'; cases hx'
          simp [this]
        · intro x hx
          have : x ≠ r := by
            intro e; subst e
            have hx' : owns x = false := hx
            rw [ho'] at hx'; cases hx'
          simp [this]

/-- a thread that has finished its program executed all of it: its output and the heap are those of `execAll` -/
theorem runAlone_finished (owns : Nat → Bool) : ∀ (is : List Instr) (k : Nat) (out : List Str) (h : Heap),
    (runAlone (progThread owns) k ⟨is, out⟩ h).1.todo = [] →
    (∀ i ∈ is, owns i.obj = true) →
    runAlone (progThread owns) k ⟨is, out⟩ h = (⟨[], (execAll is h out).1⟩, (execAll is h out).2)
  | [], k, out, h, _, _ => by
    rw [runAlone_of_none (progThread owns) (σ := ⟨[], out⟩) (h := h) rfl]; rfl
  | i :: is, 0, out, h, hf, _ => by simp [runAlone] at hf
  | i :: is, k + 1, out, h, hf, ho => by
    have hoi : owns i.obj = true := ho i List.mem_cons_self
    have hrest : ∀ x ∈ is, owns x.obj = true := fun x hx => ho x (List.mem_cons_of_mem _ hx)
    cases i with
    | emit r d =>
      have hoi' : owns r = true := hoi
      have hs : (progThread owns).step ⟨.emit r d :: is, out⟩ h = some (⟨is, out ++ [(h r).apply d]⟩, h) := by
        simp [progThread, pstep, Instr.obj, hoi']
      simp only [runAlone, hs] at hf ⊢
      simpa [execAll] using runAlone_finished owns is k _ h hf hrest
    | flip r =>
      have hoi' : owns r = true := hoi
      have hs : (progThread owns).step ⟨.flip r :: is, out⟩ h =
          some (⟨is, out⟩, fun x => if x = r then (h r).neg else h x) := by
        simp [progThread, pstep, Instr.obj, hoi']
      simp only [runAlone, hs] at hf ⊢
      simpa [execAll] using runAlone_finished owns is k out _ hf hrest

theorem execAll_append : ∀ (a b : List Instr) (h : Heap) (out : List Str),
    execAll (a ++ b) h out = execAll b (execAll a h out).2 (execAll a h out).1
  | [], _, _, _ => rfl
  | .emit r d :: a, b, h, out => by simp only [List.cons_append, execAll]; exact execAll_append a b _ _
  | .flip r :: a, b, h, out => by simp only [List.cons_append, execAll]; exact execAll_append a b _ _

theorem describe_of_sentence {m : M} {d : Str} (hs : sentence m = some d) (t : Tr) : describe m t = t.apply d := by
  cases m <;> simp only [sentence] at hs <;> first | (injection hs with hs; subst hs; simp only [describe]) | cases hs

theorem neg_neg (t : Tr) : t.neg.neg = t := by
  cases t; simp [Tr.neg]

/-- every instruction of `prog r m` is on object `r` -/
theorem prog_obj (r : Nat) : ∀ (m : M), ∀ i ∈ prog r m, i.obj = r
  | .not m, i, hi => by
    simp only [prog, List.mem_append, List.mem_singleton] at hi
    rcases hi with (hi | hi) | hi
    · subst hi; rfl
    · exact prog_obj r m i hi
    · subst hi; rfl
  | .hidden m, i, hi => by simp only [prog] at hi; exact prog_obj r m i hi
  | .equalTo _, i, hi | .cmp _ _, i, hi | .between _ _, i, hi | .isNone, i, hi | .hasLength _, i, hi
  | .startsWith _, i, hi | .endsWith _, i, hi | .containsString _, i, hi | .hasItem _, i, hi | .hasItems _, i, hi
  | .hasOnlyItems _, i, hi | .hasAllItems _, i, hi | .isIn _, i, hi | .hasEntry _ _, i, hi | .hasKey _, i, hi
  | .isType _ _, i, hi | .isTypeAny _, i, hi | .allOf _, i, hi | .anyOf _, i, hi | .anything _, i, hi
  | .described _ _, i, hi => by
    first
      | (simp [prog, sentence] at hi; subst hi; rfl)
      | (simp [prog, sentence] at hi; done)

/-- **Alone, the in-place negating program is `describe`**: executed without interference on an object in
    state `t`, the program of a simple matcher appends exactly `describe m t`, and leaves the object in state
    `t` and every other object as it was. -/
theorem execAll_prog (r : Nat) : ∀ (m : M), simple m = true → ∀ (h : Heap) (out : List Str),
    (execAll (prog r m) h out).1 = out ++ [describe m (h r)] ∧ (execAll (prog r m) h out).2 = h
  | .not m, hs, h, out => by
    simp only [simple] at hs
    simp only [prog, List.append_assoc, execAll_append, execAll, List.singleton_append]
    have ih := execAll_prog r m hs (fun x => if x = r then (h r).neg else h x) out
    simp only [if_true] at ih
    rw [ih.1, ih.2]
    refine ⟨by simp only [describe], ?_⟩
    funext x
    by_cases hx : x = r
    · subst hx; simp [neg_neg]
    · simp [hx]
  | .hidden m, hs, h, out => by
    simp only [simple] at hs
    simp only [prog, describe]
    exact execAll_prog r m hs h out
  | .equalTo _, hs, h, out | .cmp _ _, hs, h, out | .between _ _, hs, h, out | .isNone, hs, h, out
  | .hasLength _, hs, h, out | .startsWith _, hs, h, out | .endsWith _, hs, h, out | .containsString _, hs, h, out
  | .hasItem _, hs, h, out | .hasItems _, hs, h, out | .hasOnlyItems _, hs, h, out | .hasAllItems _, hs, h, out
  | .isIn _, hs, h, out | .hasEntry _ _, hs, h, out | .hasKey _, hs, h, out | .isType _ _, hs, h, out
  | .isTypeAny _, hs, h, out | .allOf _, hs, h, out | .anyOf _, hs, h, out | .anything _, hs, h, out
  | .described _ _, hs, h, out => by
    first
      | (simp [prog, sentence, execAll, describe]; done)
      | (simp [simple, sentence] at hs; done)

end LccModel.Interleave

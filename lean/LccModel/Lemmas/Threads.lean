/-
  Helper lemmas for `LccModel.Threads.Factory` (M14): destructors of `step`, the reachability
  invariant `Inv`, and the invariant of a single `teardown_factory` run.
-/
import LccModel.Model.Threads

namespace LccModel.Threads.Factory

/-! ### Destructors of `step` -/

theorem step_getHit {s s' : St} {t o : Nat} (h : step s (.getHit t o) = .ok s') :
    s.pc t = .idle ∧ s.slot t = some o ∧ s' = { s with returned := s.returned ++ [(t, o)] } := by
  simp only [step] at h
  split at h
  · split at h
    · cases h
    · split at h
      · rename_i hp _ _ hs he; injection h with h; subst he; exact ⟨hp, hs, h.symm⟩
      · cases h
  · cases h

theorem step_getMiss {s s' : St} {t : Nat} (h : step s (.getMiss t) = .ok s') :
    s.pc t = .idle ∧ s.slot t = none ∧ s' = { s with pc := fun x => if x = t then .missed else s.pc x } := by
  simp only [step] at h
  split at h
  · split at h
    · rename_i hp _ hs; injection h with h; exact ⟨hp, hs, h.symm⟩
    · cases h
  · cases h

theorem step_setupOk {s s' : St} {t o : Nat} (h : step s (.setupOk t o) = .ok s') :
    s.pc t = .missed ∧ o = s.next ∧
    s' = { s with
      pc := fun x => if x = t then .created o else s.pc x
      next := s.next + 1
      creator := fun x => if x = o then some t else s.creator x
      creations := fun x => if x = t then s.creations x + 1 else s.creations x } := by
  simp only [step] at h
  split at h
  · split at h
    · rename_i hp he; injection h with h; exact ⟨hp, he, h.symm⟩
    · cases h
  · cases h

theorem step_setupRaise {s s' : St} {t : Nat} (h : step s (.setupRaise t) = .ok s') :
    s.pc t = .missed ∧ s' = { s with pc := fun x => if x = t then .idle else s.pc x } := by
  simp only [step] at h
  split at h
  · rename_i hp; injection h with h; exact ⟨hp, h.symm⟩
  · cases h

theorem step_writeSlot {s s' : St} {t : Nat} (h : step s (.writeSlot t) = .ok s') :
    ∃ o, s.pc t = .created o ∧
    s' = { s with
      slot := fun x => if x = t then some o else s.slot x
      pc := fun x => if x = t then .stored o else s.pc x } := by
  simp only [step] at h
  split at h
  · rename_i o hp; injection h with h; exact ⟨o, hp, h.symm⟩
  · cases h

theorem step_append {s s' : St} {t : Nat} (h : step s (.append t) = .ok s') :
    ∃ o, s.pc t = .stored o ∧
    s' = { s with
      objects := s.objects ++ [o]
      pc := fun x => if x = t then .appended o else s.pc x } := by
  simp only [step] at h
  split at h
  · rename_i o hp; injection h with h; exact ⟨o, hp, h.symm⟩
  · cases h

theorem step_getRet {s s' : St} {t o : Nat} (h : step s (.getRet t o) = .ok s') :
    s.pc t = .appended o ∧
    s' = { s with
      pc := fun x => if x = t then .idle else s.pc x
      returned := s.returned ++ [(t, o)] } := by
  simp only [step] at h
  split at h
  · split at h
    · rename_i o' hp he; injection h with h; subst he; exact ⟨hp, h.symm⟩
    · cases h
  · cases h

theorem step_tdBegin {s s' : St} {t : Nat} (h : step s (.tdBegin t) = .ok s') :
    s.pc t = .idle ∧
    s' = { s with pc := fun x => if x = t then .tearing 0 none else s.pc x, tdBegins := s.tdBegins + 1 } := by
  simp only [step] at h
  split at h
  · rename_i hp; injection h with h; exact ⟨hp, h.symm⟩
  · cases h

theorem step_tdObj {s s' : St} {t o : Nat} {ok : Bool} (h : step s (.tdObj t o ok) = .ok s') :
    ∃ i pend, s.pc t = .tearing i pend ∧ s.objects[i]? = some o ∧
    s' = { s with
      pc := fun x => if x = t then .tearing (i + 1) (if ok then pend else pend.or (some o)) else s.pc x
      tdCount := fun x => if x = o then s.tdCount x + 1 else s.tdCount x
      tdObjRaises := if ok then s.tdObjRaises else s.tdObjRaises + 1 } := by
  simp only [step] at h
  split at h
  · split at h
    · cases h
    · split at h
      · rename_i i pend hp _ o' ho he; injection h with h; subst he; exact ⟨i, pend, hp, ho, h.symm⟩
      · cases h
  · cases h

theorem step_tdEnd {s s' : St} {t : Nat} {r : Option Nat} (h : step s (.tdEnd t r) = .ok s') :
    ∃ i, s.pc t = .tearing i r ∧ s.objects[i]? = none ∧
    s' = { s with
      pc := fun x => if x = t then .idle else s.pc x
      tdEnds := if r.isSome then s.tdEnds else s.tdEnds + 1
      tdRaises := if r.isSome then s.tdRaises + 1 else s.tdRaises
      tdOutcomes := s.tdOutcomes ++ [r] } := by
  simp only [step] at h
  split at h
  · split at h
    · split at h
      · rename_i i pend hp _ ho he; injection h with h; subst he; exact ⟨i, hp, ho, h.symm⟩
      · cases h
    · cases h
  · cases h

/-! ### The reachability invariant -/

structure Inv (s : St) : Prop where
  creatorLt : ∀ o t, s.creator o = some t → o < s.next
  ltCreator : ∀ o, o < s.next → ∃ t, s.creator o = some t
  creatorLive : ∀ o t, s.creator o = some t → s.slot t = some o ∨ s.pc t = .created o
  slotCreator : ∀ t o, s.slot t = some o → s.creator o = some t
  slotObj : ∀ t o, s.slot t = some o → o ∈ s.objects ∨ s.pc t = .stored o
  pcMissed : ∀ t, s.pc t = .missed → s.slot t = none
  pcCreated : ∀ t o, s.pc t = .created o → s.creator o = some t ∧ s.slot t = none ∧ o ∉ s.objects
  pcStored : ∀ t o, s.pc t = .stored o → s.slot t = some o ∧ o ∉ s.objects
  pcAppended : ∀ t o, s.pc t = .appended o → s.slot t = some o ∧ o ∈ s.objects
  creationsLive : ∀ t, s.creations t = 0 ∨ (s.creations t = 1 ∧ (s.slot t ≠ none ∨ ∃ o, s.pc t = .created o))
  creationsZero : ∀ t, s.creations t = 0 → s.slot t = none ∧ ∀ o, s.pc t ≠ .created o
  returnedSlot : ∀ t o, (t, o) ∈ s.returned → s.slot t = some o
  objNodup : s.objects.Nodup
  objSlot : ∀ o, o ∈ s.objects → ∃ t, s.slot t = some o

theorem inv_init : Inv init := by
  constructor <;> simp [init]

theorem inv_getHit {s s' : St} {t o : Nat} (hi : Inv s) (h : step s (.getHit t o) = .ok s') : Inv s' := by
  obtain ⟨hp, hs, rfl⟩ := step_getHit h
  clear h
  obtain ⟨h1, h2, h3, h4, h5, h6, h7, h8, h9, h10, h11, h12, h13, h14⟩ := hi
  constructor <;> dsimp only <;> try assumption
  intro t' o' hm
  simp only [List.mem_append, List.mem_singleton, Prod.mk.injEq] at hm
  rcases hm with hm | ⟨rfl, rfl⟩
  · exact h12 _ _ hm
  · exact hs

theorem inv_getMiss {s s' : St} {t : Nat} (hi : Inv s) (h : step s (.getMiss t) = .ok s') : Inv s' := by
  obtain ⟨hp, hs, rfl⟩ := step_getMiss h
  clear h
  obtain ⟨h1, h2, h3, h4, h5, h6, h7, h8, h9, h10, h11, h12, h13, h14⟩ := hi
  constructor <;> dsimp only <;> first | assumption | grind

theorem inv_setupOk {s s' : St} {t o : Nat} (hi : Inv s) (h : step s (.setupOk t o) = .ok s') : Inv s' := by
  obtain ⟨hp, he, rfl⟩ := step_setupOk h
  clear h
  subst he
  obtain ⟨h1, h2, h3, h4, h5, h6, h7, h8, h9, h10, h11, h12, h13, h14⟩ := hi
  constructor <;> dsimp only
  case ltCreator =>
    intro o' ho'
    by_cases e : o' = s.next
    · exact ⟨t, by simp [e]⟩
    · obtain ⟨u, hu⟩ := h2 o' (by omega)
      exact ⟨u, by simp [e, hu]⟩
  case creationsLive =>
    intro u
    by_cases e : u = t
    · subst e
      right
      have h0 : s.creations u = 0 := by
        rcases h10 u with h0 | ⟨_, h0 | ⟨o, h0⟩⟩
        · exact h0
        · exact absurd (h6 u hp) h0
        · rw [hp] at h0; cases h0
      exact ⟨by simp [h0], Or.inr ⟨s.next, by simp⟩⟩
    · simp only [e, if_false]; exact h10 u
  all_goals first | assumption | grind

theorem inv_setupRaise {s s' : St} {t : Nat} (hi : Inv s) (h : step s (.setupRaise t) = .ok s') : Inv s' := by
  obtain ⟨hp, rfl⟩ := step_setupRaise h
  clear h
  obtain ⟨h1, h2, h3, h4, h5, h6, h7, h8, h9, h10, h11, h12, h13, h14⟩ := hi
  constructor <;> dsimp only <;> first | assumption | grind

theorem inv_writeSlot {s s' : St} {t : Nat} (hi : Inv s) (h : step s (.writeSlot t) = .ok s') : Inv s' := by
  obtain ⟨o, hp, rfl⟩ := step_writeSlot h
  clear h
  obtain ⟨h1, h2, h3, h4, h5, h6, h7, h8, h9, h10, h11, h12, h13, h14⟩ := hi
  constructor <;> dsimp only <;> first | assumption | grind

theorem inv_append {s s' : St} {t : Nat} (hi : Inv s) (h : step s (.append t) = .ok s') : Inv s' := by
  obtain ⟨o, hp, rfl⟩ := step_append h
  clear h
  obtain ⟨h1, h2, h3, h4, h5, h6, h7, h8, h9, h10, h11, h12, h13, h14⟩ := hi
  constructor <;> dsimp only <;> first | assumption | grind

theorem inv_getRet {s s' : St} {t o : Nat} (hi : Inv s) (h : step s (.getRet t o) = .ok s') : Inv s' := by
  obtain ⟨hp, rfl⟩ := step_getRet h
  clear h
  obtain ⟨h1, h2, h3, h4, h5, h6, h7, h8, h9, h10, h11, h12, h13, h14⟩ := hi
  constructor <;> dsimp only <;> first | assumption | grind

theorem inv_tdBegin {s s' : St} {t : Nat} (hi : Inv s) (h : step s (.tdBegin t) = .ok s') : Inv s' := by
  obtain ⟨hp, rfl⟩ := step_tdBegin h
  clear h
  obtain ⟨h1, h2, h3, h4, h5, h6, h7, h8, h9, h10, h11, h12, h13, h14⟩ := hi
  constructor <;> dsimp only <;> first | assumption | grind

theorem inv_tdObj {s s' : St} {t o : Nat} {ok : Bool} (hi : Inv s) (h : step s (.tdObj t o ok) = .ok s') : Inv s' := by
  obtain ⟨i, pend, hp, ho, rfl⟩ := step_tdObj h
  clear h
  obtain ⟨h1, h2, h3, h4, h5, h6, h7, h8, h9, h10, h11, h12, h13, h14⟩ := hi
  constructor <;> dsimp only <;> first | assumption | grind

theorem inv_tdEnd {s s' : St} {t : Nat} {r : Option Nat} (hi : Inv s) (h : step s (.tdEnd t r) = .ok s') : Inv s' := by
  obtain ⟨i, hp, ho, rfl⟩ := step_tdEnd h
  clear h
  obtain ⟨h1, h2, h3, h4, h5, h6, h7, h8, h9, h10, h11, h12, h13, h14⟩ := hi
  constructor <;> dsimp only <;> first | assumption | grind

theorem step_inv {s s' : St} {l : Label} (hi : Inv s) (h : step s l = .ok s') : Inv s' := by
  cases l with
  | getHit t o => exact inv_getHit hi h
  | getMiss t => exact inv_getMiss hi h
  | setupOk t o => exact inv_setupOk hi h
  | setupRaise t => exact inv_setupRaise hi h
  | writeSlot t => exact inv_writeSlot hi h
  | append t => exact inv_append hi h
  | getRet t o => exact inv_getRet hi h
  | tdBegin t => exact inv_tdBegin hi h
  | tdObj t o ok => exact inv_tdObj hi h
  | tdEnd t r => exact inv_tdEnd hi h

theorem run_inv {ls : List Label} {s s' : St} (hi : Inv s) (h : run s ls = .ok s') : Inv s' := by
  induction ls generalizing s with
  | nil => simp only [run] at h; injection h with h; subst h; exact hi
  | cons l ls ih =>
    simp only [run] at h
    split at h
    · cases h
    · rename_i s1 h1; exact ih (step_inv hi h1) h

/-! ### One `teardown_factory` run started in a quiescent state, no `get_object` step in between -/

/-- what no `teardown_factory` step ever changes -/
structure Frame (s0 s : St) : Prop where
  slot : s.slot = s0.slot
  objects : s.objects = s0.objects
  next : s.next = s0.next
  creator : s.creator = s0.creator
  creations : s.creations = s0.creations
  returned : s.returned = s0.returned

/-- where a sequence of teardown steps from the quiescent state `s0` can be; `fr` = the object of the first
    raising `teardown_object` call among the steps taken so far (`first_exception`) -/
inductive Phase (s0 : St) (fr : Option Nat) (s : St) : Prop
  | notStarted (hfr : fr = none) (hb : s.tdBegins = s0.tdBegins) (hq : ∀ t, s.pc t = .idle)
      (hc : s.tdCount = s0.tdCount) (he : s.tdEnds = s0.tdEnds) (hr : s.tdRaises = s0.tdRaises)
      (ho : s.tdOutcomes = s0.tdOutcomes)
  /-- iterating; a pending exception does not stop the loop -/
  | running (t i : Nat) (hb : s.tdBegins = s0.tdBegins + 1) (hp : s.pc t = .tearing i fr)
      (hq : ∀ u, u ≠ t → s.pc u = .idle)
      (hc : ∀ o, s.tdCount o = s0.tdCount o + (s0.objects.take i).count o)
      (he : s.tdEnds = s0.tdEnds) (hr : s.tdRaises = s0.tdRaises) (ho : s.tdOutcomes = s0.tdOutcomes)
  /-- the run has ended — by returning (`fr = none`) or by re-raising — after the WHOLE list -/
  | finished (hb : s.tdBegins = s0.tdBegins + 1) (hq : ∀ t, s.pc t = .idle)
      (hc : ∀ o, s.tdCount o = s0.tdCount o + s0.objects.count o)
      (he : s.tdEnds = if fr.isSome then s0.tdEnds else s0.tdEnds + 1)
      (hr : s.tdRaises = if fr.isSome then s0.tdRaises + 1 else s0.tdRaises)
      (ho : s.tdOutcomes = s0.tdOutcomes ++ [fr])
  | another (hb : s0.tdBegins + 2 ≤ s.tdBegins)

theorem take_succ_count (l : List Nat) (i o x : Nat) (h : l[i]? = some x) :
    (l.take (i + 1)).count o = (l.take i).count o + (if x = o then 1 else 0) := by
  rw [List.take_add_one, h, List.count_append]
  simp [List.count_cons, List.count_nil, beq_iff_eq]

theorem take_of_getElem?_none (l : List Nat) (i : Nat) (h : l[i]? = none) : l.take i = l := by
  apply List.take_of_length_le
  exact List.getElem?_eq_none_iff.mp h

theorem td_step_frame {s0 s s' : St} {l : Label} (hl : l.isTd = true) (hf : Frame s0 s)
    (h : step s l = .ok s') : Frame s0 s' := by
  obtain ⟨f1, f2, f3, f4, f5, f6⟩ := hf
  cases l with
  | tdBegin t => obtain ⟨_, rfl⟩ := step_tdBegin h; exact ⟨f1, f2, f3, f4, f5, f6⟩
  | tdObj t o ok => obtain ⟨_, _, _, _, rfl⟩ := step_tdObj h; exact ⟨f1, f2, f3, f4, f5, f6⟩
  | tdEnd t r => obtain ⟨_, _, _, rfl⟩ := step_tdEnd h; exact ⟨f1, f2, f3, f4, f5, f6⟩
  | _ => cases hl

theorem td_step_phase {s0 s s' : St} {fr : Option Nat} {l : Label} (hl : l.isTd = true) (hf : Frame s0 s)
    (hph : Phase s0 fr s) (h : step s l = .ok s') : Phase s0 (fr.or l.raiseOf) s' := by
  have hobj := hf.objects
  cases l with
  | tdBegin t =>
    obtain ⟨hp, rfl⟩ := step_tdBegin h
    simp only [Label.raiseOf, Option.or_none]
    cases hph with
    | notStarted hfr hb hq hc he hr ho =>
      subst hfr
      exact .running t 0 (by simp [hb]) (by simp) (fun u hu => by simp [hu, hq u]) (fun o => by simp [hc]) he hr ho
    | running t' i hb hp' hq hc he hr ho => exact .another (by simp; omega)
    | finished hb hq hc he hr ho => exact .another (by simp; omega)
    | another hb => exact .another (by simp; omega)
  | tdObj t o ok =>
    obtain ⟨i, pend, hp, ho', rfl⟩ := step_tdObj h
    cases hph with
    | notStarted hfr hb hq hc he hr ho => rw [hq t] at hp; cases hp
    | running t' i' hb hp' hq hc he hr ho =>
      have ht : t = t' := by
        apply Classical.byContradiction; intro hne
        rw [hq t hne] at hp; cases hp
      subst ht
      rw [hp'] at hp; injection hp with hp1 hp2; subst hp1; subst hp2
      rw [hobj] at ho'
      have hcnt := fun x => take_succ_count s0.objects i' x o ho'
      have hfr : (if ok then fr else fr.or (some o)) = fr.or (Label.raiseOf (.tdObj t o ok)) := by
        cases ok <;> simp [Label.raiseOf]
      refine .running t (i' + 1) hb (by dsimp only; rw [if_pos rfl, hfr]) (fun u hu => by simp [hu, hq u hu]) (fun x => ?_) he hr ho
      dsimp only
      rw [hcnt x]
      by_cases e : x = o
      · subst e; simp [hc x]; omega
      · have e' : ¬ o = x := fun h => e h.symm
        simp [e, e', hc x]
    | finished hb hq hc he hr ho => rw [hq t] at hp; cases hp
    | another hb => exact .another hb
  | tdEnd t r =>
    obtain ⟨i, hp, ho', rfl⟩ := step_tdEnd h
    simp only [Label.raiseOf, Option.or_none]
    cases hph with
    | notStarted hfr hb hq hc he hr ho => rw [hq t] at hp; cases hp
    | running t' i' hb hp' hq hc he hr ho =>
      have ht : t = t' := by
        apply Classical.byContradiction; intro hne
        rw [hq t hne] at hp; cases hp
      subst ht
      rw [hp'] at hp; injection hp with hp1 hp2; subst hp1; subst hp2
      rw [hobj] at ho'
      have htake := take_of_getElem?_none _ _ ho'
      refine .finished hb (fun u => ?_) (fun x => ?_) (by simp [he]) (by simp [hr]) (by simp [ho])
      · by_cases hu : u = t
        · simp [hu]
        · simp [hu, hq u hu]
      · rw [← htake]; exact hc x
    | finished hb hq hc he hr ho => rw [hq t] at hp; cases hp
    | another hb => exact .another hb
  | _ => cases hl

theorem td_run_phase {ls : List Label} {s0 s s' : St} {fr : Option Nat} (hls : ∀ l ∈ ls, l.isTd = true)
    (hf : Frame s0 s) (hph : Phase s0 fr s) (h : run s ls = .ok s') :
    Frame s0 s' ∧ Phase s0 (firstRaiseFrom fr ls) s' := by
  induction ls generalizing s fr with
  | nil => simp only [run] at h; injection h with h; subst h; exact ⟨hf, hph⟩
  | cons l ls ih =>
    simp only [run] at h
    split at h
    · cases h
    · rename_i s1 h1
      have hl := hls l (by simp)
      exact ih (fun l' hl' => hls l' (by simp [hl'])) (td_step_frame hl hf h1) (td_step_phase hl hf hph h1) h

theorem frame_refl (s : St) : Frame s s := ⟨rfl, rfl, rfl, rfl, rfl, rfl⟩

theorem phase_start {s : St} (hq : ∀ t, s.pc t = .idle) : Phase s none s := .notStarted rfl rfl hq rfl rfl rfl rfl

/-- `first_exception` is set iff some `teardown_object` call raised -/
theorem firstRaiseFrom_isSome (fr : Option Nat) (ls : List Label) :
    (firstRaiseFrom fr ls).isSome = true ↔ fr.isSome = true ∨ ∃ l ∈ ls, l.isTdRaise = true := by
  induction ls generalizing fr with
  | nil => simp [firstRaiseFrom]
  | cons l ls ih =>
    have hstep : firstRaiseFrom fr (l :: ls) = firstRaiseFrom (fr.or l.raiseOf) ls := rfl
    rw [hstep, ih]
    have hl : l.raiseOf.isSome = l.isTdRaise := by
      cases l <;> try rfl
      rename_i t o ok; cases ok <;> rfl
    cases hfr : fr with
    | some x => simp
    | none =>
      simp only [Option.none_or, hl, Option.isSome_none, Bool.false_eq_true, false_or, List.mem_cons,
        exists_eq_or_imp]

/-! ### Ghost teardown counters under `get_object` steps -/

theorem get_step_td {s s' : St} {l : Label} (hl : l.isTd = false) (h : step s l = .ok s') :
    s'.tdCount = s.tdCount ∧ s'.tdBegins = s.tdBegins ∧ s'.tdEnds = s.tdEnds ∧ s'.tdRaises = s.tdRaises := by
  cases l with
  | getHit t o => obtain ⟨_, _, rfl⟩ := step_getHit h; exact ⟨rfl, rfl, rfl, rfl⟩
  | getMiss t => obtain ⟨_, _, rfl⟩ := step_getMiss h; exact ⟨rfl, rfl, rfl, rfl⟩
  | setupOk t o => obtain ⟨_, _, rfl⟩ := step_setupOk h; exact ⟨rfl, rfl, rfl, rfl⟩
  | setupRaise t => obtain ⟨_, rfl⟩ := step_setupRaise h; exact ⟨rfl, rfl, rfl, rfl⟩
  | writeSlot t => obtain ⟨_, _, rfl⟩ := step_writeSlot h; exact ⟨rfl, rfl, rfl, rfl⟩
  | append t => obtain ⟨_, _, rfl⟩ := step_append h; exact ⟨rfl, rfl, rfl, rfl⟩
  | getRet t o => obtain ⟨_, rfl⟩ := step_getRet h; exact ⟨rfl, rfl, rfl, rfl⟩
  | tdBegin t => cases hl
  | tdObj t o ok => cases hl
  | tdEnd t r => cases hl

theorem get_run_td {ls : List Label} {s s' : St} (hls : ∀ l ∈ ls, l.isTd = false) (h : run s ls = .ok s') :
    s'.tdCount = s.tdCount ∧ s'.tdBegins = s.tdBegins ∧ s'.tdEnds = s.tdEnds ∧ s'.tdRaises = s.tdRaises := by
  induction ls generalizing s with
  | nil => simp only [run] at h; injection h with h; subst h; exact ⟨rfl, rfl, rfl, rfl⟩
  | cons l ls ih =>
    simp only [run] at h
    split at h
    · cases h
    · rename_i s1 h1
      obtain ⟨a1, a2, a3, a4⟩ := get_step_td (hls l (by simp)) h1
      obtain ⟨b1, b2, b3, b4⟩ := ih (fun l' hl' => hls l' (by simp [hl'])) h
      exact ⟨b1.trans a1, b2.trans a2, b3.trans a3, b4.trans a4⟩

/-- a step of thread `l.thread` leaves the program counter of every other thread alone -/
theorem step_pc_other {s s' : St} {l : Label} {t : Nat} (ht : l.thread ≠ t) (h : step s l = .ok s') :
    s'.pc t = s.pc t := by
  have ht' : ¬ t = l.thread := fun e => ht e.symm
  cases l with
  | getHit u o => obtain ⟨_, _, rfl⟩ := step_getHit h; rfl
  | getMiss u => obtain ⟨_, _, rfl⟩ := step_getMiss h; simp only [Label.thread] at ht'; simp [ht']
  | setupOk u o => obtain ⟨_, _, rfl⟩ := step_setupOk h; simp only [Label.thread] at ht'; simp [ht']
  | setupRaise u => obtain ⟨_, rfl⟩ := step_setupRaise h; simp only [Label.thread] at ht'; simp [ht']
  | writeSlot u => obtain ⟨_, _, rfl⟩ := step_writeSlot h; simp only [Label.thread] at ht'; simp [ht']
  | append u => obtain ⟨_, _, rfl⟩ := step_append h; simp only [Label.thread] at ht'; simp [ht']
  | getRet u o => obtain ⟨_, rfl⟩ := step_getRet h; simp only [Label.thread] at ht'; simp [ht']
  | tdBegin u => obtain ⟨_, rfl⟩ := step_tdBegin h; simp only [Label.thread] at ht'; simp [ht']
  | tdObj u o ok => obtain ⟨_, _, _, _, rfl⟩ := step_tdObj h; simp only [Label.thread] at ht'; simp [ht']
  | tdEnd u r => obtain ⟨_, _, _, rfl⟩ := step_tdEnd h; simp only [Label.thread] at ht'; simp [ht']

theorem run_pc_other {ls : List Label} {s s' : St} {t : Nat} (ht : ∀ l ∈ ls, l.thread ≠ t)
    (h : run s ls = .ok s') : s'.pc t = s.pc t := by
  induction ls generalizing s with
  | nil => simp only [run] at h; injection h with h; subst h; rfl
  | cons l ls ih =>
    simp only [run] at h
    split at h
    · cases h
    · rename_i s1 h1
      exact (ih (fun l' hl' => ht l' (by simp [hl'])) h).trans (step_pc_other (ht l (by simp)) h1)

theorem run_append {s : St} {l1 l2 : List Label} :
    run s (l1 ++ l2) = (match run s l1 with | .error e => .error e | .ok s1 => run s1 l2) := by
  induction l1 generalizing s with
  | nil => rfl
  | cons l ls ih =>
    simp only [List.cons_append, run]
    split
    · rfl
    · exact ih

theorem count_of_nodup {l : List Nat} (h : l.Nodup) (o : Nat) : l.count o = if o ∈ l then 1 else 0 := by
  by_cases hm : o ∈ l
  · have h1 := (List.nodup_iff_count.mp h) o
    have h2 := List.count_pos_iff.mpr hm
    simp [hm]; omega
  · simp [hm, List.count_eq_zero.mpr hm]

/-! ### LEGACY loop (before /repo commit 8e1157b): only what the documentation theorem needs -/

theorem stepLegacy_pc_other {s s' : St} {l : Label} {t : Nat} (ht : l.thread ≠ t) (h : stepLegacy s l = .ok s') :
    s'.pc t = s.pc t := by
  have ht' : ¬ t = l.thread := fun e => ht e.symm
  cases l with
  | tdObj u o ok =>
    cases ok with
    | true => exact step_pc_other ht h
    | false =>
      simp only [stepLegacy] at h
      split at h
      · split at h
        · cases h
        · split at h
          · injection h with h; subst h; simp only [Label.thread] at ht'; simp [ht']
          · cases h
      · cases h
  | getHit u o => exact step_pc_other ht h
  | getMiss u => exact step_pc_other ht h
  | setupOk u o => exact step_pc_other ht h
  | setupRaise u => exact step_pc_other ht h
  | writeSlot u => exact step_pc_other ht h
  | append u => exact step_pc_other ht h
  | getRet u o => exact step_pc_other ht h
  | tdBegin u => exact step_pc_other ht h
  | tdEnd u r => exact step_pc_other ht h

theorem runLegacy_pc_other {ls : List Label} {s s' : St} {t : Nat} (ht : ∀ l ∈ ls, l.thread ≠ t)
    (h : runLegacy s ls = .ok s') : s'.pc t = s.pc t := by
  induction ls generalizing s with
  | nil => simp only [runLegacy] at h; injection h with h; subst h; rfl
  | cons l ls ih =>
    simp only [runLegacy] at h
    split at h
    · cases h
    · rename_i s1 h1
      exact (ih (fun l' hl' => ht l' (by simp [hl'])) h).trans (stepLegacy_pc_other (ht l (by simp)) h1)

end LccModel.Threads.Factory

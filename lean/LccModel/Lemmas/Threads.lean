/-
  Helper lemmas for `LccModel.Threads.Factory` (M14): destructors of `step`, the reachability
  invariant `Inv`, and the invariant of a single `teardown_factory` run.
-/
import LccModel.Model.Threads

namespace LccModel.Threads.Factory

/-! ### Destructors of `step` -/

theorem step_getHit {s s' : St} {t o : Nat} (h : step s (.getHit t o) = .ok s') :
    s.pc t = .idle ∧ s.slot t = some o ∧ s' = { s with returned := s.returned ++ [(t, o)] } := by
  simp only [step] at h
  split at h
  · split at h
    · cases h
    · split at h
      · rename_i hp _ _ hs he; injection h with h; subst he; exact ⟨hp, hs, h.symm⟩
      · cases h
  · cases h

theorem step_getMiss {s s' : St} {t : Nat} (h : step s (.getMiss t) = .ok s') :
    s.pc t = .idle ∧ s.slot t = none ∧ s' = { s with pc := fun x => if x = t then .missed else s.pc x } := by
  simp only [step] at h
  split at h
  · split at h
    · rename_i hp _ hs; injection h with h; exact ⟨hp, hs, h.symm⟩
    · cases h
  · cases h

theorem step_setupOk {s s' : St} {t o : Nat} (h : step s (.setupOk t o) = .ok s') :
    s.pc t = .missed ∧ o = s.next ∧
    s' = { s with
      pc := fun x => if x = t then .created o else s.pc x
      next := s.next + 1
      creator := fun x => if x = o then some t else s.creator x
      creations := fun x => if x = t then s.creations x + 1 else s.creations x } := by
  simp only [step] at h
  split at h
  · split at h
    · rename_i hp he; injection h with h; exact ⟨hp, he, h.symm⟩
    · cases h
  · cases h

theorem step_setupRaise {s s' : St} {t : Nat} (h : step s (.setupRaise t) = .ok s') :
    s.pc t = .missed ∧ s' = { s with pc := fun x => if x = t then .idle else s.pc x } := by
  simp only [step] at h
  split at h
  · rename_i hp; injection h with h; exact ⟨hp, h.symm⟩
  · cases h

theorem step_writeSlot {s s' : St} {t : Nat} (h : step s (.writeSlot t) = .ok s') :
    ∃ o, s.pc t = .created o ∧
    s' = { s with
      slot := fun x => if x = t then some o else s.slot x
      pc := fun x => if x = t then .stored o else s.pc x } := by
  simp only [step] at h
  split at h
  · rename_i o hp; injection h with h; exact ⟨o, hp, h.symm⟩
  · cases h

theorem step_append {s s' : St} {t : Nat} (h : step s (.append t) = .ok s') :
    ∃ o, s.pc t = .stored o ∧
    s' = { s with
      objects := s.objects ++ [o]
      pc := fun x => if x = t then .appended o else s.pc x } := by
  simp only [step] at h
  split at h
  · rename_i o hp; injection h with h; exact ⟨o, hp, h.symm⟩
  · cases h

theorem step_getRet {s s' : St} {t o : Nat} (h : step s (.getRet t o) = .ok s') :
    s.pc t = .appended o ∧
    s' = { s with
      pc := fun x => if x = t then .idle else s.pc x
      returned := s.returned ++ [(t, o)] } := by
  simp only [step] at h
  split at h
  · split at h
    · rename_i o' hp he; injection h with h; subst he; exact ⟨hp, h.symm⟩
    · cases h
  · cases h

theorem step_tdBegin {s s' : St} {t : Nat} (h : step s (.tdBegin t) = .ok s') :
    s.pc t = .idle ∧
    s' = { s with pc := fun x => if x = t then .tearing 0 else s.pc x, tdBegins := s.tdBegins + 1 } := by
  simp only [step] at h
  split at h
  · rename_i hp; injection h with h; exact ⟨hp, h.symm⟩
  · cases h

theorem step_tdObj {s s' : St} {t o : Nat} {ok : Bool} (h : step s (.tdObj t o ok) = .ok s') :
    ∃ i, s.pc t = .tearing i ∧ s.objects[i]? = some o ∧
    s' = { s with
      pc := fun x => if x = t then (if ok then .tearing (i + 1) else .idle) else s.pc x
      tdCount := fun x => if x = o then s.tdCount x + 1 else s.tdCount x
      tdRaises := if ok then s.tdRaises else s.tdRaises + 1 } := by
  simp only [step] at h
  split at h
  · split at h
    · cases h
    · split at h
      · rename_i i hp _ o' ho he; injection h with h; subst he; exact ⟨i, hp, ho, h.symm⟩
      · cases h
  · cases h

theorem step_tdEnd {s s' : St} {t : Nat} (h : step s (.tdEnd t) = .ok s') :
    ∃ i, s.pc t = .tearing i ∧ s.objects[i]? = none ∧
    s' = { s with pc := fun x => if x = t then .idle else s.pc x, tdEnds := s.tdEnds + 1 } := by
  simp only [step] at h
  split at h
  · split at h
    · rename_i i hp _ ho; injection h with h; exact ⟨i, hp, ho, h.symm⟩
    · cases h
  · cases h

/-! ### The reachability invariant -/

structure Inv (s : St) : Prop where
  creatorLt : ∀ o t, s.creator o = some t → o < s.next
  ltCreator : ∀ o, o < s.next → ∃ t, s.creator o = some t
  creatorLive : ∀ o t, s.creator o = some t → s.slot t = some o ∨ s.pc t = .created o
  slotCreator : ∀ t o, s.slot t = some o → s.creator o = some t
  slotObj : ∀ t o, s.slot t = some o → o ∈ s.objects ∨ s.pc t = .stored o
  pcMissed : ∀ t, s.pc t = .missed → s.slot t = none
  pcCreated : ∀ t o, s.pc t = .created o → s.creator o = some t ∧ s.slot t = none ∧ o ∉ s.objects
  pcStored : ∀ t o, s.pc t = .stored o → s.slot t = some o ∧ o ∉ s.objects
  pcAppended : ∀ t o, s.pc t = .appended o → s.slot t = some o ∧ o ∈ s.objects
  creationsLive : ∀ t, s.creations t = 0 ∨ (s.creations t = 1 ∧ (s.slot t ≠ none ∨ ∃ o, s.pc t = .created o))
  creationsZero : ∀ t, s.creations t = 0 → s.slot t = none ∧ ∀ o, s.pc t ≠ .created o
  returnedSlot : ∀ t o, (t, o) ∈ s.returned → s.slot t = some o
  objNodup : s.objects.Nodup
  objSlot : ∀ o, o ∈ s.objects → ∃ t, s.slot t = some o

theorem inv_init : Inv init := by
  constructor <;> simp [init]

theorem inv_getHit {s s' : St} {t o : Nat} (hi : Inv s) (h : step s (.getHit t o) = .ok s') : Inv s' := by
  obtain ⟨hp, hs, rfl⟩ := step_getHit h
  clear h
  obtain ⟨h1, h2, h3, h4, h5, h6, h7, h8, h9, h10, h11, h12, h13, h14⟩ := hi
  constructor <;> dsimp only <;> try assumption
  intro t' o' hm
  simp only [List.mem_append, List.mem_singleton, Prod.mk.injEq] at hm
  rcases hm with hm | ⟨rfl, rfl⟩
  · exact h12 _ _ hm
  · exact hs

theorem inv_getMiss {s s' : St} {t : Nat} (hi : Inv s) (h : step s (.getMiss t) = .ok s') : Inv s' := by
  obtain ⟨hp, hs, rfl⟩ := step_getMiss h
  clear h
  obtain ⟨h1, h2, h3, h4, h5, h6, h7, h8, h9, h10, h11, h12, h13, h14⟩ := hi
  constructor <;> dsimp only <;> first | assumption | grind

theorem inv_setupOk {s s' : St} {t o : Nat} (hi : Inv s) (h : step s (.setupOk t o) = .ok s') : Inv s' := by
  obtain ⟨hp, he, rfl⟩ := step_setupOk h
  clear h
  subst he
  obtain ⟨h1, h2, h3, h4, h5, h6, h7, h8, h9, h10, h11, h12, h13, h14⟩ := hi
  constructor <;> dsimp only
  case ltCreator =>
    intro o' ho'
    by_cases e : o' = s.next
    · exact ⟨t, by simp [e]⟩
    · obtain ⟨u, hu⟩ := h2 o' (by omega)
      exact ⟨u, by simp [e, hu]⟩
  case creationsLive =>
    intro u
    by_cases e : u = t
    · subst e
      right
      have h0 : s.creations u = 0 := by
        rcases h10 u with h0 | ⟨_, h0 | ⟨o, h0⟩⟩
        · exact h0
        · exact absurd (h6 u hp) h0
        · rw [hp] at h0; cases h0
      exact ⟨by simp [h0], Or.inr ⟨s.next, by simp⟩⟩
    · simp only [e, if_false]; exact h10 u
  all_goals first | assumption | grind

theorem inv_setupRaise {s s' : St} {t : Nat} (hi : Inv s) (h : step s (.setupRaise t) = .ok s') : Inv s' := by
  obtain ⟨hp, rfl⟩ := step_setupRaise h
  clear h
  obtain ⟨h1, h2, h3, h4, h5, h6, h7, h8, h9, h10, h11, h12, h13, h14⟩ := hi
  constructor <;> dsimp only <;> first | assumption | grind

theorem inv_writeSlot {s s' : St} {t : Nat} (hi : Inv s) (h : step s (.writeSlot t) = .ok s') : Inv s' := by
  obtain ⟨o, hp, rfl⟩ := step_writeSlot h
  clear h
  obtain ⟨h1, h2, h3, h4, h5, h6, h7, h8, h9, h10, h11, h12, h13, h14⟩ := hi
  constructor <;> dsimp only <;> first | assumption | grind

theorem inv_append {s s' : St} {t : Nat} (hi : Inv s) (h : step s (.append t) = .ok s') : Inv s' := by
  obtain ⟨o, hp, rfl⟩ := step_append h
  clear h
  obtain ⟨h1, h2, h3, h4, h5, h6, h7, h8, h9, h10, h11, h12, h13, h14⟩ := hi
  constructor <;> dsimp only <;> first | assumption | grind

theorem inv_getRet {s s' : St} {t o : Nat} (hi : Inv s) (h : step s (.getRet t o) = .ok s') : Inv s' := by
  obtain ⟨hp, rfl⟩ := step_getRet h
  clear h
  obtain ⟨h1, h2, h3, h4, h5, h6, h7, h8, h9, h10, h11, h12, h13, h14⟩ := hi
  constructor <;> dsimp only <;> first | assumption | grind

theorem inv_tdBegin {s s' : St} {t : Nat} (hi : Inv s) (h : step s (.tdBegin t) = .ok s') : Inv s' := by
  obtain ⟨hp, rfl⟩ := step_tdBegin h
  clear h
  obtain ⟨h1, h2, h3, h4, h5, h6, h7, h8, h9, h10, h11, h12, h13, h14⟩ := hi
  constructor <;> dsimp only <;> first | assumption | grind

theorem inv_tdObj {s s' : St} {t o : Nat} {ok : Bool} (hi : Inv s) (h : step s (.tdObj t o ok) = .ok s') : Inv s' := by
  obtain ⟨i, hp, ho, rfl⟩ := step_tdObj h
  clear h
  obtain ⟨h1, h2, h3, h4, h5, h6, h7, h8, h9, h10, h11, h12, h13, h14⟩ := hi
  constructor <;> dsimp only <;> first | assumption | grind

theorem inv_tdEnd {s s' : St} {t : Nat} (hi : Inv s) (h : step s (.tdEnd t) = .ok s') : Inv s' := by
  obtain ⟨i, hp, ho, rfl⟩ := step_tdEnd h
  clear h
  obtain ⟨h1, h2, h3, h4, h5, h6, h7, h8, h9, h10, h11, h12, h13, h14⟩ := hi
  constructor <;> dsimp only <;> first | assumption | grind

theorem step_inv {s s' : St} {l : Label} (hi : Inv s) (h : step s l = .ok s') : Inv s' := by
  cases l with
  | getHit t o => exact inv_getHit hi h
  | getMiss t => exact inv_getMiss hi h
  | setupOk t o => exact inv_setupOk hi h
  | setupRaise t => exact inv_setupRaise hi h
  | writeSlot t => exact inv_writeSlot hi h
  | append t => exact inv_append hi h
  | getRet t o => exact inv_getRet hi h
  | tdBegin t => exact inv_tdBegin hi h
  | tdObj t o ok => exact inv_tdObj hi h
  | tdEnd t => exact inv_tdEnd hi h

theorem run_inv {ls : List Label} {s s' : St} (hi : Inv s) (h : run s ls = .ok s') : Inv s' := by
  induction ls generalizing s with
  | nil => simp only [run] at h; injection h with h; subst h; exact hi
  | cons l ls ih =>
    simp only [run] at h
    split at h
    · cases h
    · rename_i s1 h1; exact ih (step_inv hi h1) h

/-! ### One `teardown_factory` run started in a quiescent state, no `get_object` step in between -/

/-- what no `teardown_factory` step ever changes -/
structure Frame (s0 s : St) : Prop where
  slot : s.slot = s0.slot
  objects : s.objects = s0.objects
  next : s.next = s0.next
  creator : s.creator = s0.creator
  creations : s.creations = s0.creations
  returned : s.returned = s0.returned

/-- where a sequence of teardown steps from the quiescent state `s0` can be -/
inductive Phase (s0 s : St) : Prop
  | notStarted (hb : s.tdBegins = s0.tdBegins) (hq : ∀ t, s.pc t = .idle) (hc : s.tdCount = s0.tdCount)
      (he : s.tdEnds = s0.tdEnds) (hr : s.tdRaises = s0.tdRaises)
  | running (t i : Nat) (hb : s.tdBegins = s0.tdBegins + 1) (hp : s.pc t = .tearing i)
      (hq : ∀ u, u ≠ t → s.pc u = .idle)
      (hc : ∀ o, s.tdCount o = s0.tdCount o + (s0.objects.take i).count o)
      (he : s.tdEnds = s0.tdEnds) (hr : s.tdRaises = s0.tdRaises)
  | finished (hb : s.tdBegins = s0.tdBegins + 1) (hq : ∀ t, s.pc t = .idle)
      (hc : ∀ o, s.tdCount o = s0.tdCount o + s0.objects.count o)
      (he : s.tdEnds = s0.tdEnds + 1) (hr : s.tdRaises = s0.tdRaises)
  | raised (i : Nat) (hi : i < s0.objects.length) (hb : s.tdBegins = s0.tdBegins + 1) (hq : ∀ t, s.pc t = .idle)
      (hc : ∀ o, s.tdCount o = s0.tdCount o + (s0.objects.take (i + 1)).count o)
      (he : s.tdEnds = s0.tdEnds) (hr : s.tdRaises = s0.tdRaises + 1)
  | another (hb : s0.tdBegins + 2 ≤ s.tdBegins)

theorem take_succ_count (l : List Nat) (i o x : Nat) (h : l[i]? = some x) :
    (l.take (i + 1)).count o = (l.take i).count o + (if x = o then 1 else 0) := by
  rw [List.take_add_one, h, List.count_append]
  simp [List.count_cons, List.count_nil, beq_iff_eq]

theorem take_of_getElem?_none (l : List Nat) (i : Nat) (h : l[i]? = none) : l.take i = l := by
  apply List.take_of_length_le
  exact List.getElem?_eq_none_iff.mp h

theorem td_step_frame {s0 s s' : St} {l : Label} (hl : l.isTd = true) (hf : Frame s0 s)
    (h : step s l = .ok s') : Frame s0 s' := by
  obtain ⟨f1, f2, f3, f4, f5, f6⟩ := hf
  cases l with
  | tdBegin t => obtain ⟨_, rfl⟩ := step_tdBegin h; exact ⟨f1, f2, f3, f4, f5, f6⟩
  | tdObj t o ok => obtain ⟨_, _, _, rfl⟩ := step_tdObj h; exact ⟨f1, f2, f3, f4, f5, f6⟩
  | tdEnd t => obtain ⟨_, _, _, rfl⟩ := step_tdEnd h; exact ⟨f1, f2, f3, f4, f5, f6⟩
  | _ => cases hl

theorem td_step_phase {s0 s s' : St} {l : Label} (hl : l.isTd = true) (hf : Frame s0 s) (hph : Phase s0 s)
    (h : step s l = .ok s') : Phase s0 s' := by
  have hobj := hf.objects
  cases l with
  | tdBegin t =>
    obtain ⟨hp, rfl⟩ := step_tdBegin h
    cases hph with
    | notStarted hb hq hc he hr =>
      refine .running t 0 (by simp [hb]) (by simp) (fun u hu => by simp [hu, hq u]) (fun o => by simp [hc]) he hr
    | running t' i hb hp' hq hc he hr => exact .another (by simp; omega)
    | finished hb hq hc he hr => exact .another (by simp; omega)
    | raised i hi hb hq hc he hr => exact .another (by simp; omega)
    | another hb => exact .another (by simp; omega)
  | tdObj t o ok =>
    obtain ⟨i, hp, ho, rfl⟩ := step_tdObj h
    cases hph with
    | notStarted hb hq hc he hr => rw [hq t] at hp; cases hp
    | running t' i' hb hp' hq hc he hr =>
      have ht : t = t' := by
        apply Classical.byContradiction; intro hne
        rw [hq t hne] at hp; cases hp
      subst ht
      rw [hp'] at hp; injection hp with hp; subst hp
      rw [hobj] at ho
      have hcnt := fun x => take_succ_count s0.objects i' x o ho
      cases ok with
      | true =>
        refine .running t (i' + 1) hb (by simp) (fun u hu => by simp [hu, hq u hu]) (fun x => ?_) he (by simpa using hr)
        dsimp only
        rw [hcnt x]
        by_cases e : x = o
        · subst e; simp [hc x]; omega
        · have e' : ¬ o = x := fun h => e h.symm
          simp [e, e', hc x]
      | false =>
        have hlt : i' < s0.objects.length := by
          apply Classical.byContradiction; intro hge
          have : s0.objects[i']? = none := List.getElem?_eq_none_iff.mpr (by omega)
          rw [this] at ho; cases ho
        refine .raised i' hlt hb (fun u => ?_) (fun x => ?_) he (by simp [hr])
        · by_cases hu : u = t
          · simp [hu]
          · simp [hu, hq u hu]
        · dsimp only
          rw [hcnt x]
          by_cases e : x = o
          · subst e; simp [hc x]; omega
          · have e' : ¬ o = x := fun h => e h.symm
            simp [e, e', hc x]
    | finished hb hq hc he hr => rw [hq t] at hp; cases hp
    | raised i' hi hb hq hc he hr => rw [hq t] at hp; cases hp
    | another hb => exact .another hb
  | tdEnd t =>
    obtain ⟨i, hp, ho, rfl⟩ := step_tdEnd h
    cases hph with
    | notStarted hb hq hc he hr => rw [hq t] at hp; cases hp
    | running t' i' hb hp' hq hc he hr =>
      have ht : t = t' := by
        apply Classical.byContradiction; intro hne
        rw [hq t hne] at hp; cases hp
      subst ht
      rw [hp'] at hp; injection hp with hp; subst hp
      rw [hobj] at ho
      have htake := take_of_getElem?_none _ _ ho
      refine .finished hb (fun u => ?_) (fun x => ?_) (by simp [he]) hr
      · by_cases hu : u = t
        · simp [hu]
        · simp [hu, hq u hu]
      · rw [← htake]; exact hc x
    | finished hb hq hc he hr => rw [hq t] at hp; cases hp
    | raised i' hi hb hq hc he hr => rw [hq t] at hp; cases hp
    | another hb => exact .another hb
  | _ => cases hl

theorem td_run_phase {ls : List Label} {s0 s s' : St} (hls : ∀ l ∈ ls, l.isTd = true)
    (hf : Frame s0 s) (hph : Phase s0 s) (h : run s ls = .ok s') : Frame s0 s' ∧ Phase s0 s' := by
  induction ls generalizing s with
  | nil => simp only [run] at h; injection h with h; subst h; exact ⟨hf, hph⟩
  | cons l ls ih =>
    simp only [run] at h
    split at h
    · cases h
    · rename_i s1 h1
      have hl := hls l (by simp)
      exact ih (fun l' hl' => hls l' (by simp [hl'])) (td_step_frame hl hf h1) (td_step_phase hl hf hph h1) h

theorem frame_refl (s : St) : Frame s s := ⟨rfl, rfl, rfl, rfl, rfl, rfl⟩

theorem phase_start {s : St} (hq : ∀ t, s.pc t = .idle) : Phase s s := .notStarted rfl hq rfl rfl rfl

/-! ### Ghost teardown counters under `get_object` steps / non-raising steps -/

theorem get_step_td {s s' : St} {l : Label} (hl : l.isTd = false) (h : step s l = .ok s') :
    s'.tdCount = s.tdCount ∧ s'.tdBegins = s.tdBegins ∧ s'.tdEnds = s.tdEnds ∧ s'.tdRaises = s.tdRaises := by
  cases l with
  | getHit t o => obtain ⟨_, _, rfl⟩ := step_getHit h; exact ⟨rfl, rfl, rfl, rfl⟩
  | getMiss t => obtain ⟨_, _, rfl⟩ := step_getMiss h; exact ⟨rfl, rfl, rfl, rfl⟩
  | setupOk t o => obtain ⟨_, _, rfl⟩ := step_setupOk h; exact ⟨rfl, rfl, rfl, rfl⟩
  | setupRaise t => obtain ⟨_, rfl⟩ := step_setupRaise h; exact ⟨rfl, rfl, rfl, rfl⟩
  | writeSlot t => obtain ⟨_, _, rfl⟩ := step_writeSlot h; exact ⟨rfl, rfl, rfl, rfl⟩
  | append t => obtain ⟨_, _, rfl⟩ := step_append h; exact ⟨rfl, rfl, rfl, rfl⟩
  | getRet t o => obtain ⟨_, rfl⟩ := step_getRet h; exact ⟨rfl, rfl, rfl, rfl⟩
  | tdBegin t => cases hl
  | tdObj t o ok => cases hl
  | tdEnd t => cases hl

theorem get_run_td {ls : List Label} {s s' : St} (hls : ∀ l ∈ ls, l.isTd = false) (h : run s ls = .ok s') :
    s'.tdCount = s.tdCount ∧ s'.tdBegins = s.tdBegins ∧ s'.tdEnds = s.tdEnds ∧ s'.tdRaises = s.tdRaises := by
  induction ls generalizing s with
  | nil => simp only [run] at h; injection h with h; subst h; exact ⟨rfl, rfl, rfl, rfl⟩
  | cons l ls ih =>
    simp only [run] at h
    split at h
    · cases h
    · rename_i s1 h1
      obtain ⟨a1, a2, a3, a4⟩ := get_step_td (hls l (by simp)) h1
      obtain ⟨b1, b2, b3, b4⟩ := ih (fun l' hl' => hls l' (by simp [hl'])) h
      exact ⟨b1.trans a1, b2.trans a2, b3.trans a3, b4.trans a4⟩

theorem noraise_step {s s' : St} {l : Label} (hl : l.isTdRaise = false) (h : step s l = .ok s') :
    s'.tdRaises = s.tdRaises := by
  cases l with
  | getHit t o => obtain ⟨_, _, rfl⟩ := step_getHit h; rfl
  | getMiss t => obtain ⟨_, _, rfl⟩ := step_getMiss h; rfl
  | setupOk t o => obtain ⟨_, _, rfl⟩ := step_setupOk h; rfl
  | setupRaise t => obtain ⟨_, rfl⟩ := step_setupRaise h; rfl
  | writeSlot t => obtain ⟨_, _, rfl⟩ := step_writeSlot h; rfl
  | append t => obtain ⟨_, _, rfl⟩ := step_append h; rfl
  | getRet t o => obtain ⟨_, rfl⟩ := step_getRet h; rfl
  | tdBegin t => obtain ⟨_, rfl⟩ := step_tdBegin h; rfl
  | tdObj t o ok =>
    obtain ⟨_, _, _, rfl⟩ := step_tdObj h
    cases ok with
    | true => rfl
    | false => cases hl
  | tdEnd t => obtain ⟨_, _, _, rfl⟩ := step_tdEnd h; rfl

theorem noraise_run {ls : List Label} {s s' : St} (hls : ∀ l ∈ ls, l.isTdRaise = false) (h : run s ls = .ok s') :
    s'.tdRaises = s.tdRaises := by
  induction ls generalizing s with
  | nil => simp only [run] at h; injection h with h; subst h; rfl
  | cons l ls ih =>
    simp only [run] at h
    split at h
    · cases h
    · rename_i s1 h1
      exact (ih (fun l' hl' => hls l' (by simp [hl'])) h).trans (noraise_step (hls l (by simp)) h1)

/-- a step of thread `l.thread` leaves the program counter of every other thread alone -/
theorem step_pc_other {s s' : St} {l : Label} {t : Nat} (ht : l.thread ≠ t) (h : step s l = .ok s') :
    s'.pc t = s.pc t := by
  have ht' : ¬ t = l.thread := fun e => ht e.symm
  cases l with
  | getHit u o => obtain ⟨_, _, rfl⟩ := step_getHit h; rfl
  | getMiss u => obtain ⟨_, _, rfl⟩ := step_getMiss h; simp only [Label.thread] at ht'; simp [ht']
  | setupOk u o => obtain ⟨_, _, rfl⟩ := step_setupOk h; simp only [Label.thread] at ht'; simp [ht']
  | setupRaise u => obtain ⟨_, rfl⟩ := step_setupRaise h; simp only [Label.thread] at ht'; simp [ht']
  | writeSlot u => obtain ⟨_, _, rfl⟩ := step_writeSlot h; simp only [Label.thread] at ht'; simp [ht']
  | append u => obtain ⟨_, _, rfl⟩ := step_append h; simp only [Label.thread] at ht'; simp [ht']
  | getRet u o => obtain ⟨_, rfl⟩ := step_getRet h; simp only [Label.thread] at ht'; simp [ht']
  | tdBegin u => obtain ⟨_, rfl⟩ := step_tdBegin h; simp only [Label.thread] at ht'; simp [ht']
  | tdObj u o ok => obtain ⟨_, _, _, rfl⟩ := step_tdObj h; simp only [Label.thread] at ht'; simp [ht']
  | tdEnd u => obtain ⟨_, _, _, rfl⟩ := step_tdEnd h; simp only [Label.thread] at ht'; simp [ht']

theorem run_pc_other {ls : List Label} {s s' : St} {t : Nat} (ht : ∀ l ∈ ls, l.thread ≠ t)
    (h : run s ls = .ok s') : s'.pc t = s.pc t := by
  induction ls generalizing s with
  | nil => simp only [run] at h; injection h with h; subst h; rfl
  | cons l ls ih =>
    simp only [run] at h
    split at h
    · cases h
    · rename_i s1 h1
      exact (ih (fun l' hl' => ht l' (by simp [hl'])) h).trans (step_pc_other (ht l (by simp)) h1)

theorem run_append {s : St} {l1 l2 : List Label} :
    run s (l1 ++ l2) = (match run s l1 with | .error e => .error e | .ok s1 => run s1 l2) := by
  induction l1 generalizing s with
  | nil => rfl
  | cons l ls ih =>
    simp only [List.cons_append, run]
    split
    · rfl
    · exact ih

theorem count_of_nodup {l : List Nat} (h : l.Nodup) (o : Nat) : l.count o = if o ∈ l then 1 else 0 := by
  by_cases hm : o ∈ l
  · have h1 := (List.nodup_iff_count.mp h) o
    have h2 := List.count_pos_iff.mpr hm
    simp [hm]; omega
  · simp [hm, List.count_eq_zero.mpr hm]

end LccModel.Threads.Factory

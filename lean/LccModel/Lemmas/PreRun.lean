import LccModel.Model.PreRun

namespace LccModel.PreRun

theorem setUp_append (a b : List Item) : setUp (a ++ b) = setUp a ++ setUp b := by
  induction a with
  | nil => rfl
  | cons i is ih => cases i <;> simp [setUp, ih]

theorem tornDown_append (a b : List Item) : tornDown (a ++ b) = tornDown a ++ tornDown b := by
  induction a with
  | nil => rfl
  | cons i is ih => cases i <;> simp [tornDown, ih]

theorem setupLoop_done (fxs : List Fx) : (setupLoop fxs).2.1 = fxs.takeWhile (fun f => !f.setupFails) := by
  induction fxs with
  | nil => rfl
  | cons f rest ih =>
    cases h : f.setupFails <;> simp [setupLoop, h, List.takeWhile, ih]

theorem setupLoop_failed (fxs : List Fx) : (setupLoop fxs).2.2 = fxs.find? (fun f => f.setupFails) := by
  induction fxs with
  | nil => rfl
  | cons f rest ih =>
    cases h : f.setupFails <;> simp [setupLoop, h, List.find?, ih]

theorem setUp_setupLoop (fxs : List Fx) : setUp (setupLoop fxs).1 = (setupLoop fxs).2.1 := by
  induction fxs with
  | nil => rfl
  | cons f rest ih =>
    cases h : f.setupFails <;> simp [setupLoop, h, setUp, ih]

theorem tornDown_setupLoop (fxs : List Fx) : tornDown (setupLoop fxs).1 = [] := by
  induction fxs with
  | nil => rfl
  | cons f rest ih =>
    cases h : f.setupFails <;> simp [setupLoop, h, tornDown, ih]

theorem setupLoop_no_teardown (fxs : List Fx) : ∀ i ∈ (setupLoop fxs).1, isTeardown i = false := by
  induction fxs with
  | nil => intro i hi; cases hi
  | cons f rest ih =>
    cases h : f.setupFails
    · intro i hi
      simp [setupLoop, h] at hi
      rcases hi with rfl | hi
      · rfl
      · exact ih i hi
    · intro i hi
      simp [setupLoop, h] at hi
      subst hi; rfl

theorem setupLoop_no_session (fxs : List Fx) : Item.session ∉ (setupLoop fxs).1 := by
  induction fxs with
  | nil => intro h; cases h
  | cons f rest ih =>
    cases h : f.setupFails <;> simp [setupLoop, h] <;> exact ih

theorem setUp_teardownItems (l : List Fx) : setUp (l.flatMap teardownItem) = [] := by
  induction l with
  | nil => rfl
  | cons f rest ih =>
    simp only [List.flatMap_cons, setUp_append, ih, List.append_nil]
    unfold teardownItem
    cases f.gen <;> cases f.teardownFails <;> rfl

theorem tornDown_teardownItems (l : List Fx) : tornDown (l.flatMap teardownItem) = l.filter (fun f => f.gen) := by
  induction l with
  | nil => rfl
  | cons f rest ih =>
    simp only [List.flatMap_cons, tornDown_append, ih]
    unfold teardownItem
    cases hg : f.gen <;> cases f.teardownFails <;> simp [tornDown, List.filter, hg]

theorem teardownItems_no_session (l : List Fx) : Item.session ∉ l.flatMap teardownItem := by
  induction l with
  | nil => intro h; cases h
  | cons f rest ih =>
    simp only [List.flatMap_cons, List.mem_append, not_or]
    refine ⟨?_, ih⟩
    unfold teardownItem
    cases f.gen <;> cases f.teardownFails <;> simp

/-- the items of a run, spelled out -/
theorem runSuites_items (fxs : List Fx) (b : Bool) :
    (runSuites fxs b).1 =
      (setupLoop fxs).1 ++ (if (setupLoop fxs).2.2.isSome then [] else [Item.session]) ++ teardownLoop (setupLoop fxs).2.1 := by
  unfold runSuites
  generalize setupLoop fxs = r
  obtain ⟨a, d, o⟩ := r
  cases o <;> simp

end LccModel.PreRun

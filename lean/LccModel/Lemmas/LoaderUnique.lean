/-
  Helper lemmas for C13, layer 6: every tree the loader returns is free of duplicate names and
  descriptions within each suite (`Suite.Unique`), and the exact success condition of the
  module/directory merge step (`attach`).
-/
import LccModel.Lemmas.LoaderDir

namespace LccModel.Loader

open List

mutual
/-- Within every suite of the tree: test names pairwise distinct, test descriptions pairwise
    distinct, sub-suite names pairwise distinct, sub-suite descriptions pairwise distinct. -/
def Suite.Unique : Suite → Prop
  | .mk _ ts ss => NoClashT ts ∧ NoClashS ss ∧ Suite.UniqueList ss
def Suite.UniqueList : List Suite → Prop
  | [] => True
  | s :: rest => Suite.Unique s ∧ Suite.UniqueList rest
end

theorem uniqueList_iff : ∀ (ss : List Suite), Suite.UniqueList ss ↔ ∀ s ∈ ss, s.Unique
  | [] => by simp [Suite.UniqueList]
  | s :: rest => by simp [Suite.UniqueList, uniqueList_iff rest]

theorem noClashT_of_accepts {ds : List TestDecl} (h : acceptsTests ds = true) : NoClashT (declTests ds) := by
  unfold acceptsTests at h
  simp only [Bool.and_eq_true, nodupB_iff] at h
  exact ⟨h.1.2, h.2⟩

theorem loadClass_unique : ∀ (c : Cls) (s : Suite), loadClass c = .ok s → s.Unique := by
  apply Cls.ind
  intro h tests subs ih s hs
  unfold loadClass at hs
  cases hc : h.ctorFails
  · simp only [hc, Bool.false_eq_true, if_false] at hs
    cases ht : loadTests tests with
    | error e => simp [ht] at hs
    | ok ts =>
      cases hsub : loadSubSuites (loadClassList subs) with
      | error e => simp [ht, hsub] at hs
      | ok ss =>
        simp only [ht, hsub, Except.ok.injEq] at hs
        subst hs
        obtain ⟨f2, _, _, hno⟩ := loadSubSuites_spec subs ss hsub (fun c _ s hs => loadClass_good hs)
        obtain ⟨hacc, rfl⟩ := (loadTests_ok_iff tests ts).mp ht
        refine ⟨noClashT_of_accepts hacc, hno, (uniqueList_iff ss).mpr ?_⟩
        intro s' hs'
        obtain ⟨c, hc', hcs⟩ := forall2_exists_right f2 s' hs'
        exact ih c (mem_discover.mp (List.mem_filter.mp hc').1) s' hcs
  · simp [hc] at hs

theorem loadModule_unique {m : Module} {s : Suite} (h : loadModule m = .ok s) : s.Unique := by
  obtain ⟨ss, rfl, f2, _, hno, hacc⟩ := loadModule_spec h
  refine ⟨noClashT_of_accepts hacc, hno, (uniqueList_iff ss).mpr ?_⟩
  intro s' hs'
  obtain ⟨c, _, hcs⟩ := forall2_exists_right f2 s' hs'
  exact loadClass_unique c s' hcs

theorem collapse_cases (m : Module) (s : Suite) :
    collapse m s = s ∨ ∃ h c, s = .mk h [] [c] ∧ collapse m s = c := by
  unfold collapse
  cases m.info with
  | some i => exact Or.inl rfl
  | none =>
    cases s with
    | mk h ts ss =>
      cases ts with
      | cons _ _ => exact Or.inl rfl
      | nil =>
        cases ss with
        | nil => exact Or.inl rfl
        | cons c cs =>
          cases cs with
          | cons _ _ => exact Or.inl rfl
          | nil =>
            by_cases hn : c.name = m.stem
            · exact Or.inr ⟨h, c, rfl, by simp [hn]⟩
            · exact Or.inl (by simp [hn])

theorem loadFile_unique {m : Module} {s : Suite} (h : loadFile m = .ok s) : s.Unique := by
  unfold loadFile at h
  cases hb : m.broken
  · simp only [hb, Bool.false_eq_true, if_false] at h
    cases hm : loadModule m with
    | error e => simp [hm] at h
    | ok s0 =>
      simp only [hm, Except.ok.injEq] at h
      have hu := loadModule_unique hm
      rcases collapse_cases m s0 with hc | ⟨hd, c, rfl, hc⟩
      · rw [hc] at h; subst h; exact hu
      · rw [hc] at h; subst h
        exact hu.2.2.1
  · simp [hb] at h

/-! ### The merge step -/

/-- **Module + companion directory (or synthetic suite + directory).**  Adding the non-empty suites
    `subs` of the directory to a suite whose sub-suites are clash-free succeeds iff the existing
    sub-suites together with `subs` have pairwise distinct names and pairwise distinct
    descriptions; the directory's suites are appended after the existing ones. -/
theorem attach_ok_iff (h : SuiteHead) (ts : List Test) (ss subs : List Suite) (s' : Suite)
    (hno : NoClashS ss) :
    attach (.mk h ts ss) subs = .ok s' ↔ (s' = .mk h ts (ss ++ subs) ∧ NoClashS (ss ++ subs)) := by
  cases ha : addSuites ss subs with
  | error e =>
    simp only [attach, ha]
    constructor
    · intro h'; cases h'
    · rintro ⟨_, hn⟩
      have := (addSuites_ok_iff subs ss (ss ++ subs) hno).mpr ⟨rfl, hn⟩
      rw [ha] at this; cases this
  | ok r =>
    obtain ⟨rfl, hn⟩ := (addSuites_ok_iff subs ss r hno).mp ha
    simp only [attach, ha, Except.ok.injEq]
    constructor
    · intro h'; exact ⟨h'.symm, hn⟩
    · intro h'; exact h'.1.symm

theorem attach_unique {s s' : Suite} {subs : List Suite} (hs : s.Unique) (hsubs : ∀ x ∈ subs, x.Unique)
    (h : attach s subs = .ok s') : s'.Unique := by
  cases s with
  | mk hd ts ss =>
    obtain ⟨rfl, hn⟩ := (attach_ok_iff hd ts ss subs s' hs.2.1).mp h
    refine ⟨hs.1, hn, (uniqueList_iff _).mpr ?_⟩
    intro x hx
    rcases List.mem_append.mp hx with hx | hx
    · exact (uniqueList_iff ss).mp hs.2.2 x hx
    · exact hsubs x hx

theorem synthetic_unique (n : String) : (synthetic n).Unique :=
  ⟨⟨List.nodup_nil, List.nodup_nil⟩, noClashS_nil, trivial⟩

theorem loadModTable_unique : ∀ (ms : List Module) (t : Table), loadModTable ms = .ok t → ∀ p ∈ t, p.2.Unique
  | [], t, h, p, hp => by
    simp only [loadModTable, Except.ok.injEq] at h; subst h; cases hp
  | m :: rest, t, h, p, hp => by
    simp only [loadModTable] at h
    cases hf : loadFile m with
    | error e => simp [hf] at h
    | ok s =>
      cases hr : loadModTable rest with
      | error e => simp [hf, hr] at h
      | ok t0 =>
        simp only [hf, hr, Except.ok.injEq] at h
        subst h
        cases hh : s.hidden
        · simp only [hh, Bool.false_eq_true, if_false, List.mem_cons] at hp
          rcases hp with rfl | hp
          · exact loadFile_unique hf
          · exact loadModTable_unique rest t0 hr p hp
        · simp only [hh, if_true] at hp
          exact loadModTable_unique rest t0 hr p hp

theorem mem_update {k : Key} {s : Suite} : ∀ {t : Table} {p : Key × Suite},
    p ∈ Table.update k s t → p ∈ t ∨ p.2 = s
  | [], _, hp => by cases hp
  | (k', s0) :: rest, p, hp => by
    simp only [Table.update] at hp
    by_cases hk : k' = k
    · simp only [hk, if_true, List.mem_cons] at hp
      rcases hp with rfl | hp
      · exact Or.inr rfl
      · exact Or.inl (List.mem_cons_of_mem _ hp)
    · simp only [hk, if_false, List.mem_cons] at hp
      rcases hp with rfl | hp
      · exact Or.inl List.mem_cons_self
      · rcases mem_update hp with h | h
        · exact Or.inl (List.mem_cons_of_mem _ h)
        · exact Or.inr h

theorem lookup_mem {k : Key} {s : Suite} : ∀ {t : Table}, t.lookup k = some s → (k, s) ∈ t
  | [], h => by simp [List.lookup] at h
  | (k', s0) :: rest, h => by
    simp only [List.lookup] at h
    by_cases hk : k = k'
    · subst hk
      simp only [beq_self_eq_true] at h
      injection h with h; subst h; exact List.mem_cons_self
    · have hb : (k == k') = false := by simpa using hk
      simp only [hb] at h
      exact List.mem_cons_of_mem _ (lookup_mem h)

theorem mergeDirs_unique : ∀ (rs : List (String × Except LoadErr (List Suite))) (t t' : Table),
    mergeDirs t rs = .ok t' → (∀ p ∈ t, p.2.Unique) →
    (∀ r ∈ rs, ∀ ss, r.2 = .ok ss → ∀ x ∈ ss, x.Unique) → ∀ p ∈ t', p.2.Unique
  | [], t, t', h, ht, _ => by
    simp only [mergeDirs, Except.ok.injEq] at h; subst h; exact ht
  | (dn, r) :: rest, t, t', h, ht, hr => by
    simp only [mergeDirs] at h
    cases r with
    | error e => simp at h
    | ok subs =>
      simp only at h
      have hsubs : ∀ x ∈ subs, x.Unique := hr (dn, .ok subs) List.mem_cons_self subs rfl
      have hr' : ∀ r ∈ rest, ∀ ss, r.2 = .ok ss → ∀ x ∈ ss, x.Unique :=
        fun r hr0 => hr r (List.mem_cons_of_mem _ hr0)
      cases hl : t.lookup (Key.file dn) with
      | some s =>
        simp only [hl] at h
        cases ha : attach s subs with
        | error e => simp [ha] at h
        | ok s' =>
          simp only [ha] at h
          refine mergeDirs_unique rest _ t' h ?_ hr'
          intro p hp
          rcases mem_update hp with hp | hp
          · exact ht p hp
          · rw [hp]; exact attach_unique (ht _ (lookup_mem hl)) hsubs ha
      | none =>
        simp only [hl] at h
        cases ha : attach (synthetic dn) subs with
        | error e => simp [ha] at h
        | ok s' =>
          simp only [ha] at h
          refine mergeDirs_unique rest _ t' h ?_ hr'
          intro p hp
          rcases List.mem_append.mp hp with hp | hp
          · exact ht p hp
          · simp only [List.mem_singleton] at hp
            rw [hp]; exact attach_unique (synthetic_unique dn) hsubs ha

theorem loadDir_unique : ∀ (d : Dir) (ss : List Suite), loadDir d = .ok ss → ∀ s ∈ ss, s.Unique := by
  apply Dir.ind
  intro n mods dirs ih ss h
  unfold loadDir at h
  cases ht : loadModTable (sortMods mods) with
  | error e => simp [ht] at h
  | ok t =>
    cases hm : mergeDirs t (sortDirResults (loadDirList dirs)) with
    | error e => simp [ht, hm] at h
    | ok t' =>
      simp only [ht, hm, Except.ok.injEq] at h
      subst h
      have hu := mergeDirs_unique _ t t' hm (loadModTable_unique _ t ht) (by
        intro r hr ss' hss'
        rw [sortDirResults_loadDirList] at hr
        obtain ⟨d, hd, rfl⟩ := List.mem_map.mp hr
        exact ih d (mem_sortBy.mp hd) ss' hss')
      intro s hs
      unfold finalSort at hs
      have hs' := (List.mem_filter.mp (mem_sortBy.mp (mem_sortBy.mp hs))).1
      obtain ⟨p, hp, rfl⟩ := List.mem_map.mp hs'
      exact hu p hp

end LccModel.Loader

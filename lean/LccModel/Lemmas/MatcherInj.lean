/-
  A kernel-friendly check of "equal keys ⇒ equal payloads" over a finite table of `(key, payload)`
  pairs of natural numbers: sort the table by key (merge sort with explicit fuel; only *membership
  preservation* of the sort is proved — that it really sorts is CHECKED on the concrete output by
  `chainOk`), then compare neighbours.  Used by the bounded injectivity theorem of Props/C17.lean.
-/
namespace LccModel.Inj

abbrev Row := Nat × Nat

def merge : Nat → List Row → List Row → List Row
  | 0, xs, ys => xs ++ ys
  | _ + 1, [], ys => ys
  | _ + 1, xs, [] => xs
  | f + 1, x :: xs, y :: ys => if x.1 ≤ y.1 then x :: merge f xs (y :: ys) else y :: merge f (x :: xs) ys

def split : List Row → List Row × List Row
  | [] => ([], [])
  | [x] => ([x], [])
  | x :: y :: r => (x :: (split r).1, y :: (split r).2)

def msort : Nat → List Row → List Row
  | 0, l => l
  | f + 1, l =>
    match l with
    | [] => []
    | [x] => [x]
    | x :: y :: r => merge (r.length + 2) (msort f (split (x :: y :: r)).1) (msort f (split (x :: y :: r)).2)

/-- neighbours have increasing keys, or the same key and the same payload -/
def chainOk : List Row → Bool
  | [] => true
  | [_] => true
  | x :: y :: r => (decide (x.1 < y.1) || (x.1 == y.1 && x.2 == y.2)) && chainOk (y :: r)

theorem mem_merge : ∀ (f : Nat) (xs ys : List Row) (a : Row), a ∈ xs ∨ a ∈ ys → a ∈ merge f xs ys
  | 0, xs, ys, a, h => by simp only [merge, List.mem_append]; exact h
  | f + 1, [], ys, a, h => by
    simp only [merge]; rcases h with h | h
    · cases h
    · exact h
  | f + 1, x :: xs, [], a, h => by
    simp only [merge]; rcases h with h | h
    · exact h
    · cases h
  | f + 1, x :: xs, y :: ys, a, h => by
    simp only [merge]
    split
    · rcases h with h | h
      · rcases List.mem_cons.mp h with h | h
        · subst h; exact List.mem_cons_self
        · exact List.mem_cons_of_mem _ (mem_merge f xs (y :: ys) a (Or.inl h))
      · exact List.mem_cons_of_mem _ (mem_merge f xs (y :: ys) a (Or.inr h))
    · rcases h with h | h
      · exact List.mem_cons_of_mem _ (mem_merge f (x :: xs) ys a (Or.inl h))
      · rcases List.mem_cons.mp h with h | h
        · subst h; exact List.mem_cons_self
        · exact List.mem_cons_of_mem _ (mem_merge f (x :: xs) ys a (Or.inr h))

theorem mem_split : ∀ (l : List Row) (a : Row), a ∈ l → a ∈ (split l).1 ∨ a ∈ (split l).2
  | [], a, h => by cases h
  | [x], a, h => by simp only [split]; exact Or.inl h
  | x :: y :: r, a, h => by
    simp only [split]
    rcases List.mem_cons.mp h with h | h
    · subst h; exact Or.inl List.mem_cons_self
    · rcases List.mem_cons.mp h with h | h
      · subst h; exact Or.inr List.mem_cons_self
      · rcases mem_split r a h with h | h
        · exact Or.inl (List.mem_cons_of_mem _ h)
        · exact Or.inr (List.mem_cons_of_mem _ h)

theorem mem_msort : ∀ (f : Nat) (l : List Row) (a : Row), a ∈ l → a ∈ msort f l
  | 0, l, a, h => h
  | f + 1, [], a, h => by cases h
  | f + 1, [x], a, h => by simp only [msort]; exact h
  | f + 1, x :: y :: r, a, h => by
    simp only [msort]
    apply mem_merge
    rcases mem_split (x :: y :: r) a h with h | h
    · exact Or.inl (mem_msort f _ a h)
    · exact Or.inr (mem_msort f _ a h)

/-- "before or equal with the same payload" -/
def Rel (x y : Row) : Prop := x.1 < y.1 ∨ (x.1 = y.1 ∧ x.2 = y.2)

theorem Rel.trans {x y z : Row} (h₁ : Rel x y) (h₂ : Rel y z) : Rel x z := by
  unfold Rel at *
  rcases h₁ with h₁ | ⟨h₁, h₁'⟩ <;> rcases h₂ with h₂ | ⟨h₂, h₂'⟩
  · left; omega
  · left; omega
  · left; omega
  · right; exact ⟨h₁.trans h₂, h₁'.trans h₂'⟩

theorem chainOk_tail {x : Row} {l : List Row} (h : chainOk (x :: l) = true) : chainOk l = true := by
  cases l with
  | nil => rfl
  | cons y r => simp only [chainOk, Bool.and_eq_true] at h; exact h.2

theorem chainOk_head : ∀ (l : List Row) (x : Row), chainOk (x :: l) = true → ∀ y ∈ l, Rel x y
  | [], _, _, y, hy => by cases hy
  | z :: r, x, h, y, hy => by
    have hxz : Rel x z := by
      simp only [chainOk, Bool.and_eq_true, Bool.or_eq_true, decide_eq_true_eq, beq_iff_eq] at h
      exact h.1
    rcases List.mem_cons.mp hy with hy | hy
    · subst hy; exact hxz
    · exact hxz.trans (chainOk_head r z (chainOk_tail h) y hy)

/-- a table that passes `chainOk` maps equal keys to equal payloads -/
theorem chainOk_functional : ∀ (l : List Row), chainOk l = true →
    ∀ a ∈ l, ∀ b ∈ l, a.1 = b.1 → a.2 = b.2
  | [], _, a, ha, _, _, _ => by cases ha
  | x :: r, h, a, ha, b, hb, hab => by
    rcases List.mem_cons.mp ha with ha' | ha' <;> rcases List.mem_cons.mp hb with hb' | hb'
    · rw [ha', hb']
    · rw [ha'] at hab ⊢
      rcases chainOk_head r x h b hb' with hlt | ⟨_, h2⟩
      · omega
      · exact h2
    · rw [hb'] at hab ⊢
      rcases chainOk_head r x h a ha' with hlt | ⟨_, h2⟩
      · omega
      · exact h2.symm
    · exact chainOk_functional r (chainOk_tail h) a ha' b hb' hab

/-- the check used by the property theorem -/
theorem functional_of_sorted_check (fuel : Nat) (l : List Row) (h : chainOk (msort fuel l) = true) :
    ∀ a ∈ l, ∀ b ∈ l, a.1 = b.1 → a.2 = b.2 :=
  fun a ha b hb hab =>
    chainOk_functional _ h a (mem_msort fuel l a ha) b (mem_msort fuel l b hb) hab

end LccModel.Inj

/-
  C05 helpers, part 9: the labels the writer only COPIES — times and attachment file names (whose prefix is a global
  counter) — can be changed without changing anything else of the report.

  `Lab` is a re-labelling of those labels: one function for the time of step-end events (= `Step.end_time`, the only time
  the writer ever READS BACK: `assert not step.end_time`), one for every other time, one for attachment file names.
  `Lab.Ok`: the step-end function keeps "is zero" (Python truthiness of `step.end_time`).  Under `Lab.Ok` the re-labelling
  is a homomorphism of the writer: `apply (w.lab L) (e.lab L) = (apply w e).map (·.lab L)` — hence of `run`, `fold`, of the
  discipline `drun`, and it commutes with the rank-sorted `view`.
-/
import LccModel.Lemmas.WriterSwap
set_option linter.unusedSimpArgs false
set_option linter.unusedVariables false
namespace LccModel.Writer
open LccModel.Report

/-- a re-labelling of the labels the writer copies into the report -/
structure Lab where
  stepEnd : Time → Time      -- the time of a step-end event (becomes `Step.end_time`)
  time : Time → Time         -- every other time
  file : String → String     -- attachment file names

/-- the re-labelling keeps the truthiness of `step.end_time` -/
def Lab.Ok (L : Lab) : Prop := ∀ t : Nat, L.stepEnd t = 0 ↔ t = 0

def labEntry (L : Lab) : Entry → Entry
  | .log level message t => .log level message (L.time t)
  | .check d ok details t => .check d ok details (L.time t)
  | .attachment d f img t => .attachment d (L.file f) img (L.time t)
  | .url d u t => .url d u (L.time t)

def labStep (L : Lab) (s : Step) : Step :=
  { description := s.description, startTime := s.startTime.map L.time, endTime := s.endTime.map L.stepEnd,
    entries := s.entries.map (labEntry L) }

def labResult (L : Lab) (x : Result) : Result :=
  { steps := x.steps.map (labStep L), startTime := x.startTime.map L.time, endTime := x.endTime.map L.time,
    status := x.status, statusDetails := x.statusDetails }

def labTest (L : Lab) (t : TestResult) : TestResult := { md := t.md, result := labResult L t.result }

mutual
def labSuite (L : Lab) : SuiteResult → SuiteResult
  | .mk md st en su td ts ss =>
    .mk md (st.map L.time) (en.map L.time) (su.map (labResult L)) (td.map (labResult L)) (ts.map (labTest L)) (labSuites L ss)
def labSuites (L : Lab) : List SuiteResult → List SuiteResult
  | [] => []
  | s :: ss => labSuite L s :: labSuites L ss
end

def labReport (L : Lab) (r : Report) : Report :=
  { title := r.title, info := r.info, nbThreads := r.nbThreads, startTime := r.startTime.map L.time,
    endTime := r.endTime.map L.time, savingTime := r.savingTime.map L.time, setup := r.setup.map (labResult L),
    teardown := r.teardown.map (labResult L), suites := labSuites L r.suites }

def labEvent (L : Lab) : Event → Event
  | .sessionStart t => .sessionStart (L.time t)
  | .sessionEnd t => .sessionEnd (L.time t)
  | .sessionSetupStart t => .sessionSetupStart (L.time t)
  | .sessionSetupEnd t => .sessionSetupEnd (L.time t)
  | .sessionTeardownStart t => .sessionTeardownStart (L.time t)
  | .sessionTeardownEnd t => .sessionTeardownEnd (L.time t)
  | .suiteStart p md t => .suiteStart p md (L.time t)
  | .suiteEnd p t => .suiteEnd p (L.time t)
  | .suiteSetupStart p t => .suiteSetupStart p (L.time t)
  | .suiteSetupEnd p t => .suiteSetupEnd p (L.time t)
  | .suiteTeardownStart p t => .suiteTeardownStart p (L.time t)
  | .suiteTeardownEnd p t => .suiteTeardownEnd p (L.time t)
  | .testStart p md t => .testStart p md (L.time t)
  | .testEnd p t => .testEnd p (L.time t)
  | .testSkipped p md r t => .testSkipped p md r (L.time t)
  | .testDisabled p md r t => .testDisabled p md r (L.time t)
  | .stepStart loc d tid t => .stepStart loc d tid (L.time t)
  | .stepEnd loc s tid t => .stepEnd loc s tid (L.stepEnd t)
  | .log loc s tid level m t => .log loc s tid level m (L.time t)
  | .check loc s tid d ok det t => .check loc s tid d ok det (L.time t)
  | .attachment loc s tid path d img t => .attachment loc s tid (L.file path) d img (L.time t)
  | .url loc s tid u d t => .url loc s tid u d (L.time t)

def labRef (L : Lab) (ref : StepRef) : StepRef := { target := ref.target, endTime := ref.endTime.map L.stepEnd }
def labBind (L : Lab) (b : Nat × StepRef) : Nat × StepRef := (b.1, labRef L b.2)
def labState (L : Lab) (w : WriterState) : WriterState := { report := labReport L w.report, active := w.active.map (labBind L) }

/-! ### basic facts -/

theorem labSuites_eq_map (L : Lab) : ∀ ss : List SuiteResult, labSuites L ss = ss.map (labSuite L)
  | [] => rfl
  | s :: ss => by simp [labSuites, labSuites_eq_map L ss]

@[simp] theorem labSuite_md (L : Lab) (s : SuiteResult) : (labSuite L s).md = s.md := by cases s; rfl
@[simp] theorem labSuite_suites (L : Lab) (s : SuiteResult) : (labSuite L s).suites = labSuites L s.suites := by cases s; rfl
@[simp] theorem labSuite_tests (L : Lab) (s : SuiteResult) : (labSuite L s).tests = s.tests.map (labTest L) := by cases s; rfl
@[simp] theorem labSuite_setup (L : Lab) (s : SuiteResult) : (labSuite L s).setup = s.setup.map (labResult L) := by cases s; rfl
@[simp] theorem labSuite_teardown (L : Lab) (s : SuiteResult) : (labSuite L s).teardown = s.teardown.map (labResult L) := by
  cases s; rfl
theorem labSuite_setSuites (L : Lab) (s : SuiteResult) (sub : List SuiteResult) :
    labSuite L (s.setSuites sub) = (labSuite L s).setSuites (labSuites L sub) := by cases s; rfl
theorem labSuite_setTests (L : Lab) (s : SuiteResult) (ts : List TestResult) :
    labSuite L (s.setTests ts) = (labSuite L s).setTests (ts.map (labTest L)) := by cases s; rfl
theorem labSuite_setSetup (L : Lab) (s : SuiteResult) (x : Option Result) :
    labSuite L (s.setSetup x) = (labSuite L s).setSetup (x.map (labResult L)) := by cases s; rfl
theorem labSuite_setTeardown (L : Lab) (s : SuiteResult) (x : Option Result) :
    labSuite L (s.setTeardown x) = (labSuite L s).setTeardown (x.map (labResult L)) := by cases s; rfl
theorem labSuite_setEndTime (L : Lab) (s : SuiteResult) (t : Option Time) :
    labSuite L (s.setEndTime t) = (labSuite L s).setEndTime (t.map L.time) := by cases s; rfl

theorem truthyTime_lab {L : Lab} (hL : L.Ok) (x : Option Time) : truthyTime (x.map L.stepEnd) = truthyTime x := by
  cases x with
  | none => rfl
  | some t =>
    show (L.stepEnd t != 0) = (t != 0)
    have := hL t
    by_cases h : t = 0
    · have h' := this.mpr h
      rw [h']; subst h; rfl
    · have h' : L.stepEnd t ≠ 0 := fun hh => h (this.mp hh)
      rw [bne_iff_ne.mpr h', bne_iff_ne.mpr h]

theorem labEntry_ok (L : Lab) (e : Entry) : (labEntry L e).ok = e.ok := by cases e <;> rfl

theorem labStep_ok (L : Lab) (s : Step) : (labStep L s).ok = s.ok := by
  simp only [Step.ok, labStep, List.all_map]
  congr 1
  funext e
  exact labEntry_ok L e

theorem labResult_ok (L : Lab) (x : Result) : (labResult L x).ok = x.ok := by
  simp only [Result.ok, labResult]
  cases x.status with
  | some st => rfl
  | none =>
    simp only [List.all_map]
    congr 1
    funext s
    exact labStep_ok L s

/-! ### the lookups commute with the re-labelling -/

theorem modifyFirst_map {α ε : Type} (h : α → α) (p : α → Bool) (F F' : α → Except ε α) (nf : ε)
    (hp : ∀ x, p (h x) = p x) (hF : ∀ x, F' (h x) = Except.map h (F x)) :
    ∀ l : List α, modifyFirst p F' nf (l.map h) = Except.map (List.map h) (modifyFirst p F nf l)
  | [] => rfl
  | x :: xs => by
    simp only [List.map_cons, modifyFirst, hp, hF]
    by_cases hx : p x = true
    · simp only [hx, if_true]
      cases F x <;> rfl
    · simp only [hx, if_false, Bool.false_eq_true, modifyFirst_map h p F F' nf hp hF xs]
      cases modifyFirst p F nf xs <;> rfl

theorem modifySuite_lab (L : Lab) (F F' : SuiteResult → Except WriterErr SuiteResult)
    (hF : ∀ s, F' (labSuite L s) = Except.map (labSuite L) (F s)) :
    ∀ (p : Path) (ss : List SuiteResult),
      modifySuite F' p (labSuites L ss) = Except.map (labSuites L) (modifySuite F p ss)
  | [], ss => rfl
  | [n], ss => by
    simp only [modifySuite, labSuites_eq_map]
    rw [modifyFirst_map (labSuite L) _ F F' _ (by intro x; simp) hF]
    cases modifyFirst (fun s => s.md.name == n) F (WriterErr.lookupSuite n) ss with
    | error e => rfl
    | ok l => simp [Except.map, labSuites_eq_map]
  | n :: m :: rest, ss => by
    simp only [modifySuite, labSuites_eq_map L ss]
    rw [modifyFirst_map (labSuite L) (fun s => s.md.name == n)
      (fun s => match modifySuite F (m :: rest) s.suites with
                | .ok sub => .ok (s.setSuites sub)
                | .error e => .error e) _ _ (by intro x; simp)]
    · cases modifyFirst (fun s => s.md.name == n) _ (WriterErr.lookupSuite n) ss with
      | error e => rfl
      | ok l => simp [Except.map, labSuites_eq_map]
    · intro s
      simp only [labSuite_suites, modifySuite_lab L F F' hF (m :: rest) s.suites]
      cases modifySuite F (m :: rest) s.suites with
      | error e => rfl
      | ok sub => simp [Except.map, labSuite_setSuites]

theorem getLast?_some_ne {p : Path} {last : String} (h : p.getLast? = some last) : p ≠ [] := by
  intro hp; subst hp; cases h

theorem modifyTest_lab (L : Lab) (f f' : TestResult → Except WriterErr TestResult)
    (hf : ∀ t, f' (labTest L t) = Except.map (labTest L) (f t)) (p : Path) (ss : List SuiteResult) :
    modifyTest f' p (labSuites L ss) = Except.map (labSuites L) (modifyTest f p ss) := by
  unfold modifyTest
  cases p.getLast? with
  | none => rfl
  | some last =>
    simp only
    refine modifySuite_lab L _ _ ?_ _ _
    intro s
    simp only [labSuite_tests]
    rw [modifyFirst_map (labTest L) (fun t => t.md.name == last) f f' _ (by intro x; rfl) hf]
    cases modifyFirst (fun t => t.md.name == last) f (WriterErr.lookupTest p) s.tests with
    | error e => rfl
    | ok ts => simp [Except.map, labSuite_setTests]

theorem liftSuites_lab (L : Lab) (r : Report) (x : Except WriterErr (List SuiteResult)) :
    liftSuites (labReport L r) (Except.map (labSuites L) x) = Except.map (labReport L) (liftSuites r x) := by
  cases x <;> rfl

theorem modifyResult_lab (L : Lab) (f f' : Result → Except WriterErr Result)
    (hf : ∀ x, f' (labResult L x) = Except.map (labResult L) (f x)) (loc : Loc) (r : Report) :
    modifyResult f' loc (labReport L r) = Except.map (labReport L) (modifyResult f loc r) := by
  cases loc with
  | sessionSetup =>
    simp only [modifyResult, labReport]
    cases r.setup with
    | none => rfl
    | some x =>
      simp only [Option.map, hf]
      cases f x <;> rfl
  | sessionTeardown =>
    simp only [modifyResult, labReport]
    cases r.teardown with
    | none => rfl
    | some x =>
      simp only [Option.map, hf]
      cases f x <;> rfl
  | suiteSetup p =>
    simp only [modifyResult]
    rw [show (labReport L r).suites = labSuites L r.suites from rfl, modifySuite_lab L _ _ ?_ p r.suites, liftSuites_lab]
    intro s
    simp only [labSuite_setup]
    cases s.setup with
    | none => rfl
    | some x =>
      simp only [Option.map, hf]
      cases f x with
      | error e => rfl
      | ok y => simp [Except.map, labSuite_setSetup]
  | suiteTeardown p =>
    simp only [modifyResult]
    rw [show (labReport L r).suites = labSuites L r.suites from rfl, modifySuite_lab L _ _ ?_ p r.suites, liftSuites_lab]
    intro s
    simp only [labSuite_teardown]
    cases s.teardown with
    | none => rfl
    | some x =>
      simp only [Option.map, hf]
      cases f x with
      | error e => rfl
      | ok y => simp [Except.map, labSuite_setTeardown]
  | test p =>
    simp only [modifyResult]
    rw [show (labReport L r).suites = labSuites L r.suites from rfl, modifyTest_lab L _ _ ?_ p r.suites, liftSuites_lab]
    intro t
    simp only [labTest, hf]
    cases f t.result <;> rfl

/-! ### the handlers commute with the re-labelling -/

theorem stepCount_lab (L : Lab) (loc : Loc) (r : Report) : stepCount loc (labReport L r) = stepCount loc r := by
  unfold stepCount
  rw [modifyResult_lab L (fun x => .error (.probe x.steps.length)) _ ?_ loc r]
  · cases modifyResult (fun x => .error (.probe x.steps.length)) loc r with
    | ok _ => rfl
    | error e => cases e <;> rfl
  · intro x; simp [labResult, Except.map]

theorem checkLocation_lab (L : Lab) (loc : Loc) (r : Report) : checkLocation loc (labReport L r) = checkLocation loc r := by
  unfold checkLocation
  rw [modifyResult_lab L (fun x => .ok x) _ (fun _ => rfl) loc r]
  cases modifyResult (fun x => .ok x) loc r with
  | ok _ => rfl
  | error e => cases e <;> rfl

theorem detach_lab (L : Lab) (loc : Loc) (act : List (Nat × StepRef)) :
    detach loc (act.map (labBind L)) = (detach loc act).map (labBind L) := by
  simp only [detach, List.map_map]
  apply List.map_congr_left
  rintro ⟨tid, ⟨tg, en⟩⟩ _
  simp only [Function.comp, labBind, labRef]
  cases tg with
  | none => rfl
  | some li =>
    obtain ⟨l, i⟩ := li
    simp only
    split <;> rfl

theorem lookup_lab (L : Lab) (tid : Nat) : ∀ act : List (Nat × StepRef),
    (act.map (labBind L)).lookup tid = (act.lookup tid).map (labRef L)
  | [] => rfl
  | (t, r) :: rest => by
    simp only [List.map_cons, labBind, List.lookup]
    split
    · rfl
    · exact lookup_lab L tid rest

theorem onReport_lab (L : Lab) (w : WriterState) (x : Except WriterErr Report) :
    onReport (labState L w) (Except.map (labReport L) x) = Except.map (labState L) (onReport w x) := by
  cases x <;> rfl

theorem onResultStart_lab (L : Lab) (loc : Loc) (w : WriterState) (x : Except WriterErr Report) :
    onResultStart loc (labState L w) (Except.map (labReport L) x) = Except.map (labState L) (onResultStart loc w x) := by
  cases x with
  | error e => rfl
  | ok r => simp [onResultStart, Except.map, labState, detach_lab]

theorem finalizeResult_lab (L : Lab) (t : Time) (x : Result) :
    labResult L (finalizeResult t x) = finalizeResult (L.time t) (labResult L x) := by
  simp only [finalizeResult, labResult_ok]
  rfl

theorem finalize_lab (L : Lab) (t : Time) (loc : Loc) (r : Report) :
    modifyResult (fun x => .ok (finalizeResult (L.time t) x)) loc (labReport L r)
      = Except.map (labReport L) (modifyResult (fun x => .ok (finalizeResult t x)) loc r) :=
  modifyResult_lab L _ _ (fun x => by simp [Except.map, finalizeResult_lab]) loc r

theorem dictSet_map {α : Type} (h : α → α) (key : α → String) (hk : ∀ y, key (h y) = key y) (x : α) :
    ∀ l : List α, dictSet key (h x) (l.map h) = (dictSet key x l).map h
  | [] => rfl
  | y :: ys => by
    simp only [List.map_cons, dictSet, hk]
    split
    · rfl
    · simp [dictSet_map h key hk x ys]

theorem addTest_lab (L : Lab) (parent : Path) (tr : TestResult) (r : Report) :
    addTest parent (labTest L tr) (labReport L r) = Except.map (labReport L) (addTest parent tr r) := by
  unfold addTest
  cases parent with
  | nil => rfl
  | cons n rest =>
    simp only
    rw [show (labReport L r).suites = labSuites L r.suites from rfl,
      modifySuite_lab L (fun s => .ok (s.setTests (dictSet (fun t => t.md.name) tr s.tests))) _ ?_ (n :: rest) r.suites,
      liftSuites_lab]
    intro s
    simp only [labSuite_tests, Except.map, labSuite_setTests]
    rw [dictSet_map (labTest L) (fun t => t.md.name) (fun _ => rfl)]

theorem modifyNth_map {α : Type} (h f f' : α → α) (hf : ∀ x, f' (h x) = h (f x)) :
    ∀ (n : Nat) (l : List α), modifyNth f' n (l.map h) = (modifyNth f n l).map h
  | 0, [] => rfl
  | _ + 1, [] => rfl
  | 0, x :: xs => by simp [modifyNth, hf]
  | n + 1, x :: xs => by simp [modifyNth, modifyNth_map h f f' hf n xs]

theorem addEntryAt_lab {L : Lab} (hL : L.Ok) (idx : Nat) (e : Entry) (x : Result) :
    addEntryAt idx (labEntry L e) (labResult L x) = Except.map (labResult L) (addEntryAt idx e x) := by
  unfold addEntryAt
  simp only [labResult, List.getElem?_map]
  cases x.steps[idx]? with
  | none => rfl
  | some s =>
    simp only [Option.map_some]
    have ht : truthyTime (labStep L s).endTime = truthyTime s.endTime := truthyTime_lab hL _
    rw [ht]
    cases truthyTime s.endTime with
    | true => rfl
    | false =>
      simp only [Bool.false_eq_true, if_false, Except.map]
      rw [modifyNth_map (labStep L) (addEntryToStep e) (addEntryToStep (labEntry L e))]
      · rfl
      · intro s; simp [addEntryToStep, labStep]

theorem addEntry_lab {L : Lab} (hL : L.Ok) (w : WriterState) (loc : Loc) (tid : Nat) (e : Entry) :
    addEntry (labState L w) loc tid (labEntry L e) = Except.map (labState L) (addEntry w loc tid e) := by
  unfold addEntry
  simp only [labState, checkLocation_lab, lookup_lab]
  cases checkLocation loc w.report with
  | error err => rfl
  | ok u =>
    simp only
    cases w.active.lookup tid with
    | none => rfl
    | some ref =>
      obtain ⟨tg, en⟩ := ref
      simp only [Option.map_some, labRef]
      cases tg with
      | none =>
        simp only [truthyTime_lab hL]
        cases truthyTime en <;> rfl
      | some li =>
        obtain ⟨l, idx⟩ := li
        simp only
        rw [modifyResult_lab L (addEntryAt idx e) _ (addEntryAt_lab hL idx e) l w.report]
        cases modifyResult (addEntryAt idx e) l w.report with
        | ok r' => rfl
        | error err => cases err <;> rfl

theorem labSuites_append (L : Lab) (a b : List SuiteResult) : labSuites L (a ++ b) = labSuites L a ++ labSuites L b := by
  simp [labSuites_eq_map]

/-- **The re-labelling is a homomorphism of the writer**: handling the re-labelled event on the re-labelled state gives the
    re-labelled outcome — the same error, or the re-labelled new state. -/
theorem apply_lab {L : Lab} (hL : L.Ok) (w : WriterState) (e : Event) :
    apply (labState L w) (labEvent L e) = Except.map (labState L) (apply w e) := by
  cases e with
  | sessionStart t => rfl
  | sessionEnd t => rfl
  | sessionSetupStart t => simp [apply, labEvent, Except.map, labState, detach_lab, labReport, labResult, initResult]
  | sessionTeardownStart t => simp [apply, labEvent, Except.map, labState, detach_lab, labReport, labResult, initResult]
  | sessionSetupEnd t =>
    simp only [apply, labEvent]
    rw [show (labState L w).report = labReport L w.report from rfl, finalize_lab, onReport_lab]
  | sessionTeardownEnd t =>
    simp only [apply, labEvent]
    rw [show (labState L w).report = labReport L w.report from rfl, finalize_lab, onReport_lab]
  | suiteStart path md t =>
    simp only [apply, labEvent]
    cases hp : path.dropLast with
    | nil =>
      simp only [Except.map, labState, labReport, labSuites_append]
      rfl
    | cons n rest =>
      simp only
      rw [show (labState L w).report = labReport L w.report from rfl,
        show (labReport L w.report).suites = labSuites L w.report.suites from rfl,
        modifySuite_lab L (fun s => .ok (s.setSuites (s.suites ++ [initSuite md t]))) _ ?_ (n :: rest) w.report.suites,
        liftSuites_lab, onReport_lab]
      intro s
      simp only [Except.map, labSuite_setSuites, labSuite_suites, labSuites_append]
      rfl
  | suiteEnd path t =>
    simp only [apply, labEvent]
    rw [show (labState L w).report = labReport L w.report from rfl,
      show (labReport L w.report).suites = labSuites L w.report.suites from rfl,
      modifySuite_lab L (fun s => .ok (s.setEndTime (some t))) _ ?_ path w.report.suites, liftSuites_lab, onReport_lab]
    intro s
    simp only [Except.map, labSuite_setEndTime]
    rfl
  | suiteSetupStart path t =>
    simp only [apply, labEvent]
    rw [show (labState L w).report = labReport L w.report from rfl,
      show (labReport L w.report).suites = labSuites L w.report.suites from rfl,
      modifySuite_lab L (fun s => .ok (s.setSetup (some (initResult t)))) _ ?_ path w.report.suites, liftSuites_lab,
      onResultStart_lab]
    intro s
    simp only [Except.map, labSuite_setSetup]
    rfl
  | suiteTeardownStart path t =>
    simp only [apply, labEvent]
    rw [show (labState L w).report = labReport L w.report from rfl,
      show (labReport L w.report).suites = labSuites L w.report.suites from rfl,
      modifySuite_lab L (fun s => .ok (s.setTeardown (some (initResult t)))) _ ?_ path w.report.suites, liftSuites_lab,
      onResultStart_lab]
    intro s
    simp only [Except.map, labSuite_setTeardown]
    rfl
  | suiteSetupEnd path t =>
    simp only [apply, labEvent]
    rw [show (labState L w).report = labReport L w.report from rfl, finalize_lab, onReport_lab]
  | suiteTeardownEnd path t =>
    simp only [apply, labEvent]
    rw [show (labState L w).report = labReport L w.report from rfl, finalize_lab, onReport_lab]
  | testEnd path t =>
    simp only [apply, labEvent]
    rw [show (labState L w).report = labReport L w.report from rfl, finalize_lab, onReport_lab]
  | testStart path md t =>
    simp only [apply, labEvent]
    rw [show (labState L w).report = labReport L w.report from rfl,
      show initTest md (L.time t) = labTest L (initTest md t) from rfl, addTest_lab, onResultStart_lab]
  | testSkipped path md reason t =>
    simp only [apply, labEvent]
    rw [show (labState L w).report = labReport L w.report from rfl,
      show bypassTest md .skipped reason (L.time t) = labTest L (bypassTest md .skipped reason t) from rfl, addTest_lab,
      onResultStart_lab]
  | testDisabled path md reason t =>
    simp only [apply, labEvent]
    rw [show (labState L w).report = labReport L w.report from rfl,
      show bypassTest md .disabled reason (L.time t) = labTest L (bypassTest md .disabled reason t) from rfl, addTest_lab,
      onResultStart_lab]
  | stepStart loc d tid t =>
    simp only [apply, labEvent]
    rw [show (labState L w).report = labReport L w.report from rfl, stepCount_lab]
    cases stepCount loc w.report with
    | error e => rfl
    | ok n =>
      simp only
      rw [modifyResult_lab L
        (fun x => .ok { x with steps := x.steps ++ [{ description := d, startTime := some t, endTime := none, entries := [] }] })
        _ ?_ loc w.report]
      · cases modifyResult (fun x => .ok { x with steps := x.steps ++
            [{ description := d, startTime := some t, endTime := none, entries := [] }] }) loc w.report with
        | error e => rfl
        | ok r' => rfl
      · intro x
        simp [Except.map, labResult, labStep]
  | stepEnd loc s tid t =>
    simp only [apply, labEvent]
    rw [show (labState L w).active = w.active.map (labBind L) from rfl, lookup_lab]
    cases w.active.lookup tid with
    | none => rfl
    | some ref =>
      simp only [Option.map, labRef]
      cases ref.target with
      | none => rfl
      | some li =>
        obtain ⟨l, idx⟩ := li
        simp only
        rw [show (labState L w).report = labReport L w.report from rfl,
          modifyResult_lab L (fun x => .ok { x with steps := modifyNth (setStepEnd t) idx x.steps }) _ ?_ l w.report]
        · cases modifyResult (fun x => .ok { x with steps := modifyNth (setStepEnd t) idx x.steps }) l w.report with
          | error e => rfl
          | ok r' => rfl
        · intro x
          simp only [Except.map, labResult]
          rw [modifyNth_map (labStep L) (setStepEnd t) (setStepEnd (L.stepEnd t)) (fun _ => rfl)]
  | log loc s tid level m t => exact addEntry_lab hL w loc tid (.log level m t)
  | check loc s tid d ok det t => exact addEntry_lab hL w loc tid (.check d ok det t)
  | attachment loc s tid path d img t => exact addEntry_lab hL w loc tid (.attachment d path img t)
  | url loc s tid u d t => exact addEntry_lab hL w loc tid (.url d u t)

theorem run_lab {L : Lab} (hL : L.Ok) : ∀ (es : List Event) (w : WriterState),
    run (labState L w) (es.map (labEvent L)) = Except.map (labState L) (run w es)
  | [], w => rfl
  | e :: es, w => by
    simp only [List.map_cons, run, apply_lab hL]
    cases apply w e with
    | error err => rfl
    | ok w' => exact run_lab hL es w'

/-- **`fold` commutes with the re-labelling** (from the empty report) -/
theorem fold_lab {L : Lab} (hL : L.Ok) (es : List Event) :
    fold (es.map (labEvent L)) = Except.map (labReport L) (fold es) := by
  have h := run_lab hL es initState
  have h0 : labState L initState = initState := rfl
  rw [h0] at h
  simp only [fold, h]
  cases run initState es <;> rfl

/-! ### the discipline does not look at the labels -/

theorem startOf_lab_loc (L : Lab) (e : Event) : (startOf (labEvent L e)).map (·.1) = (startOf e).map (·.1) := by
  cases e <;> rfl

theorem tidLocOf_lab (L : Lab) (e : Event) : tidLocOf (labEvent L e) = tidLocOf e := by cases e <;> rfl

theorem noRefs_lab (L : Lab) (act : List (Nat × StepRef)) (loc : Loc) : noRefs (act.map (labBind L)) loc = noRefs act loc := by
  simp only [noRefs, List.all_map]
  rfl

theorem located_lab (L : Lab) (act : List (Nat × StepRef)) (loc : Loc) (tid : Nat) :
    located (act.map (labBind L)) loc tid = located act loc tid := by
  simp only [located, lookup_lab]
  cases act.lookup tid <;> rfl

theorem disc_lab (L : Lab) (w : WriterState) (e : Event) : disc (labState L w) (labEvent L e) = disc w e := by
  simp only [disc, startsFresh, emitsInPlace, tidLocOf_lab]
  congr 1
  · have h := startOf_lab_loc L e
    cases h1 : startOf (labEvent L e) with
    | none =>
      cases h2 : startOf e with
      | none => rfl
      | some x => rw [h1, h2] at h; cases h
    | some x =>
      cases h2 : startOf e with
      | none => rw [h1, h2] at h; cases h
      | some y =>
        rw [h1, h2] at h
        simp only [Option.map_some, Option.some.injEq] at h
        obtain ⟨l, p, lf⟩ := x
        obtain ⟨l', p', lf'⟩ := y
        simp only at h
        subst h
        exact noRefs_lab L w.active l
  · cases tidLocOf e with
    | none => rfl
    | some x => exact located_lab L w.active x.1 x.2

theorem map_sname_labSuites (L : Lab) (ss : List SuiteResult) : (labSuites L ss).map sname = ss.map sname := by
  simp only [labSuites_eq_map, List.map_map]
  apply List.map_congr_left
  intro s _
  simp [sname]

theorem map_suiteRank_labSuites (L : Lab) (ss : List SuiteResult) : (labSuites L ss).map suiteRank = ss.map suiteRank := by
  simp only [labSuites_eq_map, List.map_map]
  apply List.map_congr_left
  intro s _
  simp [suiteRank]

mutual
theorem uniqNamesSuite_lab (L : Lab) : ∀ s : SuiteResult, uniqNamesSuite (labSuite L s) = uniqNamesSuite s
  | .mk md st en su td ts ss => by
    simp only [labSuite, uniqNamesSuite, uniqNamesSuites_lab L ss, map_sname_labSuites, List.map_map]
    rfl
theorem uniqNamesSuites_lab (L : Lab) : ∀ ss : List SuiteResult, uniqNamesSuites (labSuites L ss) = uniqNamesSuites ss
  | [] => rfl
  | s :: ss => by simp only [labSuites, uniqNamesSuites, uniqNamesSuite_lab L s, uniqNamesSuites_lab L ss]
end

theorem uniqNames_lab (L : Lab) (r : Report) : uniqNames (labReport L r) = uniqNames r := by
  simp only [uniqNames, labReport, map_sname_labSuites, uniqNamesSuites_lab]

mutual
theorem distinctRanksSuite_lab (L : Lab) : ∀ s : SuiteResult, distinctRanksSuite (labSuite L s) = distinctRanksSuite s
  | .mk md st en su td ts ss => by
    simp only [labSuite, distinctRanksSuite, distinctRanksSuites_lab L ss, map_suiteRank_labSuites, List.map_map]
    rfl
theorem distinctRanksSuites_lab (L : Lab) : ∀ ss : List SuiteResult, distinctRanksSuites (labSuites L ss) = distinctRanksSuites ss
  | [] => rfl
  | s :: ss => by simp only [labSuites, distinctRanksSuites, distinctRanksSuite_lab L s, distinctRanksSuites_lab L ss]
end

/-- the guard of C05 does not look at the labels -/
theorem distinctSiblingRanks_lab (L : Lab) (r : Report) : DistinctSiblingRanks (labReport L r) ↔ DistinctSiblingRanks r := by
  simp only [DistinctSiblingRanks, labReport, map_suiteRank_labSuites, distinctRanksSuites_lab]

theorem dapply_lab {L : Lab} (hL : L.Ok) (w : WriterState) (e : Event) :
    dapply (labState L w) (labEvent L e) = Except.map (labState L) (dapply w e) := by
  simp only [dapply, disc_lab, apply_lab hL]
  cases disc w e with
  | false => rfl
  | true =>
    simp only [if_true]
    cases apply w e with
    | error x => rfl
    | ok w' =>
      simp only [Except.map]
      rw [show (labState L w').report = labReport L w'.report from rfl, uniqNames_lab]
      cases uniqNames w'.report <;> rfl

/-- **the disciplined run commutes with the re-labelling** -/
theorem drun_lab {L : Lab} (hL : L.Ok) : ∀ (es : List Event) (w : WriterState),
    drun (labState L w) (es.map (labEvent L)) = Except.map (labState L) (drun w es)
  | [], w => rfl
  | e :: es, w => by
    simp only [List.map_cons, drun, dapply_lab hL]
    cases dapply w e with
    | error err => rfl
    | ok w' => exact drun_lab hL es w'

/-! ### the rank-sorted view commutes with the re-labelling -/

theorem insertByRank_map {α : Type} (rank : α → Nat) (h : α → α) (hr : ∀ x, rank (h x) = rank x) (x : α) :
    ∀ l : List α, insertByRank rank (h x) (l.map h) = (insertByRank rank x l).map h
  | [] => rfl
  | y :: ys => by
    simp only [List.map_cons, insertByRank, hr]
    split
    · rfl
    · simp [insertByRank_map rank h hr x ys]

theorem sortByRank_map {α : Type} (rank : α → Nat) (h : α → α) (hr : ∀ x, rank (h x) = rank x) :
    ∀ l : List α, sortByRank rank (l.map h) = (sortByRank rank l).map h
  | [] => rfl
  | x :: xs => by simp only [List.map_cons, sortByRank, sortByRank_map rank h hr xs, insertByRank_map rank h hr]

mutual
theorem sortDeep_lab (L : Lab) : ∀ s : SuiteResult, sortDeep (labSuite L s) = labSuite L (sortDeep s)
  | .mk md st en su td ts ss => by
    simp only [labSuite, sortDeep, sortDeepList_lab L ss]
    rw [labSuites_eq_map, labSuites_eq_map, sortByRank_map testRank (labTest L) (fun _ => rfl),
      sortByRank_map suiteRank (labSuite L) (fun s => by simp [suiteRank])]
theorem sortDeepList_lab (L : Lab) : ∀ ss : List SuiteResult, sortDeepList (labSuites L ss) = labSuites L (sortDeepList ss)
  | [] => rfl
  | s :: ss => by simp only [labSuites, sortDeepList, sortDeep_lab L s, sortDeepList_lab L ss]
end

/-- **`view` commutes with the re-labelling** -/
theorem view_lab (L : Lab) (r : Report) : view (labReport L r) = labSuites L (view r) := by
  simp only [view, labReport, sortDeepList_lab]
  rw [labSuites_eq_map, labSuites_eq_map, sortByRank_map suiteRank (labSuite L) (fun s => by simp [suiteRank])]

/-! ### composition -/

def Lab.comp (L₂ L₁ : Lab) : Lab :=
  { stepEnd := fun t => L₂.stepEnd (L₁.stepEnd t), time := fun t => L₂.time (L₁.time t), file := fun f => L₂.file (L₁.file f) }

theorem labEntry_comp (L₂ L₁ : Lab) (e : Entry) : labEntry L₂ (labEntry L₁ e) = labEntry (L₂.comp L₁) e := by cases e <;> rfl

theorem labStep_comp (L₂ L₁ : Lab) (s : Step) : labStep L₂ (labStep L₁ s) = labStep (L₂.comp L₁) s := by
  simp only [labStep, Option.map_map, List.map_map, Step.mk.injEq, true_and]
  refine ⟨rfl, rfl, ?_⟩
  apply List.map_congr_left
  intro e _
  exact labEntry_comp L₂ L₁ e

theorem labResult_comp (L₂ L₁ : Lab) (x : Result) : labResult L₂ (labResult L₁ x) = labResult (L₂.comp L₁) x := by
  simp only [labResult, Option.map_map, List.map_map, Result.mk.injEq, and_true]
  refine ⟨?_, rfl, rfl⟩
  apply List.map_congr_left
  intro s _
  exact labStep_comp L₂ L₁ s

theorem labResult_comp' (L₂ L₁ : Lab) : labResult L₂ ∘ labResult L₁ = labResult (L₂.comp L₁) :=
  funext (labResult_comp L₂ L₁)

theorem labTest_comp (L₂ L₁ : Lab) (t : TestResult) : labTest L₂ (labTest L₁ t) = labTest (L₂.comp L₁) t := by
  simp only [labTest, labResult_comp]

theorem labTest_comp' (L₂ L₁ : Lab) : labTest L₂ ∘ labTest L₁ = labTest (L₂.comp L₁) :=
  funext (labTest_comp L₂ L₁)

mutual
theorem labSuite_comp (L₂ L₁ : Lab) : ∀ s : SuiteResult, labSuite L₂ (labSuite L₁ s) = labSuite (L₂.comp L₁) s
  | .mk md st en su td ts ss => by
    simp only [labSuite, labSuites_comp L₂ L₁ ss, Option.map_map, List.map_map, labResult_comp', labTest_comp']
    rfl
theorem labSuites_comp (L₂ L₁ : Lab) : ∀ ss : List SuiteResult, labSuites L₂ (labSuites L₁ ss) = labSuites (L₂.comp L₁) ss
  | [] => rfl
  | s :: ss => by simp only [labSuites, labSuite_comp L₂ L₁ s, labSuites_comp L₂ L₁ ss]
end

theorem labReport_comp (L₂ L₁ : Lab) (r : Report) : labReport L₂ (labReport L₁ r) = labReport (L₂.comp L₁) r := by
  simp only [labReport, labSuites_comp, Option.map_map, labResult_comp']
  rfl

end LccModel.Writer

/-
  Lemmas on `Model/DirStore.lean`: lookups by name after an update, what a directory loads after a save.
-/
import LccModel.Model.DirStore

namespace LccModel.DirStore
open LccModel.Report LccModel.Serial LccModel.JsonFile LccModel.Store

theorem findDir_updateDir (n : Name) (g : Dir → Dir) (hg : ∀ d, (g d).name = d.name) :
    ∀ fs : FS, findDir n (updateDir n g fs) = (findDir n fs).map g
  | [] => rfl
  | d :: ds => by
    by_cases h : d.name = n
    · simp [updateDir, findDir, h, hg]
    · simp [updateDir, findDir, h, findDir_updateDir n g hg ds]

theorem findDir_updateDir_ne (n m : Name) (g : Dir → Dir) (hg : ∀ d, (g d).name = d.name) (hm : m ≠ n) :
    ∀ fs : FS, findDir m (updateDir n g fs) = findDir m fs
  | [] => rfl
  | d :: ds => by
    unfold updateDir
    split
    · next h =>
      have h1 : ¬ (g d).name = m := by rw [hg, h]; exact fun h' => hm h'.symm
      have h2 : ¬ d.name = m := by rw [h]; exact fun h' => hm h'.symm
      simp only [findDir, h1, h2, if_false]
    · next h =>
      simp only [findDir, findDir_updateDir_ne n m g hg hm ds]

theorem firstLoad_of_skips (a b : List (Name × Entry)) (h : ∀ x ∈ a, loadEntry x.2 = .skip) :
    firstLoad (a ++ b) = firstLoad b := by
  induction a with
  | nil => rfl
  | cons x rest ih =>
    obtain ⟨nm, e⟩ := x
    have hx : loadEntry e = .skip := h (nm, e) (List.mem_cons_self ..)
    simp only [List.cons_append, firstLoad, hx]
    exact ih (fun y hy => h y (List.mem_cons_of_mem _ hy))

theorem loadAll_of_skips (a b : List (Name × Entry)) (h : ∀ x ∈ a, loadEntry x.2 = .skip) :
    loadAll (a ++ b) = loadAll b := by
  induction a with
  | nil => rfl
  | cons x rest ih =>
    obtain ⟨nm, e⟩ := x
    have hx : loadEntry e = .skip := h (nm, e) (List.mem_cons_self ..)
    simp only [List.cons_append, loadAll, hx]
    exact ih (fun y hy => h y (List.mem_cons_of_mem _ hy))

theorem skips_of_filter {f : Name} {es : List (Name × Entry)} (hother : ∀ x ∈ es, x.1 ≠ f → loadEntry x.2 = .skip) :
    ∀ x ∈ es.filter (fun x => x.1 != f), loadEntry x.2 = .skip := by
  intro x hx
  rw [List.mem_filter] at hx
  exact hother x hx.1 (by simpa using hx.2)

/-- a directory whose other entries are skipped loads exactly the saved file -/
theorem firstLoad_setEntry (f : Name) (e : Entry) (r : Report) (es : List (Name × Entry))
    (hother : ∀ x ∈ es, x.1 ≠ f → loadEntry x.2 = .skip) (he : loadEntry e = .report r) :
    firstLoad (setEntry f e es) = .loaded r := by
  unfold setEntry
  rw [firstLoad_of_skips _ _ (skips_of_filter hother)]
  simp [firstLoad, he]

/-- … and lists exactly one report -/
theorem loadAll_setEntry (f : Name) (e : Entry) (r : Report) (es : List (Name × Entry))
    (hother : ∀ x ∈ es, x.1 ≠ f → loadEntry x.2 = .skip) (he : loadEntry e = .report r) :
    loadAll (setEntry f e es) = some [r] := by
  unfold setEntry
  rw [loadAll_of_skips _ _ (skips_of_filter hother)]
  simp [loadAll, he]

theorem mem_setEntry {f : Name} {e : Entry} {es : List (Name × Entry)} {x : Name × Entry} (h : x ∈ setEntry f e es) :
    x = (f, e) ∨ (x ∈ es ∧ x.1 ≠ f) := by
  unfold setEntry at h
  rw [List.mem_append] at h
  rcases h with h | h
  · rw [List.mem_filter] at h
    exact .inr ⟨h.1, by simpa using h.2⟩
  · exact .inl (by simpa using h)

/-- the directory `n` after its entry `f` has been replaced by a loadable file, its other entries being skipped -/
theorem loadDir_after_set (fs : FS) (n f : Name) (e : Entry) (r : Report) (d : Dir) (hd : findDir n fs = some d)
    (hother : ∀ x ∈ d.entries, x.1 ≠ f → loadEntry x.2 = .skip) (he : loadEntry e = .report r) :
    loadDir (updateDir n (fun d => { d with entries := setEntry f e d.entries }) fs) n = .loaded r := by
  unfold loadDir
  rw [findDir_updateDir n (fun d => { d with entries := setEntry f e d.entries }) (fun _ => rfl) fs, hd]
  dsimp only [Option.map_some]
  rw [firstLoad_setEntry f e r d.entries hother he]

end LccModel.DirStore

/-
  Where the report writer M4 (`Model/Writer.lean`) puts things: a read-side (`getSuite`, `getResult`,
  `getSteps`) for the report tree, "lens" lemmas relating it to the writer's in-place modifications
  (`modifyFirst`, `modifySuite`, `modifyTest`, `modifyResult`), and the effect of every handler
  `Writer.apply w e` on the steps stored at every location.  Used by `Props/C06.lean`.
  Core Lean only.
-/
import LccModel.Model.Writer
import LccModel.Lemmas.SessionIso

namespace LccModel.WriterIso
open LccModel.Report LccModel.Writer LccModel.SessionIso

/-! ### reading the report tree (`find_suite` / `find_test` / `ReportLocation.get` without mutation) -/

/-- `find_suite(suites, path)`: at every level the FIRST suite with the name. -/
def getSuite : Path → List SuiteResult → Option SuiteResult
  | [], _ => none
  | [n], ss => ss.find? (fun s => s.md.name == n)
  | n :: m :: rest, ss =>
    match ss.find? (fun s => s.md.name == n) with
    | none => none
    | some s => getSuite (m :: rest) s.suites

/-- the result-bearing part of a suite -/
structure Leaf where
  setup : Option Result
  teardown : Option Result
  tests : List TestResult

def leafOf : Option SuiteResult → Leaf
  | none => ⟨none, none, []⟩
  | some s => ⟨s.setup, s.teardown, s.tests⟩

def suiteLeaf (p : Path) (ss : List SuiteResult) : Leaf := leafOf (getSuite p ss)

def findTest (last : String) (ts : List TestResult) : Option TestResult :=
  ts.find? (fun t => t.md.name == last)

/-- `report.get(location)` -/
def getResult : Loc → Report → Option Result
  | .sessionSetup, r => r.setup
  | .sessionTeardown, r => r.teardown
  | .suiteSetup p, r => (suiteLeaf p r.suites).setup
  | .suiteTeardown p, r => (suiteLeaf p r.suites).teardown
  | .test p, r =>
    match p.getLast? with
    | none => none
    | some last => (findTest last (suiteLeaf p.dropLast r.suites).tests).map (·.result)

/-- the steps recorded at a location (`none`: there is no result object there) -/
def getSteps (l : Loc) (r : Report) : Option (List Step) := (getResult l r).map (·.steps)

/-! ### small facts about the setters -/

@[simp] theorem setSuites_md (s : SuiteResult) (x) : (s.setSuites x).md = s.md := by cases s; rfl
@[simp] theorem setSuites_suites (s : SuiteResult) (x) : (s.setSuites x).suites = x := by cases s; rfl
@[simp] theorem setSuites_setup (s : SuiteResult) (x) : (s.setSuites x).setup = s.setup := by cases s; rfl
@[simp] theorem setSuites_teardown (s : SuiteResult) (x) : (s.setSuites x).teardown = s.teardown := by cases s; rfl
@[simp] theorem setSuites_tests (s : SuiteResult) (x) : (s.setSuites x).tests = s.tests := by cases s; rfl

@[simp] theorem setTests_md (s : SuiteResult) (x) : (s.setTests x).md = s.md := by cases s; rfl
@[simp] theorem setTests_suites (s : SuiteResult) (x) : (s.setTests x).suites = s.suites := by cases s; rfl
@[simp] theorem setTests_setup (s : SuiteResult) (x) : (s.setTests x).setup = s.setup := by cases s; rfl
@[simp] theorem setTests_teardown (s : SuiteResult) (x) : (s.setTests x).teardown = s.teardown := by cases s; rfl
@[simp] theorem setTests_tests (s : SuiteResult) (x) : (s.setTests x).tests = x := by cases s; rfl

@[simp] theorem setSetup_md (s : SuiteResult) (x) : (s.setSetup x).md = s.md := by cases s; rfl
@[simp] theorem setSetup_suites (s : SuiteResult) (x) : (s.setSetup x).suites = s.suites := by cases s; rfl
@[simp] theorem setSetup_setup (s : SuiteResult) (x) : (s.setSetup x).setup = x := by cases s; rfl
@[simp] theorem setSetup_teardown (s : SuiteResult) (x) : (s.setSetup x).teardown = s.teardown := by cases s; rfl
@[simp] theorem setSetup_tests (s : SuiteResult) (x) : (s.setSetup x).tests = s.tests := by cases s; rfl

@[simp] theorem setTeardown_md (s : SuiteResult) (x) : (s.setTeardown x).md = s.md := by cases s; rfl
@[simp] theorem setTeardown_suites (s : SuiteResult) (x) : (s.setTeardown x).suites = s.suites := by cases s; rfl
@[simp] theorem setTeardown_setup (s : SuiteResult) (x) : (s.setTeardown x).setup = s.setup := by cases s; rfl
@[simp] theorem setTeardown_teardown (s : SuiteResult) (x) : (s.setTeardown x).teardown = x := by cases s; rfl
@[simp] theorem setTeardown_tests (s : SuiteResult) (x) : (s.setTeardown x).tests = s.tests := by cases s; rfl

@[simp] theorem setEndTime_md (s : SuiteResult) (x) : (s.setEndTime x).md = s.md := by cases s; rfl
@[simp] theorem setEndTime_suites (s : SuiteResult) (x) : (s.setEndTime x).suites = s.suites := by cases s; rfl
@[simp] theorem setEndTime_setup (s : SuiteResult) (x) : (s.setEndTime x).setup = s.setup := by cases s; rfl
@[simp] theorem setEndTime_teardown (s : SuiteResult) (x) : (s.setEndTime x).teardown = s.teardown := by cases s; rfl
@[simp] theorem setEndTime_tests (s : SuiteResult) (x) : (s.setEndTime x).tests = s.tests := by cases s; rfl

/-! ### `modifyFirst` -/

theorem modifyFirst_ok {α ε : Type} {p : α → Bool} {f : α → Except ε α} {nf : ε} :
    ∀ {xs ys : List α}, modifyFirst p f nf xs = .ok ys →
      ∃ pre x y post, xs = pre ++ x :: post ∧ (∀ z ∈ pre, p z = false) ∧ p x = true ∧ f x = .ok y ∧
        ys = pre ++ y :: post := by
  intro xs
  induction xs with
  | nil => intro ys h; simp [modifyFirst] at h
  | cons x xs ih =>
    intro ys h
    simp only [modifyFirst] at h
    by_cases hp : p x = true
    · rw [if_pos hp] at h
      cases hf : f x with
      | error e => rw [hf] at h; cases h
      | ok y =>
        rw [hf] at h
        injection h with h
        exact ⟨[], x, y, xs, rfl, by simp, hp, hf, h.symm⟩
    · rw [if_neg hp] at h
      cases hr : modifyFirst p f nf xs with
      | error e => rw [hr] at h; cases h
      | ok zs =>
        rw [hr] at h
        injection h with h
        obtain ⟨pre, x', y, post, h1, h2, h3, h4, h5⟩ := ih hr
        refine ⟨x :: pre, x', y, post, by rw [h1]; rfl, ?_, h3, h4, by rw [← h, h5]; rfl⟩
        intro z hz
        rcases List.mem_cons.mp hz with hz | hz
        · subst hz; simpa using hp
        · exact h2 z hz

/-- looking up the name that was modified -/
theorem find?_hit {α : Type} {q : α → Bool} {pre post : List α} {x : α}
    (hpre : ∀ z ∈ pre, q z = false) (hx : q x = true) : (pre ++ x :: post).find? q = some x := by
  rw [List.find?_append]
  have : pre.find? q = none := by
    rw [List.find?_eq_none]; intro z hz; simp [hpre z hz]
  simp [this, hx]

/-- looking up another name: the replaced element is skipped before and after -/
theorem find?_miss {α : Type} {q : α → Bool} {pre post : List α} {x y : α}
    (hx : q x = false) (hy : q y = false) : (pre ++ y :: post).find? q = (pre ++ x :: post).find? q := by
  simp [List.find?_append, hx, hy]

/-! ### `modifySuite` -/

theorem getSuite_nil (ss : List SuiteResult) : getSuite [] ss = none := by
  unfold getSuite; rfl

theorem getSuite_one (n : String) (ss : List SuiteResult) :
    getSuite [n] ss = ss.find? (fun s => s.md.name == n) := by
  unfold getSuite; rfl

theorem getSuite_two (n m : String) (rest : Path) (ss : List SuiteResult) :
    getSuite (n :: m :: rest) ss =
      match ss.find? (fun s => s.md.name == n) with
      | none => none
      | some s => getSuite (m :: rest) s.suites := by
  conv => lhs; unfold getSuite

/-- replacing, at one level, the first suite named `n` by a suite with the same name: a lookup of path
    `q` sees the same leaves, provided the replaced suite itself (`q = [n]`) resp. its sub-tree
    (`q = n :: q2`) shows the same leaves -/
theorem suiteLeaf_replace {pre post : List SuiteResult} {x y : SuiteResult} {n : String}
    (hpre : ∀ z ∈ pre, (z.md.name == n) = false) (hx : (x.md.name == n) = true) (hy : y.md.name = x.md.name)
    (q : Path) (hleaf : q = [n] → leafOf (some y) = leafOf (some x))
    (hq : ∀ q2, q = n :: q2 → q2 ≠ [] → suiteLeaf q2 y.suites = suiteLeaf q2 x.suites) :
    suiteLeaf q (pre ++ y :: post) = suiteLeaf q (pre ++ x :: post) := by
  have hyn : (y.md.name == n) = true := by rw [hy]; exact hx
  cases q with
  | nil => simp [suiteLeaf, getSuite_nil]
  | cons m tl =>
    by_cases hm : m = n
    · subst hm
      cases tl with
      | nil =>
        simp only [suiteLeaf, getSuite_one]
        rw [find?_hit (q := fun s : SuiteResult => s.md.name == m) hpre hx, find?_hit (q := fun s : SuiteResult => s.md.name == m) hpre hyn]
        exact hleaf rfl
      | cons m2 r =>
        simp only [suiteLeaf, getSuite_two]
        rw [find?_hit (q := fun s : SuiteResult => s.md.name == m) hpre hx, find?_hit (q := fun s : SuiteResult => s.md.name == m) hpre hyn]
        exact hq (m2 :: r) rfl (by simp)
    · have hxm : (x.md.name == m) = false := by
        have : x.md.name = n := by simpa using hx
        simp [this]; exact fun e => hm e.symm
      have hym : (y.md.name == m) = false := by rw [hy]; exact hxm
      cases tl with
      | nil =>
        simp only [suiteLeaf, getSuite_one]
        rw [find?_miss (q := fun s : SuiteResult => s.md.name == m) hxm hym]
      | cons m2 r =>
        simp only [suiteLeaf, getSuite_two]
        rw [find?_miss (q := fun s : SuiteResult => s.md.name == m) hxm hym]

/-- **`find_suite` + mutation.**  A successful `modifySuite f p` with a name-preserving `f` mutates
    exactly the suite `getSuite p` finds; provided the mutation keeps the leaves of the suite's own
    sub-tree, every other path sees the same leaves as before. -/
theorem modifySuite_spec {f : SuiteResult → Except WriterErr SuiteResult}
    (hname : ∀ s s', f s = .ok s' → s'.md.name = s.md.name) :
    ∀ (p : Path) (ss ss' : List SuiteResult), modifySuite f p ss = .ok ss' →
      ∃ s s', getSuite p ss = some s ∧ f s = .ok s' ∧ getSuite p ss' = some s' ∧
        ((∀ q, suiteLeaf q s'.suites = suiteLeaf q s.suites) →
          ∀ q, q ≠ p → suiteLeaf q ss' = suiteLeaf q ss) := by
  intro p
  induction p with
  | nil => intro ss ss' h; simp [modifySuite] at h
  | cons n tl ih =>
    intro ss ss' h
    cases tl with
    | nil =>
      simp only [modifySuite] at h
      obtain ⟨pre, x, y, post, h1, h2, h3, h4, h5⟩ := modifyFirst_ok h
      subst h1; subst h5
      have hy := hname x y h4
      have hyn : (y.md.name == n) = true := by rw [hy]; exact h3
      refine ⟨x, y, by rw [getSuite_one]; exact find?_hit h2 h3, h4,
        by rw [getSuite_one]; exact find?_hit h2 hyn, ?_⟩
      intro hsub q hq
      exact suiteLeaf_replace h2 h3 hy q (fun e => absurd e hq) (fun q2 _ _ => hsub q2)
    | cons n2 rest =>
      simp only [modifySuite] at h
      obtain ⟨pre, x, y, post, h1, h2, h3, h4, h5⟩ := modifyFirst_ok h
      subst h1; subst h5
      cases hr : modifySuite f (n2 :: rest) x.suites with
      | error e => rw [hr] at h4; cases h4
      | ok sub =>
        rw [hr] at h4
        injection h4 with h4
        subst h4
        obtain ⟨s, s', g1, g2, g3, g4⟩ := ih x.suites sub hr
        have hyn : ((x.setSuites sub).md.name == n) = true := by simpa using h3
        refine ⟨s, s', ?_, g2, ?_, ?_⟩
        · rw [getSuite_two, find?_hit (q := fun s : SuiteResult => s.md.name == n) h2 h3]; exact g1
        · rw [getSuite_two, find?_hit (q := fun s : SuiteResult => s.md.name == n) h2 hyn]; simpa using g3
        · intro hsub q hq
          apply suiteLeaf_replace h2 h3 (by simp) q
          · intro _; simp [leafOf]
          · intro q2 hq2 _
            have : q2 ≠ n2 :: rest := by
              intro e; apply hq; rw [hq2, e]
            simpa using g4 hsub q2 this

/-- `modifySuite` with a mutation that keeps name and sub-suites: the leaves seen at every path -/
theorem modifySuite_leaf {g : SuiteResult → Except WriterErr SuiteResult}
    (hname : ∀ s s', g s = .ok s' → s'.md.name = s.md.name)
    (hsuites : ∀ s s', g s = .ok s' → s'.suites = s.suites)
    {p : Path} {ss ss' : List SuiteResult} (h : modifySuite g p ss = .ok ss') :
    ∃ s s', getSuite p ss = some s ∧ g s = .ok s' ∧
      ∀ q, suiteLeaf q ss' = if q = p then leafOf (some s') else suiteLeaf q ss := by
  obtain ⟨s, s', h1, h2, h3, h4⟩ := modifySuite_spec hname p ss ss' h
  refine ⟨s, s', h1, h2, ?_⟩
  intro q
  by_cases hq : q = p
  · subst hq; simp [suiteLeaf, h3]
  · rw [if_neg hq]
    exact h4 (by intro q2; rw [hsuites s s' h2]) q hq

theorem liftSuites_ok {r r' : Report} {x : Except WriterErr (List SuiteResult)} (h : liftSuites r x = .ok r') :
    ∃ ss', x = .ok ss' ∧ r' = { r with suites := ss' } := by
  cases x with
  | error e => cases h
  | ok ss' => simp only [liftSuites] at h; injection h with h; exact ⟨ss', rfl, h.symm⟩

/-- what a report looks like after its suite list was modified at path `p` (leaf `L'` there) -/
structure LeafUpd (p : Path) (L' : Leaf) (r r' : Report) : Prop where
  setup : r'.setup = r.setup
  teardown : r'.teardown = r.teardown
  leaf : ∀ q, suiteLeaf q r'.suites = if q = p then L' else suiteLeaf q r.suites

theorem path_split {p : Path} {last : String} (h : p.getLast? = some last) : p = p.dropLast ++ [last] := by
  obtain ⟨ys, hys⟩ := List.getLast?_eq_some_iff.mp h
  rw [hys]; simp

/-- Frame: after a leaf update at `p` that keeps `setup`/`teardown`/`tests` except for the component
    addressed by `loc`, every other location reads the same result. -/
theorem LeafUpd.frame {p : Path} {L' : Leaf} {r r' : Report} (hu : LeafUpd p L' r r') {loc : Loc}
    (hsetup : loc ≠ .suiteSetup p → L'.setup = (suiteLeaf p r.suites).setup)
    (hteardown : loc ≠ .suiteTeardown p → L'.teardown = (suiteLeaf p r.suites).teardown)
    (htests : ∀ last, loc ≠ .test (p ++ [last]) →
        (findTest last L'.tests).map (·.result) = (findTest last (suiteLeaf p r.suites).tests).map (·.result)) :
    ∀ l, l ≠ loc → getResult l r' = getResult l r := by
  intro l hl
  cases l with
  | sessionSetup => exact hu.setup
  | sessionTeardown => exact hu.teardown
  | suiteSetup q =>
    simp only [getResult, hu.leaf q]
    split
    · rename_i hq; subst hq; exact hsetup (fun e => hl e.symm)
    · rfl
  | suiteTeardown q =>
    simp only [getResult, hu.leaf q]
    split
    · rename_i hq; subst hq; exact hteardown (fun e => hl e.symm)
    · rfl
  | test q =>
    simp only [getResult]
    cases hq : q.getLast? with
    | none => rfl
    | some last =>
      simp only [hu.leaf q.dropLast]
      split
      · rename_i hp
        rw [hp]
        apply htests last
        intro e
        apply hl
        rw [e, ← hp]
        exact congrArg Loc.test (path_split hq)
      · rfl

theorem findTest_hit {pre post : List TestResult} {t : TestResult} {last : String}
    (hpre : ∀ z ∈ pre, (z.md.name == last) = false) (ht : (t.md.name == last) = true) :
    findTest last (pre ++ t :: post) = some t :=
  find?_hit (q := fun t : TestResult => t.md.name == last) hpre ht

theorem findTest_miss {pre post : List TestResult} {t t' : TestResult} {last m : String}
    (ht : (t.md.name == last) = true) (ht' : t'.md.name = t.md.name) (hm : m ≠ last) :
    findTest m (pre ++ t' :: post) = findTest m (pre ++ t :: post) := by
  have h1 : (t.md.name == m) = false := by
    have : t.md.name = last := by simpa using ht
    simp [this]; exact fun e => hm e.symm
  have h2 : (t'.md.name == m) = false := by rw [ht']; exact h1
  exact find?_miss (q := fun t : TestResult => t.md.name == m) h1 h2

theorem append_singleton_inj {p q : Path} {a b : String} (h : p ++ [a] = q ++ [b]) : p = q ∧ a = b := by
  have := List.append_inj' h (by simp)
  exact ⟨this.1, by simpa using this.2⟩

/-- the test mutation `modifyResult` applies at a `test` location -/
def testMod (f : Result → Except WriterErr Result) (t : TestResult) : Except WriterErr TestResult :=
  match f t.result with
  | .ok y => .ok { t with result := y }
  | .error e => .error e

/-- … and the suite mutation `modifyTest` wraps it in -/
def suiteTestMod (f : Result → Except WriterErr Result) (p : Path) (last : String) (s : SuiteResult) :
    Except WriterErr SuiteResult :=
  match modifyFirst (fun t => t.md.name == last) (testMod f) (.lookupTest p) s.tests with
  | .ok ts => .ok (s.setTests ts)
  | .error e => .error e

theorem suiteTestMod_ok {f : Result → Except WriterErr Result} {p : Path} {last : String} {s s' : SuiteResult}
    (hs : suiteTestMod f p last s = .ok s') :
    ∃ pre t y post, s.tests = pre ++ t :: post ∧ (∀ z ∈ pre, (z.md.name == last) = false) ∧
      (t.md.name == last) = true ∧ f t.result = .ok y ∧
      s' = s.setTests (pre ++ { t with result := y } :: post) := by
  unfold suiteTestMod at hs
  cases hm : modifyFirst (fun t => t.md.name == last) (testMod f) (WriterErr.lookupTest p) s.tests with
  | error e => rw [hm] at hs; cases hs
  | ok ts =>
    rw [hm] at hs; injection hs with hs; subst hs
    obtain ⟨pre, t, t', post, e1, e2, e3, e4, e5⟩ := modifyFirst_ok hm
    unfold testMod at e4
    cases hy : f t.result with
    | error e => rw [hy] at e4; cases e4
    | ok y =>
      rw [hy] at e4; injection e4 with e4; subst e4
      exact ⟨pre, t, y, post, e1, e2, e3, hy, by rw [e5]⟩

/-- **`report.get(location)` + mutation.**  A successful `modifyResult f loc` mutates exactly the result
    `getResult loc` reads, and no other location's result. -/
theorem modifyResult_spec {f : Result → Except WriterErr Result} {loc : Loc} {r r' : Report}
    (h : modifyResult f loc r = .ok r') :
    ∃ x y, getResult loc r = some x ∧ f x = .ok y ∧ getResult loc r' = some y ∧
      ∀ l, l ≠ loc → getResult l r' = getResult l r := by
  cases loc with
  | sessionSetup =>
    simp only [modifyResult] at h
    cases hx : r.setup with
    | none => rw [hx] at h; cases h
    | some x =>
      rw [hx] at h; dsimp only at h
      cases hy : f x with
      | error e => rw [hy] at h; cases h
      | ok y =>
        rw [hy] at h; injection h with h; subst h
        refine ⟨x, y, hx, hy, rfl, ?_⟩
        intro l hl
        cases l <;> first | rfl | exact absurd rfl hl
  | sessionTeardown =>
    simp only [modifyResult] at h
    cases hx : r.teardown with
    | none => rw [hx] at h; cases h
    | some x =>
      rw [hx] at h; dsimp only at h
      cases hy : f x with
      | error e => rw [hy] at h; cases h
      | ok y =>
        rw [hy] at h; injection h with h; subst h
        refine ⟨x, y, hx, hy, rfl, ?_⟩
        intro l hl
        cases l <;> first | rfl | exact absurd rfl hl
  | suiteSetup p =>
    simp only [modifyResult] at h
    obtain ⟨ss', h1, h2⟩ := liftSuites_ok h
    subst h2
    obtain ⟨s, s', g1, g2, g3⟩ := modifySuite_leaf
      (by intro s s' hs
          cases hx : s.setup with
          | none => rw [hx] at hs; cases hs
          | some x =>
            rw [hx] at hs; dsimp only at hs
            cases hy : f x with
            | error e => rw [hy] at hs; cases hs
            | ok y => rw [hy] at hs; injection hs with hs; subst hs; simp)
      (by intro s s' hs
          cases hx : s.setup with
          | none => rw [hx] at hs; cases hs
          | some x =>
            rw [hx] at hs; dsimp only at hs
            cases hy : f x with
            | error e => rw [hy] at hs; cases hs
            | ok y => rw [hy] at hs; injection hs with hs; subst hs; simp) h1
    cases hx : s.setup with
    | none => rw [hx] at g2; cases g2
    | some x =>
      rw [hx] at g2; dsimp only at g2
      cases hy : f x with
      | error e => rw [hy] at g2; cases g2
      | ok y =>
        rw [hy] at g2; injection g2 with g2; subst g2
        have hu : LeafUpd p (leafOf (some (s.setSetup (some y)))) r { r with suites := ss' } := ⟨rfl, rfl, g3⟩
        refine ⟨x, y, by simp [getResult, suiteLeaf, g1, leafOf, hx], hy,
          by simp [getResult, g3, leafOf], ?_⟩
        apply hu.frame
        · intro hne; exact absurd rfl hne
        · intro _; simp [leafOf, suiteLeaf, g1]
        · intro last _; simp [leafOf, suiteLeaf, g1]
  | suiteTeardown p =>
    simp only [modifyResult] at h
    obtain ⟨ss', h1, h2⟩ := liftSuites_ok h
    subst h2
    obtain ⟨s, s', g1, g2, g3⟩ := modifySuite_leaf
      (by intro s s' hs
          cases hx : s.teardown with
          | none => rw [hx] at hs; cases hs
          | some x =>
            rw [hx] at hs; dsimp only at hs
            cases hy : f x with
            | error e => rw [hy] at hs; cases hs
            | ok y => rw [hy] at hs; injection hs with hs; subst hs; simp)
      (by intro s s' hs
          cases hx : s.teardown with
          | none => rw [hx] at hs; cases hs
          | some x =>
            rw [hx] at hs; dsimp only at hs
            cases hy : f x with
            | error e => rw [hy] at hs; cases hs
            | ok y => rw [hy] at hs; injection hs with hs; subst hs; simp) h1
    cases hx : s.teardown with
    | none => rw [hx] at g2; cases g2
    | some x =>
      rw [hx] at g2; dsimp only at g2
      cases hy : f x with
      | error e => rw [hy] at g2; cases g2
      | ok y =>
        rw [hy] at g2; injection g2 with g2; subst g2
        have hu : LeafUpd p (leafOf (some (s.setTeardown (some y)))) r { r with suites := ss' } := ⟨rfl, rfl, g3⟩
        refine ⟨x, y, by simp [getResult, suiteLeaf, g1, leafOf, hx], hy,
          by simp [getResult, g3, leafOf], ?_⟩
        apply hu.frame
        · intro _; simp [leafOf, suiteLeaf, g1]
        · intro hne; exact absurd rfl hne
        · intro last _; simp [leafOf, suiteLeaf, g1]
  | test p =>
    simp only [modifyResult, modifyTest] at h
    obtain ⟨ss', h1, h2⟩ := liftSuites_ok h
    subst h2
    cases hlast : p.getLast? with
    | none => rw [hlast] at h1; cases h1
    | some last =>
      rw [hlast] at h1
      simp only at h1
      have h1' : modifySuite (suiteTestMod f p last) p.dropLast r.suites = .ok ss' := h1
      obtain ⟨s, s', g1, g2, g3⟩ := modifySuite_leaf
        (by intro s s' hs
            obtain ⟨pre, t, y, post, _, _, _, _, e5⟩ := suiteTestMod_ok hs
            rw [e5]; simp)
        (by intro s s' hs
            obtain ⟨pre, t, y, post, _, _, _, _, e5⟩ := suiteTestMod_ok hs
            rw [e5]; simp) h1'
      obtain ⟨pre, t, y, post, e1, e2, e3, e4, e5⟩ := suiteTestMod_ok g2
      subst e5
      have hu : LeafUpd p.dropLast (leafOf (some (s.setTests (pre ++ { t with result := y } :: post)))) r
          { r with suites := ss' } := ⟨rfl, rfl, g3⟩
      refine ⟨t.result, y, ?_, e4, ?_, ?_⟩
      · simp only [getResult, hlast, suiteLeaf, g1, leafOf, e1]
        rw [findTest_hit e2 e3]; rfl
      · simp only [getResult, hlast, g3, if_true, leafOf, setTests_tests]
        rw [findTest_hit e2 (t := { t with result := y }) e3]; rfl
      · apply hu.frame
        · intro _; simp [leafOf, suiteLeaf, g1]
        · intro _; simp [leafOf, suiteLeaf, g1]
        · intro m hm
          simp only [leafOf, suiteLeaf, g1, setTests_tests, e1]
          have hne : m ≠ last := by
            intro e; apply hm; subst e
            exact congrArg Loc.test (path_split hlast)
          exact congrArg _ (findTest_miss (t' := { t with result := y }) e3 rfl hne)

/-! ### failing lookups: which error comes from the traversal, which from the mutation -/

theorem modifyFirst_err {α ε : Type} {p : α → Bool} {f : α → Except ε α} {nf e : ε} :
    ∀ {xs : List α}, modifyFirst p f nf xs = .error e →
      e = nf ∨ ∃ pre x post, xs = pre ++ x :: post ∧ (∀ z ∈ pre, p z = false) ∧ p x = true ∧ f x = .error e := by
  intro xs
  induction xs with
  | nil => intro h; simp only [modifyFirst] at h; injection h with h; exact Or.inl h.symm
  | cons x xs ih =>
    intro h
    simp only [modifyFirst] at h
    by_cases hp : p x = true
    · rw [if_pos hp] at h
      cases hf : f x with
      | ok y => rw [hf] at h; cases h
      | error e' =>
        rw [hf] at h; injection h with h; subst h
        exact Or.inr ⟨[], x, xs, rfl, by simp, hp, hf⟩
    · rw [if_neg hp] at h
      cases hr : modifyFirst p f nf xs with
      | ok zs => rw [hr] at h; cases h
      | error e' =>
        rw [hr] at h; injection h with h; subst h
        rcases ih hr with h1 | ⟨pre, x', post, h1, h2, h3, h4⟩
        · exact Or.inl h1
        · refine Or.inr ⟨x :: pre, x', post, by rw [h1]; rfl, ?_, h3, h4⟩
          intro z hz
          rcases List.mem_cons.mp hz with hz | hz
          · subst hz; simpa using hp
          · exact h2 z hz

/-- errors raised by the lookup itself (never by the mutation handed to it) -/
def isLookupErr : WriterErr → Prop
  | .lookupSuite _ | .lookupTest _ | .noneSuite | .noneResult _ => True
  | _ => False

theorem modifySuite_err {f : SuiteResult → Except WriterErr SuiteResult} {e : WriterErr} :
    ∀ (p : Path) (ss : List SuiteResult), modifySuite f p ss = .error e →
      isLookupErr e ∨ ∃ s, getSuite p ss = some s ∧ f s = .error e := by
  intro p
  induction p with
  | nil => intro ss h; simp only [modifySuite] at h; injection h with h; subst h; exact Or.inl trivial
  | cons n tl ih =>
    intro ss h
    cases tl with
    | nil =>
      simp only [modifySuite] at h
      rcases modifyFirst_err h with h1 | ⟨pre, x, post, h1, h2, h3, h4⟩
      · subst h1; exact Or.inl trivial
      · subst h1
        exact Or.inr ⟨x, by rw [getSuite_one]; exact find?_hit h2 h3, h4⟩
    | cons n2 rest =>
      simp only [modifySuite] at h
      rcases modifyFirst_err h with h1 | ⟨pre, x, post, h1, h2, h3, h4⟩
      · subst h1; exact Or.inl trivial
      · subst h1
        cases hr : modifySuite f (n2 :: rest) x.suites with
        | ok sub => rw [hr] at h4; cases h4
        | error e' =>
          rw [hr] at h4; injection h4 with h4; subst h4
          rcases ih x.suites hr with g | ⟨s, g1, g2⟩
          · exact Or.inl g
          · refine Or.inr ⟨s, ?_, g2⟩
            rw [getSuite_two, find?_hit (q := fun s : SuiteResult => s.md.name == n) h2 h3]; exact g1

theorem liftSuites_err {r : Report} {x : Except WriterErr (List SuiteResult)} {e : WriterErr}
    (h : liftSuites r x = .error e) : x = .error e := by
  cases x with
  | error e' => simp only [liftSuites] at h; injection h with h; rw [h]
  | ok ss' => cases h

/-- a failing `modifyResult`: the error is a lookup error, or the result was found and the mutation
    itself raised it -/
theorem modifyResult_err {f : Result → Except WriterErr Result} {loc : Loc} {r : Report} {e : WriterErr}
    (h : modifyResult f loc r = .error e) :
    isLookupErr e ∨ ∃ x, getResult loc r = some x ∧ f x = .error e := by
  cases loc with
  | sessionSetup =>
    simp only [modifyResult] at h
    cases hx : r.setup with
    | none => rw [hx] at h; injection h with h; subst h; exact Or.inl trivial
    | some x =>
      rw [hx] at h; dsimp only at h
      cases hy : f x with
      | ok y => rw [hy] at h; cases h
      | error e' => rw [hy] at h; injection h with h; subst h; exact Or.inr ⟨x, hx, hy⟩
  | sessionTeardown =>
    simp only [modifyResult] at h
    cases hx : r.teardown with
    | none => rw [hx] at h; injection h with h; subst h; exact Or.inl trivial
    | some x =>
      rw [hx] at h; dsimp only at h
      cases hy : f x with
      | ok y => rw [hy] at h; cases h
      | error e' => rw [hy] at h; injection h with h; subst h; exact Or.inr ⟨x, hx, hy⟩
  | suiteSetup p =>
    simp only [modifyResult] at h
    rcases modifySuite_err p r.suites (liftSuites_err h) with g | ⟨s, g1, g2⟩
    · exact Or.inl g
    · cases hx : s.setup with
      | none => rw [hx] at g2; injection g2 with g2; subst g2; exact Or.inl trivial
      | some x =>
        rw [hx] at g2; dsimp only at g2
        cases hy : f x with
        | ok y => rw [hy] at g2; cases g2
        | error e' =>
          rw [hy] at g2; injection g2 with g2; subst g2
          exact Or.inr ⟨x, by simp [getResult, suiteLeaf, g1, leafOf, hx], hy⟩
  | suiteTeardown p =>
    simp only [modifyResult] at h
    rcases modifySuite_err p r.suites (liftSuites_err h) with g | ⟨s, g1, g2⟩
    · exact Or.inl g
    · cases hx : s.teardown with
      | none => rw [hx] at g2; injection g2 with g2; subst g2; exact Or.inl trivial
      | some x =>
        rw [hx] at g2; dsimp only at g2
        cases hy : f x with
        | ok y => rw [hy] at g2; cases g2
        | error e' =>
          rw [hy] at g2; injection g2 with g2; subst g2
          exact Or.inr ⟨x, by simp [getResult, suiteLeaf, g1, leafOf, hx], hy⟩
  | test p =>
    simp only [modifyResult, modifyTest] at h
    have h1 := liftSuites_err h
    cases hlast : p.getLast? with
    | none => rw [hlast] at h1; injection h1 with h1; subst h1; exact Or.inl trivial
    | some last =>
      rw [hlast] at h1
      have h1' : modifySuite (suiteTestMod f p last) p.dropLast r.suites = .error e := h1
      rcases modifySuite_err p.dropLast r.suites h1' with g | ⟨s, g1, g2⟩
      · exact Or.inl g
      · unfold suiteTestMod at g2
        cases hm : modifyFirst (fun t => t.md.name == last) (testMod f) (WriterErr.lookupTest p) s.tests with
        | ok ts => rw [hm] at g2; cases g2
        | error e' =>
          rw [hm] at g2; injection g2 with g2; subst g2
          rcases modifyFirst_err hm with g3 | ⟨pre, t, post, e1, e2, e3, e4⟩
          · subst g3; exact Or.inl trivial
          · unfold testMod at e4
            cases hy : f t.result with
            | ok y => rw [hy] at e4; cases e4
            | error e'' =>
              rw [hy] at e4; injection e4 with e4; subst e4
              refine Or.inr ⟨t.result, ?_, hy⟩
              simp only [getResult, hlast, suiteLeaf, g1, leafOf, e1]
              rw [findTest_hit e2 e3]; rfl

/-- `stepCount` reads the number of steps of the result `getResult` finds -/
theorem stepCount_spec {loc : Loc} {r : Report} {n : Nat} (h : stepCount loc r = .ok n) :
    ∃ x, getResult loc r = some x ∧ x.steps.length = n := by
  unfold stepCount at h
  cases hm : modifyResult (fun x => .error (.probe x.steps.length)) loc r with
  | ok r' => rw [hm] at h; cases h
  | error e =>
    rw [hm] at h
    rcases modifyResult_err hm with g | ⟨x, g1, g2⟩
    · cases e <;> first | exact False.elim g | (dsimp only at h; cases h)
    · injection g2 with g2; subst g2
      dsimp only at h
      injection h with h
      exact ⟨x, g1, h⟩

/-! ### the effect of every handler on the steps stored at every location -/

theorem modifyResult_steps {f : Result → Except WriterErr Result} {loc : Loc} {r r' : Report}
    (h : modifyResult f loc r = .ok r') :
    ∃ x y, getResult loc r = some x ∧ f x = .ok y ∧ getSteps loc r = some x.steps ∧
      getSteps loc r' = some y.steps ∧ ∀ l, l ≠ loc → getSteps l r' = getSteps l r := by
  obtain ⟨x, y, h1, h2, h3, h4⟩ := modifyResult_spec h
  refine ⟨x, y, h1, h2, by simp [getSteps, h1], by simp [getSteps, h3], ?_⟩
  intro l hl
  simp [getSteps, h4 l hl]

theorem getResult_of_leaf_eq {r r' : Report} (hl : ∀ q, suiteLeaf q r'.suites = suiteLeaf q r.suites)
    (hs : r'.setup = r.setup) (ht : r'.teardown = r.teardown) : ∀ l, getResult l r' = getResult l r := by
  intro l
  cases l <;> simp [getResult, hl, hs, ht]

theorem getSuite_empty : ∀ (q : Path), getSuite q [] = none
  | [] => getSuite_nil _
  | [m] => by rw [getSuite_one]; rfl
  | m :: m2 :: r => by rw [getSuite_two]; rfl

/-- a freshly started suite (no setup, no teardown, no tests, no sub-suites) appended at the end of a
    suite list is invisible to result lookups -/
theorem suiteLeaf_append_init (md : Meta) (t : Time) (ss : List SuiteResult) (q : Path) :
    suiteLeaf q (ss ++ [initSuite md t]) = suiteLeaf q ss := by
  cases q with
  | nil => simp [suiteLeaf, getSuite_nil]
  | cons m tl =>
    cases tl with
    | nil =>
      simp only [suiteLeaf, getSuite_one, List.find?_append]
      cases hf : ss.find? (fun s => s.md.name == m) with
      | some s => simp
      | none =>
        simp only [Option.none_or, List.find?_cons]
        split <;> simp [leafOf, initSuite, SuiteResult.setup, SuiteResult.teardown, SuiteResult.tests]
    | cons m2 r =>
      simp only [suiteLeaf, getSuite_two, List.find?_append]
      cases hf : ss.find? (fun s => s.md.name == m) with
      | some s => simp
      | none =>
        simp only [Option.none_or, List.find?_cons]
        cases hm : (initSuite md t).md.name == m with
        | false => simp
        | true =>
          dsimp only
          have : (initSuite md t).suites = [] := rfl
          rw [this, getSuite_empty]

/-- the new `Step` object `on_step_start` creates -/
def newStep (d : String) (t : Time) : Step :=
  { description := d, startTime := some t, endTime := none, entries := [] }

theorem apply_stepStart {w w' : WriterState} {l : Loc} {d : String} {t : Nat} {time : Time}
    (h : apply w (.stepStart l d t time) = .ok w') :
    ∃ steps, getSteps l w.report = some steps ∧
      getSteps l w'.report = some (steps ++ [newStep d time]) ∧
      (∀ l', l' ≠ l → getSteps l' w'.report = getSteps l' w.report) ∧
      w'.active = (t, { target := some (l, steps.length), endTime := none }) :: w.active := by
  simp only [apply] at h
  cases hc : stepCount l w.report with
  | error e => rw [hc] at h; cases h
  | ok n =>
    rw [hc] at h; dsimp only at h
    obtain ⟨x0, hx0, hn⟩ := stepCount_spec hc
    cases hm : modifyResult (fun x => Except.ok { x with steps := x.steps ++
        [{ description := d, startTime := some time, endTime := none, entries := [] }] }) l w.report with
    | error e => rw [hm] at h; cases h
    | ok r' =>
      rw [hm] at h; injection h with h; subst h
      obtain ⟨x, y, g1, g2, g3, g4, g5⟩ := modifyResult_steps hm
      rw [hx0] at g1; injection g1 with g1; subst g1
      injection g2 with g2; subst g2
      exact ⟨x0.steps, g3, g4, g5, by rw [hn]⟩

theorem addEntry_spec {w w' : WriterState} {l : Loc} {t : Nat} {en : Entry} (h : addEntry w l t en = .ok w') :
    ∃ ref, w.active.lookup t = some ref ∧ w'.active = w.active ∧
      match ref.target with
      | none => w'.report = w.report
      | some (l0, idx) => ∃ steps, getSteps l0 w.report = some steps ∧
          getSteps l0 w'.report = some (modifyNth (addEntryToStep en) idx steps) ∧
          ∀ l', l' ≠ l0 → getSteps l' w'.report = getSteps l' w.report := by
  unfold addEntry at h
  cases hc : checkLocation l w.report with
  | error e => rw [hc] at h; cases h
  | ok u =>
    rw [hc] at h; dsimp only at h
    cases hl : w.active.lookup t with
    | none => rw [hl] at h; cases h
    | some ref =>
      rw [hl] at h; dsimp only at h
      refine ⟨ref, rfl, ?_⟩
      cases htg : ref.target with
      | none =>
        rw [htg] at h; dsimp only at h
        split at h
        · cases h
        · injection h with h; subst h
          exact ⟨rfl, rfl⟩
      | some tg =>
        obtain ⟨l0, idx⟩ := tg
        rw [htg] at h; dsimp only at h
        cases hm : modifyResult (addEntryAt idx en) l0 w.report with
        | error e => rw [hm] at h; cases e <;> cases h
        | ok r' =>
          rw [hm] at h; injection h with h; subst h
          obtain ⟨x, y, g1, g2, g3, g4, g5⟩ := modifyResult_steps hm
          unfold addEntryAt at g2
          cases hs : x.steps[idx]? with
          | none => rw [hs] at g2; cases g2
          | some st =>
            rw [hs] at g2; dsimp only at g2
            split at g2
            · cases g2
            · injection g2 with g2; subst g2
              exact ⟨rfl, x.steps, g3, g4, g5⟩

theorem apply_stepEnd {w w' : WriterState} {l : Loc} {d : String} {t : Nat} {time : Time}
    (h : apply w (.stepEnd l d t time) = .ok w') :
    ∃ ref, w.active.lookup t = some ref ∧
      w'.active = (t, { ref with endTime := some time }) :: w.active ∧
      match ref.target with
      | none => w'.report = w.report
      | some (l0, idx) => ∃ steps, getSteps l0 w.report = some steps ∧
          getSteps l0 w'.report = some (modifyNth (setStepEnd time) idx steps) ∧
          ∀ l', l' ≠ l0 → getSteps l' w'.report = getSteps l' w.report := by
  simp only [apply] at h
  cases hl : w.active.lookup t with
  | none => rw [hl] at h; cases h
  | some ref =>
    rw [hl] at h; dsimp only at h
    refine ⟨ref, rfl, ?_⟩
    cases htg : ref.target with
    | none =>
      rw [htg] at h; injection h with h; subst h
      exact ⟨rfl, rfl⟩
    | some tg =>
      obtain ⟨l0, idx⟩ := tg
      rw [htg] at h; dsimp only at h
      cases hm : modifyResult (fun x => Except.ok { x with steps := modifyNth (setStepEnd time) idx x.steps })
          l0 w.report with
      | error e => rw [hm] at h; cases h
      | ok r' =>
        rw [hm] at h; injection h with h; subst h
        obtain ⟨x, y, g1, g2, g3, g4, g5⟩ := modifyResult_steps hm
        injection g2 with g2; subst g2
        exact ⟨rfl, x.steps, g3, g4, g5⟩

/-! ### result starts (`on_*_start`, `on_test_skipped`, `on_test_disabled`) -/

theorem findTest_dictSet_same (tr : TestResult) : ∀ (ts : List TestResult),
    findTest tr.md.name (dictSet (fun t => t.md.name) tr ts) = some tr
  | [] => by simp [dictSet, findTest]
  | y :: ys => by
    simp only [dictSet]
    by_cases hy : (y.md.name == tr.md.name) = true
    · rw [if_pos hy]; simp [findTest]
    · rw [if_neg hy]
      have : (y.md.name == tr.md.name) = false := by simpa using hy
      simp only [findTest, List.find?_cons, this]
      exact findTest_dictSet_same tr ys

theorem findTest_dictSet_other (tr : TestResult) {m : String} (hm : m ≠ tr.md.name) : ∀ (ts : List TestResult),
    findTest m (dictSet (fun t => t.md.name) tr ts) = findTest m ts
  | [] => by
    have : (tr.md.name == m) = false := by simp; exact fun e => hm e.symm
    simp [dictSet, findTest, this]
  | y :: ys => by
    simp only [dictSet]
    by_cases hy : (y.md.name == tr.md.name) = true
    · rw [if_pos hy]
      have h1 : (tr.md.name == m) = false := by simp; exact fun e => hm e.symm
      have h2 : (y.md.name == m) = false := by
        have : y.md.name = tr.md.name := by simpa using hy
        rw [this]; exact h1
      simp [findTest, List.find?_cons, h1, h2]
    · rw [if_neg hy]
      simp only [findTest, List.find?_cons]
      split
      · rfl
      · exact findTest_dictSet_other tr hm ys

/-- the effect of a leaf update on the steps at the updated location and everywhere else -/
theorem LeafUpd.steps {p : Path} {L' : Leaf} {r r' : Report} (hu : LeafUpd p L' r r') {loc : Loc}
    (hsetup : loc ≠ .suiteSetup p → L'.setup = (suiteLeaf p r.suites).setup)
    (hteardown : loc ≠ .suiteTeardown p → L'.teardown = (suiteLeaf p r.suites).teardown)
    (htests : ∀ last, loc ≠ .test (p ++ [last]) →
        (findTest last L'.tests).map (·.result) = (findTest last (suiteLeaf p r.suites).tests).map (·.result)) :
    ∀ l, l ≠ loc → getSteps l r' = getSteps l r := by
  intro l hl
  simp [getSteps, hu.frame hsetup hteardown htests l hl]

theorem onResultStart_ok {loc : Loc} {w w' : WriterState} {x : Except WriterErr Report}
    (h : onResultStart loc w x = .ok w') : ∃ r', x = .ok r' ∧ w' = { report := r', active := detach loc w.active } := by
  cases x with
  | error e => cases h
  | ok r' => simp only [onResultStart] at h; injection h with h; exact ⟨r', rfl, h.symm⟩

theorem onReport_ok {w w' : WriterState} {x : Except WriterErr Report}
    (h : onReport w x = .ok w') : ∃ r', x = .ok r' ∧ w' = { w with report := r' } := by
  cases x with
  | error e => cases h
  | ok r' => simp only [onReport] at h; injection h with h; exact ⟨r', rfl, h.symm⟩

/-- `suite_result.add_test(tr)` on the suite at `parent` with a result without steps -/
theorem addTest_spec {parent : Path} {tr : TestResult} {r r' : Report} (h : addTest parent tr r = .ok r') :
    getResult (.test (parent ++ [tr.md.name])) r' = some tr.result ∧
      ∀ l, l ≠ .test (parent ++ [tr.md.name]) → getResult l r' = getResult l r := by
  unfold addTest at h
  cases parent with
  | nil => cases h
  | cons a as =>
    dsimp only at h
    obtain ⟨ss', h1, h2⟩ := liftSuites_ok h
    subst h2
    obtain ⟨s, s', g1, g2, g3⟩ := modifySuite_leaf
      (g := fun s => Except.ok (s.setTests (dictSet (fun t => t.md.name) tr s.tests)))
      (by intro s s' hs; injection hs with hs; subst hs; simp)
      (by intro s s' hs; injection hs with hs; subst hs; simp) h1
    injection g2 with g2; subst g2
    have hu : LeafUpd (a :: as) (leafOf (some (s.setTests (dictSet (fun t => t.md.name) tr s.tests)))) r
        { r with suites := ss' } := ⟨rfl, rfl, g3⟩
    constructor
    · simp only [getResult, List.getLast?_append, List.getLast?_singleton, Option.some_or, List.dropLast_concat,
        g3, if_true, leafOf, setTests_tests]
      rw [findTest_dictSet_same]; rfl
    · apply hu.frame
      · intro _; simp [leafOf, suiteLeaf, g1]
      · intro _; simp [leafOf, suiteLeaf, g1]
      · intro m hm
        have hne : m ≠ tr.md.name := by intro e; apply hm; rw [e]
        simp only [leafOf, suiteLeaf, g1, setTests_tests]
        rw [findTest_dictSet_other tr hne]

theorem apply_start {w w' : WriterState} {x : Event} {l0 : Loc} (hs : startsResult x = some l0)
    (h : apply w x = .ok w') :
    getSteps l0 w'.report = some [] ∧ (∀ l, l ≠ l0 → getSteps l w'.report = getSteps l w.report) ∧
      w'.active = detach l0 w.active := by
  cases x <;> simp only [startsResult] at hs <;> try cases hs
  case sessionSetupStart t =>
    simp only [apply] at h; injection h with h; subst h
    refine ⟨rfl, ?_, rfl⟩
    intro l hl
    cases l <;> first | rfl | exact absurd rfl hl
  case sessionTeardownStart t =>
    simp only [apply] at h; injection h with h; subst h
    refine ⟨rfl, ?_, rfl⟩
    intro l hl
    cases l <;> first | rfl | exact absurd rfl hl
  case suiteSetupStart p t =>
    simp only [apply] at h
    obtain ⟨r', h1, h2⟩ := onResultStart_ok h
    subst h2
    obtain ⟨ss', h3, h4⟩ := liftSuites_ok h1
    subst h4
    obtain ⟨s, s', g1, g2, g3⟩ := modifySuite_leaf
      (g := fun s => Except.ok (s.setSetup (some (initResult t))))
      (by intro s s' hs; injection hs with hs; subst hs; simp)
      (by intro s s' hs; injection hs with hs; subst hs; simp) h3
    injection g2 with g2; subst g2
    have hu : LeafUpd p (leafOf (some (s.setSetup (some (initResult t))))) w.report
        { w.report with suites := ss' } := ⟨rfl, rfl, g3⟩
    refine ⟨by simp [getSteps, getResult, g3, leafOf, initResult], ?_, rfl⟩
    apply hu.steps
    · intro hne; exact absurd rfl hne
    · intro _; simp [leafOf, suiteLeaf, g1]
    · intro last _; simp [leafOf, suiteLeaf, g1]
  case suiteTeardownStart p t =>
    simp only [apply] at h
    obtain ⟨r', h1, h2⟩ := onResultStart_ok h
    subst h2
    obtain ⟨ss', h3, h4⟩ := liftSuites_ok h1
    subst h4
    obtain ⟨s, s', g1, g2, g3⟩ := modifySuite_leaf
      (g := fun s => Except.ok (s.setTeardown (some (initResult t))))
      (by intro s s' hs; injection hs with hs; subst hs; simp)
      (by intro s s' hs; injection hs with hs; subst hs; simp) h3
    injection g2 with g2; subst g2
    have hu : LeafUpd p (leafOf (some (s.setTeardown (some (initResult t))))) w.report
        { w.report with suites := ss' } := ⟨rfl, rfl, g3⟩
    refine ⟨by simp [getSteps, getResult, g3, leafOf, initResult], ?_, rfl⟩
    apply hu.steps
    · intro _; simp [leafOf, suiteLeaf, g1]
    · intro hne; exact absurd rfl hne
    · intro last _; simp [leafOf, suiteLeaf, g1]
  case testStart p md t =>
    simp only [apply] at h
    obtain ⟨r', h1, h2⟩ := onResultStart_ok h
    subst h2
    obtain ⟨g1, g2⟩ := addTest_spec h1
    refine ⟨by simp only [getSteps]; rw [show (initTest md t).md.name = md.name from rfl] at g1; rw [g1]; rfl, ?_, rfl⟩
    intro l hl
    simp only [getSteps]
    rw [g2 l hl]
  case testSkipped p md reason t =>
    simp only [apply] at h
    obtain ⟨r', h1, h2⟩ := onResultStart_ok h
    subst h2
    obtain ⟨g1, g2⟩ := addTest_spec h1
    refine ⟨by simp only [getSteps]; rw [show (bypassTest md .skipped reason t).md.name = md.name from rfl] at g1; rw [g1]; rfl, ?_, rfl⟩
    intro l hl
    simp only [getSteps]
    rw [g2 l hl]
  case testDisabled p md reason t =>
    simp only [apply] at h
    obtain ⟨r', h1, h2⟩ := onResultStart_ok h
    subst h2
    obtain ⟨g1, g2⟩ := addTest_spec h1
    refine ⟨by simp only [getSteps]; rw [show (bypassTest md .disabled reason t).md.name = md.name from rfl] at g1; rw [g1]; rfl, ?_, rfl⟩
    intro l hl
    simp only [getSteps]
    rw [g2 l hl]

/-! ### events that do not touch any step list -/

def isOther : Event → Bool
  | .sessionStart _ | .sessionEnd _ | .sessionSetupEnd _ | .sessionTeardownEnd _ => true
  | .suiteStart .. | .suiteEnd .. | .suiteSetupEnd .. | .suiteTeardownEnd .. | .testEnd .. => true
  | _ => false

theorem finalize_steps {loc : Loc} {t : Time} {r r' : Report}
    (h : modifyResult (fun x => Except.ok (finalizeResult t x)) loc r = .ok r') :
    ∀ l, getSteps l r' = getSteps l r := by
  obtain ⟨x, y, g1, g2, g3, g4, g5⟩ := modifyResult_steps h
  injection g2 with g2; subst g2
  intro l
  by_cases hl : l = loc
  · subst hl; rw [g3, g4]; rfl
  · exact g5 l hl

theorem getSteps_of_leaf_eq {r r' : Report} (hl : ∀ q, suiteLeaf q r'.suites = suiteLeaf q r.suites)
    (hs : r'.setup = r.setup) (ht : r'.teardown = r.teardown) : ∀ l, getSteps l r' = getSteps l r := by
  intro l; simp [getSteps, getResult_of_leaf_eq hl hs ht l]

theorem apply_other {w w' : WriterState} {x : Event} (hx : isOther x = true) (h : apply w x = .ok w') :
    (∀ l, getSteps l w'.report = getSteps l w.report) ∧ w'.active = w.active := by
  cases x <;> simp only [isOther] at hx <;> try cases hx
  case sessionStart t =>
    simp only [apply] at h; injection h with h; subst h
    exact ⟨getSteps_of_leaf_eq (fun _ => rfl) rfl rfl, rfl⟩
  case sessionEnd t =>
    simp only [apply] at h; injection h with h; subst h
    exact ⟨getSteps_of_leaf_eq (fun _ => rfl) rfl rfl, rfl⟩
  case sessionSetupEnd t =>
    simp only [apply] at h
    obtain ⟨r', h1, h2⟩ := onReport_ok h; subst h2
    exact ⟨finalize_steps h1, rfl⟩
  case sessionTeardownEnd t =>
    simp only [apply] at h
    obtain ⟨r', h1, h2⟩ := onReport_ok h; subst h2
    exact ⟨finalize_steps h1, rfl⟩
  case suiteSetupEnd p t =>
    simp only [apply] at h
    obtain ⟨r', h1, h2⟩ := onReport_ok h; subst h2
    exact ⟨finalize_steps h1, rfl⟩
  case suiteTeardownEnd p t =>
    simp only [apply] at h
    obtain ⟨r', h1, h2⟩ := onReport_ok h; subst h2
    exact ⟨finalize_steps h1, rfl⟩
  case testEnd p t =>
    simp only [apply] at h
    obtain ⟨r', h1, h2⟩ := onReport_ok h; subst h2
    exact ⟨finalize_steps h1, rfl⟩
  case suiteEnd p t =>
    simp only [apply] at h
    obtain ⟨r', h1, h2⟩ := onReport_ok h; subst h2
    obtain ⟨ss', h3, h4⟩ := liftSuites_ok h1; subst h4
    obtain ⟨s, s', g1, g2, g3⟩ := modifySuite_leaf
      (g := fun s => Except.ok (s.setEndTime (some t)))
      (by intro s s' hs; injection hs with hs; subst hs; simp)
      (by intro s s' hs; injection hs with hs; subst hs; simp) h3
    injection g2 with g2; subst g2
    refine ⟨getSteps_of_leaf_eq ?_ rfl rfl, rfl⟩
    intro q
    show suiteLeaf q ss' = suiteLeaf q w.report.suites
    rw [g3 q]
    split
    · rename_i hq; subst hq; simp [leafOf, suiteLeaf, g1]
    · rfl
  case suiteStart p md t =>
    simp only [apply] at h
    split at h
    · injection h with h; subst h
      exact ⟨getSteps_of_leaf_eq (fun q => suiteLeaf_append_init md t _ q) rfl rfl, rfl⟩
    · rename_i parent hparent
      obtain ⟨r', h1, h2⟩ := onReport_ok h; subst h2
      obtain ⟨ss', h3, h4⟩ := liftSuites_ok h1; subst h4
      obtain ⟨s, s', g1, g2, g3, g4⟩ := modifySuite_spec
        (f := fun s => Except.ok (s.setSuites (s.suites ++ [initSuite md t])))
        (by intro s s' hs; injection hs with hs; subst hs; simp) _ _ _ h3
      injection g2 with g2; subst g2
      refine ⟨getSteps_of_leaf_eq ?_ rfl rfl, rfl⟩
      intro q
      show suiteLeaf q ss' = suiteLeaf q w.report.suites
      by_cases hq : q = p.dropLast
      · rw [hq]; simp [suiteLeaf, g3, g1, leafOf]
      · exact g4 (by intro q2; simp [suiteLeaf_append_init]) q hq

/-! ### summary: steps only grow, active references are stable -/

theorem event_class (x : Event) :
    (∃ l d t time, x = .stepStart l d t time) ∨ (∃ l d t time, x = .stepEnd l d t time) ∨
    (logLike x = true ∧ ∃ t l en, evTid x = some t ∧ evLoc x = some l ∧ entryOf x = some en) ∨
    (∃ l0, startsResult x = some l0) ∨ isOther x = true := by
  cases x
  case stepStart l d t time => exact Or.inl ⟨l, d, t, time, rfl⟩
  case stepEnd l d t time => exact Or.inr (Or.inl ⟨l, d, t, time, rfl⟩)
  case log l st t lv m time => exact Or.inr (Or.inr (Or.inl ⟨rfl, t, l, _, rfl, rfl, rfl⟩))
  case check l st t d ok det time => exact Or.inr (Or.inr (Or.inl ⟨rfl, t, l, _, rfl, rfl, rfl⟩))
  case attachment l st t pa d im time => exact Or.inr (Or.inr (Or.inl ⟨rfl, t, l, _, rfl, rfl, rfl⟩))
  case url l st t u d time => exact Or.inr (Or.inr (Or.inl ⟨rfl, t, l, _, rfl, rfl, rfl⟩))
  all_goals first
    | exact Or.inr (Or.inr (Or.inr (Or.inl ⟨_, rfl⟩)))
    | exact Or.inr (Or.inr (Or.inr (Or.inr rfl)))

/-- a log-like event is handled by `_add_step_log` with the event's location, thread id and entry -/
theorem apply_logLike {w : WriterState} {x : Event} {t : Nat} {l : Loc} {en : Entry}
    (hl : logLike x = true) (ht : evTid x = some t) (hloc : evLoc x = some l) (hen : entryOf x = some en) :
    apply w x = addEntry w l t en := by
  cases x <;> simp only [logLike] at hl <;> try cases hl
  all_goals
    simp only [evTid, evLoc, entryOf] at ht hloc hen
    injection ht with ht; injection hloc with hloc; injection hen with hen
    subst ht; subst hloc; subst hen
    simp only [apply]

theorem modifyNth_length {α : Type} (f : α → α) : ∀ (n : Nat) (l : List α), (modifyNth f n l).length = l.length
  | 0, [] => rfl
  | _ + 1, [] => rfl
  | 0, x :: xs => rfl
  | n + 1, x :: xs => by simp [modifyNth, modifyNth_length f n xs]

theorem modifyNth_getElem? {α : Type} (f : α → α) : ∀ (n m : Nat) (l : List α),
    (modifyNth f n l)[m]? = if m = n then l[m]?.map f else l[m]?
  | _, _, [] => by simp [modifyNth]
  | 0, 0, x :: xs => by simp [modifyNth]
  | 0, m + 1, x :: xs => by simp [modifyNth]
  | n + 1, 0, x :: xs => by simp [modifyNth]
  | n + 1, m + 1, x :: xs => by
    simp only [modifyNth, List.getElem?_cons_succ, modifyNth_getElem? f n m xs]
    by_cases h : m = n <;> simp [h]

/-- The step list of a result only grows: existing steps keep their index and description, and
    their entries are only extended at the end. -/
structure StepsGrow (ss ss' : List Step) : Prop where
  len : ss.length ≤ ss'.length
  keep : ∀ (n : Nat) (st : Step), ss[n]? = some st →
    ∃ st' : Step, ss'[n]? = some st' ∧ st'.description = st.description ∧ st.entries <+: st'.entries

theorem StepsGrow.refl (ss : List Step) : StepsGrow ss ss :=
  ⟨Nat.le_refl _, fun _ st h => ⟨st, h, rfl, List.prefix_refl _⟩⟩

theorem StepsGrow.trans {a b c : List Step} (h1 : StepsGrow a b) (h2 : StepsGrow b c) : StepsGrow a c := by
  refine ⟨Nat.le_trans h1.len h2.len, ?_⟩
  intro n st h
  obtain ⟨st1, g1, g2, g3⟩ := h1.keep n st h
  obtain ⟨st2, k1, k2, k3⟩ := h2.keep n st1 g1
  exact ⟨st2, k1, by rw [k2, g2], g3.trans k3⟩

theorem StepsGrow.push (ss : List Step) (x : Step) : StepsGrow ss (ss ++ [x]) := by
  refine ⟨by simp, ?_⟩
  intro n st h
  have hn : n < ss.length := by
    apply Classical.byContradiction; intro hc
    rw [List.getElem?_eq_none (by omega)] at h; cases h
  exact ⟨st, by rw [List.getElem?_append_left hn]; exact h, rfl, List.prefix_refl _⟩

theorem StepsGrow.modify (ss : List Step) (f : Step → Step) (idx : Nat)
    (hd : ∀ st, (f st).description = st.description) (he : ∀ st, st.entries <+: (f st).entries) :
    StepsGrow ss (modifyNth f idx ss) := by
  refine ⟨by rw [modifyNth_length]; exact Nat.le_refl _, ?_⟩
  intro n st h
  rw [modifyNth_getElem?]
  by_cases hn : n = idx
  · rw [if_pos hn, h]; exact ⟨f st, rfl, hd st, he st⟩
  · rw [if_neg hn]; exact ⟨st, h, rfl, List.prefix_refl _⟩

theorem StepsGrow.addEntry (ss : List Step) (en : Entry) (idx : Nat) :
    StepsGrow ss (modifyNth (addEntryToStep en) idx ss) :=
  StepsGrow.modify ss _ idx (fun _ => rfl) (fun _ => List.prefix_append _ _)

theorem StepsGrow.setEnd (ss : List Step) (t : Time) (idx : Nat) :
    StepsGrow ss (modifyNth (setStepEnd t) idx ss) :=
  StepsGrow.modify ss _ idx (fun _ => rfl) (fun _ => List.prefix_refl _)

/-- **Steps only grow.**  Whatever event the writer handles, at every location whose result is not
    (re)created by that event the steps keep index and description and their entries are only extended. -/
theorem apply_grow {w w' : WriterState} {x : Event} (h : apply w x = .ok w') {l : Loc}
    (hl : startsResult x ≠ some l) {ss : List Step} (hss : getSteps l w.report = some ss) :
    ∃ ss', getSteps l w'.report = some ss' ∧ StepsGrow ss ss' := by
  rcases event_class x with ⟨l0, d, t, time, hx⟩ | ⟨l0, d, t, time, hx⟩ | ⟨hlog, t, l0, en, ht, hloc, hen⟩ | ⟨l0, hst⟩ | hoth
  · subst hx
    obtain ⟨steps, g1, g2, g3, _⟩ := apply_stepStart h
    by_cases e : l = l0
    · subst e
      rw [hss] at g1; injection g1 with g1; subst g1
      exact ⟨_, g2, StepsGrow.push _ _⟩
    · exact ⟨ss, by rw [g3 l e]; exact hss, StepsGrow.refl _⟩
  · subst hx
    obtain ⟨ref, _, _, g⟩ := apply_stepEnd h
    cases htg : ref.target with
    | none => rw [htg] at g; dsimp only at g; exact ⟨ss, by rw [g]; exact hss, StepsGrow.refl _⟩
    | some tg =>
      obtain ⟨l1, idx⟩ := tg
      rw [htg] at g; dsimp only at g
      obtain ⟨steps, g1, g2, g3⟩ := g
      by_cases e : l = l1
      · subst e
        rw [hss] at g1; injection g1 with g1; subst g1
        exact ⟨_, g2, StepsGrow.setEnd _ _ _⟩
      · exact ⟨ss, by rw [g3 l e]; exact hss, StepsGrow.refl _⟩
  · rw [apply_logLike hlog ht hloc hen] at h
    obtain ⟨ref, _, _, g⟩ := addEntry_spec h
    cases htg : ref.target with
    | none => rw [htg] at g; dsimp only at g; exact ⟨ss, by rw [g]; exact hss, StepsGrow.refl _⟩
    | some tg =>
      obtain ⟨l1, idx⟩ := tg
      rw [htg] at g; dsimp only at g
      obtain ⟨steps, g1, g2, g3⟩ := g
      by_cases e : l = l1
      · subst e
        rw [hss] at g1; injection g1 with g1; subst g1
        exact ⟨_, g2, StepsGrow.addEntry _ _ _⟩
      · exact ⟨ss, by rw [g3 l e]; exact hss, StepsGrow.refl _⟩
  · obtain ⟨_, g2, _⟩ := apply_start hst h
    have e : l ≠ l0 := by intro e; apply hl; rw [hst, e]
    exact ⟨ss, by rw [g2 l e]; exact hss, StepsGrow.refl _⟩
  · obtain ⟨g1, _⟩ := apply_other hoth h
    exact ⟨ss, by rw [g1 l]; exact hss, StepsGrow.refl _⟩

theorem lookup_detach (l0 : Loc) (t : Nat) : ∀ (act : List (Nat × StepRef)),
    (detach l0 act).lookup t = (act.lookup t).map (fun ref =>
      match ref.target with
      | some (l, _) => if l = l0 then { ref with target := none } else ref
      | none => ref)
  | [] => rfl
  | (t', ref) :: rest => by
    have ih := lookup_detach l0 t rest
    simp only [detach, List.map_cons] at ih ⊢
    cases htg : ref.target with
    | none =>
      simp only [List.lookup_cons]
      cases htt : t == t' with
      | true => simp [htg]
      | false => simpa using ih
    | some tg =>
      obtain ⟨l, n⟩ := tg
      dsimp only
      by_cases hl : l = l0
      · rw [if_pos hl]
        simp only [List.lookup_cons]
        cases htt : t == t' with
        | true => simp [htg, hl]
        | false => simpa using ih
      · rw [if_neg hl]
        simp only [List.lookup_cons]
        cases htt : t == t' with
        | true => simp [htg, hl]
        | false => simpa using ih

/-- **The active reference of a thread is stable**: it is changed only by that thread's own step
    events, or by the re-creation of the result it points into. -/
theorem apply_active_stable {w w' : WriterState} {x : Event} (h : apply w x = .ok w') {t : Nat} {l : Loc} {n : Nat}
    (hx : isStepEvOf t x = false) (hl : startsResult x ≠ some l)
    (ha : w.active.lookup t = some { target := some (l, n), endTime := none }) :
    w'.active.lookup t = some { target := some (l, n), endTime := none } := by
  rcases event_class x with ⟨l0, d, t', time, e⟩ | ⟨l0, d, t', time, e⟩ | ⟨hlog, t', l0, en, ht, hloc, hen⟩ | ⟨l0, hst⟩ | hoth
  · subst e
    obtain ⟨steps, _, _, _, g⟩ := apply_stepStart h
    have : (t == t') = false := by
      simp only [isStepEvOf] at hx
      cases hq : t == t' with
      | false => rfl
      | true => have : t = t' := by simpa using hq
                subst this; simp at hx
    rw [g, List.lookup_cons, this]; exact ha
  · subst e
    obtain ⟨ref, _, g, _⟩ := apply_stepEnd h
    have : (t == t') = false := by
      simp only [isStepEvOf] at hx
      cases hq : t == t' with
      | false => rfl
      | true => have : t = t' := by simpa using hq
                subst this; simp at hx
    rw [g, List.lookup_cons, this]; exact ha
  · rw [apply_logLike hlog ht hloc hen] at h
    obtain ⟨ref, _, g, _⟩ := addEntry_spec h
    rw [g]; exact ha
  · obtain ⟨_, _, g⟩ := apply_start hst h
    have e : l ≠ l0 := by intro e; apply hl; rw [hst, e]
    rw [g, lookup_detach, ha]
    simp [e]
  · obtain ⟨_, g⟩ := apply_other hoth h
    rw [g]; exact ha

/-! ### runs -/

theorem run_append_ok {w w' : WriterState} : ∀ {es1 es2 : List Event},
    run w (es1 ++ es2) = .ok w' ↔ ∃ w1, run w es1 = .ok w1 ∧ run w1 es2 = .ok w' := by
  intro es1
  induction es1 generalizing w with
  | nil => intro es2; simp [run]
  | cons e es ih =>
    intro es2
    simp only [List.cons_append, run]
    cases ha : apply w e with
    | error err => simp
    | ok w1 => simp only; exact ih

theorem lastStepEv_split {t : Nat} {es : List Event} {e : Event} (h : lastStepEv t es = some e) :
    isStepEvOf t e = true ∧ ∃ pre1 pre2, es = pre1 ++ e :: pre2 ∧ ∀ x ∈ pre2, isStepEvOf t x = false := by
  unfold lastStepEv at h
  obtain ⟨h1, as, bs, h2, h3⟩ := List.find?_eq_some_iff_append.mp h
  refine ⟨h1, bs.reverse, as.reverse, ?_, ?_⟩
  · have := congrArg List.reverse h2
    simpa using this
  · intro x hx
    have := h3 x (by simpa using hx)
    simpa using this

/-- Over a stretch of events that contains no step event of thread `t` and does not re-create the
    result at `l`, the active reference of `t` (pointing to step `n` at `l`) stays what it is and the
    steps at `l` only grow. -/
theorem run_stable {t : Nat} {l : Loc} {n : Nat} : ∀ (es : List Event) (w2 w : WriterState),
    run w2 es = .ok w → (∀ x ∈ es, isStepEvOf t x = false) → (∀ x ∈ es, startsResult x ≠ some l) →
    w2.active.lookup t = some { target := some (l, n), endTime := none } →
    w.active.lookup t = some { target := some (l, n), endTime := none } ∧
      ∀ ss2, getSteps l w2.report = some ss2 → ∃ ss, getSteps l w.report = some ss ∧ StepsGrow ss2 ss := by
  intro es
  induction es with
  | nil =>
    intro w2 w h _ _ ha
    simp only [run] at h; injection h with h; subst h
    exact ⟨ha, fun ss2 h2 => ⟨ss2, h2, StepsGrow.refl _⟩⟩
  | cons e es ih =>
    intro w2 w h h1 h2 ha
    simp only [run] at h
    cases hap : apply w2 e with
    | error err => rw [hap] at h; cases h
    | ok w3 =>
      rw [hap] at h
      have he1 := h1 e (by simp)
      have he2 := h2 e (by simp)
      have ha3 := apply_active_stable hap he1 he2 ha
      obtain ⟨g1, g2⟩ := ih w3 w h (fun x hx => h1 x (by simp [hx])) (fun x hx => h2 x (by simp [hx])) ha3
      refine ⟨g1, ?_⟩
      intro ss2 hss2
      obtain ⟨ss3, k1, k2⟩ := apply_grow hap he2 hss2
      obtain ⟨ss, k3, k4⟩ := g2 ss3 k1
      exact ⟨ss, k3, k2.trans k4⟩
end LccModel.WriterIso

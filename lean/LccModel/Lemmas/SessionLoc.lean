import LccModel.Lemmas.SessionSteps

/-!
  Which events a `Session` call can fire (`step_fired_kinds`), and locality of cursors.

  A task works at one report location `L`.  `LocInv L s`: every cursor (live or saved for a not yet
  running `lcc.Thread`) points at `L` and holds only events of `L`.  Under that invariant each op fires
  only *inner* events of `L` (steps, logs, checks, attachments, urls at `L`, or the held phase-start event
  of `L`) plus — for the bracketing ops — its own terminal event (`opEv`).
-/
namespace LccModel.Session
open LccModel.Report

/-- events that ops working inside location `L` fire: step/log-like events at `L`, and the (held) start
    event of the setup/teardown phase `L` -/
def innerEv (L : Loc) : Event → Bool
  | .stepStart l _ _ _ => l == L
  | .stepEnd l _ _ _ => l == L
  | .log l _ _ _ _ _ => l == L
  | .check l _ _ _ _ _ _ => l == L
  | .attachment l _ _ _ _ _ _ => l == L
  | .url l _ _ _ _ _ => l == L
  | .sessionSetupStart _ => L == .sessionSetup
  | .sessionTeardownStart _ => L == .sessionTeardown
  | .suiteSetupStart p _ => L == .suiteSetup p
  | .suiteTeardownStart p _ => L == .suiteTeardown p
  | _ => false

/-- the terminal event an op fires itself (not through a cursor) -/
def opEv : Op → Event → Bool
  | .startTestSession, .sessionStart _ => true
  | .endTestSession, .sessionEnd _ => true
  | .endSessionSetup, .sessionSetupEnd _ => true
  | .endSessionTeardown, .sessionTeardownEnd _ => true
  | .startSuite p md, .suiteStart p' md' _ => p == p' && md == md'
  | .endSuite p, .suiteEnd p' _ => p == p'
  | .endSuiteSetup p, .suiteSetupEnd p' _ => p == p'
  | .endSuiteTeardown p, .suiteTeardownEnd p' _ => p == p'
  | .startTest p md, .testStart p' md' _ => p == p' && md == md'
  | .endTest p, .testEnd p' _ => p == p'
  | .skipTest p md r, .testSkipped p' md' r' _ => p == p' && md == md' && r == r'
  | .disableTest p md r, .testDisabled p' md' r' _ => p == p' && md == md' && r == r'
  | _, _ => false

/-- ops a task working at location `L` may issue -/
def opFor (L : Loc) : Op → Bool
  | .startSessionSetup | .endSessionSetup => L == .sessionSetup
  | .startSessionTeardown | .endSessionTeardown => L == .sessionTeardown
  | .startSuiteSetup p | .endSuiteSetup p => L == .suiteSetup p
  | .startSuiteTeardown p | .endSuiteTeardown p => L == .suiteTeardown p
  | .startTest p _ | .endTest p | .skipTest p _ _ | .disableTest p _ _ => L == .test p
  | .startTestSession | .endTestSession | .startSuite _ _ | .endSuite _ => false
  | _ => true

/-- ops issued while user code runs (no bracketing event of their own) -/
def Op.inner : Op → Bool
  | .setStep _ | .endStep | .log .. | .check .. | .url .. | .attach .. | .attachBegin .. | .attachEnd
  | .threadCreate _ | .threadRun | .threadEnd => true
  | _ => false

theorem opEv_inner {op : Op} (h : op.inner = true) (e : Event) : opEv op e = false := by
  cases op <;> simp [Op.inner] at h <;> cases e <;> rfl

theorem opFor_inner {op : Op} (h : op.inner = true) (L : Loc) : opFor L op = true := by
  cases op <;> simp [Op.inner] at h <;> rfl

def CurOk (L : Loc) (c : Cursor) : Prop := c.loc = L ∧ ∀ e ∈ c.pending, innerEv L e = true

/-- every cursor works at `L` and holds only events of `L` -/
def LocInv (L : Loc) (s : St) : Prop :=
  (∀ p ∈ s.cursors, CurOk L p.2) ∧ (∀ p ∈ s.saved, CurOk L p.2.1)

theorem locInv_init (L : Loc) : LocInv L St.init := by
  constructor <;> intro p hp <;> simp [St.init] at hp

theorem getCursor_mem' {s : St} {tid : Nat} {c : Cursor} (h : getCursor s tid = some c) :
    ∃ t, (t, c) ∈ s.cursors := by
  rcases getCursor_mem h with h | h
  · exact ⟨tid, h⟩
  · exact h

theorem locInv_cur {L : Loc} {s : St} (h : LocInv L s) {tid : Nat} {c : Cursor} (hc : getCursor s tid = some c) :
    CurOk L c := by
  obtain ⟨t, hm⟩ := getCursor_mem' hc
  exact h.1 (t, c) hm

theorem locInv_setCursor {L : Loc} {s : St} (h : LocInv L s) (tid : Nat) (c : Cursor) (hc : CurOk L c) :
    LocInv L (setCursor s tid c) := by
  constructor
  · intro p hp
    simp only [setCursor] at hp
    rcases List.mem_cons.mp hp with e1 | hp
    · subst e1; exact hc
    · exact h.1 p (List.mem_filter.mp hp).1
  · exact h.2

theorem locInv_of_eq {L : Loc} {s s' : St} (h : LocInv L s) (h1 : s'.cursors = s.cursors) (h2 : s'.saved = s.saved) :
    LocInv L s' := by
  constructor
  · rw [h1]; exact h.1
  · rw [h2]; exact h.2

/-- effect of a cursor-level helper: fires only events satisfying `Q`, keeps the cursor at `L` -/
structure HLoc (L : Loc) (Q : Event → Prop) (s : St) (s' : St) (c' : Cursor) : Prop where
  ext : ∃ new, s'.fired = s.fired ++ new ∧ ∀ e ∈ new, Q e
  cursors : s'.cursors = s.cursors
  saved : s'.saved = s.saved
  cur : CurOk L c'

theorem HLoc.trans {L : Loc} {Q : Event → Prop} {s s1 s2 : St} {c1 c2 : Cursor}
    (h1 : HLoc L Q s s1 c1) (h2 : HLoc L Q s1 s2 c2) : HLoc L Q s s2 c2 := by
  obtain ⟨n1, e1, q1⟩ := h1.ext
  obtain ⟨n2, e2, q2⟩ := h2.ext
  refine ⟨⟨n1 ++ n2, by rw [e2, e1, List.append_assoc], ?_⟩, by rw [h2.cursors, h1.cursors],
    by rw [h2.saved, h1.saved], h2.cur⟩
  intro e he
  rcases List.mem_append.mp he with he | he
  · exact q1 e he
  · exact q2 e he

theorem HLoc.refl_of {L : Loc} {Q : Event → Prop} {s s' : St} {c : Cursor} (hc : CurOk L c)
    (hf : s'.fired = s.fired) (h1 : s'.cursors = s.cursors) (h2 : s'.saved = s.saved) : HLoc L Q s s' c :=
  ⟨⟨[], by rw [hf]; simp, by intro e he; cases he⟩, h1, h2, hc⟩

theorem HLoc.mono {L : Loc} {Q Q' : Event → Prop} {s s' : St} {c' : Cursor} (h : HLoc L Q s s' c')
    (hq : ∀ e, Q e → Q' e) : HLoc L Q' s s' c' := by
  obtain ⟨n, e1, q1⟩ := h.ext
  exact ⟨⟨n, e1, fun e he => hq e (q1 e he)⟩, h.cursors, h.saved, h.cur⟩

theorem hloc_discardOrFire {L : Loc} {Q : Event → Prop} (s : St) (c : Cursor) (hc : CurOk L c)
    (isC : Event → Bool) (e : Event) (he : Q e) :
    HLoc L Q s (discardOrFire s c isC e).1 (discardOrFire s c isC e).2 := by
  unfold discardOrFire
  cases hl : c.pending.getLast? with
  | none =>
    simp only
    exact ⟨⟨[e], rfl, by intro x hx; simp at hx; subst hx; exact he⟩, rfl, rfl, hc⟩
  | some last =>
    simp only
    by_cases hcl : isC last = true
    · simp only [hcl, if_true]
      exact ⟨⟨[], by simp, by intro x hx; cases hx⟩, rfl, rfl, hc.1, fun x hx => hc.2 x (List.dropLast_subset _ hx)⟩
    · simp only [hcl]
      exact ⟨⟨[e], rfl, by intro x hx; simp at hx; subst hx; exact he⟩, rfl, rfl, hc⟩

theorem endStepIfAny_loc (s : St) (tid : Nat) (c : Cursor) : (endStepIfAny s tid c).2.loc = c.loc := by
  unfold endStepIfAny
  cases c.step with
  | none => rfl
  | some d =>
    simp only
    unfold discardOrFire
    cases c.pending.getLast? with
    | none => rfl
    | some last => simp only; split <;> rfl

theorem hloc_endStepIfAny {L : Loc} (s : St) (tid : Nat) (c : Cursor) (hc : CurOk L c) :
    HLoc L (fun e => innerEv L e = true) s (endStepIfAny s tid c).1 (endStepIfAny s tid c).2 := by
  unfold endStepIfAny
  cases hs : c.step with
  | none => exact HLoc.refl_of hc rfl rfl rfl
  | some d =>
    simp only
    have h1 : HLoc L (fun e => innerEv L e = true) s (tick s) c := HLoc.refl_of hc rfl rfl rfl
    have h2 := hloc_discardOrFire (L := L) (Q := fun e => innerEv L e = true) (tick s) c hc isStepStart
      (Event.stepEnd c.loc d tid s.now) (by simp [innerEv, hc.1])
    have h3 := h1.trans h2
    exact ⟨h3.ext, h3.cursors, h3.saved, h3.cur.1, h3.cur.2⟩

/-- closing an op: store the cursor back -/
theorem locInv_store {L : Loc} {Q : Event → Prop} {s s' : St} {c' : Cursor} (tid : Nat) (hinv : LocInv L s)
    (h : HLoc L Q s s' c') :
    LocInv L (setCursor s' tid c') ∧ ∃ new, (setCursor s' tid c').fired = s.fired ++ new ∧ ∀ e ∈ new, Q e :=
  ⟨locInv_setCursor (locInv_of_eq hinv h.cursors h.saved) tid c' h.cur, h.ext⟩

/-- **`step_fired_kinds`**: what a `Session` call by a task working at `L` fires, and that it keeps all
    cursors at `L`: only inner events of `L` and the op's own terminal event. -/
theorem step_loc {L : Loc} {s s' : St} {tid : Nat} {op : Op} (hinv : LocInv L s) (hop : opFor L op = true)
    (h : step s tid op = .ok s') :
    LocInv L s' ∧ ∃ new, s'.fired = s.fired ++ new ∧ ∀ e ∈ new, innerEv L e = true ∨ opEv op e = true := by
  have single : ∀ (s1 : St) (e : Event), s1.fired = s.fired ++ [e] → s1.cursors = s.cursors → s1.saved = s.saved →
      opEv op e = true →
      LocInv L s1 ∧ ∃ new, s1.fired = s.fired ++ new ∧ ∀ e ∈ new, innerEv L e = true ∨ opEv op e = true := by
    intro s1 e h1 h2 h3 h4
    exact ⟨locInv_of_eq hinv h2 h3, [e], h1, by intro x hx; simp at hx; subst hx; exact Or.inr h4⟩
  have phaseStart : ∀ (loc : Loc) (mk : Nat → Event), L = loc → innerEv L (mk s.now) = true →
      LocInv L (startPhase s tid loc mk) ∧ ∃ new, (startPhase s tid loc mk).fired = s.fired ++ new ∧
        ∀ e ∈ new, innerEv L e = true ∨ opEv op e = true := by
    intro loc mk hl hmk
    refine ⟨?_, [], by simp [startPhase], by intro e he; cases he⟩
    unfold startPhase
    apply locInv_setCursor (s := tick s) ⟨hinv.1, hinv.2⟩
    exact ⟨hl.symm, by intro e he; simp at he; subst he; exact hmk⟩
  have phaseEnd : ∀ (isC : Event → Bool) (mk : Nat → Event), (∀ n, opEv op (mk n) = true) →
      endPhase s tid isC mk = .ok s' →
      LocInv L s' ∧ ∃ new, s'.fired = s.fired ++ new ∧ ∀ e ∈ new, innerEv L e = true ∨ opEv op e = true := by
    intro isC mk hmk h
    unfold endPhase withCursor at h
    cases hc : getCursor s tid with
    | none => rw [hc] at h; cases h
    | some c =>
      rw [hc] at h; simp only at h; injection h with h; subst h
      have hcur := locInv_cur hinv hc
      have h1 := (hloc_endStepIfAny s tid c hcur).mono (Q' := fun e => innerEv L e = true ∨ opEv op e = true)
        (fun e he => Or.inl he)
      have h2 : HLoc L (fun e => innerEv L e = true ∨ opEv op e = true) (endStepIfAny s tid c).1
          (tick (endStepIfAny s tid c).1) (endStepIfAny s tid c).2 := HLoc.refl_of h1.cur rfl rfl rfl
      have h3 := hloc_discardOrFire (L := L) (Q := fun e => innerEv L e = true ∨ opEv op e = true)
        (tick (endStepIfAny s tid c).1) (endStepIfAny s tid c).2 h1.cur isC (mk (endStepIfAny s tid c).1.now)
        (Or.inr (hmk _))
      exact locInv_store tid hinv ((h1.trans h2).trans h3)
  have steppedCase : ∀ (s0 : St) (failing : Bool) (mk : Loc → Option String → Nat → Event),
      s0.fired = s.fired → s0.cursors = s.cursors → s0.saved = s.saved →
      (∀ st n, innerEv L (mk L st n) = true) → stepped s0 tid failing mk = .ok s' →
      LocInv L s' ∧ ∃ new, s'.fired = s.fired ++ new ∧ ∀ e ∈ new, innerEv L e = true ∨ opEv op e = true := by
    intro s0 failing mk hf0 hc0 hs0 hmk h
    unfold stepped withCursor at h
    cases hc : getCursor s0 tid with
    | none => rw [hc] at h; cases h
    | some c =>
      rw [hc] at h; simp only at h; injection h with h; subst h
      have hinv0 : LocInv L s0 := locInv_of_eq hinv hc0 hs0
      have hcur := locInv_cur hinv0 hc
      refine ⟨?_, c.pending ++ [mk c.loc c.step (if failing = true then markFailed (flush s0 c).1 c.loc else (flush s0 c).1).now], ?_, ?_⟩
      · apply locInv_setCursor
        · cases failing <;> simp only [if_true, Bool.false_eq_true, if_false]
          · exact locInv_of_eq hinv0 rfl rfl
          · exact locInv_of_eq hinv0 (by simp [flush]) (by simp [flush])
        · exact ⟨hcur.1, by intro e he; simp [flush] at he⟩
      · cases failing <;> simp [flush, hf0, List.append_assoc]
      · intro e he
        rcases List.mem_append.mp he with he | he
        · exact Or.inl (hcur.2 e he)
        · simp at he; subst he; rw [hcur.1]; exact Or.inl (hmk _ _)
  have endStepCase : ∀ c, getCursor s tid = some c → s' = setCursor (endStepIfAny s tid c).1 tid (endStepIfAny s tid c).2 →
      LocInv L s' ∧ ∃ new, s'.fired = s.fired ++ new ∧ ∀ e ∈ new, innerEv L e = true ∨ opEv op e = true := by
    intro c hc hs
    subst hs
    have hcur := locInv_cur hinv hc
    exact locInv_store tid hinv ((hloc_endStepIfAny s tid c hcur).mono (fun e he => Or.inl he))
  cases op with
  | startTestSession => cases hop
  | endTestSession => cases hop
  | startSessionSetup =>
    simp only [step] at h; injection h with h; subst h
    exact phaseStart _ _ (by simpa [opFor] using hop) (by simpa [opFor, innerEv] using hop)
  | endSessionSetup => simp only [step] at h; exact phaseEnd _ _ (fun _ => rfl) h
  | startSessionTeardown =>
    simp only [step] at h; injection h with h; subst h
    exact phaseStart _ _ (by simpa [opFor] using hop) (by simpa [opFor, innerEv] using hop)
  | endSessionTeardown => simp only [step] at h; exact phaseEnd _ _ (fun _ => rfl) h
  | startSuite p md => cases hop
  | endSuite p => cases hop
  | startSuiteSetup p =>
    simp only [step] at h; injection h with h; subst h
    exact phaseStart _ _ (by simpa [opFor] using hop) (by simpa [opFor, innerEv] using hop)
  | endSuiteSetup p => simp only [step] at h; exact phaseEnd _ _ (fun _ => by simp [opEv]) h
  | startSuiteTeardown p =>
    simp only [step] at h; injection h with h; subst h
    exact phaseStart _ _ (by simpa [opFor] using hop) (by simpa [opFor, innerEv] using hop)
  | endSuiteTeardown p => simp only [step] at h; exact phaseEnd _ _ (fun _ => by simp [opEv]) h
  | startTest p md =>
    simp only [step] at h; injection h with h; subst h
    refine ⟨?_, [.testStart p md s.now], rfl, by intro e he; simp at he; subst he; right; simp [opEv]⟩
    apply locInv_setCursor (s := fire (tick s) (.testStart p md s.now)) ⟨hinv.1, hinv.2⟩
    exact ⟨by simp [opFor] at hop; exact hop.symm, by intro e he; cases he⟩
  | endTest p =>
    simp only [step, withCursor] at h
    cases hc : getCursor s tid with
    | none => rw [hc] at h; cases h
    | some c =>
      rw [hc] at h; simp only at h; injection h with h; subst h
      have hcur := locInv_cur hinv hc
      have h1 := (hloc_endStepIfAny s tid c hcur).mono (Q' := fun e => innerEv L e = true ∨ opEv (.endTest p) e = true)
        (fun e he => Or.inl he)
      have h2 : HLoc L (fun e => innerEv L e = true ∨ opEv (.endTest p) e = true) (endStepIfAny s tid c).1
          (fire (tick (endStepIfAny s tid c).1) (.testEnd p (endStepIfAny s tid c).1.now)) (endStepIfAny s tid c).2 :=
        ⟨⟨[_], rfl, by intro e he; simp at he; subst he; right; simp [opEv]⟩, rfl, rfl, h1.cur⟩
      exact locInv_store tid hinv (h1.trans h2)
  | skipTest p md reason =>
    simp only [step] at h; injection h with h; subst h
    exact single _ (.testSkipped p md reason s.now) (by simp) (by simp) (by simp) (by simp [opEv])
  | disableTest p md reason =>
    simp only [step] at h; injection h with h; subst h; exact single _ _ rfl rfl rfl (by simp [opEv])
  | setStep d =>
    simp only [step, withCursor] at h
    cases hc : getCursor s tid with
    | none => rw [hc] at h; cases h
    | some c =>
      rw [hc] at h; simp only at h; injection h with h; subst h
      have hcur := locInv_cur hinv hc
      have h1 := (hloc_endStepIfAny s tid c hcur).mono (Q' := fun e => innerEv L e = true ∨ opEv (.setStep d) e = true)
        (fun e he => Or.inl he)
      have h2 : HLoc L (fun e => innerEv L e = true ∨ opEv (.setStep d) e = true) (endStepIfAny s tid c).1
          (tick (endStepIfAny s tid c).1)
          { loc := (endStepIfAny s tid c).2.loc, step := some d,
            pending := (endStepIfAny s tid c).2.pending ++
              [Event.stepStart (endStepIfAny s tid c).2.loc d tid (endStepIfAny s tid c).1.now] } := by
        refine ⟨⟨[], by simp, by intro e he; cases he⟩, rfl, rfl, h1.cur.1, ?_⟩
        intro e he
        rcases List.mem_append.mp he with he | he
        · exact h1.cur.2 e he
        · simp at he; subst he; simp [innerEv, h1.cur.1]
      exact locInv_store tid hinv (h1.trans h2)
  | endStep =>
    simp only [step, withCursor] at h
    cases hc : getCursor s tid with
    | none => rw [hc] at h; cases h
    | some c =>
      rw [hc] at h; simp only at h
      cases hst : c.step with
      | none => rw [hst] at h; cases h
      | some d => rw [hst] at h; simp only at h; injection h with h; exact endStepCase c hc h.symm
  | log level msg => simp only [step] at h; exact steppedCase s _ _ rfl rfl rfl (by simp [innerEv]) h
  | check d ok details => simp only [step] at h; exact steppedCase s _ _ rfl rfl rfl (by simp [innerEv]) h
  | url u d => simp only [step] at h; exact steppedCase s _ _ rfl rfl rfl (by simp [innerEv]) h
  | attach filename d asImage =>
    simp only [step] at h
    exact steppedCase { s with attachCount := s.attachCount + 1 } false
      (fun loc st t => Event.attachment loc st tid (attachName (s.attachCount + 1) filename) d asImage t)
      rfl rfl rfl (by simp [innerEv]) h
  | attachBegin filename d asImage =>
    simp only [step] at h; injection h with h; subst h
    exact ⟨locInv_of_eq hinv rfl rfl, [], by simp, by intro e he; cases he⟩
  | attachEnd =>
    simp only [step] at h
    cases hf : s.prepared.find? (fun p => p.tid == tid) with
    | none => rw [hf] at h; cases h
    | some p =>
      rw [hf] at h; simp only at h
      exact steppedCase { s with prepared := s.prepared.eraseP (fun p => p.tid == tid) } false
        (fun loc st t => Event.attachment loc st tid p.name p.description p.asImage t)
        rfl rfl rfl (by simp [innerEv]) h
  | threadCreate newTid =>
    simp only [step, withCursor] at h
    cases hc : getCursor s tid with
    | none => rw [hc] at h; cases h
    | some c =>
      rw [hc] at h; simp only at h
      split at h
      · cases h
      · injection h with h; subst h
        have hcur := locInv_cur hinv hc
        have key : ∀ (s1 : St) (c1 : Cursor), HLoc L (fun e => innerEv L e = true ∨ opEv (.threadCreate newTid) e = true) s s1 c1 →
            LocInv L { (setCursor s1 tid c1) with
                  saved := (newTid, { loc := c1.loc, step := none, pending := [] }, c1.step) ::
                           (setCursor s1 tid c1).saved.filter (fun p => p.1 != newTid) } ∧
            ∃ new, s1.fired = s.fired ++ new ∧ ∀ e ∈ new, innerEv L e = true ∨ opEv (.threadCreate newTid) e = true := by
          intro s1 c1 hh
          have h0 := locInv_store tid hinv hh
          refine ⟨⟨h0.1.1, ?_⟩, h0.2⟩
          intro p hp
          rcases List.mem_cons.mp hp with e1 | hp
          · subst e1; exact ⟨hh.cur.1, by intro e he; cases he⟩
          · exact h0.1.2 p (List.mem_filter.mp hp).1
        cases hpend : c.pending with
        | nil => simp only; exact key s c (HLoc.refl_of hcur rfl rfl rfl)
        | cons e rest =>
          simp only
          by_cases hss : isStepStart e = true
          · simp only [hss, if_true]; exact key s c (HLoc.refl_of hcur rfl rfl rfl)
          · simp only [hss]
            have he : innerEv L e = true := hcur.2 e (by rw [hpend]; simp)
            exact key (fire s e) { c with pending := rest }
              ⟨⟨[e], rfl, by intro x hx; simp at hx; subst hx; exact Or.inl he⟩, rfl, rfl, hcur.1,
                fun x hx => hcur.2 x (by rw [hpend]; exact List.mem_cons_of_mem _ hx)⟩
  | threadRun =>
    simp only [step] at h
    cases hf : s.saved.find? (fun p => p.1 == tid) with
    | none => rw [hf] at h; cases h
    | some p =>
      rw [hf] at h
      obtain ⟨t0, c, dflt⟩ := p
      simp only at h
      cases dflt with
      | none => cases h
      | some d =>
        simp only at h; injection h with h; subst h
        have hsv := hinv.2 _ (List.mem_of_find?_eq_some hf)
        simp only at hsv
        refine ⟨?_, [], by simp, by intro e he; cases he⟩
        apply locInv_setCursor
        · exact ⟨hinv.1, fun q hq => hinv.2 q (List.mem_filter.mp hq).1⟩
        · exact ⟨hsv.1, by intro e he; simp at he; subst he; simp [innerEv, hsv.1]⟩
  | threadEnd =>
    simp only [step, withCursor] at h
    cases hc : getCursor s tid with
    | none => rw [hc] at h; cases h
    | some c =>
      rw [hc] at h; simp only at h
      cases hst : c.step with
      | none => rw [hst] at h; cases h
      | some d => rw [hst] at h; simp only at h; injection h with h; exact endStepCase c hc h.symm

/-- inner ops fire inner events only -/
theorem step_inner {L : Loc} {s s' : St} {tid : Nat} {op : Op} (hinv : LocInv L s) (hop : op.inner = true)
    (h : step s tid op = .ok s') :
    LocInv L s' ∧ ∃ new, s'.fired = s.fired ++ new ∧ ∀ e ∈ new, innerEv L e = true := by
  obtain ⟨h1, new, h2, h3⟩ := step_loc hinv (opFor_inner hop L) h
  refine ⟨h1, new, h2, fun e he => ?_⟩
  rcases h3 e he with h | h
  · exact h
  · rw [opEv_inner hop] at h; cases h


/-! ### The task's own terminal events -/

/-- the bracketing events of location `L` other than the held phase start: start/end/skipped/disabled of
    the test, the end event of the setup/teardown phase -/
def termEv (L : Loc) : Event → Bool
  | .sessionSetupEnd _ => L == .sessionSetup
  | .sessionTeardownEnd _ => L == .sessionTeardown
  | .suiteSetupEnd p _ => L == .suiteSetup p
  | .suiteTeardownEnd p _ => L == .suiteTeardown p
  | .testStart p _ _ => L == .test p
  | .testEnd p _ => L == .test p
  | .testSkipped p _ _ _ => L == .test p
  | .testDisabled p _ _ _ => L == .test p
  | _ => false

/-- an event of the task working at `L`: it carries location `L`, or it is the start/end/skipped/disabled
    event of `L` itself -/
def ownEv (L : Loc) (e : Event) : Bool := innerEv L e || termEv L e

theorem termEv_of_opEv {L : Loc} {op : Op} {e : Event} (h1 : opFor L op = true) (h2 : opEv op e = true) :
    termEv L e = true := by
  cases op <;> cases e <;> simp [opEv] at h2 <;> simp_all [opFor, termEv]

/-- a call of a task working at `L` fires events of `L` only -/
theorem step_own {L : Loc} {s s' : St} {tid : Nat} {op : Op} (hinv : LocInv L s) (hop : opFor L op = true)
    (h : step s tid op = .ok s') :
    LocInv L s' ∧ ∃ new, s'.fired = s.fired ++ new ∧ ∀ e ∈ new, ownEv L e = true := by
  obtain ⟨h1, new, h2, h3⟩ := step_loc hinv hop h
  refine ⟨h1, new, h2, fun e he => ?_⟩
  unfold ownEv
  rcases h3 e he with h | h
  · simp [h]
  · simp [termEv_of_opEv hop h]

/-! ### Cursors are never removed -/

theorem discardOrFire_cursors (s : St) (c : Cursor) (isC : Event → Bool) (e : Event) :
    (discardOrFire s c isC e).1.cursors = s.cursors := by
  unfold discardOrFire
  cases c.pending.getLast? with
  | none => rfl
  | some last => simp only; split <;> rfl

theorem endStepIfAny_cursors (s : St) (tid : Nat) (c : Cursor) : (endStepIfAny s tid c).1.cursors = s.cursors :=
  (helper_endStepIfAny s tid c).cursors

theorem getCursor_isSome_setCursor {s s1 : St} (h : s1.cursors = s.cursors) (t : Nat) (c : Cursor) (a : Nat)
    (ha : (getCursor s a).isSome = true) : (getCursor (setCursor s1 t c) a).isSome = true := by
  rw [getCursor_setCursor]
  by_cases e : a = t
  · simp [e]
  · simp only [e, if_false]; rw [getCursor_congr h]; exact ha

/-- a thread that has a cursor keeps one, whatever any thread does -/
theorem step_hasCursor {s s' : St} {tid : Nat} {op : Op} (a : Nat) (ha : (getCursor s a).isSome = true)
    (h : step s tid op = .ok s') : (getCursor s' a).isSome = true := by
  have same : ∀ s1 : St, s1.cursors = s.cursors → (getCursor s1 a).isSome = true := by
    intro s1 h1; rw [getCursor_congr h1]; exact ha
  have viaEndPhase : ∀ (isC : Event → Bool) (mk : Nat → Event), endPhase s tid isC mk = .ok s' →
      (getCursor s' a).isSome = true := by
    intro isC mk h
    unfold endPhase withCursor at h
    cases hc : getCursor s tid with
    | none => rw [hc] at h; cases h
    | some c =>
      rw [hc] at h; simp only at h; injection h with h; subst h
      exact getCursor_isSome_setCursor (by rw [discardOrFire_cursors]; exact endStepIfAny_cursors s tid c) _ _ _ ha
  have viaStepped : ∀ (s0 : St) (failing : Bool) (mk : Loc → Option String → Nat → Event),
      s0.cursors = s.cursors → stepped s0 tid failing mk = .ok s' → (getCursor s' a).isSome = true := by
    intro s0 failing mk h0 h
    unfold stepped withCursor at h
    cases hc : getCursor s0 tid with
    | none => rw [hc] at h; cases h
    | some c =>
      rw [hc] at h; simp only at h; injection h with h; subst h
      refine getCursor_isSome_setCursor ?_ _ _ _ ha
      cases failing <;> simp [flush, h0]
  have viaEndStep : ∀ c, s' = setCursor (endStepIfAny s tid c).1 tid (endStepIfAny s tid c).2 →
      (getCursor s' a).isSome = true := by
    intro c hs; subst hs
    exact getCursor_isSome_setCursor (endStepIfAny_cursors s tid c) _ _ _ ha
  cases op with
  | startTestSession => simp only [step] at h; injection h with h; subst h; exact same _ rfl
  | endTestSession => simp only [step] at h; injection h with h; subst h; exact same _ rfl
  | startSessionSetup =>
    simp only [step, startPhase] at h; injection h with h; subst h
    exact getCursor_isSome_setCursor (s := s) rfl _ _ _ ha
  | endSessionSetup => simp only [step] at h; exact viaEndPhase _ _ h
  | startSessionTeardown =>
    simp only [step, startPhase] at h; injection h with h; subst h
    exact getCursor_isSome_setCursor (s := s) rfl _ _ _ ha
  | endSessionTeardown => simp only [step] at h; exact viaEndPhase _ _ h
  | startSuite p md => simp only [step] at h; injection h with h; subst h; exact same _ rfl
  | endSuite p => simp only [step] at h; injection h with h; subst h; exact same _ rfl
  | startSuiteSetup p =>
    simp only [step, startPhase] at h; injection h with h; subst h
    exact getCursor_isSome_setCursor (s := s) rfl _ _ _ ha
  | endSuiteSetup p => simp only [step] at h; exact viaEndPhase _ _ h
  | startSuiteTeardown p =>
    simp only [step, startPhase] at h; injection h with h; subst h
    exact getCursor_isSome_setCursor (s := s) rfl _ _ _ ha
  | endSuiteTeardown p => simp only [step] at h; exact viaEndPhase _ _ h
  | startTest p md =>
    simp only [step] at h; injection h with h; subst h
    exact getCursor_isSome_setCursor (s := s) rfl _ _ _ ha
  | endTest p =>
    simp only [step, withCursor] at h
    cases hc : getCursor s tid with
    | none => rw [hc] at h; cases h
    | some c =>
      rw [hc] at h; simp only at h; injection h with h; subst h
      exact getCursor_isSome_setCursor (endStepIfAny_cursors s tid c) _ _ _ ha
  | skipTest p md reason => simp only [step] at h; injection h with h; subst h; exact same _ (by simp)
  | disableTest p md reason => simp only [step] at h; injection h with h; subst h; exact same _ rfl
  | setStep d =>
    simp only [step, withCursor] at h
    cases hc : getCursor s tid with
    | none => rw [hc] at h; cases h
    | some c =>
      rw [hc] at h; simp only at h; injection h with h; subst h
      exact getCursor_isSome_setCursor (endStepIfAny_cursors s tid c) _ _ _ ha
  | endStep =>
    simp only [step, withCursor] at h
    cases hc : getCursor s tid with
    | none => rw [hc] at h; cases h
    | some c =>
      rw [hc] at h; simp only at h
      cases hst : c.step with
      | none => rw [hst] at h; cases h
      | some d => rw [hst] at h; simp only at h; injection h with h; exact viaEndStep c h.symm
  | log level msg => simp only [step] at h; exact viaStepped s _ _ rfl h
  | check d ok details => simp only [step] at h; exact viaStepped s _ _ rfl h
  | url u d => simp only [step] at h; exact viaStepped s _ _ rfl h
  | attach filename d asImage =>
    simp only [step] at h
    exact viaStepped { s with attachCount := s.attachCount + 1 } false
      (fun loc st t => Event.attachment loc st tid (attachName (s.attachCount + 1) filename) d asImage t) rfl h
  | attachBegin filename d asImage => simp only [step] at h; injection h with h; subst h; exact same _ rfl
  | attachEnd =>
    simp only [step] at h
    cases hf : s.prepared.find? (fun p => p.tid == tid) with
    | none => rw [hf] at h; cases h
    | some p =>
      rw [hf] at h; simp only at h
      exact viaStepped { s with prepared := s.prepared.eraseP (fun p => p.tid == tid) } false
        (fun loc st t => Event.attachment loc st tid p.name p.description p.asImage t) rfl h
  | threadCreate newTid =>
    simp only [step, withCursor] at h
    cases hc : getCursor s tid with
    | none => rw [hc] at h; cases h
    | some c =>
      rw [hc] at h; simp only at h
      split at h
      · cases h
      · injection h with h; subst h
        cases hpend : c.pending with
        | nil => simp only; exact getCursor_isSome_setCursor (s := s) rfl _ _ _ ha
        | cons e rest =>
          simp only
          split
          · exact getCursor_isSome_setCursor (s := s) rfl _ _ _ ha
          · exact getCursor_isSome_setCursor (s := s) (s1 := fire s e) rfl _ _ _ ha
  | threadRun =>
    simp only [step] at h
    cases hf : s.saved.find? (fun p => p.1 == tid) with
    | none => rw [hf] at h; cases h
    | some p =>
      rw [hf] at h
      obtain ⟨t0, c, dflt⟩ := p
      simp only at h
      cases dflt with
      | none => cases h
      | some d =>
        simp only at h; injection h with h; subst h
        exact getCursor_isSome_setCursor (s := s) rfl _ _ _ ha
  | threadEnd =>
    simp only [step, withCursor] at h
    cases hc : getCursor s tid with
    | none => rw [hc] at h; cases h
    | some c =>
      rw [hc] at h; simp only at h
      cases hst : c.step with
      | none => rw [hst] at h; cases h
      | some d => rw [hst] at h; simp only at h; injection h with h; exact viaEndStep c h.symm

/-! ### Exact shapes of the bracketing calls -/

theorem step_startTest (s : St) (tid : Nat) (p : Path) (md : Meta) :
    ∃ s', step s tid (.startTest p md) = .ok s' ∧ s'.fired = s.fired ++ [.testStart p md s.now] ∧
      (getCursor s' tid).isSome = true :=
  ⟨_, rfl, rfl, by rw [getCursor_setCursor]; simp⟩

/-- `end_test` by a thread that has a cursor: at most the end of the open step, then exactly one `testEnd` -/
theorem step_endTest {L : Loc} {s : St} {tid : Nat} (p : Path) (hinv : LocInv L s)
    (hc : (getCursor s tid).isSome = true) :
    ∃ s' pre t, step s tid (.endTest p) = .ok s' ∧ s'.fired = s.fired ++ pre ++ [.testEnd p t] ∧
      ∀ e ∈ pre, innerEv L e = true := by
  cases hg : getCursor s tid with
  | none => rw [hg] at hc; cases hc
  | some c =>
    have hcur := locInv_cur hinv hg
    obtain ⟨pre, hpre, hq⟩ := (hloc_endStepIfAny s tid c hcur).ext
    refine ⟨setCursor (fire (tick (endStepIfAny s tid c).1) (.testEnd p (endStepIfAny s tid c).1.now)) tid
        (endStepIfAny s tid c).2, pre, (endStepIfAny s tid c).1.now, by simp only [step, withCursor, hg], ?_, hq⟩
    simp [hpre]

end LccModel.Session

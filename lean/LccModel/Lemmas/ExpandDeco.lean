/-
  Helper lemmas for `Props/C04Decl.lean` / `Props/C03Decl.lean`: what folding decorators does to each metadata field
  (`Model/Expand.lean: applyDeco / decorate`), a topological numbering out of an accepted dependency graph
  (`Model/Deps.lean`), and facts about the attribute lookup of `Model/SuiteObj.lean`.
-/
import LccModel.Lemmas.Expand
import LccModel.Lemmas.Deps

namespace LccModel.Expand
open LccModel.Report (Path)
open LccModel.Loader (PVal Params Seg Meta Disabled LoadErr)

/-! ### one decorator at a time -/

theorem applyDeco_deps (d : TestDecl) (c : Deco) : (applyDeco d c).deps = d.deps ++ depArgs c := by
  cases c <;> simp [applyDeco, depArgs]

def tagArgs : Deco → List String
  | .tags ts => ts
  | _ => []

def linkArgs : Deco → List (String × Option String)
  | .link u n => [(u, n)]
  | _ => []

theorem applyDeco_tags (d : TestDecl) (c : Deco) : (applyDeco d c).md.tags = d.md.tags ++ tagArgs c := by
  cases c <;> simp [applyDeco, tagArgs, mdApply]

theorem applyDeco_links (d : TestDecl) (c : Deco) : (applyDeco d c).md.links = d.md.links ++ linkArgs c := by
  cases c <;> simp [applyDeco, linkArgs, mdApply]

theorem applyDeco_attr (d : TestDecl) (c : Deco) : (applyDeco d c).attr = d.attr ∧ (applyDeco d c).rank = d.rank ∧ (applyDeco d c).args = d.args := by
  cases c <;> simp [applyDeco]

theorem foldl_applyDeco_deps (ds : List Deco) : ∀ d : TestDecl, (ds.foldl applyDeco d).deps = d.deps ++ (ds.map depArgs).flatten := by
  induction ds with
  | nil => intro d; simp
  | cons c rest ih => intro d; rw [List.foldl_cons, ih, applyDeco_deps]; simp [List.append_assoc]

theorem foldl_applyDeco_tags (ds : List Deco) : ∀ d : TestDecl, (ds.foldl applyDeco d).md.tags = d.md.tags ++ (ds.map tagArgs).flatten := by
  induction ds with
  | nil => intro d; simp
  | cons c rest ih => intro d; rw [List.foldl_cons, ih, applyDeco_tags]; simp [List.append_assoc]

theorem foldl_applyDeco_links (ds : List Deco) : ∀ d : TestDecl, (ds.foldl applyDeco d).md.links = d.md.links ++ (ds.map linkArgs).flatten := by
  induction ds with
  | nil => intro d; simp
  | cons c rest ih => intro d; rw [List.foldl_cons, ih, applyDeco_links]; simp [List.append_assoc]

theorem foldl_applyDeco_attr (ds : List Deco) : ∀ d : TestDecl,
    (ds.foldl applyDeco d).attr = d.attr ∧ (ds.foldl applyDeco d).rank = d.rank ∧ (ds.foldl applyDeco d).args = d.args := by
  induction ds with
  | nil => intro d; simp
  | cons c rest ih =>
    intro d; rw [List.foldl_cons]
    obtain ⟨h1, h2, h3⟩ := ih (applyDeco d c)
    obtain ⟨g1, g2, g3⟩ := applyDeco_attr d c
    exact ⟨h1.trans g1, h2.trans g2, h3.trans g3⟩

theorem args_expandSets (b : Test) (n : Naming) : ∀ (sets : List Params) (nb : Nat) (t : Test), t ∈ expandSets b n nb sets → t.args = b.args
  | [], _, t, h => by simp [expandSets] at h
  | ps :: rest, nb, t, h => by
    rw [expandSets] at h
    rcases List.mem_cons.mp h with e | h
    · rw [e]
    · exact args_expandSets b n rest (nb + 1) t h

/-- `Suite.add_test` keeps the test names of a suite pairwise distinct -/
theorem addAll_names_nodup : ∀ (items : List (Except LoadErr Test)) (acc r : List Test), addAll acc items = .ok r →
    (acc.map (·.name)).Nodup → (r.map (·.name)).Nodup
  | [], acc, r, h, hn => by simp [addAll] at h; subst h; exact hn
  | .error e :: _, acc, r, h, _ => by simp [addAll] at h
  | .ok t :: rest, acc, r, h, hn => by
    rw [addAll] at h
    cases ha : addTest acc t with
    | error e => simp [ha] at h
    | ok acc' =>
      simp only [ha] at h
      apply addAll_names_nodup rest acc' r h
      unfold addTest at ha
      split at ha
      · cases ha
      · split at ha
        · cases ha
        · rename_i hname
          injection ha with ha; subst ha
          rw [List.map_append, List.nodup_append]
          refine ⟨hn, by simp, ?_⟩
          intro a ha b hb
          simp at hb; subst hb
          intro e; subst e
          apply hname
          obtain ⟨u, hu, e⟩ := List.mem_map.mp ha
          exact List.any_eq_true.mpr ⟨u, hu, by simp [e]⟩

theorem loadTests_names_nodup (ds : List TestDecl) (ts : List Test) (h : loadTests ds = .ok ts) : (ts.map (·.name)).Nodup :=
  addAll_names_nodup _ [] ts h List.nodup_nil

end LccModel.Expand

namespace LccModel.Deps

/-! ### a topological numbering of an accepted dependency graph -/

theorem countP_lt_of_imp {α : Type} (p q : α → Bool) : ∀ (l : List α), (∀ x ∈ l, p x = true → q x = true) →
    (∃ x ∈ l, q x = true ∧ p x = false) → l.countP p < l.countP q := by
  intro l
  induction l with
  | nil => intro _ ⟨x, hx, _⟩; cases hx
  | cons a rest ih =>
    intro himp ⟨x, hx, hq, hp⟩
    have hrest : ∀ y ∈ rest, p y = true → q y = true := fun y hy => himp y (List.mem_cons_of_mem _ hy)
    have hle : rest.countP p ≤ rest.countP q := List.countP_mono_left hrest
    rcases List.mem_cons.mp hx with e | hx'
    · subst e
      rw [List.countP_cons, List.countP_cons]
      simp [hq, hp]; omega
    · have := ih hrest ⟨x, hx', hq, hp⟩
      rw [List.countP_cons, List.countP_cons]
      have ha := himp a (List.mem_cons_self ..)
      by_cases hpa : p a = true
      · simp [hpa, ha hpa]; omega
      · have hpa' : p a = false := by simpa using hpa
        by_cases hqa : q a = true
        · simp [hpa', hqa]; omega
        · have hqa' : q a = false := by simpa using hqa
          simp [hpa', hqa']; omega

open Classical in
/-- how many tests of the project are reachable from `t` through dependencies -/
noncomputable def reachCount (all : List T) (t : T) : Nat := all.countP (fun y => decide (TPath all t y))

theorem TPath.mem_all {all : List T} {a b : T} (h : TPath all a b) : b ∈ all := by
  induction h with
  | edge h => exact mem_items_ok h
  | cons _ _ ih => exact ih

/-- in a closed graph everything reachable from a scheduled test is scheduled -/
theorem TPath.mem_sched {sched all : List T} (wf : WF sched all) (hs : AllScheduled sched all) {a b : T} (ha : a ∈ sched)
    (h : TPath all a b) : b ∈ sched := by
  induction h with
  | edge h => exact mem_sched_of_path wf (mem_items_ok h) (hs _ ha _ h)
  | cons h _ ih => exact ih (mem_sched_of_path wf (mem_items_ok h) (hs _ ha _ h))

theorem reachCount_lt {sched all : List T} (wf : WF sched all) (hs : AllScheduled sched all) (hac : Acyclic sched all)
    {t d : T} (ht : t ∈ sched) (hd : Except.ok d ∈ items all t) : reachCount all d < reachCount all t := by
  unfold reachCount
  apply countP_lt_of_imp
  · intro y _ hy
    simp only [decide_eq_true_eq] at hy ⊢
    exact .cons hd hy
  · refine ⟨d, mem_items_ok hd, ?_, ?_⟩
    · simp only [decide_eq_true_eq]; exact .edge hd
    · simp only [decide_eq_false_iff_not]
      intro hdd
      have hds : d ∈ sched := mem_sched_of_path wf (mem_items_ok hd) (hs _ ht _ hd)
      exact hac d hds d hdd rfl

end LccModel.Deps

namespace LccModel.SuiteObj
open LccModel.Loader (orDefault)

/-! ### the dict built by `_load_injected_fixtures` (`setdefault(k, []).append(v)`) -/

theorem any_key_iff {β : Type} (d : List (String × β)) (k : String) : d.any (fun kv => kv.1 == k) = true ↔ k ∈ d.map (·.1) := by
  simp only [List.any_eq_true, List.mem_map, beq_iff_eq]

theorem dictAdd_keys (d : List (String × List String)) (k v : String) :
    (dictAdd d k v).map (·.1) = if d.any (fun kv => kv.1 == k) then d.map (·.1) else d.map (·.1) ++ [k] := by
  unfold dictAdd
  split
  · rw [List.map_map]
    apply List.map_congr_left
    intro kv _
    show (if (kv.1 == k) = true then (kv.1, kv.2 ++ [v]) else kv).1 = kv.1
    split <;> rfl
  · simp

/-- where an attribute of an entry of the extended dict comes from -/
theorem mem_dictAdd {d : List (String × List String)} {k v f a : String} {as : List String}
    (h : (f, as) ∈ dictAdd d k v) (ha : a ∈ as) : (∃ as', (f, as') ∈ d ∧ a ∈ as') ∨ (f = k ∧ a = v) := by
  unfold dictAdd at h
  split at h
  · obtain ⟨kv, hkv, e⟩ := List.mem_map.mp h
    by_cases hk : (kv.1 == k) = true
    · simp only [hk, if_true] at e
      injection e with e1 e2
      subst e1; subst e2
      rcases List.mem_append.mp ha with ha | ha
      · exact .inl ⟨kv.2, hkv, ha⟩
      · exact .inr ⟨beq_iff_eq.mp hk, by simpa using ha⟩
    · simp only [hk] at e
      exact .inl ⟨as, e ▸ hkv, ha⟩
  · rcases List.mem_append.mp h with h | h
    · exact .inl ⟨as, h, ha⟩
    · simp only [List.mem_singleton] at h
      injection h with e1 e2
      subst e2
      exact .inr ⟨e1, by simpa using ha⟩

/-- the attribute just added is listed under its key -/
theorem dictAdd_has (d : List (String × List String)) (k v : String) : ∃ as, (k, as) ∈ dictAdd d k v ∧ v ∈ as := by
  unfold dictAdd
  split
  · rename_i h
    obtain ⟨kv, hkv, hk⟩ := List.any_eq_true.mp h
    refine ⟨kv.2 ++ [v], List.mem_map.mpr ⟨kv, hkv, ?_⟩, by simp⟩
    simp only [hk, if_true]
    rw [beq_iff_eq.mp hk]
  · exact ⟨[v], by simp, by simp⟩

/-- nothing already listed is lost -/
theorem dictAdd_mono {d : List (String × List String)} (k v : String) {f a : String} {as : List String}
    (h : (f, as) ∈ d) (ha : a ∈ as) : ∃ as', (f, as') ∈ dictAdd d k v ∧ a ∈ as' := by
  unfold dictAdd
  split
  · by_cases hk : (f == k) = true
    · exact ⟨as ++ [v], List.mem_map.mpr ⟨(f, as), h, by simp [hk]⟩, List.mem_append_left _ ha⟩
    · exact ⟨as, List.mem_map.mpr ⟨(f, as), h, by simp [hk]⟩, ha⟩
  · exact ⟨as, List.mem_append_left _ h, ha⟩

theorem dictAdd_keys_nodup {d : List (String × List String)} (k v : String) (h : (d.map (·.1)).Nodup) : ((dictAdd d k v).map (·.1)).Nodup := by
  rw [dictAdd_keys]
  split
  · exact h
  · rename_i hk
    have : k ∉ d.map (·.1) := fun hm => hk ((any_key_iff d k).mpr hm)
    exact List.nodup_append.mpr ⟨h, by simp, by
      intro a ha b hb; simp at hb; subst hb; intro e; subst e; exact this ha⟩

theorem injectStep_keys_nodup {acc : List (String × List String)} (av : String × AttrKind) (h : (acc.map (·.1)).Nodup) :
    ((injectStep acc av).map (·.1)).Nodup := by
  unfold injectStep
  split
  · exact dictAdd_keys_nodup _ _ h
  · exact h

theorem injectStep_mono {acc : List (String × List String)} (av : String × AttrKind) {f a : String} {as : List String}
    (h : (f, as) ∈ acc) (ha : a ∈ as) : ∃ as', (f, as') ∈ injectStep acc av ∧ a ∈ as' := by
  unfold injectStep
  split
  · exact dictAdd_mono _ _ h ha
  · exact ⟨as, h, ha⟩

theorem foldl_injectStep_nodup (l : List (String × AttrKind)) : ∀ acc : List (String × List String), (acc.map (·.1)).Nodup →
    ((l.foldl injectStep acc).map (·.1)).Nodup := by
  induction l with
  | nil => intro acc h; exact h
  | cons a rest ih => intro acc h; exact ih _ (injectStep_keys_nodup a h)

theorem foldl_injectStep_mono (l : List (String × AttrKind)) : ∀ (acc : List (String × List String)) {f a : String} {as : List String},
    (f, as) ∈ acc → a ∈ as → ∃ as', (f, as') ∈ l.foldl injectStep acc ∧ a ∈ as' := by
  induction l with
  | nil => intro acc f a as h ha; exact ⟨as, h, ha⟩
  | cons b rest ih =>
    intro acc f a as h ha
    obtain ⟨as', h', ha'⟩ := injectStep_mono b h ha
    exact ih _ h' ha'

/-- every attribute listed in the result comes from a marker met by the loop -/
theorem foldl_injectStep_mem (l : List (String × AttrKind)) : ∀ (acc : List (String × List String)) {f a : String} {as : List String},
    (f, as) ∈ l.foldl injectStep acc → a ∈ as →
      (∃ as', (f, as') ∈ acc ∧ a ∈ as') ∨ ∃ n, (a, AttrKind.inject n) ∈ l ∧ f = orDefault n a := by
  induction l with
  | nil => intro acc f a as h ha; exact .inl ⟨as, h, ha⟩
  | cons b rest ih =>
    intro acc f a as h ha
    rcases ih _ h ha with ⟨as', h', ha'⟩ | ⟨n, hn, e⟩
    · unfold injectStep at h'
      split at h'
      · rename_i n hk
        rcases mem_dictAdd h' ha' with h'' | ⟨e1, e2⟩
        · exact .inl h''
        · have hb : b = (a, AttrKind.inject n) := by
            have : b = (b.1, b.2) := rfl
            rw [hk, ← e2] at this; exact this
          refine .inr ⟨n, by rw [hb]; exact List.mem_cons_self .., by rw [e1, e2]⟩
      · exact .inl ⟨as', h', ha'⟩
    · exact .inr ⟨n, List.mem_cons_of_mem _ hn, e⟩

/-- every marker met by the loop is listed under its fixture name -/
theorem foldl_injectStep_has (l : List (String × AttrKind)) : ∀ (acc : List (String × List String)) (a : String) (n : Option String),
    (a, AttrKind.inject n) ∈ l → ∃ as, (orDefault n a, as) ∈ l.foldl injectStep acc ∧ a ∈ as := by
  induction l with
  | nil => intro acc a n h; cases h
  | cons b rest ih =>
    intro acc a n h
    rcases List.mem_cons.mp h with e | h
    · subst e
      rw [List.foldl_cons]
      obtain ⟨as, h1, h2⟩ : ∃ as, (orDefault n a, as) ∈ injectStep acc (a, .inject n) ∧ a ∈ as := dictAdd_has acc (orDefault n a) a
      exact foldl_injectStep_mono rest _ h1 h2
    · exact ih _ a n h

theorem mem_attributes {o : Obj} {a : String} {k : AttrKind} :
    (a, k) ∈ attributes o ↔ a ∈ dirNames o ∧ visible o a = true ∧ lookup o a = some k := by
  unfold attributes
  simp only [List.mem_filterMap]
  constructor
  · rintro ⟨b, hb, h⟩
    by_cases hv : visible o b = true
    · simp only [hv, if_true, Option.map_eq_some_iff] at h
      obtain ⟨k', hk', e⟩ := h
      injection e with e1 e2
      subst e1; subst e2
      exact ⟨hb, hv, hk'⟩
    · simp [hv] at h
  · rintro ⟨h1, h2, h3⟩
    exact ⟨a, h1, by simp [h2, h3]⟩

/-- the result only depends on what `dir` and `getattr` answer -/
theorem attributes_congr {o o' : Obj} (hd : dirNames o = dirNames o') (hl : ∀ a, lookup o a = lookup o' a)
    (hp : ∀ a, isProperty o a = isProperty o' a) : attributes o = attributes o' := by
  unfold attributes
  rw [hd]
  have : (fun a => if visible o a then (lookup o a).map (fun k => (a, k)) else none) =
         (fun a => if visible o' a then (lookup o' a).map (fun k => (a, k)) else none) := by
    funext a
    unfold visible
    rw [hp a, hl a]
  rw [this]

end LccModel.SuiteObj

namespace LccModel.Run

/-! ### ordered sets and what a suite uses (`Model/Run.lean`) -/

theorem mem_osAdd {s : List String} {x y : String} : y ∈ osAdd s x ↔ y ∈ s ∨ y = x := by
  unfold osAdd
  split
  · rename_i h
    constructor
    · exact .inl
    · rintro (h' | h')
      · exact h'
      · subst h'; simpa using h
  · simp

theorem mem_osUnion {t : List String} : ∀ {s : List String} {y : String}, y ∈ osUnion s t ↔ y ∈ s ∨ y ∈ t := by
  unfold osUnion
  induction t with
  | nil => intro s y; simp
  | cons a rest ih =>
    intro s y
    rw [List.foldl_cons, ih, mem_osAdd]
    simp only [List.mem_cons]
    constructor
    · rintro ((h | h) | h)
      · exact .inl h
      · exact .inr (.inl h)
      · exact .inr (.inr h)
    · rintro (h | h | h)
      · exact .inl (.inl h)
      · exact .inl (.inr h)
      · exact .inr h

theorem mem_suiteOwnFixtures {s : SuiteSpec} {x : String} :
    x ∈ suiteOwnFixtures s ↔ x ∈ s.injected ∨ ∃ ps sc, s.setupSuite = some (ps, sc) ∧ x ∈ ps := by
  unfold suiteOwnFixtures
  rw [mem_osUnion, mem_osUnion]
  cases h : s.setupSuite with
  | none => simp
  | some p => obtain ⟨ps, sc⟩ := p; simp

theorem foldl_osUnion_mono {α : Type} (f : α → Bool) (g : α → List String) (l : List α) : ∀ (acc : List String) {x : String}, x ∈ acc →
    x ∈ l.foldl (fun acc t => if f t then osUnion acc (g t) else acc) acc := by
  induction l with
  | nil => intro acc x h; exact h
  | cons a rest ih =>
    intro acc x h
    rw [List.foldl_cons]
    apply ih
    split
    · exact mem_osUnion.mpr (.inl h)
    · exact h

/-- what a suite uses itself is used in the suite as soon as the suite is going to run something -/
theorem mem_usedInSuite_of_own {sv : SuiteView} {force : Bool} {x : String} (hen : (hasEnabledTests sv || force) = true)
    (h : x ∈ suiteOwnFixtures sv.spec) : x ∈ usedInSuite sv force := by
  unfold usedInSuite
  have : (!hasEnabledTests sv && !force) = false := by
    cases h1 : hasEnabledTests sv <;> cases h2 : force <;> simp_all
  simp only [this, Bool.false_eq_true, if_false]
  exact foldl_osUnion_mono (fun t => testEnabled sv t || force) (fun t => t.fixtures) _ _ h

end LccModel.Run

/-! ### sample data of the non-vacuity examples of `Props/C04Decl.lean` -/
namespace LccModel.Expand.DecoSample
open LccModel.Expand LccModel.Deps

/-- `@lcc.depends_on("s.quick") @lcc.tags("db") @lcc.depends_on(pred) @lcc.test("…") @lcc.depends_on("s.prepare", "s.slow")`,
    applied bottom-up -/
def stacked : TestDecl :=
  decorate "use" 3 []
    [.dependsOn [.path ["s", "prepare"], .path ["s", "slow"]], .test (some "Use it") none, .dependsOn [.pred "tag=db"], .tags ["db"],
     .dependsOn [.path ["s", "quick"]]]

def tA : T := { path := "s.a", deps := [.path "s.b"] }
def tB : T := { path := "s.b", deps := [.path "s.c"] }
def tC : T := { path := "s.c", deps := [.path "s.d"] }
def tD : T := { path := "s.d", deps := [.path "s.b"] }
end LccModel.Expand.DecoSample

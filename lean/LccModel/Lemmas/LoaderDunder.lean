/-
  Helper lemmas for C13, layer 8: on layouts without `__…`-named class members the real entry points
  (`load…Real`, which drop those members as `get_object_attributes` does) coincide with the core model.
-/
import LccModel.Lemmas.LoaderSpecFacts

namespace LccModel.Loader

theorem filter_eq_self_of_all {p : α → Bool} : ∀ {l : List α}, l.all p = true → l.filter p = l
  | [], _ => rfl
  | a :: as, h => by
    simp only [List.all_cons, Bool.and_eq_true] at h
    simp [h.1, filter_eq_self_of_all h.2]

mutual
theorem stripCls_eq_self : ∀ (c : Cls), noDunderCls c = true → stripCls c = c
  | .mk h tests subs, hnd => by
    simp only [noDunderCls, Bool.and_eq_true] at hnd
    simp only [stripCls, filter_eq_self_of_all hnd.1, stripMembers_eq_self subs hnd.2]
theorem stripMembers_eq_self : ∀ (cs : List Cls), noDunderMembers cs = true → stripMembers cs = cs
  | [], _ => rfl
  | c :: cs, hnd => by
    simp only [noDunderMembers, Bool.and_eq_true, Bool.not_eq_true'] at hnd
    simp only [stripMembers, hnd.1.1, Bool.false_eq_true, if_false, stripCls_eq_self c hnd.1.2,
      stripMembers_eq_self cs hnd.2]
end

theorem stripTop_eq_self : ∀ (cs : List Cls), noDunderTop cs = true → stripTop cs = cs
  | [], _ => rfl
  | c :: cs, hnd => by
    simp only [noDunderTop, Bool.and_eq_true] at hnd
    simp only [stripTop, stripCls_eq_self c hnd.1, stripTop_eq_self cs hnd.2]

theorem stripModules_eq_self : ∀ (ms : List Module), noDunderModules ms = true → stripModules ms = ms
  | [], _ => rfl
  | m :: ms, hnd => by
    simp only [noDunderModules, Bool.and_eq_true] at hnd
    simp only [stripModules, stripModule, stripTop_eq_self _ hnd.1, stripModules_eq_self ms hnd.2]

mutual
theorem stripDir_eq_self : ∀ (d : Dir), noDunderDir d = true → stripDir d = d
  | .mk n mods dirs, hnd => by
    simp only [noDunderDir, Bool.and_eq_true] at hnd
    simp only [stripDir, stripModules_eq_self mods hnd.1, stripDirs_eq_self dirs hnd.2]
theorem stripDirs_eq_self : ∀ (ds : List Dir), noDunderDirs ds = true → stripDirs ds = ds
  | [], _ => rfl
  | d :: ds, hnd => by
    simp only [noDunderDirs, Bool.and_eq_true] at hnd
    simp only [stripDirs, stripDir_eq_self d hnd.1, stripDirs_eq_self ds hnd.2]
end

end LccModel.Loader

/-
  Facts about `Model/LocaleFile.lean`: the three concrete codecs are ASCII-transparent, an ASCII text survives any pair of
  ASCII-transparent codecs, and the account of a report (tests with paths and statuses, suites) is not changed by the
  normalisations a save → load round trip performs (`Serial.loaded`: children sorted by rank, ranks cleared).
-/
import LccModel.Model.LocaleFile
import LccModel.Lemmas.JsonRender
import LccModel.Lemmas.Serial
import LccModel.Lemmas.Sort

namespace LccModel.LocaleFile
open LccModel.Report LccModel.Writer LccModel.JsonFile LccModel.Serial

/-! ### codecs -/

theorem encode_isSome (e : Encoding) (t : List Nat) : (encode e t).isSome = writeOk e t := by
  unfold encode
  cases writeOk e t <;> simp

theorem encode_eq_none (e : Encoding) (t : List Nat) : encode e t = none ↔ writeOk e t = false := by
  unfold encode
  cases writeOk e t <;> simp

theorem bytesOf_ascii (e : Encoding) {x : Nat} (h : x < 128) : bytesOf e x = [x] := by
  cases e <;> simp [bytesOf, h]

theorem flatMap_bytesOf_ascii (e : Encoding) : ∀ t : List Nat, IsAscii t → t.flatMap (bytesOf e) = t
  | [], _ => rfl
  | x :: t, h => by
    have hx : x < 128 := h x (by simp)
    have ht : IsAscii t := fun y hy => h y (by simp [hy])
    simp [List.flatMap_cons, bytesOf_ascii e hx, flatMap_bytesOf_ascii e t ht]

theorem encode_ascii (e : Encoding) {t : List Nat} (h : IsAscii t) : encode e t = some t := by
  unfold encode
  rw [writeOk_of_ascii e h, if_pos rfl, flatMap_bytesOf_ascii e t h]

theorem utf8Dec_ascii : ∀ t : List Nat, IsAscii t → utf8DecAux 0 0 0 t = some t
  | [], _ => by simp [utf8DecAux]
  | x :: t, h => by
    have hx : x < 128 := h x (by simp)
    have ht : IsAscii t := fun y hy => h y (by simp [hy])
    simp [utf8DecAux, hx, utf8Dec_ascii t ht]

theorem decode_ascii (e : Encoding) {t : List Nat} (h : IsAscii t) : decode e t = some t := by
  cases e with
  | ascii =>
    have : t.all (· < 128) = true := List.all_eq_true.mpr (fun x hx => by simpa using h x hx)
    simp [decode, this]
  | latin1 =>
    have : t.all (· < 256) = true := List.all_eq_true.mpr (fun x hx => by have := h x hx; simp; omega)
    simp [decode, this]
  | utf8 => exact utf8Dec_ascii t h

/-- ASCII, ISO-8859-1 and UTF-8 write and read ASCII text as it is -/
theorem asciiTransparent_codecOf (e : Encoding) : AsciiTransparent (codecOf e) :=
  fun _ h => ⟨encode_ascii e h, decode_ascii e h⟩

/-- a text with a code point ≥ 128 is refused by the ASCII codec (`UnicodeEncodeError`) -/
theorem ascii_refuses_non_ascii {t : List Nat} (h : ∃ x ∈ t, 128 ≤ x) : asciiCodec.enc t = none := by
  obtain ⟨x, hx, hge⟩ := h
  show encode .ascii t = none
  rw [encode_eq_none]
  unfold writeOk
  apply Bool.eq_false_iff.mpr
  intro hall
  have := List.all_eq_true.mp hall x hx
  simp [encodable] at this
  omega

/-! ### text ⟷ characters -/

theorem chars_append (a b : List Nat) : chars (a ++ b) = chars a ++ chars b := by simp [chars]

theorem chars_jsPrefix : chars (jsPrefix.map Char.toNat) = jsPrefix := by
  simp [chars, List.map_map, Function.comp_def, Char.ofNat_toNat]

/-- `json.dumps` of an object starts with `{` -/
theorem render_obj_head (a : Atoms) (p : Bool) (kvs : List (String × JVal)) :
    ∃ rest, chars (render a p 0 (.obj kvs)) = '{' :: rest := by
  cases kvs with
  | nil => exact ⟨['}'], by simp [render, chars]⟩
  | cons kv kvs => exact ⟨_, by simp only [render, chars, List.map_cons]; congr 1⟩

/-- the characters of the file text are the framed characters of the rendering -/
theorem chars_fileText (a : Atoms) (o : Opts) (v : JVal) : chars (fileText a o v) = frame o (chars (render a o.pretty 0 v)) := by
  unfold fileText frame
  cases o.jsCompat with
  | true => simp only [if_true]; rw [chars_append, chars_jsPrefix]
  | false => simp [chars]

/-! ### the account of a report under sorting and rank clearing -/

theorem suitesItems_eq_flatMap (pre : Path) : ∀ ss : List SuiteResult, suitesItems pre ss = ss.flatMap (suiteItems pre)
  | [] => by simp [suitesItems]
  | s :: ss => by simp [suitesItems, List.flatMap_cons, suitesItems_eq_flatMap pre ss]

theorem suitesItems_perm (pre : Path) {l l' : List SuiteResult} (h : l.Perm l') : (suitesItems pre l).Perm (suitesItems pre l') := by
  rw [suitesItems_eq_flatMap, suitesItems_eq_flatMap]
  exact List.Perm.flatMap_right _ h

theorem map_clearTest_items (p : Path) (ts : List TestResult) :
    (ts.map clearTest).map (fun t => Item.test (p ++ [t.md.name]) t.result.status) =
      ts.map (fun t => Item.test (p ++ [t.md.name]) t.result.status) := by
  simp [List.map_map, Function.comp_def, clearTest, zeroRank]

mutual
theorem suiteItems_clearRanks : ∀ (s : SuiteResult) (pre : Path), suiteItems pre (clearRanks s) = suiteItems pre s
  | .mk md st en su td ts ss => by
    intro pre
    have h := suitesItems_clearRanksList ss (pre ++ [md.name])
    simp [clearRanks, suiteItems, zeroRank, h, List.map_map, Function.comp_def, clearTest]
theorem suitesItems_clearRanksList : ∀ (ss : List SuiteResult) (pre : Path), suitesItems pre (clearRanksList ss) = suitesItems pre ss
  | [] => by intro pre; simp [clearRanksList]
  | s :: ss => by
    intro pre
    simp [clearRanksList, suitesItems, suiteItems_clearRanks s pre, suitesItems_clearRanksList ss pre]
end

mutual
theorem suiteItems_sortDeep : ∀ (s : SuiteResult) (pre : Path), (suiteItems pre (sortDeep s)).Perm (suiteItems pre s)
  | .mk md st en su td ts ss => by
    intro pre
    have h1 : (suitesItems (pre ++ [md.name]) (sortByRank suiteRank (sortDeepList ss))).Perm (suitesItems (pre ++ [md.name]) ss) :=
      (suitesItems_perm _ (sortByRank_perm suiteRank _)).trans (suitesItems_sortDeepList ss (pre ++ [md.name]))
    have h2 := (sortByRank_perm testRank ts).map (fun t => Item.test (pre ++ [md.name, t.md.name]) t.result.status)
    simp only [sortDeep, suiteItems]
    exact List.Perm.cons _ (List.Perm.append h2 h1)
theorem suitesItems_sortDeepList : ∀ (ss : List SuiteResult) (pre : Path), (suitesItems pre (sortDeepList ss)).Perm (suitesItems pre ss)
  | [] => by intro pre; simp [sortDeepList]
  | s :: ss => by
    intro pre
    simp only [sortDeepList, suitesItems]
    exact List.Perm.append (suiteItems_sortDeep s pre) (suitesItems_sortDeepList ss pre)
end

/-- what a save → load round trip does to the report (`Serial.loaded`: accessor order, ranks 0, saving time) keeps every
    test with its path and status and every suite with its path and times: the account is a permutation of the original's -/
theorem account_loaded (g : Time) (r : Report) : (account (loaded g r)).Perm (account r) := by
  unfold account loaded view
  simp only
  rw [suitesItems_clearRanksList]
  exact (suitesItems_perm [] (sortByRank_perm suiteRank _)).trans (suitesItems_sortDeepList r.suites [])

end LccModel.LocaleFile

/-
  The session whose saves can raise (`sessRunG`) coincides with the ideal one (`sessRun`) when every save succeeds.
-/
import LccModel.Model.Saving

namespace LccModel.Saving
open LccModel.Report LccModel.Writer

theorem fileSessionHandleG_of_ok {saveOk : Report → Bool} (hok : ∀ r, saveOk r = true) (strat : Strategy) (clock : Nat → Nat)
    (s : Sess) (e : Event) : fileSessionHandleG saveOk strat clock s e = liftErr (fileSessionHandle strat clock s e) := by
  unfold fileSessionHandleG
  cases fileSessionHandle strat clock s e with
  | error err => rfl
  | ok s2 => simp [hok, liftErr]

theorem sessStepG_of_ok {saveOk : Report → Bool} (hok : ∀ r, saveOk r = true) (strat : Strategy) (clock : Nat → Nat)
    (s : Sess) (e : Event) : sessStepG saveOk strat clock s e = liftErr (sessStep strat clock s e) := by
  unfold sessStepG sessStep
  cases Writer.apply s.w e with
  | error err => rfl
  | ok w' => exact fileSessionHandleG_of_ok hok strat clock _ e

theorem sessRunG_of_ok {saveOk : Report → Bool} (hok : ∀ r, saveOk r = true) (strat : Strategy) (clock : Nat → Nat) :
    ∀ (es : List Event) (s s' : Sess), sessRun strat clock s es = .ok s' → sessRunG saveOk strat clock s es = (s', none)
  | [], s, s', h => by
    simp only [sessRun] at h
    cases h
    rfl
  | e :: es, s, s', h => by
    simp only [sessRun] at h
    simp only [sessRunG, sessStepG_of_ok hok]
    cases hst : sessStep strat clock s e with
    | error err => rw [hst] at h; cases h
    | ok s1 =>
      rw [hst] at h
      simp only [liftErr]
      exact sessRunG_of_ok hok strat clock es s1 s' h

/-- a raising handler ends the run: the remaining events are never handled -/
theorem sessRunG_stops {saveOk : Report → Bool} {strat : Strategy} {clock : Nat → Nat} {s : Sess} {e : Event} {err : SessErrG}
    (h : sessStepG saveOk strat clock s e = .error err) (es : List Event) :
    sessRunG saveOk strat clock s (e :: es) = (s, some err) := by
  simp only [sessRunG, h]

/-- a step stopped by a save: the report the writer had just produced is refused by `saveOk` -/
theorem sessStepG_save_error {saveOk : Report → Bool} {strat : Strategy} {clock : Nat → Nat} {s : Sess} {e : Event}
    (h : sessStepG saveOk strat clock s e = .error .save) :
    ∃ w', Writer.apply s.w e = .ok w' ∧ saveOk w'.report = false := by
  cases hw : Writer.apply s.w e with
  | error err => simp [sessStepG, hw] at h
  | ok w' =>
    refine ⟨w', rfl, ?_⟩
    cases hf : fileSessionHandle strat clock { s with w := w', handled := s.handled + 1 } e with
    | error err => simp [sessStepG, hw, fileSessionHandleG, hf] at h
    | ok s2 =>
      cases hok : saveOk w'.report with
      | false => rfl
      | true => simp [sessStepG, hw, fileSessionHandleG, hf, hok] at h

theorem allOk_false {bs : List (Report → Bool)} {r : Report} (h : allOk bs r = false) : ∃ b ∈ bs, b r = false := by
  unfold allOk at h
  have := List.all_eq_false.mp h
  obtain ⟨b, hb, hbr⟩ := this
  exact ⟨b, hb, by simpa using hbr⟩

theorem truthy_some {s : String} (h : s ≠ "") : truthy (some s) = some s := by
  have : s.isEmpty = false := by
    cases hs : s.isEmpty
    · rfl
    · exact absurd (String.isEmpty_iff.mp hs) h
  simp [truthy, this]

end LccModel.Saving

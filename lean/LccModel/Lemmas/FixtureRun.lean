/-
  Run-time soundness of the fixture machinery for accepted registries: what gets scheduled, and that
  setting the scheduled fixtures up scope by scope never hits the `LookupError` / assertions of
  `ScheduledFixtures`.  Core Lean only.
-/
import LccModel.Lemmas.FixtureCheck

namespace LccModel.Fixture
open LccModel.Loops

theorem scopeIs_true_iff {R : Registry} {sc : Scope} {n : String} :
    scopeIs R sc n = true ↔ ∃ f, lookup R n = some f ∧ f.scope = sc := by
  unfold scopeIs
  cases h : lookup R n with
  | none => simp
  | some f => simp

theorem Scope.level_inj {a b : Scope} (h : a.level = b.level) : a = b := by
  cases a <;> cases b <;> simp [Scope.level] at h <;> rfl

/-- `x` is used directly or is a (transitive) parameter of a fixture used directly -/
def Needed (R : Registry) (D : List String) (x : String) : Prop := x ∈ D ∨ ∃ f ∈ D, Path R f x

theorem needed_step {R : Registry} {D : List String} {n p : String} (h : Needed R D n) (hp : p ∈ P R n) :
    Needed R D p := by
  rcases h with h | ⟨f, hf, hpath⟩
  · exact .inr ⟨n, h, .edge hp⟩
  · exact .inr ⟨f, hf, hpath.snoc hp⟩

theorem needed_mono {R : Registry} {D D' : List String} (hsub : ∀ x ∈ D, x ∈ D') {x : String}
    (h : Needed R D x) : Needed R D' x := by
  rcases h with h | ⟨f, hf, hp⟩
  · exact .inl (hsub x h)
  · exact .inr ⟨f, hsub f hf, hp⟩

theorem closed_path {R : Registry} {L : List String} (hcl : ∀ n ∈ L, ∀ p ∈ P R n, p ∈ L)
    {a b : String} (hp : Path R a b) (ha : a ∈ L) : b ∈ L := by
  induction hp with
  | edge h => exact hcl _ ha _ h
  | cons h _ ih => exact ih (hcl _ ha _ h)

theorem mem_closure_iff {R : Registry} {D L : List String} (h : closure R D = .ok L) (x : String) :
    x ∈ L ↔ Needed R D x := by
  have sp := closure_spec h
  constructor
  · intro hx
    rcases sp.reach x hx with h | h | h
    · cases h
    · exact .inl h
    · exact .inr h
  · have hcl : ∀ n ∈ L, ∀ p ∈ P R n, p ∈ L := by
      intro n hn p hp
      rcases topoFrom_closed L [] sp.topo n hn p hp with h | h
      · cases h
      · exact h
    rintro (h | ⟨f, hf, hp⟩)
    · exact sp.direct x h
    · exact closed_path hcl hp (sp.direct f hf)

/-- exactly the needed fixtures of the scope are scheduled (`only_needed`) -/
theorem mem_scheduled_iff {R : Registry} {D I : List String} {sc : Scope} (h : scheduled R D sc = .ok I)
    (x : String) : x ∈ I ↔ scopeIs R sc x = true ∧ Needed R D x := by
  unfold scheduled at h
  cases hc : closure R D with
  | error e => simp [hc] at h
  | ok L =>
    simp only [hc] at h
    injection h with h; subst h
    rw [List.mem_filter, mem_closure_iff hc, and_comm]

theorem scheduled_nodup {R : Registry} {D I : List String} {sc : Scope} (h : scheduled R D sc = .ok I) :
    I.Nodup := by
  unfold scheduled at h
  cases hc : closure R D with
  | error e => simp [hc] at h
  | ok L =>
    simp only [hc] at h
    injection h with h; subst h
    exact List.Nodup.sublist List.filter_sublist (closure_spec hc).nodup

theorem scheduled_ok_of {R : Registry} (hres : checkResolvable R = .ok ()) {D : List String}
    (hD : ∀ n ∈ D, n ∈ names R) (sc : Scope) : ∃ I, scheduled R D sc = .ok I := by
  have hall := (checkResolvable_ok_iff' R).mp hres
  obtain ⟨L, hL⟩ := closure_ok_of (R := R) (direct := D) (by
    intro f hf
    obtain ⟨g, hg, e⟩ := mem_of_mem_names (hD f hf)
    rw [← e]; exact hall g hg)
  exact ⟨_, by unfold scheduled; rw [hL]⟩

/-- scheduled fixtures are set up after the scheduled fixtures they depend on (`deps_before`):
    the scheduled list splits at every element with all same-scope parameters in the front part -/
theorem scheduled_deps_before {R : Registry} {D I : List String} {sc : Scope} (h : scheduled R D sc = .ok I)
    {l1 l2 : List String} {n : String} (hsplit : I = l1 ++ n :: l2) :
    ∀ p ∈ P R n, scopeIs R sc p = true → p ∈ l1 := by
  unfold scheduled at h
  cases hc : closure R D with
  | error e => simp [hc] at h
  | ok L =>
    simp only [hc] at h
    injection h with h
    have sp := closure_spec hc
    -- generalise over the `seen` prefix of the topological order
    have key : ∀ (l seen : List String), TopoFrom R seen l → ∀ l1 l2, l.filter (scopeIs R sc) = l1 ++ n :: l2 →
        ∀ p ∈ P R n, scopeIs R sc p = true → p ∈ seen.filter (scopeIs R sc) ++ l1 := by
      intro l
      induction l with
      | nil => intro seen _ l1 l2 hs; simp at hs
      | cons a rest ih =>
        intro seen ht l1 l2 hs p hp hq
        by_cases hqa : scopeIs R sc a = true
        · rw [List.filter_cons_of_pos hqa] at hs
          cases l1 with
          | nil =>
            simp only [List.nil_append, List.cons.injEq] at hs
            obtain ⟨e, _⟩ := hs; subst e
            simp only [List.append_nil]
            exact List.mem_filter.mpr ⟨ht.1 p hp, hq⟩
          | cons b l1' =>
            simp only [List.cons_append, List.cons.injEq] at hs
            obtain ⟨e, hs⟩ := hs; subst e
            have := ih (seen ++ [a]) ht.2 l1' l2 hs p hp hq
            simp only [List.filter_append, List.filter_cons_of_pos hqa, List.filter_nil, List.append_assoc,
              List.cons_append, List.nil_append] at this
            simpa using this
        · have hqa' : scopeIs R sc a = false := by simpa using hqa
          rw [List.filter_cons_of_neg (by simp [hqa'])] at hs
          have := ih (seen ++ [a]) ht.2 l1 l2 hs p hp hq
          simp only [List.filter_append, List.filter_cons_of_neg (show ¬ scopeIs R sc a = true by simp [hqa']),
            List.filter_nil, List.append_nil] at this
          exact this
    intro p hp hq
    have := key L [] sp.topo l1 l2 (by rw [h]; exact hsplit) p hp hq
    simpa using this

/-- One `ScheduledFixtures` level: all set-up functions of the scheduled fixtures of scope `sc` run
    without `LookupError` / assertion failure, provided the needed fixtures of wider scopes are held
    by the (completely set up) parent chain. -/
theorem enter_ok {R : Registry} (wf : WF R) (hk : ParamsKnown R) (hsi : NoScopeInversion R)
    {D I : List String} {sc : Scope} (h : scheduled R D sc = .ok I)
    (chain : List Inst) (hd : Done chain)
    (houter : ∀ x, Needed R D x → ∀ g, lookup R x = some g → sc.level < g.scope.level → Avail chain x) :
    enter R chain sc I = .ok (⟨sc, I, I⟩ :: chain) := by
  have hmem := mem_scheduled_iff h
  unfold scheduled at h
  cases hc : closure R D with
  | error e => simp [hc] at h
  | ok L =>
    simp only [hc] at h
    injection h with h
    have sp := closure_spec hc
    have hsim : SimOK R chain I (([] : List String).filter (scopeIs R sc)) (L.filter (scopeIs R sc)) := by
      apply simOK_of_topo R chain (scopeIs R sc) I
      · intro x hx; exact ((hmem x).mp hx).1
      · intro n hn p hp hq
        obtain ⟨hqn, hneed⟩ := (hmem n).mp hn
        obtain ⟨f, hlf, hsc⟩ := scopeIs_true_iff.mp hqn
        have hpf : p ∈ fparams f := by rw [← P_of_lookup hlf]; exact hp
        have hfR := lookup_mem hlf
        obtain ⟨g, hlg⟩ := lookup_some_of_mem_names (hk f hfR p hpf)
        obtain ⟨hgR, hgn⟩ := (lookup_eq_some_iff wf).mp hlg
        have hle := hsi f hfR p hpf g hgR hgn
        refine houter p (needed_step hneed hp) g hlg ?_
        have hne : g.scope ≠ sc := by
          intro e
          have : scopeIs R sc p = true := scopeIs_true_iff.mpr ⟨g, hlg, e⟩
          rw [this] at hq; cases hq
        have hne' : g.scope.level ≠ sc.level := fun e => hne (Scope.level_inj e)
        rw [hsc] at hle
        omega
      · exact sp.topo
      · simpa using sp.nodup
      · exact sp.known
      · simp
      · intro x hx; rw [← h]; exact hx
    have := sim_ok R chain sc I hd _ _ hsim
    unfold enter
    rw [← h] at this ⊢
    simpa using this

theorem done_cons {chain : List Inst} (hd : Done chain) (sc : Scope) (I : List String) :
    Done (⟨sc, I, I⟩ :: chain) := by
  intro i hi n hn
  rcases List.mem_cons.mp hi with rfl | hi
  · exact hn
  · exact hd i hi n hn

theorem avail_cons_self (chain : List Inst) (sc : Scope) (I : List String) {x : String} (hx : x ∈ I) :
    Avail (⟨sc, I, I⟩ :: chain) x := ⟨⟨sc, I, I⟩, by simp, hx⟩

theorem avail_cons_of {chain : List Inst} (i : Inst) {x : String} (h : Avail chain x) : Avail (i :: chain) x := by
  obtain ⟨j, hj, hx⟩ := h
  exact ⟨j, by simp [hj], hx⟩

/-- The whole chain `pre_run → session → suite → test` for direct uses `Dtest ⊆ Dsuite ⊆ Dsession`. -/
theorem run_chain_sound {R : Registry} (wf : WF R) (hok : checkDependencies R = .ok ())
    (Dsession Dsuite Dtest : List String)
    (hks : ∀ n ∈ Dsession, n ∈ names R) (h1 : ∀ n ∈ Dsuite, n ∈ Dsession) (h2 : ∀ n ∈ Dtest, n ∈ Dsuite) :
    ∃ Ipre Isess Isuite Itest,
      scheduled R Dsession .preRun = .ok Ipre ∧ scheduled R Dsession .session = .ok Isess ∧
      scheduled R Dsuite .suite = .ok Isuite ∧ scheduled R Dtest .test = .ok Itest ∧
      ∃ c1 c2 c3 c4,
        enter R [] .preRun Ipre = .ok c1 ∧ enter R c1 .session Isess = .ok c2 ∧
        enter R c2 .suite Isuite = .ok c3 ∧ enter R c3 .test Itest = .ok c4 ∧
        (∀ n ∈ Dtest, getResult c4 n = .ok ()) ∧
        (∀ n ∈ Dsuite, (∀ g, lookup R n = some g → Scope.suite.level ≤ g.scope.level) → getResult c3 n = .ok ()) := by
  obtain ⟨_, hk, _, hsi, _⟩ := (checkDependencies_ok_iff_spec R wf).mp hok
  have hres := ((checkDependencies_parts R).mp hok).2.1
  have hksu : ∀ n ∈ Dsuite, n ∈ names R := fun n hn => hks n (h1 n hn)
  have hkt : ∀ n ∈ Dtest, n ∈ names R := fun n hn => hksu n (h2 n hn)
  obtain ⟨Ipre, hpre⟩ := scheduled_ok_of hres hks .preRun
  obtain ⟨Isess, hsess⟩ := scheduled_ok_of hres hks .session
  obtain ⟨Isuite, hsuite⟩ := scheduled_ok_of hres hksu .suite
  obtain ⟨Itest, htest⟩ := scheduled_ok_of hres hkt .test
  refine ⟨Ipre, Isess, Isuite, Itest, hpre, hsess, hsuite, htest, ?_⟩
  have lvl : ∀ g : Fixture, g.scope.level ≤ 4 := by intro g; cases g.scope <;> simp [Scope.level]
  -- where a needed fixture of a given scope lives
  have inPre : ∀ x, Needed R Dsession x → ∀ g, lookup R x = some g → g.scope = .preRun → x ∈ Ipre :=
    fun x hn g hl hs => (mem_scheduled_iff hpre x).mpr ⟨scopeIs_true_iff.mpr ⟨g, hl, hs⟩, hn⟩
  have inSess : ∀ x, Needed R Dsession x → ∀ g, lookup R x = some g → g.scope = .session → x ∈ Isess :=
    fun x hn g hl hs => (mem_scheduled_iff hsess x).mpr ⟨scopeIs_true_iff.mpr ⟨g, hl, hs⟩, hn⟩
  have inSuite : ∀ x, Needed R Dsuite x → ∀ g, lookup R x = some g → g.scope = .suite → x ∈ Isuite :=
    fun x hn g hl hs => (mem_scheduled_iff hsuite x).mpr ⟨scopeIs_true_iff.mpr ⟨g, hl, hs⟩, hn⟩
  have inTest : ∀ x, Needed R Dtest x → ∀ g, lookup R x = some g → g.scope = .test → x ∈ Itest :=
    fun x hn g hl hs => (mem_scheduled_iff htest x).mpr ⟨scopeIs_true_iff.mpr ⟨g, hl, hs⟩, hn⟩
  -- pre_run
  have e1 := enter_ok wf hk hsi hpre [] (by intro i hi; cases hi) (by
    intro x _ g _ hlt
    have := lvl g
    have e : Scope.preRun.level = 4 := rfl
    rw [e] at hlt; omega)
  have d1 := done_cons (chain := []) (by intro i hi; cases hi) .preRun Ipre
  -- session
  have e2 := enter_ok wf hk hsi hsess _ d1 (by
    intro x hn g hl hlt
    have hs : g.scope = .preRun := by
      cases hsc : g.scope <;> simp [hsc, Scope.level] at hlt ⊢
    exact avail_cons_self _ _ _ (inPre x hn g hl hs))
  have d2 := done_cons d1 .session Isess
  -- suite
  have availSuiteUp : ∀ x, Needed R Dsuite x → ∀ g, lookup R x = some g → Scope.suite.level < g.scope.level →
      Avail (⟨.session, Isess, Isess⟩ :: ⟨.preRun, Ipre, Ipre⟩ :: []) x := by
    intro x hn g hl hlt
    have hn' := needed_mono h1 hn
    cases hsc : g.scope with
    | test => simp [hsc, Scope.level] at hlt
    | suite => simp [hsc, Scope.level] at hlt
    | session => exact avail_cons_self _ _ _ (inSess x hn' g hl hsc)
    | preRun => exact avail_cons_of _ (avail_cons_self _ _ _ (inPre x hn' g hl hsc))
  have e3 := enter_ok wf hk hsi hsuite _ d2 availSuiteUp
  have d3 := done_cons d2 .suite Isuite
  -- test
  have availTestUp : ∀ x, Needed R Dtest x → ∀ g, lookup R x = some g → Scope.test.level < g.scope.level →
      Avail (⟨.suite, Isuite, Isuite⟩ :: ⟨.session, Isess, Isess⟩ :: ⟨.preRun, Ipre, Ipre⟩ :: []) x := by
    intro x hn g hl hlt
    have hn' := needed_mono h2 hn
    cases hsc : g.scope with
    | test => simp [hsc, Scope.level] at hlt
    | suite => exact avail_cons_self _ _ _ (inSuite x hn' g hl hsc)
    | session => exact avail_cons_of _ (availSuiteUp x hn' g hl (by simp [hsc, Scope.level]))
    | preRun => exact avail_cons_of _ (availSuiteUp x hn' g hl (by simp [hsc, Scope.level]))
  have e4 := enter_ok wf hk hsi htest _ d3 availTestUp
  have d4 := done_cons d3 .test Itest
  refine ⟨_, _, _, _, e1, e2, e3, e4, ?_, ?_⟩
  · intro n hn
    apply getResult_ok_of_done _ _ d4
    obtain ⟨g, hl⟩ := lookup_some_of_mem_names (hkt n hn)
    cases hsc : g.scope with
    | test => exact avail_cons_self _ _ _ (inTest n (.inl hn) g hl hsc)
    | suite => exact avail_cons_of _ (availTestUp n (.inl hn) g hl (by simp [hsc, Scope.level]))
    | session => exact avail_cons_of _ (availTestUp n (.inl hn) g hl (by simp [hsc, Scope.level]))
    | preRun => exact avail_cons_of _ (availTestUp n (.inl hn) g hl (by simp [hsc, Scope.level]))
  · intro n hn hlev
    apply getResult_ok_of_done _ _ d3
    obtain ⟨g, hl⟩ := lookup_some_of_mem_names (hksu n hn)
    have := hlev g hl
    cases hsc : g.scope with
    | test => simp [hsc, Scope.level] at this
    | suite => exact avail_cons_self _ _ _ (inSuite n (.inl hn) g hl hsc)
    | session => exact avail_cons_of _ (availSuiteUp n (.inl hn) g hl (by simp [hsc, Scope.level]))
    | preRun => exact avail_cons_of _ (availSuiteUp n (.inl hn) g hl (by simp [hsc, Scope.level]))

end LccModel.Fixture

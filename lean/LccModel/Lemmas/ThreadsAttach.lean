/-
  Invariant of the attachment-counter model (`Model/Threads.lean`, namespace `Attach`) with the lock:
  the numbers handed out so far are exactly 1 … bound, in order, where bound is the counter, plus one
  while the lock holder has computed its name but not yet written the incremented counter.
-/
import LccModel.Model.Threads

namespace LccModel.Threads.Attach

def inCS : PC → Bool
  | .acquired | .named _ | .incRead _ _ | .incWritten _ => true
  | _ => false

/-- the holder computed a name and has not yet stored the incremented counter -/
def inWindow : PC → Bool
  | .named _ | .incRead _ _ => true
  | _ => false

def window (s : St) : Bool :=
  match s.lock with
  | some t => inWindow (s.pc t)
  | none => false

def bound (s : St) : Nat := s.count + (if window s then 1 else 0)

structure Inv (s : St) : Prop where
  cs : ∀ t, inCS (s.pc t) = true → s.lock = some t
  names : s.names.map (·.2) = (List.range (bound s)).map (· + 1)
  named : ∀ t n, s.pc t = .named n → n = s.count + 1
  incRead : ∀ t n r, s.pc t = .incRead n r → n = s.count + 1 ∧ r = s.count
  fileOf : ∀ t n, s.pc t = .written n → n ∈ s.files
  events : ∀ n, n ∈ s.events → n ∈ s.files

theorem inv_init : Inv init := by
  constructor <;> simp [init, bound, window, inCS]

theorem setPc_same (s : St) (t : Nat) (v : PC) : (setPc s t v).pc t = v := by simp [setPc]
theorem setPc_other (s : St) {t x : Nat} (v : PC) (h : x ≠ t) : (setPc s t v).pc x = s.pc x := by simp [setPc, h]


theorem window_setPc (s : St) (t : Nat) (v : PC) (h1 : inWindow v = false) (h2 : inWindow (s.pc t) = false) :
    window (setPc s t v) = window s := by
  unfold window
  show (match s.lock with | some x => inWindow ((setPc s t v).pc x) | none => false) = _
  split
  · rename_i x _
    by_cases e : x = t
    · subst e; simp [setPc, h1, h2]
    · simp [setPc, e]
  · rfl

theorem range_succ_map (n : Nat) : (List.range (n + 1)).map (· + 1) = (List.range n).map (· + 1) ++ [n + 1] := by
  simp [List.range_succ]

/-- with the lock, every step preserves the invariant -/
theorem step_inv {s s' : St} {t : Nat} {a : Act} (hinv : Inv s) (h : step true s t a = some s') : Inv s' := by
  cases a with
  | acquire =>
    simp only [step] at h
    cases hp : s.pc t <;> rw [hp] at h <;> try cases h
    simp only [if_true] at h
    cases hl : s.lock with
    | some x => rw [hl] at h; cases h
    | none =>
      rw [hl] at h; injection h with h; subst h
      -- nobody is in the critical section
      have hnone : ∀ x, inCS (s.pc x) = false := by
        intro x
        cases hc : inCS (s.pc x) with
        | false => rfl
        | true => have := hinv.cs x hc; rw [hl] at this; cases this
      have hw : window { setPc s t .acquired with lock := some t } = false := by
        simp [window, setPc, inWindow]
      have hw0 : window s = false := by simp [window, hl]
      refine ⟨?_, ?_, ?_, ?_, ?_, hinv.events⟩
      · intro x hx
        by_cases e : x = t
        · subst e; rfl
        · have : inCS (s.pc x) = true := by simpa [setPc, e] using hx
          rw [hnone x] at this; cases this
      · show s.names.map (·.2) = _
        rw [hinv.names]; simp [bound, hw, hw0]; rfl
      · intro x n hx
        by_cases e : x = t
        · subst e; simp [setPc] at hx
        · exact hinv.named x n (by simpa [setPc, e] using hx)
      · intro x n r hx
        by_cases e : x = t
        · subst e; simp [setPc] at hx
        · exact hinv.incRead x n r (by simpa [setPc, e] using hx)
      · intro x n hx
        by_cases e : x = t
        · subst e; simp [setPc] at hx
        · exact hinv.fileOf x n (by simpa [setPc, e] using hx)
  | readName =>
    simp only [step] at h
    cases hp : s.pc t <;> rw [hp] at h <;> try cases h
    have hl : s.lock = some t := hinv.cs t (by rw [hp]; rfl)
    have hw0 : window s = false := by simp [window, hl, hp, inWindow]
    have hw : window { setPc s t (.named (s.count + 1)) with names := s.names ++ [(t, s.count + 1)] } = true := by
      simp [window, setPc, hl, inWindow]
    have hothers : ∀ x, x ≠ t → inCS (s.pc x) = false := by
      intro x e
      cases hc : inCS (s.pc x) with
      | false => rfl
      | true => have := hinv.cs x hc; rw [hl] at this; injection this with this; exact absurd this.symm e
    refine ⟨?_, ?_, ?_, ?_, ?_, hinv.events⟩
    · intro x hx
      by_cases e : x = t
      · subst e; exact hl
      · have : inCS (s.pc x) = true := by simpa [setPc, e] using hx
        exact hinv.cs x this
    · show (s.names ++ [(t, s.count + 1)]).map (·.2) = _
      have hb : bound { setPc s t (.named (s.count + 1)) with names := s.names ++ [(t, s.count + 1)] } = s.count + 1 := by
        simp [bound, hw]; rfl
      have hb0 : bound s = s.count := by simp [bound, hw0]
      rw [hb, range_succ_map, List.map_append, hinv.names, hb0]; rfl
    · intro x n hx
      by_cases e : x = t
      · subst e; simp [setPc] at hx; exact hx.symm
      · have : s.pc x = .named n := by simpa [setPc, e] using hx
        have hc := hothers x e
        rw [this] at hc; cases hc
    · intro x n r hx
      by_cases e : x = t
      · subst e; simp [setPc] at hx
      · have : s.pc x = .incRead n r := by simpa [setPc, e] using hx
        have hc := hothers x e
        rw [this] at hc; cases hc
    · intro x n hx
      by_cases e : x = t
      · subst e; simp [setPc] at hx
      · exact hinv.fileOf x n (by simpa [setPc, e] using hx)
  | readInc =>
    simp only [step] at h
    cases hp : s.pc t <;> rw [hp] at h <;> try cases h
    rename_i n
    have hl : s.lock = some t := hinv.cs t (by rw [hp]; rfl)
    have hn := hinv.named t n hp
    have hothers : ∀ x, x ≠ t → inCS (s.pc x) = false := by
      intro x e
      cases hc : inCS (s.pc x) with
      | false => rfl
      | true => have := hinv.cs x hc; rw [hl] at this; injection this with this; exact absurd this.symm e
    refine ⟨?_, ?_, ?_, ?_, ?_, hinv.events⟩
    · intro x hx
      by_cases e : x = t
      · subst e; exact hl
      · exact hinv.cs x (by simpa [setPc, e] using hx)
    · show s.names.map (·.2) = _
      rw [hinv.names]
      have : bound (setPc s t (.incRead n s.count)) = bound s := by
        simp [bound, window, setPc, hl, hp, inWindow]
      rw [this]
    · intro x m hx
      by_cases e : x = t
      · subst e; simp [setPc] at hx
      · have : s.pc x = .named m := by simpa [setPc, e] using hx
        have hc := hothers x e
        rw [this] at hc; cases hc
    · intro x m r hx
      by_cases e : x = t
      · subst e; simp [setPc] at hx; obtain ⟨h1, h2⟩ := hx; subst h1; subst h2; exact ⟨hn, rfl⟩
      · have : s.pc x = .incRead m r := by simpa [setPc, e] using hx
        have hc := hothers x e
        rw [this] at hc; cases hc
    · intro x m hx
      by_cases e : x = t
      · subst e; simp [setPc] at hx
      · exact hinv.fileOf x m (by simpa [setPc, e] using hx)
  | writeInc =>
    simp only [step] at h
    cases hp : s.pc t <;> rw [hp] at h <;> try cases h
    rename_i n r
    have hl : s.lock = some t := hinv.cs t (by rw [hp]; rfl)
    obtain ⟨hn, hr⟩ := hinv.incRead t n r hp
    have hothers : ∀ x, x ≠ t → inCS (s.pc x) = false := by
      intro x e
      cases hc : inCS (s.pc x) with
      | false => rfl
      | true => have := hinv.cs x hc; rw [hl] at this; injection this with this; exact absurd this.symm e
    refine ⟨?_, ?_, ?_, ?_, ?_, hinv.events⟩
    · intro x hx
      by_cases e : x = t
      · subst e; exact hl
      · exact hinv.cs x (by simpa [setPc, e] using hx)
    · show s.names.map (·.2) = _
      rw [hinv.names]
      have h1 : bound { setPc s t (.incWritten n) with count := r + 1 } = r + 1 := by
        simp [bound, window, setPc, hl, inWindow]
      have h2 : bound s = s.count + 1 := by simp [bound, window, hl, hp, inWindow]
      rw [h1, h2, hr]
    · intro x m hx
      by_cases e : x = t
      · subst e; simp [setPc] at hx
      · have : s.pc x = .named m := by simpa [setPc, e] using hx
        have hc := hothers x e
        rw [this] at hc; cases hc
    · intro x m r' hx
      by_cases e : x = t
      · subst e; simp [setPc] at hx
      · have : s.pc x = .incRead m r' := by simpa [setPc, e] using hx
        have hc := hothers x e
        rw [this] at hc; cases hc
    · intro x m hx
      by_cases e : x = t
      · subst e; simp [setPc] at hx
      · exact hinv.fileOf x m (by simpa [setPc, e] using hx)
  | release =>
    simp only [step] at h
    cases hp : s.pc t <;> rw [hp] at h <;> try cases h
    rename_i n
    have hl : s.lock = some t := hinv.cs t (by rw [hp]; rfl)
    have hothers : ∀ x, x ≠ t → inCS (s.pc x) = false := by
      intro x e
      cases hc : inCS (s.pc x) with
      | false => rfl
      | true => have := hinv.cs x hc; rw [hl] at this; injection this with this; exact absurd this.symm e
    refine ⟨?_, ?_, ?_, ?_, ?_, hinv.events⟩
    · intro x hx
      by_cases e : x = t
      · subst e; simp [setPc, inCS] at hx
      · have : inCS (s.pc x) = true := by simpa [setPc, e] using hx
        rw [hothers x e] at this; cases this
    · show s.names.map (·.2) = _
      rw [hinv.names]
      have h2 : bound s = s.count := by simp [bound, window, hl, hp, inWindow]
      rw [h2]
      simp [bound, window, setPc]
    · intro x m hx
      by_cases e : x = t
      · subst e; simp [setPc] at hx
      · exact hinv.named x m (by simpa [setPc, e] using hx)
    · intro x m r' hx
      by_cases e : x = t
      · subst e; simp [setPc] at hx
      · exact hinv.incRead x m r' (by simpa [setPc, e] using hx)
    · intro x m hx
      by_cases e : x = t
      · subst e; simp [setPc] at hx
      · exact hinv.fileOf x m (by simpa [setPc, e] using hx)
  | writeFile =>
    simp only [step] at h
    cases hp : s.pc t <;> rw [hp] at h <;> try cases h
    rename_i n
    have hbound : bound { setPc s t (.written n) with files := s.files ++ [n] } = bound s := by
      have : window { setPc s t (.written n) with files := s.files ++ [n] } = window s :=
        window_setPc s t (.written n) rfl (by rw [hp]; rfl)
      simp only [bound, this]; rfl
    refine ⟨?_, ?_, ?_, ?_, ?_, ?_⟩
    · intro x hx
      by_cases e : x = t
      · subst e; simp [setPc, inCS] at hx
      · exact hinv.cs x (by simpa [setPc, e] using hx)
    · show s.names.map (·.2) = _
      rw [hinv.names, hbound]
    · intro x m hx
      by_cases e : x = t
      · subst e; simp [setPc] at hx
      · exact hinv.named x m (by simpa [setPc, e] using hx)
    · intro x m r' hx
      by_cases e : x = t
      · subst e; simp [setPc] at hx
      · exact hinv.incRead x m r' (by simpa [setPc, e] using hx)
    · intro x m hx
      show m ∈ s.files ++ [n]
      by_cases e : x = t
      · subst e; simp [setPc] at hx; subst hx; simp
      · have := hinv.fileOf x m (by simpa [setPc, e] using hx)
        simp [this]
    · intro m hm
      show m ∈ s.files ++ [n]
      have := hinv.events m hm
      simp [this]
  | fireEvent =>
    simp only [step] at h
    cases hp : s.pc t <;> rw [hp] at h <;> try cases h
    rename_i n
    have hbound : bound { setPc s t .idle with events := s.events ++ [n] } = bound s := by
      have : window { setPc s t .idle with events := s.events ++ [n] } = window s :=
        window_setPc s t .idle rfl (by rw [hp]; rfl)
      simp only [bound, this]; rfl
    refine ⟨?_, ?_, ?_, ?_, ?_, ?_⟩
    · intro x hx
      by_cases e : x = t
      · subst e; simp [setPc, inCS] at hx
      · exact hinv.cs x (by simpa [setPc, e] using hx)
    · show s.names.map (·.2) = _
      rw [hinv.names, hbound]
    · intro x m hx
      by_cases e : x = t
      · subst e; simp [setPc] at hx
      · exact hinv.named x m (by simpa [setPc, e] using hx)
    · intro x m r' hx
      by_cases e : x = t
      · subst e; simp [setPc] at hx
      · exact hinv.incRead x m r' (by simpa [setPc, e] using hx)
    · intro x m hx
      by_cases e : x = t
      · subst e; simp [setPc] at hx
      · exact hinv.fileOf x m (by simpa [setPc, e] using hx)
    · intro m hm
      show m ∈ s.files
      have hm' : m ∈ s.events ++ [n] := hm
      rcases List.mem_append.mp hm' with h1 | h1
      · exact hinv.events m h1
      · simp at h1; subst h1; exact hinv.fileOf t m hp

  | abort =>
    simp only [step] at h
    have key : ∀ n, (s.pc t = .released n ∨ s.pc t = .written n) → s' = setPc s t .idle → Inv s' := by
      intro n hp hs'
      subst hs'
      have hnw : inWindow (s.pc t) = false := by rcases hp with hp | hp <;> rw [hp] <;> rfl
      have hbound : bound (setPc s t .idle) = bound s := by
        have : window (setPc s t .idle) = window s := window_setPc s t .idle rfl hnw
        simp only [bound, this]; rfl
      refine ⟨?_, ?_, ?_, ?_, ?_, hinv.events⟩
      · intro x hx
        by_cases e : x = t
        · subst e; simp [setPc, inCS] at hx
        · exact hinv.cs x (by simpa [setPc, e] using hx)
      · show s.names.map (·.2) = _
        rw [hinv.names, hbound]
      · intro x m hx
        by_cases e : x = t
        · subst e; simp [setPc] at hx
        · exact hinv.named x m (by simpa [setPc, e] using hx)
      · intro x m r' hx
        by_cases e : x = t
        · subst e; simp [setPc] at hx
        · exact hinv.incRead x m r' (by simpa [setPc, e] using hx)
      · intro x m hx
        by_cases e : x = t
        · subst e; simp [setPc] at hx
        · exact hinv.fileOf x m (by simpa [setPc, e] using hx)
    cases hp : s.pc t <;> rw [hp] at h <;> try cases h
    · rename_i n; exact key n (Or.inl hp) rfl
    · rename_i n; exact key n (Or.inr hp) rfl

theorem run_inv : ∀ (tr : List (Nat × Act)) (s s' : St), Inv s → run true s tr = some s' → Inv s'
  | [], s, s', hinv, h => by simp only [run] at h; injection h with h; subst h; exact hinv
  | (t, a) :: rest, s, s', hinv, h => by
    simp only [run] at h
    cases hs : step true s t a with
    | none => rw [hs] at h; cases h
    | some s1 => rw [hs] at h; exact run_inv rest s1 s' (step_inv hinv hs) h

/-- program order alone (lock or no lock): a LogAttachmentEvent is fired only after the file was written -/
structure FileInv (s : St) : Prop where
  fileOf : ∀ t n, s.pc t = .written n → n ∈ s.files
  events : ∀ n, n ∈ s.events → n ∈ s.files

theorem fileInv_init : FileInv init := by
  constructor <;> simp [init]

theorem step_fileInv {b : Bool} {s s' : St} {t : Nat} {a : Act} (hinv : FileInv s) (h : step b s t a = some s') :
    FileInv s' := by
  have key : ∀ (v : PC) (s1 : St), (∀ n, v ≠ .written n) → s1.pc = (setPc s t v).pc → s1.files = s.files →
      s1.events = s.events → FileInv s1 := by
    intro v s1 hv h1 h2 h3
    refine ⟨?_, by rw [h2, h3]; exact hinv.events⟩
    intro x n hx
    rw [h1] at hx
    rw [h2]
    by_cases e : x = t
    · subst e; simp [setPc] at hx; exact absurd hx (hv n)
    · exact hinv.fileOf x n (by simpa [setPc, e] using hx)
  cases a with
  | acquire =>
    simp only [step] at h
    cases hp : s.pc t <;> rw [hp] at h <;> try cases h
    cases b with
    | true =>
      simp only [if_true] at h
      cases hl : s.lock with
      | some x => rw [hl] at h; cases h
      | none => rw [hl] at h; injection h with h; subst h; exact key .acquired _ (by intro n hn; cases hn) rfl rfl rfl
    | false =>
      simp at h; subst h; exact key .acquired _ (by intro n hn; cases hn) rfl rfl rfl
  | readName =>
    simp only [step] at h
    cases hp : s.pc t <;> rw [hp] at h <;> try cases h
    exact key (.named (s.count + 1)) _ (by intro n hn; cases hn) rfl rfl rfl
  | readInc =>
    simp only [step] at h
    cases hp : s.pc t <;> rw [hp] at h <;> try cases h
    rename_i n
    exact key (.incRead n s.count) _ (by intro n hn; cases hn) rfl rfl rfl
  | writeInc =>
    simp only [step] at h
    cases hp : s.pc t <;> rw [hp] at h <;> try cases h
    rename_i n r
    exact key (.incWritten n) _ (by intro n hn; cases hn) rfl rfl rfl
  | release =>
    simp only [step] at h
    cases hp : s.pc t <;> rw [hp] at h <;> try cases h
    rename_i n
    exact key (.released n) _ (by intro n hn; cases hn) rfl rfl rfl
  | writeFile =>
    simp only [step] at h
    cases hp : s.pc t <;> rw [hp] at h <;> try cases h
    rename_i n
    refine ⟨?_, ?_⟩
    · intro x m hx
      show m ∈ s.files ++ [n]
      by_cases e : x = t
      · subst e; simp [setPc] at hx; subst hx; simp
      · have := hinv.fileOf x m (by simpa [setPc, e] using hx)
        simp [this]
    · intro m hm
      show m ∈ s.files ++ [n]
      have := hinv.events m hm
      simp [this]
  | fireEvent =>
    simp only [step] at h
    cases hp : s.pc t <;> rw [hp] at h <;> try cases h
    rename_i n
    refine ⟨?_, ?_⟩
    · intro x m hx
      by_cases e : x = t
      · subst e; simp [setPc] at hx
      · exact hinv.fileOf x m (by simpa [setPc, e] using hx)
    · intro m hm
      show m ∈ s.files
      have hm' : m ∈ s.events ++ [n] := hm
      rcases List.mem_append.mp hm' with h1 | h1
      · exact hinv.events m h1
      · simp at h1; subst h1; exact hinv.fileOf t m hp

  | abort =>
    simp only [step] at h
    cases hp : s.pc t <;> rw [hp] at h <;> try cases h
    · exact key .idle _ (by intro n hn; cases hn) rfl rfl rfl
    · exact key .idle _ (by intro n hn; cases hn) rfl rfl rfl

theorem run_fileInv {b : Bool} : ∀ (tr : List (Nat × Act)) (s s' : St), FileInv s → run b s tr = some s' → FileInv s'
  | [], s, s', hinv, h => by simp only [run] at h; injection h with h; subst h; exact hinv
  | (t, a) :: rest, s, s', hinv, h => by
    simp only [run] at h
    cases hs : step b s t a with
    | none => rw [hs] at h; cases h
    | some s1 => rw [hs] at h; exact run_fileInv rest s1 s' (step_fileInv hinv hs) h

/-- the numbers handed out, in hand-out order -/
def numbers (s : St) : List Nat := s.names.map (·.2)

theorem numbers_increasing {s : St} (h : Inv s) : (numbers s).Pairwise (· < ·) := by
  unfold numbers
  rw [h.names]
  exact List.Pairwise.map _ (fun a b hab => Nat.succ_lt_succ hab) List.pairwise_lt_range

end LccModel.Threads.Attach

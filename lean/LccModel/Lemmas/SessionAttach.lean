/-
  Attachment bookkeeping of the session model M3 (`Model/Session.lean`), used by `Props/C06.lean`.

  `Book` is a ghost ledger computed from the op sequence ALONE (no cursor, no stream): every
  `prepare_attachment` block that was entered gets a record (thread, number, pseudo file name, description,
  as_image) which is `opened` until the block is left, then `reported` (left normally: `attachEnd`, or the
  atomic `attach`) or `aborted` (left by an exception: `attachAbort`).  `link_runOps`: for every accepted op
  sequence the attachment events of the fired stream are exactly the `reported` records, in order — nothing
  else ever fires an attachment event, an aborted or still-open block fires none; `book_nums`: the numbers
  of all records are pairwise different; `rec_origin`: every record was created by an `attachBegin`/`attach`
  of its own thread.
  Core Lean only.
-/
import LccModel.Lemmas.SessionIso

namespace LccModel.SessionAttach
open LccModel.Report LccModel.Session LccModel.SessionIso

/-- what a fired `LogAttachmentEvent` says about the attachment: (thread id, path, description, as_image) -/
abbrev View := Nat × String × String × Bool

def attOf : Event → Option View
  | .attachment _ _ tid name d img _ => some (tid, name, d, img)
  | _ => none

def attsOf (es : List Event) : List View := es.filterMap attOf

theorem attsOf_append (a b : List Event) : attsOf (a ++ b) = attsOf a ++ attsOf b := by
  simp [attsOf, List.filterMap_append]

theorem attOf_of_not_logLike {e : Event} (h : logLike e = false) : attOf e = none := by
  cases e <;> simp_all [logLike, attOf]

theorem attsOf_of_not_logLike {es : List Event} (h : ∀ e ∈ es, logLike e = false) : attsOf es = [] := by
  induction es with
  | nil => rfl
  | cons x xs ih =>
    have hx := attOf_of_not_logLike (h x (by simp))
    have := ih (fun e he => h e (by simp [he]))
    simp only [attsOf, List.filterMap_cons, hx]
    exact this

theorem mem_attsOf {es : List Event} {l : Loc} {st : Option String} {t : Nat} {name d : String} {img : Bool} {time : Nat}
    (h : Event.attachment l st t name d img time ∈ es) : (t, name, d, img) ∈ attsOf es := by
  simp only [attsOf, List.mem_filterMap]
  exact ⟨_, h, rfl⟩

/-! ### the ledger -/

structure Rec where
  tid : Nat
  num : Nat
  filename : String
  description : String
  asImage : Bool
deriving DecidableEq, Repr

/-- the path the record's attachment has in the report: `attachments/%04d_<filename>` -/
def Rec.name (r : Rec) : String := attachName r.num r.filename
def Rec.view (r : Rec) : View := (r.tid, r.name, r.description, r.asImage)
def Rec.prep (r : Rec) : Prep := { tid := r.tid, name := r.name, description := r.description, asImage := r.asImage }

structure Book where
  count : Nat
  opened : List Rec        -- entered and not yet left, newest first
  reported : List Rec      -- left normally, oldest first
  aborted : List Rec       -- left by an exception
deriving Repr

def Book.init : Book := ⟨0, [], [], []⟩

/-- the newest open block of thread `t`, and the other open blocks -/
def takeFirst (t : Nat) : List Rec → Option (Rec × List Rec)
  | [] => none
  | r :: rs =>
    if r.tid == t then some (r, rs)
    else match takeFirst t rs with
      | some (x, rest) => some (x, r :: rest)
      | none => none

def Book.step (b : Book) (t : Nat) : Op → Book
  | .attach f d img => { b with count := b.count + 1, reported := b.reported ++ [⟨t, b.count + 1, f, d, img⟩] }
  | .attachBegin f d img => { b with count := b.count + 1, opened := ⟨t, b.count + 1, f, d, img⟩ :: b.opened }
  | .attachEnd =>
    match takeFirst t b.opened with
    | some (r, rest) => { b with opened := rest, reported := b.reported ++ [r] }
    | none => b
  | .attachAbort =>
    match takeFirst t b.opened with
    | some (r, rest) => { b with opened := rest, aborted := b.aborted ++ [r] }
    | none => b
  | _ => b

def Book.run (b : Book) : List (Nat × Op) → Book
  | [] => b
  | (t, op) :: rest => (b.step t op).run rest

def Book.all (b : Book) : List Rec := b.opened ++ b.reported ++ b.aborted

theorem takeFirst_find (t : Nat) (l : List Rec) :
    (l.map Rec.prep).find? (fun p => p.tid == t) = (takeFirst t l).map (fun x => x.1.prep) := by
  induction l with
  | nil => rfl
  | cons r rs ih =>
    simp only [List.map_cons, List.find?_cons, takeFirst]
    have : (Rec.prep r).tid = r.tid := rfl
    rw [this]
    by_cases h : (r.tid == t) = true
    · simp [h]
    · have h' : (r.tid == t) = false := by simpa using h
      simp only [h', ih]
      cases takeFirst t rs with
      | none => simp
      | some x => simp

theorem takeFirst_erase (t : Nat) (l : List Rec) :
    (l.map Rec.prep).eraseP (fun p => p.tid == t) =
      (match takeFirst t l with | some (_, rest) => rest.map Rec.prep | none => l.map Rec.prep) := by
  induction l with
  | nil => rfl
  | cons r rs ih =>
    simp only [List.map_cons, List.eraseP_cons, takeFirst]
    have : (Rec.prep r).tid = r.tid := rfl
    rw [this]
    by_cases h : (r.tid == t) = true
    · simp [h]
    · have h' : (r.tid == t) = false := by simpa using h
      simp only [h', ih]
      cases takeFirst t rs with
      | none => simp
      | some x => simp

theorem takeFirst_spec {t : Nat} {l : List Rec} {r : Rec} {rest : List Rec} (h : takeFirst t l = some (r, rest)) :
    r.tid = t ∧ l.Perm (r :: rest) := by
  induction l generalizing r rest with
  | nil => simp [takeFirst] at h
  | cons x xs ih =>
    simp only [takeFirst] at h
    by_cases hx : (x.tid == t) = true
    · simp only [hx, if_true] at h
      injection h with h; injection h with h1 h2; subst h1; subst h2
      exact ⟨by simpa using hx, List.Perm.refl _⟩
    · have hx' : (x.tid == t) = false := by simpa using hx
      simp only [hx'] at h
      cases ht : takeFirst t xs with
      | none => rw [ht] at h; simp at h
      | some p =>
        obtain ⟨y, rest'⟩ := p
        rw [ht] at h
        simp at h
        obtain ⟨h1, h2⟩ := h
        subst h1; subst h2
        obtain ⟨i1, i2⟩ := ih ht
        exact ⟨i1, (List.Perm.cons x i2).trans (List.Perm.swap _ _ _)⟩

/-! ### numbers are pairwise different -/

structure BInv (b : Book) : Prop where
  nodup : (b.all.map (·.num)).Nodup
  le : ∀ r ∈ b.all, r.num ≤ b.count

theorem binv_init : BInv Book.init := by
  constructor <;> simp [Book.init, Book.all]

theorem binv_perm {b b' : Book} (h : BInv b) (hp : b'.all.Perm b.all) (hc : b'.count = b.count) : BInv b' := by
  constructor
  · exact (List.Perm.nodup_iff (hp.map _)).mpr h.nodup
  · intro r hr; rw [hc]; exact h.le r (hp.mem_iff.mp hr)

theorem binv_new {b b' : Book} (h : BInv b) (r : Rec) (hr : r.num = b.count + 1)
    (hp : b'.all.Perm (r :: b.all)) (hc : b'.count = b.count + 1) : BInv b' := by
  constructor
  · refine (List.Perm.nodup_iff (hp.map _)).mpr ?_
    simp only [List.map_cons, List.nodup_cons]
    refine ⟨?_, h.nodup⟩
    intro hm
    obtain ⟨x, hx, hxn⟩ := List.mem_map.mp hm
    have := h.le x hx
    omega
  · intro x hx
    rw [hc]
    rcases List.mem_cons.mp (hp.mem_iff.mp hx) with e | e
    · subst e; omega
    · have := h.le x e; omega

theorem binv_step {b : Book} (h : BInv b) (t : Nat) (op : Op) : BInv (b.step t op) := by
  cases op with
  | attach f d img =>
    refine binv_new h ⟨t, b.count + 1, f, d, img⟩ rfl ?_ rfl
    show (b.opened ++ (b.reported ++ [_]) ++ b.aborted).Perm (_ :: (b.opened ++ b.reported ++ b.aborted))
    refine List.Perm.trans ?_ (List.perm_middle (l₁ := b.opened ++ b.reported) (l₂ := b.aborted))
    simp
  | attachBegin f d img =>
    exact binv_new h ⟨t, b.count + 1, f, d, img⟩ rfl (List.Perm.refl _) rfl
  | attachEnd =>
    simp only [Book.step]
    cases ht : takeFirst t b.opened with
    | none => exact h
    | some p =>
      obtain ⟨r, rest⟩ := p
      obtain ⟨_, hp⟩ := takeFirst_spec ht
      refine binv_perm h ?_ rfl
      show (rest ++ (b.reported ++ [r]) ++ b.aborted).Perm (b.opened ++ b.reported ++ b.aborted)
      refine List.Perm.append_right _ ?_
      refine List.Perm.trans ?_ (List.Perm.append_right _ hp.symm)
      rw [← List.append_assoc]
      refine List.Perm.trans List.perm_append_comm ?_
      simp
  | attachAbort =>
    simp only [Book.step]
    cases ht : takeFirst t b.opened with
    | none => exact h
    | some p =>
      obtain ⟨r, rest⟩ := p
      obtain ⟨_, hp⟩ := takeFirst_spec ht
      refine binv_perm h ?_ rfl
      show (rest ++ b.reported ++ (b.aborted ++ [r])).Perm (b.opened ++ b.reported ++ b.aborted)
      have h1 : (rest ++ b.reported ++ (b.aborted ++ [r])).Perm (r :: (rest ++ b.reported ++ b.aborted)) := by
        rw [← List.append_assoc]
        exact List.perm_append_singleton _ _
      refine h1.trans ?_
      have h2 : (r :: (rest ++ b.reported ++ b.aborted)) = (r :: rest) ++ b.reported ++ b.aborted := by simp
      rw [h2]
      exact List.Perm.append_right _ (List.Perm.append_right _ hp.symm)
  | _ => exact h

theorem binv_run : ∀ (ops : List (Nat × Op)) (b : Book), BInv b → BInv (b.run ops)
  | [], _, h => h
  | (t, op) :: rest, b, h => binv_run rest (b.step t op) (binv_step h t op)

/-- the numbers of all blocks ever entered — open, reported, aborted — are pairwise different -/
theorem book_nums (ops : List (Nat × Op)) : (((Book.init.run ops).all).map (·.num)).Nodup :=
  (binv_run ops Book.init binv_init).nodup

/-! ### every record was created by an `attachBegin` / `attach` of its own thread -/

/-- `op`, issued by the record's thread, enters the block the record stands for -/
def Creates (op : Op) (r : Rec) : Prop :=
  op = .attach r.filename r.description r.asImage ∨ op = .attachBegin r.filename r.description r.asImage

theorem step_recs {b : Book} {t : Nat} {op : Op} {r : Rec} (h : r ∈ (b.step t op).all) :
    r ∈ b.all ∨ (Creates op r ∧ r.tid = t ∧ r.num = b.count + 1) := by
  cases op with
  | attach f d img =>
    have h' : r ∈ b.opened ++ (b.reported ++ [⟨t, b.count + 1, f, d, img⟩]) ++ b.aborted := h
    simp only [List.mem_append, List.mem_singleton] at h'
    rcases h' with (h1 | h1 | h1) | h1
    · exact Or.inl (by simp [Book.all, h1])
    · exact Or.inl (by simp [Book.all, h1])
    · subst h1; exact Or.inr ⟨Or.inl rfl, rfl, rfl⟩
    · exact Or.inl (by simp [Book.all, h1])
  | attachBegin f d img =>
    have h' : r ∈ (⟨t, b.count + 1, f, d, img⟩ :: b.opened) ++ b.reported ++ b.aborted := h
    simp only [List.mem_append, List.mem_cons] at h'
    rcases h' with ((h1 | h1) | h1) | h1
    · subst h1; exact Or.inr ⟨Or.inr rfl, rfl, rfl⟩
    · exact Or.inl (by simp [Book.all, h1])
    · exact Or.inl (by simp [Book.all, h1])
    · exact Or.inl (by simp [Book.all, h1])
  | attachEnd =>
    simp only [Book.step] at h
    cases ht : takeFirst t b.opened with
    | none => rw [ht] at h; exact Or.inl h
    | some p =>
      obtain ⟨x, rest⟩ := p
      rw [ht] at h
      obtain ⟨_, hp⟩ := takeFirst_spec ht
      have h' : r ∈ rest ++ (b.reported ++ [x]) ++ b.aborted := h
      simp only [List.mem_append, List.mem_singleton] at h'
      left
      simp only [Book.all, List.mem_append]
      rcases h' with (h1 | h1 | h1) | h1
      · exact Or.inl (Or.inl (hp.mem_iff.mpr (by simp [h1])))
      · exact Or.inl (Or.inr h1)
      · subst h1; exact Or.inl (Or.inl (hp.mem_iff.mpr (by simp)))
      · exact Or.inr h1
  | attachAbort =>
    simp only [Book.step] at h
    cases ht : takeFirst t b.opened with
    | none => rw [ht] at h; exact Or.inl h
    | some p =>
      obtain ⟨x, rest⟩ := p
      rw [ht] at h
      obtain ⟨_, hp⟩ := takeFirst_spec ht
      have h' : r ∈ rest ++ b.reported ++ (b.aborted ++ [x]) := h
      simp only [List.mem_append, List.mem_singleton] at h'
      left
      simp only [Book.all, List.mem_append]
      rcases h' with (h1 | h1) | h1 | h1
      · exact Or.inl (Or.inl (hp.mem_iff.mpr (by simp [h1])))
      · exact Or.inl (Or.inr h1)
      · exact Or.inr h1
      · subst h1; exact Or.inl (Or.inl (hp.mem_iff.mpr (by simp)))
  | _ => exact Or.inl h

theorem rec_origin_from : ∀ (ops : List (Nat × Op)) (b : Book) (r : Rec), r ∈ (b.run ops).all →
    r ∈ b.all ∨ ∃ pre post op, ops = pre ++ (r.tid, op) :: post ∧ Creates op r ∧ r.num = (b.run pre).count + 1
  | [], _, _, h => Or.inl h
  | (t, o) :: rest, b, r, h => by
    rcases rec_origin_from rest (b.step t o) r h with h1 | ⟨pre, post, op, h2, h3, h4⟩
    · rcases step_recs h1 with h5 | ⟨h5, h6, h7⟩
      · exact Or.inl h5
      · subst h6
        exact Or.inr ⟨[], rest, o, rfl, h5, h7⟩
    · exact Or.inr ⟨(t, o) :: pre, post, op, by rw [h2]; rfl, h3, h4⟩

/-- every record of the ledger was created by an `attach` / `attachBegin` call of the record's own thread,
    which carried the record's file name, description and image flag and was handed the next number -/
theorem rec_origin (ops : List (Nat × Op)) (r : Rec) (h : r ∈ (Book.init.run ops).all) :
    ∃ pre post op, ops = pre ++ (r.tid, op) :: post ∧ Creates op r ∧ r.num = (Book.init.run pre).count + 1 := by
  rcases rec_origin_from ops Book.init r h with h1 | h1
  · simp [Book.init, Book.all] at h1
  · exact h1

/-! ### the stream's attachment events are the reported records -/

/-- effect of a block of the session code on what the ledger tracks -/
structure Frame (s s' : St) (new : List View) : Prop where
  fired : attsOf s'.fired = attsOf s.fired ++ new
  count : s'.attachCount = s.attachCount
  prepared : s'.prepared = s.prepared

theorem Frame.refl (s : St) : Frame s s [] := ⟨by simp, rfl, rfl⟩

theorem Frame.trans {s s1 s2 : St} {n1 n2 : List View} (h1 : Frame s s1 n1) (h2 : Frame s1 s2 n2) :
    Frame s s2 (n1 ++ n2) :=
  ⟨by rw [h2.fired, h1.fired, List.append_assoc], by rw [h2.count, h1.count], by rw [h2.prepared, h1.prepared]⟩

theorem Frame.of_eq {s s' : St} (hf : s'.fired = s.fired) (hc : s'.attachCount = s.attachCount)
    (hp : s'.prepared = s.prepared) : Frame s s' [] := ⟨by rw [hf]; simp, hc, hp⟩

theorem Frame.fire_plain (s : St) {e : Event} (he : attOf e = none) : Frame s (fire s e) [] :=
  ⟨by show attsOf (s.fired ++ [e]) = _; rw [attsOf_append]; simp [attsOf, he], rfl, rfl⟩

theorem Frame.markFailed (s : St) (l : Loc) : Frame s (markFailed s l) [] := by
  unfold Session.markFailed
  split
  · exact Frame.refl s
  · exact Frame.of_eq rfl rfl rfl

theorem Frame.setCursor {s s1 : St} {n : List View} (h : Frame s s1 n) (a : Nat) (c : Cursor) :
    Frame s (setCursor s1 a c) n := ⟨h.fired, h.count, h.prepared⟩

theorem frame_discardOrFire (s : St) (c : Cursor) (cls : Event → Bool) {e : Event} (he : attOf e = none) :
    Frame s (discardOrFire s c cls e).1 [] := by
  unfold discardOrFire
  cases c.pending.getLast? with
  | none => exact Frame.fire_plain s he
  | some last =>
    simp only
    split
    · exact Frame.refl s
    · exact Frame.fire_plain s he

theorem frame_endStepIfAny (s : St) (a : Nat) (c : Cursor) : Frame s (endStepIfAny s a c).1 [] := by
  unfold endStepIfAny
  cases c.step with
  | none => exact Frame.refl s
  | some d =>
    simp only
    have h1 : Frame s (tick s) [] := Frame.of_eq rfl rfl rfl
    have h2 := frame_discardOrFire (tick s) c isStepStart (e := Event.stepEnd c.loc d a s.now) rfl
    have := h1.trans h2
    simpa using this

theorem frame_stepped {s s' : St} {a : Nat} {failing : Bool} {mk : Loc → Option String → Nat → Event}
    (hinv : Inv s) (x : Option View) (hmk : ∀ l st n, attOf (mk l st n) = x)
    (h : stepped s a failing mk = .ok s') : Frame s s' x.toList := by
  unfold stepped at h
  obtain ⟨c, hg, h⟩ := withCursor_ok h
  have hpend : attsOf c.pending = [] := attsOf_of_not_logLike (hinv.curs a c hg).pending_not_logLike
  simp only [flush] at h
  injection h with h
  subst h
  have h1 : Frame s (fireAll s c.pending) [] :=
    ⟨by show attsOf (s.fired ++ c.pending) = _; rw [attsOf_append, hpend], rfl, rfl⟩
  have h2 : Frame s (if failing = true then Session.markFailed (fireAll s c.pending) c.loc else fireAll s c.pending) [] := by
    split
    · simpa using h1.trans (Frame.markFailed _ _)
    · exact h1
  generalize (if failing = true then Session.markFailed (fireAll s c.pending) c.loc else fireAll s c.pending) = s2 at h2
  refine ⟨?_, h2.count, h2.prepared⟩
  show attsOf (s2.fired ++ [mk c.loc c.step s2.now]) = _
  rw [attsOf_append, h2.fired]
  have hx := hmk c.loc c.step s2.now
  cases x <;> simp [attsOf, hx]

structure Link (b : Book) (s : St) : Prop where
  count : s.attachCount = b.count
  prepared : s.prepared = b.opened.map Rec.prep
  fired : attsOf s.fired = b.reported.map Rec.view

theorem link_init : Link Book.init St.init := ⟨rfl, rfl, rfl⟩

theorem Link.frame {b : Book} {s s' : St} (h : Link b s) (hf : Frame s s' []) : Link b s' :=
  ⟨by rw [hf.count, h.count], by rw [hf.prepared, h.prepared], by rw [hf.fired, h.fired]; simp⟩

theorem frame_endPhase {s s' : St} {a : Nat} {cls : Event → Bool} {mk : Nat → Event}
    (hmk : ∀ n, attOf (mk n) = none) (h : endPhase s a cls mk = .ok s') : Frame s s' [] := by
  unfold endPhase at h
  obtain ⟨c, _, h⟩ := withCursor_ok h
  have h1 := frame_endStepIfAny s a c
  rcases he : endStepIfAny s a c with ⟨s1, c1⟩
  rw [he] at h h1
  simp only at h h1
  have h2 : Frame s1 (tick s1) [] := Frame.of_eq rfl rfl rfl
  have h3 := frame_discardOrFire (tick s1) c1 cls (e := mk s1.now) (hmk _)
  rcases hd : discardOrFire (tick s1) c1 cls (mk s1.now) with ⟨s2, c2⟩
  rw [hd] at h h3
  simp only at h h3
  injection h with h; subst h
  exact ((h1.trans h2).trans h3).setCursor a c2

theorem frame_endStepStore {s : St} {a : Nat} {c : Cursor} :
    Frame s (setCursor (endStepIfAny s a c).1 a (endStepIfAny s a c).2) [] := by
  have h1 := frame_endStepIfAny s a c
  exact ⟨h1.fired, h1.count, h1.prepared⟩

/-- one accepted API call keeps the ledger and the session state in step -/
theorem link_step {b : Book} {s s' : St} {a : Nat} {op : Op} (hl : Link b s) (hinv : Inv s)
    (h : step s a op = .ok s') : Link (b.step a op) s' := by
  cases op with
  | startTestSession | endTestSession =>
    simp only [step] at h; injection h with h; subst h
    exact hl.frame (by simpa using (Frame.of_eq (s := s) (s' := tick s) rfl rfl rfl).trans (Frame.fire_plain _ rfl))
  | startSuite p md | endSuite p | disableTest p md r =>
    simp only [step] at h; injection h with h; subst h
    exact hl.frame (by simpa using (Frame.of_eq (s := s) (s' := tick s) rfl rfl rfl).trans (Frame.fire_plain _ rfl))
  | skipTest p md r =>
    simp only [step] at h; injection h with h; subst h
    exact hl.frame (by
      simpa using ((Frame.of_eq (s := s) (s' := tick s) rfl rfl rfl).trans (Frame.fire_plain _ rfl)).trans
        (Frame.markFailed _ _))
  | startSessionSetup | startSessionTeardown =>
    simp only [step] at h; injection h with h; subst h
    exact hl.frame (Frame.of_eq rfl rfl rfl)
  | startSuiteSetup p | startSuiteTeardown p =>
    simp only [step] at h; injection h with h; subst h
    exact hl.frame (Frame.of_eq rfl rfl rfl)
  | endSessionSetup | endSessionTeardown =>
    simp only [step] at h
    exact hl.frame (frame_endPhase (fun _ => rfl) h)
  | endSuiteSetup p | endSuiteTeardown p =>
    simp only [step] at h
    exact hl.frame (frame_endPhase (fun _ => rfl) h)
  | startTest p md =>
    simp only [step] at h; injection h with h; subst h
    refine hl.frame ?_
    exact ((Frame.of_eq (s := s) (s' := tick s) rfl rfl rfl).trans
      (Frame.fire_plain (tick s) (e := Event.testStart p md s.now) rfl)).setCursor a _
  | endTest p =>
    simp only [step] at h
    obtain ⟨c, _, h⟩ := withCursor_ok h
    have h1 := frame_endStepIfAny s a c
    rcases he : endStepIfAny s a c with ⟨s1, c1⟩
    rw [he] at h h1
    simp only at h h1
    injection h with h; subst h
    refine hl.frame ?_
    exact ((h1.trans (Frame.of_eq (s := s1) (s' := tick s1) rfl rfl rfl)).trans
      (Frame.fire_plain (tick s1) (e := Event.testEnd p s1.now) rfl)).setCursor a c1
  | setStep d =>
    simp only [step] at h
    obtain ⟨c, _, h⟩ := withCursor_ok h
    have h1 := frame_endStepIfAny s a c
    rcases he : endStepIfAny s a c with ⟨s1, c1⟩
    rw [he] at h h1
    simp only at h h1
    injection h with h; subst h
    exact hl.frame ⟨h1.fired, h1.count, h1.prepared⟩
  | endStep =>
    simp only [step] at h
    obtain ⟨c, _, h⟩ := withCursor_ok h
    cases hst : c.step with
    | none => rw [hst] at h; cases h
    | some d =>
      rw [hst] at h
      simp only at h
      injection h with h; subst h
      exact hl.frame frame_endStepStore
  | threadEnd =>
    simp only [step] at h
    obtain ⟨c, _, h⟩ := withCursor_ok h
    cases hst : c.step with
    | none => rw [hst] at h; cases h
    | some d =>
      rw [hst] at h
      simp only at h
      injection h with h; subst h
      exact hl.frame frame_endStepStore
  | log level msg =>
    simp only [step] at h
    exact hl.frame (frame_stepped hinv none (fun _ _ _ => rfl) h)
  | check d ok det =>
    simp only [step] at h
    exact hl.frame (frame_stepped hinv none (fun _ _ _ => rfl) h)
  | url u d =>
    simp only [step] at h
    exact hl.frame (frame_stepped hinv none (fun _ _ _ => rfl) h)
  | attach f d img =>
    simp only [step] at h
    have hinv2 : Inv { s with attachCount := s.attachCount + 1 } := hinv.congr rfl rfl
    have hf := frame_stepped hinv2 (some (a, attachName (s.attachCount + 1) f, d, img)) (fun _ _ _ => rfl) h
    refine ⟨?_, ?_, ?_⟩
    · rw [hf.count]; show s.attachCount + 1 = b.count + 1; rw [hl.count]
    · rw [hf.prepared]; exact hl.prepared
    · rw [hf.fired]
      show attsOf s.fired ++ _ = (b.reported ++ [_]).map Rec.view
      rw [hl.fired, List.map_append, ← hl.count]
      rfl
  | attachBegin f d img =>
    simp only [step] at h; injection h with h; subst h
    refine ⟨?_, ?_, ?_⟩
    · show s.attachCount + 1 = b.count + 1; rw [hl.count]
    · show _ :: s.prepared = (_ :: b.opened).map Rec.prep
      rw [hl.prepared, ← hl.count]; rfl
    · exact hl.fired
  | attachEnd =>
    simp only [step] at h
    cases hf : s.prepared.find? (fun p => p.tid == a) with
    | none => rw [hf] at h; cases h
    | some p =>
      rw [hf] at h; simp only at h
      have hinv2 : Inv { s with prepared := s.prepared.eraseP (fun p => p.tid == a) } := hinv.congr rfl rfl
      have hfr := frame_stepped hinv2 (some (a, p.name, p.description, p.asImage)) (fun _ _ _ => rfl) h
      rw [hl.prepared, takeFirst_find] at hf
      have her := takeFirst_erase a b.opened
      simp only [Book.step]
      cases ht : takeFirst a b.opened with
      | none => rw [ht] at hf; simp at hf
      | some q =>
        obtain ⟨r, rest⟩ := q
        rw [ht] at hf her
        simp at hf
        obtain ⟨htid, _⟩ := takeFirst_spec ht
        refine ⟨?_, ?_, ?_⟩
        · rw [hfr.count]; exact hl.count
        · rw [hfr.prepared]
          show s.prepared.eraseP _ = rest.map Rec.prep
          rw [hl.prepared, her]
        · rw [hfr.fired]
          show attsOf s.fired ++ _ = (b.reported ++ [r]).map Rec.view
          rw [hl.fired, List.map_append, ← hf, ← htid]
          rfl
  | attachAbort =>
    simp only [step] at h
    cases hf : s.prepared.find? (fun p => p.tid == a) with
    | none => rw [hf] at h; cases h
    | some p =>
      rw [hf] at h; simp only at h; injection h with h; subst h
      rw [hl.prepared, takeFirst_find] at hf
      have her := takeFirst_erase a b.opened
      simp only [Book.step]
      cases ht : takeFirst a b.opened with
      | none => rw [ht] at hf; simp at hf
      | some q =>
        obtain ⟨r, rest⟩ := q
        rw [ht] at her
        refine ⟨hl.count, ?_, hl.fired⟩
        show s.prepared.eraseP _ = rest.map Rec.prep
        rw [hl.prepared, her]
  | threadCreate newTid =>
    simp only [step] at h
    obtain ⟨c, hg, h⟩ := withCursor_ok h
    have hc := hinv.curs a c hg
    split at h
    · cases h
    · cases hpend : c.pending with
      | nil =>
        rw [hpend] at h
        simp only at h
        injection h with h; subst h
        exact hl.frame (Frame.of_eq rfl rfl rfl)
      | cons e rest =>
        rw [hpend] at h
        simp only at h
        by_cases hss : isStepStart e = true
        · rw [if_pos hss] at h
          simp only at h
          injection h with h; subst h
          exact hl.frame (Frame.of_eq rfl rfl rfl)
        · rw [if_neg hss] at h
          simp only at h
          injection h with h; subst h
          have he : attOf e = none :=
            attOf_of_not_logLike (hc.pending_not_logLike e (by rw [hpend]; simp))
          have := Frame.fire_plain s he
          exact hl.frame ⟨this.fired, this.count, this.prepared⟩
  | threadRun =>
    simp only [step] at h
    cases hf : s.saved.find? (fun p => p.1 == a) with
    | none => rw [hf] at h; cases h
    | some p =>
      obtain ⟨t0, c, dflt⟩ := p
      rw [hf] at h
      simp only at h
      cases dflt with
      | none => cases h
      | some d =>
        simp only at h
        injection h with h; subst h
        exact hl.frame (Frame.of_eq rfl rfl rfl)

theorem link_runOps : ∀ (ops : List (Nat × Op)) (b : Book) (s s' : St), Link b s → Inv s →
    runOps s ops = .ok s' → Link (b.run ops) s'
  | [], _, _, _, hl, _, h => by simp only [runOps] at h; injection h with h; subst h; exact hl
  | (a, op) :: rest, b, s, s', hl, hinv, h => by
    simp only [runOps] at h
    cases hs : step s a op with
    | error e => rw [hs] at h; cases h
    | ok s1 =>
      rw [hs] at h
      exact link_runOps rest (b.step a op) s1 s' (link_step hl hinv hs) (step_spec hinv hs).inv h

end LccModel.SessionAttach

/-
  Lemmas for C18 on LOADED reports: a report that went through a file (`Serial.loaded g r`: children in accessor
  order, every rank 0) still satisfies the guards of the replay theorems, and on a report whose ranks are all 0 the
  accessor view is the list the report holds — so nothing in `fold ∘ replay` can lean on the ranks to restore an order.
-/
import LccModel.Lemmas.Replay
import LccModel.Lemmas.ReplayGrammar
import LccModel.Lemmas.Serial
set_option linter.unusedSimpArgs false
set_option linter.unusedVariables false

namespace LccModel.Replay
open LccModel.Report LccModel.Writer LccModel.Serial LccModel.ReplayGrammar

/-- all ranks 0 (a loaded report): the accessors return the children in the order the report holds them -/
theorem view_of_zero (r : Report) (hz : ranksZeroList r.suites = true) : view r = r.suites := by
  unfold view
  rw [sortDeepList_of_zero _ hz]
  exact sortByRank_of_const suiteRank 0 _ (fun s hs => ranksZero_rank s ((ranksZeroList_iff _).mp hz s hs))

/-! ### the accessor view is idempotent: reading a report through the accessors twice shows the same thing -/

theorem insertByRank_sorted {α : Type} (rank : α → Nat) (x : α) :
    ∀ l : List α, l.Pairwise (fun a b => rank a ≤ rank b) → (insertByRank rank x l).Pairwise (fun a b => rank a ≤ rank b)
  | [], _ => by simp [insertByRank]
  | y :: ys, h => by
    have hy := List.pairwise_cons.mp h
    simp only [insertByRank]
    split
    · rename_i hxy
      refine List.pairwise_cons.mpr ⟨?_, h⟩
      intro z hz
      rcases List.mem_cons.mp hz with rfl | hz
      · exact hxy
      · exact Nat.le_trans hxy (hy.1 z hz)
    · rename_i hxy
      refine List.pairwise_cons.mpr ⟨?_, insertByRank_sorted rank x ys hy.2⟩
      intro z hz
      have := (insertByRank_perm rank x ys).mem_iff.mp hz
      rcases List.mem_cons.mp this with rfl | hz
      · omega
      · exact hy.1 z hz

theorem sortByRank_sorted {α : Type} (rank : α → Nat) : ∀ l : List α, (sortByRank rank l).Pairwise (fun a b => rank a ≤ rank b)
  | [] => by simp [sortByRank]
  | x :: xs => by simp only [sortByRank]; exact insertByRank_sorted rank x _ (sortByRank_sorted rank xs)

theorem sortByRank_of_sorted {α : Type} (rank : α → Nat) :
    ∀ l : List α, l.Pairwise (fun a b => rank a ≤ rank b) → sortByRank rank l = l
  | [], _ => rfl
  | x :: xs, h => by
    have hx := List.pairwise_cons.mp h
    simp only [sortByRank, sortByRank_of_sorted rank xs hx.2]
    apply insertByRank_of_le_head
    intro y hy
    cases xs with
    | nil => simp at hy
    | cons z zs => simp at hy; subst hy; exact hx.1 _ (by simp)

theorem sortByRank_idem {α : Type} (rank : α → Nat) (l : List α) : sortByRank rank (sortByRank rank l) = sortByRank rank l :=
  sortByRank_of_sorted rank _ (sortByRank_sorted rank l)

theorem sortDeep_rank (s : SuiteResult) : suiteRank (sortDeep s) = suiteRank s := by
  cases s; simp [sortDeep, suiteRank, SuiteResult.md]

theorem sortDeepList_eq_map : ∀ ss : List SuiteResult, sortDeepList ss = ss.map sortDeep
  | [] => rfl
  | s :: ss => by simp [sortDeepList, sortDeepList_eq_map ss]

theorem sortDeepList_sortByRank (ss : List SuiteResult) :
    sortDeepList (sortByRank suiteRank ss) = sortByRank suiteRank (sortDeepList ss) := by
  rw [sortDeepList_eq_map, sortDeepList_eq_map, map_sortByRank suiteRank suiteRank sortDeep sortDeep_rank]

mutual
theorem sortDeep_idem : ∀ s : SuiteResult, sortDeep (sortDeep s) = sortDeep s
  | .mk md st en su td ts ss => by
    simp only [sortDeep]
    rw [sortByRank_idem, sortDeepList_sortByRank, sortDeepList_idem ss, sortByRank_idem]
theorem sortDeepList_idem : ∀ ss : List SuiteResult, sortDeepList (sortDeepList ss) = sortDeepList ss
  | [] => rfl
  | s :: ss => by simp only [sortDeepList, sortDeep_idem s, sortDeepList_idem ss]
end

/-- a report that holds its suites as the accessors of `r` present them is seen by its readers exactly as `r` is -/
theorem view_view (r r' : Report) (h : r'.suites = view r) : view r' = view r := by
  unfold view at *
  rw [h, sortDeepList_sortByRank, sortDeepList_idem, sortByRank_idem]

/-! ### `clearRanks` touches nothing but the ranks -/

theorem clearRanks_name (s : SuiteResult) : (clearRanks s).md.name = s.md.name := by
  cases s; simp [clearRanks, SuiteResult.md, zeroRank]

theorem clearRanksList_names : ∀ ss : List SuiteResult, suiteNames (clearRanksList ss) = suiteNames ss
  | [] => rfl
  | s :: ss => by
    have := clearRanksList_names ss
    simp only [suiteNames] at this ⊢
    simp [clearRanksList, clearRanks_name, this]

theorem clearTest_names (ts : List TestResult) : (ts.map clearTest).map (fun t => t.md.name) = ts.map (fun t => t.md.name) := by
  simp [List.map_map, Function.comp_def, clearTest, zeroRank]

mutual
theorem suiteNamesOk_clear : ∀ s : SuiteResult, suiteNamesOk (clearRanks s) = suiteNamesOk s
  | .mk md st en su td ts ss => by
    simp only [clearRanks, suiteNamesOk, clearTest_names, clearRanksList_names, suitesNamesOk_clear ss]
theorem suitesNamesOk_clear : ∀ ss : List SuiteResult, suitesNamesOk (clearRanksList ss) = suitesNamesOk ss
  | [] => rfl
  | s :: ss => by simp only [clearRanksList, suitesNamesOk, suiteNamesOk_clear s, suitesNamesOk_clear ss]
end

theorem all_clearTest (p : TestResult → Bool) (hp : ∀ t, p (clearTest t) = p t) (ts : List TestResult) :
    (ts.map clearTest).all p = ts.all p := by
  induction ts with
  | nil => rfl
  | cons t ts ih => simp [List.all_cons, hp t, ih]

theorem testExact_clear (t : TestResult) : testExact (clearTest t) = testExact t := by
  simp [testExact, clearTest]

theorem testFinished_clear (t : TestResult) : testFinished (clearTest t) = testFinished t := by
  simp [testFinished, clearTest]

mutual
theorem suiteExact_clear : ∀ s : SuiteResult, suiteExact (clearRanks s) = suiteExact s
  | .mk md st en su td ts ss => by
    simp only [clearRanks, suiteExact, all_clearTest testExact testExact_clear ts, suitesExact_clear ss]
theorem suitesExact_clear : ∀ ss : List SuiteResult, suitesExact (clearRanksList ss) = suitesExact ss
  | [] => rfl
  | s :: ss => by simp only [clearRanksList, suitesExact, suiteExact_clear s, suitesExact_clear ss]
end

mutual
theorem suiteFinished_clear : ∀ s : SuiteResult, suiteFinished (clearRanks s) = suiteFinished s
  | .mk md st en su td ts ss => by
    simp only [clearRanks, suiteFinished, all_clearTest testFinished testFinished_clear ts, suitesFinished_clear ss]
theorem suitesFinished_clear : ∀ ss : List SuiteResult, suitesFinished (clearRanksList ss) = suitesFinished ss
  | [] => rfl
  | s :: ss => by simp only [clearRanksList, suitesFinished, suiteFinished_clear s, suitesFinished_clear ss]
end

mutual
theorem ranksZero_clear : ∀ s : SuiteResult, ranksZero (clearRanks s) = true
  | .mk md st en su td ts ss => by
    simp only [clearRanks, ranksZero, Bool.and_eq_true, List.all_eq_true]
    refine ⟨⟨by simp [zeroRank], ?_⟩, ranksZeroList_clear ss⟩
    intro t ht
    obtain ⟨t0, _, rfl⟩ := List.mem_map.mp ht
    simp [clearTest, zeroRank]
theorem ranksZeroList_clear : ∀ ss : List SuiteResult, ranksZeroList (clearRanksList ss) = true
  | [] => rfl
  | s :: ss => by simp only [clearRanksList, ranksZeroList, Bool.and_eq_true]; exact ⟨ranksZero_clear s, ranksZeroList_clear ss⟩
end

/-! ### the guards survive save + load -/

theorem ranksZero_loaded (g : Time) (r : Report) : ranksZeroList (loaded g r).suites = true := by
  simp only [loaded]; exact ranksZeroList_clear _

theorem namesOk_loaded (g : Time) (r : Report) (h : namesOk r = true) : namesOk (loaded g r) = true := by
  obtain ⟨h1, h2⟩ := namesOk_view r h
  simp only [namesOk, loaded, Bool.and_eq_true, clearRanksList_names, suitesNamesOk_clear]
  exact ⟨(distinct_iff _).mpr h1, h2⟩

theorem replayExact_loaded (g : Time) (r : Report) (h : replayExact r = true) : replayExact (loaded g r) = true := by
  simp only [replayExact, Bool.and_eq_true] at h ⊢
  obtain ⟨⟨⟨⟨h1, h2⟩, h3⟩, h4⟩, h5⟩ := h
  refine ⟨⟨⟨⟨h1, h2⟩, h3⟩, h4⟩, ?_⟩
  simp only [loaded, suitesExact_clear]
  exact suitesExact_view r h5

theorem finished_loaded (g : Time) (r : Report) (h : finished r = true) : finished (loaded g r) = true := by
  simp only [finished, Bool.and_eq_true] at h ⊢
  obtain ⟨⟨⟨h1, h2⟩, h3⟩, h4⟩ := h
  refine ⟨⟨⟨h1, h2⟩, h3⟩, ?_⟩
  simp only [loaded, suitesFinished_clear]
  exact suitesFinished_view r h4

end LccModel.Replay

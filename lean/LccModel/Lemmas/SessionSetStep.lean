import LccModel.Lemmas.SessionIso

/-!
  `set_step` ALWAYS opens a new step — also when the description is the one of the step that is current
  (a polling loop calling `lcc.set_step("poll device")` again and again): the next record of the thread is
  preceded, in the fired stream, by a fresh `StepStart` of that thread carrying the description, fired after
  everything that was in the stream before the call.
-/
namespace LccModel.Session
open LccModel.Report LccModel.SessionIso

/-- the state right after `set_step(d)`: the cursor's current step is `d` and the LAST held event is the
    `StepStart` of the new step — whatever the step before was (none, another one, `d` itself) -/
theorem step_setStep_spec {s s' : St} {tid : Nat} {d : String} (h : step s tid (.setStep d) = .ok s') :
    ∃ c c', getCursor s tid = some c ∧ getCursor s' tid = some c' ∧ c'.loc = c.loc ∧ c'.step = some d ∧
      (∃ t, c'.pending.getLast? = some (.stepStart c.loc d tid t)) ∧ ∃ pre, s'.fired = s.fired ++ pre := by
  unfold step withCursor at h
  cases hc : getCursor s tid with
  | none => rw [hc] at h; cases h
  | some c =>
    rw [hc] at h
    simp only at h
    cases hst : c.step with
    | none =>
      simp only [endStepIfAny, hst] at h
      injection h with h; subst h
      refine ⟨c, _, rfl, getCursor_setCursor_same _ _ _, rfl, rfl, ?_, [], ?_⟩
      · simp
      · simp [setCursor, tick]
    | some d0 =>
      simp only [endStepIfAny, hst, discardOrFire] at h
      cases hl : c.pending.getLast? with
      | none =>
        simp only [hl] at h
        injection h with h; subst h
        refine ⟨c, _, rfl, getCursor_setCursor_same _ _ _, rfl, rfl, ?_, [.stepEnd c.loc d0 tid s.now], ?_⟩
        · simp
        · simp [setCursor, tick, fire]
      | some last =>
        simp only [hl] at h
        by_cases hls : isStepStart last = true
        · simp only [hls, if_true] at h
          injection h with h; subst h
          refine ⟨c, _, rfl, getCursor_setCursor_same _ _ _, rfl, rfl, ?_, [], ?_⟩
          · simp
          · simp [setCursor, tick]
        · simp only [hls] at h
          injection h with h; subst h
          refine ⟨c, _, rfl, getCursor_setCursor_same _ _ _, rfl, rfl, ?_, [.stepEnd c.loc d0 tid s.now], ?_⟩
          · simp
          · simp [setCursor, tick, fire]

/-- a record (log / check / url / attachment: anything going through `stepped`) issued when the last held
    event of the cursor is `e0`: `e0` is fired immediately before the record's own event, after everything
    that was in the stream -/
theorem stepped_fires_last_held {s s' : St} {tid : Nat} {failing : Bool} {mk : Loc → Option String → Nat → Event}
    {c : Cursor} {e0 : Event} (hc : getCursor s tid = some c) (hl : c.pending.getLast? = some e0)
    (h : stepped s tid failing mk = .ok s') :
    ∃ pre t, s'.fired = s.fired ++ pre ++ [e0, mk c.loc c.step t] := by
  unfold stepped withCursor at h
  rw [hc] at h
  simp only [flush] at h
  injection h with h; subst h
  obtain ⟨init, hinit⟩ := List.getLast?_eq_some_iff.mp hl
  by_cases hf : failing = true
  · refine ⟨init, s.now, ?_⟩
    simp only [hf, if_true, setCursor, fire, tick, fireAll, markFailed, hinit]
    split <;> simp
  · refine ⟨init, s.now, ?_⟩
    simp [hf, setCursor, fire, tick, fireAll, hinit]

end LccModel.Session

namespace LccModel.Session
open LccModel.Report LccModel.SessionIso

/-- the calls that put a record into the current step: log, check, url, attachment (one call, or leaving
    a `with prepare_attachment` block) -/
def isRecord : Op → Bool
  | .log .. | .check .. | .url .. | .attach .. | .attachEnd => true
  | _ => false

/-- **`set_step(d)` followed by a record of the same thread**: whatever the step before was — none, another
    one, or a step with the very same description `d` — the record's event is immediately preceded, in the
    stream, by a NEW `StepStart(loc, d, thread)` fired after everything that was in the stream before the
    `set_step` call, and the record names step `d` at the cursor's location. -/
theorem record_after_setStep {s s1 s2 : St} {tid : Nat} {d : String} {op : Op} (hop : isRecord op = true)
    (h1 : step s tid (.setStep d) = .ok s1) (h2 : step s1 tid op = .ok s2) :
    ∃ c pre t e, getCursor s tid = some c ∧ s2.fired = s.fired ++ pre ++ [.stepStart c.loc d tid t, e] ∧
      logLike e = true ∧ evTid e = some tid ∧ evLoc e = some c.loc ∧ evStep e = some d := by
  obtain ⟨c, c', hc, hc', hloc, hstep, ⟨t, hlast⟩, pre1, hf1⟩ := step_setStep_spec h1
  have key : ∀ (s1' : St) (failing : Bool) (mk : Loc → Option String → Nat → Event),
      getCursor s1' tid = some c' → s1'.fired = s1.fired → stepped s1' tid failing mk = .ok s2 →
      (∀ l st n, logLike (mk l st n) = true ∧ evTid (mk l st n) = some tid ∧ evLoc (mk l st n) = some l ∧
        evStep (mk l st n) = st) →
      ∃ c pre t e, getCursor s tid = some c ∧ s2.fired = s.fired ++ pre ++ [.stepStart c.loc d tid t, e] ∧
        logLike e = true ∧ evTid e = some tid ∧ evLoc e = some c.loc ∧ evStep e = some d := by
    intro s1' failing mk hg hfe hs hmk
    obtain ⟨pre2, t2, hf2⟩ := stepped_fires_last_held hg hlast hs
    refine ⟨c, pre1 ++ pre2, t, mk c'.loc c'.step t2, hc, ?_, (hmk _ _ _).1, (hmk _ _ _).2.1, ?_, ?_⟩
    · rw [hf2, hfe, hf1]; simp
    · rw [(hmk _ _ _).2.2.1, hloc]
    · rw [(hmk _ _ _).2.2.2, hstep]
  cases op <;> simp [isRecord] at hop
  case log lv m =>
    exact key s1 (lv == .error) (fun loc st t => .log loc st tid lv m t) hc' rfl h2 (fun l st n => ⟨rfl, rfl, rfl, rfl⟩)
  case check dd ok det =>
    exact key s1 (ok == false) (fun loc st t => .check loc st tid dd ok det t) hc' rfl h2 (fun l st n => ⟨rfl, rfl, rfl, rfl⟩)
  case url u dd =>
    exact key s1 false (fun loc st t => .url loc st tid u dd t) hc' rfl h2 (fun l st n => ⟨rfl, rfl, rfl, rfl⟩)
  case attach f dd img =>
    exact key { s1 with attachCount := s1.attachCount + 1 } false
      (fun loc st t => .attachment loc st tid (attachName (s1.attachCount + 1) f) dd img t) hc' rfl h2
      (fun l st n => ⟨rfl, rfl, rfl, rfl⟩)
  case attachEnd =>
    unfold step at h2
    cases hp : s1.prepared.find? (fun p => p.tid == tid) with
    | none => rw [hp] at h2; cases h2
    | some p =>
      rw [hp] at h2
      exact key { s1 with prepared := s1.prepared.eraseP (fun p => p.tid == tid) } false
        (fun loc st t => .attachment loc st tid p.name p.description p.asImage t) hc' rfl h2
        (fun l st n => ⟨rfl, rfl, rfl, rfl⟩)

end LccModel.Session

/-
  Helper lemmas for the M12 model (used by Props/C16.lean and Props/C17.lean).
-/
import LccModel.Model.Matcher

namespace LccModel.Matcher

/-- the success flag of an outcome (or the exception) -/
def okOf : Outcome → Except PyErr Bool
  | .error e => .error e
  | .ok r => .ok r.ok

theorem okE_def (m : M) (v : Val) : okE m v = okOf (matchOf m v) := by
  unfold okE okOf; cases matchOf m v <;> rfl

/-! ### the item loops of `has_item`, `has_all_items`, `has_items` compute `any` / `all` -/

theorem findFirst_anyE (f : Val → Outcome) (g : Val → Except PyErr Bool) (h : ∀ x, okOf (f x) = g x) :
    ∀ (xs : List Val) (i : Nat),
      (match findFirst f xs i with
       | .error e => Except.error e
       | .ok o => .ok o.isSome) = anyE g xs := by
  intro xs
  induction xs with
  | nil => intro i; rfl
  | cons x xs ih =>
    intro i
    have hx := h x
    unfold findFirst anyE
    cases hf : f x with
    | error e => rw [hf] at hx; simp only [okOf] at hx; rw [← hx]
    | ok r =>
      rw [hf] at hx; simp only [okOf] at hx; rw [← hx]
      dsimp only
      by_cases hr : r.ok = true
      · simp [hr]
      · have hr' : r.ok = false := by simpa using hr
        simp only [hr', Bool.false_eq_true, if_false]
        exact ih (i + 1)

theorem collectFailures_allStrictE (f : Val → Outcome) (g : Val → Except PyErr Bool) (h : ∀ x, okOf (f x) = g x) :
    ∀ (xs : List Val) (i : Nat),
      (match collectFailures f xs i with
       | .error e => Except.error e
       | .ok l => .ok l.isEmpty) = allStrictE g xs := by
  intro xs
  induction xs with
  | nil => intro i; rfl
  | cons x xs ih =>
    intro i
    have hx := h x
    have ih' := ih (i + 1)
    unfold collectFailures allStrictE
    cases hf : f x with
    | error e => rw [hf] at hx; simp only [okOf] at hx; rw [← hx]
    | ok r =>
      rw [hf] at hx; simp only [okOf] at hx; rw [← hx]
      dsimp only
      cases hc : collectFailures f xs (i + 1) with
      | error e => rw [hc] at ih'; dsimp only at ih'; rw [← ih']
      | ok rest =>
        rw [hc] at ih'; dsimp only at ih'; rw [← ih']
        cases hr : r.ok <;> simp

theorem missingItems_allStrictE (v : Val) :
    ∀ (es : List Val),
      (match missingItems v es with
       | .error e => Except.error e
       | .ok l => .ok l.isEmpty) = allStrictE (fun e => pyIn e v) es := by
  intro es
  induction es with
  | nil => rfl
  | cons x xs ih =>
    unfold missingItems allStrictE
    cases hf : pyIn x v with
    | error e => rfl
    | ok b =>
      dsimp only
      cases hc : missingItems v xs with
      | error e => rw [hc] at ih; dsimp only at ih; rw [← ih]
      | ok rest =>
        rw [hc] at ih; dsimp only at ih; rw [← ih]
        cases b <;> simp

/-! ### `all` / `any` / `not` with exceptions -/

theorem semAll_eq_allE (ms : List M) (v : Val) : semAll ms v = allE (fun m => sem m v) ms := by
  induction ms with
  | nil => rfl
  | cons m ms ih => simp only [semAll, allE]; rw [ih]

theorem semAny_eq_anyE (ms : List M) (v : Val) : semAny ms v = anyE (fun m => sem m v) ms := by
  induction ms with
  | nil => rfl
  | cons m ms ih => simp only [semAny, anyE]; rw [ih]

theorem allE_eq_all {α} (f : α → Except PyErr Bool) (xs : List α) (h : ∀ x ∈ xs, ∃ b, f x = .ok b) :
    allE f xs = .ok (xs.all fun x => decide (f x = .ok true)) := by
  induction xs with
  | nil => rfl
  | cons x xs ih =>
    obtain ⟨b, hb⟩ := h x (by simp)
    have ih' := ih (fun y hy => h y (by simp [hy]))
    simp only [allE, hb, List.all_cons]
    cases b with
    | true => simp [ih']
    | false => simp

theorem anyE_eq_any {α} (f : α → Except PyErr Bool) (xs : List α) (h : ∀ x ∈ xs, ∃ b, f x = .ok b) :
    anyE f xs = .ok (xs.any fun x => decide (f x = .ok true)) := by
  induction xs with
  | nil => rfl
  | cons x xs ih =>
    obtain ⟨b, hb⟩ := h x (by simp)
    have ih' := ih (fun y hy => h y (by simp [hy]))
    simp only [anyE, hb, List.any_cons]
    cases b with
    | true => simp
    | false => simp [ih']

theorem notE_ok (b : Bool) : notE (.ok b) = .ok (!b) := rfl
theorem notE_error (e : PyErr) : notE (.error e) = .error e := rfl

theorem notE_allE {α} (f : α → Except PyErr Bool) (xs : List α) :
    notE (allE f xs) = anyE (fun x => notE (f x)) xs := by
  induction xs with
  | nil => rfl
  | cons x xs ih =>
    simp only [allE, anyE]
    cases hfx : f x with
    | error e => rfl
    | ok b =>
      cases b with
      | true => simp only [notE_ok, Bool.not_true]; exact ih
      | false => rfl

theorem notE_anyE {α} (f : α → Except PyErr Bool) (xs : List α) :
    notE (anyE f xs) = allE (fun x => notE (f x)) xs := by
  induction xs with
  | nil => rfl
  | cons x xs ih =>
    simp only [allE, anyE]
    cases hfx : f x with
    | error e => rfl
    | ok b =>
      cases b with
      | true => rfl
      | false => simp only [notE_ok, Bool.not_false]; exact ih

theorem anyE_map {α β} (g : α → β) (f : β → Except PyErr Bool) (xs : List α) :
    anyE f (xs.map g) = anyE (fun x => f (g x)) xs := by
  induction xs with
  | nil => rfl
  | cons x xs ih => simp only [List.map, anyE, ih]

theorem allE_map {α β} (g : α → β) (f : β → Except PyErr Bool) (xs : List α) :
    allE f (xs.map g) = allE (fun x => f (g x)) xs := by
  induction xs with
  | nil => rfl
  | cons x xs ih => simp only [List.map, allE, ih]

theorem buildList_eq_map (es : List Expr) : buildList es = es.map build := by
  induction es with
  | nil => rfl
  | cons e es ih => simp only [buildList, List.map, ih]


end LccModel.Matcher

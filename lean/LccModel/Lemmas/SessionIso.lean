/-
  Isolation lemmas for the session model M3 (`Model/Session.lean`), used by `Props/C06.lean`.

  * classification of events (`evTid`, `evLoc`, `evStep`, `logLike`, …);
  * the cursor invariant `Inv`: every held event of thread t's cursor was created by t at the cursor's
    location, a held StepStart is the last held event and is the cursor's current step, and the
    current step of a cursor is announced by the thread's latest step event (held or already fired);
  * `StreamOK`: in the fired stream every log / check / url / attachment event that names a step is
    preceded by a StepStart of the same thread, same location, same description, with no step event
    of that thread in between;
  * `step_spec`: one API call by thread a preserves the invariant, touches only a's cursor and fires
    only events owned by a.
  Core Lean only.
-/
import LccModel.Model.Session

namespace LccModel.SessionIso
open LccModel.Report LccModel.Session

/-! ### classification of events -/

/-- the emitting thread's id, for the events that carry one (step-level events) -/
def evTid : Event → Option Nat
  | .stepStart _ _ tid _ | .stepEnd _ _ tid _ => some tid
  | .log _ _ tid _ _ _ | .check _ _ tid _ _ _ _ | .attachment _ _ tid _ _ _ _ | .url _ _ tid _ _ _ => some tid
  | _ => none

/-- the `ReportLocation` a step-level event carries -/
def evLoc : Event → Option Loc
  | .stepStart loc _ _ _ | .stepEnd loc _ _ _ => some loc
  | .log loc _ _ _ _ _ | .check loc _ _ _ _ _ _ | .attachment loc _ _ _ _ _ _ | .url loc _ _ _ _ _ => some loc
  | _ => none

/-- log / check / attachment / url -/
def logLike : Event → Bool
  | .log .. | .check .. | .attachment .. | .url .. => true
  | _ => false

/-- the `step` attribute of a log-like event (the emitting cursor's current step description) -/
def evStep : Event → Option String
  | .log _ st _ _ _ _ | .check _ st _ _ _ _ _ | .attachment _ st _ _ _ _ _ | .url _ st _ _ _ _ => st
  | _ => none

/-- StepStart or StepEnd of thread `t` -/
def isStepEvOf (t : Nat) : Event → Bool
  | .stepStart _ _ tid _ | .stepEnd _ _ tid _ => tid == t
  | _ => false

/-- the report entry a log-like event becomes in `ReportWriter` -/
def entryOf : Event → Option Entry
  | .log _ _ _ level message t => some (.log level message t)
  | .check _ _ _ d ok details t => some (.check d ok details t)
  | .attachment _ _ _ path d asImage t => some (.attachment d path asImage t)
  | .url _ _ _ u d t => some (.url d u t)
  | _ => none

/-- the location whose result object a start / bypass event (re)creates in the writer -/
def startsResult : Event → Option Loc
  | .sessionSetupStart _ => some .sessionSetup
  | .sessionTeardownStart _ => some .sessionTeardown
  | .suiteSetupStart p _ => some (.suiteSetup p)
  | .suiteTeardownStart p _ => some (.suiteTeardown p)
  | .testStart p md _ | .testSkipped p md _ _ | .testDisabled p md _ _ => some (.test (p.dropLast ++ [md.name]))
  | _ => none

/-- the latest StepStart / StepEnd event of thread `t` in a stream -/
def lastStepEv (t : Nat) (es : List Event) : Option Event :=
  (es.reverse.find? (isStepEvOf t))

theorem lastStepEv_append (t : Nat) (es new : List Event) :
    lastStepEv t (es ++ new) = (lastStepEv t new).or (lastStepEv t es) := by
  simp [lastStepEv, List.find?_append]

theorem lastStepEv_snoc (t : Nat) (es : List Event) (e : Event) :
    lastStepEv t (es ++ [e]) = if isStepEvOf t e then some e else lastStepEv t es := by
  rw [lastStepEv_append]
  by_cases h : isStepEvOf t e <;> simp [lastStepEv, h]

theorem lastStepEv_nil (t : Nat) : lastStepEv t [] = none := rfl

/-- events that are step events of `t` carry `t` -/
theorem isStepEvOf_tid {t : Nat} {e : Event} (h : isStepEvOf t e = true) : evTid e = some t := by
  cases e <;> simp_all [isStepEvOf, evTid]

theorem lastStepEv_append_foreign {t : Nat} {es new : List Event}
    (h : ∀ e ∈ new, evTid e ≠ some t) : lastStepEv t (es ++ new) = lastStepEv t es := by
  rw [lastStepEv_append]
  have : lastStepEv t new = none := by
    unfold lastStepEv
    rw [List.find?_eq_none]
    intro e he
    have := h e (by simpa using he)
    intro hc
    exact this (isStepEvOf_tid hc)
  simp [this]

/-! ### the fired stream is step-consistent -/

/-- In the stream, every log-like event that names a step `d` is preceded by `StepStart(loc, d, tid)`
    of the same thread at the same location, and that thread fired no other step event in between. -/
def StreamOK (es : List Event) : Prop :=
  ∀ pre e post, es = pre ++ e :: post → logLike e = true →
    ∀ t l d, evTid e = some t → evLoc e = some l → evStep e = some d →
      ∃ time, lastStepEv t pre = some (.stepStart l d t time)

theorem StreamOK.nil : StreamOK [] := by
  intro pre e post h; simp at h

theorem StreamOK.snoc {es : List Event} {e : Event} (h : StreamOK es)
    (he : logLike e = true → ∀ t l d, evTid e = some t → evLoc e = some l → evStep e = some d →
        ∃ time, lastStepEv t es = some (.stepStart l d t time)) :
    StreamOK (es ++ [e]) := by
  intro pre x post hx hl t l d ht hloc hd
  rcases List.eq_nil_or_concat post with hp | ⟨post', b, hp⟩
  · subst hp
    have : es ++ [e] = pre ++ [x] := hx
    have := List.append_inj' this (by simp)
    obtain ⟨e1, e2⟩ := this
    simp at e2
    subst e1; subst e2
    exact he hl t l d ht hloc hd
  · rw [List.concat_eq_append] at hp
    subst hp
    have : es ++ [e] = (pre ++ x :: post') ++ [b] := by simpa using hx
    have := List.append_inj' this (by simp)
    exact h pre x post' this.1 hl t l d ht hloc hd

theorem StreamOK.snoc_plain {es : List Event} {e : Event} (h : StreamOK es) (he : logLike e = false) :
    StreamOK (es ++ [e]) :=
  StreamOK.snoc h (by intro hl; rw [he] at hl; cases hl)

theorem StreamOK.append_plain {es new : List Event} (h : StreamOK es) (hn : ∀ e ∈ new, logLike e = false) :
    StreamOK (es ++ new) := by
  induction new generalizing es with
  | nil => simpa using h
  | cons x xs ih =>
    have : es ++ x :: xs = (es ++ [x]) ++ xs := by simp
    rw [this]
    exact ih (h.snoc_plain (hn x (by simp))) (fun e he => hn e (by simp [he]))

/-- a stream that is OK, cut anywhere -/
theorem StreamOK.prefix {es post : List Event} (h : StreamOK (es ++ post)) : StreamOK es := by
  intro pre e post' he
  exact h pre e (post' ++ post) (by simp [he])

theorem StreamOK.at {pre post : List Event} {e : Event} (h : StreamOK (pre ++ e :: post))
    (hl : logLike e = true) {t : Nat} {l : Loc} {d : String}
    (ht : evTid e = some t) (hloc : evLoc e = some l) (hd : evStep e = some d) :
    ∃ time, lastStepEv t pre = some (.stepStart l d t time) :=
  h pre e post rfl hl t l d ht hloc hd

/-! ### the cursor invariant -/

theorem logLike_tid {e : Event} (h : logLike e = true) : ∃ t, evTid e = some t := by
  cases e <;> simp_all [logLike, evTid]

theorem plain_not_logLike {e : Event} (h : evTid e = none) : logLike e = false := by
  cases e <;> simp_all [logLike, evTid]

theorem plain_not_stepEv {e : Event} (t : Nat) (h : evTid e = none) : isStepEvOf t e = false := by
  cases e <;> simp_all [isStepEvOf, evTid]

/-- a held result-start event of a cursor at `l`: carries no thread id, and (re)starts `l` -/
def PlainAt (l : Loc) (e : Event) : Prop := evTid e = none ∧ startsResult e = some l

/-- What thread `t`'s cursor `c` may hold, given the events fired so far:
    * the held events are result-start events for the cursor's own location (they carry no thread
      id), optionally followed by ONE `StepStart(c.loc, d, t)` for the cursor's current step `d`;
    * the current step `d` of the cursor is announced by `StepStart(c.loc, d, t)`, either still held
      (last held event) or already fired and then the latest step event of `t` in the stream. -/
structure CurOK (t : Nat) (fired : List Event) (c : Cursor) : Prop where
  pend : ∃ rs, (∀ e ∈ rs, PlainAt c.loc e) ∧
      (c.pending = rs ∨ ∃ d time, c.step = some d ∧ c.pending = rs ++ [.stepStart c.loc d t time])
  cur : ∀ d, c.step = some d →
      (∃ time, c.pending.getLast? = some (.stepStart c.loc d t time)) ∨
      (∃ time, lastStepEv t fired = some (.stepStart c.loc d t time))

structure Inv (s : St) : Prop where
  stream : StreamOK s.fired
  curs : ∀ t c, getCursor s t = some c → CurOK t s.fired c

theorem inv_init : Inv St.init := by
  constructor
  · exact StreamOK.nil
  · intro t c h; simp [getCursor, St.init] at h

/-- an event is owned by thread `a` working at location `l`: it carries no thread id (structural
    event) or it carries `a` and `l` -/
def Owned (a : Nat) (l : Loc) (e : Event) : Prop :=
  evTid e = none ∨ (evTid e = some a ∧ evLoc e = some l)

theorem CurOK.pending_owned {t : Nat} {fired : List Event} {c : Cursor} (h : CurOK t fired c) :
    ∀ e ∈ c.pending, Owned t c.loc e := by
  intro e he
  obtain ⟨rs, hrs, hp | ⟨d, time, _, hp⟩⟩ := h.pend
  · rw [hp] at he; exact Or.inl (hrs e he).1
  · rw [hp] at he
    rcases List.mem_append.mp he with h1 | h1
    · exact Or.inl (hrs e h1).1
    · simp at h1; subst h1; exact Or.inr ⟨rfl, rfl⟩

theorem CurOK.pending_not_logLike {t : Nat} {fired : List Event} {c : Cursor} (h : CurOK t fired c) :
    ∀ e ∈ c.pending, logLike e = false := by
  intro e he
  obtain ⟨rs, hrs, hp | ⟨d, time, _, hp⟩⟩ := h.pend
  · rw [hp] at he; exact plain_not_logLike (hrs e he).1
  · rw [hp] at he
    rcases List.mem_append.mp he with h1 | h1
    · exact plain_not_logLike (hrs e h1).1
    · simp at h1; subst h1; rfl

/-! ### getCursor / setCursor -/

theorem getCursor_setCursor_same (s : St) (a : Nat) (c : Cursor) : getCursor (setCursor s a c) a = some c := by
  simp [getCursor, setCursor]

theorem getCursor_setCursor_other (s : St) {a b : Nat} (c : Cursor) (h : b ≠ a) :
    getCursor (setCursor s a c) b = getCursor s b := by
  have hab : (a == b) = false := by simp; exact fun e => h e.symm
  simp only [getCursor, setCursor, List.find?_cons, hab]
  congr 1
  induction s.cursors with
  | nil => rfl
  | cons p ps ih =>
    by_cases hp : p.1 = a
    · have h1 : (p.1 != a) = false := by simp [hp]
      have h2 : (p.1 == b) = false := by simp [hp]; exact fun e => h e.symm
      simp [h1, h2, ih]
    · have h1 : (p.1 != a) = true := by simp [hp]
      simp only [List.filter_cons, h1, if_true, List.find?_cons]
      split <;> simp_all

theorem getCursor_congr {s s' : St} (h : s'.cursors = s.cursors) (t : Nat) : getCursor s' t = getCursor s t := by
  simp [getCursor, h]

/-! ### effects of the building blocks -/

/-- the part of the state an operation block may change besides the cursor it was handed -/
structure Eff (a : Nat) (l : Loc) (s s' : St) (new : List Event) : Prop where
  fired : s'.fired = s.fired ++ new
  cursors : s'.cursors = s.cursors
  owned : ∀ e ∈ new, Owned a l e

theorem Eff.refl (a : Nat) (l : Loc) (s : St) : Eff a l s s [] :=
  ⟨by simp, rfl, by simp⟩

theorem Eff.trans {a : Nat} {l : Loc} {s s1 s2 : St} {n1 n2 : List Event}
    (h1 : Eff a l s s1 n1) (h2 : Eff a l s1 s2 n2) : Eff a l s s2 (n1 ++ n2) := by
  refine ⟨by rw [h2.fired, h1.fired, List.append_assoc], by rw [h2.cursors, h1.cursors], ?_⟩
  intro e he
  rcases List.mem_append.mp he with h | h
  · exact h1.owned e h
  · exact h2.owned e h

theorem Eff.tick {a : Nat} {l : Loc} {s s1 : St} {n : List Event} (h : Eff a l s s1 n) : Eff a l s (tick s1) n :=
  ⟨h.fired, h.cursors, h.owned⟩

theorem Eff.fire {a : Nat} {l : Loc} {s s1 : St} {n : List Event} (h : Eff a l s s1 n) {e : Event}
    (he : Owned a l e) : Eff a l s (fire s1 e) (n ++ [e]) := by
  refine ⟨by simp [Session.fire, h.fired], h.cursors, ?_⟩
  intro x hx
  rcases List.mem_append.mp hx with h' | h'
  · exact h.owned x h'
  · simp at h'; subst h'; exact he

theorem Eff.markFailed {a : Nat} {l : Loc} {s s1 : St} {n : List Event} (h : Eff a l s s1 n) (x : Loc) :
    Eff a l s (markFailed s1 x) n := by
  unfold Session.markFailed
  split
  · exact h
  · exact ⟨h.fired, h.cursors, h.owned⟩

/-- CurOK only looks at the thread's own step events in the stream -/
theorem CurOK.mono_foreign {t : Nat} {fired new : List Event} {c : Cursor} (h : CurOK t fired c)
    (hn : ∀ e ∈ new, evTid e ≠ some t) : CurOK t (fired ++ new) c :=
  ⟨h.pend, by rw [lastStepEv_append_foreign hn]; exact h.cur⟩

/-- a cursor without current step that holds only result starts -/
theorem CurOK.of_plain {t : Nat} {fired : List Event} {c : Cursor} (hstep : c.step = none)
    (hp : ∀ e ∈ c.pending, PlainAt c.loc e) : CurOK t fired c :=
  ⟨⟨c.pending, hp, Or.inl rfl⟩, by intro d hd; rw [hstep] at hd; cases hd⟩

/-- `_end_step_if_any()`: afterwards the cursor has no current step and holds no StepStart. -/
theorem endStepIfAny_spec {s s1 : St} {a : Nat} {c c1 : Cursor}
    (hc : CurOK a s.fired c) (hs : StreamOK s.fired) (h : endStepIfAny s a c = (s1, c1)) :
    ∃ new, Eff a c.loc s s1 new ∧ StreamOK s1.fired ∧ c1.loc = c.loc ∧ c1.step = none ∧
      (∀ e ∈ c1.pending, PlainAt c.loc e) := by
  unfold endStepIfAny at h
  cases hstep : c.step with
  | none =>
    rw [hstep] at h
    simp only at h
    obtain ⟨e1, e2⟩ := Prod.mk.inj h
    subst e1; subst e2
    refine ⟨[], Eff.refl _ _ _, hs, rfl, hstep, ?_⟩
    obtain ⟨rs, hrs, hp | ⟨d, time, h2, _⟩⟩ := hc.pend
    · rw [hp]; exact hrs
    · rw [hstep] at h2; cases h2
  | some d =>
    rw [hstep] at h
    simp only [discardOrFire] at h
    obtain ⟨rs, hrs, hp | ⟨d', time, _, hp⟩⟩ := hc.pend
    · -- no StepStart held: the StepEnd is fired
      have hfire : (s1, c1) = (fire (tick s) (.stepEnd c.loc d a s.now), { c with step := none }) := by
        rw [← h]
        cases hl : c.pending.getLast? with
        | none => rfl
        | some last =>
          have hmem : last ∈ c.pending := List.mem_of_getLast? hl
          have hpl : evTid last = none := (hrs last (by rw [hp] at hmem; exact hmem)).1
          have : isStepStart last = false := by
            cases last <;> simp_all [isStepStart, evTid]
          simp [this]
      obtain ⟨e1, e2⟩ := Prod.mk.inj hfire
      subst e1; subst e2
      refine ⟨[.stepEnd c.loc d a s.now], ?_, ?_, rfl, rfl, ?_⟩
      · exact ((Eff.refl a c.loc s).tick).fire (Or.inr ⟨rfl, rfl⟩)
      · exact hs.snoc_plain rfl
      · show ∀ e ∈ c.pending, PlainAt c.loc e
        rw [hp]; exact hrs
    · -- the held StepStart is discarded
      have hl : c.pending.getLast? = some (.stepStart c.loc d' a time) := by rw [hp]; simp
      rw [hl] at h
      simp only [isStepStart, if_true] at h
      obtain ⟨e1, e2⟩ := Prod.mk.inj h
      subst e1; subst e2
      refine ⟨[], ⟨by simp [Session.tick], rfl, by simp⟩, hs, rfl, rfl, ?_⟩
      show ∀ e ∈ c.pending.dropLast, PlainAt c.loc e
      rw [hp]; simpa using hrs

/-- `_flush_pending_events()`: the held events are fired in order; afterwards the cursor's current step
    (if any) is announced by the thread's latest step event in the stream. -/
theorem flush_spec {s s1 : St} {a : Nat} {c c1 : Cursor}
    (hc : CurOK a s.fired c) (hs : StreamOK s.fired) (h : flush s c = (s1, c1)) :
    Eff a c.loc s s1 c.pending ∧ StreamOK s1.fired ∧ c1 = { c with pending := [] } ∧
      (∀ d, c.step = some d → ∃ time, lastStepEv a s1.fired = some (.stepStart c.loc d a time)) := by
  unfold flush at h
  obtain ⟨e1, e2⟩ := Prod.mk.inj h
  subst e1; subst e2
  refine ⟨⟨rfl, rfl, hc.pending_owned⟩, hs.append_plain hc.pending_not_logLike, rfl, ?_⟩
  intro d hd
  show ∃ time, lastStepEv a (s.fired ++ c.pending) = _
  obtain ⟨rs, hrs, hp | ⟨d', time, hd', hp⟩⟩ := hc.pend
  · -- nothing of `a` is held: the announcement is already in the stream
    have hforeign : ∀ e ∈ c.pending, evTid e ≠ some a := by
      intro e he; rw [hp] at he; rw [(hrs e he).1]; simp
    rw [lastStepEv_append_foreign hforeign]
    rcases hc.cur d hd with ⟨time, h1⟩ | h2
    · have hmem := List.mem_of_getLast? h1
      have := hforeign _ hmem
      simp [evTid] at this
    · exact h2
  · rw [hd] at hd'
    injection hd' with hd'
    subst hd'
    refine ⟨time, ?_⟩
    rw [hp, ← List.append_assoc, lastStepEv_snoc]
    simp [isStepEvOf]

/-- `_discard_or_fire_event(<result start class>, <result end event>)` on a cursor holding only result
    starts: either the held start is dropped or the (structural) end event is fired. -/
theorem discardOrFire_plain_spec {s s1 : St} {a : Nat} {l : Loc} {c c1 : Cursor} {cls : Event → Bool} {e : Event}
    (hp : ∀ x ∈ c.pending, PlainAt l x) (hs : StreamOK s.fired) (he : evTid e = none)
    (h : discardOrFire s c cls e = (s1, c1)) :
    ∃ new, Eff a l s s1 new ∧ StreamOK s1.fired ∧ c1.loc = c.loc ∧ c1.step = c.step ∧
      (∀ x ∈ c1.pending, PlainAt l x) := by
  unfold discardOrFire at h
  have hfire : ∃ new, Eff a l s (fire s e) new ∧ StreamOK (fire s e).fired :=
    ⟨[e], by simpa using (Eff.refl a l s).fire (Or.inl he), hs.snoc_plain (plain_not_logLike he)⟩
  cases hl : c.pending.getLast? with
  | none =>
    rw [hl] at h
    obtain ⟨e1, e2⟩ := Prod.mk.inj h
    subst e1; subst e2
    obtain ⟨new, h1, h2⟩ := hfire
    exact ⟨new, h1, h2, rfl, rfl, hp⟩
  | some last =>
    rw [hl] at h
    simp only at h
    split at h
    · obtain ⟨e1, e2⟩ := Prod.mk.inj h
      subst e1; subst e2
      refine ⟨[], Eff.refl _ _ _, hs, rfl, rfl, ?_⟩
      intro x hx
      exact hp x (List.dropLast_subset _ hx)
    · obtain ⟨e1, e2⟩ := Prod.mk.inj h
      subst e1; subst e2
      obtain ⟨new, h1, h2⟩ := hfire
      exact ⟨new, h1, h2, rfl, rfl, hp⟩

/-! ### one API call -/

/-- What one accepted API call `op` by thread `a` does to the session state. -/
structure StepSpec (s : St) (a : Nat) (s' : St) : Prop where
  inv : Inv s'
  /-- only `a`'s cursor changes -/
  others : ∀ b, b ≠ a → getCursor s' b = getCursor s b
  /-- the stream only grows, and every new event that carries a thread id carries `a` and the location
      of `a`'s cursor -/
  fired : ∃ new, s'.fired = s.fired ++ new ∧
      ∀ e ∈ new, evTid e = none ∨ (evTid e = some a ∧ ∃ c, getCursor s a = some c ∧ evLoc e = some c.loc)

theorem owned_foreign {a b : Nat} {l : Loc} {new : List Event} (h : ∀ e ∈ new, Owned a l e) (hb : b ≠ a) :
    ∀ e ∈ new, evTid e ≠ some b := by
  intro e he
  rcases h e he with h1 | ⟨h1, _⟩
  · rw [h1]; simp
  · rw [h1]; simp; exact fun x => hb x.symm

/-- assembling: the block effects, then `a`'s cursor is stored -/
theorem assemble {s s1 s' : St} {a : Nat} {l : Loc} {new : List Event} {c' : Cursor}
    (hinv : Inv s) (hl : ∀ e ∈ new, evTid e = none ∨ ∃ c, getCursor s a = some c ∧ c.loc = l)
    (heff : Eff a l s s1 new) (hs : StreamOK s1.fired)
    (hs' : s' = setCursor s1 a c') (hc' : CurOK a s1.fired c') : StepSpec s a s' := by
  subst hs'
  have hfired : (setCursor s1 a c').fired = s.fired ++ new := heff.fired
  refine ⟨⟨by rw [hfired, ← heff.fired]; exact hs, ?_⟩, ?_, new, hfired, ?_⟩
  · intro t c hg
    by_cases ht : t = a
    · subst ht
      rw [getCursor_setCursor_same] at hg
      injection hg with hg; subst hg
      exact hc'
    · rw [getCursor_setCursor_other _ _ ht, getCursor_congr heff.cursors] at hg
      rw [hfired]
      exact (hinv.curs t c hg).mono_foreign (owned_foreign heff.owned ht)
  · intro b hb
    rw [getCursor_setCursor_other _ _ hb, getCursor_congr heff.cursors]
  · intro e he
    rcases heff.owned e he with h1 | ⟨h1, h2⟩
    · exact Or.inl h1
    · rcases hl e he with h3 | ⟨c, h3, h4⟩
      · exact Or.inl h3
      · exact Or.inr ⟨h1, c, h3, by rw [h4]; exact h2⟩

/-- assembling an operation that fires structural events only and stores no cursor -/
theorem assemble_plain {s s' : St} {a : Nat} {new : List Event}
    (hinv : Inv s) (hf : s'.fired = s.fired ++ new) (hc : s'.cursors = s.cursors)
    (hp : ∀ e ∈ new, evTid e = none) : StepSpec s a s' := by
  have hforeign : ∀ t, ∀ e ∈ new, evTid e ≠ some t := by
    intro t e he; rw [hp e he]; simp
  refine ⟨⟨?_, ?_⟩, ?_, new, hf, fun e he => Or.inl (hp e he)⟩
  · rw [hf]; exact hinv.stream.append_plain (fun e he => plain_not_logLike (hp e he))
  · intro t c hg
    rw [getCursor_congr hc] at hg
    rw [hf]
    exact (hinv.curs t c hg).mono_foreign (hforeign t)
  · intro b _; exact getCursor_congr hc b

theorem Inv.congr {s s2 : St} (h : Inv s) (hf : s2.fired = s.fired) (hc : s2.cursors = s.cursors) : Inv s2 :=
  ⟨by rw [hf]; exact h.stream, by
    intro t c hg
    rw [getCursor_congr hc] at hg
    rw [hf]; exact h.curs t c hg⟩

theorem withCursor_ok {s s' : St} {a : Nat} {f : Cursor → Except Err St} (h : withCursor s a f = .ok s') :
    ∃ c, getCursor s a = some c ∧ f c = .ok s' := by
  unfold withCursor at h
  cases hg : getCursor s a with
  | none => rw [hg] at h; cases h
  | some c => rw [hg] at h; exact ⟨c, rfl, h⟩

theorem startPhase_spec {s : St} {a : Nat} {loc : Loc} {mk : Nat → Event} (hinv : Inv s)
    (hmk : ∀ n, PlainAt loc (mk n)) : StepSpec s a (startPhase s a loc mk) := by
  unfold startPhase
  refine assemble (l := loc) (new := []) hinv (by simp) ((Eff.refl a loc s).tick) hinv.stream rfl ?_
  apply CurOK.of_plain rfl
  intro e he
  simp at he; subst he; exact hmk _

theorem endPhase_spec {s s' : St} {a : Nat} {cls : Event → Bool} {mk : Nat → Event} (hinv : Inv s)
    (hmk : ∀ n, evTid (mk n) = none) (h : endPhase s a cls mk = .ok s') : StepSpec s a s' := by
  unfold endPhase at h
  obtain ⟨c, hg, h⟩ := withCursor_ok h
  have hc := hinv.curs a c hg
  rcases h1 : endStepIfAny s a c with ⟨s1, c1⟩
  obtain ⟨n1, heff1, hs1, hloc1, hstep1, hp1⟩ := endStepIfAny_spec hc hinv.stream h1
  rw [h1] at h
  simp only at h
  rcases h2 : discardOrFire (tick s1) c1 cls (mk s1.now) with ⟨s2, c2⟩
  have hs1' : StreamOK (tick s1).fired := hs1
  obtain ⟨n2, heff2, hs2, hloc2, hstep2, hp2⟩ := discardOrFire_plain_spec (a := a) hp1 hs1' (hmk _) h2
  rw [h2] at h
  simp only at h
  injection h with h
  refine assemble (l := c.loc) hinv ?_ (heff1.tick.trans heff2) hs2 h.symm ?_
  · intro e _; exact Or.inr ⟨c, hg, rfl⟩
  · apply CurOK.of_plain (by rw [hstep2, hstep1])
    rw [hloc2, hloc1]; exact hp2

/-- log / check / url / attachment -/
theorem stepped_spec {s s' : St} {a : Nat} {failing : Bool} {mk : Loc → Option String → Nat → Event} (hinv : Inv s)
    (hmk : ∀ l st n, evTid (mk l st n) = some a ∧ evLoc (mk l st n) = some l ∧ evStep (mk l st n) = st)
    (h : stepped s a failing mk = .ok s') : StepSpec s a s' := by
  unfold stepped at h
  obtain ⟨c, hg, h⟩ := withCursor_ok h
  have hc := hinv.curs a c hg
  rcases h1 : flush s c with ⟨s1, c1⟩
  obtain ⟨heff1, hs1, hc1, hlast⟩ := flush_spec hc hinv.stream h1
  rw [h1] at h
  simp only at h
  injection h with h
  subst hc1
  -- the state the event is fired from
  generalize hs2 : (if failing = true then markFailed s1 c.loc else s1) = s2 at h
  have heff2 : Eff a c.loc s s2 c.pending := by
    subst hs2; split
    · exact heff1.markFailed _
    · exact heff1
  have hfired2 : s2.fired = s1.fired := by rw [heff2.fired, heff1.fired]
  have hev := hmk c.loc c.step s2.now
  have heff3 := (heff2.tick).fire (e := mk c.loc c.step s2.now) (Or.inr ⟨hev.1, hev.2.1⟩)
  have hs3 : StreamOK (fire (tick s2) (mk c.loc c.step s2.now)).fired := by
    show StreamOK (s2.fired ++ [_])
    rw [hfired2]
    apply hs1.snoc
    intro _ t l d ht hl hd
    rw [hev.1] at ht; rw [hev.2.1] at hl; rw [hev.2.2] at hd
    injection ht with ht; injection hl with hl
    subst ht; subst hl
    exact hlast d hd
  refine assemble (l := c.loc) hinv ?_ heff3 hs3 h.symm ?_
  · intro e _; exact Or.inr ⟨c, hg, rfl⟩
  · refine ⟨⟨[], by simp, Or.inl rfl⟩, ?_⟩
    intro d hd
    right
    obtain ⟨time, ht⟩ := hlast d hd
    refine ⟨time, ?_⟩
    show lastStepEv a (s2.fired ++ [_]) = _
    rw [lastStepEv_snoc, hfired2]
    have : isStepEvOf a (mk c.loc c.step s2.now) = false := by
      have h3 := hev.2.2
      have h4 := hev.1
      generalize mk c.loc c.step s2.now = ev at h3 h4
      cases ev <;> simp_all [isStepEvOf, evStep, evTid]
    simp [this, ht]

/-- `end_step()` / the epilogue of `lcc.Thread.run` / `end_test`'s first half -/
theorem endStep_block {s s1 : St} {a : Nat} {c c1 : Cursor} (hinv : Inv s) (hg : getCursor s a = some c)
    (h1 : endStepIfAny s a c = (s1, c1)) : StepSpec s a (setCursor s1 a c1) := by
  have hc := hinv.curs a c hg
  obtain ⟨n1, heff1, hs1, hloc1, hstep1, hp1⟩ := endStepIfAny_spec hc hinv.stream h1
  refine assemble (l := c.loc) hinv ?_ heff1 hs1 rfl ?_
  · intro e _; exact Or.inr ⟨c, hg, rfl⟩
  · apply CurOK.of_plain hstep1
    rw [hloc1]; exact hp1

theorem StepSpec.congr {s s2 s' : St} {a : Nat} (h : StepSpec s a s2) (hf : s'.fired = s2.fired)
    (hc : s'.cursors = s2.cursors) : StepSpec s a s' :=
  ⟨h.inv.congr hf hc, by intro b hb; rw [getCursor_congr hc]; exact h.others b hb, by rw [hf]; exact h.fired⟩

/-- **One API call.**  Every accepted call `op` issued by thread `a` preserves the invariant, leaves
    every other thread's cursor untouched, and fires only events that are structural or carry `a` and
    the location of `a`'s cursor. -/
theorem step_spec {s s' : St} {a : Nat} {op : Op} (hinv : Inv s) (h : step s a op = .ok s') :
    StepSpec s a s' := by
  cases op with
  | startTestSession | endTestSession =>
    simp only [step] at h; injection h with h; subst h
    exact assemble_plain hinv (new := [_]) rfl rfl (by simp [evTid])
  | startSuite p md | endSuite p | disableTest p md r =>
    simp only [step] at h; injection h with h; subst h
    exact assemble_plain hinv (new := [_]) rfl rfl (by simp [evTid])
  | skipTest p md r =>
    simp only [step] at h; injection h with h; subst h
    refine assemble_plain hinv (new := [.testSkipped p md r s.now]) ?_ ?_ (by simp [evTid])
    · unfold markFailed; split <;> rfl
    · unfold markFailed; split <;> rfl
  | startSessionSetup | startSessionTeardown =>
    simp only [step] at h; injection h with h; subst h
    exact startPhase_spec hinv (fun n => ⟨rfl, rfl⟩)
  | startSuiteSetup p | startSuiteTeardown p =>
    simp only [step] at h; injection h with h; subst h
    exact startPhase_spec hinv (fun n => ⟨rfl, rfl⟩)
  | endSessionSetup | endSessionTeardown =>
    simp only [step] at h
    exact endPhase_spec hinv (fun n => rfl) h
  | endSuiteSetup p | endSuiteTeardown p =>
    simp only [step] at h
    exact endPhase_spec hinv (fun n => rfl) h
  | startTest p md =>
    simp only [step] at h; injection h with h
    refine assemble (l := .test p) (new := [.testStart p md s.now]) hinv (by simp [evTid])
      (((Eff.refl a (.test p) s).tick).fire (Or.inl rfl)) ?_ h.symm ?_
    · exact hinv.stream.snoc_plain rfl
    · exact CurOK.of_plain rfl (by simp)
  | endTest p =>
    simp only [step] at h
    obtain ⟨c, hg, h⟩ := withCursor_ok h
    have hc := hinv.curs a c hg
    rcases h1 : endStepIfAny s a c with ⟨s1, c1⟩
    obtain ⟨n1, heff1, hs1, hloc1, hstep1, hp1⟩ := endStepIfAny_spec hc hinv.stream h1
    rw [h1] at h
    simp only at h
    injection h with h
    refine assemble (l := c.loc) hinv ?_ ((heff1.tick).fire (e := .testEnd p s1.now) (Or.inl rfl)) ?_ h.symm ?_
    · intro e _; exact Or.inr ⟨c, hg, rfl⟩
    · exact hs1.snoc_plain rfl
    · apply CurOK.of_plain hstep1
      rw [hloc1]; exact hp1
  | setStep d =>
    simp only [step] at h
    obtain ⟨c, hg, h⟩ := withCursor_ok h
    have hc := hinv.curs a c hg
    rcases h1 : endStepIfAny s a c with ⟨s1, c1⟩
    obtain ⟨n1, heff1, hs1, hloc1, hstep1, hp1⟩ := endStepIfAny_spec hc hinv.stream h1
    rw [h1] at h
    simp only at h
    injection h with h
    refine assemble (l := c.loc) hinv ?_ heff1.tick hs1 h.symm ?_
    · intro e _; exact Or.inr ⟨c, hg, rfl⟩
    · refine ⟨⟨c1.pending, ?_, Or.inr ⟨d, s1.now, rfl, rfl⟩⟩, ?_⟩
      · show ∀ e ∈ c1.pending, PlainAt c1.loc e
        rw [hloc1]; exact hp1
      · intro d' hd'
        left
        refine ⟨s1.now, ?_⟩
        simp only at hd'
        injection hd' with hd'
        subst hd'
        simp
  | endStep =>
    simp only [step] at h
    obtain ⟨c, hg, h⟩ := withCursor_ok h
    cases hst : c.step with
    | none => rw [hst] at h; cases h
    | some d =>
      rw [hst] at h
      simp only at h
      rcases h1 : endStepIfAny s a c with ⟨s1, c1⟩
      rw [h1] at h
      injection h with h; subst h
      exact endStep_block hinv hg h1
  | threadEnd =>
    simp only [step] at h
    obtain ⟨c, hg, h⟩ := withCursor_ok h
    cases hst : c.step with
    | none => rw [hst] at h; cases h
    | some d =>
      rw [hst] at h
      simp only at h
      rcases h1 : endStepIfAny s a c with ⟨s1, c1⟩
      rw [h1] at h
      injection h with h; subst h
      exact endStep_block hinv hg h1
  | log level msg =>
    simp only [step] at h
    exact stepped_spec hinv (fun l st n => ⟨rfl, rfl, rfl⟩) h
  | check d ok det =>
    simp only [step] at h
    exact stepped_spec hinv (fun l st n => ⟨rfl, rfl, rfl⟩) h
  | url u d =>
    simp only [step] at h
    exact stepped_spec hinv (fun l st n => ⟨rfl, rfl, rfl⟩) h
  | attach f d img =>
    simp only [step] at h
    have hinv2 : Inv { s with attachCount := s.attachCount + 1 } := hinv.congr rfl rfl
    have := stepped_spec hinv2 (fun l st n => ⟨rfl, rfl, rfl⟩) h
    exact ⟨this.inv, this.others, this.fired⟩
  | attachBegin f d img =>
    -- entering the block touches neither a cursor nor the stream
    simp only [step] at h; injection h with h; subst h
    exact assemble_plain hinv (new := []) (by simp) rfl (by simp)
  | attachEnd =>
    simp only [step] at h
    cases hf : s.prepared.find? (fun p => p.tid == a) with
    | none => rw [hf] at h; cases h
    | some p =>
      rw [hf] at h; simp only at h
      have hinv2 : Inv { s with prepared := s.prepared.eraseP (fun p => p.tid == a) } := hinv.congr rfl rfl
      have := stepped_spec hinv2 (fun l st n => ⟨rfl, rfl, rfl⟩) h
      exact ⟨this.inv, this.others, this.fired⟩
  | threadCreate newTid =>
    simp only [step] at h
    obtain ⟨c, hg, h⟩ := withCursor_ok h
    have hc := hinv.curs a c hg
    split at h
    · cases h
    · rename_i hstepne
      obtain ⟨rs, hrs, hshape⟩ := hc.pend
      -- the state and cursor after the optional pop of the first held event
      have key : ∀ (s1 : St) (c1 : Cursor) (new : List Event),
          Eff a c.loc s s1 new → StreamOK s1.fired → CurOK a s1.fired c1 →
          StepSpec s a (setCursor s1 a c1) := by
        intro s1 c1 new heff hs1 hc1
        exact assemble (l := c.loc) hinv (fun e _ => Or.inr ⟨c, hg, rfl⟩) heff hs1 rfl hc1
      cases hpend : c.pending with
      | nil =>
        rw [hpend] at h
        simp only at h
        injection h with h; subst h
        exact (key s c [] (Eff.refl _ _ _) hinv.stream hc).congr rfl rfl
      | cons e rest =>
        rw [hpend] at h
        simp only at h
        by_cases hss : isStepStart e = true
        · rw [if_pos hss] at h
          simp only at h
          injection h with h; subst h
          exact (key s c [] (Eff.refl _ _ _) hinv.stream hc).congr rfl rfl
        · rw [if_neg hss] at h
          simp only at h
          injection h with h; subst h
          -- `e` is a held result start; it is fired, the rest stays held
          have hrs' : ∃ rs', rs = e :: rs' ∧
              (rest = rs' ∨ ∃ d time, c.step = some d ∧ rest = rs' ++ [.stepStart c.loc d a time]) := by
            rcases hshape with hp | ⟨d, time, hd, hp⟩
            · rw [hpend] at hp
              exact ⟨rest, hp.symm, Or.inl rfl⟩
            · rw [hpend] at hp
              cases rs with
              | nil =>
                simp at hp
                rw [hp.1] at hss
                simp [isStepStart] at hss
              | cons r rs' =>
                simp at hp
                exact ⟨rs', by rw [hp.1], Or.inr ⟨d, time, hd, hp.2⟩⟩
          obtain ⟨rs', hrs1, hrest⟩ := hrs'
          have hplain : PlainAt c.loc e := hrs e (by rw [hrs1]; simp)
          have heff : Eff a c.loc s (fire s e) [e] := by
            simpa using (Eff.refl a c.loc s).fire (Or.inl hplain.1)
          have hs1 : StreamOK (fire s e).fired := hinv.stream.snoc_plain (plain_not_logLike hplain.1)
          refine (key (fire s e) { c with pending := rest } [e] heff hs1 ?_).congr rfl rfl
          refine ⟨⟨rs', fun x hx => hrs x (by rw [hrs1]; simp [hx]), ?_⟩, ?_⟩
          · rcases hrest with h1 | ⟨d, time, hd, h1⟩
            · exact Or.inl h1
            · exact Or.inr ⟨d, time, hd, h1⟩
          · intro d hd
            rcases hc.cur d hd with ⟨time, h1⟩ | ⟨time, h1⟩
            · left
              refine ⟨time, ?_⟩
              rw [hpend] at h1
              show rest.getLast? = _
              cases rest with
              | nil =>
                simp at h1
                rw [h1] at hss; simp [isStepStart] at hss
              | cons r rr => simpa [List.getLast?_cons_cons] using h1
            · right
              refine ⟨time, ?_⟩
              show lastStepEv a (s.fired ++ [e]) = _
              rw [lastStepEv_snoc, plain_not_stepEv a hplain.1]
              simpa using h1
  | threadRun =>
    simp only [step] at h
    cases hf : s.saved.find? (fun p => p.1 == a) with
    | none => rw [hf] at h; cases h
    | some p =>
      obtain ⟨t0, c, dflt⟩ := p
      rw [hf] at h
      simp only at h
      cases dflt with
      | none => cases h
      | some d =>
        simp only at h
        injection h with h
        refine assemble (l := c.loc) (new := []) hinv (by simp)
          (s1 := tick { s with saved := s.saved.filter (fun p => p.1 != a) }) ⟨by simp [tick], rfl, by simp⟩
          hinv.stream h.symm ?_
        refine ⟨⟨[], by simp, Or.inr ⟨d, s.now, rfl, rfl⟩⟩, ?_⟩
        intro d' hd'
        left
        simp only at hd'
        injection hd' with hd'
        subst hd'
        exact ⟨s.now, rfl⟩

/-- Every state reachable by any sequence of API calls of any threads satisfies the invariant. -/
theorem runOps_inv : ∀ (ops : List (Nat × Op)) (s s' : St), Inv s → runOps s ops = .ok s' → Inv s'
  | [], s, s', hinv, h => by
    simp only [runOps] at h; injection h with h; subst h; exact hinv
  | (a, op) :: rest, s, s', hinv, h => by
    simp only [runOps] at h
    cases hs : step s a op with
    | error e => rw [hs] at h; cases h
    | ok s1 =>
      rw [hs] at h
      exact runOps_inv rest s1 s' (step_spec hinv hs).inv h

end LccModel.SessionIso

/-
  C05 helpers, part 5: every successful handler of `ReportWriter` (for events inside the suite tree) IS a micro step.

  * `modifyResult_factor`: the lookup `report.get(location)` either fails whatever the mutation, or finds one result `x`
    and the outcome is a function of `f x` alone (and the identity mutation gives the report back);
  * `modifySuite_eq_topOp`, `modifyResult_eq_tree`: the writer's lookups as tree operations;
  * `MicroOf`, `apply_micro`, `micro_apply`: the correspondence, under the discipline `disc`.
-/
import LccModel.Lemmas.WriterMicro
set_option linter.unusedSimpArgs false
set_option linter.unusedVariables false
namespace LccModel.Writer
open LccModel.Report

/-! ### lookups factor through the object found -/

theorem modifyFirst_factor {α ε : Type} (p : α → Bool) (nf : ε) : ∀ l : List α,
    (∀ F : α → Except ε α, modifyFirst p F nf l = .error nf) ∨
    (∃ (x : α) (put : α → List α), put x = l ∧ ∀ F : α → Except ε α, modifyFirst p F nf l =
      match F x with
      | .ok y => .ok (put y)
      | .error e => .error e)
  | [] => Or.inl (fun _ => rfl)
  | a :: as => by
    by_cases hp : p a = true
    · refine Or.inr ⟨a, fun y => y :: as, rfl, fun F => ?_⟩
      simp only [modifyFirst, hp, if_true]
      cases F a <;> rfl
    · rcases modifyFirst_factor p nf as with h | ⟨x, put, hput, h⟩
      · refine Or.inl (fun F => ?_)
        simp only [modifyFirst, hp, if_false, Bool.false_eq_true, h F]
      · refine Or.inr ⟨x, fun y => a :: put y, by simp [hput], fun F => ?_⟩
        simp only [modifyFirst, hp, if_false, Bool.false_eq_true, h F]
        cases F x <;> rfl

theorem setSuites_suites (s : SuiteResult) : s.setSuites s.suites = s := by cases s; rfl

theorem modifySuite_factor : ∀ (p : Path) (ss : List SuiteResult),
    (∃ e, ∀ F : SuiteResult → Except WriterErr SuiteResult, modifySuite F p ss = .error e) ∨
    (∃ (x : SuiteResult) (put : SuiteResult → List SuiteResult), put x = ss ∧
      ∀ F : SuiteResult → Except WriterErr SuiteResult, modifySuite F p ss =
        match F x with
        | .ok y => .ok (put y)
        | .error e => .error e)
  | [], ss => Or.inl ⟨.noneSuite, fun _ => rfl⟩
  | [n], ss => by
    rcases modifyFirst_factor (fun s : SuiteResult => s.md.name == n) (WriterErr.lookupSuite n) ss with h | ⟨x, put, hput, h⟩
    · exact Or.inl ⟨_, fun F => by simp only [modifySuite, h F]; rfl⟩
    · exact Or.inr ⟨x, put, hput, fun F => by simp only [modifySuite, h F]; cases F x <;> rfl⟩
  | n :: m :: rest, ss => by
    rcases modifyFirst_factor (fun s : SuiteResult => s.md.name == n) (WriterErr.lookupSuite n) ss with h | ⟨s, put₁, hput₁, h⟩
    · exact Or.inl ⟨_, fun F => by simp only [modifySuite, h]; rfl⟩
    · rcases modifySuite_factor (m :: rest) s.suites with ⟨e, h2⟩ | ⟨x, put₂, hput₂, h2⟩
      · refine Or.inl ⟨e, fun F => ?_⟩
        simp only [modifySuite, h, h2 F]
      · refine Or.inr ⟨x, fun y => put₁ (s.setSuites (put₂ y)), by simp [hput₂, setSuites_suites, hput₁], fun F => ?_⟩
        simp only [modifySuite, h, h2 F]
        cases F x <;> rfl

/-- `report.get(loc)` then a mutation: the lookup fails whatever the mutation, or finds ONE result `x`, and then the outcome
    depends on `f x` only; the identity mutation gives the report back. -/
theorem modifyResult_factor (loc : Loc) (r : Report) :
    (∃ e, ∀ f : Result → Except WriterErr Result, modifyResult f loc r = .error e) ∨
    (∃ (x : Result) (put : Result → Report), put x = r ∧
      ∀ f : Result → Except WriterErr Result, modifyResult f loc r =
        match f x with
        | .ok y => .ok (put y)
        | .error e => .error e) := by
  cases loc with
  | sessionSetup =>
    cases hs : r.setup with
    | none => exact Or.inl ⟨_, fun f => by simp only [modifyResult, hs]; rfl⟩
    | some x =>
      refine Or.inr ⟨x, fun y => { r with setup := some y }, by simp [← hs], fun f => ?_⟩
      simp only [modifyResult, hs]
      cases f x <;> rfl
  | sessionTeardown =>
    cases hs : r.teardown with
    | none => exact Or.inl ⟨_, fun f => by simp only [modifyResult, hs]; rfl⟩
    | some x =>
      refine Or.inr ⟨x, fun y => { r with teardown := some y }, by simp [← hs], fun f => ?_⟩
      simp only [modifyResult, hs]
      cases f x <;> rfl
  | suiteSetup p =>
    rcases modifySuite_factor p r.suites with ⟨e, h⟩ | ⟨s, put, hput, h⟩
    · exact Or.inl ⟨e, fun f => by simp only [modifyResult, h, liftSuites]⟩
    · cases hs : s.setup with
      | none => exact Or.inl ⟨_, fun f => by simp only [modifyResult, h, hs, liftSuites]; rfl⟩
      | some x =>
        refine Or.inr ⟨x, fun y => { r with suites := put (s.setSetup (some y)) }, ?_, fun f => ?_⟩
        · have : s.setSetup (some x) = s := by cases s; simp only [SuiteResult.setup] at hs; subst hs; rfl
          simp [this, hput]
        · simp only [modifyResult, h, hs]
          cases f x <;> rfl
  | suiteTeardown p =>
    rcases modifySuite_factor p r.suites with ⟨e, h⟩ | ⟨s, put, hput, h⟩
    · exact Or.inl ⟨e, fun f => by simp only [modifyResult, h, liftSuites]⟩
    · cases hs : s.teardown with
      | none => exact Or.inl ⟨_, fun f => by simp only [modifyResult, h, hs, liftSuites]; rfl⟩
      | some x =>
        refine Or.inr ⟨x, fun y => { r with suites := put (s.setTeardown (some y)) }, ?_, fun f => ?_⟩
        · have : s.setTeardown (some x) = s := by cases s; simp only [SuiteResult.teardown] at hs; subst hs; rfl
          simp [this, hput]
        · simp only [modifyResult, h, hs]
          cases f x <;> rfl
  | test p =>
    cases hl : p.getLast? with
    | none => exact Or.inl ⟨_, fun f => by simp only [modifyResult, modifyTest, hl, liftSuites]; rfl⟩
    | some last =>
      rcases modifySuite_factor p.dropLast r.suites with ⟨e, h⟩ | ⟨s, put, hput, h⟩
      · exact Or.inl ⟨e, fun f => by simp only [modifyResult, modifyTest, hl, h, liftSuites]⟩
      · rcases modifyFirst_factor (fun t : TestResult => t.md.name == last) (WriterErr.lookupTest p) s.tests with
          h2 | ⟨t, put₂, hput₂, h2⟩
        · exact Or.inl ⟨_, fun f => by simp only [modifyResult, modifyTest, hl, h, h2, liftSuites]; rfl⟩
        · refine Or.inr ⟨t.result, fun y => { r with suites := put (s.setTests (put₂ { t with result := y })) }, ?_, fun f => ?_⟩
          · have : s.setTests s.tests = s := by cases s; rfl
            simp [hput₂, this, hput]
          · simp only [modifyResult, modifyTest, hl, h, h2]
            cases f t.result <;> rfl

/-! ### the writer's lookups as tree operations -/

theorem modifySuite_eq_topOp (lf : Leaf) : ∀ (rest : Path) (n : String) (ss : List SuiteResult),
    modifySuite lf.run (n :: rest) ss = topOp (n :: rest) lf ss
  | [], n, ss => by simp only [modifySuite, topOp, nodeOp]
  | m :: r, n, ss => by
    simp only [modifySuite, topOp, nodeOp]
    congr 1
    funext s
    simp only [Lens.on, suitesL, modifySuite_eq_topOp lf r m s.suites, topOp]
    cases modifyFirst (fun s => s.md.name == m) (nodeOp r lf) (WriterErr.lookupSuite m) s.suites <;> rfl

theorem modifySuite_eq_topOp' (lf : Leaf) (F : SuiteResult → Except WriterErr SuiteResult) (hF : F = lf.run)
    (hc : ∀ c, lf ≠ .child c) (p : Path) (ss : List SuiteResult) : modifySuite F p ss = topOp p lf ss := by
  subst hF
  cases p with
  | nil => cases lf <;> first | rfl | exact absurd rfl (hc _)
  | cons n rest => exact modifySuite_eq_topOp lf rest n ss

/-- where the result at `loc` lives (suite path + field), with the mutation `f` of it as a leaf; `none` for the two
    session-level results, which are not in the suite tree -/
def locLeaf (loc : Loc) (f : Result → Except WriterErr Result) : Option (Path × Leaf) :=
  match loc with
  | .suiteSetup p => some (p, .setup (optG (.noneResult loc) f))
  | .suiteTeardown p => some (p, .teardown (optG (.noneResult loc) f))
  | .test p =>
    match p.getLast? with
    | some last => some (p.dropLast, .test last (.lookupTest p) f)
    | none => none
  | _ => none

theorem wrapT_eq (f : Result → Except WriterErr Result) :
    (fun t : TestResult => match f t.result with
      | .ok y => (.ok { t with result := y } : Except WriterErr TestResult)
      | .error e => .error e) = wrapT f := by
  funext t
  unfold wrapT
  cases f t.result <;> rfl

theorem modifyResult_eq_tree {loc : Loc} {f : Result → Except WriterErr Result} {p : Path} {lf : Leaf}
    (h : locLeaf loc f = some (p, lf)) (r : Report) : modifyResult f loc r = liftSuites r (topOp p lf r.suites) := by
  cases loc with
  | sessionSetup => simp [locLeaf] at h
  | sessionTeardown => simp [locLeaf] at h
  | suiteSetup q =>
    simp only [locLeaf, Option.some.injEq, Prod.mk.injEq] at h
    obtain ⟨rfl, rfl⟩ := h
    simp only [modifyResult]
    congr 1
    refine modifySuite_eq_topOp' _ _ ?_ (fun c h => by cases h) _ _
    funext s
    cases s with
    | mk md st en su td ts ss =>
      cases su with
      | none => rfl
      | some x =>
        simp only [Leaf.run, Lens.on, setupL, optG, SuiteResult.setup]
        cases f x <;> rfl
  | suiteTeardown q =>
    simp only [locLeaf, Option.some.injEq, Prod.mk.injEq] at h
    obtain ⟨rfl, rfl⟩ := h
    simp only [modifyResult]
    congr 1
    refine modifySuite_eq_topOp' _ _ ?_ (fun c h => by cases h) _ _
    funext s
    cases s with
    | mk md st en su td ts ss =>
      cases td with
      | none => rfl
      | some x =>
        simp only [Leaf.run, Lens.on, teardownL, optG, SuiteResult.teardown]
        cases f x <;> rfl
  | test q =>
    simp only [locLeaf] at h
    split at h
    · rename_i last hl
      simp only [Option.some.injEq, Prod.mk.injEq] at h
      obtain ⟨rfl, rfl⟩ := h
      simp only [modifyResult, modifyTest, hl]
      congr 1
      refine modifySuite_eq_topOp' _ _ ?_ (fun c h => by cases h) _ _
      funext s
      simp only [Leaf.run, Lens.on, testsL]
      show (match modifyFirst (fun t => t.md.name == last) (wrapT f) (WriterErr.lookupTest q) s.tests with
        | .ok ts => (.ok (s.setTests ts) : Except WriterErr SuiteResult)
        | .error e => .error e) = _
      cases modifyFirst (fun t => t.md.name == last) (wrapT f) (WriterErr.lookupTest q) s.tests <;> rfl
    · cases h

/-! ### classification of the events inside the suite tree -/

/-- log / check / attachment / url: location, emitting thread, the entry appended -/
def entryOf : Event → Option (Loc × Nat × Entry)
  | .log loc _ tid level message t => some (loc, tid, .log level message t)
  | .check loc _ tid description ok details t => some (loc, tid, .check description ok details t)
  | .attachment loc _ tid path description asImage t => some (loc, tid, .attachment description path asImage t)
  | .url loc _ tid url description t => some (loc, tid, .url description url t)
  | _ => none

/-- the events that create / replace a result: its location, the suite it is put into, the mutation of that suite -/
def startOf : Event → Option (Loc × Path × Leaf)
  | .suiteSetupStart path t => some (.suiteSetup path, path, .setup (fun _ => .ok (some (initResult t))))
  | .suiteTeardownStart path t => some (.suiteTeardown path, path, .teardown (fun _ => .ok (some (initResult t))))
  | .testStart path md t => some (.test (path.dropLast ++ [md.name]), path.dropLast, .addTest (initTest md t))
  | .testSkipped path md reason t =>
    some (.test (path.dropLast ++ [md.name]), path.dropLast, .addTest (bypassTest md .skipped reason t))
  | .testDisabled path md reason t =>
    some (.test (path.dropLast ++ [md.name]), path.dropLast, .addTest (bypassTest md .disabled reason t))
  | _ => none

/-- the events that finalize a result -/
def endOf : Event → Option (Loc × Time)
  | .suiteSetupEnd path t => some (.suiteSetup path, t)
  | .suiteTeardownEnd path t => some (.suiteTeardown path, t)
  | .testEnd path t => some (.test path, t)
  | _ => none

def finF (t : Time) (x : Result) : Except WriterErr Result := .ok (finalizeResult t x)
def newStep (d : String) (t : Time) : Step := { description := d, startTime := some t, endTime := none, entries := [] }
/-- append the step, provided the result has `n` steps so far (`n` is what `active_steps` will remember) -/
def stepF (n : Nat) (step : Step) (x : Result) : Except WriterErr Result :=
  if x.steps.length = n then .ok { x with steps := x.steps ++ [step] } else .error .internal
def endStepF (t : Time) (idx : Nat) (x : Result) : Except WriterErr Result :=
  .ok { x with steps := modifyNth (setStepEnd t) idx x.steps }

/-! ### the discipline -/

def refAvoids (loc : Loc) (ref : StepRef) : Bool :=
  match ref.target with
  | some (l, _) => l != loc
  | none => true

/-- no thread's binding points into the result at `loc` -/
def noRefs (act : List (Nat × StepRef)) (loc : Loc) : Bool := act.all (fun b => refAvoids loc b.2)

def refAt (loc : Loc) (ref : StepRef) : Bool :=
  match ref.target with
  | some (l, _) => l == loc
  | none => true

/-- the binding of thread `tid`, if it points into the report, points into the result at `loc` -/
def located (act : List (Nat × StepRef)) (loc : Loc) (tid : Nat) : Bool :=
  match act.lookup tid with
  | some ref => refAt loc ref
  | none => true

def tidLocOf : Event → Option (Loc × Nat)
  | .stepEnd loc _ tid _ => some (loc, tid)
  | e => match entryOf e with
    | some (loc, tid, _) => some (loc, tid)
    | none => none

/-- a result is started at most once while step references into it exist -/
def startsFresh (w : WriterState) (e : Event) : Bool :=
  match startOf e with
  | some (loc, _, _) => noRefs w.active loc
  | none => true

/-- step ends and logs are emitted at the location of the emitting thread's current step -/
def emitsInPlace (w : WriterState) (e : Event) : Bool :=
  match tidLocOf e with
  | some (loc, tid) => located w.active loc tid
  | none => true

/-- **The discipline of a run** (what lemoncheesecake's runtime guarantees about the stream): a result location is started
    while no thread's step binding points into it (each result starts once), and a thread's step-end / log events carry the
    location of the step the thread is bound to. -/
def disc (w : WriterState) (e : Event) : Bool := startsFresh w e && emitsInPlace w e

theorem detach_of_noRefs (loc : Loc) : ∀ act : List (Nat × StepRef), noRefs act loc = true → detach loc act = act
  | [], _ => rfl
  | (tid, ref) :: rest, h => by
    simp only [noRefs, List.all_cons, Bool.and_eq_true] at h
    have ih := detach_of_noRefs loc rest h.2
    simp only [detach, List.map_cons] at ih ⊢
    rw [ih]
    congr 1
    have h1 := h.1
    simp only [refAvoids] at h1
    cases ht : ref.target with
    | none => rfl
    | some li =>
      obtain ⟨l, i⟩ := li
      simp only [ht, bne_iff_ne, ne_eq] at h1
      simp [h1]

/-! ### what each handler does, in the success direction -/

theorem onReport_iff {w w' : WriterState} {x : Except WriterErr Report} :
    onReport w x = .ok w' ↔ ∃ r', x = .ok r' ∧ w' = { w with report := r' } := by
  cases x with
  | ok r' => simp [onReport, eq_comm]
  | error e => simp [onReport]

theorem onResultStart_iff {loc : Loc} {w w' : WriterState} {x : Except WriterErr Report} :
    onResultStart loc w x = .ok w' ↔ ∃ r', x = .ok r' ∧ w' = ⟨r', detach loc w.active⟩ := by
  cases x with
  | ok r' => simp [onResultStart, eq_comm]
  | error e => simp [onResultStart]

theorem steps_tree_iff (p : Path) (lf : Leaf) (w w' : WriterState) :
    Micro.Steps ⟨none, some (p, lf), none⟩ w w' ↔
      ∃ r', liftSuites w.report (topOp p lf w.report.suites) = .ok r' ∧ w' = { w with report := r' } := by
  constructor
  · rintro ⟨_, h1, h2⟩
    simp only [Micro.treeRun, pushOpt] at h1 h2
    refine ⟨w'.report, h1, ?_⟩
    cases w'; simp only at h2; subst h2; rfl
  · rintro ⟨r', h1, rfl⟩
    refine ⟨?_, ?_, ?_⟩
    · intro _ _ h; cases h
    · simpa only [Micro.treeRun] using h1
    · rfl

theorem apply_suiteStart_iff (w w' : WriterState) (path : Path) (md : Meta) (t : Time) :
    apply w (.suiteStart path md t) = .ok w' ↔
      Micro.Steps ⟨none, some (path.dropLast, .child (initSuite md t)), none⟩ w w' := by
  rw [steps_tree_iff]
  simp only [apply]
  cases hp : path.dropLast with
  | nil => simp [topOp, liftSuites, eq_comm]
  | cons n rest =>
    simp only
    rw [onReport_iff]
    have : modifySuite (fun s => .ok (s.setSuites (s.suites ++ [initSuite md t]))) (n :: rest) w.report.suites
        = topOp (n :: rest) (.child (initSuite md t)) w.report.suites :=
      modifySuite_eq_topOp (.child (initSuite md t)) rest n _
    rw [this]

theorem apply_suiteEnd_iff (w w' : WriterState) (path : Path) (t : Time) :
    apply w (.suiteEnd path t) = .ok w' ↔ Micro.Steps ⟨none, some (path, .endTime (some t)), none⟩ w w' := by
  rw [steps_tree_iff]
  simp only [apply]
  rw [onReport_iff]
  have : modifySuite (fun s => .ok (s.setEndTime (some t))) path w.report.suites
      = topOp path (.endTime (some t)) w.report.suites :=
    modifySuite_eq_topOp' (.endTime (some t)) _ rfl (fun c h => by cases h) _ _
  rw [this]

theorem addTest_iff (parent : Path) (tr : TestResult) (r r' : Report) :
    addTest parent tr r = .ok r' ↔ liftSuites r (topOp parent (.addTest tr) r.suites) = .ok r' := by
  cases parent with
  | nil => simp [addTest, topOp, liftSuites]
  | cons n rest =>
    simp only [addTest]
    have : modifySuite (fun s => .ok (s.setTests (dictSet (fun t => t.md.name) tr s.tests))) (n :: rest) r.suites
        = topOp (n :: rest) (.addTest tr) r.suites := modifySuite_eq_topOp (.addTest tr) rest n _
    rw [this]

theorem apply_start_iff {e : Event} {loc : Loc} {p : Path} {lf : Leaf} (h : startOf e = some (loc, p, lf))
    (w w' : WriterState) :
    apply w e = .ok w' ↔ ∃ r', liftSuites w.report (topOp p lf w.report.suites) = .ok r' ∧ w' = ⟨r', detach loc w.active⟩ := by
  cases e <;> simp only [startOf, Option.some.injEq, Prod.mk.injEq, reduceCtorEq] at h
  all_goals obtain ⟨rfl, rfl, rfl⟩ := h
  all_goals simp only [apply]
  all_goals rw [onResultStart_iff]
  · rename_i path t
    have : modifySuite (fun s => .ok (s.setSetup (some (initResult t)))) path w.report.suites
        = topOp path (.setup (fun _ => .ok (some (initResult t)))) w.report.suites :=
      modifySuite_eq_topOp' (.setup (fun _ => .ok (some (initResult t)))) _ rfl (fun c h => by cases h) _ _
    rw [this]
  · rename_i path t
    have : modifySuite (fun s => .ok (s.setTeardown (some (initResult t)))) path w.report.suites
        = topOp path (.teardown (fun _ => .ok (some (initResult t)))) w.report.suites :=
      modifySuite_eq_topOp' (.teardown (fun _ => .ok (some (initResult t)))) _ rfl (fun c h => by cases h) _ _
    rw [this]
  · simp only [addTest_iff]
  · simp only [addTest_iff]
  · simp only [addTest_iff]

theorem apply_end_eq {e : Event} {loc : Loc} {t : Time} (h : endOf e = some (loc, t)) (w : WriterState) :
    apply w e = onReport w (modifyResult (finF t) loc w.report) := by
  cases e <;> simp only [endOf, Option.some.injEq, Prod.mk.injEq, reduceCtorEq] at h
  all_goals obtain ⟨rfl, rfl⟩ := h
  all_goals rfl

theorem apply_entry_eq {e : Event} {loc : Loc} {tid : Nat} {en : Entry} (h : entryOf e = some (loc, tid, en))
    (w : WriterState) : apply w e = addEntry w loc tid en := by
  cases e <;> simp only [entryOf, Option.some.injEq, Prod.mk.injEq, reduceCtorEq] at h
  all_goals obtain ⟨rfl, rfl, rfl⟩ := h
  all_goals rfl

theorem apply_stepStart_iff (w w' : WriterState) (loc : Loc) (d : String) (tid : Nat) (t : Time) :
    apply w (.stepStart loc d tid t) = .ok w' ↔
      ∃ n r', modifyResult (stepF n (newStep d t)) loc w.report = .ok r' ∧
        w' = ⟨r', (tid, ⟨some (loc, n), none⟩) :: w.active⟩ := by
  simp only [apply, stepCount]
  rcases modifyResult_factor loc w.report with ⟨e, h⟩ | ⟨x, put, _, h⟩
  · simp only [h]
    cases e <;> simp
  · simp only [h, stepF, newStep]
    constructor
    · intro hh
      cases hh
      exact ⟨x.steps.length, _, by simp, rfl⟩
    · rintro ⟨n, r', h1, rfl⟩
      by_cases hn : x.steps.length = n
      · subst hn
        simp only [if_true] at h1
        cases h1
        rfl
      · simp [hn] at h1

theorem apply_stepEnd_iff (w w' : WriterState) (loc : Loc) (s : String) (tid : Nat) (t : Time) :
    apply w (.stepEnd loc s tid t) = .ok w' ↔ ∃ ref, w.active.lookup tid = some ref ∧
      ((ref.target = none ∧ w' = { w with active := (tid, { ref with endTime := some t }) :: w.active }) ∨
       (∃ l idx r', ref.target = some (l, idx) ∧ modifyResult (endStepF t idx) l w.report = .ok r' ∧
          w' = ⟨r', (tid, { ref with endTime := some t }) :: w.active⟩)) := by
  simp only [apply]
  cases hl : w.active.lookup tid with
  | none => simp
  | some ref =>
    simp only [Option.some.injEq, exists_eq_left']
    cases ht : ref.target with
    | none => simp [eq_comm]
    | some li =>
      obtain ⟨l, idx⟩ := li
      simp only [reduceCtorEq, false_and, false_or, Option.some.injEq, Prod.mk.injEq]
      cases hm : modifyResult (fun x => .ok { x with steps := modifyNth (setStepEnd t) idx x.steps }) l w.report with
      | error e =>
        simp only [reduceCtorEq, false_iff, not_exists, not_and]
        rintro l' idx' r' ⟨rfl, rfl⟩ h2
        unfold endStepF at h2
        rw [hm] at h2; cases h2
      | ok r' =>
        constructor
        · intro h; cases h; exact ⟨l, idx, r', ⟨rfl, rfl⟩, hm, rfl⟩
        · rintro ⟨l', idx', r'', ⟨rfl, rfl⟩, h2, rfl⟩
          unfold endStepF at h2
          rw [hm] at h2; cases h2; rfl

theorem checkLocation_iff (loc : Loc) (r : Report) :
    checkLocation loc r = .ok () ↔ ∃ r0, modifyResult .ok loc r = .ok r0 := by
  unfold checkLocation
  cases h : modifyResult (fun x => .ok x) loc r with
  | ok r0 => simp
  | error e => cases e <;> simp

theorem addEntry_iff (w w' : WriterState) (loc : Loc) (tid : Nat) (en : Entry) :
    addEntry w loc tid en = .ok w' ↔ (∃ r0, modifyResult .ok loc w.report = .ok r0) ∧
      ∃ ref, w.active.lookup tid = some ref ∧
        ((ref.target = none ∧ truthyTime ref.endTime = false ∧ w' = w) ∨
         (∃ l idx r', ref.target = some (l, idx) ∧ modifyResult (addEntryAt idx en) l w.report = .ok r' ∧
            w' = { w with report := r' })) := by
  rw [← checkLocation_iff]
  unfold addEntry
  cases hc : checkLocation loc w.report with
  | error e => simp
  | ok u =>
    simp only [true_and]
    cases hl : w.active.lookup tid with
    | none => simp
    | some ref =>
      simp only [Option.some.injEq, exists_eq_left']
      cases ht : ref.target with
      | none =>
        simp only [true_and, reduceCtorEq, false_and, exists_false, or_false]
        cases truthyTime ref.endTime <;> simp [eq_comm]
      | some li =>
        obtain ⟨l, idx⟩ := li
        simp only [reduceCtorEq, false_and, false_or, Option.some.injEq, Prod.mk.injEq]
        cases hm : modifyResult (addEntryAt idx en) l w.report with
        | error e =>
          have : ∀ w'', (match (Except.error e : Except WriterErr Report) with
              | .ok r' => (.ok { w with report := r' } : Except WriterErr WriterState)
              | .error .assertStepEnded => .error .assertStepEnded
              | .error _ => .error .internal) ≠ .ok w'' := by
            intro w''; cases e <;> simp
          constructor
          · intro h; exact absurd h (this w')
          · rintro ⟨l', idx', r', ⟨rfl, rfl⟩, h2, _⟩
            rw [hm] at h2; cases h2
        | ok r' =>
          constructor
          · intro h; cases h; exact ⟨l, idx, r', ⟨rfl, rfl⟩, hm, rfl⟩
          · rintro ⟨l', idx', r'', ⟨rfl, rfl⟩, h2, rfl⟩
            rw [hm] at h2; cases h2; rfl

end LccModel.Writer

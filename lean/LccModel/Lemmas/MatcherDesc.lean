/-
  Helper lemmas about descriptions (M12): the verb transformation always shows a negation, the
  repaired `build_description` never alters the shared transformer.  Used by Props/C17.lean.
-/
import LccModel.Model.Matcher

namespace LccModel.Matcher

theorem dropPrefix?_eq : ∀ (p d rest : Str), dropPrefix? p d = some rest → d = p ++ rest
  | [], d, rest, h => by simp [dropPrefix?] at h; simp [h]
  | _ :: _, [], rest, h => by simp [dropPrefix?] at h
  | a :: p, b :: d, rest, h => by
    simp only [dropPrefix?] at h
    split at h
    · rename_i hab; subst hab; rw [dropPrefix?_eq p d rest h]; rfl
    · cases h

theorem takeDrop_length (p : Char → Bool) (l : Str) : (l.takeWhile p).length + (l.dropWhile p).length = l.length := by
  induction l with
  | nil => rfl
  | cons x xs ih => simp only [List.takeWhile, List.dropWhile]; cases p x <;> simp <;> omega

/-- the description begins with a verb form the transformer recognises -/
def Verbal (d : Str) : Prop :=
  (dropPrefix? c!"to be" d).isSome ∨ (dropPrefix? c!"to have" d).isSome ∨ (dropPrefix? c!"to match" d).isSome ∨
  (dropPrefix? c!"can" d).isSome ∨
  (∃ rest, dropPrefix? c!"to " d = some rest ∧ (rest.takeWhile isWordChar).isEmpty = false)

theorem apply_neg_length_ne (c : Bool) (d : Str) (hv : Verbal d) :
    (Tr.apply ⟨c, true⟩ d).length ≠ (Tr.apply ⟨c, false⟩ d).length := by
  unfold Tr.apply
  cases h1 : dropPrefix? c!"to be" d with
  | some rest =>
    have hd := dropPrefix?_eq _ _ _ h1
    cases c <;> simp [Tr.pick, hd] <;> omega
  | none =>
  cases h2 : dropPrefix? c!"to have" d with
  | some rest =>
    have hd := dropPrefix?_eq _ _ _ h2
    cases c <;> simp [Tr.pick, hd] <;> omega
  | none =>
  cases h3 : dropPrefix? c!"to match" d with
  | some rest =>
    have hd := dropPrefix?_eq _ _ _ h3
    cases c <;> simp [Tr.pick, hd] <;> omega
  | none =>
  cases h4 : dropPrefix? c!"can" d with
  | some rest =>
    have hd := dropPrefix?_eq _ _ _ h4
    cases c <;> simp [Tr.pick, hd] <;> omega
  | none =>
  cases h5 : dropPrefix? c!"to " d with
  | none =>
    rcases hv with h | h | h | h | ⟨rest, h, _⟩ <;> simp_all
  | some rest =>
    have hd := dropPrefix?_eq _ _ _ h5
    have hverb : (rest.takeWhile isWordChar).isEmpty = false := by
      rcases hv with h | h | h | h | ⟨rest', h, hr⟩
      · simp_all
      · simp_all
      · simp_all
      · simp_all
      · rw [h5] at h; cases h; exact hr
    have hlen := takeDrop_length isWordChar rest
    cases c <;> simp [Tr.pick, hverb, hd] <;> omega

theorem verbal_to_be (x : Str) : Verbal (c!"to be" ++ x) := Or.inl rfl
theorem verbal_to_have (x : Str) : Verbal (c!"to have" ++ x) := Or.inr (Or.inl rfl)

/-- the transformer only rewrites the leading verb: whatever follows "to have" / "to be" is kept verbatim -/
theorem apply_keeps_suffix_have (t : Tr) (x : Str) : ∃ pre, t.apply (c!"to have" ++ x) = pre ++ x := by
  unfold Tr.apply
  by_cases h : (!t.conjugate && !t.negative) = true
  · simp only [h, if_true]; exact ⟨c!"to have", rfl⟩
  · simp only [h, Bool.false_eq_true, if_false]
    exact ⟨_, rfl⟩

theorem apply_keeps_suffix_be (t : Tr) (x : Str) : ∃ pre, t.apply (c!"to be" ++ x) = pre ++ x := by
  unfold Tr.apply
  by_cases h : (!t.conjugate && !t.negative) = true
  · simp only [h, if_true]; exact ⟨c!"to be", rfl⟩
  · simp only [h, Bool.false_eq_true, if_false]
    exact ⟨_, rfl⟩

theorem Tr.neg_neg (t : Tr) : t.neg.neg = t := by cases t; simp [Tr.neg]

theorem describeList_eq_map (ms : List M) (t : Tr) : describeList ms t = ms.map (fun m => describe m t) := by
  induction ms with
  | nil => rfl
  | cons m ms ih => simp only [describeList, List.map, ih]

mutual
/-- the repaired code, threaded: same text as the pure reading, and the shared transformer object
    comes back unchanged -/
theorem describeSt_fixed : ∀ (m : M) (t : Tr), describeSt false m t = (describe m t, t)
  | .equalTo _, _ => rfl
  | .cmp _ _, _ => rfl
  | .between _ _, _ => rfl
  | .isNone, _ => rfl
  | .hasLength m, t => by simp only [describeSt, describe, describeSt_fixed m]
  | .startsWith _, _ => rfl
  | .endsWith _, _ => rfl
  | .containsString _, _ => rfl
  | .hasItem m, t => by simp only [describeSt, describe, describeSt_fixed m]
  | .hasItems _, _ => rfl
  | .hasOnlyItems _, _ => rfl
  | .hasAllItems m, t => by simp only [describeSt, describe, describeSt_fixed m]
  | .isIn _, _ => rfl
  | .hasEntry p m, t => by simp only [describeSt, describe, describeSt_fixed m]
  | .hasKey _, _ => rfl
  | .isType ty m, t => by simp only [describeSt, describe, describeSt_fixed m]
  | .isTypeAny _, _ => rfl
  | .allOf ms, t => by
    simp only [describeSt, describe, describeListSt_fixed ms, ite_self, renderComposite]
    cases singleLine? c!"and" (ms.any M.isComposite) (describeList ms t) <;> rfl
  | .anyOf ms, t => by
    simp only [describeSt, describe, describeListSt_fixed ms, ite_self, renderComposite]
    cases singleLine? c!"or" (ms.any M.isComposite) (describeList ms t) <;> rfl
  | .anything _, _ => rfl
  | .not m, t => by simp [describeSt, describe, describeSt_fixed m]
  | .hidden m, t => by simp only [describeSt, describe, describeSt_fixed m]
  | .described _ _, _ => rfl
theorem describeListSt_fixed : ∀ (ms : List M) (t : Tr), describeListSt false ms t = (describeList ms t, t)
  | [], _ => rfl
  | m :: ms, t => by simp only [describeListSt, describeList, describeSt_fixed m, describeListSt_fixed ms]
end

end LccModel.Matcher

import LccModel.Lemmas.RunFlags

/-!
  "Passed means: ran to completion" on the run model.  Two frame facts —
  (1) the model-error flag is sticky (every program of the interpreter keeps `err.isSome`),
  (2) a script that returns without exception has emitted its `exit` record (or ran out of fuel: model error) —
  used by `Props/C02Run.passed_test_ran_its_body_to_completion`.
-/
namespace LccModel.Run
open LccModel.Report LccModel.Session

/-- once a model error is recorded it stays recorded -/
def KeepsErr {α : Type} (m : M α) : Prop := ∀ ts, ts.err.isSome = true → (exec m ts).2.err.isSome = true

theorem ke_pure {α : Type} (a : α) : KeepsErr (pure a : M α) := fun _ h => h
theorem ke_bind {α β : Type} {m : M α} {f : α → M β} (h1 : KeepsErr m) (h2 : ∀ a, KeepsErr (f a)) : KeepsErr (m >>= f) :=
  fun ts h => h2 _ _ (h1 ts h)
theorem ke_get_bind {β : Type} {f : TS → M β} (h : ∀ s, KeepsErr (f s)) : KeepsErr (get >>= f) := fun ts => h ts ts
theorem ke_modify (g : TS → TS) (h : ∀ ts, ts.err.isSome = true → (g ts).err.isSome = true) : KeepsErr (modify g : M PUnit) :=
  fun ts => h ts
theorem ke_emitUser (role : Nat) (u : UnitId) (w : String) : KeepsErr (emitUser role u w) := ke_modify _ (fun _ h => h)
theorem ke_modelErr (msg : String) : KeepsErr (modelErr msg) := by
  unfold modelErr; apply ke_modify; intro ts h; simp [h]
theorem ke_sop (role : Nat) (op : Session.Op) : KeepsErr (sop role op) := by
  intro ts h
  rw [exec_sop]
  cases Session.step ts.sess role op with
  | ok s' => exact h
  | error e => simp [h]
theorem ke_apiAct (role : Nat) (op : Session.Op) : KeepsErr (apiAct role op) := by
  intro ts h
  have h' := ke_sop role op { ts with acts := ts.acts + 1 } h
  rw [exec_apiAct]
  split
  · split
    · exact h
    · exact h'
  · exact h'
theorem ke_isOk (loc : Loc) : KeepsErr (isOk loc) := fun _ h => h

macro "ke1" : tactic => `(tactic| with_reducible (first
  | apply ke_pure | apply ke_modelErr | apply ke_emitUser | apply ke_sop | apply ke_apiAct | apply ke_isOk
  | (apply ke_get_bind; intro _)
  | (apply ke_modify; intro _ h; exact h)
  | refine ke_bind ?_ (fun _ => ?_) | assumption | dsimp only | split))
macro "ke" : tactic => `(tactic| repeat' ke1)
syntax "ke_using" term,* : tactic
macro_rules
  | `(tactic| ke_using $ts,*) => `(tactic| (ke; all_goals with_reducible (first $[| apply $ts]*)))

theorem ke_exec : ∀ fuel : Nat,
    (∀ role u i acts, KeepsErr (execActs fuel role u i acts)) ∧ (∀ role u sc, KeepsErr (execScript fuel role u sc)) := by
  intro fuel
  induction fuel with
  | zero =>
    constructor
    · intro role u i acts
      cases acts with
      | nil => unfold execActs; ke
      | cons a rest => rw [execActs_zero]; ke
    · intro role u sc
      rw [execScript_zero]; ke
  | succ fuel ih =>
    constructor
    · intro role u i acts
      cases acts with
      | nil => unfold execActs; ke
      | cons a rest =>
        rw [execActs_succ]
        have h1 := ih.1
        have h2 := ih.2
        refine ke_bind (ke_emitUser _ _ _) (fun _ => ke_bind ?_ (fun r => ?_))
        · cases a <;> unfold actStep <;> ke
          all_goals exact h2 _ _ _
        · cases r with
          | none => exact h1 _ _ _ _
          | some k => ke
    · intro role u sc
      rw [execScript_succ]
      exact ke_bind (ke_emitUser _ _ _) (fun _ => ih.1 _ _ _ _)

theorem ke_runUnit (u : UnitId) (sc : Script) : KeepsErr (runUnit u sc) := (ke_exec FUEL).2 0 u sc

theorem ke_handleException (k : ExcKind) (suite : Option Path) (ws : Bool) : KeepsErr (handleException k suite ws) := by
  unfold handleException; ke

theorem ke_teardownObjects (f : Fx) (first : Option ExcKind) (objs : List (InstKey × String × Nat)) :
    KeepsErr (teardownObjects f first objs) := by
  induction objs generalizing first with
  | nil => unfold teardownObjects; ke
  | cons o rest ih => unfold teardownObjects; ke_using ke_runUnit, ih

theorem ke_teardownFixture (Pj : Proj) (k : InstKey) (name : String) : KeepsErr (teardownFixture Pj k name) := by
  unfold teardownFixture
  ke_using ke_runUnit, ke_teardownObjects

theorem ke_runTd (Pj : Proj) (svs : List SuiteView) (loc : Loc) (td : Td) : KeepsErr (runTd Pj svs loc td) := by
  cases td <;> unfold runTd <;> ke_using ke_runUnit, ke_teardownFixture

theorem ke_tdStep (Pj : Proj) (svs : List SuiteView) (loc : Loc) (hs : Option Path) (td : Td) :
    KeepsErr (tdStep Pj svs loc hs td) := by
  unfold tdStep
  ke_using ke_runTd, ke_handleException

theorem ke_runTdList (Pj : Proj) (svs : List SuiteView) (loc : Loc) (hs : Option Path) (tds : List Td) :
    KeepsErr (runTdList Pj svs loc hs tds) := by
  induction tds with
  | nil => unfold runTdList; ke
  | cons td rest ih => unfold runTdList; ke_using ke_tdStep, ih

theorem ke_testTeardown (Pj : Proj) (svs : List SuiteView) (path : Path) (kept : List Td) :
    KeepsErr (testTeardown Pj svs path kept) := by
  unfold testTeardown runTeardownFuncs
  ke_using ke_runTdList

theorem execActs_nil_exec (fuel role : Nat) (u : UnitId) (i : Nat) (ts : TS) :
    exec (execActs fuel role u i []) ts = (none, { ts with out := ts.out.push (Item.user role u "exit") }) := by
  unfold execActs; rfl

theorem execActs_succ_exec (fuel role : Nat) (u : UnitId) (i : Nat) (a : Act) (rest : List Act) (ts : TS) :
    exec (execActs (fuel + 1) role u i (a :: rest)) ts =
      (match (exec (actStep fuel role u i a) (exec (emitUser role u s!"act:{i}") ts).2).1 with
       | some k => (some k, (exec (emitUser role u (raiseName k))
            (exec (actStep fuel role u i a) (exec (emitUser role u s!"act:{i}") ts).2).2).2)
       | none => exec (execActs fuel role u (i + 1) rest)
            (exec (actStep fuel role u i a) (exec (emitUser role u s!"act:{i}") ts).2).2) := by
  rw [execActs_succ]
  show exec (match (exec (actStep fuel role u i a) (exec (emitUser role u s!"act:{i}") ts).2).1 with
      | some k => do emitUser role u (raiseName k); return some k
      | none => execActs fuel role u (i + 1) rest) _ = _
  cases (exec (actStep fuel role u i a) (exec (emitUser role u s!"act:{i}") ts).2).1 <;> rfl

theorem modelErr_isSome (msg : String) (ts : TS) : (exec (modelErr msg) ts).2.err.isSome = true := by
  unfold modelErr
  simp only [exec_modify]
  split
  · assumption
  · rfl

/-- **a script that returns without exception has run to its end**: its `exit` record is in the output —
    unless the interpreter ran out of fuel, which is recorded as a model error -/
theorem exit_of_none : ∀ fuel : Nat,
    (∀ role u i acts ts, (exec (execActs fuel role u i acts) ts).1 = none →
      Item.user role u "exit" ∈ (exec (execActs fuel role u i acts) ts).2.out.toList ∨
      (exec (execActs fuel role u i acts) ts).2.err.isSome = true) ∧
    (∀ role u sc ts, (exec (execScript fuel role u sc) ts).1 = none →
      Item.user role u "exit" ∈ (exec (execScript fuel role u sc) ts).2.out.toList ∨
      (exec (execScript fuel role u sc) ts).2.err.isSome = true) := by
  intro fuel
  induction fuel with
  | zero =>
    constructor
    · intro role u i acts ts _
      cases acts with
      | nil => left; rw [execActs_nil_exec]; simp
      | cons a rest =>
        right
        rw [execActs_zero]
        exact modelErr_isSome _ _
    · intro role u sc ts _
      right
      rw [execScript_zero]
      exact modelErr_isSome _ _
  | succ fuel ih =>
    constructor
    · intro role u i acts ts h
      cases acts with
      | nil => left; rw [execActs_nil_exec]; simp
      | cons a rest =>
        rw [execActs_succ_exec] at h ⊢
        revert h
        split
        · intro h; cases h
        · intro h; exact ih.1 _ _ _ _ _ h
    · intro role u sc ts h
      rw [execScript_succ] at h ⊢
      exact ih.1 _ _ _ _ _ h

/-- `testBody`, executed: the decisions it takes, spelled out -/
theorem testBody_exec (P : Proj) (svs : List SuiteView) (w : Nat) (path : Path) (tsp : TestSpec) (ts : TS) :
    exec (testBody P svs w path tsp) ts =
    (match isSuccessful ts.sess (.test path) with
     | false => ((), ts)
     | true =>
       match exec (lookupAll P svs w (.test path) path.dropLast tsp.fixtures) ts with
       | (some e, s1) => exec (handleException e (some path.dropLast) true) s1
       | (none, s1) =>
         match isSuccessful s1.sess (.test path) with
         | false => ((), s1)
         | true =>
           match exec (runUnit (.body path) tsp.script) (exec (sop 0 (.setStep ("test " ++ tsp.name))) s1).2 with
           | (some e, s3) => exec (handleException e (some path.dropLast) true) s3
           | (none, s3) => ((), s3)) := by
  unfold testBody
  rw [exec_bind]
  show exec (if isSuccessful ts.sess (.test path) = true then _ else _) ts = _
  cases h0 : isSuccessful ts.sess (.test path)
  · rfl
  · simp only [if_true]
    rw [exec_bind]
    rcases h1 : exec (lookupAll P svs w (.test path) path.dropLast tsp.fixtures) ts with ⟨v1, s1⟩
    cases v1 with
    | some e => rfl
    | none =>
      simp only
      rw [exec_bind]
      show exec (if isSuccessful s1.sess (.test path) = true then _ else _) s1 = _
      cases h2 : isSuccessful s1.sess (.test path)
      · rfl
      · simp only [if_true]
        rw [exec_bind, exec_bind]
        rcases h3 : exec (runUnit (.body path) tsp.script) (exec (sop 0 (.setStep ("test " ++ tsp.name))) s1).2 with ⟨v3, s3⟩
        cases v3 <;> rfl

/-- `start_test` by a worker: all cursors stay at the test, the worker gets its cursor -/
theorem tr_startTest (path : Path) (md : Meta) :
    Tr (JT (.test path)) (JC (.test path)) (fun _ => True) (sop 0 (.startTest path md)) := by
  apply tr_sop
  · intro s s' hj hs
    obtain ⟨s2, h2, h3, h4⟩ := step_startTest s 0 path md
    rw [hs] at h2; injection h2 with h2; subst h2
    exact ⟨⟨inv_step hj.1 hs, (step_loc hj.2 (by simp [opFor]) hs).1, h4⟩, _, h3, trivial⟩
  · intro s e hj hs
    obtain ⟨s2, h2, _⟩ := step_startTest s 0 path md
    rw [hs] at h2; cases h2

/-- `end_test` by the worker that has its cursor at the test -/
theorem tr_endTest (path : Path) :
    Tr (JC (.test path)) (JC (.test path)) (fun _ => True) (sop 0 (.endTest path)) := by
  apply tr_sop
  · intro s s' hj hs
    obtain ⟨s2, pre, t1, h2, h3, _⟩ := step_endTest path hj.2.1 hj.2.2
    rw [hs] at h2; injection h2 with h2; subst h2
    exact ⟨⟨inv_step hj.1 hs, (step_loc hj.2.1 (by simp [opFor]) hs).1, step_hasCursor 0 hj.2.2 hs⟩,
      pre ++ [.testEnd path t1], by rw [h3, List.append_assoc], trivial⟩
  · intro s e hj hs
    obtain ⟨s2, pre, t1, h2, _⟩ := step_endTest path hj.2.1 hj.2.2
    rw [hs] at h2; cases h2

/-- `testRun`, executed: the six phases in sequence -/
theorem testRun_exec (P : Proj) (svs : List SuiteView) (w : Nat) (path : Path) (sv : SuiteView) (tsp : TestSpec) (s0 : TS) :
    exec (testRun P svs w path sv tsp) s0 =
      (let s1 := (exec (sop 0 (.startTest path (mdOf tsp.name tsp.rank))) s0).2
       let s2 := (exec (sop 0 (.setStep "Setup test")) s1).2
       let r3 := exec (testSetup P svs w path sv tsp) s2
       let s4 := (exec (testBody P svs w path tsp) r3.2).2
       let s5 := (exec (testTeardown P svs path r3.1) s4).2
       let s6 := (exec (sop 0 (.endTest path)) s5).2
       ((if isSuccessful s6.sess (.test path) then .success else .failure, []), s6)) := by
  unfold testRun
  rfl

end LccModel.Run

/-! ### a concrete passing test for non-vacuity examples -/
namespace LccModel.Run.PassSample
open LccModel.Report LccModel.Run

/-- a test that passes: a test-scoped generator fixture, a `setup_test` hook, logs, a step set twice with the same
    description, an attachment block with an attachment inside, a thread -/
def fx : Fx := { name := "f", func := "f", scope := .test, perThread := false, params := [], gen := true,
                 setup := [.log .info], teardown := [.attachBlock [.attach]] }
def tp : TestSpec := ⟨"p", 0, false, false, [], ["f"],
  [.step "poll", .log .info, .step "poll", .attachBlock [.attach, .log .info], .thread [.log .info]]⟩
def P : Proj := ⟨[fx], [SuiteSpec.mk "s" 0 false none none (some [.log .info]) none [] [tp] []], 2, false, false⟩
def sv : SuiteView := ⟨["s"], SuiteSpec.mk "s" 0 false none none (some [.log .info]) none [] [tp] [], false⟩
def out : TaskOut := runTask P Insts.empty 0 ⟨.test, ["s", "p"]⟩ true false [] none

end LccModel.Run.PassSample

/-
  Lemmas about the generic list helpers of `Model/Writer.lean`: the stable rank sort behind
  `get_tests()` / `get_suites()`, the insertion-ordered dict (`dictSet`), `modifyFirst`.
-/
import LccModel.Model.Writer

namespace LccModel.Writer

theorem insertByRank_perm {α : Type} (rank : α → Nat) (x : α) : ∀ l : List α, (insertByRank rank x l).Perm (x :: l)
  | [] => List.Perm.refl _
  | y :: ys => by
    unfold insertByRank
    split
    · exact List.Perm.refl _
    · exact ((insertByRank_perm rank x ys).cons y).trans (List.Perm.swap x y ys)

theorem sortByRank_perm {α : Type} (rank : α → Nat) : ∀ l : List α, (sortByRank rank l).Perm l
  | [] => List.Perm.refl _
  | x :: xs => (insertByRank_perm rank x _).trans ((sortByRank_perm rank xs).cons x)

theorem mem_sortByRank {α : Type} (rank : α → Nat) (l : List α) (x : α) : x ∈ sortByRank rank l ↔ x ∈ l :=
  (sortByRank_perm rank l).mem_iff

theorem length_sortByRank {α : Type} (rank : α → Nat) (l : List α) : (sortByRank rank l).length = l.length :=
  (sortByRank_perm rank l).length_eq

/-- a list whose ranks are all equal (in particular: a loaded report, rank 0 everywhere) is its own sort -/
theorem sortByRank_of_const {α : Type} (rank : α → Nat) (c : Nat) :
    ∀ l : List α, (∀ x ∈ l, rank x = c) → sortByRank rank l = l
  | [], _ => rfl
  | x :: xs, h => by
    have ih := sortByRank_of_const rank c xs (fun y hy => h y (by simp [hy]))
    simp only [sortByRank, ih]
    cases xs with
    | nil => rfl
    | cons y ys =>
      have hx := h x (by simp)
      have hy := h y (by simp)
      simp [insertByRank, hx, hy]

theorem map_insertByRank {α β : Type} (rank : α → Nat) (rank' : β → Nat) (f : α → β)
    (hr : ∀ x, rank' (f x) = rank x) (x : α) :
    ∀ l : List α, (insertByRank rank x l).map f = insertByRank rank' (f x) (l.map f)
  | [] => rfl
  | y :: ys => by
    simp only [insertByRank, List.map_cons, hr]
    split
    · rfl
    · simp [map_insertByRank rank rank' f hr x ys]

/-- sorting commutes with a map that preserves the key -/
theorem map_sortByRank {α β : Type} (rank : α → Nat) (rank' : β → Nat) (f : α → β)
    (hr : ∀ x, rank' (f x) = rank x) :
    ∀ l : List α, (sortByRank rank l).map f = sortByRank rank' (l.map f)
  | [] => rfl
  | x :: xs => by
    simp only [sortByRank, List.map_cons, map_insertByRank rank rank' f hr, map_sortByRank rank rank' f hr xs]

/-- the sort is stable and idempotent: sorting a sorted list changes nothing -/
theorem insertByRank_of_le_head {α : Type} (rank : α → Nat) (x : α) (l : List α)
    (h : ∀ y ∈ l.head?, rank x ≤ rank y) : insertByRank rank x l = x :: l := by
  cases l with
  | nil => rfl
  | cons y ys => simp [insertByRank, h y (by simp)]

theorem all_sortByRank {α : Type} (rank : α → Nat) (p : α → Bool) (l : List α) :
    (sortByRank rank l).all p = l.all p := by
  rw [Bool.eq_iff_iff]
  simp [List.all_eq_true, mem_sortByRank]

/-! ### `dictSet` -/

theorem dictSet_of_new {α : Type} (key : α → String) (x : α) :
    ∀ acc : List α, (∀ y ∈ acc, key y ≠ key x) → dictSet key x acc = acc ++ [x]
  | [], _ => rfl
  | y :: ys, h => by
    have hy : (key y == key x) = false := by simpa using h y (by simp)
    simp [dictSet, hy, dictSet_of_new key x ys (fun z hz => h z (by simp [hz]))]

theorem foldl_dictSet {α : Type} (key : α → String) :
    ∀ (xs acc : List α), ((acc ++ xs).map key).Nodup →
      xs.foldl (fun acc x => dictSet key x acc) acc = acc ++ xs
  | [], acc, _ => by simp
  | x :: xs, acc, h => by
    have hnew : ∀ y ∈ acc, key y ≠ key x := by
      intro y hy heq
      rw [List.map_append, List.nodup_append] at h
      exact h.2.2 (key y) (List.mem_map_of_mem hy) (key x) (by simp) heq
    simp only [List.foldl_cons, dictSet_of_new key x acc hnew]
    have := foldl_dictSet key xs (acc ++ [x]) (by simpa using h)
    simpa using this

end LccModel.Writer

/-
  Helper lemmas about the sequence semantics of one policy object (`Model/PolicySeq.lean`).  Core Lean only.
-/
import LccModel.Model.PolicySeq
import LccModel.Lemmas.Policy

namespace LccModel.Policy
open LccModel.Loops

/-! ### `upsert` = assignment in an insertion-ordered dict -/

theorem mem_keys_upsert {α : Type} (key : α → String) (l : List α) (a : α) (k : String) :
    k ∈ (upsert key l a).map key ↔ k ∈ l.map key ∨ k = key a := by
  induction l with
  | nil => simp [upsert]
  | cons x xs ih =>
    unfold upsert
    split
    · rename_i h
      simp only [List.map_cons, List.mem_cons, h]
      constructor
      · rintro (h1 | h1)
        · exact .inr h1
        · exact .inl (.inr h1)
      · rintro ((h1 | h1) | h1)
        · exact .inl h1
        · exact .inr h1
        · exact .inl h1
    · simp only [List.map_cons, List.mem_cons, ih]
      constructor
      · rintro (h1 | h1 | h1)
        · exact .inl (.inl h1)
        · exact .inl (.inr h1)
        · exact .inr h1
      · rintro ((h1 | h1) | h1)
        · exact .inl h1
        · exact .inr (.inl h1)
        · exact .inr (.inr h1)

theorem nodup_keys_upsert {α : Type} (key : α → String) (l : List α) (a : α)
    (h : (l.map key).Nodup) : ((upsert key l a).map key).Nodup := by
  induction l with
  | nil => simp [upsert]
  | cons x xs ih =>
    unfold upsert
    split
    · rename_i hk
      simpa [hk] using h
    · rename_i hk
      simp only [List.map_cons, List.nodup_cons] at h ⊢
      refine ⟨?_, ih h.2⟩
      intro hm
      rcases (mem_keys_upsert key xs a (key x)).mp hm with h1 | h1
      · exact h.1 h1
      · exact hk h1

theorem find_upsert_same {α : Type} (key : α → String) (l : List α) (a : α) :
    (upsert key l a).find? (fun x => decide (key x = key a)) = some a := by
  induction l with
  | nil => simp [upsert]
  | cons x xs ih =>
    unfold upsert
    split
    · simp
    · rename_i hk
      simp [hk, ih]

theorem find_upsert_other {α : Type} (key : α → String) (l : List α) (a : α) (k : String) (hk : k ≠ key a) :
    (upsert key l a).find? (fun x => decide (key x = k)) = l.find? (fun x => decide (key x = k)) := by
  induction l with
  | nil => simp [upsert, Ne.symm hk]
  | cons x xs ih =>
    unfold upsert
    split
    · rename_i hx
      have : key x ≠ k := fun h => hk (h ▸ hx)
      simp [this, Ne.symm hk]
    · simp [List.find?_cons, ih]

/-- `for tag_name in tag_names: self._tags[tag_name] = {on_test, on_suite}` -/
theorem find_foldl_upsert_tags (t s : Bool) (names : List String) (l : List TagRule) (k : String) :
    (names.foldl (fun l n => upsert (·.name) l ⟨n, t, s⟩) l).find? (fun r => decide (r.name = k)) =
      if k ∈ names then some ⟨k, t, s⟩ else l.find? (fun r => decide (r.name = k)) := by
  induction names generalizing l with
  | nil => simp
  | cons n ns ih =>
    simp only [List.foldl_cons, ih, List.mem_cons]
    by_cases hks : k ∈ ns
    · simp [hks]
    · simp only [hks, if_false, or_false]
      by_cases hkn : k = n
      · subst hkn
        simpa using find_upsert_same TagRule.name l ⟨k, t, s⟩
      · simp only [hkn, if_false]
        exact find_upsert_other TagRule.name l ⟨n, t, s⟩ k hkn

theorem nodup_foldl_upsert_tags (t s : Bool) (names : List String) (l : List TagRule)
    (h : (l.map (·.name)).Nodup) :
    ((names.foldl (fun l n => upsert (·.name) l ⟨n, t, s⟩) l).map (·.name)).Nodup := by
  induction names generalizing l with
  | nil => simpa using h
  | cons n ns ih =>
    simp only [List.foldl_cons]
    exact ih _ (nodup_keys_upsert TagRule.name l ⟨n, t, s⟩ h)

/-! ### configuration keeps the policy a pair of dicts -/

theorem empty_wf : WF empty := ⟨by simp [empty], by simp [empty]⟩

theorem configure_wf (P : Policy) (o : Op) (wf : WF P) : WF (configure P o) := by
  cases o with
  | propRule n vs a b req =>
    simp only [configure]
    cases ruleApplication a b with
    | none => exact wf
    | some ts => exact ⟨nodup_keys_upsert PropRule.name P.props _ wf.props, wf.tags⟩
  | tagRule names a b =>
    simp only [configure]
    cases ruleApplication a b with
    | none => exact wf
    | some ts => exact ⟨wf.props, nodup_foldl_upsert_tags _ _ names P.tags wf.tags⟩
  | noUnknownProps => exact ⟨wf.props, wf.tags⟩
  | noUnknownTags => exact ⟨wf.props, wf.tags⟩

theorem confAll_wf (P : Policy) (ops : List Op) (wf : WF P) : WF (confAll P ops) := by
  induction ops generalizing P with
  | nil => exact wf
  | cons o r ih => exact ih (configure P o) (configure_wf P o wf)

theorem confAll_append (P : Policy) (a b : List Op) : confAll P (a ++ b) = confAll (confAll P a) b := by
  simp [confAll, List.foldl_append]

theorem confs_append (a b : List Step) : confs (a ++ b) = confs a ++ confs b := by
  induction a with
  | nil => rfl
  | cons s r ih => cases s <;> simp [confs, ih]

theorem checks_append (a b : List Step) : checks (a ++ b) = checks a ++ checks b := by
  induction a with
  | nil => rfl
  | cons s r ih => cases s <;> simp [checks, ih]

/-- the verdict of a check made after `pre`: that of the policy configured by the configuration calls of `pre` -/
theorem run_check_at (P : Policy) (pre : List Step) (ns : List Node) (post : List Step) :
    (run P (pre ++ .check ns :: post))[(checks pre).length]? = some (checkNodes (confAll P (confs pre)) ns) := by
  induction pre generalizing P with
  | nil => simp [run, checks, confs, confAll]
  | cons s r ih =>
    cases s with
    | conf o => simpa [run, checks, confs, confAll] using ih (configure P o)
    | check m => simpa [run, checks, confs] using ih P

theorem run_length (P : Policy) (steps : List Step) : (run P steps).length = (checks steps).length := by
  induction steps generalizing P with
  | nil => rfl
  | cons s r ih => cases s <;> simp [run, checks, ih]

end LccModel.Policy

/-
  The projection lemma of trace theory, for event streams: two streams with the same events (`Perm`, no event twice)
  that order every pair of DEPENDENT events the same way are swap-equivalent (one is obtained from the other by
  exchanging adjacent independent events).  With `Lemmas/WriterSwap.lean` this turns "the schedules only differ in
  how independent events interleave" into "the writer folds the same report".
-/
import LccModel.Lemmas.WriterSwap

namespace LccModel.Writer
open LccModel.Report

/-- `a` occurs before `b` in `l` (positions of the first occurrences; the streams considered have no duplicates) -/
def Before (l : List Event) (a b : Event) : Prop := l.idxOf a < l.idxOf b ∧ b ∈ l

instance (l : List Event) (a b : Event) : Decidable (Before l a b) := by unfold Before; exact inferInstance

theorem idxOf_cons_ne' {l : List Event} {a x : Event} (h : x ≠ a) : (a :: l).idxOf x = l.idxOf x + 1 := by
  have : (a == x) = false := by simpa using (Ne.symm h)
  simp [List.idxOf_cons, this]

theorem idxOf_app_left {p q : List Event} {x : Event} (hx : x ∈ p) : (p ++ q).idxOf x = p.idxOf x := by
  rw [List.idxOf_append, if_pos hx]

theorem idxOf_app_right {p q : List Event} {x : Event} (hx : x ∉ p) : (p ++ q).idxOf x = p.length + q.idxOf x := by
  rw [List.idxOf_append, if_neg hx]; omega

theorem idxOf_mid {p q : List Event} {a : Event} (ha : a ∉ p) : (p ++ a :: q).idxOf a = p.length := by
  rw [idxOf_app_right ha, List.idxOf_cons_self]; omega

theorem idxOf_mid_left {p q : List Event} {a x : Event} (hx : x ∈ p) : (p ++ a :: q).idxOf x = p.idxOf x :=
  idxOf_app_left hx

theorem idxOf_mid_right {p q : List Event} {a x : Event} (hx : x ∉ p) (hne : x ≠ a) :
    (p ++ a :: q).idxOf x = p.length + 1 + q.idxOf x := by
  rw [idxOf_app_right hx, idxOf_cons_ne' hne]; omega

/-- removing one event keeps the relative order of the others -/
theorem before_remove {p q : List Event} {a x y : Event} (hxa : x ≠ a) (hya : y ≠ a)
    (h : Before (p ++ a :: q) x y) : Before (p ++ q) x y := by
  obtain ⟨hlt, hy⟩ := h
  have hy' : y ∈ p ++ q := by
    rcases List.mem_append.mp hy with h1 | h1
    · exact List.mem_append.mpr (.inl h1)
    · rcases List.mem_cons.mp h1 with h2 | h2
      · exact absurd h2 hya
      · exact List.mem_append.mpr (.inr h2)
  refine ⟨?_, hy'⟩
  by_cases hxp : x ∈ p <;> by_cases hyp : y ∈ p
  · rw [idxOf_mid_left hxp, idxOf_mid_left hyp] at hlt
    rw [idxOf_app_left hxp, idxOf_app_left hyp]; exact hlt
  · rw [idxOf_app_left hxp, idxOf_app_right hyp]
    have := List.idxOf_lt_length_of_mem hxp; omega
  · rw [idxOf_mid_right hxp hxa, idxOf_mid_left hyp] at hlt
    have := List.idxOf_lt_length_of_mem hyp; omega
  · rw [idxOf_mid_right hxp hxa, idxOf_mid_right hyp hya] at hlt
    rw [idxOf_app_right hxp, idxOf_app_right hyp]; omega

/-- **Projection lemma.**  `es` has no duplicates, `es'` is a permutation of it, and every two DEPENDENT events that
    `es` orders one way are ordered the same way by `es'`: then `es` and `es'` are swap-equivalent. -/
theorem swapEquiv_of_same_dependent_order : ∀ (es es' : List Event), es.Nodup → es.Perm es' →
    (∀ a b, a ≠ b → ¬ Indep a b → Before es a b → Before es' a b) → SwapEquiv es es'
  | [], es', _, hp, _ => by
    have : es' = [] := List.Perm.eq_nil (hp.symm) |> fun h => h
    subst this; exact .refl _
  | a :: t, es', hn, hp, hord => by
    have hat : a ∉ t := (List.nodup_cons.mp hn).1
    have htn : t.Nodup := (List.nodup_cons.mp hn).2
    have hmem : a ∈ es' := hp.subset (by simp)
    obtain ⟨p, q, rfl⟩ := List.append_of_mem hmem
    have hn' : (p ++ a :: q).Nodup := hp.nodup_iff.mp hn
    have hap : a ∉ p := by
      intro h
      have := (List.nodup_append.mp hn').2.2 a h a (by simp)
      exact this rfl
    -- the tail is a permutation of what is left of es'
    have hpt : t.Perm (p ++ q) := by
      have h1 : (a :: t).Perm (a :: (p ++ q)) := hp.trans (List.perm_middle)
      exact (List.perm_cons a).mp h1
    -- every event standing before `a` in es' is independent of `a`
    have hind : ∀ x ∈ p, Indep x a := by
      intro x hx
      have hxa : x ≠ a := fun h => hap (h ▸ hx)
      have hxt : x ∈ t := by
        have : x ∈ a :: t := hp.symm.subset (List.mem_append.mpr (.inl hx))
        rcases List.mem_cons.mp this with h | h
        · exact absurd h hxa
        · exact h
      apply Classical.byContradiction
      intro hdep
      have hdep' : ¬ Indep a x := fun h => hdep h.symm
      have hb : Before (a :: t) a x := by
        refine ⟨?_, by simp [hxt]⟩
        rw [List.idxOf_cons_self, idxOf_cons_ne' hxa]; omega
      have hb' := hord a x (Ne.symm hxa) hdep' hb
      rw [Before, idxOf_mid hap, idxOf_mid_left hx] at hb'
      have := List.idxOf_lt_length_of_mem hx
      omega
    -- the order hypothesis restricted to the tails
    have hord' : ∀ x y, x ≠ y → ¬ Indep x y → Before t x y → Before (p ++ q) x y := by
      intro x y hxy hdep hb
      have hyt : y ∈ t := hb.2
      have hxt : x ∈ t := by
        apply Classical.byContradiction
        intro hx
        have h1 : t.idxOf x = t.length := List.idxOf_eq_length hx
        have h2 := List.idxOf_lt_length_of_mem hyt
        have := hb.1; omega
      have hxa : x ≠ a := fun h => hat (h ▸ hxt)
      have hya : y ≠ a := fun h => hat (h ▸ hyt)
      have hb1 : Before (a :: t) x y := by
        refine ⟨?_, by simp [hyt]⟩
        rw [idxOf_cons_ne' hxa, idxOf_cons_ne' hya]
        have := hb.1; omega
      exact before_remove hxa hya (hord x y hxy hdep hb1)
    have ih := swapEquiv_of_same_dependent_order t (p ++ q) htn hpt hord'
    exact .trans (ih.cons a) (SwapEquiv.move_past a p q hind)

end LccModel.Writer

namespace LccModel.Writer
open LccModel.Report

/-! ### an executable check of the hypotheses (run by `drivers/C05.lean` on every pair of real streams) -/

/-- every two distinct dependent events that `es` orders one way are ordered the same way by `es'` -/
def sameDependentOrderB (es es' : List Event) : Bool :=
  es.all fun a => es.all fun b =>
    (a == b) || decide (Indep a b) || !(decide (Before es a b)) || decide (Before es' a b)

theorem mem_of_before_left {l : List Event} {a b : Event} (h : Before l a b) : a ∈ l := by
  have h1 := List.idxOf_lt_length_of_mem h.2
  exact List.idxOf_lt_length_iff.mp (Nat.lt_trans h.1 h1)

theorem sameDependentOrderB_sound {es es' : List Event} (h : sameDependentOrderB es es' = true) :
    ∀ a b, a ≠ b → ¬ Indep a b → Before es a b → Before es' a b := by
  intro a b hab hdep hb
  have ha : a ∈ es := mem_of_before_left hb
  have hbm : b ∈ es := hb.2
  have h1 := List.all_eq_true.mp h a ha
  have h2 := List.all_eq_true.mp h1 b hbm
  simp only [Bool.or_eq_true, beq_iff_eq, decide_eq_true_eq, Bool.not_eq_true', decide_eq_false_iff_not] at h2
  rcases h2 with ((h3 | h3) | h3) | h3
  · exact absurd h3 hab
  · exact absurd h3 hdep
  · exact absurd hb h3
  · exact h3

/-- the whole hypothesis list of `C05.report_independent_of_schedule`, as a boolean -/
def scheduleCheckB (es es' : List Event) : Bool :=
  decide es.Nodup && es.isPerm es' && sameDependentOrderB es es' && (drun initState es).toOption.isSome

theorem scheduleCheckB_sound {es es' : List Event} (h : scheduleCheckB es es' = true) :
    es.Nodup ∧ es.Perm es' ∧ (∀ a b, a ≠ b → ¬ Indep a b → Before es a b → Before es' a b) ∧
    (∃ w, drun initState es = .ok w) := by
  simp only [scheduleCheckB, Bool.and_eq_true, decide_eq_true_eq] at h
  obtain ⟨⟨⟨h1, h2⟩, h3⟩, h4⟩ := h
  refine ⟨h1, List.isPerm_iff.mp h2, sameDependentOrderB_sound h3, ?_⟩
  cases hd : drun initState es with
  | ok w => exact ⟨w, rfl⟩
  | error e => rw [hd] at h4; simp [Except.toOption] at h4

end LccModel.Writer

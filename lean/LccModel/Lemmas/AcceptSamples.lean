/-
  Two REAL accepted traces, used as non-vacuity witnesses by `Props/C01Accept.lean`.

  Project: the sample project of `Props/C01Graph.lean` (`sampleProj`) with a failing check in test `a.b.u1`.
  Both record lists were produced by the harness from real executions of `runner.run_suites` on that project
  (harness/props/_run.py `to_records`; 2 worker threads): `failingRecs` — a complete run (gate strategy fifo);
  `interruptedRecs` — a run with a KeyboardInterrupt delivered in the dispatcher's 4th blocking `get`.
  `sampleGts` is the task graph extracted from the real `build_tasks`.  The kernel replays the acceptor's entry
  point on them (`decide +kernel`).  Core Lean only.
-/
import LccModel.Lemmas.AcceptSound

namespace LccModel.AcceptSamples
open LccModel.Report LccModel.Run LccModel.Sched LccModel.RunAccept LccModel.TaskGraph LccModel.AcceptSound

def failingProj : Proj :=
  { fixtures := [{ name := "sf", func := "sf", scope := .session, perThread := false, params := [], gen := false, setup := [], teardown := [] }],
    suites := [
      .mk "a" 0 false (some ([], [])) none none none [] [{ name := "t1", rank := 0, disabled := false, disabledReason := false, deps := [["a", "b", "u1"]], fixtures := [], script := [] }, { name := "t2", rank := 0, disabled := false, disabledReason := false, deps := [["a", "t1"]], fixtures := ["sf"], script := [] }]
        [.mk "b" 0 false none none none none [] [{ name := "u1", rank := 0, disabled := false, disabledReason := false, deps := [], fixtures := [], script := [.check false] }] [],
         .mk "empty" 0 false none none none none [] [] []],
      .mk "c" 0 false none none none none [] [{ name := "t1", rank := 0, disabled := false, disabledReason := false, deps := [["a", "t2"]], fixtures := [], script := [] }] []],
    nbThreads := 2, forceDisabled := false, stopOnFailure := false }

private def lvl (p : Path) : Nat :=
  if p = ["a", "b", "u1"] then 0 else if p = ["a", "t1"] then 1 else if p = ["a", "t2"] then 2 else 3

theorem failingProj_valid : Valid failingProj :=
  ⟨by decide, by decide, by decide, by decide, ⟨lvl, by decide⟩⟩

/-- the graph the real `build_tasks` built (dependencies as task indices) -/
def sampleGts : List GTask :=
  [{ kind := .sessSetup, path := [], succ := [], compl := [] },
   { kind := .begin, path := ["a"], succ := [0], compl := [] },
   { kind := .init, path := ["a"], succ := [1], compl := [] },
   { kind := .test, path := ["a", "t1"], succ := [2, 7], compl := [] },
   { kind := .test, path := ["a", "t2"], succ := [2, 3], compl := [] },
   { kind := .teardown, path := ["a"], succ := [], compl := [2, 3, 4] },
   { kind := .begin, path := ["a", "b"], succ := [0, 1], compl := [] },
   { kind := .test, path := ["a", "b", "u1"], succ := [6], compl := [] },
   { kind := .end_, path := ["a", "b"], succ := [6, 7], compl := [] },
   { kind := .begin, path := ["a", "empty"], succ := [0, 1], compl := [] },
   { kind := .end_, path := ["a", "empty"], succ := [9], compl := [] },
   { kind := .end_, path := ["a"], succ := [1, 3, 4, 5, 8, 10], compl := [] },
   { kind := .begin, path := ["c"], succ := [0], compl := [] },
   { kind := .test, path := ["c", "t1"], succ := [12, 4], compl := [] },
   { kind := .end_, path := ["c"], succ := [12, 13], compl := [] },
   { kind := .sessTeardown, path := [], succ := [], compl := [11, 14] }]

/-- index ↦ task id, spelled out -/
theorem sample_ids : (List.range 16).map (idAt failingProj) =
    [⟨.sessSetup, []⟩, ⟨.begin, ["a"]⟩, ⟨.init, ["a"]⟩, ⟨.test, ["a", "t1"]⟩, ⟨.test, ["a", "t2"]⟩,
     ⟨.teardown, ["a"]⟩, ⟨.begin, ["a", "b"]⟩, ⟨.test, ["a", "b", "u1"]⟩, ⟨.end_, ["a", "b"]⟩,
     ⟨.begin, ["a", "empty"]⟩, ⟨.end_, ["a", "empty"]⟩, ⟨.end_, ["a"]⟩, ⟨.begin, ["c"]⟩,
     ⟨.test, ["c", "t1"]⟩, ⟨.end_, ["c"]⟩, ⟨.sessTeardown, []⟩] := by decide

/-- a complete real run: `a.b.u1` fails, its dependents `a.t1`, `a.t2`, `c.t1` are skipped -/
def failingRecs : List Rec :=
  [.init [0],
   .fire 0 (.sessionStart 0),
   .handled 0,
   .start 0 1 false true false,
   .user 1 (.fx "sf" false) "enter",
   .user 1 (.fx "sf" false) "exit",
   .finish 0 (.success),
   .receive 0 [1, 12],
   .start 1 1 false true false,
   .fire 1 (.suiteStart ["a"] { name := "a", description := "", tags := [], properties := [], links := [], rank := 0 } 0),
   .finish 1 (.success),
   .start 12 1 false true false,
   .fire 1 (.suiteStart ["c"] { name := "c", description := "", tags := [], properties := [], links := [], rank := 0 } 0),
   .finish 12 (.success),
   .receive 1 [2, 6],
   .receive 12 [9],
   .handled 1,
   .handled 2,
   .start 2 1 false true false,
   .user 1 (.hook ["a"] "setup_suite" none) "enter",
   .user 1 (.hook ["a"] "setup_suite" none) "exit",
   .finish 2 (.success),
   .start 6 1 false true false,
   .fire 1 (.suiteStart ["a", "b"] { name := "b", description := "", tags := [], properties := [], links := [], rank := 0 } 0),
   .finish 6 (.success),
   .start 9 1 false true false,
   .fire 1 (.suiteStart ["a", "empty"] { name := "empty", description := "", tags := [], properties := [], links := [], rank := 0 } 0),
   .finish 9 (.success),
   .receive 2 [],
   .receive 6 [7],
   .receive 9 [10],
   .start 7 1 false true false,
   .fire 1 (.testStart ["a", "b", "u1"] { name := "u1", description := "", tags := [], properties := [], links := [], rank := 0 } 0),
   .user 1 (.body ["a", "b", "u1"]) "enter",
   .user 1 (.body ["a", "b", "u1"]) "act:0",
   .fire 1 (.stepStart (LccModel.Report.Loc.test ["a", "b", "u1"]) "test u1" 1 0),
   .fire 1 (.check (LccModel.Report.Loc.test ["a", "b", "u1"]) (some "test u1") 1 "" false none 0),
   .user 1 (.body ["a", "b", "u1"]) "exit",
   .fire 1 (.stepEnd (LccModel.Report.Loc.test ["a", "b", "u1"]) "test u1" 1 0),
   .fire 1 (.testEnd ["a", "b", "u1"] 0),
   .finish 7 (.failure),
   .start 10 1 false true false,
   .fire 1 (.suiteEnd ["a", "empty"] 0),
   .finish 10 (.success),
   .handled 3,
   .handled 4,
   .handled 5,
   .handled 6,
   .handled 7,
   .handled 8,
   .handled 9,
   .handled 10,
   .receive 7 [3, 8],
   .receive 10 [],
   .start 3 2 false false true,
   .fire 2 (.testSkipped ["a", "t1"] { name := "t1", description := "", tags := [], properties := [], links := [], rank := 0 } (some "") 0),
   .finish 3 (.skipped),
   .start 8 2 false false true,
   .fire 2 (.suiteEnd ["a", "b"] 0),
   .finish 8 (.skipped),
   .handled 11,
   .handled 12,
   .receive 3 [4],
   .receive 8 [],
   .start 4 2 false false true,
   .fire 2 (.testSkipped ["a", "t2"] { name := "t2", description := "", tags := [], properties := [], links := [], rank := 0 } (some "") 0),
   .finish 4 (.skipped),
   .handled 13,
   .receive 4 [5, 13],
   .start 5 2 false true false,
   .finish 5 (.success),
   .start 13 2 false false true,
   .fire 2 (.testSkipped ["c", "t1"] { name := "t1", description := "", tags := [], properties := [], links := [], rank := 0 } (some "") 0),
   .finish 13 (.skipped),
   .handled 14,
   .receive 5 [11],
   .receive 13 [14],
   .start 11 2 false false true,
   .fire 2 (.suiteEnd ["a"] 0),
   .finish 11 (.skipped),
   .start 14 2 false false true,
   .fire 2 (.suiteEnd ["c"] 0),
   .finish 14 (.skipped),
   .handled 15,
   .handled 16,
   .receive 11 [],
   .receive 14 [15],
   .start 15 2 false true false,
   .finish 15 (.success),
   .receive 15 [],
   .fire 0 (.sessionEnd 0),
   .handled 17,
   .handlerExit]

/-- a real run interrupted (KeyboardInterrupt) while tasks 2, 6, 9 are queued and everything behind them is
    still waiting: the records before the `interrupt` record … -/
def interruptedPre : List Rec :=
  [.init [0],
   .fire 0 (.sessionStart 0),
   .handled 0,
   .start 0 1 false true false,
   .user 1 (.fx "sf" false) "enter",
   .user 1 (.fx "sf" false) "exit",
   .finish 0 (.success),
   .receive 0 [1, 12],
   .start 1 1 false true false,
   .fire 1 (.suiteStart ["a"] { name := "a", description := "", tags := [], properties := [], links := [], rank := 0 } 0),
   .finish 1 (.success),
   .start 12 1 false true false,
   .fire 1 (.suiteStart ["c"] { name := "c", description := "", tags := [], properties := [], links := [], rank := 0 } 0),
   .finish 12 (.success),
   .receive 1 [2, 6],
   .receive 12 [9]]

/-- … and after it -/
def interruptedPost : List Rec :=
  [.handled 1,
   .handled 2,
   .start 2 1 true false true,
   .finish 2 (.skipped),
   .start 6 1 true false true,
   .fire 1 (.suiteStart ["a", "b"] { name := "b", description := "", tags := [], properties := [], links := [], rank := 0 } 0),
   .finish 6 (.skipped),
   .start 9 1 true false true,
   .fire 1 (.suiteStart ["a", "empty"] { name := "empty", description := "", tags := [], properties := [], links := [], rank := 0 } 0),
   .finish 9 (.skipped),
   .receive 2 [],
   .receive 6 [7],
   .receive 9 [10],
   .handled 3,
   .handled 4,
   .start 7 1 false false true,
   .fire 1 (.testSkipped ["a", "b", "u1"] { name := "u1", description := "", tags := [], properties := [], links := [], rank := 0 } (some "") 0),
   .finish 7 (.skipped),
   .start 10 1 false false true,
   .fire 1 (.suiteEnd ["a", "empty"] 0),
   .finish 10 (.skipped),
   .handled 5,
   .handled 6,
   .receive 7 [3, 8],
   .receive 10 [],
   .start 3 1 false false true,
   .fire 1 (.testSkipped ["a", "t1"] { name := "t1", description := "", tags := [], properties := [], links := [], rank := 0 } (some "") 0),
   .finish 3 (.skipped),
   .start 8 1 false false true,
   .fire 1 (.suiteEnd ["a", "b"] 0),
   .finish 8 (.skipped),
   .handled 7,
   .handled 8,
   .receive 3 [4],
   .receive 8 [],
   .start 4 1 false false true,
   .fire 1 (.testSkipped ["a", "t2"] { name := "t2", description := "", tags := [], properties := [], links := [], rank := 0 } (some "") 0),
   .finish 4 (.skipped),
   .handled 9,
   .receive 4 [5, 13],
   .start 5 1 false false true,
   .finish 5 (.skipped),
   .start 13 1 false false true,
   .fire 1 (.testSkipped ["c", "t1"] { name := "t1", description := "", tags := [], properties := [], links := [], rank := 0 } (some "") 0),
   .finish 13 (.skipped),
   .handled 10,
   .receive 5 [11],
   .receive 13 [14],
   .start 11 1 false false true,
   .fire 1 (.suiteEnd ["a"] 0),
   .finish 11 (.skipped),
   .start 14 1 false false true,
   .fire 1 (.suiteEnd ["c"] 0),
   .finish 14 (.skipped),
   .handled 11,
   .handled 12,
   .receive 11 [],
   .receive 14 [15],
   .start 15 1 false false true,
   .finish 15 (.skipped),
   .receive 15 [],
   .fire 0 (.sessionEnd 0),
   .handled 13,
   .handlerExit]

def interruptedRecs : List Rec := interruptedPre ++ .interrupt [] :: interruptedPost

/-- everything the scheduler state says about one task -/
structure Row where
  phase : Phase
  result : Option Res
  mode : Option Mode
  forced : Bool
  startAt : Option Nat
  finishAt : Option Nat
  starts : Nat
deriving DecidableEq, Repr

def rowNat (s : State Nat) (i : Nat) : Row :=
  ⟨s.phase i, s.result i, s.mode i, s.forced i, s.startAt i, s.finishAt i, s.starts i⟩

def rowOf (s : State TaskId) (t : TaskId) : Row :=
  ⟨s.phase t, s.result t, s.mode t, s.forced t, s.startAt t, s.finishAt t, s.starts t⟩

def failingFinal : G := (replay (mkCtx failingProj sampleGts []) failingRecs).state
def interruptedFinal : G := (replay (mkCtx failingProj sampleGts []) interruptedRecs).state

def interruptedMid : G := (replay (mkCtx failingProj sampleGts []) (interruptedPre ++ [.interrupt []])).state

/-- what the final scheduler state of the complete run says about the 16 tasks -/
def failingRows : List Row :=
     [⟨.completed, some .success, some .run, false, some 0, some 1, 1⟩,
      ⟨.completed, some .success, some .run, false, some 3, some 4, 1⟩,
      ⟨.completed, some .success, some .run, false, some 9, some 10, 1⟩,
      ⟨.completed, some .skipped, some .skip, false, some 24, some 25, 1⟩,
      ⟨.completed, some .skipped, some .skip, false, some 30, some 31, 1⟩,
      ⟨.completed, some .success, some .run, false, some 33, some 34, 1⟩,
      ⟨.completed, some .success, some .run, false, some 11, some 12, 1⟩,
      ⟨.completed, some .failure, some .run, false, some 18, some 19, 1⟩,
      ⟨.completed, some .skipped, some .skip, false, some 26, some 27, 1⟩,
      ⟨.completed, some .success, some .run, false, some 13, some 14, 1⟩,
      ⟨.completed, some .success, some .run, false, some 20, some 21, 1⟩,
      ⟨.completed, some .skipped, some .skip, false, some 39, some 40, 1⟩,
      ⟨.completed, some .success, some .run, false, some 5, some 6, 1⟩,
      ⟨.completed, some .skipped, some .skip, false, some 35, some 36, 1⟩,
      ⟨.completed, some .skipped, some .skip, false, some 41, some 42, 1⟩,
      ⟨.completed, some .success, some .run, false, some 45, some 46, 1⟩]

/-- … and of the interrupted run -/
def interruptedRows : List Row :=
     [⟨.completed, some .success, some .run, false, some 0, some 1, 1⟩,
      ⟨.completed, some .success, some .run, false, some 3, some 4, 1⟩,
      ⟨.completed, some .skipped, some .skip, false, some 10, some 11, 1⟩,
      ⟨.completed, some .skipped, some .skip, true, some 25, some 26, 1⟩,
      ⟨.completed, some .skipped, some .skip, true, some 31, some 32, 1⟩,
      ⟨.completed, some .skipped, some .skip, true, some 34, some 35, 1⟩,
      ⟨.completed, some .skipped, some .skip, false, some 12, some 13, 1⟩,
      ⟨.completed, some .skipped, some .skip, true, some 19, some 20, 1⟩,
      ⟨.completed, some .skipped, some .skip, true, some 27, some 28, 1⟩,
      ⟨.completed, some .skipped, some .skip, false, some 14, some 15, 1⟩,
      ⟨.completed, some .skipped, some .skip, true, some 21, some 22, 1⟩,
      ⟨.completed, some .skipped, some .skip, true, some 40, some 41, 1⟩,
      ⟨.completed, some .success, some .run, false, some 5, some 6, 1⟩,
      ⟨.completed, some .skipped, some .skip, true, some 36, some 37, 1⟩,
      ⟨.completed, some .skipped, some .skip, true, some 42, some 43, 1⟩,
      ⟨.completed, some .skipped, some .skip, true, some 46, some 47, 1⟩]

/-- the kernel replays the entry point on the complete run: graph check passed, no record rejected, the
    scheduler state is final, not aborted, and is `failingRows` -/
theorem failing_facts :
    graphOk failingProj sampleGts = true ∧ (replay (mkCtx failingProj sampleGts []) failingRecs).reject = none ∧
    finalB (natGraph sampleGts) failingFinal.sched = true ∧ failingFinal.sched.aborted = false ∧
    (List.range 16).map (rowNat failingFinal.sched) = failingRows := by decide +kernel

/-- the same for the interrupted run (final, aborted) -/
theorem interrupted_facts :
    graphOk failingProj sampleGts = true ∧ (replay (mkCtx failingProj sampleGts []) interruptedRecs).reject = none ∧
    finalB (natGraph sampleGts) interruptedFinal.sched = true ∧ interruptedFinal.sched.aborted = true ∧
    (List.range 16).map (rowNat interruptedFinal.sched) = interruptedRows := by decide +kernel

/-- the state right after the `interrupt` record: tasks 0, 1, 12 are completed, 2, 6, 9 were queued by the
    normal loop (not forced), everything else is still waiting in `remaining_tasks` (phase, forced) -/
def midRows : List (Phase × Bool) :=
    [(.completed, false), (.completed, false), (.queued, false), (.remaining, false), (.remaining, false),
            (.remaining, false), (.queued, false), (.remaining, false), (.remaining, false), (.queued, false),
            (.remaining, false), (.remaining, false), (.completed, false), (.remaining, false), (.remaining, false),
            (.remaining, false)]

theorem interruptedMid_facts :
    (replay (mkCtx failingProj sampleGts []) (interruptedPre ++ [.interrupt []])).reject = none ∧
    interruptedMid.sched.aborted = true ∧
    (List.range 16).map (fun i => (interruptedMid.sched.phase i, interruptedMid.sched.forced i)) = midRows := by
  decide +kernel

theorem failing_accepted : Accepted failingProj sampleGts [] failingRecs failingFinal :=
  ⟨failing_facts.1, failing_facts.2.1, rfl⟩

theorem failing_final : finalB (natGraph sampleGts) failingFinal.sched = true := failing_facts.2.2.1

theorem interrupted_accepted : Accepted failingProj sampleGts [] interruptedRecs interruptedFinal :=
  ⟨interrupted_facts.1, interrupted_facts.2.1, rfl⟩

theorem interrupted_final : finalB (natGraph sampleGts) interruptedFinal.sched = true := interrupted_facts.2.2.1

theorem interruptedMid_accepted :
    Accepted failingProj sampleGts [] (interruptedPre ++ [.interrupt []]) interruptedMid :=
  ⟨interrupted_facts.1, interruptedMid_facts.1, rfl⟩

/-- read a row of an index-level table by task id -/
theorem read_row {P : Proj} {gts : List GTask} (hg : graphOk P gts = true) (a : G) (rows : List Row)
    (h : (List.range gts.length).map (rowNat a.sched) = rows) (i : Nat) (t : TaskId) (r : Row)
    (ht : idAt P i = t) (hr : rows[i]? = some r) : rowOf (schedOf P a) t = r := by
  subst h
  rw [List.getElem?_map] at hr
  have hi : i < gts.length := by
    apply Classical.byContradiction
    intro hn
    rw [List.getElem?_eq_none (by rw [List.length_range]; omega)] at hr
    cases hr
  rw [List.getElem?_range hi] at hr
  injection hr with hr
  subst hr ht
  obtain ⟨h1, h2, h3, h4, h5, h6, h7⟩ := schedOf_at hg a i hi
  simp only [rowOf, rowNat, h1, h2, h3, h4, h5, h6, h7]

theorem sampleGts_length : sampleGts.length = 16 := rfl

/-- rows of the complete run, by task id -/
theorem failing_row (i : Nat) (t : TaskId) (r : Row) (ht : idAt failingProj i = t) (hr : failingRows[i]? = some r) :
    rowOf (schedOf failingProj failingFinal) t = r :=
  read_row failing_facts.1 failingFinal failingRows (by rw [sampleGts_length]; exact failing_facts.2.2.2.2) i t r ht hr

/-- rows of the interrupted run, by task id -/
theorem interrupted_row (i : Nat) (t : TaskId) (r : Row) (ht : idAt failingProj i = t)
    (hr : interruptedRows[i]? = some r) : rowOf (schedOf failingProj interruptedFinal) t = r :=
  read_row interrupted_facts.1 interruptedFinal interruptedRows
    (by rw [sampleGts_length]; exact interrupted_facts.2.2.2.2) i t r ht hr

theorem read_pair {P : Proj} {gts : List GTask} (hg : graphOk P gts = true) (a : G) (rows : List (Phase × Bool))
    (h : (List.range gts.length).map (fun i => (a.sched.phase i, a.sched.forced i)) = rows) (i : Nat) (t : TaskId)
    (r : Phase × Bool) (ht : idAt P i = t) (hr : rows[i]? = some r) :
    ((schedOf P a).phase t, (schedOf P a).forced t) = r := by
  subst h
  rw [List.getElem?_map] at hr
  have hi : i < gts.length := by
    apply Classical.byContradiction
    intro hn
    rw [List.getElem?_eq_none (by rw [List.length_range]; omega)] at hr
    cases hr
  rw [List.getElem?_range hi] at hr
  injection hr with hr
  subst hr ht
  obtain ⟨h1, _, _, h4, _⟩ := schedOf_at hg a i hi
  rw [h1, h4]

/-- phase and `forced` right after the interrupt, by task id -/
theorem mid_row (i : Nat) (t : TaskId) (r : Phase × Bool) (ht : idAt failingProj i = t)
    (hr : midRows[i]? = some r) :
    ((schedOf failingProj interruptedMid).phase t, (schedOf failingProj interruptedMid).forced t) = r :=
  read_pair interrupted_facts.1 interruptedMid midRows
    (by rw [sampleGts_length]; exact interruptedMid_facts.2.2) i t r ht hr

/-! the three acceptor states are results of long replays: nothing downstream may unfold them -/
attribute [irreducible] failingFinal interruptedFinal interruptedMid

end LccModel.AcceptSamples

/-
  C05 helpers, part 2: the report mutations of `ReportWriter` as *tree operations* (a path to a suite plus one mutation of
  one field of that suite), and the commutation of two tree operations with independent footprints.

  * `Comm R A B`: if `A` then `B` succeeds, so does `B` then `A`, with `R`-related results;
  * list level: `modifyFirst` at two different keys, at the same key, against an append, `dictSet`;
  * `Leaf` / `Field` / `nodeOp` / `topOp`: the operations and their footprints; `footIndep`;
  * `topOp_comm`: operations with independent footprints commute up to `SameSuites`.
-/
import LccModel.Lemmas.WriterOrder
import LccModel.Lemmas.Writer
set_option linter.unusedSimpArgs false
set_option linter.unusedVariables false
namespace LccModel.Writer
open LccModel.Report

/-- `A` then `B` succeeding implies `B` then `A` succeeds with an `R`-related result. -/
def Comm {α ε : Type} (R : α → α → Prop) (A B : α → Except ε α) : Prop :=
  ∀ a x y, A a = .ok x → B x = .ok y → ∃ x' y', B a = .ok x' ∧ A x' = .ok y' ∧ R y y'

theorem Comm.mono {α ε : Type} {R R' : α → α → Prop} {A B : α → Except ε α} (h : Comm R A B)
    (hr : ∀ a b, R a b → R' a b) : Comm R' A B := by
  intro a x y h1 h2
  obtain ⟨x', y', h3, h4, h5⟩ := h a x y h1 h2
  exact ⟨x', y', h3, h4, hr _ _ h5⟩

/-! ### `modifyFirst` -/

theorem modifyFirst_ok_cons {α ε : Type} {p : α → Bool} {f : α → Except ε α} {nf : ε} {x : α} {xs l' : List α}
    (h : modifyFirst p f nf (x :: xs) = .ok l') :
    (p x = true ∧ ∃ y, f x = .ok y ∧ l' = y :: xs) ∨ (p x = false ∧ ∃ ys, modifyFirst p f nf xs = .ok ys ∧ l' = x :: ys) := by
  unfold modifyFirst at h
  split at h
  · rename_i hp
    split at h
    · rename_i y hy; cases h; exact Or.inl ⟨hp, y, hy, rfl⟩
    · cases h
  · rename_i hp
    split at h
    · rename_i ys hys; cases h; exact Or.inr ⟨by simpa using hp, ys, hys, rfl⟩
    · cases h

theorem modifyFirst_hit {α ε : Type} {p : α → Bool} {f : α → Except ε α} {nf : ε} {x y : α} {xs : List α}
    (hp : p x = true) (hf : f x = .ok y) : modifyFirst p f nf (x :: xs) = .ok (y :: xs) := by
  simp [modifyFirst, hp, hf]

theorem modifyFirst_miss {α ε : Type} {p : α → Bool} {f : α → Except ε α} {nf : ε} {x : α} {xs ys : List α}
    (hp : p x = false) (hf : modifyFirst p f nf xs = .ok ys) : modifyFirst p f nf (x :: xs) = .ok (x :: ys) := by
  simp [modifyFirst, hp, hf]

/-- two lookups by different keys, each mutation keeping the key: they commute exactly -/
theorem comm_modifyFirst_ne {α ε : Type} (key : α → String) (n₁ n₂ : String) (hne : n₁ ≠ n₂)
    (F G : α → Except ε α) (nf₁ nf₂ : ε)
    (hF : ∀ a b, F a = .ok b → key b = key a) (hG : ∀ a b, G a = .ok b → key b = key a) :
    Comm Eq (modifyFirst (fun a => key a == n₁) F nf₁) (modifyFirst (fun a => key a == n₂) G nf₂) := by
  intro l
  induction l with
  | nil => intro x y h; simp [modifyFirst] at h
  | cons a as ih =>
    intro x y h1 h2
    rcases modifyFirst_ok_cons h1 with ⟨hp, b, hb, rfl⟩ | ⟨hp, xs, hxs, rfl⟩
    · have hkb : key b = key a := hF a b hb
      have hp2 : (key b == n₂) = false := by
        simp only [beq_iff_eq] at hp; simp [hkb, hp, hne]
      rcases modifyFirst_ok_cons h2 with ⟨hq, _⟩ | ⟨_, ys, hys, rfl⟩
      · simp [hp2] at hq
      · have hp2' : (key a == n₂) = false := by rw [← hkb]; exact hp2
        exact ⟨a :: ys, b :: ys, modifyFirst_miss hp2' hys, modifyFirst_hit hp hb, rfl⟩
    · rcases modifyFirst_ok_cons h2 with ⟨hq, b, hb, rfl⟩ | ⟨hq, ys, hys, rfl⟩
      · have hkb : key b = key a := hG a b hb
        have hp1 : (key b == n₁) = false := by rw [hkb]; exact hp
        exact ⟨b :: as, b :: xs, modifyFirst_hit hq hb, modifyFirst_miss hp1 hxs, rfl⟩
      · obtain ⟨x', y', h3, h4, h5⟩ := ih xs ys hxs hys
        exact ⟨a :: x', a :: y', modifyFirst_miss hq h3, modifyFirst_miss hp h4, by rw [h5]⟩

/-- two lookups by the same key with commuting, key-keeping mutations -/
theorem comm_modifyFirst_same {α ε : Type} (key : α → String) (n : String) (R : α → α → Prop) (RL : List α → List α → Prop)
    (hhead : ∀ y y' l, R y y' → RL (y :: l) (y' :: l)) (htail : ∀ a l l', RL l l' → RL (a :: l) (a :: l'))
    (F G : α → Except ε α) (nf₁ nf₂ : ε)
    (hF : ∀ a b, F a = .ok b → key b = key a) (hG : ∀ a b, G a = .ok b → key b = key a) (hc : Comm R F G) :
    Comm RL (modifyFirst (fun a => key a == n) F nf₁) (modifyFirst (fun a => key a == n) G nf₂) := by
  intro l
  induction l with
  | nil => intro x y h; simp [modifyFirst] at h
  | cons a as ih =>
    intro x y h1 h2
    rcases modifyFirst_ok_cons h1 with ⟨hp, b, hb, rfl⟩ | ⟨hp, xs, hxs, rfl⟩
    · have hpb : (key b == n) = true := by rw [hF a b hb]; exact hp
      rcases modifyFirst_ok_cons h2 with ⟨_, c, hc', rfl⟩ | ⟨hq, _⟩
      · obtain ⟨b', c', h3, h4, h5⟩ := hc a b c hb hc'
        have hpb' : (key b' == n) = true := by rw [hG a b' h3]; exact hp
        exact ⟨b' :: as, c' :: as, modifyFirst_hit hp h3, modifyFirst_hit hpb' h4, hhead _ _ _ h5⟩
      · simp [hpb] at hq
    · rcases modifyFirst_ok_cons h2 with ⟨hq, _⟩ | ⟨hq, ys, hys, rfl⟩
      · simp [hp] at hq
      · obtain ⟨x', y', h3, h4, h5⟩ := ih xs ys hxs hys
        exact ⟨a :: x', a :: y', modifyFirst_miss hp h3, modifyFirst_miss hp h4, htail _ _ _ h5⟩

theorem modifyFirst_append_ok {α ε : Type} (p : α → Bool) (f : α → Except ε α) (nf : ε) (c : α) (hc : p c = false) :
    ∀ (l y : List α), modifyFirst p f nf (l ++ [c]) = .ok y ↔ ∃ y₀, modifyFirst p f nf l = .ok y₀ ∧ y = y₀ ++ [c]
  | [], y => by simp [modifyFirst, hc]
  | a :: as, y => by
    constructor
    · intro h
      rcases modifyFirst_ok_cons (xs := as ++ [c]) h with ⟨hp, b, hb, rfl⟩ | ⟨hp, ys, hys, rfl⟩
      · exact ⟨b :: as, modifyFirst_hit hp hb, rfl⟩
      · obtain ⟨y₀, h0, rfl⟩ := (modifyFirst_append_ok p f nf c hc as ys).mp hys
        exact ⟨a :: y₀, modifyFirst_miss hp h0, rfl⟩
    · rintro ⟨y₀, h0, rfl⟩
      rcases modifyFirst_ok_cons h0 with ⟨hp, b, hb, rfl⟩ | ⟨hp, ys, hys, rfl⟩
      · exact modifyFirst_hit hp hb
      · exact modifyFirst_miss hp ((modifyFirst_append_ok p f nf c hc as (ys ++ [c])).mpr ⟨ys, hys, rfl⟩)

theorem comm_append_modifyFirst {α ε : Type} (p : α → Bool) (f : α → Except ε α) (nf : ε) (c : α) (hc : p c = false) :
    Comm Eq (fun l => (.ok (l ++ [c]) : Except ε (List α))) (modifyFirst p f nf) := by
  intro l x y h1 h2
  cases h1
  obtain ⟨y₀, h0, rfl⟩ := (modifyFirst_append_ok p f nf c hc l y).mp h2
  exact ⟨y₀, y₀ ++ [c], h0, rfl, rfl⟩

theorem comm_modifyFirst_append {α ε : Type} (p : α → Bool) (f : α → Except ε α) (nf : ε) (c : α) (hc : p c = false) :
    Comm Eq (modifyFirst p f nf) (fun l => (.ok (l ++ [c]) : Except ε (List α))) := by
  intro l x y h1 h2
  cases h2
  exact ⟨l ++ [c], x ++ [c], rfl, (modifyFirst_append_ok p f nf c hc l _).mpr ⟨x, h1, rfl⟩, rfl⟩

/-! ### `dictSet` -/

theorem dictSet_perm_comm {α : Type} (key : α → String) (a b : α) (h : key a ≠ key b) :
    ∀ l : List α, (dictSet key b (dictSet key a l)).Perm (dictSet key a (dictSet key b l))
  | [] => by
    have h1 : (key a == key b) = false := by simpa using h
    have h2 : (key b == key a) = false := by simpa using Ne.symm h
    simp only [dictSet, h1, h2]
    exact List.Perm.swap _ _ _
  | x :: xs => by
    have h1 : (key a == key b) = false := by simpa using h
    have h2 : (key b == key a) = false := by simpa using Ne.symm h
    by_cases hxa : key x = key a
    · have hxb : (key x == key b) = false := by rw [hxa]; exact h1
      simp [dictSet, hxa, hxb, h1, h2]
    · by_cases hxb : key x = key b
      · have hxa' : (key x == key a) = false := by rw [hxb]; exact h2
        simp [dictSet, hxb, hxa', h1, h2]
      · have hxa' : (key x == key a) = false := by simpa using hxa
        have hxb' : (key x == key b) = false := by simpa using hxb
        simp only [dictSet, hxa', hxb', Bool.false_eq_true, if_false]
        exact (dictSet_perm_comm key a b h xs).cons x

theorem modifyFirst_dictSet {α ε : Type} (key : α → String) (n : String) (f : α → Except ε α) (nf : ε) (a : α) (h : key a ≠ n)
    (hf : ∀ x y, f x = .ok y → key y = key x) :
    ∀ (l y : List α), modifyFirst (fun x => key x == n) f nf (dictSet key a l) = .ok y ↔
      ∃ y₀, modifyFirst (fun x => key x == n) f nf l = .ok y₀ ∧ y = dictSet key a y₀
  | [], y => by
    have : (key a == n) = false := by simpa using h
    simp [dictSet, modifyFirst, this]
  | x :: xs, y => by
    have ha : (key a == n) = false := by simpa using h
    by_cases hxa : key x = key a
    · have hxn : (key x == n) = false := by rw [hxa]; exact ha
      have hxa' : (key x == key a) = true := by simpa using hxa
      simp only [dictSet, hxa', if_true]
      constructor
      · intro h1
        rcases modifyFirst_ok_cons h1 with ⟨hp, _⟩ | ⟨_, ys, hys, rfl⟩
        · simp [ha] at hp
        · exact ⟨x :: ys, modifyFirst_miss hxn hys, by simp [dictSet, hxa']⟩
      · rintro ⟨y₀, h0, rfl⟩
        rcases modifyFirst_ok_cons h0 with ⟨hp, _⟩ | ⟨_, ys, hys, rfl⟩
        · simp [hxn] at hp
        · simp only [dictSet, hxa', if_true]; exact modifyFirst_miss ha hys
    · have hxa' : (key x == key a) = false := by simpa using hxa
      simp only [dictSet, hxa']
      constructor
      · intro h1
        rcases modifyFirst_ok_cons h1 with ⟨hp, b, hb, rfl⟩ | ⟨hp, ys, hys, rfl⟩
        · refine ⟨b :: xs, modifyFirst_hit hp hb, ?_⟩
          have : (key b == key a) = false := by rw [hf x b hb]; exact hxa'
          simp [dictSet, this]
        · obtain ⟨y₀, h0, rfl⟩ := (modifyFirst_dictSet key n f nf a h hf xs ys).mp hys
          exact ⟨x :: y₀, modifyFirst_miss hp h0, by simp [dictSet, hxa']⟩
      · rintro ⟨y₀, h0, rfl⟩
        rcases modifyFirst_ok_cons h0 with ⟨hp, b, hb, rfl⟩ | ⟨hp, ys, hys, rfl⟩
        · have : (key b == key a) = false := by rw [hf x b hb]; exact hxa'
          simp only [dictSet, this]
          exact modifyFirst_hit hp hb
        · simp only [dictSet, hxa']
          exact modifyFirst_miss hp ((modifyFirst_dictSet key n f nf a h hf xs _).mpr ⟨ys, hys, rfl⟩)

/-! ### fields of a suite as lenses -/

structure Lens (σ α : Type) where
  get : σ → α
  set : σ → α → σ

/-- run `g` on the field -/
def Lens.on {σ α ε : Type} (L : Lens σ α) (g : α → Except ε α) (s : σ) : Except ε σ :=
  match g (L.get s) with
  | .ok a => .ok (L.set s a)
  | .error e => .error e

theorem Lens.on_ok {σ α ε : Type} {L : Lens σ α} {g : α → Except ε α} {s t : σ} (h : L.on g s = .ok t) :
    ∃ a, g (L.get s) = .ok a ∧ t = L.set s a := by
  unfold Lens.on at h
  split at h
  · rename_i a ha; cases h; exact ⟨a, ha, rfl⟩
  · cases h

theorem Lens.on_of {σ α ε : Type} {L : Lens σ α} {g : α → Except ε α} {s : σ} {a : α} (h : g (L.get s) = .ok a) :
    L.on g s = .ok (L.set s a) := by
  simp [Lens.on, h]

structure Lens.Indep {σ α β : Type} (L : Lens σ α) (M : Lens σ β) : Prop where
  get_set : ∀ s b, L.get (M.set s b) = L.get s
  set_get : ∀ s a, M.get (L.set s a) = M.get s
  set_set : ∀ s a b, M.set (L.set s a) b = L.set (M.set s b) a

structure Lens.Lawful {σ α : Type} (L : Lens σ α) : Prop where
  get_set : ∀ s a, L.get (L.set s a) = a
  set_set : ∀ s a b, L.set (L.set s a) b = L.set s b

theorem Lens.comm {σ α β ε : Type} {L : Lens σ α} {M : Lens σ β} (h : L.Indep M)
    (g : α → Except ε α) (k : β → Except ε β) : Comm Eq (L.on g) (M.on k) := by
  intro s x y h1 h2
  obtain ⟨a, ha, rfl⟩ := Lens.on_ok h1
  obtain ⟨b, hb, rfl⟩ := Lens.on_ok h2
  rw [h.set_get] at hb
  refine ⟨M.set s b, L.set (M.set s b) a, Lens.on_of hb, ?_, h.set_set s a b⟩
  exact Lens.on_of (by rw [h.get_set]; exact ha)

theorem Lens.comm_same {σ α ε : Type} {L : Lens σ α} (h : L.Lawful) (R : α → α → Prop) (RS : σ → σ → Prop)
    (hlift : ∀ s a a', R a a' → RS (L.set s a) (L.set s a'))
    (g k : α → Except ε α) (hc : Comm R g k) : Comm RS (L.on g) (L.on k) := by
  intro s x y h1 h2
  obtain ⟨a, ha, rfl⟩ := Lens.on_ok h1
  obtain ⟨b, hb, rfl⟩ := Lens.on_ok h2
  rw [h.get_set] at hb
  obtain ⟨a', b', h3, h4, h5⟩ := hc _ _ _ ha hb
  refine ⟨L.set s a', L.set s b', Lens.on_of h3, ?_, ?_⟩
  · rw [← h.set_set s a' b']; exact Lens.on_of (by rw [h.get_set]; exact h4)
  · rw [h.set_set]; exact hlift _ _ _ h5

def endL : Lens SuiteResult (Option Time) := ⟨SuiteResult.endTime, SuiteResult.setEndTime⟩
def setupL : Lens SuiteResult (Option Result) := ⟨SuiteResult.setup, SuiteResult.setSetup⟩
def teardownL : Lens SuiteResult (Option Result) := ⟨SuiteResult.teardown, SuiteResult.setTeardown⟩
def testsL : Lens SuiteResult (List TestResult) := ⟨SuiteResult.tests, SuiteResult.setTests⟩
def suitesL : Lens SuiteResult (List SuiteResult) := ⟨SuiteResult.suites, SuiteResult.setSuites⟩

/-- proves `Lens.Indep` / `Lens.Lawful` of two of the five concrete lenses -/
macro "lens_laws" : tactic =>
  `(tactic| (constructor <;> (intro s; cases s; intros; rfl)))

theorem testsL_lawful : testsL.Lawful := by lens_laws
theorem suitesL_lawful : suitesL.Lawful := by lens_laws

/-! ### the mutations of one suite (`Leaf`), their footprint (`Field`) -/

/-- what a mutation of a suite touches: the end time, the setup / teardown result, the test of a given name, or the
    *creation* of the sub-suite of a given name -/
inductive Field
  | child (n : String) | endTime | setup | teardown | test (n : String)
deriving DecidableEq, Repr

/-- `modifyTest`'s wrapper: mutate the result part of a test -/
def wrapT (f : Result → Except WriterErr Result) (t : TestResult) : Except WriterErr TestResult :=
  match f t.result with
  | .ok y => .ok { t with result := y }
  | .error e => .error e

/-- `modifyResult`'s wrapper on a setup / teardown slot: `None` raises -/
def optG (err : WriterErr) (f : Result → Except WriterErr Result) : Option Result → Except WriterErr (Option Result)
  | none => .error err
  | some x => match f x with
    | .ok y => .ok (some y)
    | .error e => .error e

/-- the mutations `ReportWriter` applies to the suite it looked up -/
inductive Leaf
  | child (c : SuiteResult)                                   -- `add_suite`
  | endTime (t : Option Time)                                 -- `on_suite_end`
  | setup (g : Option Result → Except WriterErr (Option Result))      -- `suite_setup = …` / mutation of it
  | teardown (g : Option Result → Except WriterErr (Option Result))
  | addTest (tr : TestResult)                                 -- `add_test`
  | test (n : String) (nf : WriterErr) (f : Result → Except WriterErr Result)   -- mutation of the test named `n`

def Leaf.field : Leaf → Field
  | .child c => .child c.md.name
  | .endTime _ => .endTime
  | .setup _ => .setup
  | .teardown _ => .teardown
  | .addTest tr => .test tr.md.name
  | .test n _ _ => .test n

def Leaf.run : Leaf → SuiteResult → Except WriterErr SuiteResult
  | .child c => suitesL.on (fun ss => .ok (ss ++ [c]))
  | .endTime t => endL.on (fun _ => .ok t)
  | .setup g => setupL.on g
  | .teardown g => teardownL.on g
  | .addTest tr => testsL.on (fun ts => .ok (dictSet (fun t => t.md.name) tr ts))
  | .test n nf f => testsL.on (modifyFirst (fun t => t.md.name == n) (wrapT f) nf)

theorem wrapT_md {f : Result → Except WriterErr Result} {t t' : TestResult} (h : wrapT f t = .ok t') : t'.md = t.md := by
  unfold wrapT at h
  split at h
  · cases h; rfl
  · cases h

theorem sameSuite_setSuites (s : SuiteResult) {a a' : List SuiteResult} (h : SameSuites a a') :
    SameSuite (suitesL.set s a) (suitesL.set s a') := by
  cases s; exact .mk _ _ _ _ _ (List.Perm.refl _) h

theorem sameSuite_setTests (s : SuiteResult) {a a' : List TestResult} (h : a.Perm a') :
    SameSuite (testsL.set s a) (testsL.set s a') := by
  cases s; exact .mk _ _ _ _ _ h (SameSuites.refl _)

theorem comm_append_append (a b : SuiteResult) :
    Comm SameSuites (fun ss => (.ok (ss ++ [a]) : Except WriterErr _)) (fun ss => .ok (ss ++ [b])) := by
  intro ss x y h1 h2
  cases h1; cases h2
  refine ⟨ss ++ [b], ss ++ [b] ++ [a], rfl, rfl, SameSuites.of_perm ?_⟩
  simp only [List.append_assoc]
  exact List.Perm.append_left _ (List.Perm.swap _ _ _)

/-- two mutations of the same suite with different footprints commute (up to the order of two added children) -/
theorem Leaf.comm (a b : Leaf) (h : a.field ≠ b.field) : Comm SameSuite a.run b.run := by
  cases a <;> cases b <;> simp only [Leaf.run] <;>
    first
    | exact absurd rfl h
    | (refine (Lens.comm ?_ _ _).mono (fun _ _ e => e ▸ SameSuite.refl _); lens_laws; done)
    | skip
  · -- child / child
    exact Lens.comm_same suitesL_lawful SameSuites SameSuite (fun s _ _ h => sameSuite_setSuites s h) _ _
      (comm_append_append _ _)
  · -- addTest / addTest
    rename_i a b
    refine Lens.comm_same testsL_lawful List.Perm SameSuite (fun s _ _ h => sameSuite_setTests s h) _ _ ?_
    intro l x y h1 h2
    cases h1; cases h2
    exact ⟨_, _, rfl, rfl, dictSet_perm_comm _ a b (fun e => h (by simp [Leaf.field, e])) l⟩
  · -- addTest / test
    rename_i a n nf f
    refine Lens.comm_same testsL_lawful Eq SameSuite (fun s _ _ h => h ▸ SameSuite.refl _) _ _ ?_
    intro l x y h1 h2
    cases h1
    obtain ⟨y₀, h0, rfl⟩ := (modifyFirst_dictSet (fun t : TestResult => t.md.name) n (wrapT f) nf a
      (fun e => h (by simp [Leaf.field, e])) (fun _ _ hy => by rw [wrapT_md hy]) l y).mp h2
    exact ⟨y₀, _, h0, rfl, rfl⟩
  · -- test / addTest
    rename_i n nf f a
    refine Lens.comm_same testsL_lawful Eq SameSuite (fun s _ _ h => h ▸ SameSuite.refl _) _ _ ?_
    intro l x y h1 h2
    cases h2
    refine ⟨_, _, rfl, ?_, rfl⟩
    exact (modifyFirst_dictSet (fun t : TestResult => t.md.name) n (wrapT f) nf a
      (fun e => h (by simp [Leaf.field, e])) (fun _ _ hy => by rw [wrapT_md hy]) l _).mpr ⟨x, h1, rfl⟩
  · -- test / test
    rename_i n nf f m nf' f'
    refine Lens.comm_same testsL_lawful Eq SameSuite (fun s _ _ h => h ▸ SameSuite.refl _) _ _ ?_
    exact comm_modifyFirst_ne (fun t : TestResult => t.md.name) n m (fun e => h (by simp [Leaf.field, e])) _ _ _ _
      (fun _ _ hy => by rw [wrapT_md hy]) (fun _ _ hy => by rw [wrapT_md hy])

/-! ### tree operations: a path plus a leaf -/

/-- the suite at relative path `p` below `s` (`[]`: `s` itself) gets the mutation `lf` -/
def nodeOp : Path → Leaf → SuiteResult → Except WriterErr SuiteResult
  | [], lf => lf.run
  | n :: rest, lf => suitesL.on (modifyFirst (fun s => s.md.name == n) (nodeOp rest lf) (.lookupSuite n))

/-- the same on the top-level list of the report (`[]`: the report itself, which can only receive a child) -/
def topOp : Path → Leaf → List SuiteResult → Except WriterErr (List SuiteResult)
  | [], .child c => fun ss => .ok (ss ++ [c])
  | [], _ => fun _ => .error .noneSuite
  | n :: rest, lf => modifyFirst (fun s => s.md.name == n) (nodeOp rest lf) (.lookupSuite n)

/-- Independence of two footprints `(path, field)`: they are different, and neither is the creation of a suite on the
    path of the other. -/
def footIndep : Path → Field → Path → Field → Prop
  | [], a, [], b => a ≠ b
  | [], a, m :: _, _ => a ≠ .child m
  | n :: _, _, [], b => b ≠ .child n
  | n :: r₁, a, m :: r₂, b => n ≠ m ∨ footIndep r₁ a r₂ b

instance : ∀ (p : Path) (a : Field) (q : Path) (b : Field), Decidable (footIndep p a q b)
  | [], a, [], b => by unfold footIndep; exact inferInstance
  | [], a, m :: _, _ => by unfold footIndep; exact inferInstance
  | n :: _, _, [], b => by unfold footIndep; exact inferInstance
  | n :: r₁, a, m :: r₂, b => by
    unfold footIndep
    have := instDecidableFootIndep r₁ a r₂ b
    exact inferInstance

theorem footIndep_symm : ∀ (p : Path) (a : Field) (q : Path) (b : Field), footIndep p a q b → footIndep q b p a
  | [], a, [], b, h => by simp only [footIndep] at h ⊢; exact Ne.symm h
  | [], a, m :: _, _, h => by simpa only [footIndep] using h
  | n :: _, _, [], b, h => by simpa only [footIndep] using h
  | n :: r₁, a, m :: r₂, b, h => by
    simp only [footIndep] at h ⊢
    rcases h with h | h
    · exact Or.inl (Ne.symm h)
    · exact Or.inr (footIndep_symm r₁ a r₂ b h)

theorem footIndep_irrefl : ∀ (p : Path) (a : Field), ¬ footIndep p a p a
  | [], a, h => by simp [footIndep] at h
  | n :: r, a, h => by
    simp only [footIndep, ne_eq, not_true_eq_false, false_or] at h
    exact footIndep_irrefl r a h

theorem Leaf.run_md {lf : Leaf} {s t : SuiteResult} (h : lf.run s = .ok t) : t.md = s.md := by
  cases lf <;> simp only [Leaf.run] at h <;> obtain ⟨a, _, rfl⟩ := Lens.on_ok h <;> cases s <;> rfl

theorem nodeOp_md : ∀ (p : Path) (lf : Leaf) (s t : SuiteResult), nodeOp p lf s = .ok t → t.md = s.md
  | [], lf, s, t, h => Leaf.run_md h
  | n :: rest, lf, s, t, h => by
    simp only [nodeOp] at h
    obtain ⟨a, _, rfl⟩ := Lens.on_ok h
    cases s; rfl

theorem nodeOp_name (p : Path) (lf : Leaf) (s t : SuiteResult) (h : nodeOp p lf s = .ok t) : t.md.name = s.md.name := by
  rw [nodeOp_md p lf s t h]

theorem Comm.toSame {A B : SuiteResult → Except WriterErr SuiteResult} (h : Comm Eq A B) : Comm SameSuite A B :=
  h.mono (fun _ _ e => e ▸ SameSuite.refl _)

theorem Comm.toSames {A B : List SuiteResult → Except WriterErr (List SuiteResult)} (h : Comm Eq A B) : Comm SameSuites A B :=
  h.mono (fun _ _ e => e ▸ SameSuites.refl _)

theorem comm_modifyFirst_suites (n m : String) (F G : SuiteResult → Except WriterErr SuiteResult)
    (hF : ∀ a b, F a = .ok b → b.md.name = a.md.name) (hG : ∀ a b, G a = .ok b → b.md.name = a.md.name)
    (hc : n = m → Comm SameSuite F G) :
    Comm SameSuites (modifyFirst (fun s => s.md.name == n) F (.lookupSuite n))
      (modifyFirst (fun s => s.md.name == m) G (.lookupSuite m)) := by
  by_cases hnm : n = m
  · subst hnm
    exact comm_modifyFirst_same (fun s : SuiteResult => s.md.name) n SameSuite SameSuites
      (fun _ _ l h => .cons h (SameSuites.refl l)) (fun a _ _ h => .cons (SameSuite.refl a) h) F G _ _ hF hG (hc rfl)
  · exact (comm_modifyFirst_ne (fun s : SuiteResult => s.md.name) n m hnm F G _ _ hF hG).toSames

theorem comm_on_suites {A B : List SuiteResult → Except WriterErr (List SuiteResult)} (h : Comm SameSuites A B) :
    Comm SameSuite (suitesL.on A) (suitesL.on B) :=
  Lens.comm_same suitesL_lawful SameSuites SameSuite (fun s _ _ h => sameSuite_setSuites s h) _ _ h

/-- **tree operations with independent footprints commute** (below one suite) -/
theorem nodeOp_comm : ∀ (p : Path) (a : Leaf) (q : Path) (b : Leaf), footIndep p a.field q b.field →
    Comm SameSuite (nodeOp p a) (nodeOp q b)
  | [], a, [], b, h => by simp only [nodeOp]; exact Leaf.comm a b h
  | [], a, m :: r, b, h => by
    simp only [footIndep] at h
    simp only [nodeOp]
    cases a <;> simp only [Leaf.run] <;>
      first
      | (refine (Lens.comm ?_ _ _).toSame; lens_laws; done)
      | skip
    rename_i c
    refine comm_on_suites (comm_append_modifyFirst _ _ _ c ?_).toSames
    simpa [Leaf.field] using h
  | n :: r, a, [], b, h => by
    simp only [footIndep] at h
    simp only [nodeOp]
    cases b <;> simp only [Leaf.run] <;>
      first
      | (refine (Lens.comm ?_ _ _).toSame; lens_laws; done)
      | skip
    rename_i c
    refine comm_on_suites (comm_modifyFirst_append _ _ _ c ?_).toSames
    simpa [Leaf.field] using h
  | n :: r₁, a, m :: r₂, b, h => by
    simp only [footIndep] at h
    simp only [nodeOp]
    refine comm_on_suites (comm_modifyFirst_suites n m _ _ (nodeOp_name r₁ a) (nodeOp_name r₂ b) ?_)
    intro hnm
    exact nodeOp_comm r₁ a r₂ b (h.resolve_left (fun hne => hne hnm))

/-- **tree operations with independent footprints commute** (on the report's suite list): if `A` then `B` succeeds, so
    does `B` then `A`, and the two resulting forests are `SameSuites`. -/
theorem topOp_comm : ∀ (p : Path) (a : Leaf) (q : Path) (b : Leaf), footIndep p a.field q b.field →
    Comm SameSuites (topOp p a) (topOp q b)
  | [], a, [], b, h => by
    cases a <;> cases b <;> simp only [topOp] <;>
      first
      | exact comm_append_append _ _
      | (intro ss x y h1 h2; first | (cases h1; done) | (cases h2; done))
  | [], a, m :: r, b, h => by
    simp only [footIndep] at h
    cases a <;> simp only [topOp] <;>
      first
      | (intro ss x y h1 h2; cases h1; done)
      | skip
    rename_i c
    refine (comm_append_modifyFirst _ _ _ c ?_).toSames
    simpa [Leaf.field] using h
  | n :: r, a, [], b, h => by
    simp only [footIndep] at h
    cases b <;> simp only [topOp] <;>
      first
      | (intro ss x y h1 h2; cases h2; done)
      | skip
    rename_i c
    refine (comm_modifyFirst_append _ _ _ c ?_).toSames
    simpa [Leaf.field] using h
  | n :: r₁, a, m :: r₂, b, h => by
    simp only [footIndep] at h
    simp only [topOp]
    refine comm_modifyFirst_suites n m _ _ (nodeOp_name r₁ a) (nodeOp_name r₂ b) ?_
    intro hnm
    exact nodeOp_comm r₁ a r₂ b (h.resolve_left (fun hne => hne hnm))

end LccModel.Writer

/-
  Helper definitions for Props/C16Keys.lean: the matcher trees whose meaning uses no operator that can raise
  (no ordering comparison, no `len`, no iteration, no `in` on the actual value) — `==`, `!=`, `is None`, `type(x)`,
  key-path lookup, the string tests, `actual in <expected list>` and the combinators.  Core Lean only.
-/
import LccModel.Lemmas.Matcher

namespace LccModel.Matcher

mutual
/-- no sub-matcher applies `<`/`<=`/`>`/`>=`, `len()`, `iter()` or `… in actual` to an operand -/
def M.raiseFree : M → Bool
  | .equalTo _ => true
  | .cmp .ne _ => true
  | .cmp (.ord _) _ => false
  | .between _ _ => false
  | .isNone => true
  | .hasLength _ => false
  | .startsWith _ => true
  | .endsWith _ => true
  | .containsString _ => true
  | .hasItem _ => false
  | .hasItems _ => false
  | .hasOnlyItems _ => false
  | .hasAllItems _ => false
  | .isIn _ => true
  | .hasEntry _ m => m.raiseFree
  | .hasKey _ => true
  | .isType _ m => m.raiseFree
  | .isTypeAny _ => true
  | .allOf ms => raiseFreeList ms
  | .anyOf ms => raiseFreeList ms
  | .anything _ => true
  | .not m => m.raiseFree
  | .hidden m => m.raiseFree
  | .described _ m => m.raiseFree
def raiseFreeList : List M → Bool
  | [] => true
  | m :: ms => m.raiseFree && raiseFreeList ms
end

/-- a dict value whose keys are of at least two different types somewhere (the input class of seeded/C16-4) -/
def DKey.tyTag : DKey → Nat
  | .none => 0 | .bool _ => 1 | .int _ => 2 | .float _ => 3 | .str _ => 4

def mixedKeys (ks : List DKey) : Bool :=
  match ks with
  | [] => false
  | k :: rest => rest.any fun k' => k'.tyTag != k.tyTag

end LccModel.Matcher

/-
  M2 — the task graph `runner.build_tasks` builds (model: `Run.buildTasks`) is a well-formed scheduler
  graph for EVERY valid project, so the scheduler theorems of C01 / C04 (proved for every well-formed
  graph) apply to every valid project.

  This file: `graphOf`, `Valid`, the per-suite description of the task list (`svAll`), and the helper
  lemmas (all by the mutual structural recursion of `suiteTasks` / `suitesTasks` /
  `flattenSuite` / `flattenSuites`).  Property-level statements are in `Props/C01Graph.lean`.
  Core Lean only.
-/
import LccModel.Model.Run
import LccModel.Model.Sched
import LccModel.Lemmas.SchedProgress

namespace LccModel.TaskGraph
open LccModel.Report LccModel.Run LccModel.Sched

/-! ### The scheduler graph of a project -/

/-- the FIRST task with that id (what `lookup_test_task` / object identity give) -/
def lookupSpec (ts : List TaskSpec) (t : TaskId) : Option TaskSpec := ts.find? (fun x => decide (x.id = t))

/-- the graph `run_tasks` receives from `build_tasks` -/
def graphOf (P : Proj) : Graph TaskId :=
  { tasks := (buildTasks P).map (·.id)
    succDeps := fun t => match lookupSpec (buildTasks P) t with | some x => x.succ | none => []
    complDeps := fun t => match lookupSpec (buildTasks P) t with | some x => x.compl | none => [] }

/-- every test of the project with its path: suites depth first in declaration order (`allSuites`), a
    suite's own tests (in declaration order) before those of its sub-suites — the order in which
    `build_suite_tasks` creates test tasks -/
def projTests (P : Proj) : List (Path × TestSpec) :=
  (allSuites P).flatMap (fun sv => sv.spec.tests.map (fun t => (sv.path ++ [t.name], t)))

/-- What project preparation guarantees (`Suite.add_suite` / `Suite.add_test` / the loader reject
    duplicate names; `resolve_tests_dependencies` resolves every dependency path to a test of the project
    and rejects circular dependencies), stated on the project syntax. -/
structure Valid (P : Proj) : Prop where
  /-- top-level suite names are pairwise distinct.  NB: for sub-suites and tests the code enforces this
      (`Suite.add_suite` / `Suite.add_test` raise `SuiteLoadingError`); at the top level it follows from
      distinct module file names when loading from a directory, but `load_suites_from_classes` /
      `load_suites_from_files` perform no check, so here it is an assumption on the project.  It is needed:
      task ids are (kind, path), and two top-level suites of the same name get the same ids
      (refuted without it in `Props/C01Graph.lean`). -/
  topNames : (P.suites.map (·.name)).Nodup
  /-- sibling sub-suite names are pairwise distinct in every suite (at every depth) -/
  subNames : ∀ sv ∈ allSuites P, (sv.spec.subs.map (·.name)).Nodup
  /-- test names are pairwise distinct within every suite -/
  testNames : ∀ sv ∈ allSuites P, (sv.spec.tests.map (·.name)).Nodup
  /-- every dependency path of every test is the path of some test of the project -/
  depsResolved : ∀ pt ∈ projTests P, ∀ d ∈ pt.2.deps, d ∈ (projTests P).map (·.1)
  /-- test dependencies are acyclic -/
  depsAcyclic : ∃ lvl : Path → Nat, ∀ pt ∈ projTests P, ∀ d ∈ pt.2.deps, lvl d < lvl pt.1

/-! ### The tasks of one suite, as closed terms -/

/-- the parent-suite beginning task handed down by `build_suite_tasks` (none at the top level) -/
def pbFor : Path → Option TaskId
  | [] => none
  | a :: l => some ⟨.begin, a :: l⟩

theorem pbFor_concat (p : Path) (n : String) : pbFor (p ++ [n]) = some ⟨.begin, p ++ [n]⟩ := by
  cases p <;> rfl

def beginSpec (P : Proj) (p : Path) (pb : Option TaskId) : TaskSpec :=
  { id := ⟨.begin, p⟩
    succ := (if hasSessSetup P then [⟨.sessSetup, []⟩] else []) ++ pb.toList
    compl := [] }

def initSpec (p : Path) : TaskSpec := { id := ⟨.init, p⟩, succ := [⟨.begin, p⟩], compl := [] }

/-- `test_dependency = suite_setup_task if suite_setup_task else suite_beginning_task` -/
def setupIdOf (P : Proj) (sv : SuiteView) : TaskId :=
  if hasInit P sv then ⟨.init, sv.path⟩ else ⟨.begin, sv.path⟩

def testSpec (P : Proj) (sv : SuiteView) (t : TestSpec) : TaskSpec :=
  { id := ⟨.test, sv.path ++ [t.name]⟩
    succ := setupIdOf P sv :: t.deps.map (fun dp => ⟨.test, dp⟩)
    compl := [] }

def testIdsOf (sv : SuiteView) : List TaskId := sv.spec.tests.map (fun t => ⟨.test, sv.path ++ [t.name]⟩)

def tdSpec (sv : SuiteView) : TaskSpec :=
  { id := ⟨.teardown, sv.path⟩, succ := [], compl := ⟨.init, sv.path⟩ :: testIdsOf sv }

def subEndsOf (sv : SuiteView) : List TaskId := sv.spec.subs.map (fun s => ⟨.end_, sv.path ++ [s.name]⟩)

def endSpec (P : Proj) (sv : SuiteView) : TaskSpec :=
  { id := ⟨.end_, sv.path⟩
    succ := ⟨.begin, sv.path⟩ :: testIdsOf sv ++ (if hasInit P sv then [⟨.teardown, sv.path⟩] else []) ++ subEndsOf sv
    compl := [] }

/-- beginning, setup (if any), tests, teardown (if any) -/
def svHead (P : Proj) (sv : SuiteView) (pb : Option TaskId) : List TaskSpec :=
  [beginSpec P sv.path pb] ++ (if hasInit P sv then [initSpec sv.path] else []) ++
    sv.spec.tests.map (testSpec P sv) ++ (if hasInit P sv then [tdSpec sv] else [])

/-- all the tasks `build_suite_tasks` creates for the suite itself (not its sub-suites) -/
def svAll (P : Proj) (sv : SuiteView) : List TaskSpec :=
  svHead P sv (pbFor sv.path.dropLast) ++ [endSpec P sv]

theorem suiteTasks_eq (P : Proj) (parent : Path) (inh : Bool) (pb : Option TaskId)
    (n : String) (r : Nat) (d : Bool) (ss : Option (List String × Script)) (ts st tt : Option Script)
    (inj : List String) (tests : List TestSpec) (subs : List SuiteSpec) :
    suiteTasks P parent inh pb (.mk n r d ss ts st tt inj tests subs) =
      svHead P ⟨parent ++ [n], .mk n r d ss ts st tt inj tests subs, inh || d⟩ pb ++
      suitesTasks P (parent ++ [n]) (inh || d) (some ⟨.begin, parent ++ [n]⟩) subs ++
      [endSpec P ⟨parent ++ [n], .mk n r d ss ts st tt inj tests subs, inh || d⟩] := by
  rw [suiteTasks]
  simp only [List.map_map]
  rfl


theorem mem_svHead {P : Proj} {sv : SuiteView} {pb : Option TaskId} {x : TaskSpec} :
    x ∈ svHead P sv pb ↔
      x = beginSpec P sv.path pb ∨ (hasInit P sv = true ∧ x = initSpec sv.path) ∨
      (∃ t ∈ sv.spec.tests, x = testSpec P sv t) ∨ (hasInit P sv = true ∧ x = tdSpec sv) := by
  unfold svHead
  have hm : x ∈ List.map (testSpec P sv) sv.spec.tests ↔ ∃ t ∈ sv.spec.tests, x = testSpec P sv t := by
    rw [List.mem_map]
    constructor
    · rintro ⟨t, h1, h2⟩; exact ⟨t, h1, h2.symm⟩
    · rintro ⟨t, h1, h2⟩; exact ⟨t, h1, h2.symm⟩
  cases h : hasInit P sv <;> simp [hm]

theorem mem_svAll {P : Proj} {sv : SuiteView} {x : TaskSpec} :
    x ∈ svAll P sv ↔
      x = beginSpec P sv.path (pbFor sv.path.dropLast) ∨ (hasInit P sv = true ∧ x = initSpec sv.path) ∨
      (∃ t ∈ sv.spec.tests, x = testSpec P sv t) ∨ (hasInit P sv = true ∧ x = tdSpec sv) ∨
      x = endSpec P sv := by
  unfold svAll
  rw [List.mem_append, mem_svHead, List.mem_singleton]
  simp only [or_assoc]

/-! ### Structure of `flattenSuite(s)` -/

theorem flattenSuite_eq (parent : Path) (inh : Bool)
    (n : String) (r : Nat) (d : Bool) (ss : Option (List String × Script)) (ts st tt : Option Script)
    (inj : List String) (tests : List TestSpec) (subs : List SuiteSpec) :
    flattenSuite parent inh (.mk n r d ss ts st tt inj tests subs) =
      ⟨parent ++ [n], .mk n r d ss ts st tt inj tests subs, inh || d⟩ ::
        flattenSuites (parent ++ [n]) (inh || d) subs := by
  rw [flattenSuite]

theorem flattenSuites_cons (parent : Path) (inh : Bool) (s : SuiteSpec) (rest : List SuiteSpec) :
    flattenSuites parent inh (s :: rest) = flattenSuite parent inh s ++ flattenSuites parent inh rest := by
  rw [flattenSuites]

theorem flattenSuites_nil (parent : Path) (inh : Bool) : flattenSuites parent inh [] = [] := by
  rw [flattenSuites]

theorem suitesTasks_cons (P : Proj) (parent : Path) (inh : Bool) (pb : Option TaskId) (s : SuiteSpec)
    (rest : List SuiteSpec) :
    suitesTasks P parent inh pb (s :: rest) =
      suiteTasks P parent inh pb s ++ suitesTasks P parent inh pb rest := by
  rw [suitesTasks]

theorem suitesTasks_nil (P : Proj) (parent : Path) (inh : Bool) (pb : Option TaskId) :
    suitesTasks P parent inh pb [] = [] := by
  rw [suitesTasks]

mutual
/-- every suite below `s` (placed under `parent`) has a path that extends `parent ++ [s.name]` -/
theorem flattenSuite_path : ∀ (s : SuiteSpec) (parent : Path) (inh : Bool) (sv : SuiteView),
    sv ∈ flattenSuite parent inh s → ∃ rest, sv.path = parent ++ s.name :: rest
  | .mk n r d ss ts st tt inj tests subs, parent, inh, sv, h => by
    rw [flattenSuite_eq] at h
    rcases List.mem_cons.mp h with rfl | h
    · exact ⟨[], rfl⟩
    · obtain ⟨s', _, rest, hr⟩ := flattenSuites_path subs (parent ++ [n]) (inh || d) sv h
      exact ⟨s'.name :: rest, by rw [hr]; simp [SuiteSpec.name]⟩
theorem flattenSuites_path : ∀ (ss : List SuiteSpec) (parent : Path) (inh : Bool) (sv : SuiteView),
    sv ∈ flattenSuites parent inh ss → ∃ s ∈ ss, ∃ rest, sv.path = parent ++ s.name :: rest
  | [], parent, inh, sv, h => by rw [flattenSuites_nil] at h; cases h
  | s :: rest, parent, inh, sv, h => by
    rw [flattenSuites_cons] at h
    rcases List.mem_append.mp h with h | h
    · exact ⟨s, List.mem_cons_self, flattenSuite_path s parent inh sv h⟩
    · obtain ⟨s', hs', hr⟩ := flattenSuites_path rest parent inh sv h
      exact ⟨s', List.mem_cons_of_mem _ hs', hr⟩
end

mutual
/-- every suite of the flattening is a root or the declared sub-suite of another suite of the flattening -/
theorem flattenSuite_parent : ∀ (s : SuiteSpec) (parent : Path) (inh : Bool) (sv : SuiteView),
    sv ∈ flattenSuite parent inh s →
      sv.path = parent ++ [s.name] ∨
      ∃ sv' ∈ flattenSuite parent inh s, ∃ sub ∈ sv'.spec.subs, sv.path = sv'.path ++ [sub.name]
  | .mk n r d ss ts st tt inj tests subs, parent, inh, sv, h => by
    rw [flattenSuite_eq] at h ⊢
    rcases List.mem_cons.mp h with rfl | h
    · exact Or.inl rfl
    · right
      rcases flattenSuites_parent subs (parent ++ [n]) (inh || d) sv h with ⟨s', hs', hp⟩ | ⟨sv', h1, sub, h2, h3⟩
      · exact ⟨_, List.mem_cons_self, s', hs', hp⟩
      · exact ⟨sv', List.mem_cons_of_mem _ h1, sub, h2, h3⟩
theorem flattenSuites_parent : ∀ (ss : List SuiteSpec) (parent : Path) (inh : Bool) (sv : SuiteView),
    sv ∈ flattenSuites parent inh ss →
      (∃ s ∈ ss, sv.path = parent ++ [s.name]) ∨
      ∃ sv' ∈ flattenSuites parent inh ss, ∃ sub ∈ sv'.spec.subs, sv.path = sv'.path ++ [sub.name]
  | [], parent, inh, sv, h => by rw [flattenSuites_nil] at h; cases h
  | s :: rest, parent, inh, sv, h => by
    rw [flattenSuites_cons] at h ⊢
    rcases List.mem_append.mp h with h | h
    · rcases flattenSuite_parent s parent inh sv h with hp | ⟨sv', h1, sub, h2, h3⟩
      · exact Or.inl ⟨s, List.mem_cons_self, hp⟩
      · exact Or.inr ⟨sv', List.mem_append.mpr (Or.inl h1), sub, h2, h3⟩
    · rcases flattenSuites_parent rest parent inh sv h with ⟨s', hs', hp⟩ | ⟨sv', h1, sub, h2, h3⟩
      · exact Or.inl ⟨s', List.mem_cons_of_mem _ hs', hp⟩
      · exact Or.inr ⟨sv', List.mem_append.mpr (Or.inr h1), sub, h2, h3⟩
end

theorem flattenSuite_head (s : SuiteSpec) (parent : Path) (inh : Bool) :
    ∃ sv ∈ flattenSuite parent inh s, sv.path = parent ++ [s.name] ∧ sv.spec = s := by
  cases s with
  | mk n r d ss ts st tt inj tests subs =>
    rw [flattenSuite_eq]; exact ⟨_, List.mem_cons_self, rfl, rfl⟩

theorem flattenSuites_root (parent : Path) (inh : Bool) (s : SuiteSpec) :
    ∀ (ss : List SuiteSpec), s ∈ ss →
      ∃ sv ∈ flattenSuites parent inh ss, sv.path = parent ++ [s.name] ∧ sv.spec = s
  | [], h => by cases h
  | s' :: rest, h => by
    rw [flattenSuites_cons]
    rcases List.mem_cons.mp h with rfl | h
    · obtain ⟨sv, h1, h2⟩ := flattenSuite_head s parent inh
      exact ⟨sv, List.mem_append.mpr (Or.inl h1), h2⟩
    · obtain ⟨sv, h1, h2⟩ := flattenSuites_root parent inh s rest h
      exact ⟨sv, List.mem_append.mpr (Or.inr h1), h2⟩

mutual
/-- every declared sub-suite of a suite of the flattening is in the flattening, one level deeper -/
theorem flattenSuite_child : ∀ (s : SuiteSpec) (parent : Path) (inh : Bool) (sv' : SuiteView),
    sv' ∈ flattenSuite parent inh s → ∀ sub ∈ sv'.spec.subs,
      ∃ sv ∈ flattenSuite parent inh s, sv.path = sv'.path ++ [sub.name] ∧ sv.spec = sub
  | .mk n r d ss ts st tt inj tests subs, parent, inh, sv', h, sub, hsub => by
    rw [flattenSuite_eq] at h ⊢
    rcases List.mem_cons.mp h with rfl | h
    · obtain ⟨sv, h1, h2⟩ := flattenSuites_root (parent ++ [n]) (inh || d) sub subs hsub
      exact ⟨sv, List.mem_cons_of_mem _ h1, h2⟩
    · obtain ⟨sv, h1, h2⟩ := flattenSuites_child subs (parent ++ [n]) (inh || d) sv' h sub hsub
      exact ⟨sv, List.mem_cons_of_mem _ h1, h2⟩
theorem flattenSuites_child : ∀ (ss : List SuiteSpec) (parent : Path) (inh : Bool) (sv' : SuiteView),
    sv' ∈ flattenSuites parent inh ss → ∀ sub ∈ sv'.spec.subs,
      ∃ sv ∈ flattenSuites parent inh ss, sv.path = sv'.path ++ [sub.name] ∧ sv.spec = sub
  | [], parent, inh, sv', h, _, _ => by rw [flattenSuites_nil] at h; cases h
  | s :: rest, parent, inh, sv', h, sub, hsub => by
    rw [flattenSuites_cons] at h ⊢
    rcases List.mem_append.mp h with h | h
    · obtain ⟨sv, h1, h2⟩ := flattenSuite_child s parent inh sv' h sub hsub
      exact ⟨sv, List.mem_append.mpr (Or.inl h1), h2⟩
    · obtain ⟨sv, h1, h2⟩ := flattenSuites_child rest parent inh sv' h sub hsub
      exact ⟨sv, List.mem_append.mpr (Or.inr h1), h2⟩
end

/-! ### The task list, suite by suite -/

mutual
/-- the tasks built for a suite tree are exactly the per-suite tasks `svAll` of the suites of the tree -/
theorem mem_suiteTasks (P : Proj) (x : TaskSpec) : ∀ (s : SuiteSpec) (parent : Path) (inh : Bool),
    x ∈ suiteTasks P parent inh (pbFor parent) s ↔ ∃ sv ∈ flattenSuite parent inh s, x ∈ svAll P sv
  | .mk n r d ss ts st tt inj tests subs, parent, inh => by
    have ih := mem_suitesTasks P x subs (parent ++ [n]) (inh || d)
    rw [pbFor_concat] at ih
    rw [suiteTasks_eq, flattenSuite_eq, List.mem_append, List.mem_append, ih, List.mem_singleton]
    have hroot : ∀ sv : SuiteView, sv.path = parent ++ [n] →
        (x ∈ svAll P sv ↔ x ∈ svHead P sv (pbFor parent) ∨ x = endSpec P sv) := by
      intro sv hp
      unfold svAll
      rw [hp, List.dropLast_concat, List.mem_append, List.mem_singleton]
    constructor
    · rintro ((h | ⟨sv, h1, h2⟩) | h)
      · exact ⟨_, List.mem_cons_self, (hroot _ rfl).mpr (Or.inl h)⟩
      · exact ⟨sv, List.mem_cons_of_mem _ h1, h2⟩
      · exact ⟨_, List.mem_cons_self, (hroot _ rfl).mpr (Or.inr h)⟩
    · rintro ⟨sv, h1, h2⟩
      rcases List.mem_cons.mp h1 with rfl | h1
      · rcases (hroot _ rfl).mp h2 with h | h
        · exact Or.inl (Or.inl h)
        · exact Or.inr h
      · exact Or.inl (Or.inr ⟨sv, h1, h2⟩)
theorem mem_suitesTasks (P : Proj) (x : TaskSpec) : ∀ (ss : List SuiteSpec) (parent : Path) (inh : Bool),
    x ∈ suitesTasks P parent inh (pbFor parent) ss ↔ ∃ sv ∈ flattenSuites parent inh ss, x ∈ svAll P sv
  | [], parent, inh => by
    rw [suitesTasks_nil, flattenSuites_nil]
    constructor
    · intro h; cases h
    · rintro ⟨_, h, _⟩; cases h
  | s :: rest, parent, inh => by
    rw [suitesTasks_cons, flattenSuites_cons, List.mem_append, mem_suiteTasks P x s parent inh,
      mem_suitesTasks P x rest parent inh]
    constructor
    · rintro (⟨sv, h1, h2⟩ | ⟨sv, h1, h2⟩)
      · exact ⟨sv, List.mem_append.mpr (Or.inl h1), h2⟩
      · exact ⟨sv, List.mem_append.mpr (Or.inr h1), h2⟩
    · rintro ⟨sv, h1, h2⟩
      rcases List.mem_append.mp h1 with h1 | h1
      · exact Or.inl ⟨sv, h1, h2⟩
      · exact Or.inr ⟨sv, h1, h2⟩
end


def ssSpec : TaskSpec := { id := ⟨.sessSetup, []⟩, succ := [], compl := [] }

def stSpec (P : Proj) : TaskSpec :=
  { id := ⟨.sessTeardown, []⟩, succ := [], compl := P.suites.map (fun s => ⟨.end_, [s.name]⟩) }

theorem buildTasks_eq (P : Proj) :
    buildTasks P = (if hasSessSetup P then [ssSpec] else []) ++ suitesTasks P [] false (pbFor []) P.suites ++
      (if hasSessSetup P then [stSpec P] else []) := rfl

theorem mem_buildTasks {P : Proj} {x : TaskSpec} :
    x ∈ buildTasks P ↔
      (hasSessSetup P = true ∧ (x = ssSpec ∨ x = stSpec P)) ∨ ∃ sv ∈ allSuites P, x ∈ svAll P sv := by
  rw [buildTasks_eq, List.mem_append, List.mem_append, mem_suitesTasks]
  unfold allSuites
  cases hasSessSetup P <;> simp
  constructor
  · rintro ((h | h) | h)
    · exact Or.inl (Or.inl h)
    · exact Or.inr h
    · exact Or.inl (Or.inr h)
  · rintro ((h | h) | h)
    · exact Or.inl (Or.inl h)
    · exact Or.inr h
    · exact Or.inl (Or.inr h)

/-- the ids of the tasks of the graph -/
def ids (P : Proj) : List TaskId := (buildTasks P).map (·.id)

theorem mem_ids_of_svAll {P : Proj} {sv : SuiteView} {x : TaskSpec} (hsv : sv ∈ allSuites P)
    (hx : x ∈ svAll P sv) : x.id ∈ ids P :=
  List.mem_map_of_mem (mem_buildTasks.mpr (Or.inr ⟨sv, hsv, hx⟩))

/-- ids of the tasks of one suite: suite-level kinds at the suite's path, test ids one level deeper -/
theorem svAll_id {P : Proj} {sv : SuiteView} {x : TaskSpec} (h : x ∈ svAll P sv) :
    (x.id.path = sv.path ∧ x.id.kind ≠ .test ∧ x.id.kind ≠ .sessSetup ∧ x.id.kind ≠ .sessTeardown) ∨
    (x.id.kind = .test ∧ ∃ t ∈ sv.spec.tests, x.id.path = sv.path ++ [t.name]) := by
  rcases mem_svAll.mp h with rfl | ⟨_, rfl⟩ | ⟨t, ht, rfl⟩ | ⟨_, rfl⟩ | rfl
  · left; simp [beginSpec]
  · left; simp [initSpec]
  · right; exact ⟨rfl, t, ht, rfl⟩
  · left; simp [tdSpec]
  · left; simp [endSpec]

theorem suiteTasks_id {P : Proj} {s : SuiteSpec} {parent : Path} {inh : Bool} {x : TaskSpec}
    (h : x ∈ suiteTasks P parent inh (pbFor parent) s) :
    ∃ rest, x.id.path = parent ++ s.name :: rest ∧ (x.id.kind = .test → rest ≠ []) ∧
      x.id.kind ≠ .sessSetup ∧ x.id.kind ≠ .sessTeardown := by
  obtain ⟨sv, hsv, hx⟩ := (mem_suiteTasks P x s parent inh).mp h
  obtain ⟨rest, hr⟩ := flattenSuite_path s parent inh sv hsv
  rcases svAll_id hx with ⟨h1, h2, h3, h4⟩ | ⟨h1, t, _, h2⟩
  · exact ⟨rest, by rw [h1, hr], fun hk => absurd hk h2, h3, h4⟩
  · refine ⟨rest ++ [t.name], by rw [h2, hr]; simp, fun _ => by simp, ?_, ?_⟩ <;> rw [h1] <;> simp

theorem suitesTasks_id {P : Proj} {parent : Path} {inh : Bool} {x : TaskSpec} :
    ∀ {ss : List SuiteSpec}, x ∈ suitesTasks P parent inh (pbFor parent) ss →
    ∃ s ∈ ss, ∃ rest, x.id.path = parent ++ s.name :: rest ∧ (x.id.kind = .test → rest ≠ []) ∧
      x.id.kind ≠ .sessSetup ∧ x.id.kind ≠ .sessTeardown
  | [], h => by rw [suitesTasks_nil] at h; cases h
  | s :: rest, h => by
    rw [suitesTasks_cons] at h
    rcases List.mem_append.mp h with h | h
    · exact ⟨s, List.mem_cons_self, suiteTasks_id h⟩
    · obtain ⟨s', hs', hr⟩ := suitesTasks_id (ss := rest) h
      exact ⟨s', List.mem_cons_of_mem _ hs', hr⟩

/-! ### No two tasks share an id -/

theorem nodup_map_inj {α β : Type} {f : α → β} (hf : ∀ a b, f a = f b → a = b) {l : List α}
    (h : l.Nodup) : (l.map f).Nodup := by
  unfold List.Nodup at *
  rw [List.pairwise_map]
  exact h.imp (fun hab hfab => hab (hf _ _ hfab))

theorem testIdsOf_nodup {sv : SuiteView} (h : (sv.spec.tests.map (·.name)).Nodup) : (testIdsOf sv).Nodup := by
  have : testIdsOf sv = (sv.spec.tests.map (·.name)).map (fun n => (⟨.test, sv.path ++ [n]⟩ : TaskId)) := by
    unfold testIdsOf; rw [List.map_map]; rfl
  rw [this]
  apply nodup_map_inj _ h
  intro a b hab
  simpa using hab

theorem mem_testIdsOf {sv : SuiteView} {a : TaskId} :
    a ∈ testIdsOf sv ↔ ∃ t ∈ sv.spec.tests, a = ⟨.test, sv.path ++ [t.name]⟩ := by
  unfold testIdsOf
  rw [List.mem_map]
  constructor
  · rintro ⟨t, h1, h2⟩; exact ⟨t, h1, h2.symm⟩
  · rintro ⟨t, h1, h2⟩; exact ⟨t, h1, h2.symm⟩

theorem svAll_ids (P : Proj) (sv : SuiteView) :
    (svAll P sv).map (·.id) =
      [⟨.begin, sv.path⟩] ++ (if hasInit P sv then [⟨.init, sv.path⟩] else []) ++ testIdsOf sv ++
      (if hasInit P sv then [⟨.teardown, sv.path⟩] else []) ++ [⟨.end_, sv.path⟩] := by
  unfold svAll svHead testIdsOf
  cases hasInit P sv <;>
    simp [beginSpec, initSpec, tdSpec, endSpec, testSpec, List.map_map, Function.comp_def]

set_option linter.unusedSimpArgs false in
theorem svAll_ids_nodup (P : Proj) {sv : SuiteView} (h : (sv.spec.tests.map (·.name)).Nodup) :
    ((svAll P sv).map (·.id)).Nodup := by
  rw [svAll_ids]
  have ht := testIdsOf_nodup h
  have hk : ∀ a ∈ testIdsOf sv, a.kind = .test := by
    intro a ha; obtain ⟨t, _, rfl⟩ := mem_testIdsOf.mp ha; rfl
  have hb : (⟨.begin, sv.path⟩ : TaskId) ∉ testIdsOf sv := fun h => by have := hk _ h; cases this
  have hi : (⟨.init, sv.path⟩ : TaskId) ∉ testIdsOf sv := fun h => by have := hk _ h; cases this
  have htd : (⟨.teardown, sv.path⟩ : TaskId) ∉ testIdsOf sv := fun h => by have := hk _ h; cases this
  have he : (⟨.end_, sv.path⟩ : TaskId) ∉ testIdsOf sv := fun h => by have := hk _ h; cases this
  cases hasInit P sv <;>
    simp [List.nodup_append, List.nodup_cons, ht, hb, hi, htd, he] <;>
    (intro a ha; have := hk a ha; (try constructor) <;> (intro hEq; subst hEq; cases this))

/-- what `Valid` says about one suite -/
def NamesOk (sv : SuiteView) : Prop :=
  (sv.spec.subs.map (·.name)).Nodup ∧ (sv.spec.tests.map (·.name)).Nodup

theorem path_ne_of_longer (p : Path) (n : String) (rest : List String) : p ≠ p ++ n :: rest := by
  intro h
  have := congrArg List.length h
  simp at this

mutual
theorem nodup_suiteTasks (P : Proj) : ∀ (s : SuiteSpec) (parent : Path) (inh : Bool),
    (∀ sv ∈ flattenSuite parent inh s, NamesOk sv) →
    ((suiteTasks P parent inh (pbFor parent) s).map (·.id)).Nodup
  | .mk n r d ss ts st tt inj tests subs, parent, inh, hok => by
    have hroot := hok _ (by rw [flattenSuite_eq]; exact List.mem_cons_self)
    have ih := nodup_suitesTasks P subs (parent ++ [n]) (inh || d) hroot.1
      (fun sv hsv => hok sv (by rw [flattenSuite_eq]; exact List.mem_cons_of_mem _ hsv))
    have hsv := svAll_ids_nodup P hroot.2
    rw [suiteTasks_eq, ← pbFor_concat]
    unfold svAll at hsv
    simp only [List.dropLast_concat, List.map_append, List.map_cons, List.map_nil] at hsv ⊢
    rw [List.nodup_append] at hsv
    obtain ⟨hH, _, hHe⟩ := hsv
    -- ids of the suite itself vs ids of its sub-suites
    have hdisj : ∀ x ∈ svAll P ⟨parent ++ [n], .mk n r d ss ts st tt inj tests subs, inh || d⟩,
        ∀ y ∈ suitesTasks P (parent ++ [n]) (inh || d) (pbFor (parent ++ [n])) subs, x.id ≠ y.id := by
      intro x hx y hy hxy
      obtain ⟨s', _, rest, hp, hk, _, _⟩ := suitesTasks_id hy
      rcases svAll_id hx with ⟨h1, _, _, _⟩ | ⟨h1, t, _, h2⟩
      · rw [← hxy, h1] at hp
        exact path_ne_of_longer _ _ _ hp
      · rw [← hxy] at hp hk
        rw [h2] at hp
        have := List.append_cancel_left hp
        simp only [List.cons.injEq] at this
        exact hk h1 this.2.symm
    rw [List.nodup_append, List.nodup_append]
    refine ⟨⟨hH, ih, ?_⟩, (by simp), ?_⟩
    · intro a ha b hb hab
      obtain ⟨x, hx, rfl⟩ := List.mem_map.mp ha
      obtain ⟨y, hy, rfl⟩ := List.mem_map.mp hb
      exact hdisj x (by unfold svAll; rw [List.dropLast_concat]; exact List.mem_append.mpr (Or.inl hx)) y hy hab
    · intro a ha b hb hab
      rcases List.mem_append.mp ha with ha | ha
      · exact hHe a ha b hb hab
      · obtain ⟨y, hy, rfl⟩ := List.mem_map.mp ha
        rw [List.mem_singleton] at hb
        exact hdisj _ (by unfold svAll; exact List.mem_append.mpr (Or.inr List.mem_cons_self)) y hy
          (by rw [hab, hb])
theorem nodup_suitesTasks (P : Proj) : ∀ (ss : List SuiteSpec) (parent : Path) (inh : Bool),
    (ss.map (·.name)).Nodup → (∀ sv ∈ flattenSuites parent inh ss, NamesOk sv) →
    ((suitesTasks P parent inh (pbFor parent) ss).map (·.id)).Nodup
  | [], parent, inh, _, _ => by rw [suitesTasks_nil]; exact List.nodup_nil
  | s :: rest, parent, inh, hn, hok => by
    rw [List.map_cons, List.nodup_cons] at hn
    rw [suitesTasks_cons, List.map_append, List.nodup_append]
    refine ⟨nodup_suiteTasks P s parent inh (fun sv hsv => hok sv ?_),
      nodup_suitesTasks P rest parent inh hn.2 (fun sv hsv => hok sv ?_), ?_⟩
    · rw [flattenSuites_cons]; exact List.mem_append.mpr (Or.inl hsv)
    · rw [flattenSuites_cons]; exact List.mem_append.mpr (Or.inr hsv)
    · intro a ha b hb hab
      obtain ⟨x, hx, rfl⟩ := List.mem_map.mp ha
      obtain ⟨y, hy, rfl⟩ := List.mem_map.mp hb
      obtain ⟨r1, hp1, _⟩ := suiteTasks_id hx
      obtain ⟨s', hs', r2, hp2, _⟩ := suitesTasks_id hy
      rw [hab, hp2] at hp1
      have := List.append_cancel_left hp1
      simp only [List.cons.injEq] at this
      exact hn.1 (List.mem_map.mpr ⟨s', hs', this.1⟩)
end

theorem ids_nodup {P : Proj} (hv : Valid P) : (ids P).Nodup := by
  have h1 := nodup_suitesTasks P P.suites [] false hv.topNames
    (fun sv hsv => ⟨hv.subNames sv hsv, hv.testNames sv hsv⟩)
  have hk : ∀ a ∈ (suitesTasks P [] false (pbFor []) P.suites).map (·.id),
      a.kind ≠ .sessSetup ∧ a.kind ≠ .sessTeardown := by
    intro a ha
    obtain ⟨x, hx, rfl⟩ := List.mem_map.mp ha
    obtain ⟨_, _, _, _, _, h3, h4⟩ := suitesTasks_id hx
    exact ⟨h3, h4⟩
  unfold ids
  rw [buildTasks_eq]
  cases hasSessSetup P
  · simpa using h1
  · simp only [if_true, List.map_append, List.map_cons, List.map_nil, List.nodup_append]
    refine ⟨⟨by simp, h1, ?_⟩, by simp, ?_⟩
    · intro a ha b hb hab
      rw [List.mem_singleton] at ha
      have := (hk b hb).1
      rw [← hab, ha] at this
      exact this rfl
    · intro a ha b hb hab
      rw [List.mem_singleton] at hb
      rcases List.mem_append.mp ha with ha | ha
      · rw [List.mem_singleton] at ha
        rw [ha, hb] at hab
        cases hab
      · have := (hk a ha).2
        rw [hab, hb] at this
        exact this rfl

/-! ### Dependency lookup -/

theorem lookupSpec_of_mem : ∀ {ts : List TaskSpec}, (ts.map (·.id)).Nodup → ∀ {x : TaskSpec}, x ∈ ts →
    lookupSpec ts x.id = some x
  | [], _, _, hx => by cases hx
  | a :: l, hn, x, hx => by
    rw [List.map_cons, List.nodup_cons] at hn
    unfold lookupSpec
    rw [List.find?_cons]
    rcases List.mem_cons.mp hx with rfl | hx
    · simp
    · have hne : a.id ≠ x.id := fun h => hn.1 (h ▸ List.mem_map_of_mem hx)
      simp only [hne, decide_false]
      exact lookupSpec_of_mem hn.2 hx

theorem succDeps_of_mem {P : Proj} (hv : Valid P) {x : TaskSpec} (hx : x ∈ buildTasks P) :
    (graphOf P).succDeps x.id = x.succ := by
  show (match lookupSpec (buildTasks P) x.id with | some x => x.succ | none => []) = x.succ
  rw [lookupSpec_of_mem (ids_nodup hv) hx]

theorem complDeps_of_mem {P : Proj} (hv : Valid P) {x : TaskSpec} (hx : x ∈ buildTasks P) :
    (graphOf P).complDeps x.id = x.compl := by
  show (match lookupSpec (buildTasks P) x.id with | some x => x.compl | none => []) = x.compl
  rw [lookupSpec_of_mem (ids_nodup hv) hx]

theorem deps_of_mem {P : Proj} (hv : Valid P) {x : TaskSpec} (hx : x ∈ buildTasks P) :
    (graphOf P).deps x.id = x.compl ++ x.succ := by
  unfold Graph.deps
  rw [succDeps_of_mem hv hx, complDeps_of_mem hv hx]

/-! ### Test tasks, in order -/

def isTestId (t : TaskId) : Bool := t.kind == .test

theorem svHead_testIds (P : Proj) (sv : SuiteView) (pb : Option TaskId) :
    ((svHead P sv pb).map (·.id)).filter isTestId = testIdsOf sv := by
  have hf : (testIdsOf sv).filter isTestId = testIdsOf sv := by
    rw [List.filter_eq_self]
    intro a ha
    obtain ⟨t, _, rfl⟩ := mem_testIdsOf.mp ha
    rfl
  have hm : (sv.spec.tests.map (testSpec P sv)).map (·.id) = testIdsOf sv := by
    unfold testIdsOf; rw [List.map_map]; rfl
  unfold svHead
  cases hasInit P sv <;>
    simp [List.filter_append, hm, hf, beginSpec, initSpec, tdSpec, isTestId]

mutual
theorem testIds_suiteTasks (P : Proj) : ∀ (s : SuiteSpec) (parent : Path) (inh : Bool) (pb : Option TaskId),
    ((suiteTasks P parent inh pb s).map (·.id)).filter isTestId = (flattenSuite parent inh s).flatMap testIdsOf
  | .mk n r d ss ts st tt inj tests subs, parent, inh, pb => by
    rw [suiteTasks_eq, flattenSuite_eq, List.map_append, List.map_append, List.filter_append,
      List.filter_append, svHead_testIds, testIds_suitesTasks P subs, List.flatMap_cons]
    simp [endSpec, isTestId]
theorem testIds_suitesTasks (P : Proj) : ∀ (ss : List SuiteSpec) (parent : Path) (inh : Bool) (pb : Option TaskId),
    ((suitesTasks P parent inh pb ss).map (·.id)).filter isTestId = (flattenSuites parent inh ss).flatMap testIdsOf
  | [], parent, inh, pb => by rw [suitesTasks_nil, flattenSuites_nil]; rfl
  | s :: rest, parent, inh, pb => by
    rw [suitesTasks_cons, flattenSuites_cons, List.map_append, List.filter_append, List.flatMap_append,
      testIds_suiteTasks P s, testIds_suitesTasks P rest]
end

theorem projTests_ids (P : Proj) :
    (projTests P).map (fun pt => (⟨.test, pt.1⟩ : TaskId)) = (allSuites P).flatMap testIdsOf := by
  unfold projTests testIdsOf
  rw [List.map_flatMap]
  simp only [List.map_map, Function.comp_def]

/-- the test tasks of the graph, in task-list order, are the tests of the project in declaration order -/
theorem ids_filter_test (P : Proj) :
    (ids P).filter isTestId = (projTests P).map (fun pt => (⟨.test, pt.1⟩ : TaskId)) := by
  rw [projTests_ids]
  unfold ids allSuites
  rw [buildTasks_eq, List.map_append, List.map_append, List.filter_append, List.filter_append,
    testIds_suitesTasks]
  cases hasSessSetup P <;> simp [ssSpec, stSpec, isTestId]

theorem mem_projTests {P : Proj} {pt : Path × TestSpec} :
    pt ∈ projTests P ↔ ∃ sv ∈ allSuites P, ∃ t ∈ sv.spec.tests, pt = (sv.path ++ [t.name], t) := by
  unfold projTests
  rw [List.mem_flatMap]
  constructor
  · rintro ⟨sv, h1, h2⟩
    obtain ⟨t, h3, h4⟩ := List.mem_map.mp h2
    exact ⟨sv, h1, t, h3, h4.symm⟩
  · rintro ⟨sv, h1, t, h3, h4⟩
    exact ⟨sv, h1, List.mem_map.mpr ⟨t, h3, h4.symm⟩⟩

/-! ### Which ids are tasks of the graph -/

section Members
variable {P : Proj} {sv : SuiteView} (hsv : sv ∈ allSuites P)
include hsv

theorem beginSpec_mem : beginSpec P sv.path (pbFor sv.path.dropLast) ∈ buildTasks P :=
  mem_buildTasks.mpr (Or.inr ⟨sv, hsv, mem_svAll.mpr (Or.inl rfl)⟩)
theorem initSpec_mem (hi : hasInit P sv = true) : initSpec sv.path ∈ buildTasks P :=
  mem_buildTasks.mpr (Or.inr ⟨sv, hsv, mem_svAll.mpr (Or.inr (Or.inl ⟨hi, rfl⟩))⟩)
theorem testSpec_mem {t : TestSpec} (ht : t ∈ sv.spec.tests) : testSpec P sv t ∈ buildTasks P :=
  mem_buildTasks.mpr (Or.inr ⟨sv, hsv, mem_svAll.mpr (Or.inr (Or.inr (Or.inl ⟨t, ht, rfl⟩)))⟩)
theorem tdSpec_mem (hi : hasInit P sv = true) : tdSpec sv ∈ buildTasks P :=
  mem_buildTasks.mpr (Or.inr ⟨sv, hsv, mem_svAll.mpr (Or.inr (Or.inr (Or.inr (Or.inl ⟨hi, rfl⟩))))⟩)
theorem endSpec_mem : endSpec P sv ∈ buildTasks P :=
  mem_buildTasks.mpr (Or.inr ⟨sv, hsv, mem_svAll.mpr (Or.inr (Or.inr (Or.inr (Or.inr rfl))))⟩)

theorem begin_mem : (⟨.begin, sv.path⟩ : TaskId) ∈ ids P := List.mem_map_of_mem (beginSpec_mem hsv)
theorem init_mem (hi : hasInit P sv = true) : (⟨.init, sv.path⟩ : TaskId) ∈ ids P :=
  List.mem_map_of_mem (initSpec_mem hsv hi)
theorem test_mem {t : TestSpec} (ht : t ∈ sv.spec.tests) : (⟨.test, sv.path ++ [t.name]⟩ : TaskId) ∈ ids P :=
  List.mem_map_of_mem (testSpec_mem hsv ht)
theorem teardown_mem (hi : hasInit P sv = true) : (⟨.teardown, sv.path⟩ : TaskId) ∈ ids P :=
  List.mem_map_of_mem (tdSpec_mem hsv hi)
theorem end_mem : (⟨.end_, sv.path⟩ : TaskId) ∈ ids P := List.mem_map_of_mem (endSpec_mem hsv)

theorem setupIdOf_mem : setupIdOf P sv ∈ ids P := by
  unfold setupIdOf
  cases hi : hasInit P sv
  · exact begin_mem hsv
  · exact init_mem hsv hi

end Members

theorem test_mem_of_projTests {P : Proj} {dp : Path} (h : dp ∈ (projTests P).map (·.1)) :
    (⟨.test, dp⟩ : TaskId) ∈ ids P := by
  obtain ⟨pt, hpt, rfl⟩ := List.mem_map.mp h
  obtain ⟨sv, hsv, t, ht, rfl⟩ := mem_projTests.mp hpt
  exact test_mem hsv ht

/-! ### A topological numbering -/

def maxOf {α : Type} (f : α → Nat) : List α → Nat
  | [] => 0
  | a :: l => max (f a) (maxOf f l)

theorem le_maxOf {α : Type} (f : α → Nat) : ∀ (l : List α) (a : α), a ∈ l → f a ≤ maxOf f l
  | [], _, h => by cases h
  | b :: l, a, h => by
    unfold maxOf
    rcases List.mem_cons.mp h with rfl | h
    · exact Nat.le_max_left _ _
    · exact Nat.le_trans (le_maxOf f l a h) (Nat.le_max_right _ _)

/-- levels: session setup; suite beginnings and setups by depth; tests above all of them, ordered by
    their dependency level `L`; suite teardowns above all tests; suite ends above the teardowns, deeper
    suites first; the session teardown last.  `D` bounds the depth, `M` the test levels. -/
def lvlOf (L : Path → Nat) (D M : Nat) : TaskId → Nat
  | ⟨.sessSetup, _⟩ => 0
  | ⟨.begin, p⟩ => 1 + p.length
  | ⟨.init, p⟩ => 2 + p.length
  | ⟨.test, p⟩ => D + 3 + L p
  | ⟨.teardown, _⟩ => D + M + 4
  | ⟨.end_, p⟩ => D + M + 5 + (D - p.length)
  | ⟨.sessTeardown, _⟩ => 2 * D + M + 6

def depthBound (P : Proj) : Nat := maxOf (fun t : TaskId => t.path.length) (ids P)
def lvlBound (P : Proj) (L : Path → Nat) : Nat := maxOf (fun pt : Path × TestSpec => L pt.1) (projTests P)
def levelOf (P : Proj) (L : Path → Nat) : TaskId → Nat := lvlOf L (depthBound P) (lvlBound P L)

set_option linter.unusedSimpArgs false in
/-- every dependency of every task is a task of the graph and has a smaller level -/
theorem edge_ok {P : Proj} (hv : Valid P) (L : Path → Nat)
    (hL : ∀ pt ∈ projTests P, ∀ d ∈ pt.2.deps, L d < L pt.1)
    {x : TaskSpec} (hx : x ∈ buildTasks P) {d : TaskId} (hd : d ∈ x.compl ++ x.succ) :
    d ∈ ids P ∧ levelOf P L d < levelOf P L x.id := by
  have hD : ∀ t ∈ ids P, t.path.length ≤ depthBound P := fun t ht => le_maxOf (fun t : TaskId => t.path.length) _ t ht
  have hM : ∀ pt ∈ projTests P, L pt.1 ≤ lvlBound P L := fun pt h => le_maxOf (fun pt : Path × TestSpec => L pt.1) _ pt h
  rcases mem_buildTasks.mp hx with ⟨hss, rfl | rfl⟩ | ⟨sv, hsv, hxs⟩
  · simp [ssSpec] at hd
  · simp only [stSpec, List.append_nil] at hd
    obtain ⟨s, hs, rfl⟩ := List.mem_map.mp hd
    obtain ⟨sv, hsv, hp, _⟩ := flattenSuites_root [] false s P.suites hs
    have hmem : (⟨.end_, [s.name]⟩ : TaskId) ∈ ids P := by
      have := end_mem hsv
      rw [hp] at this; exact this
    refine ⟨hmem, ?_⟩
    simp only [levelOf, beginSpec, initSpec, testSpec, tdSpec, endSpec, stSpec, lvlOf]
    omega
  · have hlen := hD _ (begin_mem hsv)
    dsimp only at hlen
    rcases mem_svAll.mp hxs with rfl | ⟨hi, rfl⟩ | ⟨t, ht, rfl⟩ | ⟨hi, rfl⟩ | rfl
    · -- beginning task: session setup, parent's beginning task
      simp only [beginSpec, List.nil_append, List.mem_append] at hd
      rcases hd with hd | hd
      · cases hss : hasSessSetup P
        · rw [hss] at hd; simp at hd
        · rw [hss] at hd
          simp only [if_true, List.mem_singleton] at hd
          subst hd
          refine ⟨List.mem_map_of_mem (mem_buildTasks.mpr (Or.inl ⟨hss, Or.inl rfl⟩)), ?_⟩
          simp only [levelOf, beginSpec, initSpec, testSpec, tdSpec, endSpec, stSpec, lvlOf]
          omega
      · rcases flattenSuites_parent P.suites [] false sv hsv with ⟨s, _, hp⟩ | ⟨sv', hsv', sub, _, hp⟩
        · rw [hp] at hd
          simp [pbFor] at hd
        · rw [hp, List.dropLast_concat] at hd
          have hne : sv'.path ≠ [] := by
            obtain ⟨s, _, rest, hr⟩ := flattenSuites_path P.suites [] false sv' hsv'
            rw [hr]; simp
          have : d = ⟨.begin, sv'.path⟩ := by
            cases hq : sv'.path with
            | nil => exact absurd hq hne
            | cons a l => rw [hq] at hd; simpa [pbFor] using hd
          subst this
          refine ⟨begin_mem hsv', ?_⟩
          simp only [levelOf, beginSpec, initSpec, testSpec, tdSpec, endSpec, stSpec, lvlOf, hp, List.length_append, List.length_singleton]
          omega
    · -- suite setup task: the beginning task
      simp only [initSpec, List.nil_append, List.mem_singleton] at hd
      subst hd
      refine ⟨begin_mem hsv, ?_⟩
      simp only [levelOf, beginSpec, initSpec, testSpec, tdSpec, endSpec, stSpec, lvlOf]
      omega
    · -- test task: suite setup (or beginning), test dependencies
      simp only [testSpec, List.nil_append, List.mem_cons] at hd
      rcases hd with rfl | hd
      · refine ⟨setupIdOf_mem hsv, ?_⟩
        unfold setupIdOf
        cases hasInit P sv <;> simp only [levelOf, beginSpec, initSpec, testSpec, tdSpec, endSpec, stSpec, lvlOf] <;> simp <;> omega
      · obtain ⟨dp, hdp, rfl⟩ := List.mem_map.mp hd
        have hpt : (sv.path ++ [t.name], t) ∈ projTests P := mem_projTests.mpr ⟨sv, hsv, t, ht, rfl⟩
        refine ⟨test_mem_of_projTests (hv.depsResolved _ hpt dp hdp), ?_⟩
        have := hL _ hpt dp hdp
        simp only [levelOf, beginSpec, initSpec, testSpec, tdSpec, endSpec, stSpec, lvlOf]
        dsimp only at this
        omega
    · -- suite teardown task: suite setup and the suite's tests
      simp only [tdSpec, List.append_nil, List.mem_cons] at hd
      rcases hd with rfl | hd
      · refine ⟨init_mem hsv hi, ?_⟩
        simp only [levelOf, beginSpec, initSpec, testSpec, tdSpec, endSpec, stSpec, lvlOf]
        omega
      · obtain ⟨t, ht, rfl⟩ := mem_testIdsOf.mp hd
        have hpt : (sv.path ++ [t.name], t) ∈ projTests P := mem_projTests.mpr ⟨sv, hsv, t, ht, rfl⟩
        refine ⟨test_mem hsv ht, ?_⟩
        have := hM _ hpt
        simp only [levelOf, beginSpec, initSpec, testSpec, tdSpec, endSpec, stSpec, lvlOf]
        dsimp only at this
        omega
    · -- suite ending task: beginning, tests, teardown, ends of the direct sub-suites
      simp only [endSpec, List.nil_append, List.cons_append, List.mem_cons, List.mem_append] at hd
      rcases hd with rfl | (hd | hd) | hd
      · refine ⟨begin_mem hsv, ?_⟩
        simp only [levelOf, beginSpec, initSpec, testSpec, tdSpec, endSpec, stSpec, lvlOf]
        omega
      · obtain ⟨t, ht, rfl⟩ := mem_testIdsOf.mp hd
        have hpt : (sv.path ++ [t.name], t) ∈ projTests P := mem_projTests.mpr ⟨sv, hsv, t, ht, rfl⟩
        refine ⟨test_mem hsv ht, ?_⟩
        have := hM _ hpt
        simp only [levelOf, beginSpec, initSpec, testSpec, tdSpec, endSpec, stSpec, lvlOf]
        dsimp only at this
        omega
      · cases hi : hasInit P sv
        · rw [hi] at hd; simp at hd
        · rw [hi] at hd
          simp only [if_true, List.mem_singleton] at hd
          subst hd
          refine ⟨teardown_mem hsv hi, ?_⟩
          simp only [levelOf, beginSpec, initSpec, testSpec, tdSpec, endSpec, stSpec, lvlOf]
          omega
      · obtain ⟨sub, hsub, rfl⟩ := List.mem_map.mp hd
        obtain ⟨sv2, hsv2, hp2, _⟩ := flattenSuites_child P.suites [] false sv hsv sub hsub
        have hmem : (⟨.end_, sv.path ++ [sub.name]⟩ : TaskId) ∈ ids P := by
          have := end_mem hsv2
          rw [hp2] at this; exact this
        refine ⟨hmem, ?_⟩
        have := hD _ hmem
        simp only [List.length_append, List.length_singleton] at this
        simp only [levelOf, beginSpec, initSpec, testSpec, tdSpec, endSpec, stSpec, lvlOf, List.length_append, List.length_singleton]
        omega

/-- **The task graph of every valid project is well-formed.** -/
theorem graphOf_wf {P : Proj} (hv : Valid P) : (graphOf P).WF := by
  obtain ⟨L, hL⟩ := hv.depsAcyclic
  refine ⟨ids_nodup hv, ?_, ⟨levelOf P L, ?_⟩⟩
  · intro t ht d hd
    obtain ⟨x, hx, rfl⟩ := List.mem_map.mp ht
    rw [deps_of_mem hv hx] at hd
    exact (edge_ok hv L hL hx hd).1
  · intro t ht d hd
    obtain ⟨x, hx, rfl⟩ := List.mem_map.mp ht
    rw [deps_of_mem hv hx] at hd
    exact (edge_ok hv L hL hx hd).2

/-! ### Further facts used by the property statements -/

/-- a suite-level task id of the graph sits at the path of a suite of the project -/
theorem suite_of_mem_ids {P : Proj} {t : TaskId} (ht : t ∈ ids P) (h1 : t.kind ≠ .test)
    (h2 : t.kind ≠ .sessSetup) (h3 : t.kind ≠ .sessTeardown) : ∃ sv ∈ allSuites P, sv.path = t.path := by
  obtain ⟨x, hx, rfl⟩ := List.mem_map.mp ht
  rcases mem_buildTasks.mp hx with ⟨_, rfl | rfl⟩ | ⟨sv, hsv, hxs⟩
  · exact absurd rfl h2
  · exact absurd rfl h3
  · rcases svAll_id hxs with ⟨hp, _⟩ | ⟨hk, _⟩
    · exact ⟨sv, hsv, hp.symm⟩
    · exact absurd hk h1

theorem nodup_of_nodup_map {α β : Type} (f : α → β) {l : List α} (h : (l.map f).Nodup) : l.Nodup := by
  unfold List.Nodup at *
  rw [List.pairwise_map] at h
  exact h.imp (fun hab heq => hab (congrArg f heq))

theorem count_eq_one {P : Proj} (hv : Valid P) {t : TaskId} (ht : t ∈ ids P) : (ids P).count t = 1 := by
  rw [(ids_nodup hv).count, if_pos ht]

/-- outside the keyboard-interrupt path no task is forced -/
theorem forced_false_of_not_aborted {g : Graph TaskId} {n : Nat} {s : State TaskId} (hr : Reachable g n s)
    (hna : s.aborted = false) (t : TaskId) : s.forced t = false := by
  cases hf : s.forced t
  · rfl
  · have := (inv_reachable hr).forcedAb t hf
    rw [hna] at this; cases this

/-! ### Suite beginning tasks, in order; suites have pairwise distinct paths -/

def isBeginId (t : TaskId) : Bool := t.kind == .begin

theorem svHead_beginIds (P : Proj) (sv : SuiteView) (pb : Option TaskId) :
    ((svHead P sv pb).map (·.id)).filter isBeginId = [⟨.begin, sv.path⟩] := by
  have hf : (testIdsOf sv).filter isBeginId = [] := by
    rw [List.filter_eq_nil_iff]
    intro a ha
    obtain ⟨t, _, rfl⟩ := mem_testIdsOf.mp ha
    simp [isBeginId]
  have hm : (sv.spec.tests.map (testSpec P sv)).map (·.id) = testIdsOf sv := by
    unfold testIdsOf; rw [List.map_map]; rfl
  unfold svHead
  cases hasInit P sv <;>
    simp [List.filter_append, hm, hf, beginSpec, initSpec, tdSpec, isBeginId]

mutual
theorem beginIds_suiteTasks (P : Proj) : ∀ (s : SuiteSpec) (parent : Path) (inh : Bool) (pb : Option TaskId),
    ((suiteTasks P parent inh pb s).map (·.id)).filter isBeginId =
      (flattenSuite parent inh s).map (fun sv => (⟨.begin, sv.path⟩ : TaskId))
  | .mk n r d ss ts st tt inj tests subs, parent, inh, pb => by
    rw [suiteTasks_eq, flattenSuite_eq, List.map_append, List.map_append, List.filter_append,
      List.filter_append, svHead_beginIds, beginIds_suitesTasks P subs, List.map_cons]
    simp [endSpec, isBeginId]
theorem beginIds_suitesTasks (P : Proj) : ∀ (ss : List SuiteSpec) (parent : Path) (inh : Bool) (pb : Option TaskId),
    ((suitesTasks P parent inh pb ss).map (·.id)).filter isBeginId =
      (flattenSuites parent inh ss).map (fun sv => (⟨.begin, sv.path⟩ : TaskId))
  | [], parent, inh, pb => by rw [suitesTasks_nil, flattenSuites_nil]; rfl
  | s :: rest, parent, inh, pb => by
    rw [suitesTasks_cons, flattenSuites_cons, List.map_append, List.filter_append, List.map_append,
      beginIds_suiteTasks P s, beginIds_suitesTasks P rest]
end

/-- the suite beginning tasks, in task-list order, are the suites of the project depth first -/
theorem ids_filter_begin (P : Proj) :
    (ids P).filter isBeginId = (allSuites P).map (fun sv => (⟨.begin, sv.path⟩ : TaskId)) := by
  unfold ids allSuites
  rw [buildTasks_eq, List.map_append, List.map_append, List.filter_append, List.filter_append,
    beginIds_suitesTasks]
  cases hasSessSetup P <;> simp [ssSpec, stSpec, isBeginId]

theorem suite_paths_nodup {P : Proj} (hv : Valid P) : ((allSuites P).map (·.path)).Nodup := by
  have h1 : ((ids P).filter isBeginId).Nodup := List.Sublist.nodup List.filter_sublist (ids_nodup hv)
  rw [ids_filter_begin] at h1
  have : (allSuites P).map (fun sv => (⟨.begin, sv.path⟩ : TaskId)) =
      ((allSuites P).map (·.path)).map (fun p => (⟨.begin, p⟩ : TaskId)) := by
    rw [List.map_map]; rfl
  rw [this] at h1
  exact nodup_of_nodup_map _ h1

theorem eq_of_nodup_map {α β : Type} (f : α → β) : ∀ {l : List α}, (l.map f).Nodup →
    ∀ {a b : α}, a ∈ l → b ∈ l → f a = f b → a = b
  | [], _, _, _, ha, _, _ => by cases ha
  | c :: l, hn, a, b, ha, hb, hab => by
    rw [List.map_cons, List.nodup_cons] at hn
    rcases List.mem_cons.mp ha with rfl | ha' <;> rcases List.mem_cons.mp hb with rfl | hb'
    · rfl
    · exact absurd (hab ▸ List.mem_map_of_mem hb') hn.1
    · exact absurd (hab ▸ List.mem_map_of_mem ha') hn.1
    · exact eq_of_nodup_map f hn.2 ha' hb' hab

/-- two suites of a valid project with the same path are the same suite -/
theorem suite_eq_of_path_eq {P : Proj} (hv : Valid P) {sv sv' : SuiteView} (h : sv ∈ allSuites P)
    (h' : sv' ∈ allSuites P) (hp : sv.path = sv'.path) : sv = sv' :=
  eq_of_nodup_map (·.path) (suite_paths_nodup hv) h h' hp

/-- the suite setup / teardown tasks exist exactly for the suites `build_suite_initialization_task`
    returns a task for -/
theorem init_mem_iff {P : Proj} (hv : Valid P) {sv : SuiteView} (hsv : sv ∈ allSuites P) :
    (⟨.init, sv.path⟩ : TaskId) ∈ ids P ↔ hasInit P sv = true := by
  constructor
  · intro h
    obtain ⟨x, hx, hid⟩ := List.mem_map.mp h
    rcases mem_buildTasks.mp hx with ⟨_, rfl | rfl⟩ | ⟨sv', hsv', hxs⟩
    · cases hid
    · cases hid
    · rcases mem_svAll.mp hxs with rfl | ⟨hi, rfl⟩ | ⟨t, _, rfl⟩ | ⟨_, rfl⟩ | rfl
      · cases hid
      · have hp : sv'.path = sv.path := by injection hid
        rw [← suite_eq_of_path_eq hv hsv' hsv hp]; exact hi
      · cases hid
      · cases hid
      · cases hid
  · exact init_mem hsv

theorem teardown_mem_iff {P : Proj} (hv : Valid P) {sv : SuiteView} (hsv : sv ∈ allSuites P) :
    (⟨.teardown, sv.path⟩ : TaskId) ∈ ids P ↔ hasInit P sv = true := by
  constructor
  · intro h
    obtain ⟨x, hx, hid⟩ := List.mem_map.mp h
    rcases mem_buildTasks.mp hx with ⟨_, rfl | rfl⟩ | ⟨sv', hsv', hxs⟩
    · cases hid
    · cases hid
    · rcases mem_svAll.mp hxs with rfl | ⟨_, rfl⟩ | ⟨t, _, rfl⟩ | ⟨hi, rfl⟩ | rfl
      · cases hid
      · cases hid
      · cases hid
      · have hp : sv'.path = sv.path := by injection hid
        rw [← suite_eq_of_path_eq hv hsv' hsv hp]; exact hi
      · cases hid
  · exact teardown_mem hsv

theorem sess_mem_iff (P : Proj) :
    ((⟨.sessSetup, []⟩ : TaskId) ∈ ids P ↔ hasSessSetup P = true) ∧
    ((⟨.sessTeardown, []⟩ : TaskId) ∈ ids P ↔ hasSessSetup P = true) := by
  have key : ∀ t : TaskId, (t.kind = .sessSetup ∨ t.kind = .sessTeardown) → t ∈ ids P → hasSessSetup P = true := by
    intro t hk ht
    obtain ⟨x, hx, rfl⟩ := List.mem_map.mp ht
    rcases mem_buildTasks.mp hx with ⟨h, _⟩ | ⟨sv, _, hxs⟩
    · exact h
    · rcases svAll_id hxs with ⟨_, _, h2, h3⟩ | ⟨h1, _⟩
      · rcases hk with hk | hk
        · exact absurd hk h2
        · exact absurd hk h3
      · rw [h1] at hk; rcases hk with hk | hk <;> cases hk
  constructor
  · exact ⟨key _ (Or.inl rfl), fun h => List.mem_map_of_mem (mem_buildTasks.mpr (Or.inl ⟨h, Or.inl rfl⟩))⟩
  · exact ⟨key _ (Or.inr rfl), fun h => List.mem_map_of_mem (mem_buildTasks.mpr (Or.inl ⟨h, Or.inr rfl⟩))⟩

/-- the tests below a list of suites: each suite's own tests in declaration order -/
def testsUnder (svs : List SuiteView) : List (Path × TestSpec) :=
  svs.flatMap (fun sv => sv.spec.tests.map (fun t => (sv.path ++ [t.name], t)))

end LccModel.TaskGraph







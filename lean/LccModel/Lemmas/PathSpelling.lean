/-
  Helper lemmas for `Props/C13Spelling.lean`: `joinPath` algebra, and the simulation between the path-keyed table of
  `Model/PathSpelling.lean` and the `Key`-keyed table of `Model/Loader.lean` (keys encoded by `enc sp`).  Core Lean only.
-/
import LccModel.Model.PathSpelling
import LccModel.Lemmas.Loader
import LccModel.Lemmas.LoaderDir

namespace LccModel.PathSpelling
open LccModel.Loader

/-! ## `joinPath` -/

/-- the prefix `os.path.join(dir, ·)` puts in front of the name -/
def pre (d : List Char) : List Char := if d = [] ∨ d.getLast? = some '/' then d else d ++ ['/']

theorem joinChars_eq (d n : List Char) : joinChars d n = pre d ++ n := by
  unfold joinChars pre
  split <;> simp

theorem slash_mem_pre {d : List Char} (h : d ≠ []) : '/' ∈ pre d := by
  unfold pre
  split
  · rename_i hc
    rcases hc with hc | hc
    · exact absurd hc h
    · exact List.mem_of_getLast? hc
  · simp

theorem toList_joinPath (sp x : String) : (joinPath sp x).toList = pre sp.toList ++ x.toList := by
  simp [joinPath, String.toList_ofList, joinChars_eq]

theorem joinPath_append (sp a b : String) : joinPath sp (a ++ b) = joinPath sp a ++ b := by
  apply String.ext
  simp [toList_joinPath, String.toList_append, List.append_assoc]

theorem joinPath_inj (sp a b : String) : joinPath sp a = joinPath sp b ↔ a = b := by
  constructor
  · intro h
    have h' := congrArg String.toList h
    rw [toList_joinPath, toList_joinPath] at h'
    exact String.toList_inj.mp (List.append_cancel_left h')
  · intro h; rw [h]

theorem str_append_right_cancel {a b c : String} (h : a ++ c = b ++ c) : a = b := by
  have h' := congrArg String.toList h
  rw [String.toList_append, String.toList_append] at h'
  exact String.toList_inj.mp (List.append_cancel_right h')

theorem slash_mem_joinPath {sp : String} (hsp : sp ≠ "") (x : String) : '/' ∈ (joinPath sp x).toList := by
  rw [toList_joinPath]
  have : sp.toList ≠ [] := fun h => hsp (String.toList_eq_nil_iff.mp h)
  exact List.mem_append_left _ (slash_mem_pre this)

theorem joinPath_ne_of_noSlash {sp : String} (hsp : sp ≠ "") (x n : String) (hn : noSlash n = true) :
    joinPath sp x ≠ n := by
  intro h
  have hm := slash_mem_joinPath hsp x
  rw [h] at hm
  simp [noSlash] at hn
  exact hn hm

theorem joinPath_ne_empty {sp : String} (hsp : sp ≠ "") (x : String) : joinPath sp x ≠ "" := by
  intro h
  have hm := slash_mem_joinPath hsp x
  rw [h] at hm
  simp at hm

/-! ## `glob`'s head against the caller's spelling -/

theorem pre_globHead_rev : ∀ r : List Char, allSlash r.reverse = false → endsDouble r.reverse = false →
    pre (globHeadChars r.reverse) = pre r.reverse := by
  intro r ha he
  simp only [globHeadChars, ha, stripTrail, List.reverse_reverse, Bool.false_eq_true, if_false]
  match r, ha, he with
  | [], _, _ => rfl
  | c :: r1, ha, he =>
    by_cases hc : c = '/'
    · subst hc
      match r1, ha, he with
      | [], ha, _ => simp [allSlash] at ha
      | c2 :: r2, _, he =>
        by_cases hc2 : c2 = '/'
        · subst hc2; simp [endsDouble] at he
        · simp [hc2, pre]
    · simp [hc]

theorem pre_globHead {l : List Char} (h : allSlash l = true ∨ endsDouble l = false) :
    pre (globHeadChars l) = pre l := by
  cases ha : allSlash l with
  | true => simp [globHeadChars, ha]
  | false =>
    rcases h with h | h
    · rw [ha] at h; cases h
    · have := pre_globHead_rev l.reverse (by rw [List.reverse_reverse]; exact ha) (by rw [List.reverse_reverse]; exact h)
      rwa [List.reverse_reverse] at this

theorem spellingOk_iff (sp : String) :
    spellingOk sp = true ↔ sp ≠ "" ∧ (allSlash sp.toList = true ∨ endsDouble sp.toList = false) := by
  simp [spellingOk, String.toList_eq_nil_iff]

theorem ne_empty_of_spellingOk {sp : String} (h : spellingOk sp = true) : sp ≠ "" := ((spellingOk_iff sp).mp h).1

/-- under an accepted spelling `glob`'s file name is `os.path.join(sp, name)` -/
theorem fileKey_eq_joinPath {sp : String} (h : spellingOk sp = true) (x : String) : fileKey sp x = joinPath sp x := by
  apply String.ext
  rw [fileKey, toList_joinPath, toList_joinPath, globHead, String.toList_ofList,
    pre_globHead ((spellingOk_iff sp).mp h).2]

theorem all_of_dropWhile_nil (p : Char → Bool) : ∀ l : List Char, l.dropWhile p = [] → ∀ x ∈ l, p x = true
  | [], _, x, hx => by cases hx
  | c :: cs, h, x, hx => by
    rw [List.dropWhile_cons] at h
    split at h
    · rename_i hc
      rcases List.mem_cons.mp hx with rfl | hx
      · exact hc
      · exact all_of_dropWhile_nil p cs h x hx
    · cases h

theorem globHeadChars_ne_nil {l : List Char} (h : l ≠ []) : globHeadChars l ≠ [] := by
  unfold globHeadChars
  split
  · exact h
  · rename_i ha
    intro he
    apply ha
    simp only [stripTrail, List.reverse_eq_nil_iff] at he
    simp only [allSlash, List.all_eq_true]
    exact fun x hx => all_of_dropWhile_nil _ _ he x (List.mem_reverse.mpr hx)

theorem globHead_ne_empty {sp : String} (h : sp ≠ "") : globHead sp ≠ "" := by
  intro he
  have := congrArg String.toList he
  rw [globHead, String.toList_ofList] at this
  exact globHeadChars_ne_nil (fun h' => h (String.toList_eq_nil_iff.mp h')) this

theorem endsDouble_append_comp {a n : List Char} (hne : n ≠ []) (hns : '/' ∉ n) : endsDouble (a ++ n) = false := by
  unfold endsDouble
  rw [List.reverse_append]
  cases hr : n.reverse with
  | nil => exact absurd (List.reverse_eq_nil_iff.mp hr) hne
  | cons c r =>
    have hc : c ≠ '/' := by
      intro h; subst h
      apply hns
      have : '/' ∈ n.reverse := by rw [hr]; exact List.mem_cons_self
      exact List.mem_reverse.mp this
    split
    · rename_i heq
      simp only [List.cons_append, List.cons.injEq] at heq
      exact absurd heq.1 hc
    · rfl

/-- the spelling handed to the recursion (`os.path.join(sp, name)`, `name` a path component) is accepted again -/
theorem spellingOk_join {sp n : String} (hsp : sp ≠ "") (hn : compOk n = true) : spellingOk (joinPath sp n) = true := by
  rw [spellingOk_iff]
  refine ⟨joinPath_ne_empty hsp n, Or.inr ?_⟩
  rw [toList_joinPath]
  simp only [compOk, noSlash, Bool.and_eq_true, Bool.not_eq_true', List.isEmpty_eq_false_iff,
    List.contains_eq_mem, decide_eq_false_iff_not] at hn
  exact endsDouble_append_comp hn.1 hn.2

theorem noSlash_of_compOk {n : String} (h : compOk n = true) : noSlash n = true := by
  simp only [compOk, Bool.and_eq_true] at h; exact h.2

/-! ## Encoding of the abstract keys as path strings -/

theorem enc_file_eq (sp dname : String) : joinPath sp dname ++ ".py" = enc sp (Key.file dname) := by
  simp [enc, joinPath_append]

theorem enc_eq_file_iff {sp : String} (hsp : sp ≠ "") {k : Key} (hk : goodKey k) (a : String) :
    enc sp k = enc sp (Key.file a) ↔ k = Key.file a := by
  cases k with
  | file s =>
    simp only [enc, joinPath_inj, Key.file.injEq]
    constructor
    · exact str_append_right_cancel
    · intro h; rw [h]
  | dir n =>
    simp only [enc, reduceCtorEq, iff_false]
    intro h
    exact joinPath_ne_of_noSlash hsp _ n hk h.symm

theorem lookup_encT {sp : String} (hsp : sp ≠ "") (a : String) : ∀ (t : Table), GoodT t →
    (encT sp t).lookup (enc sp (Key.file a)) = t.lookup (Key.file a)
  | [], _ => rfl
  | (k, s) :: rest, hg => by
    have hk : goodKey k := hg (k, s) (List.mem_cons_self)
    have ih := lookup_encT hsp a rest (fun p hp => hg p (List.mem_cons_of_mem _ hp))
    simp only [encT, List.map_cons, List.lookup_cons] at ih ⊢
    by_cases h : k = Key.file a
    · subst h; simp
    · have h' : ¬ enc sp k = enc sp (Key.file a) := fun e => h ((enc_eq_file_iff hsp hk a).mp e)
      have h1 : (enc sp (Key.file a) == enc sp k) = false := by
        simp only [beq_eq_false_iff_ne, ne_eq]; exact fun e => h' e.symm
      have h2 : (Key.file a == k) = false := by
        simp only [beq_eq_false_iff_ne, ne_eq]; exact fun e => h e.symm
      rw [h1, h2]
      exact ih

theorem update_encT {sp : String} (hsp : sp ≠ "") (a : String) (s' : Suite) : ∀ (t : Table), GoodT t →
    PTable.update (enc sp (Key.file a)) s' (encT sp t) = encT sp (Table.update (Key.file a) s' t)
  | [], _ => rfl
  | (k, s) :: rest, hg => by
    have hk : goodKey k := hg (k, s) (List.mem_cons_self)
    have ih := update_encT hsp a s' rest (fun p hp => hg p (List.mem_cons_of_mem _ hp))
    simp only [encT, List.map_cons, PTable.update, Table.update] at ih ⊢
    by_cases h : k = Key.file a
    · subst h; simp
    · have h' : ¬ enc sp k = enc sp (Key.file a) := fun e => h ((enc_eq_file_iff hsp hk a).mp e)
      rw [if_neg h', if_neg h, List.map_cons, ih]

theorem goodT_update (k : Key) (s' : Suite) : ∀ (t : Table), GoodT t → GoodT (Table.update k s' t)
  | [], _ => by intro p hp; cases hp
  | (k', s) :: rest, hg => by
    have ih := goodT_update k s' rest (fun p hp => hg p (List.mem_cons_of_mem _ hp))
    have hk : goodKey k' := hg (k', s) (List.mem_cons_self)
    unfold Table.update
    split
    · intro p hp
      rcases List.mem_cons.mp hp with rfl | hp
      · exact hk
      · exact hg p (List.mem_cons_of_mem _ hp)
    · intro p hp
      rcases List.mem_cons.mp hp with rfl | hp
      · exact hk
      · exact ih p hp

theorem goodT_snoc {t : Table} (hg : GoodT t) {n : String} (hn : noSlash n = true) (s : Suite) :
    GoodT (t ++ [(Key.dir n, s)]) := by
  intro p hp
  rcases List.mem_append.mp hp with hp | hp
  · exact hg p hp
  · simp only [List.mem_singleton] at hp
    subst hp; exact hn

theorem loadModTableAt_eq {sp : String} (hok : spellingOk sp = true) : ∀ ms : List Module,
    loadModTableAt sp ms = mapE (encT sp) (loadModTable ms)
  | [] => rfl
  | m :: rest => by
    have ih := loadModTableAt_eq hok rest
    simp only [loadModTableAt, loadModTable]
    cases loadFile m with
    | error e => rfl
    | ok s =>
      simp only [ih]
      cases loadModTable rest with
      | error e => rfl
      | ok t =>
        simp only [mapE]
        by_cases hh : s.hidden = true <;> simp [hh, encT, enc, fileKey_eq_joinPath hok]

theorem loadModTable_good : ∀ (ms : List Module) (t : Table), loadModTable ms = .ok t → GoodT t
  | [], t, h => by
    simp only [loadModTable, Except.ok.injEq] at h; subst h; intro p hp; cases hp
  | m :: rest, t, h => by
    simp only [loadModTable] at h
    cases hf : loadFile m with
    | error e => simp [hf] at h
    | ok s =>
      cases hr : loadModTable rest with
      | error e => simp [hf, hr] at h
      | ok t0 =>
        have ih := loadModTable_good rest t0 hr
        simp only [hf, hr, Except.ok.injEq] at h
        subst h
        split
        · exact ih
        · intro p hp
          rcases List.mem_cons.mp hp with rfl | hp
          · trivial
          · exact ih p hp

/-- **One level**: the second loop on the path-keyed dict is the second loop on the `Key`-keyed dict, encoded. -/
theorem mergeDirsAt_eq {sp : String} (hsp : sp ≠ "") :
    ∀ (rs : List (String × Except LoadErr (List Suite))) (t : Table), GoodT t → (∀ p ∈ rs, noSlash p.1 = true) →
      mergeDirsAt sp (encT sp t) rs = mapE (encT sp) (mergeDirs t rs)
  | [], t, _, _ => rfl
  | (dname, r) :: rest, t, hg, hrs => by
    have hd : noSlash dname = true := hrs (dname, r) List.mem_cons_self
    have hrest : ∀ p ∈ rest, noSlash p.1 = true := fun p hp => hrs p (List.mem_cons_of_mem _ hp)
    simp only [mergeDirsAt, mergeDirs]
    cases r with
    | error e => rfl
    | ok subs =>
      simp only [enc_file_eq, lookup_encT hsp dname t hg]
      cases hl : t.lookup (Key.file dname) with
      | some s =>
        simp only
        cases ha : attach s subs with
        | error e => rfl
        | ok s' =>
          simp only
          rw [update_encT hsp dname s' t hg]
          exact mergeDirsAt_eq hsp rest _ (goodT_update _ _ t hg) hrest
      | none =>
        simp only
        cases ha : attach (synthetic dname) subs with
        | error e => rfl
        | ok s' =>
          simp only
          have : encT sp t ++ [(dname, s')] = encT sp (t ++ [(Key.dir dname, s')]) := by
            simp [encT, enc]
          rw [this]
          exact mergeDirsAt_eq hsp rest _ (goodT_snoc hg hd s') hrest

theorem map_snd_encT (sp : String) (t : Table) : (encT sp t).map Prod.snd = t.map Prod.snd := by
  simp [encT, List.map_map, Function.comp_def]

theorem names_of_namesOkList : ∀ (ds : List Dir), namesOkList ds = true → ∀ d ∈ ds, compOk d.name = true
  | [], _, d, hd => by cases hd
  | d0 :: ds, h, d, hd => by
    simp only [namesOkList, Bool.and_eq_true] at h
    rcases List.mem_cons.mp hd with rfl | hd
    · exact h.1.1
    · exact names_of_namesOkList ds h.2 d hd

theorem all_stems_stripModules (f : String → Bool) : ∀ ms : List Module,
    (stripModules ms).all (fun m => f m.stem) = ms.all (fun m => f m.stem)
  | [] => rfl
  | m :: ms => by
    simp only [stripModules, List.all_cons, all_stems_stripModules f ms, stripModule]

theorem name_stripDir : ∀ d : Dir, (stripDir d).name = d.name
  | .mk _ _ _ => by simp only [stripDir, Dir.name]

mutual
theorem namesOk_stripDir : ∀ d : Dir, namesOk (stripDir d) = namesOk d
  | .mk n mods dirs => by
    simp only [stripDir, namesOk, all_stems_stripModules, namesOkList_stripDirs dirs]
theorem namesOkList_stripDirs : ∀ ds : List Dir, namesOkList (stripDirs ds) = namesOkList ds
  | [] => rfl
  | d :: ds => by
    simp only [stripDirs, namesOkList, name_stripDir, namesOk_stripDir d, namesOkList_stripDirs ds]
end

end LccModel.PathSpelling

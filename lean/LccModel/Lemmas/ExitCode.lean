/-
  Lemmas for `Props/C02Exit.lean`: `Report.all_results()` (through the rank-sorted accessors) enumerates
  exactly the results stored in the report tree (`ExitCode.rawResults`), up to order.
-/
import LccModel.Model.ExitCode
import LccModel.Lemmas.Sort
import LccModel.Lemmas.Views

namespace LccModel.ExitCode
open LccModel.Report LccModel.Writer

/-- what one suite contributes to `flatten_results` -/
def own (s : SuiteResult) : List AnyResult :=
  optPhase s.setup ++ s.tests.map AnyResult.test ++ optPhase s.teardown

theorem flattenResults_eq (ss : List SuiteResult) : flattenResults ss = (flattenSuites ss).flatMap own := rfl

theorem flatMap_own_sorted (ss : List SuiteResult) :
    ((flattenSuites (sortByRank suiteRank ss)).flatMap own).Perm ((flattenSuites ss).flatMap own) :=
  Views.flatMap_perm _ (Views.flattenSuites_perm (sortByRank_perm suiteRank ss))

mutual
theorem suite_perm : ∀ s : SuiteResult, ((flattenSuite (sortDeep s)).flatMap own).Perm (rawSuite s)
  | .mk md st en su td ts ss => by
    rw [sortDeep, flattenSuite, List.flatMap_cons, rawSuite]
    refine List.Perm.append ?_ ((flatMap_own_sorted _).trans (suites_perm ss))
    show (optPhase su ++ (sortByRank testRank ts).map AnyResult.test ++ optPhase td).Perm _
    exact List.Perm.append_right _ (List.Perm.append_left _ ((sortByRank_perm testRank ts).map _))
theorem suites_perm : ∀ ss : List SuiteResult, ((flattenSuites (sortDeepList ss)).flatMap own).Perm (rawSuites ss)
  | [] => by rw [sortDeepList, flattenSuites, rawSuites]; exact List.Perm.refl _
  | s :: ss => by
    rw [sortDeepList, flattenSuites, List.flatMap_append, rawSuites]
    exact List.Perm.append (suite_perm s) (suites_perm ss)
end

/-- **`Report.all_results()` is a permutation of the results stored in the tree.** -/
theorem allResults_perm (r : Report) : (allResults r).Perm (rawResults r) := by
  unfold allResults rawResults view
  rw [flattenResults_eq]
  exact List.Perm.append_right _ (List.Perm.append_left _ ((flatMap_own_sorted _).trans (suites_perm r.suites)))

theorem mem_allResults (r : Report) (a : AnyResult) : a ∈ allResults r ↔ a ∈ rawResults r :=
  (allResults_perm r).mem_iff

theorem statusOk_iff (o : Option Status) : statusOk o = true ↔ o = some .passed ∨ o = some .disabled := by
  cases o with
  | none => simp [statusOk]
  | some s => cases s <;> simp [statusOk]

theorem mem_rawTests (r : Report) (t : TestResult) : t ∈ rawTests r ↔ AnyResult.test t ∈ rawResults r := by
  unfold rawTests
  rw [List.mem_filterMap]
  constructor
  · rintro ⟨a, ha, h⟩
    cases a with
    | phase p => simp at h
    | test u => simp at h; subst h; exact ha
  · intro h; exact ⟨_, h, rfl⟩

theorem mem_rawPhases (r : Report) (p : Result) : p ∈ rawPhases r ↔ AnyResult.phase p ∈ rawResults r := by
  unfold rawPhases
  rw [List.mem_filterMap]
  constructor
  · rintro ⟨a, ha, h⟩
    cases a with
    | test u => simp at h
    | phase q => simp at h; subst h; exact ha
  · intro h; exact ⟨_, h, rfl⟩

/-! ### sample reports for the non-vacuity examples of `Props/C02Exit.lean` -/
namespace Sample

def res (st : Status) : Result := { steps := [], startTime := some 1, endTime := some 2, status := some st, statusDetails := none }
def md (n : String) (rk : Nat) : Meta := { name := n, description := n, tags := [], properties := [], links := [], rank := rk }

/-- all tests passed (one disabled), the suite teardown failed — the shape of the seeded change C02-3 -/
def teardownOnly : Report :=
  { Report.empty with
    suites := [.mk (md "s" 1) (some 1) (some 2) (some (res .passed)) (some (res .failed))
                 [⟨md "b" 2, res .disabled⟩, ⟨md "a" 1, res .passed⟩] []] }

/-- a fully successful report with a disabled test and passed phases: exit code 0 -/
def good : Report :=
  { Report.empty with
    setup := some (res .passed), teardown := some (res .passed)
    suites := [.mk (md "s" 1) (some 1) (some 2) none (some (res .passed)) [⟨md "a" 1, res .passed⟩, ⟨md "b" 2, res .disabled⟩]
                 [.mk (md "u" 1) (some 1) (some 2) none none [⟨md "c" 1, res .passed⟩] []]] }

/-- a test still running: status `None` -/
def unfinished : Report :=
  { Report.empty with suites := [.mk (md "s" 1) (some 1) none none none
      [⟨md "a" 1, { steps := [], startTime := some 1, endTime := none, status := none, statusDetails := none }⟩] []] }

end Sample

end LccModel.ExitCode

/-
  C05 helpers, part 1: what the rank-sorted accessors remove.

  * `insertByRank_comm`, `sortByRank_eq_of_perm`: under pairwise distinct ranks the stable sort does not depend on the
    order of its input (uniqueness of the sorted permutation);
  * `SameSuite` / `SameSuites` / `SameContent`: two reports with the same content whose children lists are, at every level,
    permutations of each other (an equivalence relation);
  * `distinctRanksSuite(s)` / `DistinctSiblingRanks`: no two sibling tests and no two sibling suites share a rank;
  * `view_eq_of_sameContent`: `SameContent r₁ r₂ → DistinctSiblingRanks r₁ → view r₁ = view r₂`.
-/
import LccModel.Lemmas.Sort
namespace LccModel.Writer
open LccModel.Report

theorem insertByRank_comm {α : Type} (rank : α → Nat) (x y : α) (h : rank x ≠ rank y) :
    ∀ l : List α, insertByRank rank x (insertByRank rank y l) = insertByRank rank y (insertByRank rank x l)
  | [] => by
    simp only [insertByRank]
    by_cases h1 : rank x ≤ rank y <;> by_cases h2 : rank y ≤ rank x <;> simp [h1, h2] <;> omega
  | z :: zs => by
    have ih := insertByRank_comm rank x y h zs
    simp only [insertByRank]
    by_cases h1 : rank x ≤ rank z <;> by_cases h2 : rank y ≤ rank z <;> by_cases h3 : rank x ≤ rank y <;>
      by_cases h4 : rank y ≤ rank x <;> simp [insertByRank, h1, h2, h3, h4, ih] <;> omega

theorem sortByRank_eq_of_perm {α : Type} (rank : α → Nat) {l₁ l₂ : List α} (hp : l₁.Perm l₂) :
    (l₁.map rank).Nodup → sortByRank rank l₁ = sortByRank rank l₂ := by
  induction hp with
  | nil => intro _; rfl
  | cons x _ ih =>
    intro hn
    simp only [sortByRank]
    rw [ih (by simpa using (List.nodup_cons.mp (by simpa using hn)).2)]
  | swap x y l =>
    intro hn
    simp only [sortByRank]
    have : rank y ≠ rank x := by
      simp only [List.map_cons, List.nodup_cons, List.mem_cons, not_or] at hn
      exact hn.1.1
    exact insertByRank_comm rank y x this _
  | trans h1 _ ih1 ih2 =>
    intro hn
    rw [ih1 hn, ih2 ((h1.map rank).nodup_iff.mp hn)]

mutual
inductive SameSuite : SuiteResult → SuiteResult → Prop
  | mk (md : Meta) (st en : Option Time) (su td : Option Result) {ts ts' : List TestResult} {ss ss' : List SuiteResult} :
      ts.Perm ts' → SameSuites ss ss' → SameSuite (.mk md st en su td ts ss) (.mk md st en su td ts' ss')
inductive SameSuites : List SuiteResult → List SuiteResult → Prop
  | nil : SameSuites [] []
  | cons {s s' : SuiteResult} {l l' : List SuiteResult} : SameSuite s s' → SameSuites l l' → SameSuites (s :: l) (s' :: l')
  | swap (a b : SuiteResult) (l : List SuiteResult) : SameSuites (a :: b :: l) (b :: a :: l)
  | trans {l₁ l₂ l₃ : List SuiteResult} : SameSuites l₁ l₂ → SameSuites l₂ l₃ → SameSuites l₁ l₃
end

/-- simultaneous induction over the two relations -/
theorem SameSuite.mutual_ind {P : SuiteResult → SuiteResult → Prop} {Q : List SuiteResult → List SuiteResult → Prop}
    (mk : ∀ (md : Meta) (st en : Option Time) (su td : Option Result) (ts ts' : List TestResult) (ss ss' : List SuiteResult),
      ts.Perm ts' → SameSuites ss ss' → Q ss ss' → P (.mk md st en su td ts ss) (.mk md st en su td ts' ss'))
    (nil : Q [] [])
    (cons : ∀ (s s' : SuiteResult) (l l' : List SuiteResult), SameSuite s s' → SameSuites l l' → P s s' → Q l l' → Q (s :: l) (s' :: l'))
    (swap : ∀ (a b : SuiteResult) (l : List SuiteResult), Q (a :: b :: l) (b :: a :: l))
    (trans : ∀ (l₁ l₂ l₃ : List SuiteResult), SameSuites l₁ l₂ → SameSuites l₂ l₃ → Q l₁ l₂ → Q l₂ l₃ → Q l₁ l₃) :
    (∀ s s', SameSuite s s' → P s s') ∧ (∀ l l', SameSuites l l' → Q l l') :=
  ⟨fun _ _ h => SameSuite.rec (motive_1 := fun s s' _ => P s s') (motive_2 := fun l l' _ => Q l l')
      (fun md st en su td ts ts' ss ss' a b ih => mk md st en su td ts ts' ss ss' a b ih) nil
      (fun a b ih1 ih2 => cons _ _ _ _ a b ih1 ih2) swap (fun a b ih1 ih2 => trans _ _ _ a b ih1 ih2) h,
   fun _ _ h => SameSuites.rec (motive_1 := fun s s' _ => P s s') (motive_2 := fun l l' _ => Q l l')
      (fun md st en su td ts ts' ss ss' a b ih => mk md st en su td ts ts' ss ss' a b ih) nil
      (fun a b ih1 ih2 => cons _ _ _ _ a b ih1 ih2) swap (fun a b ih1 ih2 => trans _ _ _ a b ih1 ih2) h⟩

/-- induction over the list relation alone -/
theorem SameSuites.ind {Q : List SuiteResult → List SuiteResult → Prop}
    (nil : Q [] [])
    (cons : ∀ (s s' : SuiteResult) (l l' : List SuiteResult), SameSuite s s' → SameSuites l l' → Q l l' → Q (s :: l) (s' :: l'))
    (swap : ∀ (a b : SuiteResult) (l : List SuiteResult), Q (a :: b :: l) (b :: a :: l))
    (trans : ∀ (l₁ l₂ l₃ : List SuiteResult), SameSuites l₁ l₂ → SameSuites l₂ l₃ → Q l₁ l₂ → Q l₂ l₃ → Q l₁ l₃)
    {l l' : List SuiteResult} (h : SameSuites l l') : Q l l' :=
  (SameSuite.mutual_ind (P := fun _ _ => True) (fun _ _ _ _ _ _ _ _ _ _ _ _ => trivial) nil
    (fun s s' l l' a b _ ih => cons s s' l l' a b ih) swap trans).2 l l' h

mutual
theorem SameSuite.refl : ∀ s : SuiteResult, SameSuite s s
  | .mk md st en su td ts ss => .mk md st en su td (List.Perm.refl ts) (SameSuites.refl ss)
theorem SameSuites.refl : ∀ l : List SuiteResult, SameSuites l l
  | [] => .nil
  | s :: l => .cons (SameSuite.refl s) (SameSuites.refl l)
end

theorem SameSuite.symm_both : (∀ s s', SameSuite s s' → SameSuite s' s) ∧ (∀ l l', SameSuites l l' → SameSuites l' l) :=
  SameSuite.mutual_ind (P := fun s s' => SameSuite s' s) (Q := fun l l' => SameSuites l' l)
    (fun md st en su td _ _ _ _ hp _ ih => .mk md st en su td hp.symm ih)
    .nil (fun _ _ _ _ _ _ ih1 ih2 => .cons ih1 ih2) (fun a b l => .swap b a l)
    (fun _ _ _ _ _ ih1 ih2 => .trans ih2 ih1)

theorem SameSuite.symm {s s' : SuiteResult} (h : SameSuite s s') : SameSuite s' s := SameSuite.symm_both.1 _ _ h
theorem SameSuites.symm {l l' : List SuiteResult} (h : SameSuites l l') : SameSuites l' l := SameSuite.symm_both.2 _ _ h

theorem SameSuite.trans {a b c : SuiteResult} (h1 : SameSuite a b) (h2 : SameSuite b c) : SameSuite a c := by
  cases h1 with
  | mk md st en su td hp hs =>
    cases h2 with
    | mk _ _ _ _ _ hp' hs' => exact .mk md st en su td (hp.trans hp') (hs.trans hs')

theorem SameSuites.of_perm {l l' : List SuiteResult} (h : l.Perm l') : SameSuites l l' := by
  induction h with
  | nil => exact .nil
  | cons x _ ih => exact .cons (SameSuite.refl x) ih
  | swap x y l => exact .swap y x l
  | trans _ _ ih1 ih2 => exact .trans ih1 ih2

theorem SameSuite.md_eq {s s' : SuiteResult} (h : SameSuite s s') : s.md = s'.md := by cases h; rfl

/-- Same report-level fields; the top-level suites are a permutation of each other up to `SameSuite`. -/
structure SameContent (r₁ r₂ : Report) : Prop where
  title : r₁.title = r₂.title
  info : r₁.info = r₂.info
  nbThreads : r₁.nbThreads = r₂.nbThreads
  startTime : r₁.startTime = r₂.startTime
  endTime : r₁.endTime = r₂.endTime
  savingTime : r₁.savingTime = r₂.savingTime
  setup : r₁.setup = r₂.setup
  teardown : r₁.teardown = r₂.teardown
  suites : SameSuites r₁.suites r₂.suites

theorem SameContent.refl (r : Report) : SameContent r r :=
  ⟨rfl, rfl, rfl, rfl, rfl, rfl, rfl, rfl, SameSuites.refl _⟩
theorem SameContent.symm {r₁ r₂ : Report} (h : SameContent r₁ r₂) : SameContent r₂ r₁ :=
  ⟨h.1.symm, h.2.symm, h.3.symm, h.4.symm, h.5.symm, h.6.symm, h.7.symm, h.8.symm, h.9.symm⟩
theorem SameContent.trans {r₁ r₂ r₃ : Report} (h : SameContent r₁ r₂) (h' : SameContent r₂ r₃) : SameContent r₁ r₃ :=
  ⟨h.1.trans h'.1, h.2.trans h'.2, h.3.trans h'.3, h.4.trans h'.4, h.5.trans h'.5, h.6.trans h'.6, h.7.trans h'.7,
   h.8.trans h'.8, h.9.trans h'.9⟩

/-! ### distinct sibling ranks -/

mutual
/-- no two tests of the suite share a rank, no two sub-suites share a rank, recursively -/
def distinctRanksSuite : SuiteResult → Bool
  | .mk _ _ _ _ _ ts ss =>
    decide (ts.map testRank).Nodup && decide (ss.map suiteRank).Nodup && distinctRanksSuites ss
def distinctRanksSuites : List SuiteResult → Bool
  | [] => true
  | s :: ss => distinctRanksSuite s && distinctRanksSuites ss
end

/-- what `DistinctSiblingRanks` of the design means on a report: at every level sibling ranks are pairwise distinct -/
def DistinctSiblingRanks (r : Report) : Prop :=
  (r.suites.map suiteRank).Nodup ∧ distinctRanksSuites r.suites = true

instance (r : Report) : Decidable (DistinctSiblingRanks r) := by unfold DistinctSiblingRanks; exact inferInstance

theorem suiteRank_sortDeep (s : SuiteResult) : suiteRank (sortDeep s) = suiteRank s := by
  cases s; simp [sortDeep, suiteRank, SuiteResult.md]

theorem map_suiteRank_sortDeepList : ∀ l : List SuiteResult, (sortDeepList l).map suiteRank = l.map suiteRank
  | [] => rfl
  | s :: l => by simp [sortDeepList, suiteRank_sortDeep, map_suiteRank_sortDeepList l]

theorem sortDeep_eq_both :
    (∀ s s', SameSuite s s' → distinctRanksSuite s = true → sortDeep s = sortDeep s' ∧ distinctRanksSuite s' = true) ∧
    (∀ l l', SameSuites l l' → distinctRanksSuites l = true →
      (sortDeepList l).Perm (sortDeepList l') ∧ distinctRanksSuites l' = true ∧ (l.map suiteRank).Perm (l'.map suiteRank)) := by
  apply SameSuite.mutual_ind
  · intro md st en su td ts ts' ss ss' hp hs ih hd
    simp only [distinctRanksSuite, Bool.and_eq_true, decide_eq_true_eq] at hd ⊢
    obtain ⟨⟨hts, hss⟩, hrec⟩ := hd
    obtain ⟨ih1, ih2, ih3⟩ := ih hrec
    refine ⟨?_, ⟨(hp.map testRank).nodup_iff.mp hts, ih3.nodup_iff.mp hss⟩, ih2⟩
    simp only [sortDeep]
    rw [sortByRank_eq_of_perm testRank hp hts,
      sortByRank_eq_of_perm suiteRank ih1 (by rw [map_suiteRank_sortDeepList]; exact hss)]
  · intro _; exact ⟨List.Perm.refl _, rfl, List.Perm.refl _⟩
  · intro s s' l l' hs _ ih1 ih2 hd
    simp only [distinctRanksSuites, Bool.and_eq_true] at hd ⊢
    obtain ⟨e1, d1⟩ := ih1 hd.1
    obtain ⟨p2, d2, r2⟩ := ih2 hd.2
    refine ⟨?_, ⟨d1, d2⟩, ?_⟩
    · simp only [sortDeepList, e1]; exact p2.cons _
    · simp only [List.map_cons, suiteRank, hs.md_eq]; exact r2.cons _
  · intro a b l hd
    simp only [distinctRanksSuites, Bool.and_eq_true] at hd ⊢
    exact ⟨by simp only [sortDeepList]; exact List.Perm.swap _ _ _, ⟨hd.2.1, hd.1, hd.2.2⟩, List.Perm.swap _ _ _⟩
  · intro l₁ l₂ l₃ _ _ ih1 ih2 hd
    obtain ⟨p1, d1, r1⟩ := ih1 hd
    obtain ⟨p2, d2, r2⟩ := ih2 d1
    exact ⟨p1.trans p2, d2, r1.trans r2⟩

/-- **The rank-sorted view does not see insertion order**: two reports with the same content (children permuted at any
    level) whose sibling ranks are pairwise distinct have the same deep rank-sorted view. -/
theorem view_eq_of_sameContent {r₁ r₂ : Report} (h : SameContent r₁ r₂) (hd : DistinctSiblingRanks r₁) :
    view r₁ = view r₂ := by
  obtain ⟨p, _, _⟩ := sortDeep_eq_both.2 _ _ h.suites hd.2
  unfold view
  exact sortByRank_eq_of_perm suiteRank p (by rw [map_suiteRank_sortDeepList]; exact hd.1)

theorem DistinctSiblingRanks.of_sameContent {r₁ r₂ : Report} (h : SameContent r₁ r₂) (hd : DistinctSiblingRanks r₁) :
    DistinctSiblingRanks r₂ := by
  obtain ⟨_, d, rk⟩ := sortDeep_eq_both.2 _ _ h.suites hd.2
  exact ⟨rk.nodup_iff.mp hd.1, d⟩

end LccModel.Writer

import LccModel.Model.RunSeq
import LccModel.Lemmas.ReportDir

namespace LccModel.RunSeq
open LccModel.ReportDir

/-! ### the M11 part of a run history is an M11 history -/

theorem rd_runOps_append : ∀ (a b : List ReportDir.Op) (s s1 s2 : ReportDir.St),
    ReportDir.runOps s a = some s1 → ReportDir.runOps s1 b = some s2 → ReportDir.runOps s (a ++ b) = some s2 := by
  intro a
  induction a with
  | nil => intro b s s1 s2 h1 h2; simp only [ReportDir.runOps] at h1; cases h1; exact h2
  | cons op ops ih =>
    intro b s s1 s2 h1 h2
    simp only [ReportDir.runOps, List.cons_append] at h1 ⊢
    cases hs : ReportDir.step s op with
    | none => rw [hs] at h1; cases h1
    | some s' => rw [hs] at h1; simp only; exact ih b s' s1 s2 h1 h2

theorem rd_run_next {l : Option Nat} {s s' : ReportDir.St} (h : ReportDir.run l s = some s') :
    s'.next = s.next + 1 ∧ s'.current = some s.next := by
  unfold ReportDir.run at h
  cases hc : s.current with
  | none => rw [hc] at h; injection h with h; subst h; exact ⟨rfl, rfl⟩
  | some m =>
    rw [hc] at h; dsimp only at h
    cases hr : rotateDirs (s.hi + 1) (removeObsolete l s.arch) with
    | none => rw [hr] at h; cases h
    | some a => rw [hr] at h; injection h with h; subst h; exact ⟨rfl, rfl⟩

/-- what `createDir` does to the M11 state -/
theorem createDir_fs {c : Cfg} {s s1 : St} {d : Option DirRef} (h : createDir c s = some (s1, d)) :
    (explicitTarget c.cli c.env = none ∧ ReportDir.run c.impl.limit s.fs = some s1.fs ∧ d = some (.fs s.fs.next)) ∨
    (∃ k, explicitTarget c.cli c.env = some (.other k) ∧ s1.fs = s.fs ∧ ∀ m, d ≠ some (.fs m)) ∨
    (explicitTarget c.cli c.env ≠ none ∧ (∀ k, explicitTarget c.cli c.env ≠ some (.other k)) ∧
      ((s.fs.current.isSome = true ∧ s1 = s ∧ d = none) ∨
       (s.fs.current = none ∧ ReportDir.run none s.fs = some s1.fs ∧ d = some (.fs s.fs.next)))) := by
  unfold createDir at h
  split at h
  · rename_i he
    cases hr : ReportDir.run c.impl.limit s.fs with
    | none => rw [hr] at h; cases h
    | some fs' => rw [hr] at h; cases h; exact Or.inl ⟨he, rfl, rfl⟩
  · rename_i k he
    refine Or.inr (Or.inl ⟨k, he, ?_⟩)
    split at h <;> cases h <;> exact ⟨rfl, by intro m hm; cases hm⟩
  · rename_i t hno he
    refine Or.inr (Or.inr ⟨by rw [he]; simp, fun k hk => hno k (by rw [he] at hk; cases hk; rfl), ?_⟩)
    split at h
    · rename_i p hc
      cases h; exact Or.inl ⟨by rw [hc]; rfl, rfl, rfl⟩
    · rename_i hc
      cases hr : ReportDir.run none s.fs with
      | none => rw [hr] at h; cases h
      | some fs' => rw [hr] at h; cases h; exact Or.inr ⟨hc, rfl, rfl⟩

theorem fill_fs (d : DirRef) (s : St) : (fill d s).fs = s.fs := by cases d <;> rfl

/-- what `run` does to the M11 state: exactly the projected operations -/
theorem run_project {c : Cfg} {s s' : St} (h : run c s = some s') :
    ReportDir.runOps s.fs (project s (.run c)) = some s'.fs := by
  unfold run at h
  unfold project
  split at h
  · rename_i hf; cases h; simp [hf, ReportDir.runOps]
  · rename_i fate hf
    have hf' : c.fate ≠ .failsBefore := hf
    cases hcd : createDir c s with
    | none => rw [hcd] at h; cases h
    | some p =>
      obtain ⟨s1, d⟩ := p
      rw [hcd] at h
      have hfs : s'.fs = s1.fs := by
        cases d with
        | none => cases h; rfl
        | some d => simp only at h; split at h <;> cases h <;> simp [fill_fs]
      rcases createDir_fs hcd with ⟨he, hr, _⟩ | ⟨k, he, hs1, _⟩ | ⟨hne, hno, hcase⟩
      · cases hfate : c.fate <;> simp_all [ReportDir.runOps, ReportDir.step]
      · cases hfate : c.fate <;> simp_all [ReportDir.runOps]
      · cases het : explicitTarget c.cli c.env with
        | none => exact absurd het hne
        | some t =>
          cases t with
          | other k => exact absurd het (hno k)
          | empty =>
            rcases hcase with ⟨hc, hs1, _⟩ | ⟨hc, hr, _⟩
            · cases hfate : c.fate <;> simp_all [ReportDir.runOps]
            · cases hfate : c.fate <;> simp_all [ReportDir.runOps, ReportDir.step]
          | defaultLoc =>
            rcases hcase with ⟨hc, hs1, _⟩ | ⟨hc, hr, _⟩
            · cases hfate : c.fate <;> simp_all [ReportDir.runOps]
            · cases hfate : c.fate <;> simp_all [ReportDir.runOps, ReportDir.step]

theorem step_project {s s' : St} {op : Op} (h : step s op = some s') :
    ReportDir.runOps s.fs (project s op) = some s'.fs := by
  cases op with
  | run c => exact run_project h
  | delete n => simp only [step] at h; cases h; simp [project, ReportDir.runOps, ReportDir.step]
  | deleteCurrent => simp only [step] at h; cases h; simp [project, ReportDir.runOps, ReportDir.step]
  | deleteOther k => simp only [step] at h; cases h; simp [project, ReportDir.runOps]

/-- the M11 operations a whole run history amounts to -/
def projectAll : St → List Op → List ReportDir.Op
  | _, [] => []
  | s, op :: ops => project s op ++ (match step s op with
    | none => []
    | some s' => projectAll s' ops)

theorem runOps_project : ∀ (ops : List Op) (s s' : St), runOps s ops = some s' →
    ReportDir.runOps s.fs (projectAll s ops) = some s'.fs := by
  intro ops
  induction ops with
  | nil => intro s s' h; simp only [runOps] at h; cases h; rfl
  | cons op ops ih =>
    intro s s' h
    simp only [runOps] at h
    cases hs : step s op with
    | none => rw [hs] at h; cases h
    | some s1 =>
      rw [hs] at h
      simp only [projectAll, hs]
      exact rd_runOps_append _ _ _ _ _ (step_project hs) (ih s1 s' h)

/-! ### invariant of the run-level state -/

structure Inv (s : St) : Prop where
  fs         : ReportDir.Inv s.fs
  freshEmpty : ∀ m, s.fs.next ≤ m → s.filled m = false
  ofresh     : ∀ m, s.onext ≤ m → s.ofilled m = false
  otherLt    : ∀ k m, s.other k = some m → m < s.onext

theorem inv_init : Inv init := by
  constructor
  · exact ReportDir.inv_init
  · intro m _; rfl
  · intro m _; rfl
  · intro k m h; simp [init] at h

theorem createDir_inv {c : Cfg} {s s1 : St} {d : Option DirRef} (hinv : Inv s) (h : createDir c s = some (s1, d)) :
    Inv s1 ∧ s1.filled = s.filled ∧ s1.ofilled = s.ofilled ∧
    (∀ m, d = some (.fs m) → m = s.fs.next ∧ s1.fs.next = s.fs.next + 1 ∧ s1.fs.current = some m ∧ s1.onext = s.onext) ∧
    (∀ m, d = some (.ext m) → m = s.onext ∧ s1.onext = s.onext + 1 ∧ s1.fs = s.fs) ∧
    (d = none → s1 = s) := by
  unfold createDir at h
  split at h
  · cases hr : ReportDir.run c.impl.limit s.fs with
    | none => rw [hr] at h; cases h
    | some fs' =>
      rw [hr] at h; cases h
      obtain ⟨hn, hc⟩ := rd_run_next hr
      refine ⟨⟨ReportDir.run_inv _ _ _ hinv.fs hr, ?_, hinv.ofresh, hinv.otherLt⟩, rfl, rfl, ?_, ?_, ?_⟩
      · intro m hm; exact hinv.freshEmpty m (by simp only at hm; omega)
      · intro m hm; cases hm; exact ⟨rfl, hn, hc, rfl⟩
      · intro m hm; cases hm
      · intro hd; cases hd
  · rename_i k _
    split at h
    · cases h
      exact ⟨hinv, rfl, rfl, (fun m hm => by cases hm), (fun m hm => by cases hm), fun _ => rfl⟩
    · cases h
      refine ⟨⟨hinv.fs, hinv.freshEmpty, ?_, ?_⟩, rfl, rfl, ?_, ?_, ?_⟩
      · intro m hm; exact hinv.ofresh m (by simp only at hm; omega)
      · intro j m hm
        simp only at hm
        by_cases hj : j = k
        · simp only [hj, if_true] at hm; cases hm; simp only; omega
        · simp only [hj, if_false] at hm; have := hinv.otherLt j m hm; simp only; omega
      · intro m hm; cases hm
      · intro m hm; cases hm; exact ⟨rfl, rfl, rfl⟩
      · intro hd; cases hd
  · split at h
    · cases h
      exact ⟨hinv, rfl, rfl, (fun m hm => by cases hm), (fun m hm => by cases hm), fun _ => rfl⟩
    · cases hr : ReportDir.run none s.fs with
      | none => rw [hr] at h; cases h
      | some fs' =>
        rw [hr] at h; cases h
        obtain ⟨hn, hc⟩ := rd_run_next hr
        refine ⟨⟨ReportDir.run_inv _ _ _ hinv.fs hr, ?_, hinv.ofresh, hinv.otherLt⟩, rfl, rfl, ?_, ?_, ?_⟩
        · intro m hm; exact hinv.freshEmpty m (by simp only at hm; omega)
        · intro m hm; cases hm; exact ⟨rfl, hn, hc, rfl⟩
        · intro m hm; cases hm
        · intro hd; cases hd

theorem fill_inv {s : St} {d : DirRef} (hinv : Inv s)
    (hd : match d with
      | .fs m => m < s.fs.next
      | .ext m => m < s.onext) : Inv (fill d s) := by
  cases d with
  | fs m =>
    simp only at hd
    refine ⟨hinv.fs, ?_, hinv.ofresh, hinv.otherLt⟩
    intro j hj
    have : j ≠ m := by simp only [fill] at hj; omega
    simp only [fill, this, if_false]
    exact hinv.freshEmpty j hj
  | ext m =>
    simp only at hd
    refine ⟨hinv.fs, hinv.freshEmpty, ?_, hinv.otherLt⟩
    intro j hj
    have : j ≠ m := by simp only [fill] at hj; omega
    simp only [fill, this, if_false]
    exact hinv.ofresh j hj

theorem run_inv {c : Cfg} {s s' : St} (hinv : Inv s) (h : run c s = some s') : Inv s' := by
  unfold run at h
  split at h
  · cases h; exact hinv
  · cases hcd : createDir c s with
    | none => rw [hcd] at h; cases h
    | some p =>
      obtain ⟨s1, d⟩ := p
      rw [hcd] at h
      obtain ⟨hinv1, _, _, hfs, hext, _⟩ := createDir_inv hinv hcd
      cases d with
      | none => cases h; exact hinv1
      | some d =>
        simp only at h
        split at h
        · cases h
          apply fill_inv hinv1
          cases d with
          | fs m => obtain ⟨hm, hn, _⟩ := hfs m rfl; simp only; omega
          | ext m => obtain ⟨hm, hn, _⟩ := hext m rfl; simp only; omega
        · cases h; exact hinv1

theorem step_inv {s s' : St} {op : Op} (hinv : Inv s) (h : step s op = some s') : Inv s' := by
  cases op with
  | run c => exact run_inv hinv h
  | delete n =>
    simp only [step] at h; cases h
    exact ⟨ReportDir.delete_inv n s.fs hinv.fs, hinv.freshEmpty, hinv.ofresh, hinv.otherLt⟩
  | deleteCurrent =>
    simp only [step] at h; cases h
    exact ⟨ReportDir.deleteCurrent_inv s.fs hinv.fs, hinv.freshEmpty, hinv.ofresh, hinv.otherLt⟩
  | deleteOther k =>
    simp only [step] at h; cases h
    refine ⟨hinv.fs, hinv.freshEmpty, hinv.ofresh, ?_⟩
    intro j m hm
    simp only at hm
    by_cases hj : j = k
    · simp [hj] at hm
    · simp only [hj, if_false] at hm; exact hinv.otherLt j m hm

theorem runOps_inv : ∀ (ops : List Op) (s s' : St), Inv s → runOps s ops = some s' → Inv s' := by
  intro ops
  induction ops with
  | nil => intro s s' hinv h; simp only [runOps] at h; cases h; exact hinv
  | cons op ops ih =>
    intro s s' hinv h
    simp only [runOps] at h
    cases hs : step s op with
    | none => rw [hs] at h; cases h
    | some s1 => rw [hs] at h; exact ih s1 s' (step_inv hinv hs) h

theorem createDir_total (c : Cfg) (s : St) (hinv : Inv s) : (createDir c s).isSome = true := by
  unfold createDir
  split
  · have := ReportDir.run_total c.impl.limit s.fs hinv.fs
    cases hr : ReportDir.run c.impl.limit s.fs with
    | none => rw [hr] at this; cases this
    | some _ => rfl
  · split <;> rfl
  · split
    · rfl
    · have := ReportDir.run_total none s.fs hinv.fs
      cases hr : ReportDir.run none s.fs with
      | none => rw [hr] at this; cases this
      | some _ => rfl

theorem run_total (c : Cfg) (s : St) (hinv : Inv s) : (run c s).isSome = true := by
  unfold run
  split
  · rfl
  · have := createDir_total c s hinv
    cases hcd : createDir c s with
    | none => rw [hcd] at this; cases this
    | some p =>
      obtain ⟨s1, d⟩ := p
      cases d with
      | none => rfl
      | some d => simp only; split <;> rfl

theorem step_total (s : St) (op : Op) (hinv : Inv s) : (step s op).isSome = true := by
  cases op with
  | run c => exact run_total c s hinv
  | delete n => rfl
  | deleteCurrent => rfl
  | deleteOther k => rfl

theorem runOps_total : ∀ (ops : List Op) (s : St), Inv s → (runOps s ops).isSome = true := by
  intro ops
  induction ops with
  | nil => intro s _; rfl
  | cons op ops ih =>
    intro s hinv
    simp only [runOps]
    have := step_total s op hinv
    cases hs : step s op with
    | none => rw [hs] at this; cases this
    | some s1 => exact ih s1 (step_inv hinv hs)

end LccModel.RunSeq

/-
  Soundness of the run-level acceptor (`Model/RunAccept.lean`) with respect to the scheduler model M1.

  Part 1 (task indices): whatever `RunAccept.step` accepts moves the embedded scheduler state by exactly the
  `Sched.step` transitions the record projects onto (`labelNat`); fired events, user-code records, `handled`,
  `backend-raise`, `handler-exit` and the `init` record leave it alone; the re-tabulation done after every
  record (`normalizeSched`) is the identity.  Hence `replay` = a run of `Sched.step` from `Sched.init` on the
  acceptor's own graph.
  Part 2 (task ids): if the graph check of the entry point passes (`graphOk`), the acceptor's index graph is
  `TaskGraph.graphOf P` up to the renaming index ↦ id (`Sched.Embeds`), so the run is a run of `graphOf P`.
  Property-level statements: `Props/C01Accept.lean`.  Core Lean only.
-/
import LccModel.Model.RunAccept
import LccModel.Lemmas.SchedIso
import LccModel.Lemmas.Graph

namespace LccModel.AcceptSound
open LccModel.Run LccModel.Sched LccModel.RunAccept LccModel.TaskGraph

/-! ### Projection of records onto scheduler labels -/

/-- the scheduler transitions one record stands for (task indices).  A `start` record carries the decision
    the implementation took (`run`); the acceptor hands `Sched.step` the flag
    `!run && no failed dependency && !forced`, which leads to the same transition as `!run`
    (`step_start_flag`): the flag matters only through `decideMode`. -/
def labelNat : Rec → List (Label Nat)
  | .start t _ _ run _ => [.start t (!run)]
  | .finish t r => [.finish t (resOfClass r)]
  | .receive t _ => [.receive t]
  | .interrupt _ => [.interrupt]
  | _ => []

def labelsNat (recs : List Rec) : List (Label Nat) := recs.flatMap labelNat

/-! ### One record -/

theorem acceptItem_sched (c : Ctx) (g g' : G) (th : Nat) (mk : Nat → Item)
    (h : acceptItem c g th mk = .ok g') : g'.sched = g.sched := by
  unfold acceptItem at h
  dsimp only at h
  repeat' split at h
  all_goals (cases h <;> rfl)

theorem firstFailedDep_isNone (c : Ctx) (g : G) (t : Nat) :
    (firstFailedDep c g t).isNone = !depFailed c.graph g.sched t := by
  unfold firstFailedDep depFailed
  cases hf : (c.graph.succDeps t).find? (fun d => g.sched.result d != some .success) with
  | none =>
    have := List.find?_eq_none.mp hf
    have h2 : (c.graph.succDeps t).any (fun d => g.sched.result d != some .success) = false :=
      List.any_eq_false.mpr this
    rw [h2]; rfl
  | some d =>
    have h1 := List.find?_some hf
    have h2 := List.mem_of_find?_eq_some hf
    have : (c.graph.succDeps t).any (fun d => g.sched.result d != some .success) = true :=
      List.any_eq_true.mpr ⟨d, h2, h1⟩
    rw [this]; rfl

/-- the flag the acceptor computes and the plain `!run` lead to the same transition -/
theorem step_start_flag (c : Ctx) (g : G) (t : Nat) (run : Bool) :
    Sched.step c.graph c.n g.sched (.start t (!run && (firstFailedDep c g t).isNone && !g.sched.forced t)) =
    Sched.step c.graph c.n g.sched (.start t (!run)) := by
  apply step_start_congr
  rw [firstFailedDep_isNone]
  unfold decideMode
  cases g.sched.forced t <;> cases depFailed c.graph g.sched t <;> simp

/-- **one accepted record = the scheduler transitions it projects onto** -/
theorem step_sched (c : Ctx) (g g' : G) (r : Rec) (h : RunAccept.step c g r = .ok g') :
    Sched.run c.graph c.n g.sched (labelNat r) = some g'.sched := by
  cases r with
  | init disp =>
    simp only [RunAccept.step] at h
    repeat' split at h
    all_goals (cases h <;> rfl)
  | start t w ctxReason run reason =>
    cases hs : Sched.step c.graph c.n g.sched (.start t (!run && (firstFailedDep c g t).isNone && !g.sched.forced t)) with
    | none =>
      simp only [RunAccept.step, hs] at h
      repeat' split at h
      all_goals cases h
    | some s' =>
      simp only [RunAccept.step, hs] at h
      rw [step_start_flag] at hs
      repeat' split at h
      all_goals (cases h <;> simp only [labelNat, Sched.run, hs])
  | fire th e =>
    simp only [RunAccept.step] at h
    have := acceptItem_sched _ _ _ _ _ h
    simp only [labelNat, Sched.run, this]
  | user th u what =>
    simp only [RunAccept.step] at h
    have := acceptItem_sched _ _ _ _ _ h
    simp only [labelNat, Sched.run, this]
  | finish t r =>
    cases hs : Sched.step c.graph c.n g.sched (.finish t (resOfClass r)) with
    | none =>
      simp only [RunAccept.step, hs] at h
      repeat' split at h
      all_goals cases h
    | some s' =>
      simp only [RunAccept.step, hs] at h
      repeat' split at h
      all_goals (cases h <;> simp only [labelNat, Sched.run, hs])
  | receive t disp =>
    cases hs : Sched.step c.graph c.n g.sched (.receive t) with
    | none =>
      simp only [RunAccept.step, hs] at h
      repeat' split at h
      all_goals cases h
    | some s' =>
      simp only [RunAccept.step, hs] at h
      repeat' split at h
      all_goals (cases h <;> simp only [labelNat, Sched.run, hs])
  | interrupt disp =>
    cases hs : Sched.step c.graph c.n g.sched .interrupt with
    | none =>
      simp only [RunAccept.step, hs] at h
      repeat' split at h
      all_goals cases h
    | some s' =>
      simp only [RunAccept.step, hs] at h
      repeat' split at h
      all_goals (cases h <;> simp only [labelNat, Sched.run, hs])
  | handled k =>
    simp only [RunAccept.step] at h
    repeat' split at h
    all_goals (cases h <;> rfl)
  | backendRaise k caught =>
    simp only [RunAccept.step] at h
    injection h with h; subst h; rfl
  | handlerExit =>
    simp only [RunAccept.step] at h
    injection h with h; subst h; rfl

/-! ### The re-tabulation is the identity -/

theorem tab_eq {α : Type} (k : Nat) (f : Nat → α) (d : α) (hf : ∀ i, k ≤ i → f i = d) :
    (fun i => ((List.range k).map f).toArray.getD i d) = f := by
  funext i
  rw [Array.getD_eq_getD_getElem?, List.getElem?_toArray, List.getElem?_map]
  by_cases hi : i < k
  · rw [List.getElem?_range hi]; rfl
  · have : (List.range k)[i]? = none := List.getElem?_eq_none (by rw [List.length_range]; omega)
    rw [this]
    exact (hf i (by omega)).symm

/-- on a state that is untouched outside the graph's tasks `0 … k-1`, `normalizeSched k` changes nothing -/
theorem normalizeSched_eq (g : Graph Nat) (k : Nat) (hk : g.tasks = List.range k) (s : State Nat)
    (ho : Outside g s) : normalizeSched k s = s := by
  have hout : ∀ i, k ≤ i → i ∉ g.tasks := by
    intro i hi hm; rw [hk, List.mem_range] at hm; omega
  unfold normalizeSched
  simp only
  rw [tab_eq k s.phase _ (fun i hi => (ho i (hout i hi)).1),
      tab_eq k s.result _ (fun i hi => (ho i (hout i hi)).2.1),
      tab_eq k s.mode _ (fun i hi => (ho i (hout i hi)).2.2.1),
      tab_eq k s.forced _ (fun i hi => (ho i (hout i hi)).2.2.2.1),
      tab_eq k s.startAt _ (fun i hi => (ho i (hout i hi)).2.2.2.2.1),
      tab_eq k s.finishAt _ (fun i hi => (ho i (hout i hi)).2.2.2.2.2.1),
      tab_eq k s.starts _ (fun i hi => (ho i (hout i hi)).2.2.2.2.2.2)]

/-! ### The fold -/

/-- the acceptor's graph has the task indices `0 … k-1` as tasks (true of `natGraph`) -/
def IndexGraph (g : Graph Nat) : Prop := g.tasks = List.range g.tasks.length

theorem stepRec_sched (c : Ctx) (hk : IndexGraph c.graph) (g g' : G) (r : Rec) (ho : Outside c.graph g.sched)
    (h : stepRec c g r = .ok g') :
    Sched.run c.graph c.n g.sched (labelNat r) = some g'.sched ∧ Outside c.graph g'.sched := by
  unfold stepRec at h
  split at h
  · rename_i g1 hg1
    have hrun := step_sched c g g1 r hg1
    have ho1 := outside_run c.graph c.n _ _ _ ho hrun
    injection h with h
    subst h
    show _ = some (normalizeSched _ g1.sched) ∧ Outside c.graph (normalizeSched _ g1.sched)
    rw [normalizeSched_eq c.graph _ hk g1.sched ho1]
    exact ⟨hrun, ho1⟩
  · cases h

/-- **the fold**: if `replayFrom` accepts every record, the embedded scheduler state has moved along the
    projected label sequence -/
theorem replayFrom_sched (c : Ctx) (hk : IndexGraph c.graph) : ∀ (recs : List Rec) (g : G) (i : Nat) (o : Outcome),
    Outside c.graph g.sched → replayFrom c g i recs = o → o.reject = none →
    Sched.run c.graph c.n g.sched (labelsNat recs) = some o.state.sched ∧ Outside c.graph o.state.sched ∧
    o.accepted = i + recs.length := by
  intro recs
  induction recs with
  | nil =>
    intro g i o ho h _
    simp only [replayFrom] at h
    subst h
    exact ⟨rfl, ho, rfl⟩
  | cons r rs ih =>
    intro g i o ho h hrej
    simp only [replayFrom] at h
    split at h
    · rename_i g1 hg1
      obtain ⟨h1, ho1⟩ := stepRec_sched c hk g g1 r ho hg1
      obtain ⟨h2, ho2, h3⟩ := ih g1 (i + 1) o ho1 h hrej
      refine ⟨?_, ho2, ?_⟩
      · show Sched.run c.graph c.n g.sched (labelNat r ++ labelsNat rs) = _
        rw [run_append, h1]
        exact h2
      · rw [h3, List.length_cons]; omega
    · subst h
      cases hrej

theorem labelsNat_append (r1 r2 : List Rec) : labelsNat (r1 ++ r2) = labelsNat r1 ++ labelsNat r2 :=
  List.flatMap_append

/-- a fold over `r1 ++ r2` that accepts everything is the fold over `r1` followed by the fold over `r2` -/
theorem replayFrom_append (c : Ctx) : ∀ (r1 r2 : List Rec) (g : G) (i : Nat),
    (replayFrom c g i (r1 ++ r2)).reject = none →
    (replayFrom c g i r1).reject = none ∧
    replayFrom c g i (r1 ++ r2) = replayFrom c (replayFrom c g i r1).state (replayFrom c g i r1).accepted r2 := by
  intro r1
  induction r1 with
  | nil => intro r2 g i _; exact ⟨rfl, rfl⟩
  | cons r rs ih =>
    intro r2 g i h
    simp only [List.cons_append, replayFrom] at h ⊢
    split
    · rename_i g1 hg1
      rw [hg1] at h
      exact ih r2 g1 (i + 1) h
    · rename_i why hw
      rw [hw] at h
      cases h

/-! ### Part 2 — from task indices to task ids -/

/-- the ids of the model's tasks, in `build_tasks` order (= `(graphOf P).tasks`) -/
def ids (P : Proj) : List TaskId := (buildTasks P).map (·.id)

/-- index ↦ task id -/
def idAt (P : Proj) (i : Nat) : TaskId := (ids P).getD i default

/-- task id ↦ index (the number of tasks for an id that is no task) -/
def idxOf (P : Proj) (t : TaskId) : Nat := (ids P).idxOf t

/-- the scheduler labels (over task ids) a record list projects onto -/
def labelsOf (P : Proj) (recs : List Rec) : List (Label TaskId) := (labelsNat recs).map (Label.map (idAt P))

/-- the acceptor's scheduler state, read by task id -/
def schedOf (P : Proj) (a : G) : State TaskId := a.sched.pull (idxOf P)

theorem idxIn_some {P : Proj} {t : TaskId} {j : Nat} (h : idxIn (ids P) t = some j) :
    j < (ids P).length ∧ idAt P j = t := by
  unfold idxIn at h
  obtain ⟨hj, hp, _⟩ := List.findIdx?_eq_some_iff_getElem.mp h
  refine ⟨hj, ?_⟩
  unfold idAt
  rw [List.getD_eq_getElem?_getD, List.getElem?_eq_getElem hj]
  exact (eq_of_beq hp)

theorem map_idx_eq {P : Proj} : ∀ (l : List TaskId) (m : List Nat), l.map (idxIn (ids P)) = m.map some →
    l = m.map (idAt P) ∧ ∀ j ∈ m, j < (ids P).length
  | [], [], _ => ⟨rfl, fun _ h => by cases h⟩
  | [], _ :: _, h => by cases h
  | _ :: _, [], h => by cases h
  | t :: l, j :: m, h => by
    simp only [List.map_cons, List.cons.injEq] at h
    obtain ⟨h1, h2⟩ := idxIn_some h.1
    obtain ⟨h3, h4⟩ := map_idx_eq l m h.2
    refine ⟨by rw [List.map_cons, h2, ← h3], ?_⟩
    intro x hx
    rcases List.mem_cons.mp hx with rfl | hx
    · exact h1
    · exact h4 x hx

theorem graphOk_nodup {P : Proj} {gts : List GTask} (h : graphOk P gts = true) : (ids P).Nodup := by
  unfold graphOk at h
  simp only [Bool.and_eq_true, decide_eq_true_eq] at h
  exact h.2

theorem graphOk_graph {P : Proj} {gts : List GTask} (h : graphOk P gts = true) : modelGraph P = realGraph gts := by
  unfold graphOk at h
  simp only [Bool.and_eq_true, decide_eq_true_eq] at h
  exact h.1

theorem graphOk_length {P : Proj} {gts : List GTask} (h : graphOk P gts = true) : gts.length = (ids P).length := by
  have := congrArg List.length (graphOk_graph h)
  simp only [modelGraph, realGraph, List.length_map] at this
  simp only [ids, List.length_map]
  exact this.symm

/-- entry `a` of the two graph descriptions -/
theorem graphOk_entry {P : Proj} {gts : List GTask} (h : graphOk P gts = true) (a : Nat) (ha : a < gts.length) :
    ∃ (x : TaskSpec) (y : GTask), (buildTasks P)[a]? = some x ∧ gts[a]? = some y ∧
      x.succ.map (idxIn (ids P)) = y.succ.map some ∧ x.compl.map (idxIn (ids P)) = y.compl.map some := by
  have hl := graphOk_length h
  have ha' : a < (buildTasks P).length := by simp only [ids, List.length_map] at hl; omega
  have hg := congrArg (fun l => l[a]?) (graphOk_graph h)
  simp only [modelGraph, realGraph, List.getElem?_map, List.getElem?_eq_getElem ha, List.getElem?_eq_getElem ha',
    Option.map_some, Option.some.injEq, Prod.mk.injEq] at hg
  exact ⟨(buildTasks P)[a], gts[a], List.getElem?_eq_getElem ha', List.getElem?_eq_getElem ha, hg.2.2.1, hg.2.2.2⟩

theorem natGraph_tasks (gts : List GTask) : (natGraph gts).tasks = List.range gts.length := rfl

theorem natGraph_index (gts : List GTask) : IndexGraph (natGraph gts) := by
  unfold IndexGraph
  rw [natGraph_tasks, List.length_range]

theorem natGraph_succ (gts : List GTask) (a : Nat) (y : GTask) (hy : gts[a]? = some y) :
    (natGraph gts).succDeps a = y.succ := by
  show (match gts.toArray[a]? with | some x => x.succ | none => []) = _
  rw [List.getElem?_toArray, hy]

theorem natGraph_compl (gts : List GTask) (a : Nat) (y : GTask) (hy : gts[a]? = some y) :
    (natGraph gts).complDeps a = y.compl := by
  show (match gts.toArray[a]? with | some x => x.compl | none => []) = _
  rw [List.getElem?_toArray, hy]

theorem idAt_mem {P : Proj} {a : Nat} {x : TaskSpec} (hx : (buildTasks P)[a]? = some x) :
    idAt P a = x.id ∧ x ∈ buildTasks P := by
  refine ⟨?_, List.mem_of_getElem? hx⟩
  unfold idAt ids
  rw [List.getD_eq_getElem?_getD, List.getElem?_map, hx]
  rfl

/-- **the acceptor's index graph is the model's task graph**, up to the renaming index ↦ id, whenever the
    graph check of the entry point passes -/
theorem embeds_of_graphOk {P : Proj} {gts : List GTask} (h : graphOk P gts = true) :
    Embeds (natGraph gts) (graphOf P) (idAt P) (idxOf P) := by
  have hl := graphOk_length h
  have hnd := graphOk_nodup h
  have hmem : ∀ a, a ∈ (natGraph gts).tasks ↔ a < (ids P).length := by
    intro a; rw [natGraph_tasks, List.mem_range, hl]
  refine ⟨?_, ?_, ?_, ?_, ?_, ?_⟩
  · show ids P = (List.range gts.length).map (idAt P)
    rw [hl]
    apply List.ext_getElem
    · simp
    · intro i h1 h2
      simp only [List.getElem_map, List.getElem_range, idAt]
      rw [List.getD_eq_getElem?_getD, List.getElem?_eq_getElem h1]; rfl
  · intro a ha
    have ha' := (hmem a).mp ha
    unfold idxOf idAt
    rw [List.getD_eq_getElem?_getD, List.getElem?_eq_getElem ha']
    exact hnd.idxOf_getElem a ha'
  · intro b hb
    have hb' := (hmem _).mp hb
    unfold idAt
    rw [List.getD_eq_getElem?_getD, List.getElem?_eq_getElem hb']
    exact List.getElem_idxOf hb'
  · intro a ha
    have ha' : a < gts.length := by rw [hl]; exact (hmem a).mp ha
    obtain ⟨x, y, hx, hy, hs, _⟩ := graphOk_entry h a ha'
    obtain ⟨hid, hxm⟩ := idAt_mem hx
    rw [hid, natGraph_succ gts a y hy]
    show (match lookupSpec (buildTasks P) x.id with | some x => x.succ | none => []) = _
    rw [lookupSpec_of_mem hnd hxm]
    exact (map_idx_eq _ _ hs).1
  · intro a ha
    have ha' : a < gts.length := by rw [hl]; exact (hmem a).mp ha
    obtain ⟨x, y, hx, hy, _, hc⟩ := graphOk_entry h a ha'
    obtain ⟨hid, hxm⟩ := idAt_mem hx
    rw [hid, natGraph_compl gts a y hy]
    show (match lookupSpec (buildTasks P) x.id with | some x => x.compl | none => []) = _
    rw [lookupSpec_of_mem hnd hxm]
    exact (map_idx_eq _ _ hc).1
  · intro a ha d hd
    have ha' : a < gts.length := by rw [hl]; exact (hmem a).mp ha
    obtain ⟨x, y, hx, hy, hs, hc⟩ := graphOk_entry h a ha'
    unfold Graph.deps at hd
    rw [natGraph_succ gts a y hy, natGraph_compl gts a y hy] at hd
    rw [hmem]
    rcases List.mem_append.mp hd with hd | hd
    · exact (map_idx_eq _ _ hc).2 d hd
    · exact (map_idx_eq _ _ hs).2 d hd

/-! ### Acceptance by the entry point -/

/-- The entry point `drivers/Run.lean` runs accepts the observation: the real task graph `gts` passes the graph
    check against `buildTasks P`, and `replay` rejects no record of `recs`; `a` is the acceptor's final state.
    (`parents` = the observed `lcc.Thread` parent table, irrelevant to the scheduler.) -/
def Accepted (P : Proj) (gts : List GTask) (parents : List (Nat × Nat)) (recs : List Rec) (a : G) : Prop :=
  graphOk P gts = true ∧ (replay (mkCtx P gts parents) recs).reject = none ∧
  (replay (mkCtx P gts parents) recs).state = a

theorem labelsOf_append (P : Proj) (r1 r2 : List Rec) : labelsOf P (r1 ++ r2) = labelsOf P r1 ++ labelsOf P r2 := by
  unfold labelsOf
  rw [labelsNat_append, List.map_append]

theorem outside_G_init (c : Ctx) : Outside c.graph (G.init c).sched := outside_init c.graph c.n

/-- index level: the accepted trace is an execution of M1 on the acceptor's own graph -/
theorem accepted_run_nat {P : Proj} {gts : List GTask} {parents : List (Nat × Nat)} {recs : List Rec} {a : G}
    (h : Accepted P gts parents recs a) :
    Sched.run (natGraph gts) P.nbThreads (Sched.init (natGraph gts) P.nbThreads) (labelsNat recs) = some a.sched ∧
    Outside (natGraph gts) a.sched := by
  obtain ⟨_, hrej, hst⟩ := h
  have := replayFrom_sched (mkCtx P gts parents) (natGraph_index gts) recs (G.init _) 0 _
    (outside_G_init _) rfl hrej
  rw [← hst]
  exact ⟨this.1, this.2.1⟩

/-- task-id level -/
theorem accepted_run {P : Proj} {gts : List GTask} {parents : List (Nat × Nat)} {recs : List Rec} {a : G}
    (h : Accepted P gts parents recs a) :
    Sched.run (graphOf P) P.nbThreads (Sched.init (graphOf P) P.nbThreads) (labelsOf P recs) = some (schedOf P a) := by
  have E := embeds_of_graphOk h.1
  have := pull_run E P.nbThreads _ _ _ (accepted_run_nat h).1
  rw [← pull_init E] at this
  exact this

/-- an accepted trace can be cut anywhere: the prefix is accepted, and the rest is an execution of M1 from the
    state the prefix reached -/
theorem accepted_split {P : Proj} {gts : List GTask} {parents : List (Nat × Nat)} {r1 r2 : List Rec} {a : G}
    (h : Accepted P gts parents (r1 ++ r2) a) :
    ∃ a1, Accepted P gts parents r1 a1 ∧
      Sched.run (graphOf P) P.nbThreads (schedOf P a1) (labelsOf P r2) = some (schedOf P a) := by
  obtain ⟨hg, hrej, hst⟩ := h
  obtain ⟨h1, h2⟩ := replayFrom_append (mkCtx P gts parents) r1 r2 (G.init _) 0 hrej
  refine ⟨(replay (mkCtx P gts parents) r1).state, ⟨hg, h1, rfl⟩, ?_⟩
  have hA1 : Accepted P gts parents r1 (replay (mkCtx P gts parents) r1).state := ⟨hg, h1, rfl⟩
  have ho1 := (accepted_run_nat hA1).2
  have h3 : replayFrom (mkCtx P gts parents) (replay (mkCtx P gts parents) r1).state
      (replay (mkCtx P gts parents) r1).accepted r2 = replay (mkCtx P gts parents) (r1 ++ r2) := h2.symm
  have hrun := (replayFrom_sched (mkCtx P gts parents) (natGraph_index gts) r2 _ _ _ ho1 rfl
    (by rw [h3]; exact hrej)).1
  rw [h3, hst] at hrun
  exact pull_run (embeds_of_graphOk hg) P.nbThreads _ _ _ hrun

theorem labelsOf_interrupt (P : Proj) (d : List Nat) : labelsOf P [.interrupt d] = [.interrupt] := rfl

/-- right after an `interrupt` transition the abort flag is set -/
theorem aborted_after_interrupt {Tid : Type} [DecidableEq Tid] (g : Graph Tid) (n : Nat) (s s' : State Tid)
    (ls : List (Label Tid)) (h : Sched.run g n s (ls ++ [.interrupt]) = some s') : s'.aborted = true := by
  rw [run_append] at h
  cases h1 : Sched.run g n s ls with
  | none => rw [h1] at h; cases h
  | some s1 =>
    rw [h1] at h
    simp only [Option.bind, Sched.run] at h
    cases h2 : Sched.step g n s1 .interrupt with
    | none => rw [h2] at h; cases h
    | some s2 =>
      rw [h2] at h
      injection h with h
      subst h
      obtain ⟨_, rfl⟩ := step_interrupt h2
      rfl

theorem schedOf_aborted (P : Proj) (a : G) : (schedOf P a).aborted = a.sched.aborted := rfl

/-- the state read by id at `idAt P i` is the acceptor's state at index `i` -/
theorem schedOf_at {P : Proj} {gts : List GTask} (hg : graphOk P gts = true) (a : G) (i : Nat) (hi : i < gts.length) :
    (schedOf P a).phase (idAt P i) = a.sched.phase i ∧ (schedOf P a).result (idAt P i) = a.sched.result i ∧
    (schedOf P a).mode (idAt P i) = a.sched.mode i ∧ (schedOf P a).forced (idAt P i) = a.sched.forced i ∧
    (schedOf P a).startAt (idAt P i) = a.sched.startAt i ∧ (schedOf P a).finishAt (idAt P i) = a.sched.finishAt i ∧
    (schedOf P a).starts (idAt P i) = a.sched.starts i := by
  have E := embeds_of_graphOk hg
  have : idxOf P (idAt P i) = i := E.left i (by rw [natGraph_tasks, List.mem_range]; exact hi)
  simp only [schedOf, State.pull, this, and_self]

end LccModel.AcceptSound

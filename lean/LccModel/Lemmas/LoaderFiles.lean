/-
  Helper lemmas for C13, layer 4: `load_suite_from_module`, `load_suite_from_file` (single-class
  collapse), `load_suites_from_files`.
-/
import LccModel.Lemmas.LoaderSuites

namespace LccModel.Loader

open List

def modSuiteHead (m : Module) : SuiteHead :=
  { name := m.suiteName, desc := m.suiteDesc, rank := m.suiteRank, md := m.suiteMeta, disabled := .no,
    hidden := !m.visible }

theorem loadClass_good {c : Cls} {s : Suite} (h : loadClass c = .ok s) : Good c s := (loadClass_spec c).1 s h

theorem loadClass_ok_iff_accepts (c : Cls) : (∃ s, loadClass c = .ok s) ↔ acceptsCls c = true := (loadClass_spec c).2

/-- What `load_suite_from_module` returns. -/
theorem loadModule_spec {m : Module} {s : Suite} (h : loadModule m = .ok s) :
    ∃ ss, s = .mk (modSuiteHead m) (declTests m.tests) ss ∧
      Forall₂ (fun c s' => loadClass c = .ok s') (visibleClasses m.classes) ss ∧
      Suite.entriesList ss = flattenKeyed (declClsList m.classes) ∧ NoClashS ss ∧
      acceptsTests m.tests = true := by
  unfold loadModule at h
  cases ht : loadTests m.tests with
  | error e => simp [ht] at h
  | ok ts =>
    cases hsub : loadSubSuites (loadClassList m.classes) with
    | error e => simp [ht, hsub] at h
    | ok ss =>
      simp only [ht, hsub, Except.ok.injEq] at h
      obtain ⟨f2, hb, _, hno⟩ := loadSubSuites_spec m.classes ss hsub (fun c _ s hs => loadClass_good hs)
      obtain ⟨hacc, rfl⟩ := (loadTests_ok_iff m.tests ts).mp ht
      exact ⟨ss, h.symm, f2, hb, hno, hacc⟩

theorem loadModule_exists_iff (m : Module) :
    (∃ s, loadModule m = .ok s) ↔
      (acceptsTests m.tests = true ∧ acceptsClsList m.classes = true ∧
       nodupB ((visibleClasses m.classes).map (fun c => c.head.suiteName)) = true ∧
       nodupB ((visibleClasses m.classes).map (fun c => c.head.suiteDesc)) = true) := by
  constructor
  · rintro ⟨s, h⟩
    unfold loadModule at h
    cases ht : loadTests m.tests with
    | error e => simp [ht] at h
    | ok ts =>
      cases hsub : loadSubSuites (loadClassList m.classes) with
      | error e => simp [ht, hsub] at h
      | ok ss =>
        obtain ⟨h1, h2, h3⟩ := loadSubSuites_accepts m.classes ss (fun c _ => loadClass_spec c) hsub
        exact ⟨((loadTests_ok_iff m.tests ts).mp ht).1, h1, h2, h3⟩
  · rintro ⟨ht, hl, hn, hd⟩
    obtain ⟨ss, hss⟩ := loadSubSuites_exists m.classes (fun c _ => loadClass_spec c) hl hn hd
    have htl := (loadTests_ok_iff m.tests (declTests m.tests)).mpr ⟨ht, rfl⟩
    exact ⟨.mk (modSuiteHead m) (declTests m.tests) ss, by simp [loadModule, htl, hss, modSuiteHead]⟩

/-- **Exact success condition of `load_suite_from_file`.** -/
theorem loadFile_exists_iff (m : Module) : (∃ s, loadFile m = .ok s) ↔ acceptsModule m = true := by
  unfold loadFile acceptsModule
  cases hb : m.broken
  · simp only [Bool.false_eq_true, if_false, Bool.not_false, Bool.true_and, Bool.and_eq_true]
    constructor
    · rintro ⟨s, h⟩
      cases hm : loadModule m with
      | error e => simp [hm] at h
      | ok s0 =>
        obtain ⟨h1, h2, h3, h4⟩ := (loadModule_exists_iff m).mp ⟨s0, hm⟩
        exact ⟨⟨⟨h1, h2⟩, h3⟩, h4⟩
    · rintro ⟨⟨⟨h1, h2⟩, h3⟩, h4⟩
      obtain ⟨s0, hm⟩ := (loadModule_exists_iff m).mpr ⟨h1, h2, h3, h4⟩
      exact ⟨collapse m s0, by simp [hm]⟩
  · simp

/-! ### The collapse -/

theorem forall2_nil_left {R : α → β → Prop} {ys : List β} (h : Forall₂ R [] ys) : ys = [] := by
  cases h; rfl

theorem forall2_cons_left {R : α → β → Prop} {a : α} {l : List α} {ys : List β} (h : Forall₂ R (a :: l) ys) :
    ∃ b bs, ys = b :: bs ∧ R a b ∧ Forall₂ R l bs := by
  cases h with
  | cons hab t => exact ⟨_, _, rfl, hab, t⟩

/-- The specification's view of a loaded top-level suite. -/
def absItem (k : Key) (s : Suite) : Item := ⟨k, s.name, s.rank, s.body⟩

theorem visibleClasses_visible {cs : List Cls} {c : Cls} (h : c ∈ visibleClasses cs) : c.head.vis.visible = true :=
  (List.mem_filter.mp h).2

/-- Model and specification agree on when a module collapses into its single class, and on the
    outcome. -/
theorem loadFile_declFile {m : Module} {s : Suite} (h : loadFile m = .ok s) :
    declFile m = if s.hidden then none else some (absItem (.file m.stem) s) := by
  unfold loadFile at h
  cases hb : m.broken
  · simp only [hb, Bool.false_eq_true, if_false] at h
    cases hm : loadModule m with
    | error e => simp [hm] at h
    | ok s0 =>
      simp only [hm, Except.ok.injEq] at h
      obtain ⟨ss, rfl, f2, hbelow, _, _⟩ := loadModule_spec hm
      -- the non-collapse outcome
      have plain : collapsesTo m = none → collapse m (.mk (modSuiteHead m) (declTests m.tests) ss)
            = .mk (modSuiteHead m) (declTests m.tests) ss →
          declFile m = if s.hidden then none else some (absItem (.file m.stem) s) := by
        intro hc hcol
        rw [hcol] at h; subst h
        unfold declFile
        rw [hc]
        simp only [Suite.hidden, Suite.head, modSuiteHead, absItem, Suite.name, Suite.rank, body_mk, hbelow,
          declModuleBody]
        cases m.visible <;> simp
      unfold collapse collapsesTo at *
      cases hi : m.info with
      | some i => simp only [hi] at h plain ⊢; exact plain (by first | trivial | rfl) (by first | trivial | rfl)
      | none =>
        cases hts : declTests m.tests with
        | cons t ts => simp only [hi, hts] at h plain ⊢; exact plain (by first | trivial | rfl) (by first | trivial | rfl)
        | nil =>
          cases hv : visibleClasses m.classes with
          | nil =>
            rw [hv] at f2
            have := forall2_nil_left f2; subst this
            simp only [hi, hts, hv] at h plain ⊢; exact plain (by first | trivial | rfl) (by first | trivial | rfl)
          | cons c cs =>
            rw [hv] at f2
            obtain ⟨s', bs, rfl, hcs, f2'⟩ := forall2_cons_left f2
            cases cs with
            | cons c2 cs2 =>
              obtain ⟨s2, bs2, rfl, _, _⟩ := forall2_cons_left f2'
              simp only [hi, hts, hv] at h plain ⊢; exact plain (by first | trivial | rfl) (by first | trivial | rfl)
            | nil =>
              have := forall2_nil_left f2'; subst this
              have g := loadClass_good hcs
              have hname : s'.name = c.head.suiteName := by simp [Suite.name, g.head, clsSuiteHead]
              by_cases hn : c.head.suiteName = m.stem
              · simp only [hi, hts, hname, hn, if_true] at h ⊢
                subst h
                have hvis : c.head.vis.visible = true := visibleClasses_visible (by rw [hv]; exact List.mem_cons_self)
                unfold declFile collapsesTo
                simp only [hi, hts, hv, hn, if_true]
                simp [Suite.hidden, g.head, clsSuiteHead, hvis, absItem, Suite.name, Suite.rank, g.body, hn]
              · simp only [hi, hts, hv, hname, hn, if_false] at h plain ⊢; exact plain (by first | trivial | rfl) (by first | trivial | rfl)
  · simp [hb] at h

/-! ### `load_suites_from_files` -/

theorem underSuite_nil (n : String) : underSuite n [] = [] := rfl

theorem filterMap_flatMap (f : α → Option β) (g : β → List γ) : ∀ l : List α,
    (l.filterMap f).flatMap g = l.flatMap (fun x => match f x with | none => [] | some y => g y)
  | [] => rfl
  | a :: as => by
    cases h : f a <;> simp [h, filterMap_flatMap f g as]

theorem filter_flatMap (p : α → Bool) (g : α → List γ) : ∀ l : List α,
    (l.filter p).flatMap g = l.flatMap (fun x => if p x then g x else [])
  | [] => rfl
  | a :: as => by
    cases h : p a <;> simp [h, filter_flatMap p g as]

theorem loadFiles_entries {mods : List Module} {ss : List Suite} (h : loadFiles mods = .ok ss) :
    Suite.entriesList ss = declFiles mods := by
  unfold loadFiles at h
  cases hseq : sequenceE ((sortMods mods).map loadFile) with
  | error e => simp [hseq] at h
  | ok loaded =>
    simp only [hseq, Except.ok.injEq] at h
    subst h
    have f2 := forall2_of_map_ok loadFile _ _ ((sequenceE_ok_iff _ loaded).mp hseq)
    rw [entriesList_eq_flatMap]
    unfold declFiles itemsEntries
    rw [filterMap_flatMap]
    rw [filter_flatMap]
    refine forall2_flatMap_eq f2 ?_
    intro m s hms
    rw [loadFile_declFile hms.2]
    cases hh : s.hidden
    · simp only [Bool.not_false, Bool.true_and, Bool.false_eq_true, if_false, absItem]
      cases he : s.isEmpty
      · simp [Suite.entries]
      · simp [(isEmpty_iff_body s).mp he, underSuite_nil]
    · simp

end LccModel.Loader

import LccModel.Lemmas.Sched

namespace LccModel.Sched

variable {Tid : Type} [DecidableEq Tid]

theorem inv_reachable {g : Graph Tid} {n : Nat} {s : State Tid} (hr : Reachable g n s) : Inv g s := by
  induction hr with
  | init => exact inv_init g n
  | step _ hs ih => exact inv_step g n _ _ _ ih hs

/-! ### Progress (deadlock freedom) -/

def InFlight (g : Graph Tid) (s : State Tid) : Prop :=
  ∃ t ∈ g.tasks, s.phase t = .queued ∨ s.phase t = .running ∨ s.phase t = .done

def ProgressInv (g : Graph Tid) (s : State Tid) : Prop := InFlight g s ∨ Final g s

theorem exists_min_remaining (g : Graph Tid) (wf : g.WF) (s : State Tid)
    (h : ∃ t ∈ g.tasks, s.phase t = .remaining) :
    ∃ t ∈ g.tasks, s.phase t = .remaining ∧ ∀ d ∈ g.deps t, s.phase d ≠ .remaining := by
  obtain ⟨lvl, hl⟩ := wf.acyclic
  obtain ⟨t, ht, hp⟩ := h
  induction hk : lvl t using Nat.strongRecOn generalizing t with
  | ind k ih =>
    by_cases hd : ∀ d ∈ g.deps t, s.phase d ≠ .remaining
    · exact ⟨t, ht, hp, hd⟩
    · have ⟨d, hd'⟩ := Classical.not_forall.mp hd
      have ⟨hdm, hdp⟩ := Classical.not_imp.mp hd'
      have hdp : s.phase d = .remaining := Classical.not_not.mp hdp
      have hdt : d ∈ g.tasks := wf.closed t ht d hdm
      have hlt : lvl d < k := hk ▸ hl t ht d hdm
      exact ih (lvl d) hlt d hdt hdp rfl

theorem progress_of_noRem (g : Graph Tid) (s : State Tid) (h : ∀ t ∈ g.tasks, s.phase t ≠ .remaining) :
    ProgressInv g s := by
  by_cases hfl : InFlight g s
  · exact Or.inl hfl
  · right
    intro t ht
    have h1 := h t ht
    have h2 : ¬ (s.phase t = .queued ∨ s.phase t = .running ∨ s.phase t = .done) :=
      fun h => hfl ⟨t, ht, h⟩
    cases hph : s.phase t <;> simp_all

theorem dispatch_progress (g : Graph Tid) (wf : g.WF) (n : Nat) (hn : 0 < n) (s : State Tid) :
    ProgressInv g (dispatch g s n) := by
  by_cases hfl : InFlight g s
  · left
    obtain ⟨t, ht, hp⟩ := hfl
    refine ⟨t, ht, ?_⟩
    rcases dispatch_phase_cases g s n t with h' | ⟨_, h', _, _⟩
    · rw [h']; exact hp
    · rw [h'] at hp; simp at hp
  · by_cases hrem : ∃ t ∈ g.tasks, s.phase t = .remaining
    · left
      obtain ⟨t, ht, hp, hd⟩ := exists_min_remaining g wf s hrem
      have hrun : runnable g s t = true := by
        unfold runnable
        simp only [Bool.and_eq_true, decide_eq_true_eq, List.all_eq_true]
        refine ⟨hp, fun d hdm => ?_⟩
        have hdt := wf.closed t ht d hdm
        have h1 := hd d hdm
        have h2 : ¬ (s.phase d = .queued ∨ s.phase d = .running ∨ s.phase d = .done) :=
          fun h => hfl ⟨d, hdt, h⟩
        cases hph : s.phase d <;> simp_all
      have hne : g.tasks.filter (runnable g s) ≠ [] := by
        intro he
        have : t ∈ g.tasks.filter (runnable g s) := List.mem_filter.mpr ⟨ht, hrun⟩
        rw [he] at this; cases this
      have hpne : popped g s n ≠ [] := by
        unfold popped
        cases hf : g.tasks.filter (runnable g s) with
        | nil => exact absurd hf hne
        | cons a l =>
          cases n with
          | zero => cases hn
          | succ k => simp
      obtain ⟨h, tl, hcons⟩ := List.exists_cons_of_ne_nil hpne
      have hmem : h ∈ popped g s n := by rw [hcons]; simp
      refine ⟨h, popped_sub_tasks hmem, Or.inl ?_⟩
      unfold dispatch; simp [hmem]
    · apply progress_of_noRem
      intro t ht hr
      have h1 : s.phase t ≠ .remaining := fun h => hrem ⟨t, ht, h⟩
      exact h1 (by
        rcases dispatch_phase_cases g s n t with h' | ⟨_, h', _, _⟩
        · rw [← h']; exact hr
        · exact h')

/-- one round of `skip_all_tasks` never leaves the loop waiting for nothing: if nothing is in flight
    afterwards, everything is completed (a minimal remaining task would have been released) -/
theorem release_progress (g : Graph Tid) (wf : g.WF) (s : State Tid) : ProgressInv g (release g s) := by
  by_cases h0 : g.tasks.length = 0
  · right; intro t ht
    have : g.tasks = [] := List.eq_nil_of_length_eq_zero h0
    rw [this] at ht; cases ht
  · have hp := dispatch_progress g wf g.tasks.length (by omega) s
    rcases hp with ⟨t, ht, hp⟩ | hf
    · exact Or.inl ⟨t, ht, by rw [release_phase]; exact hp⟩
    · exact Or.inr (fun t ht => by rw [release_phase]; exact hf t ht)

theorem progress_reachable (g : Graph Tid) (wf : g.WF) (n : Nat) (hn : 0 < n) (s : State Tid)
    (hr : Reachable g n s) : ProgressInv g s := by
  induction hr with
  | init => exact dispatch_progress g wf n hn _
  | @step s s' l hrs hs ih =>
    cases l with
    | start t c =>
      obtain ⟨htm, _, _, rfl⟩ := step_start hs
      exact Or.inl ⟨t, htm, by simp⟩
    | finish t r =>
      obtain ⟨htm, _, _, rfl⟩ := step_finish hs
      exact Or.inl ⟨t, htm, by simp⟩
    | receive t =>
      obtain ⟨htm, hq, rfl⟩ := step_receive hs
      split
      · exact release_progress g wf _
      · exact dispatch_progress g wf n hn _
    | interrupt =>
      obtain ⟨_, rfl⟩ := step_interrupt hs
      exact release_progress g wf _

/-- Deadlock freedom: in a reachable state where not every task is completed some transition is
    enabled — a worker can pick a queued task, a running task can finish, or the main loop can
    receive a completion. -/
theorem no_deadlock (g : Graph Tid) (wf : g.WF) (n : Nat) (hn : 0 < n) (s : State Tid)
    (hr : Reachable g n s) (hnf : ¬ Final g s) : ∃ l, (step g n s l).isSome = true := by
  have hinv := inv_reachable hr
  have hfin : ∀ u, u ∈ g.tasks → s.phase u = .running → ∃ l, (step g n s l).isSome = true := by
    intro u hu h2
    obtain ⟨m, hm⟩ := hinv.modeSome u (Or.inl h2)
    cases m with
    | run => exact ⟨.finish u .success, by simp [step, hu, h2, hm, resAllowed]⟩
    | skip => exact ⟨.finish u .skipped, by simp [step, hu, h2, hm, resAllowed]⟩
  rcases progress_reachable g wf n hn s hr with hfl | hf
  · obtain ⟨t, ht, hp⟩ := hfl
    rcases hp with hq | hrun | hd
    · by_cases hfree : nbRunning g s < n
      · exact ⟨.start t false, by simp [step, ht, hq, hfree]⟩
      · have hpos : 0 < nbRunning g s := by omega
        unfold nbRunning at hpos
        obtain ⟨u, hu⟩ := List.exists_mem_of_length_pos hpos
        have := List.mem_filter.mp hu
        have h2 : s.phase u = .running := by simpa using this.2
        exact hfin u this.1 h2
    · exact hfin t ht hrun
    · exact ⟨.receive t, by simp [step, ht, hd]⟩
  · exact absurd hf hnf

/-! ### Termination: a measure that strictly decreases at every step -/

def mu (g : Graph Tid) (s : State Tid) : Nat :=
  (g.tasks.map (fun t => (s.phase t).rank)).sum + (if s.aborted then 0 else 1)

theorem sum_map_le (l : List Tid) (f f' : Tid → Nat) (h : ∀ x ∈ l, f' x ≤ f x) :
    (l.map f').sum ≤ (l.map f).sum := by
  induction l with
  | nil => simp
  | cons a l ih =>
    simp only [List.map_cons, List.sum_cons]
    have h1 := h a (by simp)
    have h2 := ih (fun x hx => h x (by simp [hx]))
    omega

theorem sum_map_lt (l : List Tid) (f f' : Tid → Nat) (h : ∀ x ∈ l, f' x ≤ f x)
    (hex : ∃ x ∈ l, f' x < f x) : (l.map f').sum < (l.map f).sum := by
  induction l with
  | nil => obtain ⟨x, hx, _⟩ := hex; cases hx
  | cons a l ih =>
    simp only [List.map_cons, List.sum_cons]
    have h1 := h a (by simp)
    have h2 := sum_map_le l f f' (fun x hx => h x (by simp [hx]))
    obtain ⟨x, hx, hlt⟩ := hex
    rcases List.mem_cons.mp hx with e | hxl
    · subst e; omega
    · have := ih (fun y hy => h y (by simp [hy])) ⟨x, hxl, hlt⟩
      omega

theorem dispatch_rank_le (g : Graph Tid) (s : State Tid) (n : Nat) (x : Tid) :
    ((dispatch g s n).phase x).rank ≤ (s.phase x).rank := by
  rcases dispatch_phase_cases g s n x with h' | ⟨_, h1, h2, _⟩
  · rw [h']; exact Nat.le_refl _
  · rw [h1, h2]; simp [Phase.rank]

theorem release_rank_le (g : Graph Tid) (s : State Tid) (x : Tid) :
    ((release g s).phase x).rank ≤ (s.phase x).rank := by
  rw [release_phase]; exact dispatch_rank_le g s g.tasks.length x

theorem mu_decreases (g : Graph Tid) (n : Nat) (s s' : State Tid) (l : Label Tid)
    (hs : step g n s l = some s') : mu g s' < mu g s := by
  cases l with
  | start t c =>
    obtain ⟨htm, hq, _, rfl⟩ := step_start hs
    unfold mu; dsimp only
    have := sum_map_lt g.tasks (fun x => (s.phase x).rank)
      (fun x => (if x = t then Phase.running else s.phase x).rank)
      (by intro x _; by_cases e : x = t
          · subst e; simp [hq, Phase.rank]
          · simp [e])
      ⟨t, htm, by simp [hq, Phase.rank]⟩
    omega
  | finish t r =>
    obtain ⟨htm, hq, _, rfl⟩ := step_finish hs
    unfold mu; dsimp only
    have := sum_map_lt g.tasks (fun x => (s.phase x).rank)
      (fun x => (if x = t then Phase.done else s.phase x).rank)
      (by intro x _; by_cases e : x = t
          · subst e; simp [hq, Phase.rank]
          · simp [e])
      ⟨t, htm, by simp [hq, Phase.rank]⟩
    omega
  | receive t =>
    obtain ⟨htm, hq, rfl⟩ := step_receive hs
    have hbase : ∀ x, (if x = t then Phase.completed else s.phase x).rank ≤ (s.phase x).rank := by
      intro x; by_cases e : x = t
      · subst e; simp [hq, Phase.rank]
      · simp [e]
    generalize hs1 : ({ s with phase := fun x => if x = t then Phase.completed else s.phase x,
                               clock := s.clock + 1 } : State Tid) = s1
    have hs1ab : s1.aborted = s.aborted := by subst hs1; rfl
    have hph : ∀ x, s1.phase x = if x = t then Phase.completed else s.phase x := by
      subst hs1; intro x; rfl
    split
    · unfold mu
      simp only [release_aborted, hs1ab]
      have := sum_map_lt g.tasks (fun x => (s.phase x).rank)
        (fun x => ((release g s1).phase x).rank)
        (fun x _ => Nat.le_trans (release_rank_le g s1 x) (by rw [hph x]; exact hbase x))
        ⟨t, htm, by
          have := dispatch_completed g s1 g.tasks.length t (by rw [hph t]; simp)
          rw [release_phase, this]; simp [hq, Phase.rank]⟩
      omega
    · unfold mu
      simp only [dispatch_aborted, hs1ab]
      have := sum_map_lt g.tasks (fun x => (s.phase x).rank)
        (fun x => ((dispatch g s1 n).phase x).rank)
        (fun x _ => Nat.le_trans (dispatch_rank_le g s1 n x) (by rw [hph x]; exact hbase x))
        ⟨t, htm, by
          have := dispatch_completed g s1 n t (by rw [hph t]; simp)
          rw [this]; simp [hq, Phase.rank]⟩
      omega
  | interrupt =>
    obtain ⟨hab, rfl⟩ := step_interrupt hs
    unfold mu
    have := sum_map_le g.tasks (fun x => (s.phase x).rank)
      (fun x => ((release g { s with aborted := true, clock := s.clock + 1 }).phase x).rank)
      (fun x _ => release_rank_le g _ x)
    simp only [release_aborted, hab]
    simp
    omega

/-- Every execution is finite: a trace accepted from `s` is never longer than `mu g s`. -/
theorem run_length_le_mu (g : Graph Tid) (n : Nat) : ∀ (ls : List (Label Tid)) (s s' : State Tid),
    run g n s ls = some s' → ls.length + mu g s' ≤ mu g s := by
  intro ls
  induction ls with
  | nil => intro s s' h; simp only [run] at h; injection h with h; subst h; simp
  | cons l ls ih =>
    intro s s' h
    simp only [run] at h
    cases hs : step g n s l with
    | none => rw [hs] at h; cases h
    | some s1 =>
      rw [hs] at h
      have h1 := ih s1 s' h
      have h2 := mu_decreases g n s s1 l hs
      simp only [List.length_cons]
      omega

theorem reachable_run (g : Graph Tid) (n : Nat) : ∀ (ls : List (Label Tid)) (s s' : State Tid),
    Reachable g n s → run g n s ls = some s' → Reachable g n s' := by
  intro ls
  induction ls with
  | nil => intro s s' hr h; simp only [run] at h; injection h with h; subst h; exact hr
  | cons l ls ih =>
    intro s s' hr h
    simp only [run] at h
    cases hs : step g n s l with
    | none => rw [hs] at h; cases h
    | some s1 => rw [hs] at h; exact ih s1 s' (Reachable.step hr hs) h

theorem mu_empty_le (g : Graph Tid) (n : Nat) : mu g (init g n) ≤ 4 * g.tasks.length + 1 := by
  unfold mu
  have : ∀ (l : List Tid) (f : Tid → Nat), (∀ x, f x ≤ 4) → (l.map f).sum ≤ 4 * l.length := by
    intro l f hf
    induction l with
    | nil => simp
    | cons a l ih => simp only [List.map_cons, List.sum_cons, List.length_cons]; have := hf a; omega
  have h4 := this g.tasks (fun t => ((init g n).phase t).rank) (by
    intro x; cases (init g n).phase x <;> simp [Phase.rank])
  split <;> omega

theorem checkWF_sound (g : Graph Tid) (lvl : Tid → Nat) (h : checkWF g lvl = true) : g.WF := by
  unfold checkWF at h
  simp only [Bool.and_eq_true, decide_eq_true_eq, List.all_eq_true] at h
  refine ⟨h.1, ?_, ⟨lvl, ?_⟩⟩
  · intro t ht d hd; exact (h.2 t ht d hd).1
  · intro t ht d hd; exact (h.2 t ht d hd).2

end LccModel.Sched

/-
  The wording of a `has_entry` key path (`KeyPathMatcher.build_description`: the keys, each written by `jsonify`, joined with
  `" -> "`) can be read back: every key token is self-delimiting (a JSON string ends at its first unescaped quote, a number at
  its last digit), so two different paths never share a sentence.  Helper definitions and lemmas for `Props/C17Keys.lean`.
-/
import LccModel.Model.Matcher

namespace LccModel.Matcher

def hexVal (a : Char) : Nat := if a.isDigit then a.toNat - 48 else a.toNat - 87

/-- reads ONE escaped character back (the inverse of `escChar`) -/
def unesc1 (s : Str) : Option (Char × Str) :=
  match s with
  | [] => none
  | c :: r =>
    if c = '\\' then
      match r with
      | x :: t =>
        if x = '"' then some ('"', t) else if x = '\\' then some ('\\', t) else if x = 'n' then some ('\n', t)
        else if x = 'r' then some ('\r', t) else if x = 't' then some ('\t', t) else if x = 'b' then some (Char.ofNat 8, t)
        else if x = 'f' then some (Char.ofNat 12, t)
        else match t with
          | _ :: _ :: a :: b :: u => some (Char.ofNat (hexVal a * 16 + hexVal b), u)
          | _ => none
      | [] => none
    else some (c, r)

theorem hex_roundtrip : ∀ n < 32, hexVal (hexDigit (n / 16)) * 16 + hexVal (hexDigit (n % 16)) = n := by
  decide +kernel

theorem char_eq_of_toNat {c d : Char} (h : c.toNat = d.toNat) : c = d := by
  apply Char.ext; exact UInt32.toNat_inj.mp h

theorem unesc1_esc (c : Char) (r : Str) : unesc1 (escChar c ++ r) = some (c, r) := by
  unfold escChar
  split
  · subst_vars; simp [unesc1]
  split
  · subst_vars; simp [unesc1]
  split
  · subst_vars; simp [unesc1]
  split
  · subst_vars; simp [unesc1]
  split
  · subst_vars; simp [unesc1]
  split
  · rename_i h; simp [unesc1]; exact char_eq_of_toNat (by simp [h])
  split
  · rename_i h; simp [unesc1]; exact char_eq_of_toNat (by simp [h])
  split
  · rename_i h; simp [unesc1, hex_roundtrip _ h]
  · rename_i h1 h2 _ _ _ _ _ _; simp [unesc1, h2]

/-- the escapes form a prefix code -/
theorem escChar_prefix_code (c c' : Char) (r r' : Str) (h : escChar c ++ r = escChar c' ++ r') : c = c' ∧ r = r' := by
  have := unesc1_esc c r
  rw [h, unesc1_esc] at this
  simp at this; exact ⟨this.1.symm, this.2.symm⟩

/-- no escape starts with a double quote -/
theorem escChar_not_quote (c : Char) (r r' : Str) : escChar c ++ r ≠ '"' :: r' := by
  intro h
  have h1 := unesc1_esc c r
  rw [h] at h1
  simp [unesc1] at h1
  obtain ⟨rfl, rfl⟩ := h1
  simp [escChar] at h

/-- an escaped body followed by the closing quote reads back in one way only -/
theorem escBody_inj : ∀ (s s' r r' : Str), s.flatMap escChar ++ '"' :: r = s'.flatMap escChar ++ '"' :: r' → s = s' ∧ r = r'
  | [], [], r, r', h => by simpa using h
  | [], c' :: s', r, r', h => by
    simp only [List.flatMap_nil, List.nil_append, List.flatMap_cons, List.append_assoc] at h
    exact absurd h.symm (escChar_not_quote _ _ _)
  | c :: s, [], r, r', h => by
    simp only [List.flatMap_nil, List.nil_append, List.flatMap_cons, List.append_assoc] at h
    exact absurd h (escChar_not_quote _ _ _)
  | c :: s, c' :: s', r, r', h => by
    simp only [List.flatMap_cons, List.append_assoc] at h
    obtain ⟨rfl, h2⟩ := escChar_prefix_code _ _ _ _ h
    obtain ⟨rfl, rfl⟩ := escBody_inj s s' r r' h2
    exact ⟨rfl, rfl⟩

theorem jsonStr_append_inj (s s' r r' : Str) (h : jsonStr s ++ r = jsonStr s' ++ r') : s = s' ∧ r = r' := by
  simp only [jsonStr, List.cons_append, List.append_assoc, List.cons.injEq, true_and] at h
  exact escBody_inj s s' r r' h

/-- tokens made of characters of one class, each followed by nothing or by a character outside the class -/
theorem token_split (P : Char → Bool) : ∀ (d d' r r' : Str), (∀ c ∈ d, P c = true) → (∀ c ∈ d', P c = true) →
    (∀ c t, r = c :: t → P c = false) → (∀ c t, r' = c :: t → P c = false) → d ++ r = d' ++ r' → d = d' ∧ r = r'
  | [], [], _, _, _, _, _, _, h => ⟨rfl, by simpa using h⟩
  | [], c :: t, r, r', _, hd', hr, _, h => by
    have := hr c (t ++ r') (by simpa using h)
    simp [hd' c (by simp)] at this
  | c :: t, [], r, r', hd, _, _, hr', h => by
    have := hr' c (t ++ r) (by simpa using h.symm)
    simp [hd c (by simp)] at this
  | c :: t, c' :: t', r, r', hd, hd', hr, hr', h => by
    simp only [List.cons_append, List.cons.injEq] at h
    obtain ⟨rfl, h2⟩ := h
    obtain ⟨rfl, rfl⟩ := token_split P t t' r r' (fun x hx => hd x (by simp [hx])) (fun x hx => hd' x (by simp [hx])) hr hr' h2
    exact ⟨rfl, rfl⟩

/-- what follows a key in a path wording: nothing, or the separator (which starts with a blank) -/
def Stops (r : Str) : Prop := r = [] ∨ ∃ t, r = ' ' :: t

theorem Stops.notDigit {r : Str} (h : Stops r) : ∀ c t, r = c :: t → c.isDigit = false := by
  intro c t hr
  rcases h with h | ⟨u, h⟩
  · simp [h] at hr
  · rw [h] at hr; simp only [List.cons.injEq] at hr; rw [← hr.1]; decide

theorem natStr_digits (n : Nat) : ∀ c ∈ natStr n, c.isDigit = true :=
  fun _ h => Nat.isDigit_of_mem_toDigits (by decide) (by decide) h

theorem natStr_inj {m n : Nat} (h : natStr m = natStr n) : m = n := by
  unfold natStr at h
  rw [← Nat.ofDigitChars_ten_toDigits (n := m), ← Nat.ofDigitChars_ten_toDigits (n := n), h]

theorem natStr_head_digit (n : Nat) : ∃ c t, natStr n = c :: t ∧ c.isDigit = true := by
  cases h : natStr n with
  | nil => exact absurd h Nat.toDigits_ne_nil
  | cons c t => exact ⟨c, t, rfl, natStr_digits n c (by simp [h])⟩

theorem intStr_append_inj (i i' : Int) (r r' : Str) (hr : Stops r) (hr' : Stops r') (h : intStr i ++ r = intStr i' ++ r') :
    i = i' ∧ r = r' := by
  unfold intStr at h
  split at h <;> split at h
  · simp only [List.cons_append, List.cons.injEq, true_and] at h
    obtain ⟨h1, h2⟩ := token_split Char.isDigit _ _ r r' (natStr_digits _) (natStr_digits _) hr.notDigit hr'.notDigit h
    have := natStr_inj h1
    exact ⟨by omega, h2⟩
  · obtain ⟨c, t, hc, hd⟩ := natStr_head_digit i'.natAbs
    rw [hc] at h; simp only [List.cons_append, List.cons.injEq] at h
    rw [← h.1] at hd; exact absurd hd (by decide)
  · obtain ⟨c, t, hc, hd⟩ := natStr_head_digit i.natAbs
    rw [hc] at h; simp only [List.cons_append, List.cons.injEq] at h
    rw [h.1] at hd; exact absurd hd (by decide)
  · obtain ⟨h1, h2⟩ := token_split Char.isDigit _ _ r r' (natStr_digits _) (natStr_digits _) hr.notDigit hr'.notDigit h
    have := natStr_inj h1
    exact ⟨by omega, h2⟩

theorem intStr_head (i : Int) : ∃ c t, intStr i = c :: t ∧ c ≠ '"' := by
  unfold intStr; split
  · exact ⟨'-', _, rfl, by decide⟩
  · obtain ⟨c, t, hc, hd⟩ := natStr_head_digit i.natAbs
    exact ⟨c, t, hc, by intro h; rw [h] at hd; exact absurd hd (by decide)⟩

/-- a key token is self-delimiting -/
theorem keyJson_append_inj (k k' : Key) (r r' : Str) (hr : Stops r) (hr' : Stops r') (h : k.json ++ r = k'.json ++ r') :
    k = k' ∧ r = r' := by
  cases k with
  | str s =>
    cases k' with
    | str s' => obtain ⟨rfl, rfl⟩ := jsonStr_append_inj s s' r r' h; exact ⟨rfl, rfl⟩
    | int i' =>
      obtain ⟨c, t, hc, hq⟩ := intStr_head i'
      simp only [Key.json, jsonStr, hc, List.cons_append, List.cons.injEq] at h
      exact absurd h.1.symm hq
  | int i =>
    cases k' with
    | str s' =>
      obtain ⟨c, t, hc, hq⟩ := intStr_head i
      simp only [Key.json, jsonStr, hc, List.cons_append, List.cons.injEq] at h
      exact absurd h.1 hq
    | int i' => obtain ⟨rfl, rfl⟩ := intStr_append_inj i i' r r' hr hr' h; exact ⟨rfl, rfl⟩

theorem keyJson_ne_nil (k : Key) : k.json ≠ [] := by
  cases k with
  | str s => simp [Key.json, jsonStr]
  | int i => obtain ⟨c, t, hc, _⟩ := intStr_head i; simp [Key.json, hc]

/-- what follows the first key of a path wording -/
def pathTail : List Key → Str
  | [] => []
  | k :: ks => c!" -> " ++ pathDesc (k :: ks)

theorem pathDesc_cons (k : Key) (ks : List Key) : pathDesc (k :: ks) = k.json ++ pathTail ks := by
  cases ks with
  | nil => simp [pathDesc, joinWith, pathTail]
  | cons k' ks => simp [pathDesc, joinWith, pathTail]

theorem pathTail_stops (ks : List Key) : Stops (pathTail ks) := by
  cases ks with
  | nil => exact Or.inl rfl
  | cons k ks => exact Or.inr ⟨_, rfl⟩

theorem pathDesc_inj : ∀ (p q : List Key), pathDesc p = pathDesc q → p = q
  | [], [], _ => rfl
  | [], k :: ks, h => by
    rw [pathDesc_cons] at h
    have : k.json = [] := by
      have h' := h.symm; simp only [pathDesc, List.map_nil, joinWith] at h'
      exact (List.append_eq_nil_iff.mp h').1
    exact absurd this (keyJson_ne_nil k)
  | k :: ks, [], h => by
    rw [pathDesc_cons] at h
    have : k.json = [] := by
      simp only [pathDesc, List.map_nil, joinWith] at h
      exact (List.append_eq_nil_iff.mp h).1
    exact absurd this (keyJson_ne_nil k)
  | k :: ks, k' :: ks', h => by
    rw [pathDesc_cons, pathDesc_cons] at h
    obtain ⟨rfl, h2⟩ := keyJson_append_inj k k' _ _ (pathTail_stops ks) (pathTail_stops ks') h
    cases ks with
    | nil =>
      cases ks' with
      | nil => rfl
      | cons a as => simp [pathTail] at h2
    | cons b bs =>
      cases ks' with
      | nil => simp [pathTail] at h2
      | cons a as =>
        simp only [pathTail, List.append_cancel_left_eq] at h2
        rw [pathDesc_inj (b :: bs) (a :: as) h2]

end LccModel.Matcher

/-
  Lemmas about `check_dependencies`, `check_fixtures_in_suites`, the sets of used fixtures and the
  run-time behaviour of `ScheduledFixtures` for accepted registries.  Core Lean only.
-/
import LccModel.Lemmas.Fixture

namespace LccModel.Fixture
open LccModel.Loops

/-! ### declarative specification of a valid registry -/

def NoForbidden (R : Registry) : Prop := ∀ f ∈ R, f.name ≠ "fixture_name"
def ParamsKnown (R : Registry) : Prop := ∀ f ∈ R, ∀ p ∈ fparams f, p ∈ names R
def Acyclic (R : Registry) : Prop := ∀ n, ¬ Path R n n
def NoScopeInversion (R : Registry) : Prop :=
  ∀ f ∈ R, ∀ p ∈ fparams f, ∀ g ∈ R, g.name = p → f.scope.level ≤ g.scope.level
def PerThreadOk (R : Registry) : Prop :=
  ∀ f ∈ R, ∀ p ∈ fparams f, ∀ g ∈ R, g.name = p → g.perThread = true → f.scope = .test

theorem checkDependencies_parts (R : Registry) :
    checkDependencies R = .ok () ↔
      checkForbidden R = .ok () ∧ checkResolvable R = .ok () ∧ checkCompliance R = .ok () := by
  unfold checkDependencies
  cases h1 : checkForbidden R with
  | error e => simp
  | ok u =>
    cases u
    cases h2 : checkResolvable R with
    | error e => simp
    | ok u => cases u; simp

theorem checkForbidden_ok_iff (R : Registry) : checkForbidden R = .ok () ↔ NoForbidden R := by
  unfold checkForbidden NoForbidden
  rw [forE_ok_iff]
  constructor
  · intro h f hf e
    have := h f hf
    rw [if_pos e] at this; cases this
  · intro h f hf
    rw [if_neg (h f hf)]

theorem checkResolvable_ok_iff' (R : Registry) :
    checkResolvable R = .ok () ↔ ∀ f ∈ R, ∃ d, getFixtureDependencies R f.name = .ok d := by
  unfold checkResolvable
  rw [forE_ok_iff]
  constructor
  · intro h f hf
    have := h f hf
    cases hd : getFixtureDependencies R f.name with
    | error e => simp [hd] at this
    | ok d => exact ⟨d, rfl⟩
  · intro h f hf
    obtain ⟨d, hd⟩ := h f hf
    simp [hd]

theorem names_length (R : Registry) : (names R).length = R.length := by simp [names]

theorem getFixtureDependencies_not_outOfFuel (R : Registry) (n : String) :
    getFixtureDependencies R n ≠ .error .outOfFuel := by
  unfold getFixtureDependencies fuelFor
  apply deps_not_outOfFuel R _ n [] (by simp) (by simp) (by simp)
  rw [names_length]; simp

theorem path_src_known {R : Registry} {a b : String} (h : Path R a b) : a ∈ names R := by
  have : ∃ p, p ∈ P R a := by
    cases h with
    | edge h => exact ⟨_, h⟩
    | cons h _ => exact ⟨_, h⟩
  obtain ⟨p, hp⟩ := this
  unfold P at hp
  cases hl : lookup R a with
  | none => simp [hl] at hp
  | some f => exact lookup_isSome_iff.mp (by simp [hl])

theorem mem_of_mem_names {R : Registry} {n : String} (h : n ∈ names R) : ∃ f ∈ R, f.name = n := by
  unfold names at h
  obtain ⟨f, hf, e⟩ := List.mem_map.mp h
  exact ⟨f, hf, e⟩

theorem checkResolvable_ok_iff (R : Registry) (wf : WF R) :
    checkResolvable R = .ok () ↔ ParamsKnown R ∧ Acyclic R := by
  rw [checkResolvable_ok_iff']
  constructor
  · intro h
    refine ⟨?_, ?_⟩
    · intro f hf p hp
      obtain ⟨d, hd⟩ := h f hf
      unfold getFixtureDependencies fuelFor at hd
      obtain ⟨f', hl, _, hsub⟩ := deps_ok_inv hd
      rw [lookup_of_mem wf hf] at hl
      injection hl with hl; subst hl
      exact lookup_isSome_iff.mp (hsub p hp).1
    · intro n hp
      obtain ⟨f, hf, e⟩ := mem_of_mem_names (path_src_known hp)
      obtain ⟨d, hd⟩ := h f hf
      rw [e] at hd
      exact deps_ok_no_self_path hd hp
  · rintro ⟨hk, hac⟩ f hf
    cases hd : getFixtureDependencies R f.name with
    | ok d => exact ⟨d, rfl⟩
    | error e =>
      exfalso
      have hne := getFixtureDependencies_not_outOfFuel R f.name
      unfold getFixtureDependencies at hd hne
      rcases deps_error_cases R _ _ [] e (mem_names_of_mem hf) (by simp) hd with h | ⟨x, _, hx⟩ | ⟨p, x, _, hp, hx, hpn⟩
      · subst h; exact hne hd
      · exact hac x hx
      · obtain ⟨g, hg, e⟩ := mem_of_mem_names hx
        have hl := lookup_of_mem wf hg
        rw [e] at hl
        rw [P_of_lookup hl] at hp
        exact hpn (hk g hg p hp)

theorem lookup_eq_some_iff {R : Registry} (wf : WF R) {n : String} {g : Fixture} :
    lookup R n = some g ↔ g ∈ R ∧ g.name = n := by
  constructor
  · intro h; exact ⟨lookup_mem h, lookup_name h⟩
  · rintro ⟨hg, e⟩; rw [← e]; exact lookup_of_mem wf hg

theorem checkCompliance_ok_iff (R : Registry) (wf : WF R) (hk : ParamsKnown R) :
    checkCompliance R = .ok () ↔ NoScopeInversion R ∧ PerThreadOk R := by
  unfold checkCompliance
  rw [forE_ok_iff]
  constructor
  · intro h
    have key : ∀ f ∈ R, ∀ p ∈ fparams f, ∀ g ∈ R, g.name = p →
        ¬ (g.perThread = true ∧ f.scope ≠ .test) ∧ ¬ (g.scope.level < f.scope.level) := by
      intro f hf p hp g hg e
      have := (forE_ok_iff _ _).mp (h f hf) p hp
      unfold checkDirect at this
      rw [(lookup_eq_some_iff wf).mpr ⟨hg, e⟩] at this
      simp only at this
      split at this
      · cases this
      · rename_i h1
        split at this
        · cases this
        · rename_i h2; exact ⟨h1, h2⟩
    refine ⟨?_, ?_⟩
    · intro f hf p hp g hg e
      have := (key f hf p hp g hg e).2
      omega
    · intro f hf p hp g hg e hpt
      have := (key f hf p hp g hg e).1
      apply Classical.byContradiction
      intro hne; exact this ⟨hpt, hne⟩
  · rintro ⟨hs, hpt⟩ f hf
    rw [forE_ok_iff]
    intro p hp
    obtain ⟨g, hl⟩ := lookup_some_of_mem_names (hk f hf p hp)
    obtain ⟨hg, e⟩ := (lookup_eq_some_iff wf).mp hl
    unfold checkDirect
    rw [hl]
    simp only
    rw [if_neg, if_neg]
    · have := hs f hf p hp g hg e; omega
    · rintro ⟨h1, h2⟩; exact h2 (hpt f hf p hp g hg e h1)

theorem checkDependencies_ok_iff_spec (R : Registry) (wf : WF R) :
    checkDependencies R = .ok () ↔
      NoForbidden R ∧ ParamsKnown R ∧ Acyclic R ∧ NoScopeInversion R ∧ PerThreadOk R := by
  rw [checkDependencies_parts, checkForbidden_ok_iff, checkResolvable_ok_iff R wf]
  constructor
  · rintro ⟨h1, ⟨h2, h3⟩, h4⟩
    have := (checkCompliance_ok_iff R wf h2).mp h4
    exact ⟨h1, h2, h3, this.1, this.2⟩
  · rintro ⟨h1, h2, h3, h4, h5⟩
    exact ⟨h1, ⟨h2, h3⟩, (checkCompliance_ok_iff R wf h2).mpr ⟨h4, h5⟩⟩

/-- which error `check_dependencies` raises, and that it is witnessed by a real defect -/
theorem checkDependencies_error_cases (R : Registry) (wf : WF R) {e : Err}
    (h : checkDependencies R = .error e) :
    (∃ f ∈ R, e = .forbiddenName f.name ∧ f.name = "fixture_name") ∨
    (∃ x, e = .circular x ∧ Path R x x) ∨
    (∃ p x, e = .unknownParam p x ∧ p ∈ P R x ∧ x ∈ names R ∧ p ∉ names R) ∨
    (∃ f ∈ R, ∃ g ∈ R, e = .perThreadDep f.name g.name ∧ g.name ∈ fparams f ∧ g.perThread = true ∧ f.scope ≠ .test) ∨
    (∃ f ∈ R, ∃ g ∈ R, e = .scopeInversion f.name g.name ∧ g.name ∈ fparams f ∧ g.scope.level < f.scope.level) := by
  unfold checkDependencies at h
  cases h1 : checkForbidden R with
  | error e1 =>
    rw [h1] at h; injection h with h; subst h
    unfold checkForbidden at h1
    obtain ⟨f, hf, hs⟩ := forE_error h1
    split at hs
    · rename_i hn; injection hs with hs; exact .inl ⟨f, hf, hs.symm, hn⟩
    · cases hs
  | ok u =>
    cases u
    rw [h1] at h; simp only at h
    cases h2 : checkResolvable R with
    | error e2 =>
      rw [h2] at h; injection h with h; subst h
      unfold checkResolvable at h2
      obtain ⟨f, hf, hs⟩ := forE_error h2
      cases hd : getFixtureDependencies R f.name with
      | ok d => simp [hd] at hs
      | error e' =>
        simp only [hd] at hs
        injection hs with hs; subst hs
        have hne := getFixtureDependencies_not_outOfFuel R f.name
        unfold getFixtureDependencies at hd hne
        rcases deps_error_cases R _ _ [] _ (mem_names_of_mem hf) (by simp) hd with h | h | h
        · subst h; exact absurd hd hne
        · exact .inr (.inl h)
        · exact .inr (.inr (.inl h))
    | ok u =>
      cases u
      rw [h2] at h; simp only at h
      have hk := ((checkResolvable_ok_iff R wf).mp h2).1
      unfold checkCompliance at h
      obtain ⟨f, hf, hs⟩ := forE_error h
      obtain ⟨p, hp, hs⟩ := forE_error hs
      obtain ⟨g, hl⟩ := lookup_some_of_mem_names (hk f hf p hp)
      obtain ⟨hg, hn⟩ := (lookup_eq_some_iff wf).mp hl
      unfold checkDirect at hs
      rw [hl] at hs
      simp only at hs
      split at hs
      · rename_i hc
        injection hs with hs
        exact .inr (.inr (.inr (.inl ⟨f, hf, g, hg, hs.symm, by rw [hn]; exact hp, hc.1, hc.2⟩)))
      · split at hs
        · rename_i hc
          injection hs with hs
          exact .inr (.inr (.inr (.inr ⟨f, hf, g, hg, hs.symm, by rw [hn]; exact hp, hc⟩)))
        · cases hs

/-! ### `check_fixtures_in_suites` -/

/-- what `check_fixtures_in_suite` demands of one suite -/
def SuiteOk (R : Registry) (s : Suite) : Prop :=
  (∀ n ∈ s.fixtures, ∃ f, lookup R n = some f ∧ f.perThread = false ∧ Scope.suite.level ≤ f.scope.level) ∧
  (∀ t ∈ s.tests, ∀ n ∈ t.fixtures, n ∈ names R)

theorem checkSuiteUse_ok_iff (R : Registry) (sp n : String) :
    checkSuiteUse R sp n = .ok () ↔
      ∃ f, lookup R n = some f ∧ f.perThread = false ∧ Scope.suite.level ≤ f.scope.level := by
  unfold checkSuiteUse
  cases hl : lookup R n with
  | none => simp
  | some f =>
    simp only
    constructor
    · intro h
      split at h
      · cases h
      · rename_i h1
        split at h
        · cases h
        · rename_i h2
          exact ⟨f, rfl, by simpa using h1, by omega⟩
    · rintro ⟨f', e, h1, h2⟩
      injection e with e; subst e
      rw [if_neg (by simp [h1]), if_neg (by omega)]

theorem checkTest_ok_iff (R : Registry) (t : Test) :
    checkTest R t = .ok () ↔ ∀ n ∈ t.fixtures, n ∈ names R := by
  unfold checkTest
  rw [forE_ok_iff]
  constructor
  · intro h n hn
    have := h n hn
    split at this
    · cases this
    · rename_i hs
      apply lookup_isSome_iff.mp
      cases hx : lookup R n <;> simp_all
  · intro h n hn
    rw [if_neg]
    have := lookup_isSome_iff.mpr (h n hn)
    cases hx : lookup R n <;> simp_all

mutual
theorem checkSuite_ok_iff (R : Registry) : ∀ (s : Suite),
    checkSuite R s = .ok () ↔ ∀ s' ∈ flattenSuite s, SuiteOk R s'
  | .mk path dis inj args tests subs => by
    unfold checkSuite flattenSuite
    have ih := checkSuites_ok_iff R subs
    have hself : (forE (oset (inj ++ args)) (checkSuiteUse R path) = .ok () ∧ forE tests (checkTest R) = .ok ()) ↔
        SuiteOk R (.mk path dis inj args tests subs) := by
      unfold SuiteOk
      simp only [Suite.fixtures, Suite.injected, Suite.setupArgs, Suite.tests]
      rw [forE_ok_iff, forE_ok_iff]
      constructor
      · rintro ⟨h1, h2⟩
        exact ⟨fun n hn => (checkSuiteUse_ok_iff R path n).mp (h1 n hn),
               fun t ht => (checkTest_ok_iff R t).mp (h2 t ht)⟩
      · rintro ⟨h1, h2⟩
        exact ⟨fun n hn => (checkSuiteUse_ok_iff R path n).mpr (h1 n hn),
               fun t ht => (checkTest_ok_iff R t).mpr (h2 t ht)⟩
    cases h1 : forE (oset (inj ++ args)) (checkSuiteUse R path) with
    | error e =>
      simp only [List.mem_cons, forall_eq_or_imp]
      constructor
      · intro h; cases h
      · rintro ⟨h, _⟩
        have := hself.mpr h
        rw [h1] at this; cases this.1
    | ok u =>
      cases u
      simp only
      cases h2 : forE tests (checkTest R) with
      | error e =>
        simp only [List.mem_cons, forall_eq_or_imp]
        constructor
        · intro h; cases h
        · rintro ⟨h, _⟩
          have := hself.mpr h
          rw [h2] at this; cases this.2
      | ok u =>
        cases u
        simp only [List.mem_cons, forall_eq_or_imp]
        rw [ih]
        have := hself.mp ⟨h1, h2⟩
        constructor
        · intro h; exact ⟨this, h⟩
        · intro h; exact h.2
theorem checkSuites_ok_iff (R : Registry) : ∀ (S : List Suite),
    checkSuites R S = .ok () ↔ ∀ s' ∈ flattenSuites S, SuiteOk R s'
  | [] => by simp [checkSuites, flattenSuites]
  | s :: rest => by
    unfold checkSuites flattenSuites
    have ih1 := checkSuite_ok_iff R s
    have ih2 := checkSuites_ok_iff R rest
    cases h : checkSuite R s with
    | error e =>
      simp only [List.mem_append]
      constructor
      · intro h'; cases h'
      · intro h'
        have := ih1.mpr (fun s' hs' => h' s' (.inl hs'))
        rw [h] at this; cases this
    | ok u =>
      cases u
      simp only [List.mem_append]
      rw [ih2]
      have := ih1.mp h
      constructor
      · intro h' s' hs'
        rcases hs' with hs' | hs'
        · exact this s' hs'
        · exact h' s' hs'
      · intro h' s' hs'; exact h' s' (.inr hs')
end

mutual
theorem checkSuite_error_validation (R : Registry) : ∀ (s : Suite) (e : Err),
    checkSuite R s = .error e → e.isValidation = true
  | .mk path dis inj args tests subs, e => by
    intro h
    unfold checkSuite at h
    cases h1 : forE (oset (inj ++ args)) (checkSuiteUse R path) with
    | error e1 =>
      rw [h1] at h; injection h with h; subst h
      obtain ⟨n, _, hs⟩ := forE_error h1
      unfold checkSuiteUse at hs
      cases hl : lookup R n with
      | none => simp [hl] at hs; subst hs; rfl
      | some f =>
        simp only [hl] at hs
        split at hs
        · injection hs with hs; subst hs; rfl
        · split at hs
          · injection hs with hs; subst hs; rfl
          · cases hs
    | ok u =>
      cases u
      rw [h1] at h; simp only at h
      cases h2 : forE tests (checkTest R) with
      | error e2 =>
        rw [h2] at h; injection h with h; subst h
        obtain ⟨t, _, hs⟩ := forE_error h2
        unfold checkTest at hs
        obtain ⟨n, _, hs⟩ := forE_error hs
        split at hs
        · injection hs with hs; subst hs; rfl
        · cases hs
      | ok u =>
        cases u
        rw [h2] at h; simp only at h
        exact checkSuites_error_validation R subs e h
theorem checkSuites_error_validation (R : Registry) : ∀ (S : List Suite) (e : Err),
    checkSuites R S = .error e → e.isValidation = true
  | [], e => by intro h; simp [checkSuites] at h
  | s :: rest, e => by
    intro h
    unfold checkSuites at h
    cases h1 : checkSuite R s with
    | error e1 =>
      rw [h1] at h; injection h with h; subst h
      exact checkSuite_error_validation R s _ h1
    | ok u =>
      cases u
      rw [h1] at h; simp only at h
      exact checkSuites_error_validation R rest e h
end

/-! ### used fixtures -/

mutual
theorem withInh_mem_flatten_suite : ∀ (s : Suite) (inh b : Bool) (s' : Suite),
    (b, s') ∈ withInhSuite inh s → s' ∈ flattenSuite s
  | .mk path dis inj args tests subs, inh, b, s' => by
    intro h
    unfold withInhSuite at h
    unfold flattenSuite
    rcases List.mem_cons.mp h with h | h
    · injection h with _ h; subst h; simp
    · exact List.mem_cons_of_mem _ (withInh_mem_flatten_suites subs _ b s' h)
theorem withInh_mem_flatten_suites : ∀ (S : List Suite) (inh b : Bool) (s' : Suite),
    (b, s') ∈ withInhSuites inh S → s' ∈ flattenSuites S
  | [], _, _, _ => by intro h; simp [withInhSuites] at h
  | s :: rest, inh, b, s' => by
    intro h
    unfold withInhSuites at h
    unfold flattenSuites
    rcases List.mem_append.mp h with h | h
    · exact List.mem_append.mpr (.inl (withInh_mem_flatten_suite s inh b s' h))
    · exact List.mem_append.mpr (.inr (withInh_mem_flatten_suites rest inh b s' h))
end

theorem mem_foldl_oupdate {α : Type} (g : α → List String) : ∀ (l : List α) (acc : List String) (x : String),
    x ∈ l.foldl (fun acc t => oupdate acc (g t)) acc ↔ x ∈ acc ∨ ∃ t ∈ l, x ∈ g t := by
  intro l
  induction l with
  | nil => intro acc x; simp
  | cons a rest ih =>
    intro acc x
    simp only [List.foldl_cons, ih, mem_oupdate, List.mem_cons]
    constructor
    · rintro ((h | h) | ⟨t, ht, h⟩)
      · exact .inl h
      · exact .inr ⟨a, .inl rfl, h⟩
      · exact .inr ⟨t, .inr ht, h⟩
    · rintro (h | ⟨t, rfl | ht, h⟩)
      · exact .inl (.inl h)
      · exact .inl (.inr h)
      · exact .inr ⟨t, ht, h⟩

/-- `get_fixtures_used_in_suite`: the suite's own fixtures and those of its tests that will run —
    provided the suite gets initialised at all -/
theorem mem_usedInSuite (inh : Bool) (s : Suite) (fd : Bool) (x : String) :
    x ∈ usedInSuite inh s fd ↔
      suiteInitialised inh s fd = true ∧ (x ∈ s.fixtures ∨ ∃ t ∈ s.tests, testRuns inh s t fd = true ∧ x ∈ t.fixtures) := by
  unfold usedInSuite suiteInitialised
  by_cases h : (!hasEnabledTests inh s && !fd) = true
  · rw [if_pos h]
    simp only [Bool.and_eq_true, Bool.not_eq_eq_eq_not, Bool.not_true] at h
    simp [h.1, h.2]
  · rw [if_neg h]
    have h' : (hasEnabledTests inh s || fd) = true := by
      cases h1 : hasEnabledTests inh s <;> cases h2 : fd <;> simp_all
    rw [mem_foldl_oupdate]
    simp only [h', true_and, List.mem_filter, testRuns]
    constructor
    · rintro (h | ⟨t, ⟨ht, hr⟩, hx⟩)
      · exact .inl h
      · exact .inr ⟨t, ht, hr, hx⟩
    · rintro (h | ⟨t, ht, hr, hx⟩)
      · exact .inl h
      · exact .inr ⟨t, ⟨ht, hr⟩, hx⟩

mutual
theorem usedRec_sub : ∀ (s : Suite) (inh incl b : Bool) (s' : Suite) (x : String),
    (b, s') ∈ withInhSuite inh s → x ∈ usedInSuite b s' incl → x ∈ usedRec inh incl s
  | .mk path dis inj args tests subs, inh, incl, b, s', x => by
    intro h hx
    unfold withInhSuite at h
    unfold usedRec
    rcases List.mem_cons.mp h with h | h
    · injection h with h1 h2; subst h1; subst h2
      exact usedRecList_acc subs _ incl _ x hx
    · exact usedRecList_sub subs _ incl _ b s' x h hx
theorem usedRecList_sub : ∀ (S : List Suite) (inh incl : Bool) (acc : List String) (b : Bool) (s' : Suite) (x : String),
    (b, s') ∈ withInhSuites inh S → x ∈ usedInSuite b s' incl → x ∈ usedRecList inh incl S acc
  | [], _, _, _, _, _, _ => by intro h; simp [withInhSuites] at h
  | s :: rest, inh, incl, acc, b, s', x => by
    intro h hx
    unfold withInhSuites at h
    unfold usedRecList
    rcases List.mem_append.mp h with h | h
    · exact usedRecList_acc rest inh incl _ x (mem_oupdate.mpr (.inr (usedRec_sub s inh incl b s' x h hx)))
    · exact usedRecList_sub rest inh incl _ b s' x h hx
theorem usedRecList_acc : ∀ (S : List Suite) (inh incl : Bool) (acc : List String) (x : String),
    x ∈ acc → x ∈ usedRecList inh incl S acc
  | [], _, _, _, _ => by intro h; simpa [usedRecList] using h
  | s :: rest, inh, incl, acc, x => by
    intro h
    unfold usedRecList
    exact usedRecList_acc rest inh incl _ x (mem_oupdate.mpr (.inl h))
end

mutual
theorem usedRec_known (R : Registry) : ∀ (s : Suite) (inh incl : Bool) (x : String),
    (∀ s' ∈ flattenSuite s, SuiteOk R s') → x ∈ usedRec inh incl s → x ∈ names R
  | .mk path dis inj args tests subs, inh, incl, x => by
    intro hok hx
    unfold usedRec at hx
    unfold flattenSuite at hok
    refine usedRecList_known R subs _ incl _ x (fun s' hs' => hok s' (List.mem_cons_of_mem _ hs')) ?_ hx
    intro y hy
    have hself := hok _ (List.mem_cons_self ..)
    rcases (mem_usedInSuite _ _ _ _).mp hy with ⟨_, hy | ⟨t, ht, _, hy⟩⟩
    · obtain ⟨f, hl, _⟩ := hself.1 y hy
      exact lookup_isSome_iff.mp (by simp [hl])
    · exact hself.2 t ht y hy
theorem usedRecList_known (R : Registry) : ∀ (S : List Suite) (inh incl : Bool) (acc : List String) (x : String),
    (∀ s' ∈ flattenSuites S, SuiteOk R s') → (∀ y ∈ acc, y ∈ names R) → x ∈ usedRecList inh incl S acc → x ∈ names R
  | [], _, _, acc, x => by intro _ hacc hx; simp [usedRecList] at hx; exact hacc x hx
  | s :: rest, inh, incl, acc, x => by
    intro hok hacc hx
    unfold usedRecList at hx
    unfold flattenSuites at hok
    refine usedRecList_known R rest inh incl _ x (fun s' hs' => hok s' (List.mem_append.mpr (.inr hs'))) ?_ hx
    intro y hy
    rcases mem_oupdate.mp hy with hy | hy
    · exact hacc y hy
    · exact usedRec_known R s inh incl y (fun s' hs' => hok s' (List.mem_append.mpr (.inl hs'))) hy
end

end LccModel.Fixture

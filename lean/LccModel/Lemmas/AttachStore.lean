/-
  Lemmas about M14c (`Model/AttachStore.lean`): the reachability invariant of the copying store and the
  frame / history lemmas the C06 theorems are assembled from.
-/
import LccModel.Model.AttachStore

namespace LccModel.AttachStore

/-- Invariant of the COPYING store: attachment i-nodes are allocated, are not reachable through any
    user path, and hold exactly the content recorded when they were attached. -/
structure Inv (s : FS) : Prop where
  attLt : ∀ n i, s.att n = some i → i < s.next
  srcLt : ∀ p i, s.src p = some i → i < s.next
  disj : ∀ n p i, s.att n = some i → s.src p ≠ some i
  snapOk : ∀ n, attContent s n = s.snap n

theorem inv_init : Inv init := by
  constructor <;> simp [init, attContent]

theorem run_append (mode : Mode) : ∀ (a b : List Op) (s : FS),
    run mode s (a ++ b) = (run mode s a).bind (fun s' => run mode s' b)
  | [], b, s => by simp [run]
  | op :: a, b, s => by
    simp only [List.cons_append, run]
    cases h : step mode s op with
    | none => simp
    | some r => simp [run_append mode a b r.1]

/-- the recorded content of an attachment is written once, by the call that stores it -/
theorem snap_stable {mode : Mode} {s s' : FS} {op : Op} {o : Outcome} (hs : step mode s op = some (s', o))
    {n : Nat} {c : Content} (h : s.snap n = some c) : s'.snap n = some c := by
  cases op with
  | write p c' =>
    simp only [step] at hs; split at hs <;> (injection hs with hs; injection hs with hs _; subst hs; simpa [setData, setSrc, alloc] using h)
  | append p c' =>
    simp only [step] at hs; split at hs <;> (injection hs with hs; injection hs with hs _; subst hs; simpa [setData, setSrc, alloc] using h)
  | replace p c' =>
    simp only [step] at hs; injection hs with hs; injection hs with hs _; subst hs; simpa [setData, setSrc, alloc] using h
  | unlink p =>
    simp only [step] at hs
    split at hs
    · injection hs with hs; injection hs with hs _; subst hs; simpa using h
    · split at hs <;> (injection hs with hs; injection hs with hs _; subst hs; simpa [setSrc] using h)
  | symlink p q =>
    simp only [step] at hs
    split at hs
    · split at hs
      · cases hs
      · injection hs with hs; injection hs with hs _; subst hs; simpa using h
    · cases hs
  | save m p =>
    simp only [step] at hs
    split at hs
    · rename_i ha hn
      have hne : n ≠ m := by intro e; subst e; rw [hn] at h; cases h
      split at hs
      · injection hs with hs; injection hs with hs _; subst hs; exact h
      · cases mode <;> (injection hs with hs; injection hs with hs _; subst hs; simp [hne, h])
    · cases hs
  | saveContent m c' =>
    simp only [step] at hs
    split at hs
    · rename_i ha hn
      have hne : n ≠ m := by intro e; subst e; rw [hn] at h; cases h
      injection hs with hs; injection hs with hs _; subst hs; simp [hne, h]
    · cases hs

theorem run_snap_stable {mode : Mode} : ∀ (ops : List Op) {s s' : FS}, run mode s ops = some s' →
    ∀ {n : Nat} {c : Content}, s.snap n = some c → s'.snap n = some c
  | [], s, s', h, n, c, hc => by simp [run] at h; subst h; exact hc
  | op :: rest, s, s', h, n, c, hc => by
    simp only [run] at h
    cases hs : step mode s op with
    | none => rw [hs] at h; cases h
    | some r =>
      rw [hs] at h
      exact run_snap_stable rest h (snap_stable (o := r.2) (by rw [hs]) hc)

/-- every operation keeps the invariant of the copying store -/
theorem step_inv {s s' : FS} {op : Op} {o : Outcome} (h : Inv s) (hs : step .copy s op = some (s', o)) : Inv s' := by
  obtain ⟨h1, h2, h3, h4⟩ := h
  cases op with
  | write p c =>
    simp only [step] at hs
    split at hs
    · rename_i i hr
      injection hs with hs; injection hs with hs _; subst hs
      have hno : ∀ n, s.att n ≠ some i := fun n e => h3 n (target s p) i e hr
      constructor
      · exact h1
      · exact h2
      · exact h3
      · intro n
        have := h4 n
        simp only [attContent, setData] at this ⊢
        cases ha : s.att n with
        | none => simpa [ha] using this
        | some j =>
          have hji : j ≠ i := fun e => hno n (e ▸ ha)
          simpa [ha, hji] using this
    · injection hs with hs; injection hs with hs _; subst hs
      constructor
      · intro n i hi; have := h1 n i hi; simp [setSrc, alloc, setData] at hi ⊢; omega
      · intro q i hi
        simp only [setSrc, alloc, setData] at hi ⊢
        split at hi
        · injection hi with hi; omega
        · have := h2 q i hi; omega
      · intro n q i hi
        simp only [setSrc, alloc, setData] at hi ⊢
        have hlt := h1 n i hi
        split
        · intro e; injection e with e; omega
        · exact h3 n q i hi
      · intro n
        have := h4 n
        simp only [attContent, setSrc, alloc, setData] at this ⊢
        cases ha : s.att n with
        | none => simpa [ha] using this
        | some j =>
          have hlt := h1 n j ha
          have hji : j ≠ s.next := by omega
          simpa [ha, hji] using this
  | append p c =>
    simp only [step] at hs
    split at hs
    · rename_i i hr
      injection hs with hs; injection hs with hs _; subst hs
      have hno : ∀ n, s.att n ≠ some i := fun n e => h3 n (target s p) i e hr
      constructor
      · exact h1
      · exact h2
      · exact h3
      · intro n
        have := h4 n
        simp only [attContent, setData] at this ⊢
        cases ha : s.att n with
        | none => simpa [ha] using this
        | some j =>
          have hji : j ≠ i := fun e => hno n (e ▸ ha)
          simpa [ha, hji] using this
    · injection hs with hs; injection hs with hs _; subst hs
      constructor
      · intro n i hi; have := h1 n i hi; simp [setSrc, alloc, setData] at hi ⊢; omega
      · intro q i hi
        simp only [setSrc, alloc, setData] at hi ⊢
        split at hi
        · injection hi with hi; omega
        · have := h2 q i hi; omega
      · intro n q i hi
        simp only [setSrc, alloc, setData] at hi ⊢
        have hlt := h1 n i hi
        split
        · intro e; injection e with e; omega
        · exact h3 n q i hi
      · intro n
        have := h4 n
        simp only [attContent, setSrc, alloc, setData] at this ⊢
        cases ha : s.att n with
        | none => simpa [ha] using this
        | some j =>
          have hlt := h1 n j ha
          have hji : j ≠ s.next := by omega
          simpa [ha, hji] using this
  | replace p c =>
    simp only [step] at hs
    injection hs with hs; injection hs with hs _; subst hs
    constructor
    · intro n i hi; have := h1 n i hi; simp [setSrc, alloc, setData] at hi ⊢; omega
    · intro q i hi
      simp only [setSrc, alloc, setData] at hi ⊢
      split at hi
      · injection hi with hi; omega
      · have := h2 q i hi; omega
    · intro n q i hi
      simp only [setSrc, alloc, setData] at hi ⊢
      have hlt := h1 n i hi
      split
      · intro e; injection e with e; omega
      · exact h3 n q i hi
    · intro n
      have := h4 n
      simp only [attContent, setSrc, alloc, setData] at this ⊢
      cases ha : s.att n with
      | none => simpa [ha] using this
      | some j =>
        have hlt := h1 n j ha
        have hji : j ≠ s.next := by omega
        simpa [ha, hji] using this
  | unlink p =>
    simp only [step] at hs
    split at hs
    · injection hs with hs; injection hs with hs _; subst hs
      exact ⟨h1, h2, h3, h4⟩
    · split at hs
      · injection hs with hs; injection hs with hs _; subst hs
        constructor
        · exact h1
        · intro q i hi
          simp only [setSrc] at hi
          split at hi
          · cases hi
          · exact h2 q i hi
        · intro n q i hi
          simp only [setSrc] at hi ⊢
          split
          · intro e; cases e
          · exact h3 n q i hi
        · exact h4
      · injection hs with hs; injection hs with hs _; subst hs
        exact ⟨h1, h2, h3, h4⟩
  | symlink p q =>
    simp only [step] at hs
    split at hs
    · split at hs
      · cases hs
      · injection hs with hs; injection hs with hs _; subst hs
        exact ⟨h1, h2, h3, h4⟩
    · cases hs
  | save m p =>
    simp only [step] at hs
    split at hs
    · rename_i ha hn
      split at hs
      · injection hs with hs; injection hs with hs _; subst hs
        exact ⟨h1, h2, h3, h4⟩
      · rename_i i hr
        injection hs with hs; injection hs with hs _; subst hs
        constructor
        · intro n j hj
          simp only [alloc, setData] at hj ⊢
          split at hj
          · injection hj with hj; omega
          · have := h1 n j hj; omega
        · intro q j hj
          have := h2 q j hj
          simp only [alloc, setData] at hj ⊢; omega
        · intro n q j hj
          simp only [alloc, setData] at hj ⊢
          split at hj
          · injection hj with hj; subst hj
            intro e; have := h2 q _ e; omega
          · exact h3 n q j hj
        · intro n
          have := h4 n
          simp only [attContent, alloc, setData] at this ⊢
          by_cases hnm : n = m
          · subst hnm; simp
          · simp only [hnm, if_false]
            cases ha' : s.att n with
            | none => simpa [ha'] using this
            | some j =>
              have hlt := h1 n j ha'
              have hji : j ≠ s.next := by omega
              simpa [ha', hji] using this
    · cases hs
  | saveContent m c =>
    simp only [step] at hs
    split at hs
    · rename_i ha hn
      injection hs with hs; injection hs with hs _; subst hs
      constructor
      · intro n j hj
        simp only [alloc, setData] at hj ⊢
        split at hj
        · injection hj with hj; omega
        · have := h1 n j hj; omega
      · intro q j hj
        have := h2 q j hj
        simp only [alloc, setData] at hj ⊢; omega
      · intro n q j hj
        simp only [alloc, setData] at hj ⊢
        split at hj
        · injection hj with hj; subst hj
          intro e; have := h2 q _ e; omega
        · exact h3 n q j hj
      · intro n
        have := h4 n
        simp only [attContent, alloc, setData] at this ⊢
        by_cases hnm : n = m
        · subst hnm; simp
        · simp only [hnm, if_false]
          cases ha' : s.att n with
          | none => simpa [ha'] using this
          | some j =>
            have hlt := h1 n j ha'
            have hji : j ≠ s.next := by omega
            simpa [ha', hji] using this
    · cases hs

theorem run_inv : ∀ (ops : List Op) {s s' : FS}, Inv s → run .copy s ops = some s' → Inv s'
  | [], s, s', h, hr => by simp [run] at hr; subst hr; exact h
  | op :: rest, s, s', h, hr => by
    simp only [run] at hr
    cases hs : step .copy s op with
    | none => rw [hs] at hr; cases hr
    | some r =>
      rw [hs] at hr
      exact run_inv rest (step_inv (o := r.2) h (by rw [hs])) hr

end LccModel.AttachStore

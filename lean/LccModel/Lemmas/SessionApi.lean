/-
  The API layer M3a (`Model/SessionApi.lean`) refines the core session model: a call sequence runs exactly like the
  core op sequence it is lowered to.  Core Lean only.
-/
import LccModel.Model.SessionApi

namespace LccModel.SessionApi
open LccModel.Session

theorem runOps_append : ∀ (a b : List (Nat × Op)) (s : St),
    runOps s (a ++ b) = (match runOps s a with | .error e => .error e | .ok s' => runOps s' b)
  | [], _, _ => rfl
  | (t, o) :: a, b, s => by
    simp only [List.cons_append, runOps]
    cases step s t o with
    | error e => rfl
    | ok s1 => exact runOps_append a b s1

/-- **every call sequence IS a core op sequence** (`lowerAll`): what is proved of all op sequences holds of all
    call sequences -/
theorem runCalls_eq_runOps : ∀ (cs : List (Nat × Call)) (s : St), runCalls s cs = runOps s (lowerAll s cs)
  | [], _ => rfl
  | (t, c) :: rest, s => by
    simp only [runCalls, stepCall, lowerAll]
    cases h : runOps s ((lower s c).map (fun o => (t, o))) with
    | error e => simp [h]
    | ok s1 =>
      simp only []
      rw [runOps_append, h]
      exact runCalls_eq_runOps rest s1

theorem stepCall_single (s : St) (t : Nat) (c : Call) (o : Op) (h : lower s c = [o]) : stepCall s t c = step s t o := by
  simp only [stepCall, h, List.map, runOps]
  cases step s t o <;> rfl

end LccModel.SessionApi

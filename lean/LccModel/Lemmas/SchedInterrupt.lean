/-
  M1 after a keyboard interrupt (the loop of the repaired `skip_all_tasks`): helper lemmas for C08.

  * `aborted_nothing_runnable`: the release is eager — in every aborted reachable state no task of the graph
    is runnable (a task still in `remaining_tasks` has an uncompleted dependency);
  * `forced_or_remaining_run`: a task that was still in `remaining_tasks` when the abort flag was set is, from
    then on, either still there or `forced` — it can only ever be skipped (`remaining_at_abort_only_skipped`).
-/
import LccModel.Lemmas.SchedProgress

namespace LccModel.Sched

variable {Tid : Type} [DecidableEq Tid]

/-- `pop_runnable_tasks(remaining, completed, len(remaining))` returns every runnable task -/
theorem popped_all (g : Graph Tid) (s : State Tid) :
    popped g s g.tasks.length = g.tasks.filter (runnable g s) := by
  unfold popped
  exact List.take_of_length_le (List.length_filter_le _ _)

theorem runnable_true_iff {g : Graph Tid} {s : State Tid} {t : Tid} :
    runnable g s t = true ↔ s.phase t = .remaining ∧ ∀ d ∈ g.deps t, s.phase d = .completed := by
  unfold runnable
  simp only [Bool.and_eq_true, decide_eq_true_eq, List.all_eq_true]

/-- after one round of `skip_all_tasks` no task of the graph is runnable any more -/
theorem release_no_runnable (g : Graph Tid) (s : State Tid) (t : Tid) (ht : t ∈ g.tasks) :
    runnable g (release g s) t = false := by
  cases hr : runnable g (release g s) t with
  | false => rfl
  | true =>
    exfalso
    obtain ⟨h1, h2⟩ := runnable_true_iff.mp hr
    rcases release_forced_cases g s t with ⟨_, hp⟩ | ⟨_, _, hq, _⟩
    · rw [hp] at h1
      have hdeps : ∀ d ∈ g.deps t, s.phase d = .completed := by
        intro d hd
        have := h2 d hd
        rcases release_forced_cases g s d with ⟨_, hpd⟩ | ⟨_, _, hqd, _⟩
        · rw [← hpd]; exact this
        · rw [hqd] at this; cases this
      have hrun : runnable g s t = true := runnable_true_iff.mpr ⟨h1, hdeps⟩
      have hmem : t ∈ popped g s g.tasks.length := by
        rw [popped_all]; exact List.mem_filter.mpr ⟨ht, hrun⟩
      have : (release g s).phase t = .queued := by simp [release, hmem]
      rw [hp, h1] at this; cases this
    · rw [hq] at h1; cases h1

theorem runnable_congr {g : Graph Tid} {s s' : State Tid}
    (h1 : ∀ y, s'.phase y = .remaining ↔ s.phase y = .remaining)
    (h2 : ∀ y, s'.phase y = .completed ↔ s.phase y = .completed) (t : Tid) :
    runnable g s' t = runnable g s t := by
  rw [Bool.eq_iff_iff, runnable_true_iff, runnable_true_iff, h1 t]
  constructor
  · intro ⟨a, b⟩; exact ⟨a, fun d hd => (h2 d).mp (b d hd)⟩
  · intro ⟨a, b⟩; exact ⟨a, fun d hd => (h2 d).mpr (b d hd)⟩

/-- **Eager release**: in an aborted reachable state nothing runnable is left in `remaining_tasks`. -/
theorem aborted_nothing_runnable {g : Graph Tid} {n : Nat} {s : State Tid} (hr : Reachable g n s)
    (ha : s.aborted = true) : ∀ t ∈ g.tasks, runnable g s t = false := by
  induction hr with
  | init => simp [init, empty] at ha
  | @step s s' l hrs hs ih =>
    cases l with
    | start x c =>
      obtain ⟨_, hq, _, rfl⟩ := step_start hs
      intro t ht
      rw [← ih ha t ht]
      apply runnable_congr <;> intro y <;> dsimp only <;> by_cases e : y = x <;> simp [e, hq]
    | finish x r =>
      obtain ⟨_, hq, _, rfl⟩ := step_finish hs
      intro t ht
      rw [← ih ha t ht]
      apply runnable_congr <;> intro y <;> dsimp only <;> by_cases e : y = x <;> simp [e, hq]
    | receive x =>
      obtain ⟨_, _, rfl⟩ := step_receive hs
      split at ha
      · split
        · exact release_no_runnable g _
        · rename_i h1 h2; exact absurd h1 h2
      · rename_i hab
        simp only [dispatch_aborted] at ha
        exact absurd ha hab
    | interrupt =>
      obtain ⟨_, rfl⟩ := step_interrupt hs
      exact release_no_runnable g _

theorem aborted_mono {g : Graph Tid} {n : Nat} {s s' : State Tid} {l : Label Tid}
    (hs : step g n s l = some s') (ha : s.aborted = true) : s'.aborted = true := by
  cases l with
  | start x c => obtain ⟨_, _, _, rfl⟩ := step_start hs; exact ha
  | finish x r => obtain ⟨_, _, _, rfl⟩ := step_finish hs; exact ha
  | receive x =>
    obtain ⟨_, _, rfl⟩ := step_receive hs
    split
    · simpa using ha
    · simpa using ha
  | interrupt => obtain ⟨hab, _⟩ := step_interrupt hs; rw [ha] at hab; cases hab

/-- after the abort flag is set, a task that is still in `remaining_tasks` can leave it only as `forced` -/
theorem forced_or_remaining_step {g : Graph Tid} {n : Nat} {s s' : State Tid} {l : Label Tid}
    (hs : step g n s l = some s') (ha : s.aborted = true) (t : Tid)
    (h : s.forced t = true ∨ s.phase t = .remaining) : s'.forced t = true ∨ s'.phase t = .remaining := by
  cases l with
  | start x c =>
    obtain ⟨_, hq, _, rfl⟩ := step_start hs
    rcases h with h | h
    · exact Or.inl h
    · right
      have : t ≠ x := by intro e; subst e; rw [hq] at h; cases h
      simp [this, h]
  | finish x r =>
    obtain ⟨_, hq, _, rfl⟩ := step_finish hs
    rcases h with h | h
    · exact Or.inl h
    · right
      have : t ≠ x := by intro e; subst e; rw [hq] at h; cases h
      simp [this, h]
  | receive x =>
    obtain ⟨_, hq, rfl⟩ := step_receive hs
    rw [if_pos ha]
    rcases release_forced_cases g
      { s with phase := fun y => if y = x then .completed else s.phase y, clock := s.clock + 1 } t with ⟨hf, hp⟩ | ⟨_, _, _, hf, _⟩
    · rcases h with h | h
      · left; rw [hf]; exact h
      · right
        have : t ≠ x := by intro e; subst e; rw [hq] at h; cases h
        rw [hp]; simp [this, h]
    · exact Or.inl hf
  | interrupt => obtain ⟨hab, _⟩ := step_interrupt hs; rw [ha] at hab; cases hab

theorem forced_or_remaining_run (g : Graph Tid) (n : Nat) : ∀ (ls : List (Label Tid)) (s s' : State Tid),
    run g n s ls = some s' → s.aborted = true → ∀ t, (s.forced t = true ∨ s.phase t = .remaining) →
    s'.aborted = true ∧ (s'.forced t = true ∨ s'.phase t = .remaining) := by
  intro ls
  induction ls with
  | nil => intro s s' h ha t ht; simp only [run] at h; injection h with h; subst h; exact ⟨ha, ht⟩
  | cons l ls ih =>
    intro s s' h ha t ht
    simp only [run] at h
    cases hs : step g n s l with
    | none => rw [hs] at h; cases h
    | some s1 =>
      rw [hs] at h
      exact ih s1 s' h (aborted_mono hs ha) t (forced_or_remaining_step hs ha t ht)

/-- **A task still waiting when the interrupt arrives is never run**: whatever happens afterwards, the only
    decision ever recorded for it is `skip`. -/
theorem remaining_at_abort_only_skipped {g : Graph Tid} {n : Nat} {s s' : State Tid} (hr : Reachable g n s)
    (ha : s.aborted = true) (t : Tid) (hrem : s.phase t = .remaining)
    (ls : List (Label Tid)) (h : run g n s ls = some s') (m : Mode) (hm : s'.mode t = some m) : m = .skip := by
  have hinv' := inv_reachable (reachable_run g n ls s s' hr h)
  rcases (forced_or_remaining_run g n ls s s' h ha t (Or.inr hrem)).2 with hf | hp
  · exact hinv'.forcedSkip t m hf hm
  · rw [hinv'.modeNone t (Or.inl hp)] at hm; cases hm

end LccModel.Sched

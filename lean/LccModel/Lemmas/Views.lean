/-
  Lemmas for C20: the JUnit marks of one test, the per-suite counters, statistics as a permutation-invariant count over
  `Report.all_tests()`, and the partition computed by `compute_diff`.
-/
import LccModel.Model.Views
import LccModel.Lemmas.Writer
set_option linter.unusedSimpArgs false
set_option linter.unusedVariables false
namespace LccModel.Views
open LccModel.Report LccModel.Writer

/-! ### JUnit marks -/

def isFailMark (c : JChild) : Bool := c.kind == .failure || c.kind == .error
def hasFailureOrError (c : JCase) : Bool := c.children.any isFailMark
def hasSkipped (c : JCase) : Bool := c.children.any (fun ch => ch.kind == .skipped)

theorem entryChild_fail (d : String) (e : Entry) : (entryChild d e).any isFailMark = !e.ok := by
  cases e with
  | log level msg t => cases level <;> simp [entryChild, Entry.ok, isFailMark]
  | check desc ok det t => cases ok <;> simp [entryChild, Entry.ok, isFailMark]
  | attachment _ _ _ _ => simp [entryChild, Entry.ok]
  | url _ _ _ => simp [entryChild, Entry.ok]

theorem entryChild_noSkipped (d : String) (e : Entry) : (entryChild d e).any (fun ch => ch.kind == .skipped) = false := by
  cases e with
  | log level msg t => cases level <;> simp [entryChild]
  | check desc ok det t => cases ok <;> simp [entryChild]
  | attachment _ _ _ _ => simp [entryChild]
  | url _ _ _ => simp [entryChild]

theorem entries_fail_mark (d : String) : ∀ es : List Entry,
    (es.flatMap (entryChild d)).any isFailMark = !es.all Entry.ok
  | [] => rfl
  | e :: es => by
    rw [List.flatMap_cons, List.any_append, entryChild_fail, entries_fail_mark d es, List.all_cons, Bool.not_and]

theorem entries_no_skipped (d : String) : ∀ es : List Entry,
    (es.flatMap (entryChild d)).any (fun ch => ch.kind == .skipped) = false
  | [] => rfl
  | e :: es => by
    rw [List.flatMap_cons, List.any_append, entryChild_noSkipped, entries_no_skipped d es]; rfl

/-- the children of a non-skipped test hold a failure / error mark iff some log is not successful -/
theorem steps_fail_mark : ∀ steps : List Step,
    (steps.flatMap (fun s => s.entries.flatMap (entryChild s.description))).any isFailMark = !steps.all Step.ok
  | [] => rfl
  | s :: ss => by
    rw [List.flatMap_cons, List.any_append, entries_fail_mark, steps_fail_mark ss, List.all_cons, Bool.not_and]
    rfl

theorem steps_no_skipped_mark : ∀ steps : List Step,
    (steps.flatMap (fun s => s.entries.flatMap (entryChild s.description))).any (fun ch => ch.kind == .skipped) = false
  | [] => rfl
  | s :: ss => by
    rw [List.flatMap_cons, List.any_append, entries_no_skipped, steps_no_skipped_mark ss]; rfl

theorem junit_marks (t : TestResult) (h : resultInv t.result = true) (hfin : t.result.status ≠ none) :
    (hasFailureOrError (junitCase t) = true ↔ t.result.status = some .failed) ∧
    (hasSkipped (junitCase t) = true ↔ t.result.status = some .skipped) := by
  unfold resultInv at h
  cases hs : t.result.status with
  | none => exact absurd hs hfin
  | some st =>
    rw [hs] at h
    cases st
    · -- passed
      simp only [Bool.and_eq_true] at h
      have hne : ¬ (some Status.passed = some Status.skipped) := by decide
      simp only [hasFailureOrError, hasSkipped, junitCase, hs, if_neg hne]
      rw [steps_fail_mark, steps_no_skipped_mark, h.2]
      simp
    · -- failed
      simp only [Bool.and_eq_true, Bool.not_eq_true'] at h
      have hne : ¬ (some Status.failed = some Status.skipped) := by decide
      simp only [hasFailureOrError, hasSkipped, junitCase, hs, if_neg hne]
      rw [steps_fail_mark, steps_no_skipped_mark, h.2]
      simp
    · -- skipped
      simp [hasFailureOrError, hasSkipped, junitCase, hs, isFailMark]
    · -- disabled
      simp only [List.isEmpty_iff] at h
      have hne : ¬ (some Status.disabled = some Status.skipped) := by decide
      simp only [hasFailureOrError, hasSkipped, junitCase, hs, if_neg hne, h]
      simp



/-! ### per-suite counters -/

theorem filter_map_length {α β : Type} (f : α → β) (p : β → Bool) (q : α → Bool) (l : List α) (h : ∀ a ∈ l, p (f a) = q a) :
    ((l.map f).filter p).length = (l.filter q).length := by
  induction l with
  | nil => rfl
  | cons x xs ih =>
    have hx := h x (by simp)
    have := ih (fun a ha => h a (by simp [ha]))
    simp only [List.map_cons, List.filter_cons, hx]
    split <;> simp [this]

/-- the `failures` / `skipped` attributes of a `<testsuite>` equal the number of its `<testcase>`s carrying a
    failure-or-error / skipped child, when every test is finished and as the writer leaves it -/
theorem suite_counters_match_marks (p : Path) (s : SuiteResult)
    (h : ∀ t ∈ s.tests, resultInv t.result = true ∧ t.result.status ≠ none) :
    (junitSuite p s).failures = ((junitSuite p s).cases.filter hasFailureOrError).length ∧
    (junitSuite p s).skipped = ((junitSuite p s).cases.filter hasSkipped).length := by
  simp only [junitSuite, countStatus]
  constructor
  · symm
    apply filter_map_length
    intro t ht
    have := (junit_marks t (h t ht).1 (h t ht).2).1
    cases hf : hasFailureOrError (junitCase t) <;> cases hs : t.result.status with
    | none => exact absurd hs (h t ht).2
    | some st =>
      rw [hf, hs] at this
      cases st <;> simp_all
  · symm
    apply filter_map_length
    intro t ht
    have := (junit_marks t (h t ht).1 (h t ht).2).2
    cases hf : hasSkipped (junitCase t) <;> cases hs : t.result.status with
    | none => exact absurd hs (h t ht).2
    | some st =>
      rw [hf, hs] at this
      cases st <;> simp_all

/-! ### statistics = enumeration of `Report.all_tests()` -/

theorem flattenSuites_append (a b : List SuiteResult) : flattenSuites (a ++ b) = flattenSuites a ++ flattenSuites b := by
  induction a with
  | nil => rfl
  | cons x xs ih => simp [flattenSuites, ih, List.append_assoc]

theorem flattenSuites_perm {l l' : List SuiteResult} (h : l.Perm l') : (flattenSuites l).Perm (flattenSuites l') := by
  induction h with
  | nil => exact List.Perm.refl _
  | cons x _ ih => simp only [flattenSuites]; exact List.Perm.append_left _ ih
  | swap x y l =>
    simp only [flattenSuites, ← List.append_assoc]
    exact List.Perm.append_right _ List.perm_append_comm
  | trans _ _ ih1 ih2 => exact ih1.trans ih2

theorem flatMap_perm {α β : Type} (f : α → List β) {l l' : List α} (h : l.Perm l') : (l.flatMap f).Perm (l'.flatMap f) := by
  induction h with
  | nil => exact List.Perm.refl _
  | cons x _ ih => simp only [List.flatMap_cons]; exact List.Perm.append_left _ ih
  | swap x y l =>
    simp only [List.flatMap_cons, ← List.append_assoc]
    exact List.Perm.append_right _ List.perm_append_comm
  | trans _ _ ih1 ih2 => exact ih1.trans ih2

theorem tests_of_results (ss : List SuiteResult) :
    (flattenResults ss).filterMap anyIsTest = (flattenSuites ss).flatMap (fun s => s.tests) := by
  unfold flattenResults
  induction flattenSuites ss with
  | nil => rfl
  | cons s rest ih =>
    simp only [List.flatMap_cons, List.filterMap_append, ih]
    congr 1
    have h1 : ∀ o : Option Result, (optPhase o).filterMap anyIsTest = [] := by
      intro o; cases o <;> rfl
    have h2 : ∀ ts : List TestResult, (ts.map AnyResult.test).filterMap anyIsTest = ts := by
      intro ts; induction ts with
      | nil => rfl
      | cons t ts ih => simp [anyIsTest, ih]
    simp [h1, h2]

/-- the tests `ReportStats.from_report` counts are a permutation of `Report.all_tests()` -/
theorem statsTests_perm (r : Report) : ((allResults r).filterMap anyIsTest).Perm (allTests r) := by
  have h0 : (allResults r).filterMap anyIsTest = (flattenSuites (view r)).flatMap (fun s => s.tests) := by
    simp only [allResults, List.filterMap_append, tests_of_results]
    cases r.setup <;> cases r.teardown <;> simp [optPhase, anyIsTest, List.filterMap]
  rw [h0]
  unfold allTests allSuites view
  exact flatMap_perm _ (flattenSuites_perm (sortByRank_perm suiteRank _))

theorem countStatus_perm (st : Status) {l l' : List TestResult} (h : l.Perm l') : countStatus st l = countStatus st l' :=
  (h.filter _).length_eq

/-- **stats_counts**: every number of `ReportStats` is the count obtained by enumerating `Report.all_tests()` -/
theorem stats_eq_enumeration (r : Report) :
    (statsOf r).total = (allTests r).length ∧
    (statsOf r).passed = countStatus .passed (allTests r) ∧ (statsOf r).failed = countStatus .failed (allTests r) ∧
    (statsOf r).skipped = countStatus .skipped (allTests r) ∧ (statsOf r).disabled = countStatus .disabled (allTests r) := by
  have hp := statsTests_perm r
  exact ⟨hp.length_eq, countStatus_perm _ hp, countStatus_perm _ hp, countStatus_perm _ hp, countStatus_perm _ hp⟩



/-! ### `lcc diff` -/

theorem find_erase_perm (p : String) : ∀ (l : List DTest) (t : DTest), l.find? (fun x => x.path == p) = some t →
    l.Perm (t :: eraseFirstPath p l) ∧ t.path = p
  | [], t, h => by simp at h
  | x :: xs, t, h => by
    by_cases hx : (x.path == p) = true
    · simp only [List.find?, hx] at h
      cases h
      exact ⟨by simp [eraseFirstPath, hx], by simpa using hx⟩
    · simp only [Bool.not_eq_true] at hx
      simp only [List.find?, hx] at h
      obtain ⟨ih, hp⟩ := find_erase_perm p xs t h
      refine ⟨?_, hp⟩
      simp only [eraseFirstPath, hx, Bool.false_eq_true, if_false]
      exact (ih.cons x).trans (List.Perm.swap t x _)

theorem mem_eraseFirstPath (p : String) : ∀ (l : List DTest) (t : DTest), t ∈ eraseFirstPath p l → t ∈ l
  | [], t, h => by simp [eraseFirstPath] at h
  | x :: xs, t, h => by
    unfold eraseFirstPath at h
    split at h
    · exact List.mem_cons_of_mem _ h
    · rcases List.mem_cons.mp h with rfl | h
      · simp
      · exact List.mem_cons_of_mem _ (mem_eraseFirstPath p xs t h)

theorem erase_nodup (p : String) : ∀ (l : List DTest), (l.map DTest.path).Nodup →
    (eraseFirstPath p l |>.map DTest.path).Nodup ∧
    ((∃ t ∈ l, t.path = p) → ∀ t ∈ eraseFirstPath p l, t.path ≠ p)
  | [], _ => by simp [eraseFirstPath]
  | x :: xs, h => by
    simp only [List.map_cons, List.nodup_cons] at h
    obtain ⟨ih1, ih2⟩ := erase_nodup p xs h.2
    by_cases hx : (x.path == p) = true
    · have hxp : x.path = p := by simpa using hx
      simp only [eraseFirstPath, hx, if_true]
      refine ⟨h.2, fun _ t ht heq => ?_⟩
      exact h.1 (by rw [hxp, ← heq]; exact List.mem_map_of_mem ht)
    · simp only [Bool.not_eq_true] at hx
      have hxp : x.path ≠ p := by simpa using hx
      simp only [eraseFirstPath, hx, Bool.false_eq_true, if_false, List.map_cons, List.nodup_cons]
      refine ⟨⟨fun hmem => ?_, ih1⟩, ?_⟩
      · obtain ⟨y, hy, hyp⟩ := List.mem_map.mp hmem
        exact h.1 (by rw [← hyp]; exact List.mem_map_of_mem (mem_eraseFirstPath p xs y hy))
      · rintro ⟨t, ht, htp⟩ t' ht'
        rcases List.mem_cons.mp ht' with rfl | ht'
        · exact hxp
        · rcases List.mem_cons.mp ht with rfl | ht
          · exact absurd htp hxp
          · exact ih2 ⟨t, ht, htp⟩ t' ht'

/-- **diff_partition**, part 1: every test of report 1 falls in exactly one of removed / status-changed / unchanged,
    every test of report 2 in exactly one of added / status-changed / unchanged (as lists with multiplicity), and the
    classes are what their names say -/
theorem diff_partition_perm : ∀ (l1 l2 : List DTest),
    l1.Perm ((computeDiff l1 l2).removed ++ (computeDiff l1 l2).changed.map Prod.fst ++ (computeDiff l1 l2).unchanged.map Prod.fst) ∧
    l2.Perm ((computeDiff l1 l2).added ++ (computeDiff l1 l2).changed.map Prod.snd ++ (computeDiff l1 l2).unchanged.map Prod.snd) ∧
    (∀ ab ∈ (computeDiff l1 l2).changed, ab.1.path = ab.2.path ∧ ab.1.status ≠ ab.2.status) ∧
    (∀ ab ∈ (computeDiff l1 l2).unchanged, ab.1.path = ab.2.path ∧ ab.1.status = ab.2.status)
  | [], l2 => by simp [computeDiff]
  | t1 :: l1, l2 => by
    unfold computeDiff
    split
    · -- not found: removed
      obtain ⟨h1, h2, h3, h4⟩ := diff_partition_perm l1 l2
      exact ⟨by simpa using h1.cons t1, h2, h3, h4⟩
    · rename_i t2 hfind
      obtain ⟨hperm, hpath⟩ := find_erase_perm t1.path l2 t2 hfind
      obtain ⟨h1, h2, h3, h4⟩ := diff_partition_perm l1 (eraseFirstPath t1.path l2)
      by_cases hst : (t2.status != t1.status) = true
      · simp only [hst, if_true]
        have hne : t1.status ≠ t2.status := by intro h; simp [h] at hst
        refine ⟨?_, ?_, ?_, h4⟩
        · simp only [List.map_cons]
          refine (h1.cons t1).trans ?_
          rw [List.append_assoc, List.append_assoc, List.cons_append]
          exact List.perm_middle.symm
        · refine hperm.trans ?_
          simp only [List.map_cons]
          refine (h2.cons t2).trans ?_
          rw [List.append_assoc, List.append_assoc, List.cons_append]
          exact List.perm_middle.symm
        · intro ab hab
          rcases List.mem_cons.mp hab with rfl | hab
          · exact ⟨hpath.symm, hne⟩
          · exact h3 ab hab
      · simp only [hst, Bool.false_eq_true, if_false]
        have heq : t1.status = t2.status := by
          simp only [bne_iff_ne, ne_eq, Decidable.not_not] at hst; exact hst.symm
        refine ⟨?_, ?_, h3, ?_⟩
        · simp only [List.map_cons]
          exact (h1.cons t1).trans List.perm_middle.symm
        · refine hperm.trans ?_
          simp only [List.map_cons]
          exact (h2.cons t2).trans List.perm_middle.symm
        · intro ab hab
          rcases List.mem_cons.mp hab with rfl | hab
          · exact ⟨hpath.symm, heq⟩
          · exact h4 ab hab



theorem find_none_iff (p : String) (l : List DTest) : l.find? (fun x => x.path == p) = none ↔ ∀ t ∈ l, t.path ≠ p := by
  simp [List.find?_eq_none]

theorem added_subset (l1 l2 : List DTest) : ∀ t ∈ (computeDiff l1 l2).added, t ∈ l2 := by
  intro t ht
  exact (diff_partition_perm l1 l2).2.1.mem_iff.mpr (by simp [ht])

theorem removed_subset (l1 l2 : List DTest) : ∀ t ∈ (computeDiff l1 l2).removed, t ∈ l1 := by
  intro t ht
  exact (diff_partition_perm l1 l2).1.mem_iff.mpr (by simp [ht])

/-- **diff_partition**, part 2 (paths unique within report 2): an added test's path does not occur in report 1 -/
theorem added_is_new : ∀ (l1 l2 : List DTest), (l2.map DTest.path).Nodup →
    ∀ t ∈ (computeDiff l1 l2).added, ∀ t1 ∈ l1, t1.path ≠ t.path
  | [], _, _, _, _, _, h => by simp at h
  | t1 :: l1, l2, hnd, t, ht, u, hu => by
    unfold computeDiff at ht
    split at ht
    · rename_i hfind
      rcases List.mem_cons.mp hu with rfl | hu
      · have := (find_none_iff _ _).mp hfind t (added_subset l1 l2 t ht)
        exact fun h => this h.symm
      · exact added_is_new l1 l2 hnd t ht u hu
    · rename_i t2 hfind
      obtain ⟨hperm, hpath⟩ := find_erase_perm t1.path l2 t2 hfind
      obtain ⟨hnd', hno⟩ := erase_nodup t1.path l2 hnd
      have ht' : t ∈ (computeDiff l1 (eraseFirstPath t1.path l2)).added := by
        by_cases hst : (t2.status != t1.status) = true <;> simpa [hst] using ht
      rcases List.mem_cons.mp hu with rfl | hu
      · have hin := added_subset l1 _ t ht'
        have := hno ⟨t2, hperm.mem_iff.mpr (by simp), hpath⟩ t hin
        exact fun h => this h.symm
      · exact added_is_new l1 _ hnd' t ht' u hu

/-- **diff_partition**, part 3 (paths unique within report 1): a removed test's path does not occur in report 2 -/
theorem removed_is_gone : ∀ (l1 l2 : List DTest), (l1.map DTest.path).Nodup →
    ∀ t ∈ (computeDiff l1 l2).removed, ∀ t2 ∈ l2, t2.path ≠ t.path
  | [], _, _, _, h, _, _ => by simp [computeDiff] at h
  | t1 :: l1, l2, hnd, t, ht, u, hu => by
    simp only [List.map_cons, List.nodup_cons] at hnd
    unfold computeDiff at ht
    split at ht
    · rename_i hfind
      rcases List.mem_cons.mp ht with rfl | ht
      · exact (find_none_iff _ _).mp hfind u hu
      · exact removed_is_gone l1 l2 hnd.2 t ht u hu
    · rename_i t2 hfind
      obtain ⟨hperm, hpath⟩ := find_erase_perm t1.path l2 t2 hfind
      have ht' : t ∈ (computeDiff l1 (eraseFirstPath t1.path l2)).removed := by
        by_cases hst : (t2.status != t1.status) = true <;> simpa [hst] using ht
      have htl : t ∈ l1 := removed_subset l1 _ t ht'
      have hne : t.path ≠ t1.path := fun h => hnd.1 (by rw [← h]; exact List.mem_map_of_mem htl)
      rcases List.mem_cons.mp (hperm.mem_iff.mp hu) with rfl | hu'
      · rw [hpath]; exact fun h => hne h.symm
      · exact removed_is_gone l1 _ hnd.2 t ht' u hu'

/-- **diff_self_empty**: the diff of a list of tests with itself has no added, removed or status-changed test -/
theorem diff_self : ∀ l : List DTest,
    (computeDiff l l).added = [] ∧ (computeDiff l l).removed = [] ∧ (computeDiff l l).changed = []
  | [] => by simp [computeDiff]
  | t :: l => by
    obtain ⟨h1, h2, h3⟩ := diff_self l
    simp [computeDiff, List.find?, eraseFirstPath, h1, h2, h3]

/-! ### the JUnit file lists every test exactly once -/

mutual
theorem flattenWithPath_snd : ∀ (parent : Path) (s : SuiteResult), (flattenWithPath parent s).map Prod.snd = flattenSuite s
  | parent, .mk md st en su td ts ss => by
    simp [flattenWithPath, flattenSuite, flattenListWithPath_snd (parent ++ [md.name]) ss]
theorem flattenListWithPath_snd : ∀ (parent : Path) (ss : List SuiteResult),
    (flattenListWithPath parent ss).map Prod.snd = flattenSuites ss
  | _, [] => rfl
  | parent, s :: ss => by
    simp [flattenListWithPath, flattenSuites, flattenWithPath_snd parent s, flattenListWithPath_snd parent ss]
end

theorem flatMap_filter_nonempty {α β γ : Type} (f : α → List β) (g : α → List γ) (l : List α)
    (h : ∀ a, (g a).isEmpty = true → f a = []) :
    (l.filter (fun a => !(g a).isEmpty)).flatMap f = l.flatMap f := by
  induction l with
  | nil => rfl
  | cons x xs ih =>
    by_cases hx : (g x).isEmpty = true
    · simp [List.filter_cons, hx, h x hx, ih]
    · simp only [Bool.not_eq_true] at hx
      simp [List.filter_cons, hx, ih]

/-- the `<testcase>` elements of the JUnit file are exactly the tests of `Report.all_tests()`, in that order -/
theorem junit_cases (r : Report) (jr : JReport) (h : junit r = .ok jr) :
    jr.suites.flatMap (fun s => s.cases) = (allTests r).map junitCase := by
  unfold junit at h
  simp only at h
  split at h
  · cases h
  · cases h
    simp only [List.flatMap_map, junitSuite]
    rw [flatMap_filter_nonempty (fun (ps : Path × SuiteResult) => ps.2.tests.map junitCase)
      (fun (ps : Path × SuiteResult) => ps.2.tests) (allSuitesWithPath r)
      (fun a ha => by simp only [List.isEmpty_iff] at ha; simp [ha])]
    unfold allTests allSuites allSuitesWithPath
    rw [← flattenListWithPath_snd [] (sortDeepList r.suites)]
    simp [List.flatMap_map, List.map_flatMap]

end LccModel.Views

/-
  Lemmas for C18 (writer side): the real `ReportWriter` semantics (`Writer.apply`) run over the replayed stream of a
  report.  The proof follows the stream through one-hole contexts of the report (`ResultFocus`, `SuiteFocus`,
  `ListFocus`): every lookup the writer performs (`find_suite` by path, first match by name; the `_tests` dict) is shown
  to reach exactly the item being rebuilt, which is where the distinct-sibling-names hypothesis is used.
-/
import LccModel.Model.Replay
import LccModel.Lemmas.Sort
set_option linter.unusedSimpArgs false
set_option linter.unusedVariables false
namespace LccModel.Replay
open LccModel.Report LccModel.Writer

/-! ### running the writer over concatenated streams -/

theorem run_append (w : WriterState) (es1 es2 : List Event) :
    run w (es1 ++ es2) = match run w es1 with
      | .ok w' => run w' es2
      | .error e => .error e := by
  induction es1 generalizing w with
  | nil => rfl
  | cons e es ih =>
    simp only [List.cons_append, run]
    cases apply w e with
    | ok w' => simp [ih]
    | error err => rfl

/-- from state `⟨r, act⟩` the stream is handled without error and leaves the report `r'` -/
def RunsTo (r : Report) (act : List (Nat × StepRef)) (es : List Event) (r' : Report) : Prop :=
  ∃ act', run ⟨r, act⟩ es = .ok ⟨r', act'⟩

theorem RunsTo.nil (r : Report) (act) : RunsTo r act [] r := ⟨act, rfl⟩

theorem RunsTo.append {r r1 r2 : Report} {act} {es1 es2 : List Event}
    (h1 : RunsTo r act es1 r1) (h2 : ∀ act1, RunsTo r1 act1 es2 r2) : RunsTo r act (es1 ++ es2) r2 := by
  obtain ⟨a1, h1⟩ := h1
  obtain ⟨a2, h2⟩ := h2 a1
  exact ⟨a2, by rw [run_append, h1]; exact h2⟩

theorem RunsTo.single {r r' : Report} {act act'} {e : Event} (h : apply ⟨r, act⟩ e = .ok ⟨r', act'⟩) :
    RunsTo r act [e] r' := ⟨act', by simp [run, h]⟩

/-! ### one-hole contexts -/

/-- `C` is a one-hole context of the report around the result at `loc`: looking `loc` up in `C x` finds `x`,
    and mutating it gives `C` of the mutated result. -/
@[reducible] def ResultFocus (loc : Loc) (C : Result → Report) : Prop :=
  ∀ (f : Result → Except WriterErr Result) (x : Result),
    modifyResult f loc (C x) = match f x with
      | .ok y => .ok (C y)
      | .error e => .error e

theorem modifyNth_append_last {α : Type} (f : α → α) (pre : List α) (x : α) :
    modifyNth f pre.length (pre ++ [x]) = pre ++ [f x] := by
  induction pre with
  | nil => rfl
  | cons y ys ih => simp [modifyNth, ih]

theorem evTime_ne_zero (now : Time) (h : now ≠ 0) (t : Option Time) : evTime now t ≠ 0 := by
  cases t with
  | none => exact h
  | some t => simp only [evTime]; split <;> assumption

/-- the entry a log-like event appends -/
theorem apply_entryEvent (now : Time) (tid : Nat) (loc : Loc) (d : String) (e : Entry) (w : WriterState) :
    apply w (entryEvent now tid loc d e) = addEntry w loc tid (entryImage now e) := by
  cases e <;> rfl

theorem entries_run (now : Time) (tid : Nat) (loc : Loc) (C : Result → Report) (hC : ResultFocus loc C) (d : String)
    (x : Result) (cur : Step) (hcur : cur.endTime = none) (act : List (Nat × StepRef)) :
    ∀ (es : List Entry) (done : List Entry),
      run ⟨C { x with steps := x.steps ++ [{ cur with entries := done }] },
            (tid, { target := some (loc, x.steps.length), endTime := none }) :: act⟩
          (es.map (entryEvent now tid loc d))
        = .ok ⟨C { x with steps := x.steps ++ [{ cur with entries := done ++ es.map (entryImage now) }] },
               (tid, { target := some (loc, x.steps.length), endTime := none }) :: act⟩
  | [], done => by simp [run]
  | e :: es, done => by
    have ih := entries_run now tid loc C hC d x cur hcur act es (done ++ [entryImage now e])
    simp only [List.map_cons, run, apply_entryEvent]
    have h1 : checkLocation loc (C { x with steps := x.steps ++ [{ cur with entries := done }] }) = .ok () := by
      rw [checkLocation, hC]
    have h2 := hC (addEntryAt x.steps.length (entryImage now e))
      { x with steps := x.steps ++ [{ cur with entries := done }] }
    have hval : addEntryAt x.steps.length (entryImage now e) { x with steps := x.steps ++ [{ cur with entries := done }] }
        = .ok { x with steps := x.steps ++ [{ cur with entries := done ++ [entryImage now e] }] } := by
      simp [addEntryAt, hcur, truthyTime, modifyNth_append_last, addEntryToStep]
    rw [hval] at h2
    simp only [addEntry, h1, List.lookup, beq_self_eq_true, h2]
    simpa [List.append_assoc] using ih

theorem endEvent_cases (t : Option Time) (mk : Time → Event) :
    (keepEnd t = none ∧ endEvent t mk = []) ∨ (∃ e, e ≠ 0 ∧ keepEnd t = some e ∧ endEvent t mk = [mk e]) := by
  cases t with
  | none => left; exact ⟨rfl, rfl⟩
  | some t =>
    by_cases h : t = 0
    · left; subst h; exact ⟨rfl, rfl⟩
    · right; exact ⟨t, h, by simp [keepEnd, h], by simp [endEvent, h]⟩

def newStep (now : Time) (s : Step) : Step :=
  { description := s.description, startTime := some (evTime now s.startTime), endTime := none, entries := [] }
def refAt (loc : Loc) (n : Nat) : StepRef := { target := some (loc, n), endTime := none }

theorem run_cons (w : WriterState) (e : Event) (es : List Event) :
    run w (e :: es) = match apply w e with
      | .ok w' => run w' es
      | .error err => .error err := rfl

theorem step_run (now : Time) (tid : Nat) (loc : Loc) (C : Result → Report) (hC : ResultFocus loc C)
    (x : Result) (act : List (Nat × StepRef)) (s : Step) :
    RunsTo (C x) act (replayStep now tid loc s) (C { x with steps := x.steps ++ [stepImage now s] }) := by
  unfold replayStep
  -- stepStart
  have h1 : apply ⟨C x, act⟩ (.stepStart loc s.description tid (evTime now s.startTime))
      = .ok ⟨C { x with steps := x.steps ++ [newStep now s] }, (tid, refAt loc x.steps.length) :: act⟩ := by
    have hc : stepCount loc (C x) = .ok x.steps.length := by rw [stepCount, hC]
    have hm := hC (fun y => .ok { y with steps := y.steps ++ [newStep now s] }) x
    simp only [newStep] at hm
    simp only [apply, hc, hm, newStep, refAt]
  -- entries
  have h2 := entries_run now tid loc C hC s.description x (newStep now s) rfl act s.entries []
  simp only [List.nil_append, newStep] at h2
  -- end
  rcases endEvent_cases s.endTime (fun t => Event.stepEnd loc s.description tid t) with ⟨hk, he⟩ | ⟨e, hne, hk, he⟩
  · refine ⟨(tid, refAt loc x.steps.length) :: act, ?_⟩
    rw [he, List.append_nil, List.singleton_append, run_cons, h1]
    simp only [refAt, newStep]
    rw [h2]
    simp [stepImage, hk]
  · refine ⟨(tid, { refAt loc x.steps.length with endTime := some e }) :: (tid, refAt loc x.steps.length) :: act, ?_⟩
    rw [he, List.singleton_append, List.cons_append, run_cons, h1]
    simp only [refAt, newStep]
    rw [run_append, h2]
    have hm := hC (fun y => .ok { y with steps := modifyNth (setStepEnd e) x.steps.length y.steps })
      { x with steps := x.steps ++ [{ newStep now s with entries := s.entries.map (entryImage now) }] }
    simp only [newStep] at hm
    simp only [run_cons, run, apply, List.lookup, beq_self_eq_true, hm, modifyNth_append_last, setStepEnd]
    simp [stepImage, hk]

theorem steps_run (now : Time) (tid : Nat) (loc : Loc) (C : Result → Report) (hC : ResultFocus loc C) :
    ∀ (steps : List Step) (x : Result) (act : List (Nat × StepRef)),
      RunsTo (C x) act (replaySteps now tid loc steps) (C { x with steps := x.steps ++ steps.map (stepImage now) })
  | [], x, act => by simpa [replaySteps] using RunsTo.nil (C x) act
  | s :: steps, x, act => by
    have h1 := step_run now tid loc C hC x act s
    have h2 := fun act1 => steps_run now tid loc C hC steps { x with steps := x.steps ++ [stepImage now s] } act1
    have := RunsTo.append h1 h2
    simpa [replaySteps, List.flatMap_cons, List.append_assoc] using this



/-- a started result: its steps, then the guarded end event which finalises it -/
theorem result_run (now : Time) (tid : Nat) (loc : Loc) (C : Result → Report) (hC : ResultFocus loc C)
    (mkEnd : Time → Event)
    (hEnd : ∀ (w : WriterState) (t : Time),
      apply w (mkEnd t) = onReport w (modifyResult (fun x => .ok (finalizeResult t x)) loc w.report))
    (res : Result) (act : List (Nat × StepRef)) :
    RunsTo (C (initResult (evTime now res.startTime))) act
      (replaySteps now tid loc res.steps ++ endEvent res.endTime mkEnd) (C (resultImage now res)) := by
  have h1 := steps_run now tid loc C hC res.steps (initResult (evTime now res.startTime)) act
  simp only [initResult, List.nil_append] at h1
  rcases endEvent_cases res.endTime mkEnd with ⟨hk, he⟩ | ⟨e, hne, hk, he⟩
  · rw [he, List.append_nil]
    simpa [resultImage, hk, initResult] using h1
  · rw [he]
    refine RunsTo.append h1 (fun act1 => ?_)
    apply RunsTo.single (act' := act1)
    rw [hEnd, hC]
    simp [onReport, finalizeResult, resultImage, hk, Result.ok]

/-! ### suites -/

/-- `K` is a one-hole context of the report around the suite at path `p` (whose name is `n`) -/
@[reducible] def SuiteFocus (p : Path) (n : String) (K : SuiteResult → Report) : Prop :=
  ∀ (f : SuiteResult → Except WriterErr SuiteResult) (s : SuiteResult), s.md.name = n →
    liftSuites (K s) (modifySuite f p (K s).suites) = match f s with
      | .ok s' => .ok (K s')
      | .error e => .error e

@[simp] theorem md_setSuites (s : SuiteResult) (x) : (s.setSuites x).md = s.md := by cases s; rfl
@[simp] theorem md_setTests (s : SuiteResult) (x) : (s.setTests x).md = s.md := by cases s; rfl
@[simp] theorem md_setSetup (s : SuiteResult) (x) : (s.setSetup x).md = s.md := by cases s; rfl
@[simp] theorem md_setTeardown (s : SuiteResult) (x) : (s.setTeardown x).md = s.md := by cases s; rfl
@[simp] theorem md_setEndTime (s : SuiteResult) (x) : (s.setEndTime x).md = s.md := by cases s; rfl
@[simp] theorem setSetup_setSetup (s : SuiteResult) (x y) : (s.setSetup x).setSetup y = s.setSetup y := by cases s; rfl
@[simp] theorem setTeardown_setTeardown (s : SuiteResult) (x y) : (s.setTeardown x).setTeardown y = s.setTeardown y := by
  cases s; rfl
@[simp] theorem setTests_setTests (s : SuiteResult) (x y) : (s.setTests x).setTests y = s.setTests y := by cases s; rfl
@[simp] theorem setSuites_setSuites (s : SuiteResult) (x y) : (s.setSuites x).setSuites y = s.setSuites y := by cases s; rfl
@[simp] theorem setup_setSetup (s : SuiteResult) (x) : (s.setSetup x).setup = x := by cases s; rfl
@[simp] theorem teardown_setTeardown (s : SuiteResult) (x) : (s.setTeardown x).teardown = x := by cases s; rfl
@[simp] theorem tests_setTests (s : SuiteResult) (x) : (s.setTests x).tests = x := by cases s; rfl
@[simp] theorem suites_setSuites (s : SuiteResult) (x) : (s.setSuites x).suites = x := by cases s; rfl

theorem setupFocus (p : Path) (n : String) (K : SuiteResult → Report) (hK : SuiteFocus p n K) (s : SuiteResult)
    (hn : s.md.name = n) : ResultFocus (.suiteSetup p) (fun x => K (s.setSetup (some x))) := by
  intro f x
  simp only [modifyResult]
  rw [hK _ _ (by simpa using hn)]
  simp only [setup_setSetup]
  cases f x <;> simp

theorem teardownFocus (p : Path) (n : String) (K : SuiteResult → Report) (hK : SuiteFocus p n K) (s : SuiteResult)
    (hn : s.md.name = n) : ResultFocus (.suiteTeardown p) (fun x => K (s.setTeardown (some x))) := by
  intro f x
  simp only [modifyResult]
  rw [hK _ _ (by simpa using hn)]
  simp only [teardown_setTeardown]
  cases f x <;> simp

theorem modifyFirst_append_last {α ε : Type} (p : α → Bool) (f : α → Except ε α) (nf : ε) :
    ∀ (pre : List α) (x : α), (∀ y ∈ pre, p y = false) → p x = true →
      modifyFirst p f nf (pre ++ [x]) = match f x with
        | .ok y => .ok (pre ++ [y])
        | .error e => .error e
  | [], x, _, hx => by simp only [List.nil_append, modifyFirst, hx, if_true]; cases f x <;> rfl
  | y :: ys, x, hpre, hx => by
    have hy := hpre y (by simp)
    have ih := modifyFirst_append_last p f nf ys x (fun z hz => hpre z (by simp [hz])) hx
    simp only [List.cons_append, modifyFirst, hy, ih]
    cases f x <;> simp

theorem testFocus (p : Path) (n : String) (K : SuiteResult → Report) (hK : SuiteFocus p n K) (s : SuiteResult)
    (hn : s.md.name = n) (ts : List TestResult) (md : Meta) (hnew : ∀ t ∈ ts, t.md.name ≠ md.name) :
    ResultFocus (.test (p ++ [md.name])) (fun x => K (s.setTests (ts ++ [{ md := md, result := x }]))) := by
  intro f x
  simp only [modifyResult, modifyTest, List.getLast?_append, List.getLast?_singleton, Option.some_or, List.dropLast_concat]
  rw [hK _ _ (by simpa using hn)]
  simp only [tests_setTests]
  rw [modifyFirst_append_last _ _ _ ts _ (fun t ht => by simpa using hnew t ht) (by simp)]
  cases f x <;> simp



theorem suite_setup_run (now : Time) (tid : Nat) (p : Path) (n : String) (K : SuiteResult → Report) (hK : SuiteFocus p n K)
    (s : SuiteResult) (hn : s.md.name = n) (su : Option Result) (act : List (Nat × StepRef)) :
    RunsTo (K s) act
      (replayPhase now tid (.suiteSetup p) (fun t => .suiteSetupStart p t) (fun t => .suiteSetupEnd p t) su)
      (K (match su with | none => s | some res => s.setSetup (some (resultImage now res)))) := by
  cases su with
  | none => exact RunsTo.nil _ _
  | some res =>
    simp only [replayPhase, List.append_assoc]
    refine RunsTo.append (r1 := K (s.setSetup (some (initResult (evTime now res.startTime))))) ?_ (fun act1 => ?_)
    · apply RunsTo.single (act' := detach (.suiteSetup p) act)
      simp only [apply]
      rw [hK _ _ hn]
      rfl
    · exact result_run now tid (.suiteSetup p) _ (setupFocus p n K hK s hn) (fun t => .suiteSetupEnd p t)
        (fun w t => rfl) res act1

theorem suite_teardown_run (now : Time) (tid : Nat) (p : Path) (n : String) (K : SuiteResult → Report) (hK : SuiteFocus p n K)
    (s : SuiteResult) (hn : s.md.name = n) (td : Option Result) (act : List (Nat × StepRef)) :
    RunsTo (K s) act
      (replayPhase now tid (.suiteTeardown p) (fun t => .suiteTeardownStart p t) (fun t => .suiteTeardownEnd p t) td)
      (K (match td with | none => s | some res => s.setTeardown (some (resultImage now res)))) := by
  cases td with
  | none => exact RunsTo.nil _ _
  | some res =>
    simp only [replayPhase, List.append_assoc]
    refine RunsTo.append (r1 := K (s.setTeardown (some (initResult (evTime now res.startTime))))) ?_ (fun act1 => ?_)
    · apply RunsTo.single (act' := detach (.suiteTeardown p) act)
      simp only [apply]
      rw [hK _ _ hn]
      rfl
    · exact result_run now tid (.suiteTeardown p) _ (teardownFocus p n K hK s hn) (fun t => .suiteTeardownEnd p t)
        (fun w t => rfl) res act1

/-- one test: start (or the single skipped / disabled event), steps, guarded end -/
theorem test_run (now : Time) (tid : Nat) (p : Path) (hp : p ≠ []) (n : String) (K : SuiteResult → Report) (hK : SuiteFocus p n K)
    (s : SuiteResult) (hn : s.md.name = n) (ts : List TestResult) (t : TestResult) (hnew : ∀ t' ∈ ts, t'.md.name ≠ t.md.name)
    (act : List (Nat × StepRef)) :
    RunsTo (K (s.setTests ts)) act (replayTest now tid p t) (K (s.setTests (ts ++ [testImage now t]))) := by
  have hadd : ∀ (tr : TestResult), tr.md.name = t.md.name →
      addTest p tr (K (s.setTests ts)) = .ok (K (s.setTests (ts ++ [tr]))) := by
    intro tr htr
    cases p with
    | nil => exact absurd rfl hp
    | cons a rest =>
      simp only [addTest]
      rw [hK _ _ (by simpa using hn)]
      simp only [tests_setTests, setTests_setTests]
      rw [dictSet_of_new _ _ _ (fun y hy => by rw [htr]; exact hnew y hy)]
  have hdrop : (p ++ [t.md.name]).dropLast = p := List.dropLast_concat
  cases hst : t.result.status with
  | none =>
    simp only [replayTest, hst, testImage, List.append_assoc]
    refine RunsTo.append (r1 := K (s.setTests (ts ++ [initTest t.md (evTime now t.result.startTime)]))) ?_ (fun act1 => ?_)
    · apply RunsTo.single (act' := detach (.test (p ++ [t.md.name])) act)
      simp only [apply, hdrop]; rw [hadd (initTest t.md _) rfl]; rfl
    · exact result_run now tid (.test (p ++ [t.md.name])) _ (testFocus p n K hK s hn ts t.md hnew) (fun e => .testEnd (p ++ [t.md.name]) e)
        (fun w t => rfl) t.result act1
  | some st =>
    cases st with
    | skipped =>
      simp only [replayTest, hst, testImage]
      apply RunsTo.single (act' := detach (.test (p ++ [t.md.name])) act)
      simp only [apply, hdrop]; rw [hadd (bypassTest t.md _ _ _) rfl]; rfl
    | disabled =>
      simp only [replayTest, hst, testImage]
      apply RunsTo.single (act' := detach (.test (p ++ [t.md.name])) act)
      simp only [apply, hdrop]; rw [hadd (bypassTest t.md _ _ _) rfl]; rfl
    | passed =>
      simp only [replayTest, hst, testImage, List.append_assoc]
      refine RunsTo.append (r1 := K (s.setTests (ts ++ [initTest t.md (evTime now t.result.startTime)]))) ?_ (fun act1 => ?_)
      · apply RunsTo.single (act' := detach (.test (p ++ [t.md.name])) act)
        simp only [apply, hdrop]; rw [hadd (initTest t.md _) rfl]; rfl
      · exact result_run now tid (.test (p ++ [t.md.name])) _ (testFocus p n K hK s hn ts t.md hnew)
          (fun e => .testEnd (p ++ [t.md.name]) e) (fun w t => rfl) t.result act1
    | failed =>
      simp only [replayTest, hst, testImage, List.append_assoc]
      refine RunsTo.append (r1 := K (s.setTests (ts ++ [initTest t.md (evTime now t.result.startTime)]))) ?_ (fun act1 => ?_)
      · apply RunsTo.single (act' := detach (.test (p ++ [t.md.name])) act)
        simp only [apply, hdrop]; rw [hadd (initTest t.md _) rfl]; rfl
      · exact result_run now tid (.test (p ++ [t.md.name])) _ (testFocus p n K hK s hn ts t.md hnew)
          (fun e => .testEnd (p ++ [t.md.name]) e) (fun w t => rfl) t.result act1



theorem distinct_iff : ∀ names : List String, distinctNames names = true ↔ names.Nodup
  | [] => by simp [distinctNames]
  | n :: rest => by simp [distinctNames, distinct_iff rest, List.nodup_cons]

theorem testImage_name (now : Time) (t : TestResult) : (testImage now t).md.name = t.md.name := by
  unfold testImage; split <;> rfl

theorem tests_run (now : Time) (tid : Nat) (p : Path) (hp : p ≠ []) (n : String) (K : SuiteResult → Report)
    (hK : SuiteFocus p n K) (s : SuiteResult) (hn : s.md.name = n) :
    ∀ (ts done : List TestResult) (act : List (Nat × StepRef)),
      ((done ++ ts).map (fun t => t.md.name)).Nodup →
      RunsTo (K (s.setTests done)) act (ts.flatMap (replayTest now tid p)) (K (s.setTests (done ++ ts.map (testImage now))))
  | [], done, act, _ => by simpa using RunsTo.nil _ act
  | t :: ts, done, act, hnd => by
    have hnew : ∀ t' ∈ done, t'.md.name ≠ t.md.name := by
      intro t' ht' heq
      rw [List.map_append, List.nodup_append] at hnd
      exact hnd.2.2 _ (List.mem_map_of_mem ht') _ (by simp) heq
    have h1 := test_run now tid p hp n K hK s hn done t hnew act
    have hnd' : ((done ++ [testImage now t] ++ ts).map (fun t => t.md.name)).Nodup := by
      simpa [testImage_name] using hnd
    have h2 := fun act1 => tests_run now tid p hp n K hK s hn ts (done ++ [testImage now t]) act1 hnd'
    have := RunsTo.append h1 h2
    simpa [List.flatMap_cons, List.append_assoc] using this

/-- walking down one more level: `find_suite` on `p ++ [n]` is `find_suite` on `p` followed by a lookup of `n` among
    the children -/
theorem modifySuite_concat (f : SuiteResult → Except WriterErr SuiteResult) (n : String) :
    ∀ (p : Path), p ≠ [] → ∀ ss : List SuiteResult,
      modifySuite f (p ++ [n]) ss =
        modifySuite (fun s => match modifySuite f [n] s.suites with
                              | .ok sub => .ok (s.setSuites sub)
                              | .error e => .error e) p ss
  | [], h, _ => absurd rfl h
  | [a], _, ss => by simp only [List.cons_append, List.nil_append, modifySuite]; rfl
  | a :: b :: rest, _, ss => by
    have ih := fun ss' => modifySuite_concat f n (b :: rest) (by simp) ss'
    simp only [List.cons_append] at ih ⊢
    simp only [modifySuite]
    congr 1
    funext s
    rw [ih]
    simp only [modifySuite]

/-- `L` is a context of the report around the list of suites whose parent has path `parent` (`[]`: the top level) -/
structure ListFocus (parent : Path) (L : List SuiteResult → Report) : Prop where
  mod : ∀ (f : SuiteResult → Except WriterErr SuiteResult) (n : String) (cs : List SuiteResult) (c : SuiteResult),
    c.md.name = n → (∀ c' ∈ cs, c'.md.name ≠ n) →
    liftSuites (L (cs ++ [c])) (modifySuite f (parent ++ [n]) (L (cs ++ [c])).suites) = match f c with
      | .ok c' => .ok (L (cs ++ [c']))
      | .error e => .error e
  push : ∀ (cs : List SuiteResult) (md : Meta) (t : Time) (act : List (Nat × StepRef)),
    apply ⟨L cs, act⟩ (.suiteStart (parent ++ [md.name]) md t) = .ok ⟨L (cs ++ [initSuite md t]), act⟩

theorem topFocus (r0 : Report) (h0 : r0.suites = []) : ListFocus [] (fun cs => { r0 with suites := cs }) := by
  constructor
  · intro f n cs c hc hnew
    simp only [List.nil_append, modifySuite]
    rw [modifyFirst_append_last _ _ _ cs c (fun y hy => by simpa using hnew y hy) (by simpa using hc)]
    cases f c <;> simp [liftSuites]
  · intro cs md t act
    simp [apply, h0]

theorem childFocus (p : Path) (hp : p ≠ []) (n : String) (K : SuiteResult → Report) (hK : SuiteFocus p n K)
    (s : SuiteResult) (hn : s.md.name = n) : ListFocus p (fun subs => K (s.setSuites subs)) := by
  constructor
  · intro f m cs c hc hnew
    rw [modifySuite_concat f m p hp, hK _ _ (by simpa using hn)]
    simp only [suites_setSuites, modifySuite]
    rw [modifyFirst_append_last _ _ _ cs c (fun y hy => by simpa using hnew y hy) (by simpa using hc)]
    cases f c <;> simp
  · intro cs md t act
    have hd : (p ++ [md.name]).dropLast = p := List.dropLast_concat
    cases p with
    | nil => exact absurd rfl hp
    | cons a rest =>
      simp only [apply, hd]
      rw [hK _ _ (by simpa using hn)]
      simp [onReport]



theorem suiteImage_name (now : Time) (s : SuiteResult) : (suiteImage now s).md.name = s.md.name := by
  cases s; rfl

theorem suiteImages_names (now : Time) : ∀ ss : List SuiteResult, suiteNames (suiteImages now ss) = suiteNames ss
  | [] => rfl
  | s :: ss => by
    have := suiteImages_names now ss
    simp only [suiteNames] at this ⊢
    simp [suiteImages, suiteImage_name, this]

mutual
/-- replaying one suite appends exactly its image to the children of its parent -/
theorem suite_run (now : Time) (tid : Nat) :
    ∀ (s : SuiteResult) (parent : Path) (L : List SuiteResult → Report) (cs : List SuiteResult) (act : List (Nat × StepRef)),
      ListFocus parent L → (∀ c' ∈ cs, c'.md.name ≠ s.md.name) → suiteNamesOk s = true →
      RunsTo (L cs) act (replaySuite now tid parent s) (L (cs ++ [suiteImage now s]))
  | .mk md st en su td ts ss, parent, L, cs, act, hL, hnew, hok => by
    simp only [suiteNamesOk, Bool.and_eq_true] at hok
    obtain ⟨⟨htn, hsn⟩, hsub⟩ := hok
    have hp : parent ++ [md.name] ≠ [] := by simp
    -- the context around the suite being built
    have hK : SuiteFocus (parent ++ [md.name]) md.name (fun c => L (cs ++ [c])) :=
      fun f c hc => hL.mod f md.name cs c hc (by simpa [SuiteResult.md] using hnew)
    simp only [replaySuite, List.append_assoc]
    -- suite start
    refine RunsTo.append (RunsTo.single (hL.push cs md (evTime now st) act)) (fun a1 => ?_)
    -- setup
    refine RunsTo.append (suite_setup_run now tid _ _ _ hK (initSuite md (evTime now st)) rfl su a1) (fun a2 => ?_)
    -- tests
    have htests := fun (s0 : SuiteResult) (h0 : s0.md.name = md.name) a =>
      tests_run now tid _ hp _ _ hK s0 h0 ts [] a (by simpa using (distinct_iff _).mp htn)
    -- sub-suites
    have hsubs := fun (s0 : SuiteResult) (h0 : s0.md.name = md.name) a =>
      suites_run now tid ss (parent ++ [md.name]) (fun subs => L (cs ++ [s0.setSuites subs])) [] a
        (childFocus _ hp _ _ hK s0 h0) (by simpa using (distinct_iff _).mp hsn) hsub
    cases su with
    | none =>
      have h3 := htests (initSuite md (evTime now st)) rfl a2
      refine RunsTo.append (by simpa [initSuite, SuiteResult.setTests] using h3) (fun a3 => ?_)
      have h4 := hsubs (.mk md (some (evTime now st)) none none none (ts.map (testImage now)) []) rfl a3
      refine RunsTo.append (by simpa [SuiteResult.setSuites] using h4) (fun a4 => ?_)
      have h5 := suite_teardown_run now tid _ _ _ hK
        (.mk md (some (evTime now st)) none none none (ts.map (testImage now)) (suiteImages now ss)) rfl td a4
      refine RunsTo.append h5 (fun a5 => ?_)
      rcases endEvent_cases en (fun t => Event.suiteEnd (parent ++ [md.name]) t) with ⟨hk, he⟩ | ⟨e, hne, hk, he⟩
      · rw [he]; cases td <;> simpa [suiteImage, hk, SuiteResult.setTeardown] using RunsTo.nil _ a5
      · rw [he]
        apply RunsTo.single (act' := a5)
        simp only [apply]
        rw [hK _ _ (by cases td <;> rfl)]
        cases td <;> simp [onReport, suiteImage, hk, SuiteResult.setTeardown, SuiteResult.setEndTime]
    | some res =>
      have h3 := htests ((initSuite md (evTime now st)).setSetup (some (resultImage now res))) rfl a2
      refine RunsTo.append (by simpa [initSuite, SuiteResult.setTests, SuiteResult.setSetup] using h3) (fun a3 => ?_)
      have h4 := hsubs (.mk md (some (evTime now st)) none (some (resultImage now res)) none (ts.map (testImage now)) []) rfl a3
      refine RunsTo.append (by simpa [SuiteResult.setSuites] using h4) (fun a4 => ?_)
      have h5 := suite_teardown_run now tid _ _ _ hK
        (.mk md (some (evTime now st)) none (some (resultImage now res)) none (ts.map (testImage now)) (suiteImages now ss)) rfl td a4
      refine RunsTo.append h5 (fun a5 => ?_)
      rcases endEvent_cases en (fun t => Event.suiteEnd (parent ++ [md.name]) t) with ⟨hk, he⟩ | ⟨e, hne, hk, he⟩
      · rw [he]; cases td <;> simpa [suiteImage, hk, SuiteResult.setTeardown] using RunsTo.nil _ a5
      · rw [he]
        apply RunsTo.single (act' := a5)
        simp only [apply]
        rw [hK _ _ (by cases td <;> rfl)]
        cases td <;> simp [onReport, suiteImage, hk, SuiteResult.setTeardown, SuiteResult.setEndTime]
/-- … and a list of sibling suites appends the list of their images -/
theorem suites_run (now : Time) (tid : Nat) :
    ∀ (ss : List SuiteResult) (parent : Path) (L : List SuiteResult → Report) (cs : List SuiteResult) (act : List (Nat × StepRef)),
      ListFocus parent L → (suiteNames (cs ++ ss)).Nodup → suitesNamesOk ss = true →
      RunsTo (L cs) act (replaySuites now tid parent ss) (L (cs ++ suiteImages now ss))
  | [], parent, L, cs, act, _, _, _ => by simpa [replaySuites, suiteImages] using RunsTo.nil _ act
  | s :: ss, parent, L, cs, act, hL, hnd, hok => by
    simp only [suitesNamesOk, Bool.and_eq_true] at hok
    have hnew : ∀ c' ∈ cs, c'.md.name ≠ s.md.name := by
      intro c' hc' heq
      simp only [suiteNames, List.map_append, List.nodup_append] at hnd
      exact hnd.2.2 _ (List.mem_map_of_mem hc') _ (by simp) heq
    have h1 := suite_run now tid s parent L cs act hL hnew hok.1
    have hnd' : (suiteNames (cs ++ [suiteImage now s] ++ ss)).Nodup := by
      simpa [suiteNames, suiteImage_name] using hnd
    have h2 := fun a1 => suites_run now tid ss parent L (cs ++ [suiteImage now s]) a1 hL hnd' hok.2
    have := RunsTo.append h1 h2
    simpa [replaySuites, suiteImages, List.append_assoc] using this
end



/-! ### sibling names survive the accessor sort -/

theorem suitesNamesOk_iff : ∀ ss : List SuiteResult, suitesNamesOk ss = true ↔ ∀ s ∈ ss, suiteNamesOk s = true
  | [] => by simp [suitesNamesOk]
  | s :: ss => by simp [suitesNamesOk, suitesNamesOk_iff ss]

theorem sortDeep_name (s : SuiteResult) : (sortDeep s).md.name = s.md.name := by cases s; rfl

theorem sortDeepList_names : ∀ ss : List SuiteResult, suiteNames (sortDeepList ss) = suiteNames ss
  | [] => rfl
  | s :: ss => by
    have := sortDeepList_names ss
    simp only [suiteNames] at this ⊢
    simp [sortDeepList, sortDeep_name, this]

theorem nodup_names_sort (ss : List SuiteResult) (h : (suiteNames ss).Nodup) :
    (suiteNames (sortByRank suiteRank ss)).Nodup := by
  simp only [suiteNames] at h ⊢
  exact ((sortByRank_perm suiteRank ss).map _).nodup_iff.mpr h

mutual
theorem suiteNamesOk_sortDeep : ∀ s : SuiteResult, suiteNamesOk s = true → suiteNamesOk (sortDeep s) = true
  | .mk md st en su td ts ss => by
    intro h
    simp only [suiteNamesOk, Bool.and_eq_true] at h
    obtain ⟨⟨h1, h2⟩, h3⟩ := h
    simp only [sortDeep, suiteNamesOk, Bool.and_eq_true]
    refine ⟨⟨?_, ?_⟩, ?_⟩
    · rw [distinct_iff] at h1 ⊢
      exact ((sortByRank_perm testRank ts).map _).nodup_iff.mpr h1
    · rw [distinct_iff] at h2 ⊢
      apply nodup_names_sort
      rw [sortDeepList_names]; exact h2
    · rw [suitesNamesOk_iff]
      intro s hs
      rw [mem_sortByRank] at hs
      exact (suitesNamesOk_iff _).mp (suitesNamesOk_sortDeepList ss h3) s hs
theorem suitesNamesOk_sortDeepList : ∀ ss : List SuiteResult, suitesNamesOk ss = true → suitesNamesOk (sortDeepList ss) = true
  | [] => by simp [sortDeepList]
  | s :: ss => by
    intro h
    simp only [suitesNamesOk, Bool.and_eq_true] at h
    simp only [sortDeepList, suitesNamesOk, Bool.and_eq_true]
    exact ⟨suiteNamesOk_sortDeep s h.1, suitesNamesOk_sortDeepList ss h.2⟩
end

theorem namesOk_view (r : Report) (h : namesOk r = true) :
    (suiteNames (view r)).Nodup ∧ suitesNamesOk (view r) = true := by
  simp only [namesOk, Bool.and_eq_true] at h
  constructor
  · unfold view
    apply nodup_names_sort
    rw [sortDeepList_names]; exact (distinct_iff _).mp h.1
  · rw [suitesNamesOk_iff]
    intro s hs
    unfold view at hs
    rw [mem_sortByRank] at hs
    exact (suitesNamesOk_iff _).mp (suitesNamesOk_sortDeepList r.suites h.2) s hs

/-! ### the whole report -/

theorem session_phase_run (now : Time) (tid : Nat) (loc : Loc) (startE endE : Time → Event) (C : Result → Report)
    (hC : ResultFocus loc C) (R0 : Report)
    (hStart : ∀ act t, apply ⟨R0, act⟩ (startE t) = .ok ⟨C (initResult t), detach loc act⟩)
    (hEnd : ∀ (w : WriterState) (t : Time),
      apply w (endE t) = onReport w (modifyResult (fun x => .ok (finalizeResult t x)) loc w.report))
    (o : Option Result) (act : List (Nat × StepRef)) :
    RunsTo R0 act (replayPhase now tid loc startE endE o)
      (match o with | none => R0 | some res => C (resultImage now res)) := by
  cases o with
  | none => exact RunsTo.nil _ _
  | some res =>
    simp only [replayPhase, List.append_assoc]
    exact RunsTo.append (RunsTo.single (hStart act _)) (fun a1 => result_run now tid loc C hC endE hEnd res a1)

/-- **What replay + aggregation computes**, for every report whose sibling names are distinct: a fresh
    `ReportWriter` over `r0` fed with `replay now tid r` never raises and ends with exactly `replayImage now r0 r`. -/
theorem fold_replay (now : Time) (tid : Nat) (r r0 : Report) (h0 : r0.suites = []) (hn : namesOk r = true) :
    fold (replay now tid r) r0 = .ok (replayImage now r0 r) := by
  obtain ⟨hnd, hok⟩ := namesOk_view r hn
  have key : RunsTo r0 [] (replay now tid r) (replayImage now r0 r) := by
    unfold replay
    simp only [List.append_assoc]
    -- session start
    refine RunsTo.append (r1 := { r0 with startTime := some (evTime now r.startTime) }) (RunsTo.single (act' := []) rfl) (fun a1 => ?_)
    -- session setup
    have hs := session_phase_run now tid .sessionSetup .sessionSetupStart .sessionSetupEnd
      (fun x => { r0 with startTime := some (evTime now r.startTime), setup := some x })
      (fun f x => by simp only [modifyResult]; cases f x <;> rfl)
      { r0 with startTime := some (evTime now r.startTime) } (fun act t => rfl) (fun w t => rfl) r.setup a1
    refine RunsTo.append hs (fun a2 => ?_)
    -- suites
    generalize hR2 : (match r.setup with
      | none => ({ r0 with startTime := some (evTime now r.startTime) } : Report)
      | some res => { r0 with startTime := some (evTime now r.startTime), setup := some (resultImage now res) }) = R2
    have hR2s : R2.suites = [] := by subst hR2; cases hsu : r.setup <;> simpa [hsu] using h0
    have hsu := suites_run now tid (view r) [] (fun cs => { R2 with suites := cs }) [] a2 (topFocus R2 hR2s)
      (by simpa using hnd) hok
    have hR2' : ({ R2 with suites := [] } : Report) = R2 := by cases R2; simp_all
    rw [hR2'] at hsu
    refine RunsTo.append hsu (fun a3 => ?_)
    -- session teardown
    have ht := session_phase_run now tid .sessionTeardown .sessionTeardownStart .sessionTeardownEnd
      (fun x => { R2 with suites := [] ++ suiteImages now (view r), teardown := some x })
      (fun f x => by simp only [modifyResult]; cases f x <;> rfl)
      { R2 with suites := [] ++ suiteImages now (view r) } (fun act t => rfl) (fun w t => rfl) r.teardown a3
    refine RunsTo.append ht (fun a4 => ?_)
    -- session end
    rcases endEvent_cases r.endTime Event.sessionEnd with ⟨hk, he⟩ | ⟨e, hne, hk, he⟩
    · rw [he]
      subst hR2
      cases hsu : r.setup <;> cases htd : r.teardown <;> simpa [replayImage, hk, h0, hsu, htd] using RunsTo.nil _ a4
    · rw [he]
      subst hR2
      apply RunsTo.single (act' := a4)
      cases hsu : r.setup <;> cases htd : r.teardown <;> simp [apply, replayImage, hk, h0, hsu, htd]
  obtain ⟨act', h⟩ := key
  simp [fold, initState, h]



/-! ### on writer-shaped reports the image is the report itself -/

theorem evTime_of_real (now : Time) (t : Option Time) (h : realTime t = true) : some (evTime now t) = t := by
  cases t with
  | none => simp [realTime] at h
  | some t => simp only [realTime, bne_iff_ne, ne_eq] at h; simp [evTime, h]

theorem keepEnd_of_ok (t : Option Time) (h : endOk t = true) : keepEnd t = t := by
  cases t with
  | none => rfl
  | some t => simp only [endOk, bne_iff_ne, ne_eq] at h; simp [keepEnd, h]

theorem entryImage_of_real (now : Time) (e : Entry) (h : (entryTime e != 0) = true) : entryImage now e = e := by
  simp only [bne_iff_ne, ne_eq] at h
  cases e <;> simp_all [entryImage, entryTime, evTime]

theorem map_id_of {α : Type} (f : α → α) : ∀ l : List α, (∀ x ∈ l, f x = x) → l.map f = l
  | [], _ => rfl
  | x :: xs, h => by simp [h x (by simp), map_id_of f xs (fun y hy => h y (by simp [hy]))]

theorem stepImage_of_exact (now : Time) (s : Step) (h : stepExact s = true) : stepImage now s = s := by
  simp only [stepExact, Bool.and_eq_true, List.all_eq_true] at h
  obtain ⟨⟨h1, h2⟩, h3⟩ := h
  cases s with
  | mk d st en es =>
    simp only [stepImage, evTime_of_real now st h1, keepEnd_of_ok en h2,
      map_id_of (entryImage now) es (fun e he => entryImage_of_real now e (h3 e he))]

theorem resultImage_of_exact (now : Time) (r : Result) (h : resultExact r = true) : resultImage now r = r := by
  simp only [resultExact, Bool.and_eq_true, List.all_eq_true] at h
  obtain ⟨⟨⟨⟨h1, h2⟩, h3⟩, h4⟩, h5⟩ := h
  have hsteps := map_id_of (stepImage now) r.steps (fun s hs => stepImage_of_exact now s (h3 s hs))
  cases r with
  | mk steps st en status details =>
    simp only [beq_iff_eq] at h4
    simp only at hsteps h5
    subst h4
    cases en with
    | none =>
      simp only [beq_iff_eq] at h5
      simp [resultImage, keepEnd, hsteps, evTime_of_real now st h1, h5]
    | some e =>
      simp only [beq_iff_eq] at h5
      have := keepEnd_of_ok (some e) h2
      simp [resultImage, this, hsteps, evTime_of_real now st h1, h5]

theorem testImage_of_exact (now : Time) (t : TestResult) (h : testExact t = true) : testImage now t = t := by
  cases t with
  | mk md res =>
    cases res with
    | mk steps st en status details =>
      cases status with
      | none => simp only [testExact] at h; simp [testImage, resultImage_of_exact now _ h]
      | some s =>
        cases s with
        | passed => simp only [testExact] at h; simp [testImage, resultImage_of_exact now _ h]
        | failed => simp only [testExact] at h; simp [testImage, resultImage_of_exact now _ h]
        | skipped =>
          simp only [testExact, Bool.and_eq_true, List.isEmpty_iff, beq_iff_eq] at h
          obtain ⟨⟨h1, h2⟩, h3⟩ := h
          skip
          subst h2 h3
          simp [testImage, bypassTest, evTime_of_real now en h1]
        | disabled =>
          simp only [testExact, Bool.and_eq_true, List.isEmpty_iff, beq_iff_eq] at h
          obtain ⟨⟨h1, h2⟩, h3⟩ := h
          skip
          subst h2 h3
          simp [testImage, bypassTest, evTime_of_real now en h1]

theorem optImage_of_exact (now : Time) (o : Option Result) (h : optResultExact o = true) : o.map (resultImage now) = o := by
  cases o with
  | none => rfl
  | some r => simp [resultImage_of_exact now r h]

mutual
theorem suiteImage_of_exact (now : Time) : ∀ s : SuiteResult, suiteExact s = true → suiteImage now s = s
  | .mk md st en su td ts ss => by
    intro h
    simp only [suiteExact, Bool.and_eq_true, List.all_eq_true] at h
    obtain ⟨⟨⟨⟨⟨h1, h2⟩, h3⟩, h4⟩, h5⟩, h6⟩ := h
    simp only [suiteImage, evTime_of_real now st h1, keepEnd_of_ok en h2, optImage_of_exact now su h3,
      optImage_of_exact now td h4, map_id_of (testImage now) ts (fun t ht => testImage_of_exact now t (h5 t ht)),
      suiteImages_of_exact now ss h6]
theorem suiteImages_of_exact (now : Time) : ∀ ss : List SuiteResult, suitesExact ss = true → suiteImages now ss = ss
  | [], _ => rfl
  | s :: ss, h => by
    simp only [suitesExact, Bool.and_eq_true] at h
    simp [suiteImages, suiteImage_of_exact now s h.1, suiteImages_of_exact now ss h.2]
end

theorem suitesExact_iff : ∀ ss : List SuiteResult, suitesExact ss = true ↔ ∀ s ∈ ss, suiteExact s = true
  | [] => by simp [suitesExact]
  | s :: ss => by simp [suitesExact, suitesExact_iff ss]

mutual
theorem suiteExact_sortDeep : ∀ s : SuiteResult, suiteExact s = true → suiteExact (sortDeep s) = true
  | .mk md st en su td ts ss => by
    intro h
    simp only [suiteExact, Bool.and_eq_true] at h
    obtain ⟨⟨⟨⟨⟨h1, h2⟩, h3⟩, h4⟩, h5⟩, h6⟩ := h
    simp only [sortDeep, suiteExact, Bool.and_eq_true]
    refine ⟨⟨⟨⟨⟨h1, h2⟩, h3⟩, h4⟩, ?_⟩, ?_⟩
    · rw [all_sortByRank]; exact h5
    · rw [suitesExact_iff]
      intro s hs
      rw [mem_sortByRank] at hs
      exact (suitesExact_iff _).mp (suitesExact_sortDeepList ss h6) s hs
theorem suitesExact_sortDeepList : ∀ ss : List SuiteResult, suitesExact ss = true → suitesExact (sortDeepList ss) = true
  | [] => by simp [sortDeepList]
  | s :: ss => by
    intro h
    simp only [suitesExact, Bool.and_eq_true] at h
    simp only [sortDeepList, suitesExact, Bool.and_eq_true]
    exact ⟨suiteExact_sortDeep s h.1, suitesExact_sortDeepList ss h.2⟩
end

theorem suitesExact_view (r : Report) (h : suitesExact r.suites = true) : suitesExact (view r) = true := by
  rw [suitesExact_iff]
  intro s hs
  unfold view at hs
  rw [mem_sortByRank] at hs
  exact (suitesExact_iff _).mp (suitesExact_sortDeepList r.suites h) s hs

/-- on a writer-shaped report the aggregation of the replayed stream is the report itself: same times, same
    setup / teardown, and the suites exactly as the accessors present them -/
theorem replayImage_of_exact (now : Time) (r0 r : Report) (h0 : r0.suites = []) (h : replayExact r = true) :
    replayImage now r0 r =
      { r0 with startTime := r.startTime, endTime := r.endTime.or r0.endTime, setup := r.setup.or r0.setup,
                teardown := r.teardown.or r0.teardown, suites := view r } := by
  simp only [replayExact, Bool.and_eq_true] at h
  obtain ⟨⟨⟨⟨h1, h2⟩, h3⟩, h4⟩, h5⟩ := h
  simp [replayImage, evTime_of_real now _ h1, keepEnd_of_ok _ h2, optImage_of_exact now _ h3, optImage_of_exact now _ h4,
    suiteImages_of_exact now _ (suitesExact_view r h5), h0]

end LccModel.Replay

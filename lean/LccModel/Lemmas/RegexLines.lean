/-
  Line-local patterns (no atom can consume a newline, no `\A` / `\Z` / `\B`): searching a text is searching its
  lines one by one — hence, for these patterns only, one search over the newline-joined grepable items would
  be the same as searching every item (which is why a change to the joined search keeps plain-word and `^`/`$`
  patterns working and breaks exactly the others).
-/
import LccModel.Lemmas.Regex

namespace LccModel.Regex

theorem lineLocal_mkSeq {a b : RE} (ha : a.lineLocal = true) (hb : b.lineLocal = true) : (mkSeq a b).lineLocal = true := by
  cases a <;> simp_all [mkSeq, RE.lineLocal]

theorem lineLocal_mkAlt {a b : RE} (ha : a.lineLocal = true) (hb : b.lineLocal = true) : (mkAlt a b).lineLocal = true := by
  induction a generalizing b with
  | fail => simpa [mkAlt] using hb
  | alt x y ihx ihy =>
    simp only [RE.lineLocal, Bool.and_eq_true] at ha
    simp only [mkAlt]
    exact ihx ha.1 (ihy ha.2 hb)
  | _ =>
    simp only [mkAlt]
    split
    · exact ha
    · split
      · exact hb
      · have e : ∀ a' : RE, (RE.alt a' b).lineLocal = (a'.lineLocal && b.lineLocal) := fun _ => rfl
        rw [e, ha, hb]; rfl

theorem lineLocal_der {r : RE} (p : Option Nat) (c : Nat) (h : r.lineLocal = true) : (der p c r).lineLocal = true := by
  induction r with
  | seq a b iha ihb =>
    simp only [RE.lineLocal, Bool.and_eq_true] at h
    simp only [der]
    split
    · exact lineLocal_mkAlt (lineLocal_mkSeq (iha h.1) h.2) (ihb h.2)
    · exact lineLocal_mkSeq (iha h.1) h.2
  | alt a b iha ihb =>
    simp only [RE.lineLocal, Bool.and_eq_true] at h
    exact lineLocal_mkAlt (iha h.1) (ihb h.2)
  | star a iha =>
    simp only [RE.lineLocal] at h
    exact lineLocal_mkSeq (iha h) (by simpa [RE.lineLocal] using h)
  | lit a => simp only [der]; split <;> rfl
  | any => simp only [der]; split <;> rfl
  | set s => simp only [der]; split <;> rfl
  | _ => rfl

/-- A line-local pattern cannot step over a newline. -/
theorem der_nl {r : RE} (p : Option Nat) (h : r.lineLocal = true) : der p cNL r = .fail := by
  induction r with
  | seq a b iha ihb =>
    simp only [RE.lineLocal, Bool.and_eq_true] at h
    simp only [der, iha h.1, ihb h.2]
    split <;> rfl
  | alt a b iha ihb =>
    simp only [RE.lineLocal, Bool.and_eq_true] at h
    simp only [der, iha h.1, ihb h.2]
    rfl
  | star a iha =>
    simp only [RE.lineLocal] at h
    simp only [der, iha h]
    rfl
  | lit a =>
    simp only [RE.lineLocal, bne_iff_ne, ne_eq] at h
    simp only [der]
    split
    · rename_i h'
      exfalso
      apply h
      have : lowerAscii a = 10 := by simpa [lowerAscii, cNL] using h'
      unfold lowerAscii at this
      split at this <;> simp [cNL] <;> omega
    · rfl
  | any => simp [der]
  | set s =>
    simp only [RE.lineLocal, Bool.not_eq_true'] at h
    simp [der, h]
  | _ => rfl

theorem isWord_nl : isWord cNL = false := by decide

/-- Seen from a line-local pattern, "a newline follows" and "the text ends here" are the same. -/
theorem null_nl_next {r : RE} (p : Option Nat) (h : r.lineLocal = true) : null p (some cNL) r = null p none r := by
  induction r with
  | seq a b iha ihb =>
    simp only [RE.lineLocal, Bool.and_eq_true] at h
    simp only [null, iha h.1, ihb h.2]
  | alt a b iha ihb =>
    simp only [RE.lineLocal, Bool.and_eq_true] at h
    simp only [null, iha h.1, ihb h.2]
  | eol => simp [null, atEol]
  | eos => simp [RE.lineLocal] at h
  | wordB neg =>
    simp only [RE.lineLocal, Bool.not_eq_true'] at h
    subst h
    cases p <;> simp [null, atWordB, isWordO, isWord_nl]
  | _ => rfl

/-- … and so are "a newline precedes" and "the text starts here". -/
theorem null_nl_prev {r : RE} (n : Option Nat) (h : r.lineLocal = true) : null (some cNL) n r = null none n r := by
  induction r with
  | seq a b iha ihb =>
    simp only [RE.lineLocal, Bool.and_eq_true] at h
    simp only [null, iha h.1, ihb h.2]
  | alt a b iha ihb =>
    simp only [RE.lineLocal, Bool.and_eq_true] at h
    simp only [null, iha h.1, ihb h.2]
  | bol => simp [null, atBol]
  | bos => simp [RE.lineLocal] at h
  | wordB neg =>
    simp only [RE.lineLocal, Bool.not_eq_true'] at h
    subst h
    cases n <;> simp [null, atWordB, isWordO, isWord_nl]
  | _ => rfl

theorem der_nl_prev {r : RE} (c : Nat) (h : r.lineLocal = true) : der (some cNL) c r = der none c r := by
  induction r with
  | seq a b iha ihb =>
    simp only [RE.lineLocal, Bool.and_eq_true] at h
    simp only [der, iha h.1, ihb h.2, null_nl_prev _ h.1]
  | alt a b iha ihb =>
    simp only [RE.lineLocal, Bool.and_eq_true] at h
    simp only [der, iha h.1, ihb h.2]
  | star a iha =>
    simp only [RE.lineLocal] at h
    simp only [der, iha h]
  | _ => rfl

theorem matchPrefix_fail (p : Option Nat) (s : Str) : matchPrefix p .fail s = false := by
  induction s generalizing p with
  | nil => rfl
  | cons c s ih => simp [matchPrefix, null, der, ih]

theorem matchPrefix_nl_prev {r : RE} (s : Str) (h : r.lineLocal = true) :
    matchPrefix (some cNL) r s = matchPrefix none r s := by
  cases s with
  | nil => exact null_nl_prev _ h
  | cons c s => simp only [matchPrefix, null_nl_prev _ h, der_nl_prev _ h]

theorem searchFrom_nl_prev {r : RE} (s : Str) (h : r.lineLocal = true) :
    searchFrom (some cNL) r s = searchFrom none r s := by
  cases s with
  | nil => exact null_nl_prev _ h
  | cons c s => simp only [searchFrom, matchPrefix_nl_prev _ h]

/-- A match of a line-local pattern that starts in the first line stays in the first line. -/
theorem matchPrefix_firstLine {r : RE} (p : Option Nat) (s : Str) (h : r.lineLocal = true) :
    matchPrefix p r s = matchPrefix p r (firstLine s) := by
  induction s generalizing p r with
  | nil => rfl
  | cons c s ih =>
    by_cases hc : c = cNL
    · subst hc
      simp [firstLine, matchPrefix, der_nl p h, matchPrefix_fail, null_nl_next p h]
    · have : (c == cNL) = false := by simpa using hc
      simp only [firstLine, this, Bool.false_eq_true, ↓reduceIte, matchPrefix]
      rw [ih (some c) (lineLocal_der p c h)]

theorem lines_ne_nil (s : Str) : lines s ≠ [] := by
  induction s with
  | nil => simp [lines]
  | cons c s ih =>
    simp only [lines]
    split
    · simp
    · split <;> simp

theorem lines_head (s : Str) : ∃ ls, lines s = firstLine s :: ls := by
  induction s with
  | nil => exact ⟨[], rfl⟩
  | cons c s ih =>
    obtain ⟨ls, hl⟩ := ih
    by_cases hc : c = cNL
    · subst hc; exact ⟨lines s, by simp [lines, firstLine]⟩
    · have : (c == cNL) = false := by simpa using hc
      exact ⟨ls, by simp [lines, firstLine, this, hl]⟩

/-- Searching from a position = searching the rest of the current line, or any later line on its own. -/
theorem searchFrom_lines {r : RE} (p : Option Nat) (s : Str) (h : r.lineLocal = true) :
    searchFrom p r s = (searchFrom p r (firstLine s) || (lines s).tail.any (search r)) := by
  induction s generalizing p with
  | nil => simp [firstLine, lines]
  | cons c s ih =>
    by_cases hc : c = cNL
    · subst hc
      obtain ⟨ls, hl⟩ := lines_head s
      have e1 : firstLine (cNL :: s) = [] := by simp [firstLine]
      have e2 : lines (cNL :: s) = [] :: lines s := by simp [lines]
      rw [e1, e2]
      simp only [searchFrom, matchPrefix, der_nl p h, matchPrefix_fail, null_nl_next p h, Bool.or_false, List.tail_cons]
      rw [searchFrom_nl_prev _ h, ih none, hl]
      simp [search]
    · have hcb : (c == cNL) = false := by simpa using hc
      obtain ⟨ls, hl⟩ := lines_head s
      have e1 : firstLine (c :: s) = c :: firstLine s := by simp [firstLine, hcb]
      have e2 : lines (c :: s) = (c :: firstLine s) :: ls := by simp [lines, hcb, hl]
      rw [e1, e2]
      simp only [searchFrom, List.tail_cons]
      rw [matchPrefix_firstLine p (c :: s) h, e1, ih (some c), hl]
      simp [Bool.or_assoc]

/-- **A line-local pattern is found in a text iff it is found in one of its lines.** -/
theorem search_lines {r : RE} (s : Str) (h : r.lineLocal = true) : search r s = (lines s).any (search r) := by
  obtain ⟨ls, hl⟩ := lines_head s
  show searchFrom none r s = _
  rw [searchFrom_lines none s h, hl]
  rfl

theorem lines_append_nl (x t : Str) : lines (x ++ cNL :: t) = lines x ++ lines t := by
  induction x with
  | nil => simp [lines]
  | cons c x ih =>
    by_cases hc : c = cNL
    · subst hc; simp [lines, ih]
    · have hcb : (c == cNL) = false := by simpa using hc
      obtain ⟨ls, hl⟩ := lines_head x
      simp only [List.cons_append, lines, hcb, Bool.false_eq_true, ↓reduceIte, ih, hl]

theorem lines_joinNL (items : List Str) (h : items ≠ []) : lines (joinNL items) = items.flatMap lines := by
  induction items with
  | nil => exact absurd rfl h
  | cons x rest ih =>
    cases rest with
    | nil => simp [joinNL]
    | cons y r =>
      simp only [joinNL, lines_append_nl, List.flatMap_cons]
      rw [ih (by simp)]
      simp

/-- **For line-local patterns one search over the joined items equals searching every item** (as soon as there
    is an item at all). -/
theorem search_joinNL {r : RE} (items : List Str) (h : r.lineLocal = true) (hi : items ≠ []) :
    search r (joinNL items) = items.any (search r) := by
  rw [search_lines _ h, lines_joinNL items hi, List.any_flatMap]
  congr 1
  funext x
  exact (search_lines x h).symm

end LccModel.Regex

import LccModel.Lemmas.RunTask

/-!
  Frame lemmas for the run model: USER CODE (`execScript`: any script — logs, checks, steps, attachments and
  attachment blocks, raises of any class, `lcc.Thread`s whose scripts raise anything) never touches the abort
  flags of the run context.  Only `RunContext.handle_exception` (`Run.handleException`), called by the runner
  for an exception that leaves a unit in the TEST'S OWN thread, sets them.  In particular an `AbortSuite` /
  `AbortAllTests` that ends an `lcc.Thread` aborts nothing (`Thread.run` logs it as an error: the location is
  failed), and an exception that leaves a `with prepare_attachment` block is an exception of the unit around it.
-/
namespace LccModel.Run
open LccModel.Report LccModel.Session

/-- the program leaves the abort flags alone -/
def Keeps {α : Type} (m : M α) : Prop :=
  ∀ ts, (exec m ts).2.abortAll = ts.abortAll ∧ (exec m ts).2.abortedSuites = ts.abortedSuites

theorem keeps_pure {α : Type} (a : α) : Keeps (pure a : M α) := fun _ => ⟨rfl, rfl⟩

theorem keeps_bind {α β : Type} {m : M α} {f : α → M β} (h1 : Keeps m) (h2 : ∀ a, Keeps (f a)) : Keeps (m >>= f) := by
  intro ts
  have a := h1 ts
  have b := h2 (exec m ts).1 (exec m ts).2
  exact ⟨b.1.trans a.1, b.2.trans a.2⟩

theorem keeps_get_bind {β : Type} {f : TS → M β} (h : ∀ s, Keeps (f s)) : Keeps (get >>= f) := fun ts => h ts ts

theorem keeps_modify (g : TS → TS) (h : ∀ ts, (g ts).abortAll = ts.abortAll ∧ (g ts).abortedSuites = ts.abortedSuites) :
    Keeps (modify g : M PUnit) := fun ts => h ts

theorem keeps_emitUser (role : Nat) (u : UnitId) (w : String) : Keeps (emitUser role u w) :=
  keeps_modify _ (fun _ => ⟨rfl, rfl⟩)

theorem keeps_modelErr (msg : String) : Keeps (modelErr msg) := by
  unfold modelErr
  apply keeps_modify
  intro ts; split <;> exact ⟨rfl, rfl⟩

theorem keeps_sop (role : Nat) (op : Session.Op) : Keeps (sop role op) := by
  intro ts
  rw [exec_sop]
  cases Session.step ts.sess role op with
  | ok s' => exact ⟨rfl, rfl⟩
  | error e => dsimp only; split <;> exact ⟨rfl, rfl⟩

theorem keeps_apiAct (role : Nat) (op : Session.Op) : Keeps (apiAct role op) := by
  intro ts
  have h := keeps_sop role op { ts with acts := ts.acts + 1 }
  rw [exec_apiAct]
  split
  · split
    · exact ⟨rfl, rfl⟩
    · exact h
  · exact h

macro "keeps1" : tactic => `(tactic| with_reducible (first
  | apply keeps_pure | apply keeps_modelErr | apply keeps_emitUser | apply keeps_sop | apply keeps_apiAct
  | (apply keeps_get_bind; intro _)
  | (apply keeps_modify; intro _; exact ⟨rfl, rfl⟩)
  | refine keeps_bind ?_ (fun _ => ?_) | assumption | dsimp only | split))
macro "keeps" : tactic => `(tactic| repeat' keeps1)

/-- **user code never touches the abort flags** -/
theorem keeps_exec : ∀ fuel : Nat,
    (∀ role u i acts, Keeps (execActs fuel role u i acts)) ∧ (∀ role u sc, Keeps (execScript fuel role u sc)) := by
  intro fuel
  induction fuel with
  | zero =>
    constructor
    · intro role u i acts
      cases acts with
      | nil => unfold execActs; keeps
      | cons a rest => rw [execActs_zero]; keeps
    · intro role u sc
      rw [execScript_zero]; keeps
  | succ fuel ih =>
    constructor
    · intro role u i acts
      cases acts with
      | nil => unfold execActs; keeps
      | cons a rest =>
        rw [execActs_succ]
        have h1 := ih.1
        have h2 := ih.2
        refine keeps_bind (keeps_emitUser _ _ _) (fun _ => keeps_bind ?_ (fun r => ?_))
        · cases a <;> unfold actStep <;> keeps
          all_goals exact h2 _ _ _
        · cases r with
          | none => exact h1 _ _ _ _
          | some k => keeps
    · intro role u sc
      rw [execScript_succ]
      exact keeps_bind (keeps_emitUser _ _ _) (fun _ => ih.1 _ _ _ _)

theorem keeps_runUnit (u : UnitId) (sc : Script) : Keeps (runUnit u sc) := (keeps_exec FUEL).2 0 u sc

/-- looking a fixture up — which EVALUATES a per-thread fixture at its first use by the worker (user code: the
    fixture's setup script) — leaves the abort flags alone, whatever that setup raises -/
theorem keeps_getFixtureResult (P : Proj) (svs : List SuiteView) (w : Nat) (k : InstKey) (suite : Path) (name : String) :
    Keeps (getFixtureResult P svs w k suite name) := by
  unfold getFixtureResult
  have hr := keeps_runUnit
  keeps
  all_goals first
    | exact hr _ _
    | (apply keeps_modify; intro _; exact ⟨rfl, rfl⟩)

theorem keeps_lookupAll (P : Proj) (svs : List SuiteView) (w : Nat) (k : InstKey) (suite : Path) :
    ∀ names : List String, Keeps (lookupAll P svs w k suite names) := by
  intro names
  induction names with
  | nil => unfold lookupAll; keeps
  | cons n rest ih =>
    unfold lookupAll
    refine keeps_bind (keeps_getFixtureResult P svs w k suite n) (fun r => ?_)
    cases r with
    | none => exact ih
    | some e => keeps

/-- what `handle_exception` does to the flags, by kind -/
theorem handleException_flags (k : ExcKind) (suite : Option Path) (ws : Bool) (ts : TS) :
    (exec (handleException k suite ws) ts).2.abortAll = (ts.abortAll || k == .abortAll) ∧
    (exec (handleException k suite ws) ts).2.abortedSuites =
      ts.abortedSuites ++ (if k == .abortSuite then [if ws then suite else none] else []) := by
  unfold handleException
  have h := keeps_sop 0 (.log .error "") ts
  cases k <;> simp [exec_bind, exec_modify, h.1, h.2]

end LccModel.Run

/-! ### a concrete project for non-vacuity examples -/
namespace LccModel.Run.FlagSample
open LccModel.Report LccModel.Run

def k : ExcKind := ExcClass.kind .subAbortAll
def t : TestSpec := ⟨"t", 0, false, false, [], [], [.log .info, .thread [.log .info, .raise k], .log .info]⟩
def u : TestSpec := ⟨"u", 1, false, false, [], [], [.attachBlock [.log .info, .attachBlock [.raise k]], .log .info]⟩
def P : Proj := ⟨[], [SuiteSpec.mk "s" 0 false none none none none [] [t, u] []], 1, false, false⟩
def o1 : TaskOut := runTask P Insts.empty 0 ⟨.test, ["s", "t"]⟩ true false [] none
def o2 : TaskOut := runTask P Insts.empty 0 ⟨.test, ["s", "u"]⟩ true false [] none

end LccModel.Run.FlagSample

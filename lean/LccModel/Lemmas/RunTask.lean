import LccModel.Model.Run
import LccModel.Lemmas.SessionLoc

/-!
  Reasoning about the run model `Model/Run.lean`: a small relational Hoare logic for the interpreter
  monad `M = StateM TS`.

  `Tr J J' Φ m`: started in a state whose session satisfies `J`, the program `m` ends in a state whose
  session satisfies `J'`; the items it emitted (`new`) are appended to `out`, the events among them are
  exactly what was appended to the session's `fired` list, and `Φ new` holds.
-/
namespace LccModel.Run
open LccModel.Report LccModel.Session

/-- run a program of the interpreter monad -/
def exec {α : Type} (m : M α) (ts : TS) : α × TS := m ts

@[simp] theorem exec_pure {α : Type} (a : α) (ts : TS) : exec (pure a : M α) ts = (a, ts) := rfl
@[simp] theorem exec_bind {α β : Type} (m : M α) (f : α → M β) (ts : TS) :
    exec (m >>= f) ts = exec (f (exec m ts).1) (exec m ts).2 := rfl
@[simp] theorem exec_get (ts : TS) : exec (get : M TS) ts = (ts, ts) := rfl
@[simp] theorem exec_set (s ts : TS) : exec (set s : M PUnit) ts = (⟨⟩, s) := rfl
@[simp] theorem exec_modify (f : TS → TS) (ts : TS) : exec (modify f : M PUnit) ts = (⟨⟩, f ts) := rfl

def evOf : Item → Option Event
  | .ev e => some e
  | _ => none

@[simp] theorem filterMap_evOf_map (l : List Event) : (l.map Item.ev).filterMap evOf = l := by
  induction l with
  | nil => rfl
  | cons e es ih => simp [evOf, ih]

/-- `ts'` extends `ts` by the items `new` -/
structure Ext (ts ts' : TS) (new : List Item) : Prop where
  out : ts'.out.toList = ts.out.toList ++ new
  fired : ts'.sess.fired = ts.sess.fired ++ new.filterMap evOf

theorem Ext.refl_of {ts ts' : TS} (h1 : ts'.out = ts.out) (h2 : ts'.sess = ts.sess) : Ext ts ts' [] :=
  ⟨by rw [h1]; simp, by rw [h2]; simp⟩

theorem Ext.trans {a b c : TS} {n1 n2 : List Item} (h1 : Ext a b n1) (h2 : Ext b c n2) : Ext a c (n1 ++ n2) :=
  ⟨by rw [h2.out, h1.out, List.append_assoc], by rw [h2.fired, h1.fired, List.filterMap_append, List.append_assoc]⟩

def Tr {α : Type} (J J' : St → Prop) (Φ : List Item → Prop) (m : M α) : Prop :=
  ∀ ts, J ts.sess → J' (exec m ts).2.sess ∧ ∃ new, Ext ts (exec m ts).2 new ∧ Φ new

def All (P : Item → Prop) (l : List Item) : Prop := ∀ x ∈ l, P x

theorem All.nil {P : Item → Prop} : All P [] := by intro x hx; cases hx
theorem All.append {P : Item → Prop} {l1 l2 : List Item} (h1 : All P l1) (h2 : All P l2) : All P (l1 ++ l2) := by
  intro x hx
  rcases List.mem_append.mp hx with hx | hx
  · exact h1 x hx
  · exact h2 x hx
theorem All.mono {P Q : Item → Prop} {l : List Item} (h : All P l) (hq : ∀ x, P x → Q x) : All Q l :=
  fun x hx => hq x (h x hx)

/-- sequential composition: the emitted items are concatenated -/
def Seq (Φ1 Φ2 : List Item → Prop) (l : List Item) : Prop := ∃ l1 l2, l = l1 ++ l2 ∧ Φ1 l1 ∧ Φ2 l2

theorem tr_bind {α β : Type} {J J' J'' : St → Prop} {Φ1 Φ2 : List Item → Prop} {m : M α} {f : α → M β}
    (h1 : Tr J J' Φ1 m) (h2 : ∀ a, Tr J' J'' Φ2 (f a)) : Tr J J'' (Seq Φ1 Φ2) (m >>= f) := by
  intro ts hj
  obtain ⟨hj1, n1, e1, p1⟩ := h1 ts hj
  obtain ⟨hj2, n2, e2, p2⟩ := h2 (exec m ts).1 (exec m ts).2 hj1
  exact ⟨hj2, n1 ++ n2, e1.trans e2, n1, n2, rfl, p1, p2⟩

theorem tr_weaken {α : Type} {J J' : St → Prop} {Φ Φ' : List Item → Prop} {m : M α}
    (h : Tr J J' Φ m) (hw : ∀ l, Φ l → Φ' l) : Tr J J' Φ' m := by
  intro ts hj
  obtain ⟨hj1, n1, e1, p1⟩ := h ts hj
  exact ⟨hj1, n1, e1, hw _ p1⟩

theorem tr_pure {α : Type} {J : St → Prop} {Φ : List Item → Prop} (a : α) (h : Φ []) : Tr J J Φ (pure a : M α) := by
  intro ts hj
  exact ⟨hj, [], Ext.refl_of rfl rfl, h⟩

/-- pointwise version: every emitted item satisfies `P`, the invariant `J` is kept -/
abbrev TrA {α : Type} (J : St → Prop) (P : Item → Prop) (m : M α) : Prop := Tr J J (All P) m

theorem tra_bind {α β : Type} {J : St → Prop} {P : Item → Prop} {m : M α} {f : α → M β}
    (h1 : TrA J P m) (h2 : ∀ a, TrA J P (f a)) : TrA J P (m >>= f) :=
  tr_weaken (tr_bind h1 h2) (by rintro l ⟨l1, l2, rfl, p1, p2⟩; exact p1.append p2)

theorem tra_pure {α : Type} {J : St → Prop} {P : Item → Prop} (a : α) : TrA J P (pure a : M α) :=
  tr_pure a All.nil

theorem tra_mono {α : Type} {J : St → Prop} {P Q : Item → Prop} {m : M α} (h : TrA J P m) (hq : ∀ x, P x → Q x) :
    TrA J Q m := tr_weaken h (fun _ hl => hl.mono hq)

theorem tra_get_bind {β : Type} {J : St → Prop} {P : Item → Prop} {f : TS → M β}
    (h : ∀ s, TrA J P (f s)) : TrA J P (get >>= f) := by
  intro ts hj
  exact h ts ts hj

theorem tra_modify {J : St → Prop} {P : Item → Prop} (g : TS → TS)
    (h : ∀ ts, (g ts).sess = ts.sess ∧ (g ts).out = ts.out) : TrA J P (modify g : M PUnit) := by
  intro ts hj
  simp only [exec_modify]
  exact ⟨by rw [(h ts).1]; exact hj, [], Ext.refl_of (h ts).2 (h ts).1, All.nil⟩

theorem tra_emitUser {J : St → Prop} {P : Item → Prop} (role : Nat) (u : UnitId) (w : String)
    (h : P (.user role u w)) : TrA J P (emitUser role u w) := by
  intro ts hj
  refine ⟨hj, [.user role u w], ⟨?_, ?_⟩, ?_⟩
  · show (ts.out.push (Item.user role u w)).toList = _
    simp
  · show ts.sess.fired = _
    simp [evOf]
  · intro x hx; simp at hx; subst hx; exact h

theorem tra_modelErr {J : St → Prop} {P : Item → Prop} (msg : String) : TrA J P (modelErr msg) := by
  unfold modelErr
  apply tra_modify
  intro ts; split <;> exact ⟨rfl, rfl⟩

theorem exec_sop (role : Nat) (op : Session.Op) (ts : TS) :
    exec (sop role op) ts = ((), match Session.step ts.sess role op with
      | .ok s' => { ts with sess := s', out := ts.out ++ ((s'.fired.drop ts.sess.fired.length).map Item.ev).toArray }
      | .error _ => if ts.err.isSome then ts else { ts with err := some "session protocol error" }) := rfl

/-- a session call: what the step fires is what the task emits -/
theorem tr_sop {J J' : St → Prop} {Φ : List Item → Prop} (role : Nat) (op : Session.Op)
    (hok : ∀ s s', J s → Session.step s role op = .ok s' → J' s' ∧ ∃ new, s'.fired = s.fired ++ new ∧ Φ (new.map Item.ev))
    (herr : ∀ s e, J s → Session.step s role op = .error e → J' s ∧ Φ []) : Tr J J' Φ (sop role op) := by
  intro ts hj
  rw [exec_sop]
  cases hs : Session.step ts.sess role op with
  | ok s' =>
    obtain ⟨hj', new, hf, hp⟩ := hok ts.sess s' hj hs
    refine ⟨hj', new.map Item.ev, ⟨?_, ?_⟩, hp⟩
    · simp [hf]
    · show s'.fired = _
      rw [filterMap_evOf_map]; exact hf
  | error e =>
    obtain ⟨hj', hp⟩ := herr ts.sess e hj hs
    refine ⟨?_, [], ?_, hp⟩
    · simp only; split <;> exact hj'
    · simp only; split <;> exact Ext.refl_of rfl rfl

theorem tra_sop {J : St → Prop} {P : Item → Prop} (role : Nat) (op : Session.Op)
    (hok : ∀ s s', J s → Session.step s role op = .ok s' → J s' ∧ ∃ new, s'.fired = s.fired ++ new ∧ ∀ e ∈ new, P (.ev e)) :
    TrA J P (sop role op) := by
  apply tr_sop role op
  · intro s s' hj hs
    obtain ⟨h1, new, h2, h3⟩ := hok s s' hj hs
    refine ⟨h1, new, h2, ?_⟩
    intro x hx
    obtain ⟨e, he, rfl⟩ := List.mem_map.mp hx
    exact h3 e he
  · intro s e hj _; exact ⟨hj, All.nil⟩

end LccModel.Run

namespace LccModel.Run
open LccModel.Report LccModel.Session

/-! ### Programs that only issue inner session ops (user code, fixtures, the setup/teardown loops) -/

/-- `J` is kept by every inner op and what an inner op fires satisfies `P` -/
structure Inner (J : St → Prop) (P : Item → Prop) : Prop where
  step : ∀ s tid op s', Op.inner op = true → J s → Session.step s tid op = .ok s' →
     J s' ∧ ∃ new, s'.fired = s.fired ++ new ∧ ∀ e ∈ new, P (.ev e)

/-- all user items of unit `u` other than its "enter" record satisfy `P` -/
def UActs (P : Item → Prop) (u : UnitId) : Prop := ∀ r w, w ≠ "enter" → P (.user r u w)

/-- user items of fixtures, hooks and `lcc.Thread`s satisfy `P` -/
structure UserOk (P : Item → Prop) : Prop where
  fx : ∀ r f b w, P (.user r (.fx f b) w)
  hook : ∀ r s h t w, P (.user r (.hook s h t) w)
  th : ∀ r u i w, P (.user r (.th u i) w)
  blk : ∀ r u i w, P (.user r (.blk u i) w)

macro "tra1" : tactic => `(tactic| with_reducible (first
  | apply tra_pure | apply tra_modelErr | (apply tra_get_bind; intro _)
  | (apply tra_modify; intro _; exact ⟨rfl, rfl⟩)
  | refine tra_bind ?_ (fun _ => ?_) | assumption | dsimp only | split))
/-- decompose a `do` block along binds, conditionals and matches; leaves the calls it does not know -/
macro "tra" : tactic => `(tactic| repeat' tra1)
/-- close the remaining calls with the given lemmas -/
syntax "tra_using" term,* : tactic
macro_rules
  | `(tactic| tra_using $ts,*) => `(tactic| (tra; all_goals with_reducible (first $[| apply $ts]*)))

variable {J : St → Prop} {P : Item → Prop}

theorem tra_sop_inner (hI : Inner J P) (role : Nat) (op : Session.Op) (hop : op.inner = true) :
    TrA J P (sop role op) :=
  tra_sop role op (fun s s' hj hs => hI.step s role op s' hop hj hs)

theorem exec_apiAct (role : Nat) (op : Session.Op) (ts : TS) : exec (apiAct role op) ts =
    (match ts.cut with
     | some c => if c ≤ ts.acts then (some .interrupted, { ts with acts := ts.acts + 1 })
                 else (none, (exec (sop role op) { ts with acts := ts.acts + 1 }).2)
     | none => (none, (exec (sop role op) { ts with acts := ts.acts + 1 }).2)) := by
  unfold apiAct
  simp only [exec_bind, exec_get, exec_set]
  cases h : ts.cut with
  | none => simp; rfl
  | some c => simp; split <;> rfl

theorem tra_apiAct (hI : Inner J P) (role : Nat) (op : Session.Op) (hop : op.inner = true) :
    TrA J P (apiAct role op) := by
  intro ts hj
  have h := tra_sop_inner hI role op hop { ts with acts := ts.acts + 1 } hj
  have hcut : J (ts.sess) ∧ ∃ new, Ext ts { ts with acts := ts.acts + 1 } new ∧ All P new :=
    ⟨hj, [], Ext.refl_of rfl rfl, All.nil⟩
  have hrun : J (exec (sop role op) { ts with acts := ts.acts + 1 }).2.sess ∧
      ∃ new, Ext ts (exec (sop role op) { ts with acts := ts.acts + 1 }).2 new ∧ All P new := by
    obtain ⟨h1, new, h2, h3⟩ := h
    exact ⟨h1, new, ⟨h2.out, h2.fired⟩, h3⟩
  rw [exec_apiAct]
  split
  · split
    · exact hcut
    · exact hrun
  · exact hrun

theorem act_ne_enter (i : Nat) : s!"act:{i}" ≠ "enter" := by
  intro h
  have := congrArg String.toList h
  simp [String.toList_append] at this
  have h2 : (toString "act:").toList = ['a','c','t',':'] := by decide
  rw [h2] at this
  simp at this

theorem raise_ne_enter (k : ExcKind) : (match k with
    | .exc => "raise:exc" | .abortTest => "raise:AbortTest" | .abortSuite => "raise:AbortSuite"
    | .abortAll => "raise:AbortAllTests" | .interrupted => "raise:interrupted" | .sysExit => "raise:exc" | .baseExc => "raise:exc") ≠ "enter" := by
  cases k <;> decide

theorem tra_execActs_nil (role : Nat) (u : UnitId) (i fuel : Nat) (hu : UActs P u) :
    TrA J P (execActs fuel role u i []) := by
  unfold execActs
  exact tra_bind (tra_emitUser _ _ _ (hu _ _ (by decide))) (fun _ => tra_pure _)

theorem execActs_zero (role : Nat) (u : UnitId) (i : Nat) (a : Act) (rest : List Act) :
    execActs 0 role u i (a :: rest) = (do modelErr "fuel"; return none) := by
  unfold execActs; rfl

/-- what one act does (everything but the continuation) -/
def actStep (fuel : Nat) (role : Nat) (u : UnitId) (i : Nat) : Act → M (Option ExcKind)
  | .log l => apiAct role (.log l "")
  | .check ok => apiAct role (.check "" ok none)
  | .step d => apiAct role (.setStep d)
  | .url => apiAct role (.url "" "")
  | .attach => apiAct role (.attach "" "" false)
  | .raise k => pure (some k)
  | .gate => pure none
  | .thread inner => do
    let c := (← get).nextChild
    modify fun ts => { ts with nextChild := c + 1 }
    sop role (.threadCreate c)
    sop c .threadRun
    let r ← execScript fuel c (.th u i) inner
    if threadLogs r then
      sop c (.log .error "")
    sop c .threadEnd
    pure none
  | .attachBlock inner => do
    match ← apiAct role (.attachBegin "" "" false) with
    | some k => pure (some k)
    | none =>
      match ← execScript fuel role (.blk u i) inner with
      | some k => do sop role .attachAbort; pure (some k)
      | none => do sop role .attachEnd; pure none

def raiseName : ExcKind → String
  | .exc => "raise:exc" | .abortTest => "raise:AbortTest" | .abortSuite => "raise:AbortSuite"
  | .abortAll => "raise:AbortAllTests" | .interrupted => "raise:interrupted" | .sysExit => "raise:exc" | .baseExc => "raise:exc"

theorem execActs_succ (fuel : Nat) (role : Nat) (u : UnitId) (i : Nat) (a : Act) (rest : List Act) :
    execActs (fuel + 1) role u i (a :: rest) = (do
      emitUser role u s!"act:{i}"
      let r ← actStep fuel role u i a
      match r with
      | some k => do emitUser role u (raiseName k); return some k
      | none => execActs fuel role u (i + 1) rest) := by
  conv => lhs; unfold execActs
  cases a <;> rfl

theorem execScript_zero (role : Nat) (u : UnitId) (sc : Script) :
    execScript 0 role u sc = (do modelErr "fuel"; return none) := by
  unfold execScript; rfl

theorem execScript_succ (fuel : Nat) (role : Nat) (u : UnitId) (sc : Script) :
    execScript (fuel + 1) role u sc = (do emitUser role u "enter"; execActs fuel role u 0 sc) := by
  rw [execScript]

theorem raiseName_ne_enter (k : ExcKind) : raiseName k ≠ "enter" := by cases k <;> decide

/-- user code: a script issues inner ops only; its user records belong to its own unit or to the threads
    it starts -/
theorem tra_exec (hI : Inner J P) (hU : UserOk P) : ∀ fuel : Nat,
    (∀ role u i acts, UActs P u → TrA J P (execActs fuel role u i acts)) ∧
    (∀ role u sc, UActs P u → (∀ r, P (.user r u "enter")) → TrA J P (execScript fuel role u sc)) := by
  intro fuel
  induction fuel with
  | zero =>
    constructor
    · intro role u i acts hu
      cases acts with
      | nil => exact tra_execActs_nil _ _ _ _ hu
      | cons a rest => rw [execActs_zero]; exact tra_bind (tra_modelErr _) (fun _ => tra_pure _)
    · intro role u sc hu he
      rw [execScript_zero]; exact tra_bind (tra_modelErr _) (fun _ => tra_pure _)
  | succ fuel ih =>
    constructor
    · intro role u i acts hu
      cases acts with
      | nil => exact tra_execActs_nil _ _ _ _ hu
      | cons a rest =>
        rw [execActs_succ]
        have hth : UActs P (.th u i) := fun r w _ => hU.th r u i w
        have h1 := ih.1
        have h2 : ∀ c inner, TrA J P (execScript fuel c (.th u i) inner) :=
          fun c inner => ih.2 c (.th u i) inner hth (fun r => hU.th r u i _)
        have hbl : UActs P (.blk u i) := fun r w _ => hU.blk r u i w
        have h3 : ∀ c inner, TrA J P (execScript fuel c (.blk u i) inner) :=
          fun c inner => ih.2 c (.blk u i) inner hbl (fun r => hU.blk r u i _)
        have hs : ∀ r op, op.inner = true → TrA J P (sop r op) := fun r op h => tra_sop_inner hI r op h
        refine tra_bind (tra_emitUser _ _ _ (hu _ _ (act_ne_enter i))) (fun _ => ?_)
        refine tra_bind ?_ (fun r => ?_)
        · cases a with
          | log l => exact tra_apiAct hI _ _ rfl
          | check ok => exact tra_apiAct hI _ _ rfl
          | step d => exact tra_apiAct hI _ _ rfl
          | url => exact tra_apiAct hI _ _ rfl
          | attach => exact tra_apiAct hI _ _ rfl
          | raise k => exact tra_pure _
          | gate => exact tra_pure _
          | thread inner =>
            unfold actStep
            tra
            all_goals first
              | exact hs _ _ rfl
              | exact h2 _ _
          | attachBlock inner =>
            unfold actStep
            tra
            all_goals first
              | exact tra_apiAct hI _ _ rfl
              | exact hs _ _ rfl
              | exact h3 _ _
        · cases r with
          | none => exact h1 _ _ _ _ hu
          | some k =>
            exact tra_bind (tra_emitUser _ _ _ (hu _ _ (raiseName_ne_enter k))) (fun _ => tra_pure _)
    · intro role u sc hu he
      rw [execScript_succ]
      exact tra_bind (tra_emitUser _ _ _ (he _)) (fun _ => ih.1 _ _ _ _ hu)

theorem tra_runUnit (hI : Inner J P) (hU : UserOk P) (u : UnitId) (sc : Script) (hu : UActs P u)
    (he : ∀ r, P (.user r u "enter")) : TrA J P (runUnit u sc) :=
  (tra_exec hI hU FUEL).2 0 u sc hu he

theorem tra_runUnit_fx (hI : Inner J P) (hU : UserOk P) (f : String) (b : Bool) (sc : Script) :
    TrA J P (runUnit (.fx f b) sc) :=
  tra_runUnit hI hU _ _ (fun r w _ => hU.fx r f b w) (fun r => hU.fx r f b _)

theorem tra_runUnit_hook (hI : Inner J P) (hU : UserOk P) (s : Path) (h : String) (t : Option Path) (sc : Script) :
    TrA J P (runUnit (.hook s h t) sc) :=
  tra_runUnit hI hU _ _ (fun r w _ => hU.hook r s h t w) (fun r => hU.hook r s h t _)

theorem tra_handleException (hI : Inner J P) (k : ExcKind) (suite : Option Path) (ws : Bool) :
    TrA J P (handleException k suite ws) := by
  unfold handleException
  refine tra_bind (tra_sop_inner hI _ _ rfl) (fun _ => ?_)
  tra

theorem tra_isOk (loc : Loc) : TrA J P (isOk loc) := by
  unfold isOk; tra

theorem tra_getFixtureResult (hI : Inner J P) (hU : UserOk P) (Pj : Proj) (svs : List SuiteView) (w : Nat)
    (k : InstKey) (suite : Path) (name : String) : TrA J P (getFixtureResult Pj svs w k suite name) := by
  unfold getFixtureResult
  tra_using tra_runUnit_fx hI hU

theorem tra_lookupAll (hI : Inner J P) (hU : UserOk P) (Pj : Proj) (svs : List SuiteView) (w : Nat)
    (k : InstKey) (suite : Path) (names : List String) : TrA J P (lookupAll Pj svs w k suite names) := by
  induction names with
  | nil => unfold lookupAll; tra
  | cons n rest ih =>
    unfold lookupAll
    tra_using tra_getFixtureResult hI hU

theorem tra_setupFixture (hI : Inner J P) (hU : UserOk P) (Pj : Proj) (svs : List SuiteView) (w : Nat)
    (k : InstKey) (suite : Path) (name : String) : TrA J P (setupFixture Pj svs w k suite name) := by
  unfold setupFixture
  tra_using tra_runUnit_fx hI hU, tra_lookupAll hI hU

theorem tra_teardownObjects (hI : Inner J P) (hU : UserOk P) (f : Fx) (first : Option ExcKind)
    (objs : List (InstKey × String × Nat)) : TrA J P (teardownObjects f first objs) := by
  induction objs generalizing first with
  | nil => unfold teardownObjects; tra
  | cons o rest ih => unfold teardownObjects; tra_using tra_runUnit_fx hI hU, ih

theorem tra_teardownFixture (hI : Inner J P) (hU : UserOk P) (Pj : Proj) (k : InstKey) (name : String) :
    TrA J P (teardownFixture Pj k name) := by
  unfold teardownFixture
  tra_using tra_runUnit_fx hI hU, tra_teardownObjects hI hU

theorem tra_runSetupFn (hI : Inner J P) (hU : UserOk P) (Pj : Proj) (svs : List SuiteView) (w : Nat) (suite : Path)
    (fn : SetupFn) : TrA J P (runSetupFn Pj svs w suite fn) := by
  cases fn <;> unfold runSetupFn <;>
    tra_using tra_runUnit_hook hI hU, tra_lookupAll hI hU, tra_setupFixture hI hU

theorem tra_runSetupFuncs (hI : Inner J P) (hU : UserOk P) (Pj : Proj) (svs : List SuiteView) (w : Nat) (suite : Path)
    (loc : Loc) (hs : Option Path) (pairs : List (Option SetupFn × Td)) (acc : List Td) :
    TrA J P (runSetupFuncs Pj svs w suite loc hs pairs acc) := by
  induction pairs generalizing acc with
  | nil => unfold runSetupFuncs; tra
  | cons p rest ih =>
    obtain ⟨fn, td⟩ := p
    cases fn with
    | none => unfold runSetupFuncs; exact ih _
    | some fn =>
      unfold runSetupFuncs
      tra_using tra_runSetupFn hI hU, tra_handleException hI, tra_isOk, ih

theorem tra_runTd (hI : Inner J P) (hU : UserOk P) (Pj : Proj) (svs : List SuiteView) (loc : Loc) (td : Td) :
    TrA J P (runTd Pj svs loc td) := by
  cases td <;> unfold runTd <;>
    tra_using tra_runUnit_hook hI hU, tra_teardownFixture hI hU, tra_isOk

theorem tra_tdStep (hI : Inner J P) (hU : UserOk P) (Pj : Proj) (svs : List SuiteView) (loc : Loc) (hs : Option Path)
    (td : Td) : TrA J P (tdStep Pj svs loc hs td) := by
  unfold tdStep
  tra_using tra_runTd hI hU, tra_handleException hI

theorem tra_runTdList (hI : Inner J P) (hU : UserOk P) (Pj : Proj) (svs : List SuiteView) (loc : Loc) (hs : Option Path)
    (tds : List Td) : TrA J P (runTdList Pj svs loc hs tds) := by
  induction tds with
  | nil => unfold runTdList; tra
  | cons td rest ih => unfold runTdList; tra_using tra_tdStep hI hU, ih

theorem tra_runTeardownFuncs (hI : Inner J P) (hU : UserOk P) (Pj : Proj) (svs : List SuiteView) (loc : Loc)
    (hs : Option Path) (tds : List Td) : TrA J P (runTeardownFuncs Pj svs loc hs tds) :=
  tra_runTdList hI hU _ _ _ _ _

end LccModel.Run

namespace LccModel.Run
open LccModel.Report LccModel.Session

/-! ### Instances: a task working at report location `L` -/

/-- session invariant of a task working at `L`: failure set in sync with the fired events (`Session.Inv`),
    all cursors at `L` -/
def JT (L : Loc) (s : St) : Prop := Inv s ∧ LocInv L s
/-- … and the pool worker (role 0) has its cursor -/
def JC (L : Loc) (s : St) : Prop := Inv s ∧ LocInv L s ∧ (getCursor s 0).isSome = true

theorem JC.toJT {L : Loc} {s : St} (h : JC L s) : JT L s := ⟨h.1, h.2.1⟩

theorem jt_init (L : Loc) : JT L St.init := ⟨inv_init, locInv_init L⟩

/-- items emitted while user code of location `L` runs: inner events of `L`; user records satisfying `Q` -/
def PIn (L : Loc) (Q : Nat → UnitId → String → Prop) : Item → Prop
  | .ev e => innerEv L e = true
  | .user r u w => Q r u w

/-- items of the task working at `L`: events carrying `L` or the task's own bracketing events -/
def POwn (L : Loc) : Item → Prop
  | .ev e => ownEv L e = true
  | .user _ _ _ => True

theorem Inner.mono {J : St → Prop} {P P' : Item → Prop} (h : Inner J P) (hp : ∀ e, P (.ev e) → P' (.ev e)) :
    Inner J P' :=
  ⟨fun s tid op s' hop hj hs => by
    obtain ⟨h1, new, h2, h3⟩ := h.step s tid op s' hop hj hs
    exact ⟨h1, new, h2, fun e he => hp e (h3 e he)⟩⟩

theorem inner_JT (L : Loc) (Q : Nat → UnitId → String → Prop) : Inner (JT L) (PIn L Q) :=
  ⟨fun s tid op s' hop hj hs => by
    obtain ⟨h1, new, h2, h3⟩ := step_inner hj.2 hop hs
    exact ⟨⟨inv_step hj.1 hs, h1⟩, new, h2, h3⟩⟩

theorem inner_JC (L : Loc) (Q : Nat → UnitId → String → Prop) : Inner (JC L) (PIn L Q) :=
  ⟨fun s tid op s' hop hj hs => by
    obtain ⟨h1, new, h2, h3⟩ := step_inner hj.2.1 hop hs
    exact ⟨⟨inv_step hj.1 hs, h1, step_hasCursor 0 hj.2.2 hs⟩, new, h2, h3⟩⟩

theorem pIn_own {L : Loc} {Q : Nat → UnitId → String → Prop} (x : Item) (h : PIn L Q x) : POwn L x := by
  cases x with
  | ev e => simp only [PIn] at h; simp [POwn, ownEv, h]
  | user r u w => trivial

theorem inner_own (L : Loc) : Inner (JT L) (POwn L) :=
  (inner_JT L (fun _ _ _ => True)).mono (fun e he => pIn_own (Q := fun _ _ _ => True) (.ev e) he)

theorem userOk_own (L : Loc) : UserOk (POwn L) :=
  ⟨fun _ _ _ _ => trivial, fun _ _ _ _ _ => trivial, fun _ _ _ _ => trivial, fun _ _ _ _ => trivial⟩

/-- any call allowed to a task working at `L` emits events of `L` only -/
theorem tra_sop_own {L : Loc} (role : Nat) (op : Session.Op) (hop : opFor L op = true) :
    TrA (JT L) (POwn L) (sop role op) :=
  tra_sop role op (fun s s' hj hs => by
    obtain ⟨h1, new, h2, h3⟩ := step_own hj.2 hop hs
    exact ⟨⟨inv_step hj.1 hs, h1⟩, new, h2, h3⟩)

/-! ### Test-level and suite-level projections of the item stream -/

inductive TLev | start (p : Path) | end_ (p : Path) | skipped (p : Path) | disabled (p : Path)
deriving DecidableEq, Repr

/-- the test-level events: start / end / skipped / disabled of a test -/
def testLevel : Item → Option TLev
  | .ev (.testStart p _ _) => some (.start p)
  | .ev (.testEnd p _) => some (.end_ p)
  | .ev (.testSkipped p _ _ _) => some (.skipped p)
  | .ev (.testDisabled p _ _ _) => some (.disabled p)
  | _ => none

inductive SLev | start (p : Path) | end_ (p : Path)
deriving DecidableEq, Repr

/-- the suite start / end events -/
def suiteLevel : Item → Option SLev
  | .ev (.suiteStart p _ _) => some (.start p)
  | .ev (.suiteEnd p _) => some (.end_ p)
  | _ => none

theorem testLevel_inner {L : Loc} {e : Event} (h : innerEv L e = true) : testLevel (.ev e) = none := by
  cases e <;> simp [innerEv] at h <;> rfl

theorem suiteLevel_inner {L : Loc} {e : Event} (h : innerEv L e = true) : suiteLevel (.ev e) = none := by
  cases e <;> simp [innerEv] at h <;> rfl

theorem testLevel_pIn {L : Loc} {Q : Nat → UnitId → String → Prop} {x : Item} (h : PIn L Q x) : testLevel x = none := by
  cases x with
  | ev e => exact testLevel_inner h
  | user r u w => rfl

theorem filterMap_testLevel_pIn {L : Loc} {Q : Nat → UnitId → String → Prop} {l : List Item} (h : All (PIn L Q) l) :
    l.filterMap testLevel = [] :=
  List.filterMap_eq_nil_iff.mpr (fun x hx => testLevel_pIn (h x hx))

/-! ### The phases of the test task -/

section
variable {J : St → Prop} {P : Item → Prop}

theorem tra_testSetup (hI : Inner J P) (hU : UserOk P) (Pj : Proj) (svs : List SuiteView) (w : Nat) (path : Path)
    (sv : SuiteView) (ts : TestSpec) : TrA J P (testSetup Pj svs w path sv ts) := by
  unfold testSetup
  tra_using tra_runSetupFuncs hI hU

theorem tra_testTeardown (hI : Inner J P) (hU : UserOk P) (Pj : Proj) (svs : List SuiteView) (path : Path)
    (kept : List Td) : TrA J P (testTeardown Pj svs path kept) := by
  unfold testTeardown
  tra_using tra_runTeardownFuncs hI hU, tra_sop_inner hI 0 (.setStep "Teardown test") rfl

theorem tra_testBody (hI : Inner J P) (hU : UserOk P) (Pj : Proj) (svs : List SuiteView) (w : Nat) (path : Path)
    (ts : TestSpec) (hb : UActs P (.body path)) (he : ∀ r, P (.user r (.body path) "enter")) :
    TrA J P (testBody Pj svs w path ts) := by
  unfold testBody
  tra_using tra_isOk, tra_lookupAll hI hU, tra_handleException hI, tra_sop_inner hI 0 (.setStep ("test " ++ ts.name)) rfl,
    tra_runUnit hI hU (.body path) ts.script hb he

end

/-- the test task of an enabled test, with the part emitted by `testBody` described by any `Φb` -/
theorem tr_testRun {P : Item → Prop} {Φb : List Item → Prop} (Pj : Proj) (svs : List SuiteView) (w : Nat) (path : Path)
    (sv : SuiteView) (ts : TestSpec)
    (hI : Inner (JC (.test path)) P) (hU : UserOk P) (hP : ∀ e, innerEv (.test path) e = true → P (.ev e))
    (hb : Tr (JC (.test path)) (JC (.test path)) Φb (testBody Pj svs w path ts)) :
    Tr (JT (.test path)) (JC (.test path))
      (fun l => ∃ t0 a b c t1, l = .ev (.testStart path (mdOf ts.name ts.rank) t0) :: (a ++ b ++ c ++ [.ev (.testEnd path t1)]) ∧
        All P a ∧ Φb b ∧ All P c)
      (testRun Pj svs w path sv ts) := by
  unfold testRun
  have h1 : Tr (JT (.test path)) (JC (.test path)) (fun l => ∃ t0, l = [.ev (.testStart path (mdOf ts.name ts.rank) t0)])
      (sop 0 (.startTest path (mdOf ts.name ts.rank))) := by
    apply tr_sop
    · intro s s' hj hs
      obtain ⟨s2, h2, h3, h4⟩ := step_startTest s 0 path (mdOf ts.name ts.rank)
      rw [hs] at h2; injection h2 with h2; subst h2
      exact ⟨⟨inv_step hj.1 hs, (step_loc hj.2 (by simp [opFor]) hs).1, h4⟩, _, h3, s.now, rfl⟩
    · intro s e hj hs
      obtain ⟨s2, h2, _⟩ := step_startTest s 0 path (mdOf ts.name ts.rank)
      rw [hs] at h2; cases h2
  have h6 : Tr (JC (.test path)) (JC (.test path)) (fun l => ∃ pre t1, l = pre ++ [.ev (.testEnd path t1)] ∧ All P pre)
      (sop 0 (.endTest path)) := by
    apply tr_sop
    · intro s s' hj hs
      obtain ⟨s2, pre, t1, h2, h3, h4⟩ := step_endTest path hj.2.1 hj.2.2
      rw [hs] at h2; injection h2 with h2; subst h2
      refine ⟨⟨inv_step hj.1 hs, (step_loc hj.2.1 (by simp [opFor]) hs).1, step_hasCursor 0 hj.2.2 hs⟩,
        pre ++ [.testEnd path t1], by rw [h3, List.append_assoc], pre.map Item.ev, t1, by simp, ?_⟩
      intro x hx
      obtain ⟨e, he, rfl⟩ := List.mem_map.mp hx
      exact hP e (h4 e he)
    · intro s e hj hs
      obtain ⟨s2, pre, t1, h2, _⟩ := step_endTest path hj.2.1 hj.2.2
      rw [hs] at h2; cases h2
  have h2 := tra_sop_inner hI 0 (.setStep "Setup test") rfl
  have h3 := tra_testSetup hI hU Pj svs w path sv ts
  have h5 := fun kept => tra_testTeardown hI hU Pj svs path kept
  have h7 : ∀ (g : Bool → ResClass × List Td), Tr (JC (.test path)) (JC (.test path)) (fun l => l = [])
      (isOk (.test path) >>= fun b => (pure (g b) : M (ResClass × List Td))) :=
    fun g ts hj => ⟨hj, [], Ext.refl_of rfl rfl, rfl⟩
  refine tr_weaken (tr_bind h1 (fun _ => tr_bind h2 (fun _ => tr_bind h3 (fun kept => tr_bind hb (fun _ =>
    tr_bind (h5 kept) (fun _ => tr_bind h6 (fun _ => h7 _))))))) ?_
  rintro l ⟨l1, r1, rfl, ⟨t0, rfl⟩, l2, r2, rfl, p2, l3, r3, rfl, p3, l4, r4, rfl, p4, l5, r5, rfl, p5, l6, r6, rfl,
    ⟨pre, t1, rfl, ppre⟩, p7⟩
  subst p7
  exact ⟨t0, l2 ++ l3, l4, l5 ++ pre, t1, by simp, p2.append p3, p4, p5.append ppre⟩

end LccModel.Run

namespace LccModel.Run
open LccModel.Report LccModel.Session

/-! ### From programs to `runTask` -/

/-- the state a task starts from -/
def ts0 (insts : Insts) (cut : Option Nat) : TS :=
  { sess := Session.St.init, out := #[], acts := 0, cut := cut, nextChild := 1, insts := insts,
    abortedSuites := [], abortAll := false, err := none }

/-- the final interpreter state of a task -/
def finalTS (P : Proj) (insts : Insts) (w : Nat) (t : TaskId) (run reason : Bool) (kept : List Td)
    (cut : Option Nat) : TS :=
  (exec (taskProgram P (allSuites P) w t run reason kept) (ts0 insts cut)).2

theorem runTask_items (P : Proj) (insts : Insts) (w : Nat) (t : TaskId) (run reason : Bool) (kept : List Td)
    (cut : Option Nat) :
    (runTask P insts w t run reason kept cut).items = (finalTS P insts w t run reason kept cut).out.toList := rfl

theorem runTask_res (P : Proj) (insts : Insts) (w : Nat) (t : TaskId) (run reason : Bool) (kept : List Td)
    (cut : Option Nat) :
    (runTask P insts w t run reason kept cut).res =
      (exec (taskProgram P (allSuites P) w t run reason kept) (ts0 insts cut)).1.1 := rfl

theorem runTask_kept (P : Proj) (insts : Insts) (w : Nat) (t : TaskId) (run reason : Bool) (kept : List Td)
    (cut : Option Nat) :
    (runTask P insts w t run reason kept cut).eff.kept =
      (exec (taskProgram P (allSuites P) w t run reason kept) (ts0 insts cut)).1.2 := rfl

/-- what a `Tr` statement about the task's program says about the task's output -/
theorem runTask_of_tr {J J' : St → Prop} {Φ : List Item → Prop} (P : Proj) (insts : Insts) (w : Nat) (t : TaskId)
    (run reason : Bool) (kept : List Td) (cut : Option Nat)
    (h : Tr J J' Φ (taskProgram P (allSuites P) w t run reason kept)) (hj : J St.init) :
    Φ (runTask P insts w t run reason kept cut).items ∧
    J' (finalTS P insts w t run reason kept cut).sess ∧
    (finalTS P insts w t run reason kept cut).sess.fired =
      (runTask P insts w t run reason kept cut).items.filterMap evOf := by
  obtain ⟨h1, new, h2, h3⟩ := h (ts0 insts cut) hj
  have ho : (finalTS P insts w t run reason kept cut).out.toList = new := by
    have := h2.out
    have h0 : (ts0 insts cut).out.toList = [] := rfl
    rw [h0, List.nil_append] at this; exact this
  have hf : (finalTS P insts w t run reason kept cut).sess.fired = new.filterMap evOf := by
    have := h2.fired
    have h0 : (ts0 insts cut).sess.fired = [] := rfl
    rw [h0, List.nil_append] at this; exact this
  rw [runTask_items, ho]
  exact ⟨h3, h1, hf⟩

theorem taskProgram_test {P : Proj} {svs : List SuiteView} {w : Nat} {t : TaskId} {run reason : Bool} {kept : List Td}
    (hk : t.kind = .test) {sv : SuiteView} (hsv : svs.find? (fun sv => sv.path == t.path.dropLast) = some sv)
    {ts : TestSpec} (hts : sv.spec.tests.find? (fun x => x.name == t.path.getLast?.getD "") = some ts) :
    taskProgram P svs w t run reason kept = testTask P svs w t.path run reason sv ts := by
  unfold taskProgram
  simp only [hk, hsv, hts]

end LccModel.Run

namespace LccModel.Run
open LccModel.Report LccModel.Session

/-! ### Every located task emits items of its own location only -/

/-- the report location a task works at (suite begin/end tasks have none) -/
def taskLoc (t : TaskId) : Option Loc :=
  match t.kind with
  | .sessSetup => some .sessionSetup
  | .sessTeardown => some .sessionTeardown
  | .init => some (.suiteSetup t.path)
  | .teardown => some (.suiteTeardown t.path)
  | .test => some (.test t.path)
  | .begin | .end_ => none

theorem tra_phaseProgram {L : Loc} (Pj : Proj) (svs : List SuiteView) (w : Nat) (suite : Path)
    (startOp endOp : Session.Op) (stepName : String) (pairs : List (Option SetupFn × Td))
    (h1 : opFor L startOp = true) (h2 : opFor L endOp = true) :
    TrA (JT L) (POwn L) (phaseProgram Pj svs w suite L startOp endOp stepName pairs) := by
  unfold phaseProgram
  tra_using tra_sop_own 0 startOp h1, tra_sop_own 0 endOp h2, tra_sop_own 0 (.setStep stepName) rfl,
    tra_runSetupFuncs (inner_own L) (userOk_own L), tra_isOk

theorem tra_teardownProgram {L : Loc} (Pj : Proj) (svs : List SuiteView)
    (startOp endOp : Session.Op) (stepName : String) (kept : List Td)
    (h1 : opFor L startOp = true) (h2 : opFor L endOp = true) :
    TrA (JT L) (POwn L) (teardownProgram Pj svs L startOp endOp stepName kept) := by
  unfold teardownProgram
  tra_using tra_sop_own 0 startOp h1, tra_sop_own 0 endOp h2, tra_sop_own 0 (.setStep stepName) rfl,
    tra_runTeardownFuncs (inner_own L) (userOk_own L)

theorem tra_testTask_own (Pj : Proj) (svs : List SuiteView) (w : Nat) (path : Path) (run reason : Bool)
    (sv : SuiteView) (ts : TestSpec) :
    TrA (JT (.test path)) (POwn (.test path)) (testTask Pj svs w path run reason sv ts) := by
  have hop : ∀ op, opFor (.test path) op = true → TrA (JT (.test path)) (POwn (.test path)) (sop 0 op) :=
    fun op h => tra_sop_own 0 op h
  unfold testTask testSkip testRun
  tra
  all_goals first
    | exact hop _ (by simp [opFor])
    | exact tra_testSetup (inner_own _) (userOk_own _) _ _ _ _ _ _
    | exact tra_testTeardown (inner_own _) (userOk_own _) _ _ _ _
    | exact tra_testBody (inner_own _) (userOk_own _) _ _ _ _ _ (fun _ _ _ => trivial) (fun _ => trivial)
    | exact tra_isOk _

/-- **locality of a task's output**: every item a located task emits is a user record, an event carrying
    the task's own location, or the task's own start/end/skipped/disabled event -/
theorem tra_taskProgram_own (Pj : Proj) (svs : List SuiteView) (w : Nat) (t : TaskId) (run reason : Bool)
    (kept : List Td) (L : Loc) (hL : taskLoc t = some L) :
    TrA (JT L) (POwn L) (taskProgram Pj svs w t run reason kept) := by
  obtain ⟨kind, path⟩ := t
  unfold taskLoc at hL
  cases kind <;> cases hL <;> unfold taskProgram <;> dsimp only
  · -- sessSetup
    tra_using tra_phaseProgram (L := .sessionSetup) _ _ _ _ _ _ _ _ rfl rfl
  · tra_using tra_teardownProgram (L := .sessionTeardown) _ _ _ _ _ _ rfl rfl
  · tra_using tra_phaseProgram (L := .suiteSetup path) _ _ _ _ _ _ _ _ (by simp [opFor]) (by simp [opFor])
  · tra_using tra_testTask_own
  · tra_using tra_teardownProgram (L := .suiteTeardown path) _ _ _ _ _ _ (by simp [opFor]) (by simp [opFor])

end LccModel.Run

/-! ### A small concrete project for non-vacuity examples -/
namespace LccModel.Run.Sample
open LccModel.Report LccModel.Session LccModel.Run

def fxA : Fx := { name := "fa", func := "fa", scope := .test, perThread := false, params := [], gen := true,
                  setup := [.log .info], teardown := [.raise .exc] }
/-- an enabled test: a step, a failed check, a thread logging an error, then `AbortTest` -/
def tA : TestSpec := { name := "t", rank := 0, disabled := false, disabledReason := false, deps := [], fixtures := ["fa"],
                       script := [.step "x", .check false, .thread [.log .error], .raise .abortTest] }
/-- a disabled test -/
def tB : TestSpec := { name := "u", rank := 1, disabled := true, disabledReason := true, deps := [], fixtures := [],
                       script := [.log .info] }
def sA : SuiteSpec :=
  .mk "s" 0 false (some ([], [.log .info])) (some [.log .info]) (some [.log .info]) (some [.raise .exc]) [] [tA, tB] []
def PA : Proj := { fixtures := [fxA], suites := [sA], nbThreads := 1, forceDisabled := false, stopOnFailure := false }
def svA : SuiteView := { path := ["s"], spec := sA, inhDisabled := false }

theorem hsvA : (allSuites PA).find? (fun sv => sv.path == (["s", "t"] : Path).dropLast) = some svA := by rfl
theorem htA : svA.spec.tests.find? (fun x => x.name == (["s", "t"] : Path).getLast?.getD "") = some tA := by rfl
theorem hsvB : (allSuites PA).find? (fun sv => sv.path == (["s", "u"] : Path).dropLast) = some svA := by rfl
theorem htB : svA.spec.tests.find? (fun x => x.name == (["s", "u"] : Path).getLast?.getD "") = some tB := by rfl
theorem hsvS : (allSuites PA).find? (fun sv => sv.path == (["s"] : Path)) = some svA := by rfl

/-- a test whose body nests blocks, saves attachments inside them, changes the step inside, starts a thread
    inside and finally raises from inside two blocks -/
def tBlocks : TestSpec :=
  { name := "w", rank := 2, disabled := false, disabledReason := false, deps := [], fixtures := [],
    script := [.attachBlock [.attach, .step "inside", .attachBlock [.log .info, .attach], .thread [.attachBlock [.attach]]],
               .attachBlock [.attachBlock [.raise .abortSuite]], .log .info] }
def sBlocks : SuiteSpec := .mk "b" 0 false none none (some [.attachBlock [.attach]]) none [] [tBlocks] []
def PBlocks : Proj := { fixtures := [], suites := [sBlocks], nbThreads := 1, forceDisabled := false, stopOnFailure := false }

end LccModel.Run.Sample

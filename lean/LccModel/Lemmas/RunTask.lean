import LccModel.Model.Run
import LccModel.Lemmas.SessionLoc

/-!
  Reasoning about the run model `Model/Run.lean`: a small relational Hoare logic for the interpreter
  monad `M = StateM TS`.

  `Tr J J' Φ m`: started in a state whose session satisfies `J`, the program `m` ends in a state whose
  session satisfies `J'`; the items it emitted (`new`) are appended to `out`, the events among them are
  exactly what was appended to the session's `fired` list, and `Φ new` holds.
-/
namespace LccModel.Run
open LccModel.Report LccModel.Session

/-- run a program of the interpreter monad -/
def exec {α : Type} (m : M α) (ts : TS) : α × TS := m ts

@[simp] theorem exec_pure {α : Type} (a : α) (ts : TS) : exec (pure a : M α) ts = (a, ts) := rfl
@[simp] theorem exec_bind {α β : Type} (m : M α) (f : α → M β) (ts : TS) :
    exec (m >>= f) ts = exec (f (exec m ts).1) (exec m ts).2 := rfl
@[simp] theorem exec_get (ts : TS) : exec (get : M TS) ts = (ts, ts) := rfl
@[simp] theorem exec_set (s ts : TS) : exec (set s : M PUnit) ts = (⟨⟩, s) := rfl
@[simp] theorem exec_modify (f : TS → TS) (ts : TS) : exec (modify f : M PUnit) ts = (⟨⟩, f ts) := rfl

def evOf : Item → Option Event
  | .ev e => some e
  | _ => none

@[simp] theorem filterMap_evOf_map (l : List Event) : (l.map Item.ev).filterMap evOf = l := by
  induction l with
  | nil => rfl
  | cons e es ih => simp [evOf, ih]

/-- `ts'` extends `ts` by the items `new` -/
structure Ext (ts ts' : TS) (new : List Item) : Prop where
  out : ts'.out.toList = ts.out.toList ++ new
  fired : ts'.sess.fired = ts.sess.fired ++ new.filterMap evOf

theorem Ext.refl_of {ts ts' : TS} (h1 : ts'.out = ts.out) (h2 : ts'.sess = ts.sess) : Ext ts ts' [] :=
  ⟨by rw [h1]; simp, by rw [h2]; simp⟩

theorem Ext.trans {a b c : TS} {n1 n2 : List Item} (h1 : Ext a b n1) (h2 : Ext b c n2) : Ext a c (n1 ++ n2) :=
  ⟨by rw [h2.out, h1.out, List.append_assoc], by rw [h2.fired, h1.fired, List.filterMap_append, List.append_assoc]⟩

def Tr {α : Type} (J J' : St → Prop) (Φ : List Item → Prop) (m : M α) : Prop :=
  ∀ ts, J ts.sess → J' (exec m ts).2.sess ∧ ∃ new, Ext ts (exec m ts).2 new ∧ Φ new

def All (P : Item → Prop) (l : List Item) : Prop := ∀ x ∈ l, P x

theorem All.nil {P : Item → Prop} : All P [] := by intro x hx; cases hx
theorem All.append {P : Item → Prop} {l1 l2 : List Item} (h1 : All P l1) (h2 : All P l2) : All P (l1 ++ l2) := by
  intro x hx
  rcases List.mem_append.mp hx with hx | hx
  · exact h1 x hx
  · exact h2 x hx
theorem All.mono {P Q : Item → Prop} {l : List Item} (h : All P l) (hq : ∀ x, P x → Q x) : All Q l :=
  fun x hx => hq x (h x hx)

/-- sequential composition: the emitted items are concatenated -/
def Seq (Φ1 Φ2 : List Item → Prop) (l : List Item) : Prop := ∃ l1 l2, l = l1 ++ l2 ∧ Φ1 l1 ∧ Φ2 l2

theorem tr_bind {α β : Type} {J J' J'' : St → Prop} {Φ1 Φ2 : List Item → Prop} {m : M α} {f : α → M β}
    (h1 : Tr J J' Φ1 m) (h2 : ∀ a, Tr J' J'' Φ2 (f a)) : Tr J J'' (Seq Φ1 Φ2) (m >>= f) := by
  intro ts hj
  obtain ⟨hj1, n1, e1, p1⟩ := h1 ts hj
  obtain ⟨hj2, n2, e2, p2⟩ := h2 (exec m ts).1 (exec m ts).2 hj1
  exact ⟨hj2, n1 ++ n2, e1.trans e2, n1, n2, rfl, p1, p2⟩

theorem tr_weaken {α : Type} {J J' : St → Prop} {Φ Φ' : List Item → Prop} {m : M α}
    (h : Tr J J' Φ m) (hw : ∀ l, Φ l → Φ' l) : Tr J J' Φ' m := by
  intro ts hj
  obtain ⟨hj1, n1, e1, p1⟩ := h ts hj
  exact ⟨hj1, n1, e1, hw _ p1⟩

theorem tr_pure {α : Type} {J : St → Prop} {Φ : List Item → Prop} (a : α) (h : Φ []) : Tr J J Φ (pure a : M α) := by
  intro ts hj
  exact ⟨hj, [], Ext.refl_of rfl rfl, h⟩

/-- pointwise version: every emitted item satisfies `P`, the invariant `J` is kept -/
abbrev TrA {α : Type} (J : St → Prop) (P : Item → Prop) (m : M α) : Prop := Tr J J (All P) m

theorem tra_bind {α β : Type} {J : St → Prop} {P : Item → Prop} {m : M α} {f : α → M β}
    (h1 : TrA J P m) (h2 : ∀ a, TrA J P (f a)) : TrA J P (m >>= f) :=
  tr_weaken (tr_bind h1 h2) (by rintro l ⟨l1, l2, rfl, p1, p2⟩; exact p1.append p2)

theorem tra_pure {α : Type} {J : St → Prop} {P : Item → Prop} (a : α) : TrA J P (pure a : M α) :=
  tr_pure a All.nil

theorem tra_mono {α : Type} {J : St → Prop} {P Q : Item → Prop} {m : M α} (h : TrA J P m) (hq : ∀ x, P x → Q x) :
    TrA J Q m := tr_weaken h (fun _ hl => hl.mono hq)

theorem tra_get_bind {β : Type} {J : St → Prop} {P : Item → Prop} {f : TS → M β}
    (h : ∀ s, TrA J P (f s)) : TrA J P (get >>= f) := by
  intro ts hj
  exact h ts ts hj

theorem tra_modify {J : St → Prop} {P : Item → Prop} (g : TS → TS)
    (h : ∀ ts, (g ts).sess = ts.sess ∧ (g ts).out = ts.out) : TrA J P (modify g : M PUnit) := by
  intro ts hj
  simp only [exec_modify]
  exact ⟨by rw [(h ts).1]; exact hj, [], Ext.refl_of (h ts).2 (h ts).1, All.nil⟩

theorem tra_emitUser {J : St → Prop} {P : Item → Prop} (role : Nat) (u : UnitId) (w : String)
    (h : P (.user role u w)) : TrA J P (emitUser role u w) := by
  intro ts hj
  refine ⟨hj, [.user role u w], ⟨?_, ?_⟩, ?_⟩
  · show (ts.out.push (Item.user role u w)).toList = _
    simp
  · show ts.sess.fired = _
    simp [evOf]
  · intro x hx; simp at hx; subst hx; exact h

theorem tra_modelErr {J : St → Prop} {P : Item → Prop} (msg : String) : TrA J P (modelErr msg) := by
  unfold modelErr
  apply tra_modify
  intro ts; split <;> exact ⟨rfl, rfl⟩

theorem exec_sop (role : Nat) (op : Session.Op) (ts : TS) :
    exec (sop role op) ts = ((), match Session.step ts.sess role op with
      | .ok s' => { ts with sess := s', out := ts.out ++ ((s'.fired.drop ts.sess.fired.length).map Item.ev).toArray }
      | .error _ => if ts.err.isSome then ts else { ts with err := some "session protocol error" }) := rfl

/-- a session call: what the step fires is what the task emits -/
theorem tr_sop {J J' : St → Prop} {Φ : List Item → Prop} (role : Nat) (op : Session.Op)
    (hok : ∀ s s', J s → Session.step s role op = .ok s' → J' s' ∧ ∃ new, s'.fired = s.fired ++ new ∧ Φ (new.map Item.ev))
    (herr : ∀ s e, J s → Session.step s role op = .error e → J' s ∧ Φ []) : Tr J J' Φ (sop role op) := by
  intro ts hj
  rw [exec_sop]
  cases hs : Session.step ts.sess role op with
  | ok s' =>
    obtain ⟨hj', new, hf, hp⟩ := hok ts.sess s' hj hs
    refine ⟨hj', new.map Item.ev, ⟨?_, ?_⟩, hp⟩
    · simp [hf]
    · show s'.fired = _
      rw [filterMap_evOf_map]; exact hf
  | error e =>
    obtain ⟨hj', hp⟩ := herr ts.sess e hj hs
    refine ⟨?_, [], ?_, hp⟩
    · simp only; split <;> exact hj'
    · simp only; split <;> exact Ext.refl_of rfl rfl

theorem tra_sop {J : St → Prop} {P : Item → Prop} (role : Nat) (op : Session.Op)
    (hok : ∀ s s', J s → Session.step s role op = .ok s' → J s' ∧ ∃ new, s'.fired = s.fired ++ new ∧ ∀ e ∈ new, P (.ev e)) :
    TrA J P (sop role op) := by
  apply tr_sop role op
  · intro s s' hj hs
    obtain ⟨h1, new, h2, h3⟩ := hok s s' hj hs
    refine ⟨h1, new, h2, ?_⟩
    intro x hx
    obtain ⟨e, he, rfl⟩ := List.mem_map.mp hx
    exact h3 e he
  · intro s e hj _; exact ⟨hj, All.nil⟩

end LccModel.Run

/-
  Declarative semantics of the `--grep` regular expressions and the proof that the derivative matcher of
  `Model/Regex.lean` decides it.
-/
import LccModel.Model.Regex

namespace LccModel.Regex

/-- `Matches r l m rgt`: `r` matches exactly the characters `m`, the text before them being `l.reverse`
    (so `l.head?` is the previous character) and the text after them being `rgt`. -/
inductive Matches : RE → Str → Str → Str → Prop
  | eps (l rgt : Str) : Matches .eps l [] rgt
  | lit (l rgt : Str) (a c : Nat) : lowerAscii a = lowerAscii c → Matches (.lit a) l [c] rgt
  | any (l rgt : Str) (c : Nat) : c ≠ cNL → Matches .any l [c] rgt
  | set (l rgt : Str) (s : CSet) (c : Nat) : s.accepts c = true → Matches (.set s) l [c] rgt
  | bol (l rgt : Str) : atBol l.head? = true → Matches .bol l [] rgt
  | eol (l rgt : Str) : atEol rgt.head? = true → Matches .eol l [] rgt
  | bos (l rgt : Str) : l.head?.isNone = true → Matches .bos l [] rgt
  | eos (l rgt : Str) : rgt.head?.isNone = true → Matches .eos l [] rgt
  | wordB (l rgt : Str) (neg : Bool) : atWordB neg l.head? rgt.head? = true → Matches (.wordB neg) l [] rgt
  | seq (a b : RE) (l m1 m2 rgt : Str) :
      Matches a l m1 (m2 ++ rgt) → Matches b (m1.reverse ++ l) m2 rgt → Matches (.seq a b) l (m1 ++ m2) rgt
  | altL (a b : RE) (l m rgt : Str) : Matches a l m rgt → Matches (.alt a b) l m rgt
  | altR (a b : RE) (l m rgt : Str) : Matches b l m rgt → Matches (.alt a b) l m rgt
  | starNil (a : RE) (l rgt : Str) : Matches (.star a) l [] rgt
  | starCons (a : RE) (l m1 m2 rgt : Str) :
      Matches a l m1 (m2 ++ rgt) → Matches (.star a) (m1.reverse ++ l) m2 rgt → Matches (.star a) l (m1 ++ m2) rgt

/-! ## Inversion and flexible introduction -/

theorem not_fail {l m rgt : Str} : ¬ Matches .fail l m rgt := by
  intro h; cases h

theorem eps_inv {l m rgt : Str} (h : Matches .eps l m rgt) : m = [] := by
  cases h; rfl

theorem bos_inv {l m rgt : Str} (h : Matches .bos l m rgt) : m = [] ∧ l = [] := by
  cases h with
  | bos _ _ hb => exact ⟨rfl, by cases l <;> simp_all⟩

theorem eos_inv {l m rgt : Str} (h : Matches .eos l m rgt) : m = [] ∧ rgt = [] := by
  cases h with
  | eos _ _ hb => exact ⟨rfl, by cases rgt <;> simp_all⟩

theorem lit_inv {a : Nat} {l m rgt : Str} (h : Matches (.lit a) l m rgt) :
    ∃ c, m = [c] ∧ lowerAscii a = lowerAscii c := by
  cases h with
  | lit _ _ _ c hc => exact ⟨c, rfl, hc⟩

theorem seq_inv {a b : RE} {l m rgt : Str} (h : Matches (.seq a b) l m rgt) :
    ∃ m1 m2, m = m1 ++ m2 ∧ Matches a l m1 (m2 ++ rgt) ∧ Matches b (m1.reverse ++ l) m2 rgt := by
  cases h with
  | seq _ _ _ m1 m2 _ h1 h2 => exact ⟨m1, m2, rfl, h1, h2⟩

theorem alt_inv {a b : RE} {l m rgt : Str} (h : Matches (.alt a b) l m rgt) :
    Matches a l m rgt ∨ Matches b l m rgt := by
  cases h with
  | altL _ _ _ _ _ h => exact .inl h
  | altR _ _ _ _ _ h => exact .inr h

theorem star_inv {a : RE} {l m rgt : Str} (h : Matches (.star a) l m rgt) :
    m = [] ∨ ∃ m1 m2, m = m1 ++ m2 ∧ Matches a l m1 (m2 ++ rgt) ∧ Matches (.star a) (m1.reverse ++ l) m2 rgt := by
  cases h with
  | starNil => exact .inl rfl
  | starCons _ _ m1 m2 _ h1 h2 => exact .inr ⟨m1, m2, rfl, h1, h2⟩

theorem seq_intro {a b : RE} {l m m1 m2 rgt r1 l2 : Str} (h1 : Matches a l m1 r1) (h2 : Matches b l2 m2 rgt)
    (hr : r1 = m2 ++ rgt) (hl : l2 = m1.reverse ++ l) (hm : m = m1 ++ m2) : Matches (.seq a b) l m rgt := by
  subst hr hl hm; exact .seq _ _ _ _ _ _ h1 h2

theorem star_intro {a : RE} {l m m1 m2 rgt r1 l2 : Str} (h1 : Matches a l m1 r1) (h2 : Matches (.star a) l2 m2 rgt)
    (hr : r1 = m2 ++ rgt) (hl : l2 = m1.reverse ++ l) (hm : m = m1 ++ m2) : Matches (.star a) l m rgt := by
  subst hr hl hm; exact .starCons _ _ _ _ _ h1 h2

theorem rev_cons_append (c : Nat) (m l : Str) : (c :: m).reverse ++ l = m.reverse ++ c :: l := by
  simp

/-! ## Smart constructors -/

theorem mkSeq_iff {a b : RE} {l m rgt : Str} : Matches (mkSeq a b) l m rgt ↔ Matches (.seq a b) l m rgt := by
  cases a <;> simp only [mkSeq]
  · -- fail
    constructor
    · intro h; exact absurd h not_fail
    · intro h; obtain ⟨m1, m2, _, h1, _⟩ := seq_inv h; exact absurd h1 not_fail
  · -- eps
    constructor
    · intro h; exact seq_intro (.eps l (m ++ rgt)) h rfl rfl rfl
    · intro h
      obtain ⟨m1, m2, hm, h1, h2⟩ := seq_inv h
      have := eps_inv h1; subst this
      simpa [hm] using h2

theorem alt_iff {a b : RE} {l m rgt : Str} :
    Matches (.alt a b) l m rgt ↔ Matches a l m rgt ∨ Matches b l m rgt :=
  ⟨alt_inv, fun h => h.elim (.altL _ _ _ _ _) (.altR _ _ _ _ _)⟩

theorem altMem_matches {a b : RE} {l m rgt : Str} (h : altMem a b = true) (hm : Matches a l m rgt) :
    Matches b l m rgt := by
  induction b with
  | alt x y ihx ihy =>
    simp only [altMem, Bool.or_eq_true] at h
    exact h.elim (fun h => .altL _ _ _ _ _ (ihx h)) (fun h => .altR _ _ _ _ _ (ihy h))
  | _ => simp only [altMem, beq_iff_eq] at h; subst h; exact hm

theorem mkAlt_other (a b : RE) {l m rgt : Str} :
    Matches (if b == .fail then a else if altMem a b then b else .alt a b) l m rgt ↔ Matches (.alt a b) l m rgt := by
  split
  · rename_i h
    have : b = .fail := by simpa using h
    subst this
    rw [alt_iff]
    exact ⟨.inl, fun h' => h'.elim id (fun h'' => absurd h'' not_fail)⟩
  · split
    · rename_i h
      rw [alt_iff]
      exact ⟨.inr, fun h' => h'.elim (altMem_matches h) id⟩
    · exact Iff.rfl

theorem mkAlt_iff {a b : RE} {l m rgt : Str} : Matches (mkAlt a b) l m rgt ↔ Matches (.alt a b) l m rgt := by
  induction a generalizing b with
  | fail =>
    simp only [mkAlt]
    rw [alt_iff]
    exact ⟨.inr, fun h => h.elim (fun h' => absurd h' not_fail) id⟩
  | alt x y ihx ihy =>
    simp only [mkAlt]
    rw [ihx, alt_iff, ihy, alt_iff, alt_iff, alt_iff]
    exact or_assoc.symm
  | _ => simp only [mkAlt]; exact mkAlt_other _ _

/-! ## Nullability -/

theorem null_iff (r : RE) (l rgt : Str) : null l.head? rgt.head? r = true ↔ Matches r l [] rgt := by
  induction r generalizing l rgt with
  | fail => simp [null]; exact not_fail
  | eps => simp [null]; exact .eps _ _
  | lit a => simp [null]; intro h; cases h
  | any => simp [null]; intro h; cases h
  | set s => simp [null]; intro h; cases h
  | bol => exact ⟨fun h => .bol _ _ h, fun h => by cases h; assumption⟩
  | eol => exact ⟨fun h => .eol _ _ h, fun h => by cases h; assumption⟩
  | bos => exact ⟨fun h => .bos _ _ h, fun h => by cases h; assumption⟩
  | eos => exact ⟨fun h => .eos _ _ h, fun h => by cases h; assumption⟩
  | wordB neg => exact ⟨fun h => .wordB _ _ _ h, fun h => by cases h; assumption⟩
  | seq a b iha ihb =>
    simp only [null, Bool.and_eq_true, iha, ihb]
    constructor
    · rintro ⟨h1, h2⟩; exact seq_intro h1 h2 rfl rfl rfl
    · intro h
      obtain ⟨m1, m2, hm, h1, h2⟩ := seq_inv h
      have hm' := hm.symm
      rw [List.append_eq_nil_iff] at hm'
      obtain ⟨rfl, rfl⟩ := hm'
      exact ⟨by simpa using h1, by simpa using h2⟩
  | alt a b iha ihb =>
    simp only [null, Bool.or_eq_true, iha, ihb]
    exact ⟨fun h => h.elim (.altL _ _ _ _ _) (.altR _ _ _ _ _), alt_inv⟩
  | star a _ => simp [null]; exact .starNil _ _ _

/-! ## Derivatives -/

/-- A non-empty match of `a*` starts with a non-empty match of `a`. -/
theorem star_cons_inv {r : RE} {l m' rgt : Str} (h : Matches r l m' rgt) :
    ∀ (a : RE) (c : Nat) (m : Str), r = .star a → m' = c :: m →
      ∃ m1 m2, m = m1 ++ m2 ∧ Matches a l (c :: m1) (m2 ++ rgt) ∧ Matches (.star a) (m1.reverse ++ c :: l) m2 rgt := by
  induction h with
  | starCons a' l m1 m2 rgt h1 h2 _ ih2 =>
    intro a c m hr hm
    cases hr
    cases m1 with
    | nil =>
      simp only [List.nil_append] at hm
      simpa using ih2 a' c m rfl hm
    | cons c' m1' =>
      simp only [List.cons_append, List.cons.injEq] at hm
      obtain ⟨rfl, rfl⟩ := hm
      exact ⟨m1', m2, rfl, h1, by simpa using h2⟩
  | starNil => intro a c m _ hm; cases hm
  | _ => intro a c m hr; cases hr

theorem der_iff (r : RE) (l : Str) (c : Nat) (m rgt : Str) :
    Matches (der l.head? c r) (c :: l) m rgt ↔ Matches r l (c :: m) rgt := by
  induction r generalizing l m rgt with
  | fail => simp only [der]; exact ⟨fun h => absurd h not_fail, fun h => absurd h not_fail⟩
  | eps => simp only [der]; exact ⟨fun h => absurd h not_fail, fun h => by cases h⟩
  | lit a =>
    simp only [der]
    split
    · rename_i h
      constructor
      · intro hm; have := eps_inv hm; subst this; exact .lit _ _ _ _ (by simpa using h)
      · intro hm; cases hm; exact .eps _ _
    · rename_i h
      constructor
      · intro hm; exact absurd hm not_fail
      · intro hm; cases hm with | lit _ _ _ _ h' => exact absurd (by simpa using h') h
  | any =>
    simp only [der]
    split
    · rename_i h
      constructor
      · intro hm; exact absurd hm not_fail
      · intro hm; cases hm with | any _ _ _ h' => exact absurd (by simpa using h) h'
    · rename_i h
      constructor
      · intro hm; have := eps_inv hm; subst this; exact .any _ _ _ (by simpa using h)
      · intro hm; cases hm; exact .eps _ _
  | set s =>
    simp only [der]
    split
    · rename_i h
      constructor
      · intro hm; have := eps_inv hm; subst this; exact .set _ _ _ _ h
      · intro hm; cases hm; exact .eps _ _
    · rename_i h
      constructor
      · intro hm; exact absurd hm not_fail
      · intro hm; cases hm with | set _ _ _ _ h' => exact absurd h' h
  | bol => simp only [der]; exact ⟨fun h => absurd h not_fail, fun h => by cases h⟩
  | eol => simp only [der]; exact ⟨fun h => absurd h not_fail, fun h => by cases h⟩
  | bos => simp only [der]; exact ⟨fun h => absurd h not_fail, fun h => by cases h⟩
  | eos => simp only [der]; exact ⟨fun h => absurd h not_fail, fun h => by cases h⟩
  | wordB neg => simp only [der]; exact ⟨fun h => absurd h not_fail, fun h => by cases h⟩
  | alt a b iha ihb =>
    simp only [der, mkAlt_iff]
    constructor
    · intro h
      rcases alt_inv h with h | h
      · exact .altL _ _ _ _ _ ((iha _ _ _).mp h)
      · exact .altR _ _ _ _ _ ((ihb _ _ _).mp h)
    · intro h
      rcases alt_inv h with h | h
      · exact .altL _ _ _ _ _ ((iha _ _ _).mpr h)
      · exact .altR _ _ _ _ _ ((ihb _ _ _).mpr h)
  | seq a b iha ihb =>
    -- the two ways a match of `a b` can start with `c`
    have fwd1 : Matches (.seq (der l.head? c a) b) (c :: l) m rgt → Matches (.seq a b) l (c :: m) rgt := by
      intro h
      obtain ⟨m1, m2, hm, h1, h2⟩ := seq_inv h
      exact seq_intro ((iha _ _ _).mp h1) h2 rfl (by simp) (by simp [hm])
    have fwd2 : null l.head? (some c) a = true → Matches (der l.head? c b) (c :: l) m rgt →
        Matches (.seq a b) l (c :: m) rgt := by
      intro hn h
      have ha : Matches a l [] ((c :: m) ++ rgt) := (null_iff a l ((c :: m) ++ rgt)).mp (by simpa using hn)
      exact seq_intro ha ((ihb _ _ _).mp h) rfl (by simp) (by simp)
    have bwd : Matches (.seq a b) l (c :: m) rgt →
        Matches (.seq (der l.head? c a) b) (c :: l) m rgt ∨
          (null l.head? (some c) a = true ∧ Matches (der l.head? c b) (c :: l) m rgt) := by
      intro h
      obtain ⟨m1, m2, hm, h1, h2⟩ := seq_inv h
      cases m1 with
      | nil =>
        simp only [List.nil_append] at hm
        subst hm
        right
        refine ⟨?_, (ihb _ _ _).mpr (by simpa using h2)⟩
        have := (null_iff a l ((c :: m) ++ rgt)).mpr h1
        simpa using this
      | cons c' m1' =>
        simp only [List.cons_append, List.cons.injEq] at hm
        obtain ⟨rfl, rfl⟩ := hm
        left
        exact seq_intro ((iha _ _ _).mpr h1) h2 rfl (by simp) rfl
    simp only [der]
    split
    · rename_i hn
      rw [mkAlt_iff]
      constructor
      · intro h
        rcases alt_inv h with h | h
        · exact fwd1 (mkSeq_iff.mp h)
        · exact fwd2 hn h
      · intro h
        rcases bwd h with h | ⟨_, h⟩
        · exact .altL _ _ _ _ _ (mkSeq_iff.mpr h)
        · exact .altR _ _ _ _ _ h
    · rename_i hn
      rw [mkSeq_iff]
      constructor
      · exact fwd1
      · intro h
        rcases bwd h with h | ⟨hn', _⟩
        · exact h
        · exact absurd hn' hn
  | star a iha =>
    simp only [der, mkSeq_iff]
    constructor
    · intro h
      obtain ⟨m1, m2, hm, h1, h2⟩ := seq_inv h
      exact star_intro ((iha _ _ _).mp h1) h2 rfl (by simp) (by simp [hm])
    · intro h
      obtain ⟨m1, m2, hm, h1, h2⟩ := star_cons_inv h a c m rfl rfl
      exact seq_intro ((iha _ _ _).mpr h1) h2 rfl rfl hm

/-! ## The matcher decides the semantics -/

theorem matchPrefix_iff (r : RE) (l s : Str) :
    matchPrefix l.head? r s = true ↔ ∃ m rest, s = m ++ rest ∧ Matches r l m rest := by
  induction s generalizing l r with
  | nil =>
    simp only [matchPrefix]
    rw [show (none : Option Nat) = ([] : Str).head? from rfl, null_iff]
    constructor
    · intro h; exact ⟨[], [], rfl, h⟩
    · rintro ⟨m, rest, hs, h⟩
      have hs' := hs.symm
      rw [List.append_eq_nil_iff] at hs'
      obtain ⟨rfl, rfl⟩ := hs'
      exact h
  | cons c s ih =>
    simp only [matchPrefix, Bool.or_eq_true]
    rw [show (some c : Option Nat) = (c :: s).head? from rfl, null_iff,
      show (c :: s).head? = (c :: l).head? from rfl, ih]
    constructor
    · rintro (h | ⟨m, rest, hs, h⟩)
      · exact ⟨[], c :: s, rfl, h⟩
      · exact ⟨c :: m, rest, by simp [hs], (der_iff _ _ _ _ _).mp h⟩
    · rintro ⟨m, rest, hs, h⟩
      cases m with
      | nil => simp only [List.nil_append] at hs; subst hs; exact .inl h
      | cons c' m' =>
        simp only [List.cons_append, List.cons.injEq] at hs
        obtain ⟨rfl, rfl⟩ := hs
        exact .inr ⟨m', rest, rfl, (der_iff _ _ _ _ _).mpr h⟩

theorem searchFrom_iff (r : RE) (l s : Str) :
    searchFrom l.head? r s = true ↔
      ∃ pre m rest, s = pre ++ m ++ rest ∧ Matches r (pre.reverse ++ l) m rest := by
  induction s generalizing l with
  | nil =>
    simp only [searchFrom]
    rw [show (none : Option Nat) = ([] : Str).head? from rfl, null_iff]
    constructor
    · intro h; exact ⟨[], [], [], rfl, h⟩
    · rintro ⟨pre, m, rest, hs, h⟩
      have hs' := hs.symm
      simp only [List.append_eq_nil_iff] at hs'
      obtain ⟨⟨rfl, rfl⟩, rfl⟩ := hs'
      exact h
  | cons c s ih =>
    simp only [searchFrom, Bool.or_eq_true]
    rw [matchPrefix_iff, show (some c : Option Nat) = (c :: l).head? from rfl, ih]
    constructor
    · rintro (⟨m, rest, hs, h⟩ | ⟨pre, m, rest, hs, h⟩)
      · exact ⟨[], m, rest, by simpa using hs, h⟩
      · exact ⟨c :: pre, m, rest, by simp [hs], by simpa using h⟩
    · rintro ⟨pre, m, rest, hs, h⟩
      cases pre with
      | nil => exact .inl ⟨m, rest, by simpa using hs, h⟩
      | cons c' pre' =>
        simp only [List.cons_append, List.cons.injEq] at hs
        obtain ⟨rfl, hs⟩ := hs
        exact .inr ⟨pre', m, rest, hs, by simpa using h⟩

/-- **Correctness of the matcher**: `search r text` says yes iff some substring of the text matches `r` in
    its context. -/
theorem search_iff (r : RE) (text : Str) :
    search r text = true ↔ ∃ pre m rest, text = pre ++ m ++ rest ∧ Matches r pre.reverse m rest := by
  unfold search
  rw [show (none : Option Nat) = ([] : Str).head? from rfl, searchFrom_iff]
  simp

end LccModel.Regex

/-
  Helper lemmas about M6 (`Model/Fixture.lean`).  Core Lean only.
-/
import LccModel.Model.Fixture
import LccModel.Lemmas.Loops

namespace LccModel.Fixture
open LccModel.Loops

/-! ### ordered sets -/

theorem mem_oadd {acc : List String} {x y : String} : y ∈ oadd acc x ↔ y ∈ acc ∨ y = x := by
  unfold oadd
  split
  · constructor
    · intro h; exact .inl h
    · rintro (h | rfl) <;> assumption
  · simp

theorem mem_oupdate {xs acc : List String} {y : String} : y ∈ oupdate acc xs ↔ y ∈ acc ∨ y ∈ xs := by
  unfold oupdate
  induction xs generalizing acc with
  | nil => simp
  | cons x xs ih =>
    simp only [List.foldl_cons, ih, mem_oadd, List.mem_cons]
    constructor
    · rintro ((h | h) | h)
      · exact .inl h
      · exact .inr (.inl h)
      · exact .inr (.inr h)
    · rintro (h | h | h)
      · exact .inl (.inl h)
      · exact .inl (.inr h)
      · exact .inr h

theorem mem_oset {xs : List String} {y : String} : y ∈ oset xs ↔ y ∈ xs := by
  simp [oset, mem_oupdate]

theorem nodup_oadd {acc : List String} {x : String} (h : acc.Nodup) : (oadd acc x).Nodup := by
  unfold oadd
  split
  · exact h
  · rename_i hx
    rw [List.nodup_append]
    refine ⟨h, by simp, ?_⟩
    intro a ha b hb
    simp at hb; subst hb
    intro e; subst e; exact hx ha

theorem nodup_oupdate {xs acc : List String} (h : acc.Nodup) : (oupdate acc xs).Nodup := by
  unfold oupdate
  induction xs generalizing acc with
  | nil => simpa
  | cons x xs ih => simp only [List.foldl_cons]; exact ih (nodup_oadd h)

theorem nodup_oset (xs : List String) : (oset xs).Nodup := nodup_oupdate (by simp)

/-! ### the registry -/

theorem lookup_name {R : Registry} {n : String} {f : Fixture} (h : lookup R n = some f) : f.name = n := by
  have := List.find?_some h
  simpa using this

theorem lookup_mem {R : Registry} {n : String} {f : Fixture} (h : lookup R n = some f) : f ∈ R :=
  List.mem_of_find?_eq_some h

theorem lookup_isSome_iff {R : Registry} {n : String} : (lookup R n).isSome = true ↔ n ∈ names R := by
  unfold lookup names
  rw [List.find?_isSome]
  simp

theorem lookup_isNone_iff {R : Registry} {n : String} : (lookup R n).isNone = true ↔ n ∉ names R := by
  rw [← lookup_isSome_iff]
  cases lookup R n <;> simp

theorem lookup_of_mem {R : Registry} (hwf : WF R) {f : Fixture} (hf : f ∈ R) : lookup R f.name = some f := by
  unfold WF names at hwf
  unfold lookup
  induction R with
  | nil => cases hf
  | cons g rest ih =>
    simp only [List.map_cons, List.nodup_cons] at hwf
    rcases List.mem_cons.mp hf with rfl | hf
    · simp [List.find?]
    · have hne : g.name ≠ f.name := by
        intro e; apply hwf.1; rw [e]; exact List.mem_map_of_mem hf
      simp only [List.find?, hne, decide_false]
      exact ih hwf.2 hf

theorem mem_names_of_mem {R : Registry} {f : Fixture} (hf : f ∈ R) : f.name ∈ names R :=
  List.mem_map_of_mem hf

theorem lookup_some_of_mem_names {R : Registry} {n : String} (h : n ∈ names R) : ∃ f, lookup R n = some f := by
  have := lookup_isSome_iff.mpr h
  cases h' : lookup R n with
  | none => simp [h'] at this
  | some f => exact ⟨f, rfl⟩

theorem P_of_lookup {R : Registry} {n : String} {f : Fixture} (h : lookup R n = some f) : P R n = fparams f := by
  simp [P, h]

theorem names_insert_of_mem {R : Registry} {f : Fixture} (h : f.name ∈ names R) :
    names (insert R f) = names R := by
  unfold insert
  rw [if_pos h]
  unfold names
  rw [List.map_map]
  apply List.map_congr_left
  intro g _
  simp only [Function.comp]
  split
  · rename_i e; exact e.symm
  · rfl

theorem wf_insert {R : Registry} {f : Fixture} (h : WF R) : WF (insert R f) := by
  by_cases hm : f.name ∈ names R
  · unfold WF; rw [names_insert_of_mem hm]; exact h
  · have e : insert R f = R ++ [f] := by unfold insert; rw [if_neg hm]
    unfold WF; rw [e]; unfold WF at h; unfold names at h hm ⊢
    simp only [List.map_append, List.map_cons, List.map_nil]
    rw [List.nodup_append]
    refine ⟨h, by simp, ?_⟩
    intro a ha b hb
    simp at hb; subst hb
    intro e; subst e; exact hm ha

theorem wf_builtins : WF builtins := by unfold WF names builtins; decide

theorem build_wf {ds : List Decl} {R : Registry} (h : build ds = .ok R) : WF R := by
  unfold build at h
  refine foldE_inv (f := addFixture) WF _ builtins R wf_builtins ?_ h
  intro b a b' hb _ hf
  unfold addFixture at hf
  split at hf
  · cases hf
  · injection hf with hf; subst hf; exact wf_insert hb


theorem foldE_addFixture_ok_iff : ∀ (fs : List Fixture) (R0 R : Registry),
    foldE addFixture fs R0 = .ok R ↔ (∀ f ∈ fs, isBuiltinName f.name = false) ∧ R = fs.foldl insert R0 := by
  intro fs
  induction fs with
  | nil => intro R0 R; simp [foldE]; exact eq_comm
  | cons f rest ih =>
    intro R0 R
    unfold foldE
    cases hb : isBuiltinName f.name with
    | true =>
      have : addFixture R0 f = .error (.builtinName f.name) := by unfold addFixture; rw [if_pos hb]
      rw [this]
      constructor
      · intro h; cases h
      · rintro ⟨h, _⟩
        have := h f (by simp)
        rw [hb] at this; cases this
    | false =>
      have : addFixture R0 f = .ok (insert R0 f) := by unfold addFixture; rw [if_neg (by simp [hb])]
      rw [this]
      simp only
      rw [ih]
      simp only [List.mem_cons, forall_eq_or_imp, List.foldl_cons, hb, true_and]

/-- `_build_fixture_registry` succeeds iff no declared name is a builtin name; it then returns `registryOf` -/
theorem build_ok_iff (ds : List Decl) (R : Registry) :
    build ds = .ok R ↔ (∀ d ∈ ds, ∀ n ∈ d.names, isBuiltinName n = false) ∧ R = registryOf ds := by
  unfold build registryOf
  rw [foldE_addFixture_ok_iff]
  constructor
  · rintro ⟨h, e⟩
    refine ⟨?_, e⟩
    intro d hd n hn
    exact h ⟨n, d.scope, d.perThread, d.params⟩ (by
      rw [List.mem_flatten]
      exact ⟨d.expand, List.mem_map_of_mem hd, by unfold Decl.expand; exact List.mem_map.mpr ⟨n, hn, rfl⟩⟩)
  · rintro ⟨h, e⟩
    refine ⟨?_, e⟩
    intro f hf
    rw [List.mem_flatten] at hf
    obtain ⟨l, hl, hfl⟩ := hf
    obtain ⟨d, hd, e'⟩ := List.mem_map.mp hl
    subst e'
    unfold Decl.expand at hfl
    obtain ⟨n, hn, e''⟩ := List.mem_map.mp hfl
    subst e''
    exact h d hd n hn

theorem build_error {ds : List Decl} {e : Err} (h : build ds = .error e) :
    ∃ n, e = .builtinName n ∧ isBuiltinName n = true := by
  unfold build at h
  obtain ⟨b, f, _, hs⟩ := foldE_error _ _ _ h
  unfold addFixture at hs
  split at hs
  · rename_i hb; injection hs with hs; exact ⟨f.name, hs.symm, hb⟩
  · cases hs

/-! ### paths in the dependency graph -/

/-- `Path R a b`: `b` is reachable from `a` by at least one parameter edge -/
inductive Path (R : Registry) : String → String → Prop where
  | edge {a b : String} : b ∈ P R a → Path R a b
  | cons {a b c : String} : b ∈ P R a → Path R b c → Path R a c

theorem Path.snoc {R : Registry} {a b c : String} (h : Path R a b) (hc : c ∈ P R b) : Path R a c := by
  induction h with
  | edge h => exact .cons h (.edge hc)
  | cons h _ ih => exact .cons h (ih hc)

theorem Path.trans {R : Registry} {a b c : String} (h : Path R a b) (h' : Path R b c) : Path R a c := by
  induction h with
  | edge h => exact .cons h h'
  | cons h _ ih => exact .cons h (ih h')

/-! ### `get_fixture_dependencies` -/

/-- the loop body of `get_fixture_dependencies` -/
def depStep (R : Registry) (fuel : Nat) (name : String) (ref : List String)
    (acc : List String) (p : String) : Except Err (List String) :=
  if (lookup R p).isNone then .error (.unknownParam p name)
  else match deps R fuel p (name :: ref) with
    | .error e => .error e
    | .ok d => .ok (oupdate acc d)

theorem deps_succ (R : Registry) (fuel : Nat) (name : String) (ref : List String) :
    deps R (fuel + 1) name ref =
      match lookup R name with
      | none => .error (.keyError name)
      | some f =>
        if ref.any (fun r => decide (r ∈ fparams f)) then .error (.circular name)
        else match foldE (depStep R fuel name ref) (fparams f) [] with
          | .error e => .error e
          | .ok acc => .ok (oupdate acc (fparams f)) := by
  rfl

/-- what a successful call tells about the node and its sub-calls -/
theorem deps_ok_inv {R : Registry} {fuel : Nat} {n : String} {ref l : List String}
    (h : deps R (fuel + 1) n ref = .ok l) :
    ∃ f, lookup R n = some f ∧ (∀ r ∈ ref, r ∉ fparams f) ∧
      ∀ p ∈ fparams f, (lookup R p).isSome = true ∧ ∃ d, deps R fuel p (n :: ref) = .ok d := by
  rw [deps_succ] at h
  cases hl : lookup R n with
  | none => simp [hl] at h
  | some f =>
    simp only [hl] at h
    split at h
    · cases h
    · rename_i hany
      refine ⟨f, rfl, ?_, ?_⟩
      · intro r hr hp
        apply hany
        simp only [List.any_eq_true, decide_eq_true_eq]
        exact ⟨r, hr, hp⟩
      · intro p hp
        cases hf : foldE (depStep R fuel n ref) (fparams f) [] with
        | error e => simp [hf] at h
        | ok acc =>
          obtain ⟨b₁, b₂, hs⟩ := foldE_ok_steps _ _ _ hf p hp
          unfold depStep at hs
          split at hs
          · cases hs
          · rename_i hsome
            refine ⟨by cases hx : lookup R p <;> simp_all, ?_⟩
            cases hd : deps R fuel p (n :: ref) with
            | error e => simp [hd] at hs
            | ok d => exact ⟨d, rfl⟩

/-- Lemma B: a successful call never has a path back into its reference chain -/
theorem deps_ok_no_path_to_ref {R : Registry} {m r : String} (hp : Path R m r) :
    ∀ (fuel : Nat) (ref l : List String), deps R fuel m ref = .ok l → r ∉ ref := by
  induction hp with
  | @edge a b hb =>
    intro fuel ref l h
    cases fuel with
    | zero => simp [deps] at h
    | succ fuel =>
      obtain ⟨f, hl, hno, _⟩ := deps_ok_inv h
      rw [P_of_lookup hl] at hb
      intro hr; exact hno b hr hb
  | @cons a b c hb _ ih =>
    intro fuel ref l h
    cases fuel with
    | zero => simp [deps] at h
    | succ fuel =>
      obtain ⟨f, hl, _, hsub⟩ := deps_ok_inv h
      rw [P_of_lookup hl] at hb
      obtain ⟨_, d, hd⟩ := hsub b hb
      intro hr
      exact ih fuel (a :: ref) d hd (by simp [hr])

/-- a successful top-level call: the fixture does not reach itself -/
theorem deps_ok_no_self_path {R : Registry} {fuel : Nat} {n : String} {ref l : List String}
    (h : deps R fuel n ref = .ok l) : ¬ Path R n n := by
  intro hp
  cases fuel with
  | zero => simp [deps] at h
  | succ fuel =>
    obtain ⟨f, hl, _, hsub⟩ := deps_ok_inv h
    cases hp with
    | edge hb =>
      rw [P_of_lookup hl] at hb
      obtain ⟨_, d, hd⟩ := hsub n hb
      -- the sub-call on `n` itself has `n` in its chain and `n` among its own parameters
      cases fuel with
      | zero => simp [deps] at hd
      | succ fuel =>
        obtain ⟨f', hl', hno, _⟩ := deps_ok_inv hd
        rw [hl] at hl'; injection hl' with e; subst e
        exact hno n (by simp) hb
    | cons hb hrest =>
      rw [P_of_lookup hl] at hb
      obtain ⟨_, d, hd⟩ := hsub _ hb
      exact deps_ok_no_path_to_ref hrest fuel (n :: ref) d hd (by simp)

/-! ### termination: the recursion bound is never reached -/

theorem length_le_of_nodup_subset : ∀ (l L : List String), l.Nodup → (∀ x ∈ l, x ∈ L) → l.length ≤ L.length := by
  intro l
  induction l with
  | nil => intro L _ _; simp
  | cons a t ih =>
    intro L hnd hsub
    rw [List.nodup_cons] at hnd
    have haL : a ∈ L := hsub a (by simp)
    have := ih (L.erase a) hnd.2 (fun x hx => by
      have hne : x ≠ a := by intro e; subst e; exact hnd.1 hx
      exact (List.mem_erase_of_ne hne).mpr (hsub x (by simp [hx])))
    rw [List.length_erase_of_mem haL] at this
    have hpos : 0 < L.length := List.length_pos_of_mem haL
    simp only [List.length_cons]
    omega

/-- The model never runs out of fuel — on ANY registry, cyclic ones included: the chain of callers is
    duplicate-free (a repeated name is caught by the circular-dependency test one level later at most). -/
theorem deps_not_outOfFuel (R : Registry) :
    ∀ (fuel : Nat) (name : String) (ref : List String),
      ref.Nodup → (∀ r ∈ ref, r ∈ names R) → (name ∈ ref → name ∈ P R name) →
      (names R).length + 2 ≤ fuel + ref.length →
      deps R fuel name ref ≠ .error .outOfFuel := by
  intro fuel
  induction fuel with
  | zero =>
    intro name ref hnd hsub _ hlen
    have := length_le_of_nodup_subset ref (names R) hnd hsub
    omega
  | succ fuel ih =>
    intro name ref hnd hsub hself hlen h
    rw [deps_succ] at h
    cases hl : lookup R name with
    | none => simp [hl] at h
    | some f =>
      simp only [hl] at h
      split at h
      · cases h
      · rename_i hany
        have hno : ∀ r ∈ ref, r ∉ fparams f := by
          intro r hr hp
          apply hany
          simp only [List.any_eq_true, decide_eq_true_eq]
          exact ⟨r, hr, hp⟩
        have hname : name ∉ ref := by
          intro hin
          have := hself hin
          rw [P_of_lookup hl] at this
          exact hno name hin this
        cases hf : foldE (depStep R fuel name ref) (fparams f) [] with
        | ok acc => simp [hf] at h
        | error e =>
          simp only [hf] at h
          injection h with h; subst h
          obtain ⟨acc, p, hp, hstep⟩ := foldE_error _ _ _ hf
          unfold depStep at hstep
          split at hstep
          · cases hstep
          · cases hd : deps R fuel p (name :: ref) with
            | ok d => simp [hd] at hstep
            | error e =>
              simp only [hd] at hstep
              injection hstep with hstep; subst hstep
              refine ih p (name :: ref) ?_ ?_ ?_ ?_ hd
              · exact List.nodup_cons.mpr ⟨hname, hnd⟩
              · intro r hr
                rcases List.mem_cons.mp hr with rfl | hr
                · exact lookup_isSome_iff.mp (by simp [hl])
                · exact hsub r hr
              · intro hin
                rcases List.mem_cons.mp hin with rfl | hin
                · rw [P_of_lookup hl]; exact hp
                · exact absurd hp (hno p hin)
              · simp only [List.length_cons]; omega

/-! ### what an error of `get_fixture_dependencies` means -/

/-- Every error of a call whose reference chain really is a chain of callers is either the fuel bound,
    or a circular-dependency error witnessed by a real cycle, or an unknown-parameter error witnessed
    by a real unknown parameter.  (No `KeyError`.) -/
theorem deps_error_cases (R : Registry) :
    ∀ (fuel : Nat) (name : String) (ref : List String) (e : Err),
      name ∈ names R → (∀ r ∈ ref, Path R r name) →
      deps R fuel name ref = .error e →
      e = .outOfFuel ∨ (∃ x, e = .circular x ∧ Path R x x) ∨
        (∃ p x, e = .unknownParam p x ∧ p ∈ P R x ∧ x ∈ names R ∧ p ∉ names R) := by
  intro fuel
  induction fuel with
  | zero => intro name ref e _ _ h; simp [deps] at h; exact .inl h.symm
  | succ fuel ih =>
    intro name ref e hname hchain h
    rw [deps_succ] at h
    cases hl : lookup R name with
    | none =>
      have := lookup_isSome_iff.mpr hname
      simp [hl] at this
    | some f =>
      simp only [hl] at h
      split at h
      · rename_i hany
        injection h with h; subst h
        simp only [List.any_eq_true, decide_eq_true_eq] at hany
        obtain ⟨r, hr, hp⟩ := hany
        refine .inr (.inl ⟨name, rfl, ?_⟩)
        have : r ∈ P R name := by rw [P_of_lookup hl]; exact hp
        exact Path.cons this (hchain r hr)
      · cases hf : foldE (depStep R fuel name ref) (fparams f) [] with
        | ok acc => simp [hf] at h
        | error e' =>
          simp only [hf] at h
          injection h with h; subst h
          obtain ⟨acc, p, hp, hstep⟩ := foldE_error _ _ _ hf
          have hpP : p ∈ P R name := by rw [P_of_lookup hl]; exact hp
          unfold depStep at hstep
          split at hstep
          · rename_i hnone
            injection hstep with hstep; subst hstep
            exact .inr (.inr ⟨p, name, rfl, hpP, hname, lookup_isNone_iff.mp hnone⟩)
          · rename_i hsome
            cases hd : deps R fuel p (name :: ref) with
            | ok d => simp [hd] at hstep
            | error e'' =>
              simp only [hd] at hstep
              injection hstep with hstep; subst hstep
              refine ih p (name :: ref) _ ?_ ?_ hd
              · apply lookup_isSome_iff.mp
                cases hx : lookup R p <;> simp_all
              · intro r hr
                rcases List.mem_cons.mp hr with rfl | hr
                · exact .edge hpP
                · exact (hchain r hr).snoc hpP


/-! ### the result of `get_fixture_dependencies` is closed and topologically ordered -/

/-- every element's parameters occur in `seen` or strictly earlier in the list -/
def TopoFrom (R : Registry) : List String → List String → Prop
  | _, [] => True
  | seen, n :: rest => (∀ p ∈ P R n, p ∈ seen) ∧ TopoFrom R (seen ++ [n]) rest

theorem topoFrom_mono {R : Registry} : ∀ (l seen seen' : List String),
    (∀ x ∈ seen, x ∈ seen') → TopoFrom R seen l → TopoFrom R seen' l := by
  intro l
  induction l with
  | nil => intro _ _ _ _; trivial
  | cons n rest ih =>
    intro seen seen' hsub h
    refine ⟨fun p hp => hsub p (h.1 p hp), ih _ _ ?_ h.2⟩
    intro x hx
    rcases List.mem_append.mp hx with hx | hx
    · exact List.mem_append.mpr (.inl (hsub x hx))
    · exact List.mem_append.mpr (.inr hx)

theorem topoFrom_append {R : Registry} : ∀ (a b seen : List String),
    TopoFrom R seen (a ++ b) ↔ TopoFrom R seen a ∧ TopoFrom R (seen ++ a) b := by
  intro a
  induction a with
  | nil => intro b seen; simp [TopoFrom]
  | cons n rest ih =>
    intro b seen
    simp only [List.cons_append, TopoFrom, ih, List.append_assoc, List.nil_append, and_assoc]

theorem topoFrom_of_all {R : Registry} : ∀ (l seen : List String),
    (∀ x ∈ l, ∀ q ∈ P R x, q ∈ seen) → TopoFrom R seen l := by
  intro l
  induction l with
  | nil => intro _ _; trivial
  | cons n rest ih =>
    intro seen h
    refine ⟨h n (by simp), ih _ ?_⟩
    intro x hx q hq
    exact List.mem_append.mpr (.inl (h x (by simp [hx]) q hq))

theorem topo_oadd {R : Registry} {acc : List String} {x : String}
    (h : TopoFrom R [] acc) (hx : ∀ p ∈ P R x, p ∈ acc) : TopoFrom R [] (oadd acc x) := by
  unfold oadd
  split
  · exact h
  · rw [topoFrom_append]
    exact ⟨h, by simpa [TopoFrom] using hx⟩

theorem topo_oupdate {R : Registry} : ∀ (xs acc : List String),
    TopoFrom R [] acc → TopoFrom R acc xs → TopoFrom R [] (oupdate acc xs) := by
  intro xs
  induction xs with
  | nil => intro acc h _; simpa [oupdate] using h
  | cons x xs ih =>
    intro acc h hx
    have : oupdate acc (x :: xs) = oupdate (oadd acc x) xs := by simp [oupdate]
    rw [this]
    refine ih (oadd acc x) (topo_oadd h hx.1) (topoFrom_mono xs _ _ ?_ hx.2)
    intro y hy
    rw [mem_oadd]
    rcases List.mem_append.mp hy with hy | hy
    · exact .inl hy
    · simp at hy; exact .inr hy

/-- the elements of a topologically ordered list have their parameters in the list (or in `seen`) -/
theorem topoFrom_closed {R : Registry} : ∀ (l seen : List String), TopoFrom R seen l →
    ∀ n ∈ l, ∀ p ∈ P R n, p ∈ seen ∨ p ∈ l := by
  intro l
  induction l with
  | nil => intro _ _ n hn; cases hn
  | cons a rest ih =>
    intro seen h n hn p hp
    rcases List.mem_cons.mp hn with rfl | hn
    · exact .inl (h.1 p hp)
    · rcases ih _ h.2 n hn p hp with h' | h'
      · rcases List.mem_append.mp h' with h' | h'
        · exact .inl h'
        · simp at h'; subst h'; exact .inr (by simp)
      · exact .inr (by simp [h'])

/-- the fold of `get_fixture_dependencies` only grows the accumulator, by the results of the sub-calls -/
theorem foldE_depStep_ok {R : Registry} {fuel : Nat} {n : String} {ref : List String} :
    ∀ (ps acc r : List String), foldE (depStep R fuel n ref) ps acc = .ok r →
      (∀ x ∈ acc, x ∈ r) ∧
      (∀ p ∈ ps, ∃ d, deps R fuel p (n :: ref) = .ok d ∧ ∀ x ∈ d, x ∈ r) ∧
      (∀ x ∈ r, x ∈ acc ∨ ∃ p ∈ ps, ∃ d, deps R fuel p (n :: ref) = .ok d ∧ x ∈ d) := by
  intro ps
  induction ps with
  | nil => intro acc r h; simp [foldE] at h; subst h; simp
  | cons p ps ih =>
    intro acc r h
    unfold foldE at h
    cases hs : depStep R fuel n ref acc p with
    | error e => rw [hs] at h; cases h
    | ok acc' =>
      rw [hs] at h
      obtain ⟨h1, h2, h3⟩ := ih acc' r h
      unfold depStep at hs
      split at hs
      · cases hs
      · cases hd : deps R fuel p (n :: ref) with
        | error e => simp [hd] at hs
        | ok d =>
          simp only [hd] at hs
          injection hs with hs; subst hs
          refine ⟨fun x hx => h1 x (mem_oupdate.mpr (.inl hx)), ?_, ?_⟩
          · intro q hq
            rcases List.mem_cons.mp hq with rfl | hq
            · exact ⟨d, hd, fun x hx => h1 x (mem_oupdate.mpr (.inr hx))⟩
            · exact h2 q hq
          · intro x hx
            rcases h3 x hx with hx | ⟨q, hq, d', hd', hxd⟩
            · rcases mem_oupdate.mp hx with hx | hx
              · exact .inl hx
              · exact .inr ⟨p, by simp, d, hd, hx⟩
            · exact .inr ⟨q, by simp [hq], d', hd', hxd⟩

structure DepsSpec (R : Registry) (n : String) (l : List String) : Prop where
  direct : ∀ p ∈ P R n, p ∈ l
  topo : TopoFrom R [] l
  known : ∀ x ∈ l, x ∈ names R
  nodup : l.Nodup
  reach : ∀ x ∈ l, Path R n x

theorem deps_ok_spec (R : Registry) :
    ∀ (fuel : Nat) (n : String) (ref l : List String), deps R fuel n ref = .ok l → DepsSpec R n l := by
  intro fuel
  induction fuel with
  | zero => intro n ref l h; simp [deps] at h
  | succ fuel ih =>
    intro n ref l h
    obtain ⟨f, hl, _, hsub⟩ := deps_ok_inv h
    rw [deps_succ] at h
    simp only [hl] at h
    split at h
    · cases h
    · cases hf : foldE (depStep R fuel n ref) (fparams f) [] with
      | error e => simp [hf] at h
      | ok acc =>
        simp only [hf] at h
        injection h with h; subst h
        obtain ⟨_, h2, h3⟩ := foldE_depStep_ok _ _ _ hf
        have hPn : P R n = fparams f := P_of_lookup hl
        -- invariant of the loop
        have hinv : TopoFrom R [] acc ∧ acc.Nodup := by
          refine foldE_inv (f := depStep R fuel n ref) (fun a => TopoFrom R [] a ∧ a.Nodup)
            (fparams f) [] acc ⟨trivial, by simp⟩ ?_ hf
          intro b p b' hb _ hs
          unfold depStep at hs
          split at hs
          · cases hs
          · cases hd : deps R fuel p (n :: ref) with
            | error e => simp [hd] at hs
            | ok d =>
              simp only [hd] at hs
              injection hs with hs; subst hs
              have sp := ih p (n :: ref) d hd
              exact ⟨topo_oupdate d b hb.1 (topoFrom_mono d [] b (by simp) sp.topo), nodup_oupdate hb.2⟩
        have hacc_known : ∀ x ∈ acc, x ∈ names R := by
          intro x hx
          rcases h3 x hx with hx | ⟨p, _, d, hd, hxd⟩
          · cases hx
          · exact (ih p (n :: ref) d hd).known x hxd
        have hacc_reach : ∀ x ∈ acc, Path R n x := by
          intro x hx
          rcases h3 x hx with hx | ⟨p, hp, d, hd, hxd⟩
          · cases hx
          · exact Path.cons (by rw [hPn]; exact hp) ((ih p (n :: ref) d hd).reach x hxd)
        refine ⟨?_, ?_, ?_, nodup_oupdate hinv.2, ?_⟩
        · intro p hp; rw [hPn] at hp; exact mem_oupdate.mpr (.inr hp)
        · refine topo_oupdate _ _ hinv.1 (topoFrom_of_all _ _ ?_)
          intro p hp q hq
          obtain ⟨d, hd, hdr⟩ := h2 p hp
          exact hdr q ((ih p (n :: ref) d hd).direct q hq)
        · intro x hx
          rcases mem_oupdate.mp hx with hx | hx
          · exact hacc_known x hx
          · exact lookup_isSome_iff.mp (hsub x hx).1
        · intro x hx
          rcases mem_oupdate.mp hx with hx | hx
          · exact hacc_reach x hx
          · exact .edge (by rw [hPn]; exact hx)


/-! ### `get_scheduled_fixtures_for_scope` -/

def closureStep (R : Registry) (acc : List String) (f : String) : Except Err (List String) :=
  match getFixtureDependencies R f with
  | .error e => .error e
  | .ok d => .ok (oadd (oupdate acc d) f)

theorem closure_eq (R : Registry) (direct : List String) : closure R direct = foldE (closureStep R) direct [] := rfl

structure ClosureSpec (R : Registry) (acc ds l : List String) : Prop where
  accSub : ∀ x ∈ acc, x ∈ l
  direct : ∀ f ∈ ds, f ∈ l
  topo : TopoFrom R [] l
  known : ∀ x ∈ l, x ∈ names R
  nodup : l.Nodup
  reach : ∀ x ∈ l, x ∈ acc ∨ x ∈ ds ∨ ∃ f ∈ ds, Path R f x

theorem closure_fold_spec (R : Registry) : ∀ (ds acc l : List String),
    foldE (closureStep R) ds acc = .ok l → TopoFrom R [] acc → (∀ x ∈ acc, x ∈ names R) → acc.Nodup →
    ClosureSpec R acc ds l := by
  intro ds
  induction ds with
  | nil =>
    intro acc l h ht hk hn
    simp [foldE] at h; subst h
    exact ⟨fun _ h => h, by simp, ht, hk, hn, fun x hx => .inl hx⟩
  | cons f ds ih =>
    intro acc l h ht hk hn
    unfold foldE at h
    cases hs : closureStep R acc f with
    | error e => rw [hs] at h; cases h
    | ok acc' =>
      rw [hs] at h
      unfold closureStep at hs
      cases hd : getFixtureDependencies R f with
      | error e => simp [hd] at hs
      | ok d =>
        simp only [hd] at hs
        injection hs with hs; subst hs
        have sp := deps_ok_spec R _ _ _ _ hd
        have hfknown : f ∈ names R := by
          unfold getFixtureDependencies fuelFor at hd
          obtain ⟨g, hl, _, _⟩ := deps_ok_inv hd
          exact lookup_isSome_iff.mp (by simp [hl])
        have ht' : TopoFrom R [] (oadd (oupdate acc d) f) :=
          topo_oadd (topo_oupdate d acc ht (topoFrom_mono d [] acc (by simp) sp.topo))
            (fun p hp => mem_oupdate.mpr (.inr (sp.direct p hp)))
        have hk' : ∀ x ∈ oadd (oupdate acc d) f, x ∈ names R := by
          intro x hx
          rcases mem_oadd.mp hx with hx | rfl
          · rcases mem_oupdate.mp hx with hx | hx
            · exact hk x hx
            · exact sp.known x hx
          · exact hfknown
        have r := ih _ l h ht' hk' (nodup_oadd (nodup_oupdate hn))
        refine ⟨?_, ?_, r.topo, r.known, r.nodup, ?_⟩
        · intro x hx; exact r.accSub x (mem_oadd.mpr (.inl (mem_oupdate.mpr (.inl hx))))
        · intro g hg
          rcases List.mem_cons.mp hg with rfl | hg
          · exact r.accSub _ (mem_oadd.mpr (.inr rfl))
          · exact r.direct g hg
        · intro x hx
          rcases r.reach x hx with hx | hx | ⟨g, hg, hp⟩
          · rcases mem_oadd.mp hx with hx | rfl
            · rcases mem_oupdate.mp hx with hx | hx
              · exact .inl hx
              · exact .inr (.inr ⟨f, by simp, sp.reach x hx⟩)
            · exact .inr (.inl (by simp))
          · exact .inr (.inl (by simp [hx]))
          · exact .inr (.inr ⟨g, by simp [hg], hp⟩)

theorem closure_spec {R : Registry} {direct l : List String} (h : closure R direct = .ok l) :
    ClosureSpec R [] direct l :=
  closure_fold_spec R direct [] l h trivial (by simp) (by simp)

theorem closure_ok_of {R : Registry} {direct : List String}
    (h : ∀ f ∈ direct, ∃ d, getFixtureDependencies R f = .ok d) : ∃ l, closure R direct = .ok l := by
  rw [closure_eq]
  apply foldE_ok_of_steps
  intro b a ha
  obtain ⟨d, hd⟩ := h a ha
  exact ⟨_, by unfold closureStep; rw [hd]⟩

theorem closure_error {R : Registry} {direct : List String} {e : Err} (h : closure R direct = .error e) :
    ∃ f ∈ direct, getFixtureDependencies R f = .error e := by
  rw [closure_eq] at h
  obtain ⟨b, f, hf, hs⟩ := foldE_error _ _ _ h
  refine ⟨f, hf, ?_⟩
  unfold closureStep at hs
  cases hd : getFixtureDependencies R f with
  | error e' => simp [hd] at hs; rw [hs]
  | ok d => simp [hd] at hs

/-! ### `ScheduledFixtures` at run time -/

/-- every instance of the chain has run all its set-up functions -/
def Done (c : List Inst) : Prop := ∀ i ∈ c, ∀ n ∈ i.fixtures, n ∈ i.results

/-- the name is held by some instance of the chain -/
def Avail (c : List Inst) (n : String) : Prop := ∃ i ∈ c, n ∈ i.fixtures

theorem getResult_ok_of_done : ∀ (c : List Inst) (n : String), Done c → Avail c n → getResult c n = .ok () := by
  intro c
  induction c with
  | nil => intro n _ h; obtain ⟨i, hi, _⟩ := h; cases hi
  | cons i rest ih =>
    intro n hd ha
    unfold getResult
    by_cases hin : n ∈ i.fixtures
    · rw [if_pos hin, if_pos (hd i (by simp) n hin)]
    · rw [if_neg hin]
      apply ih n (fun j hj => hd j (by simp [hj]))
      obtain ⟨j, hj, hn⟩ := ha
      rcases List.mem_cons.mp hj with rfl | hj
      · exact absurd hn hin
      · exact ⟨j, hj, hn⟩

/-- the hypotheses under which running the set-up functions `rest` of an instance `I` whose
    functions `seen` already ran cannot fail -/
def SimOK (R : Registry) (chain : List Inst) (I : List String) : List String → List String → Prop
  | _, [] => True
  | seen, n :: rest =>
    n ∉ seen ∧ n ∈ names R ∧ n ∈ I ∧
    (∀ p ∈ P R n, (p ∈ I ∧ p ∈ seen) ∨ (p ∉ I ∧ Avail chain p)) ∧
    SimOK R chain I (seen ++ [n]) rest

theorem sim_ok (R : Registry) (chain : List Inst) (sc : Scope) (I : List String) (hd : Done chain) :
    ∀ (rest seen : List String), SimOK R chain I seen rest →
      foldE (setupFixture R) rest (⟨sc, I, seen⟩ :: chain) = .ok (⟨sc, I, seen ++ rest⟩ :: chain) := by
  intro rest
  induction rest with
  | nil => intro seen _; simp [foldE]
  | cons n rest ih =>
    intro seen h
    obtain ⟨hns, hk, _, hp, hrest⟩ := h
    obtain ⟨f, hl⟩ := lookup_some_of_mem_names hk
    have hstep : setupFixture R (⟨sc, I, seen⟩ :: chain) n = .ok (⟨sc, I, seen ++ [n]⟩ :: chain) := by
      unfold setupFixture
      simp only [hns, if_false, hl]
      have : forE (fparams f) (getResult (⟨sc, I, seen⟩ :: chain)) = .ok () := by
        rw [forE_ok_iff]
        intro p hpf
        rw [← P_of_lookup hl] at hpf
        unfold getResult
        rcases hp p hpf with ⟨hI, hs⟩ | ⟨hI, ha⟩
        · simp [hI, hs]
        · simp only [hI, if_false]
          exact getResult_ok_of_done chain p hd ha
      rw [this]
    unfold foldE
    rw [hstep]
    have := ih (seen ++ [n]) hrest
    simpa using this

/-- from the topological order of the closure to the set-up of the instance of one scope -/
theorem simOK_of_topo (R : Registry) (chain : List Inst) (q : String → Bool) (I : List String)
    (hIq : ∀ x ∈ I, q x = true)
    (houter : ∀ n ∈ I, ∀ p ∈ P R n, q p = false → Avail chain p) :
    ∀ (l seen : List String), TopoFrom R seen l → (seen ++ l).Nodup → (∀ x ∈ l, x ∈ names R) →
      (∀ x ∈ seen.filter q, x ∈ I) → (∀ x ∈ l.filter q, x ∈ I) →
      SimOK R chain I (seen.filter q) (l.filter q) := by
  intro l
  induction l with
  | nil => intro seen _ _ _ _ _; simp [SimOK]
  | cons n rest ih =>
    intro seen ht hnd hk hsI hlI
    have hnd' : ((seen ++ [n]) ++ rest).Nodup := by simpa using hnd
    have hrec := ih (seen ++ [n]) ht.2 hnd' (fun x hx => hk x (by simp [hx]))
    by_cases hq : q n = true
    · have hnI : n ∈ I := hlI n (by simp [hq])
      have e1 : (n :: rest).filter q = n :: rest.filter q := by simp [hq]
      have e2 : (seen ++ [n]).filter q = seen.filter q ++ [n] := by simp [hq]
      rw [e1]
      refine ⟨?_, hk n (by simp), hnI, ?_, ?_⟩
      · intro hin
        have hin' : n ∈ seen := (List.mem_filter.mp hin).1
        rw [List.nodup_append] at hnd
        exact hnd.2.2 n hin' n (by simp) rfl
      · intro p hp
        by_cases hqp : q p = true
        · have hps : p ∈ seen.filter q := List.mem_filter.mpr ⟨ht.1 p hp, hqp⟩
          exact .inl ⟨hsI p hps, hps⟩
        · have hqp' : q p = false := by simpa using hqp
          refine .inr ⟨?_, houter n hnI p hp hqp'⟩
          intro hpI; rw [hIq p hpI] at hqp'; cases hqp'
      · rw [← e2]
        apply hrec
        · rw [e2]; intro x hx
          rcases List.mem_append.mp hx with hx | hx
          · exact hsI x hx
          · simp at hx; subst hx; exact hnI
        · intro x hx; exact hlI x (by rw [e1]; simp [hx])
    · have hq' : q n = false := by simpa using hq
      have e1 : (n :: rest).filter q = rest.filter q := by simp [hq']
      have e2 : (seen ++ [n]).filter q = seen.filter q := by simp [hq']
      rw [e1, ← e2]
      apply hrec
      · rw [e2]; exact hsI
      · rw [← e1]; exact hlI


end LccModel.Fixture

import LccModel.Model.Listeners

namespace LccModel.Listeners

theorem types_addAll (em : EM) (ls : List Listener) : (addAll em ls).types = em.types := by
  induction ls generalizing em with
  | nil => rfl
  | cons l ls ih => simp [addAll, ih, addListener]

/-- the subscriptions after adding `ls`, spelled out -/
theorem subs_addAll (em : EM) (ls : List Listener) :
    (addAll em ls).subs = em.subs ++ ls.flatMap (fun l => (em.types.filter l.handles).map (fun n => (n, l.id))) := by
  induction ls generalizing em with
  | nil => simp [addAll]
  | cons l ls ih => simp [addAll, ih, addListener, List.append_assoc]

theorem dispatch_addAll (types : List String) (ls : List Listener) (name : String) :
    dispatch (addAll (EM.init types) ls) name =
      ls.flatMap (fun l => ((types.filter l.handles).filter (fun n => n == name)).map (fun _ => l.id)) := by
  unfold dispatch
  rw [subs_addAll]
  simp only [EM.init, List.nil_append]
  induction ls with
  | nil => rfl
  | cons l ls ih =>
    simp only [List.flatMap_cons, List.filter_append, List.map_append, ih]
    congr 1
    simp [List.filter_map, List.map_map, Function.comp_def]

/-- an event name registered once and handled by `l` is subscribed once by `l` -/
theorem count_name (types : List String) (hn : types.Nodup) (l : Listener) (name : String) :
    ((types.filter l.handles).filter (fun n => n == name)).length =
      if name ∈ types ∧ l.handles name = true then 1 else 0 := by
  induction types with
  | nil => simp
  | cons t ts ih =>
    have hnd := List.nodup_cons.mp hn
    have ih' := ih hnd.2
    by_cases ht : t = name
    · subst ht
      have hnot : t ∉ ts := hnd.1
      have hz : ((ts.filter l.handles).filter (fun n => n == t)).length = 0 := by
        rw [ih']; simp [hnot]
      cases hh : l.handles t
      · rw [List.filter_cons_of_neg (by simp [hh]), hz]; simp
      · rw [List.filter_cons_of_pos hh, List.filter_cons_of_pos (by simp), List.length_cons, hz]; simp
    · have hne : ¬ ((t == name) = true) := by simpa using ht
      have hmem : (name ∈ t :: ts) ↔ name ∈ ts := by
        constructor
        · intro h
          rcases List.mem_cons.mp h with h | h
          · exact absurd h.symm ht
          · exact h
        · exact List.mem_cons_of_mem _
      cases hh : l.handles t
      · rw [List.filter_cons_of_neg (by simp [hh]), ih']; simp only [hmem]
      · rw [List.filter_cons_of_pos hh, List.filter_cons_of_neg (p := fun n => n == name) hne, ih']; simp only [hmem]

theorem no_id_no_call (X : Listener → List String) (rest : List Listener) (i : Nat) (h : ∀ b ∈ rest, b.id ≠ i) :
    ((rest.flatMap (fun l' => (X l').map (fun _ => l'.id))).filter (fun j => j == i)) = [] := by
  induction rest with
  | nil => rfl
  | cons b bs ih =>
    have hb : b.id ≠ i := h b (List.mem_cons_self ..)
    simp only [List.flatMap_cons, List.filter_append, ih (fun c hc => h c (List.mem_cons_of_mem _ hc)), List.append_nil]
    apply List.filter_eq_nil_iff.mpr
    intro j hj
    obtain ⟨_, _, rfl⟩ := List.mem_map.mp hj
    simpa using hb

/-- in the call list of an event, the listener `l` occurs once per subscription of its own — the other listeners, whatever
    their class and their handlers, contribute nothing -/
theorem calls_of_listener (X : Listener → List String) (ls : List Listener) (hid : ls.Pairwise (fun a b => a.id ≠ b.id))
    (l : Listener) (hl : l ∈ ls) :
    ((ls.flatMap (fun l' => (X l').map (fun _ => l'.id))).filter (fun j => j == l.id)).length = (X l).length := by
  induction ls with
  | nil => cases hl
  | cons a rest ih =>
    have hp := List.pairwise_cons.mp hid
    simp only [List.flatMap_cons, List.filter_append, List.length_append]
    rcases List.mem_cons.mp hl with rfl | hin
    · rw [no_id_no_call X rest l.id (fun b hb => (hp.1 b hb).symm)]
      have : ((X l).map (fun _ => l.id)).filter (fun j => j == l.id) = (X l).map (fun _ => l.id) := by
        apply List.filter_eq_self.mpr
        intro j hj
        obtain ⟨_, _, rfl⟩ := List.mem_map.mp hj
        simp
      rw [this]; simp
    · have hne : a.id ≠ l.id := hp.1 l hin
      have h0 : ((X a).map (fun _ => a.id)).filter (fun j => j == l.id) = [] := by
        apply List.filter_eq_nil_iff.mpr
        intro j hj
        obtain ⟨_, _, rfl⟩ := List.mem_map.mp hj
        simpa using hne
      rw [h0, ih hp.2 hin]; simp

theorem flatMap_copies_eq_filter {α β : Type} (g : α → List β) (p : α → Bool) (fired : List α)
    (h : ∀ e ∈ fired, (g e).length = if p e = true then 1 else 0) :
    fired.flatMap (fun e => (g e).map (fun _ => e)) = fired.filter p := by
  induction fired with
  | nil => rfl
  | cons e es ih =>
    have he := h e (List.mem_cons_self ..)
    have ih' := ih (fun x hx => h x (List.mem_cons_of_mem _ hx))
    simp only [List.flatMap_cons, ih']
    cases hp : p e
    · rw [hp] at he
      have : g e = [] := List.length_eq_zero_iff.mp (by simpa using he)
      simp [this, hp]
    · rw [hp] at he
      obtain ⟨x, hx⟩ := List.length_eq_one_iff.mp (by simpa using he)
      simp [hx, hp]

end LccModel.Listeners

/-
  Helper lemmas for M8 `Filter` (property theorems are in `Props/C12.lean`).
-/
import LccModel.Model.Filter

namespace LccModel.Filter

/-! ## Wildcards -/

theorem anySuffix_iff (p : Str → Bool) (s : Str) :
    anySuffix p s = true ↔ ∃ a b, s = a ++ b ∧ p b = true := by
  induction s with
  | nil =>
    simp only [anySuffix]
    constructor
    · intro h; exact ⟨[], [], rfl, h⟩
    · rintro ⟨a, b, hab, hb⟩
      have : b = [] := (List.append_eq_nil_iff.mp hab.symm).2
      subst this; exact hb
  | cons c cs ih =>
    simp only [anySuffix, Bool.or_eq_true, ih]
    constructor
    · rintro (h | ⟨a, b, hab, hb⟩)
      · exact ⟨[], c :: cs, rfl, h⟩
      · exact ⟨c :: a, b, by simp [hab], hb⟩
    · rintro ⟨a, b, hab, hb⟩
      cases a with
      | nil => left; simp at hab; subst hab; exact hb
      | cons x a =>
        right
        simp at hab
        exact ⟨a, b, hab.2, hb⟩

/-- A pattern character that is not special to `fnmatch`. -/
def plainChar (c : Nat) : Bool := c != cStar && c != cQuestion && c != cOpen

theorem tokenize_plain (p : Str) (hp : ∀ c ∈ p, plainChar c = true) :
    tokenize 0 p = p.map Tok.lit := by
  induction p with
  | nil => rfl
  | cons c r ih =>
    have hc := hp c (by simp)
    simp only [plainChar, Bool.and_eq_true, bne_iff_ne, ne_eq] at hc
    have h1 : (c == cStar) = false := by simp [hc.1.1]
    have h2 : (c == cQuestion) = false := by simp [hc.1.2]
    have h3 : (c == cOpen) = false := by simp [hc.2]
    simp only [tokenize, Nat.lt_irrefl, ↓reduceIte, h1, h2, h3, Bool.false_eq_true, List.map_cons]
    rw [ih (fun c hc => hp c (by simp [hc]))]

theorem tokenize_append_plain (p q : Str) (hp : ∀ c ∈ p, plainChar c = true) :
    tokenize 0 (p ++ q) = p.map Tok.lit ++ tokenize 0 q := by
  induction p with
  | nil => rfl
  | cons c r ih =>
    have hc := hp c (by simp)
    simp only [plainChar, Bool.and_eq_true, bne_iff_ne, ne_eq] at hc
    have h1 : (c == cStar) = false := by simp [hc.1.1]
    have h2 : (c == cQuestion) = false := by simp [hc.1.2]
    have h3 : (c == cOpen) = false := by simp [hc.2]
    simp only [List.cons_append, tokenize, Nat.lt_irrefl, ↓reduceIte, h1, h2, h3, Bool.false_eq_true,
      List.map_cons]
    rw [ih (fun c hc => hp c (by simp [hc]))]

theorem gmatch_lits_append (p : Str) (rest : List Tok) (s : Str) :
    gmatch (p.map Tok.lit ++ rest) s = true ↔ ∃ t, s = p ++ t ∧ gmatch rest t = true := by
  induction p generalizing s with
  | nil => simp
  | cons c r ih =>
    cases s with
    | nil => simp [gmatch]
    | cons d s =>
      simp only [List.map_cons, List.cons_append, gmatch, Tok.accepts, Bool.and_eq_true, beq_iff_eq, ih]
      constructor
      · rintro ⟨rfl, t, rfl, ht⟩; exact ⟨t, rfl, ht⟩
      · rintro ⟨t, ht, hm⟩
        simp at ht
        exact ⟨ht.1.symm, t, ht.2, hm⟩

theorem gmatch_nil (s : Str) : gmatch [] s = true ↔ s = [] := by
  cases s <;> simp [gmatch]

theorem gmatch_star_nil (s : Str) : gmatch [.star] s = true := by
  simp only [gmatch]
  rw [anySuffix_iff]
  exact ⟨s, [], by simp, by simp⟩

/-! ## Polarity, `_match_values`, `_match_key_values` -/

/-- The pattern starts with one of the negation flags `-`, `^`, `~`. -/
def startsWithFlag (p : Str) : Bool := (parsePat p).1

theorem parsePat_flag {c : Nat} (g : Str) (hc : isNegFlag c = true) : parsePat (c :: g) = (true, g) := by
  simp [parsePat, hc]

theorem parsePat_noflag {g : Str} (h : startsWithFlag g = false) : parsePat g = (false, g) := by
  cases g with
  | nil => rfl
  | cons c r =>
    unfold startsWithFlag parsePat at h
    unfold parsePat
    by_cases hc : isNegFlag c = true
    · simp [hc] at h
    · simp [hc]

theorem matchPattern_neg {c : Nat} (vals : List Str) (g : Str) (hc : isNegFlag c = true) :
    matchPattern vals (c :: g) = !anyMatch vals g := by
  simp [matchPattern, parsePat_flag g hc]

theorem matchPattern_pos (vals : List Str) {g : Str} (h : startsWithFlag g = false) :
    matchPattern vals g = anyMatch vals g := by
  simp [matchPattern, parsePat_noflag h]

theorem matchValues_nil (vals : List Str) : matchValues vals [] = true := rfl

theorem matchKeyValues_nil (look : Str → Option Str) : matchKeyValues look [] = true := rfl

theorem fnmatch_nil (v : Str) : fnmatch [] v = v.isEmpty := by
  simp [fnmatch, tokenize, gmatch]

theorem bool_and5 : ∀ a1 a2 a3 a4 a5 b2 b3 b4 b5 : Bool,
    (a1 && (a2 && b2) && (a3 && b3) && (a4 && b4) && (a5 && b5)) =
      ((a1 && a2 && a3 && a4 && a5) && (b2 && b3 && b4 && b5)) := by decide

theorem bool_switches : ∀ e1 e2 d1 d2 x : Bool,
    ((!(e1 || e2) || !x) && (!(d1 || d2) || x)) = (((!e1 || !x) && (!d1 || x)) && ((!e2 || !x) && (!d2 || x))) := by
  decide

theorem bool_and4 : ∀ a b c d : Bool, ((a && b) && (c && d)) = ((a && c) && (b && d)) := by decide

theorem matchValues_ne_nil (vals : List Str) {pats : List Str} (h : pats ≠ []) :
    matchValues vals pats = pats.any (matchPattern vals) := by
  cases pats with
  | nil => exact absurd rfl h
  | cons p r => simp [matchValues]

theorem matchKeyValues_ne_nil (look : Str → Option Str) {pats : List (Str × Str)} (h : pats ≠ []) :
    matchKeyValues look pats = pats.any (matchKeyPattern look) := by
  cases pats with
  | nil => exact absurd rfl h
  | cons p r => simp [matchKeyValues]

theorem anyMatch_append (a b : List Str) (g : Str) :
    anyMatch (a ++ b) g = (anyMatch a g || anyMatch b g) := by
  simp [anyMatch]

/-! ## Hierarchies -/

theorem prefixes_snoc {α} (l : List α) (a : α) : prefixes (l ++ [a]) = prefixes l ++ [l ++ [a]] := by
  induction l with
  | nil => rfl
  | cons b l ih => simp [prefixes, ih]

theorem prefixes_append {α} (l m : List α) : prefixes (l ++ m) = prefixes l ++ (prefixes m).map (l ++ ·) := by
  induction l with
  | nil => simp [prefixes]
  | cons b l ih => simp [prefixes, ih, List.map_map, Function.comp_def]

theorem mem_prefixes_self {α} (l : List α) (h : l ≠ []) : l ∈ prefixes l := by
  induction l with
  | nil => exact absurd rfl h
  | cons a l ih =>
    cases l with
    | nil => simp [prefixes]
    | cons b l =>
      have := ih (by simp)
      simp only [prefixes, List.mem_cons, List.mem_map]
      right
      exact ⟨b :: l, by simpa [prefixes] using this, rfl⟩

theorem hierPaths_append (a b : Hier) :
    hierPaths (a ++ b) = hierPaths a ++ (prefixes b).map (fun x => pathOf (a ++ x)) := by
  simp [hierPaths, prefixes_append, List.map_map, Function.comp_def]

theorem hierDescs_append (a b : Hier) : hierDescs (a ++ b) = hierDescs a ++ hierDescs b := by
  simp [hierDescs]

theorem hierTags_append (a b : Hier) : hierTags (a ++ b) = hierTags a ++ hierTags b := by
  simp [hierTags]

theorem hierLinks_append (a b : Hier) : hierLinks (a ++ b) = hierLinks a ++ hierLinks b := by
  simp [hierLinks]

theorem isDisabled_append (a b : Hier) : isDisabled (a ++ b) = (isDisabled a || isDisabled b) := by
  simp [isDisabled]

theorem lookup_append {α β} [BEq α] (l m : List (α × β)) (k : α) :
    (l ++ m).lookup k = (l.lookup k).orElse (fun _ => m.lookup k) := by
  induction l with
  | nil => simp [List.lookup]
  | cons x l ih =>
    obtain ⟨a, b⟩ := x
    simp only [List.cons_append, List.lookup]
    split <;> simp_all

theorem lookupProp_append (a b : Hier) (k : Str) :
    lookupProp (a ++ b) k = (lookupProp b k).orElse (fun _ => lookupProp a k) := by
  simp [lookupProp, lookup_append]

/-! ## Trees -/

theorem isEmpty_append' {α} (a b : List α) : (a ++ b).isEmpty = (a.isEmpty && b.isEmpty) := by
  cases a <;> simp

mutual
theorem isEmpty_eq_flatten {τ} (ctx : Hier) : ∀ s : Tree τ, s.isEmpty = (flattenSuite ctx s).isEmpty
  | .mk n ts subs => by
    simp only [Tree.isEmpty, flattenSuite, isEmpty_append', List.isEmpty_map]
    rw [allEmpty_eq_flatten (ctx ++ [n]) subs]
theorem allEmpty_eq_flatten {τ} (ctx : Hier) : ∀ S : List (Tree τ), allEmpty S = (flattenSuites ctx S).isEmpty
  | [] => by simp [allEmpty, flattenSuites]
  | s :: r => by
    simp only [allEmpty, flattenSuites, isEmpty_append']
    rw [isEmpty_eq_flatten ctx s, allEmpty_eq_flatten ctx r]
end

theorem flatten_nil_of_isEmpty {τ} (ctx : Hier) (s : Tree τ) (h : s.isEmpty = true) : flattenSuite ctx s = [] := by
  rw [isEmpty_eq_flatten ctx s] at h
  simpa using h

mutual
theorem flattenSuite_filter {τ} (p : Hier → τ → Bool) (ctx : Hier) : ∀ s : Tree τ,
    flattenSuite ctx (filterSuite p ctx s) = (flattenSuite ctx s).filter (fun x => p x.1 x.2)
  | .mk n ts subs => by
    simp only [filterSuite, flattenSuite, List.filter_append, flattenSuites_filter p (ctx ++ [n]) subs]
    congr 1
    simp [List.filter_map, Function.comp_def]
theorem flattenSuites_filter {τ} (p : Hier → τ → Bool) (ctx : Hier) : ∀ S : List (Tree τ),
    flattenSuites ctx (filterSuites p ctx S) = (flattenSuites ctx S).filter (fun x => p x.1 x.2)
  | [] => by simp [filterSuites, flattenSuites]
  | s :: r => by
    simp only [filterSuites, flattenSuites, List.filter_append]
    rw [← flattenSuite_filter p ctx s, ← flattenSuites_filter p ctx r]
    split
    · rename_i h; simp [flatten_nil_of_isEmpty ctx _ h]
    · simp [flattenSuites]
end

theorem filter_isEmpty_eq {α} (q : α → Bool) (l : List α) : (l.filter q).isEmpty = !l.any q := by
  induction l with
  | nil => rfl
  | cons a l ih =>
    by_cases h : q a = true
    · simp [h]
    · simp [h, ih]

/-- A filtered suite is empty exactly when the filter selects none of its tests (at any depth). -/
theorem filterSuite_isEmpty {τ} (p : Hier → τ → Bool) (ctx : Hier) (s : Tree τ) :
    (filterSuite p ctx s).isEmpty = !hasSelected p (ctx, s) := by
  rw [isEmpty_eq_flatten ctx, flattenSuite_filter, filter_isEmpty_eq]
  rfl

mutual
theorem filterSuite_idem {τ} (p : Hier → τ → Bool) (ctx : Hier) : ∀ s : Tree τ,
    filterSuite p ctx (filterSuite p ctx s) = filterSuite p ctx s
  | .mk n ts subs => by
    simp only [filterSuite, List.filter_filter, Bool.and_self]
    rw [filterSuites_idem p (ctx ++ [n]) subs]
theorem filterSuites_idem {τ} (p : Hier → τ → Bool) (ctx : Hier) : ∀ S : List (Tree τ),
    filterSuites p ctx (filterSuites p ctx S) = filterSuites p ctx S
  | [] => by simp [filterSuites]
  | s :: r => by
    by_cases h : (filterSuite p ctx s).isEmpty = true
    · simp only [filterSuites, h, ↓reduceIte]
      exact filterSuites_idem p ctx r
    · simp only [filterSuites, h, Bool.false_eq_true, ↓reduceIte]
      rw [filterSuite_idem p ctx s, filterSuites_idem p ctx r]
      simp [h]
end

mutual
theorem filterSuite_subs_nonempty {τ} (p : Hier → τ → Bool) (ctx : Hier) : ∀ s : Tree τ,
    (filterSuite p ctx s).isEmpty = false →
    ∀ x ∈ allSuitesOf ctx (filterSuite p ctx s), x.2.isEmpty = false
  | .mk n ts subs => by
    intro h x hx
    simp only [filterSuite, allSuitesOf, List.mem_cons] at hx
    rcases hx with rfl | hx
    · simpa [filterSuite] using h
    · exact filterSuites_nonempty p (ctx ++ [n]) subs x hx
theorem filterSuites_nonempty {τ} (p : Hier → τ → Bool) (ctx : Hier) : ∀ S : List (Tree τ),
    ∀ x ∈ allSuites ctx (filterSuites p ctx S), x.2.isEmpty = false
  | [] => by simp [filterSuites, allSuites]
  | s :: r => by
    intro x hx
    by_cases h : (filterSuite p ctx s).isEmpty = true
    · simp only [filterSuites, h, ↓reduceIte] at hx
      exact filterSuites_nonempty p ctx r x hx
    · simp only [filterSuites, h, Bool.false_eq_true, ↓reduceIte, allSuites, List.mem_append] at hx
      rcases hx with hx | hx
      · exact filterSuite_subs_nonempty p ctx s (by simpa using h) x hx
      · exact filterSuites_nonempty p ctx r x hx
end

mutual
theorem noSel_allSuitesOf {τ} (p : Hier → τ → Bool) (ctx : Hier) : ∀ s : Tree τ,
    hasSelected p (ctx, s) = false → ∀ x ∈ allSuitesOf ctx s, hasSelected p x = false
  | .mk n ts subs => by
    intro h x hx
    simp only [allSuitesOf, List.mem_cons] at hx
    rcases hx with rfl | hx
    · exact h
    · apply noSel_allSuites p (ctx ++ [n]) subs _ x hx
      simp only [hasSelected, flattenSuite, List.any_append, Bool.or_eq_false_iff] at h
      exact h.2
theorem noSel_allSuites {τ} (p : Hier → τ → Bool) (ctx : Hier) : ∀ S : List (Tree τ),
    (flattenSuites ctx S).any (fun y => p y.1 y.2) = false → ∀ x ∈ allSuites ctx S, hasSelected p x = false
  | [] => by simp [allSuites]
  | s :: r => by
    intro h x hx
    simp only [flattenSuites, List.any_append, Bool.or_eq_false_iff] at h
    simp only [allSuites, List.mem_append] at hx
    rcases hx with hx | hx
    · exact noSel_allSuitesOf p ctx s h.1 x hx
    · exact noSel_allSuites p ctx r h.2 x hx
end

theorem filter_eq_nil_of_all_false {α} (q : α → Bool) (l : List α) (h : ∀ x ∈ l, q x = false) :
    l.filter q = [] := by
  induction l with
  | nil => rfl
  | cons a l ih =>
    simp only [List.filter_cons, h a (by simp), Bool.false_eq_true, ↓reduceIte]
    exact ih (fun x hx => h x (by simp [hx]))

mutual
theorem keptSuitesOf {τ} (p : Hier → τ → Bool) (ctx : Hier) : ∀ s : Tree τ,
    (filterSuite p ctx s).isEmpty = false →
    (allSuitesOf ctx (filterSuite p ctx s)).map suiteHier =
      ((allSuitesOf ctx s).filter (hasSelected p)).map suiteHier
  | .mk n ts subs => by
    intro h
    have hs : hasSelected p (ctx, Tree.mk n ts subs) = true := by
      rw [filterSuite_isEmpty] at h; simpa using h
    simp only [filterSuite, allSuitesOf, List.map_cons, List.filter_cons, hs, ↓reduceIte]
    rw [keptSuites p (ctx ++ [n]) subs]
    rfl
theorem keptSuites {τ} (p : Hier → τ → Bool) (ctx : Hier) : ∀ S : List (Tree τ),
    (allSuites ctx (filterSuites p ctx S)).map suiteHier =
      ((allSuites ctx S).filter (hasSelected p)).map suiteHier
  | [] => by simp [filterSuites, allSuites]
  | s :: r => by
    by_cases h : (filterSuite p ctx s).isEmpty = true
    · simp only [filterSuites, h, ↓reduceIte, allSuites, List.filter_append, List.map_append]
      have hs : hasSelected p (ctx, s) = false := by
        rw [filterSuite_isEmpty] at h; simpa using h
      rw [filter_eq_nil_of_all_false _ _ (noSel_allSuitesOf p ctx s hs)]
      simpa using keptSuites p ctx r
    · simp only [filterSuites, h, Bool.false_eq_true, ↓reduceIte, allSuites, List.filter_append, List.map_append]
      rw [keptSuitesOf p ctx s (by simpa using h), keptSuites p ctx r]
end

mutual
/-- The hierarchy of every test found below a suite extends the hierarchy of that suite. -/
theorem flattenSuite_prefix {τ} (ctx : Hier) : ∀ s : Tree τ,
    ∀ x ∈ flattenSuite ctx s, ∃ mid, x.1 = ctx ++ s.node :: mid
  | .mk n ts subs => by
    intro x hx
    simp only [flattenSuite, List.mem_append, List.mem_map] at hx
    rcases hx with ⟨t, _, rfl⟩ | hx
    · exact ⟨[], rfl⟩
    · obtain ⟨s', _, mid, h⟩ := flattenSuites_prefix (ctx ++ [n]) subs x hx
      exact ⟨s'.node :: mid, by simp [h, Tree.node]⟩
theorem flattenSuites_prefix {τ} (ctx : Hier) : ∀ S : List (Tree τ),
    ∀ x ∈ flattenSuites ctx S, ∃ s ∈ S, ∃ mid, x.1 = ctx ++ s.node :: mid
  | [] => by simp [flattenSuites]
  | s :: r => by
    intro x hx
    simp only [flattenSuites, List.mem_append] at hx
    rcases hx with hx | hx
    · exact ⟨s, by simp, flattenSuite_prefix ctx s x hx⟩
    · obtain ⟨s', hs', h⟩ := flattenSuites_prefix ctx r x hx
      exact ⟨s', by simp [hs'], h⟩
end

/-! ## Report-based selection -/

theorem contains_map_filter {α} (q : α → Bool) (f : α → Str) (l : List α) (x : Str) :
    ((l.filter q).map f).contains x = l.any (fun r => q r && f r == x) := by
  rw [Bool.eq_iff_iff]
  simp only [List.contains_iff_mem, List.mem_map, List.mem_filter, List.any_eq_true, Bool.and_eq_true,
    beq_iff_eq]
  constructor
  · rintro ⟨r, ⟨hr, hq⟩, rfl⟩; exact ⟨r, hr, hq, rfl⟩
  · rintro ⟨r, hr, hq, rfl⟩; exact ⟨r, ⟨hr, hq⟩, rfl⟩


/-! ## `load_suites_from_project` -/

theorem loadSuites_true_ok {p : Hier → Node → Bool} {S kept : List Suite}
    (h : loadSuites true p S = .ok kept) : kept = filterSuites p [] S := by
  unfold loadSuites at h
  by_cases h0 : allEmpty S = true
  · rw [if_pos h0] at h; cases h
  · rw [if_neg h0, if_pos rfl] at h
    by_cases hk : (filterSuites p [] S).isEmpty = true
    · simp only [hk, ↓reduceIte] at h; cases h
    · simp only [hk, Bool.false_eq_true, ↓reduceIte] at h
      injection h with h; exact h.symm

theorem loadSuites_false_ok {p : Hier → Node → Bool} {S kept : List Suite}
    (h : loadSuites false p S = .ok kept) : kept = S := by
  unfold loadSuites at h
  by_cases h0 : allEmpty S = true
  · rw [if_pos h0] at h; cases h
  · rw [if_neg h0] at h
    simp only [Bool.false_eq_true, ↓reduceIte] at h
    injection h with h; exact h.symm

end LccModel.Filter

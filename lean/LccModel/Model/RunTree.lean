/-
  C19 — the report directory as a TREE of named entries, byte for byte.

  `Model/RunContent.lean` records which KINDS of files a run leaves.  A report directory holds more than the backends'
  files: attachments under any name the test chose (`attachments/0002_device-dump.tmp`), whatever `pre_run` / `post_run`
  hooks and tools write there (nested directories, dot files, symbolic links, empty directories), the
  `report.js.<pid>.tmp` left by a run killed during an atomic save.  `create_report_dir_with_rotation` never looks
  inside a directory and never looks at a NAME inside it: the directory is renamed as it is.  This layer records, for
  every directory ever created at the default location, its whole tree (names of any shape — a name ending in `.tmp`
  is a name like the others —, file contents as bytes, link targets), so that "the previous report becomes archive 1
  INTACT" quantifies over every tree.  Core Lean only.
-/
import LccModel.Model.RunSeq

namespace LccModel.RunSeq

/-- an entry of a directory -/
inductive Node
  | file (bytes : List Nat)
  | link (target : List Char)
  | dir (entries : List (List Char × Node))
deriving Repr, Inhabited

/-- the content of a directory: named entries (any names, any depth) -/
abbrev Tree := List (List Char × Node)

/-- the run-level state plus, for every directory ever created at the default location (by marker), its tree -/
structure StT where
  base : St
  tree : Nat → Tree

def StT.init : StT := { base := RunSeq.init, tree := fun _ => [] }

/-- one run that leaves the tree `t` in its directory (`[]`: console only, no attachment, no hook output): the
    run-level step with `writes := t ≠ []`; the directory the run created at the default location and filled holds `t`;
    the record of every other directory is what it was -/
def runT (c : Cfg) (t : Tree) (s : StT) : Option StT :=
  match run { c with writes := !t.isEmpty } s.base with
  | none => none
  | some b' =>
    some { base := b',
           tree := fun m => if m = s.base.fs.next ∧ b'.filled m = true ∧ b'.fs.next ≠ s.base.fs.next then t else s.tree m }

inductive OpT
  | run (c : Cfg) (t : Tree)
  | other (op : Op)          -- a manual deletion
deriving Repr

def stepT (s : StT) : OpT → Option StT
  | .run c t => runT c t s
  | .other op => (step s.base op).map (fun b' => { s with base := b' })

def runOpsT : StT → List OpT → Option StT
  | s, [] => some s
  | s, op :: ops => match stepT s op with
    | none => none
    | some s' => runOpsT s' ops

/-- does the tree hold, at any depth, a FILE whose name satisfies `p` (e.g. "ends with .tmp")? -/
def Node.hasFile (p : List Char → Bool) : Nat → List Char → Node → Bool
  | _, n, .file _ => p n
  | _, _, .link _ => false
  | 0, _, .dir _ => false
  | fuel + 1, _, .dir es => es.any (fun e => Node.hasFile p fuel e.1 e.2)

def Tree.hasFile (p : List Char → Bool) (t : Tree) : Bool := t.any (fun e => Node.hasFile p 8 e.1 e.2)

/-- the name ends with `.tmp` (what a "remove temporary files" clean-up would match) -/
def endsWithTmp (n : List Char) : Bool := ".tmp".toList.isSuffixOf n

end LccModel.RunSeq

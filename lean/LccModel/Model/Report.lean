/-
  Shared data model of `lemoncheesecake/reporting/report.py` (the report object graph) and of
  `lemoncheesecake/events.py` (the events the session fires and the backends receive).
  Children are kept in *insertion order* (what `_suites` / `_tests` hold); the rank-sorted accessors
  (`get_tests`, `get_suites`) are functions over this data.  Times are integers of milliseconds.
  Core Lean only.
-/
namespace LccModel.Report

abbrev Path := List String          -- node hierarchy: names from the top-level suite down
abbrev Time := Nat                  -- milliseconds (do not feed `Time`-typed terms to `omega`; use Nat)

inductive LogLevel | debug | info | warn | error
deriving DecidableEq, Repr, Inhabited

/-- `StepLog` subclasses: Log, Check, Attachment, Url -/
inductive Entry
  | log (level : LogLevel) (message : String) (time : Time)
  | check (description : String) (ok : Bool) (details : Option String) (time : Time)
  | attachment (description filename : String) (asImage : Bool) (time : Time)
  | url (description url : String) (time : Time)
deriving DecidableEq, Repr, Inhabited

structure Step where
  description : String
  startTime : Option Time
  endTime : Option Time
  entries : List Entry
deriving DecidableEq, Repr, Inhabited

inductive Status | passed | failed | skipped | disabled
deriving DecidableEq, Repr, Inhabited

/-- `Result` (setup / teardown phases, and the result part of a `TestResult`) -/
structure Result where
  steps : List Step
  startTime : Option Time
  endTime : Option Time
  status : Option Status
  statusDetails : Option String
deriving DecidableEq, Repr, Inhabited

/-- metadata shared by tests and suites (`BaseTreeNode`) plus the in-memory `rank` -/
structure Meta where
  name : String
  description : String
  tags : List String
  properties : List (String × String)
  links : List (String × Option String)
  rank : Nat
deriving DecidableEq, Repr, Inhabited

structure TestResult where
  md : Meta
  result : Result
deriving DecidableEq, Repr, Inhabited

inductive SuiteResult
  | mk (md : Meta) (startTime endTime : Option Time) (setup teardown : Option Result)
       (tests : List TestResult) (suites : List SuiteResult)
deriving Repr, Inhabited

namespace SuiteResult
def md : SuiteResult → Meta | mk m _ _ _ _ _ _ => m
def startTime : SuiteResult → Option Time | mk _ s _ _ _ _ _ => s
def endTime : SuiteResult → Option Time | mk _ _ e _ _ _ _ => e
def setup : SuiteResult → Option Result | mk _ _ _ s _ _ _ => s
def teardown : SuiteResult → Option Result | mk _ _ _ _ t _ _ => t
def tests : SuiteResult → List TestResult | mk _ _ _ _ _ ts _ => ts
def suites : SuiteResult → List SuiteResult | mk _ _ _ _ _ _ ss => ss
end SuiteResult

structure Report where
  title : String
  info : List (String × String)
  nbThreads : Nat
  startTime : Option Time
  endTime : Option Time
  savingTime : Option Time
  setup : Option Result            -- test_session_setup
  teardown : Option Result         -- test_session_teardown
  suites : List SuiteResult
deriving Repr, Inhabited

def Report.empty : Report :=
  { title := "Test Report", info := [], nbThreads := 1, startTime := none, endTime := none,
    savingTime := none, setup := none, teardown := none, suites := [] }

/-- `ReportLocation` -/
inductive Loc
  | sessionSetup | sessionTeardown
  | suiteSetup (suite : Path) | suiteTeardown (suite : Path)
  | test (test : Path)
deriving DecidableEq, Repr, Inhabited

/-- The event classes of `events.py`.  A suite/test is identified by its path; the metadata the
    writer copies into the report travels with the start/skipped/disabled events. `tid` is the
    emitting thread's id. -/
inductive Event
  | sessionStart (t : Time) | sessionEnd (t : Time)
  | sessionSetupStart (t : Time) | sessionSetupEnd (t : Time)
  | sessionTeardownStart (t : Time) | sessionTeardownEnd (t : Time)
  | suiteStart (path : Path) (md : Meta) (t : Time) | suiteEnd (path : Path) (t : Time)
  | suiteSetupStart (path : Path) (t : Time) | suiteSetupEnd (path : Path) (t : Time)
  | suiteTeardownStart (path : Path) (t : Time) | suiteTeardownEnd (path : Path) (t : Time)
  | testStart (path : Path) (md : Meta) (t : Time) | testEnd (path : Path) (t : Time)
  | testSkipped (path : Path) (md : Meta) (reason : Option String) (t : Time)
  | testDisabled (path : Path) (md : Meta) (reason : Option String) (t : Time)
  | stepStart (loc : Loc) (description : String) (tid : Nat) (t : Time)
  | stepEnd (loc : Loc) (step : String) (tid : Nat) (t : Time)
  | log (loc : Loc) (step : Option String) (tid : Nat) (level : LogLevel) (message : String) (t : Time)
  | check (loc : Loc) (step : Option String) (tid : Nat) (description : String) (ok : Bool)
          (details : Option String) (t : Time)
  | attachment (loc : Loc) (step : Option String) (tid : Nat) (path description : String)
          (asImage : Bool) (t : Time)
  | url (loc : Loc) (step : Option String) (tid : Nat) (url description : String) (t : Time)
deriving DecidableEq, Repr, Inhabited

/-- `Step._is_log_successful` -/
def Entry.ok : Entry → Bool
  | .check _ ok _ _ => ok
  | .log level _ _ => level != .error
  | _ => true

/-- `Step.is_successful` -/
def Step.ok (s : Step) : Bool := s.entries.all Entry.ok

/-- `Result.is_successful` -/
def Result.ok (r : Result) : Bool :=
  match r.status with
  | some st => st == .passed || st == .disabled
  | none => r.steps.all Step.ok

end LccModel.Report

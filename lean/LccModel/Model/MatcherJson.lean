/-
  JSON encoding of the M12 syntax (values, public-API expressions) shared by `drivers/C16.lean` and
  `drivers/C17.lean`, and the request handler both use.  Core Lean only.

  Val  : null | true | false | ["i", n] | ["f", h] (the float h/2) | ["nan", source] (a float NaN; the source is ignored) | ["s", text] | ["l", [Val…]] | ["d", [[key, Val]…]]
         key : "text" (a str key) | null | true | false | ["i", n] | ["f", h]
  Expr : [constructor, args…]   e.g. ["all_of", [["is_not_none"], ["greater_than", ["i", 0]]]]
-/
import Lean.Data.Json
import LccModel.Model.Matcher

namespace LccModel.MatcherJson
open Lean LccModel.Matcher

def str (s : Str) : Json := Json.str (String.ofList s)

def getInt (j : Json) : Except String Int := j.getInt?

/-- a dict key: a JSON string is a `str` key; the other scalars use the value syntax (`null`, `true`, `["i", 1]`, `["f", 3]`) -/
def parseDKey (j : Json) : Except String DKey :=
  match j with
  | .str s => pure (.str s.toList)
  | .null => pure .none
  | .bool b => pure (.bool b)
  | .arr a => do
    let tag ← (a[0]?.getD Json.null).getStr?
    let x := a[1]?.getD Json.null
    match tag with
    | "i" => pure (.int (← getInt x))
    | "f" => pure (.float (← getInt x))
    | "s" => pure (.str (← x.getStr?).toList)
    | t => throw s!"unknown key tag {t}"
  | _ => throw "bad dict key"

partial def parseVal (j : Json) : Except String Val :=
  match j with
  | .null => pure .none
  | .bool b => pure (.bool b)
  | .arr a => do
    let tag ← (a[0]?.getD Json.null).getStr?
    let x := a[1]?.getD Json.null
    match tag with
    | "i" => pure (.int (← getInt x))
    | "f" => pure (.float (← getInt x))
    | "nan" => pure .nan                      -- ["nan", source]: the source / identity of the NaN object means nothing to the model
    | "s" => pure (.str (← x.getStr?).toList)
    | "l" => do
      let xs ← (← x.getArr?).toList.mapM parseVal
      pure (.list xs)
    | "d" => do
      let kvs : List (DKey × Val) ← (← x.getArr?).toList.mapM fun e => do
        let p ← e.getArr?
        let k ← parseDKey (p[0]?.getD Json.null)
        let v ← parseVal (p[1]?.getD Json.null)
        pure (k, v)
      pure (.dict (kvs.map Prod.fst) (kvs.map Prod.snd))
    | t => throw s!"unknown value tag {t}"
  | _ => throw "bad value"

def parseNum (j : Json) : Except String Num := do
  let a ← j.getArr?
  let tag ← (a[0]?.getD Json.null).getStr?
  let n ← getInt (a[1]?.getD Json.null)
  match tag with
  | "i" => pure (.int n)
  | "f" => pure (.float n)
  | t => throw s!"unknown number tag {t}"

def parseKey (j : Json) : Except String Key :=
  match j with
  | .str s => pure (.str s.toList)
  | _ => do pure (.int (← getInt j))

def parseTy (j : Json) : Except String TyM := do
  match (← j.getStr?) with
  | "int" => pure .int | "float" => pure .float | "str" => pure .str
  | "dict" => pure .dict | "list" => pure .list | "bool" => pure .bool
  | t => throw s!"unknown type {t}"

partial def parseExpr (j : Json) : Except String Expr := do
  let a ← j.getArr?
  let c ← (a[0]?.getD Json.null).getStr?
  let x := a[1]?.getD Json.null
  let y := a[2]?.getD Json.null
  let vals (j : Json) : Except String (List Val) := do (← j.getArr?).toList.mapM parseVal
  let keys (j : Json) : Except String (List Key) := do (← j.getArr?).toList.mapM parseKey
  let exprs (j : Json) : Except String (List Expr) := do (← j.getArr?).toList.mapM parseExpr
  let text (j : Json) : Except String Str := do pure (← j.getStr?).toList
  match c with
  | "val" => pure (.val (← parseVal x))
  | "is_" => pure (.is_ (← parseExpr x))
  | "not_" => pure (.not_ (← parseExpr x))
  | "equal_to" => pure (.equal_to (← parseVal x))
  | "not_equal_to" => pure (.not_equal_to (← parseVal x))
  | "greater_than" => pure (.greater_than (← parseVal x))
  | "greater_than_or_equal_to" => pure (.greater_than_or_equal_to (← parseVal x))
  | "less_than" => pure (.less_than (← parseVal x))
  | "less_than_or_equal_to" => pure (.less_than_or_equal_to (← parseVal x))
  | "is_between" => pure (.is_between (← parseNum x) (← parseNum y))
  | "is_none" => pure .is_none
  | "is_not_none" => pure .is_not_none
  | "is_true" => pure .is_true
  | "is_false" => pure .is_false
  | "has_length" => pure (.has_length (← parseExpr x))
  | "starts_with" => pure (.starts_with (← text x))
  | "ends_with" => pure (.ends_with (← text x))
  | "contains_string" => pure (.contains_string (← text x))
  | "has_item" => pure (.has_item (← parseExpr x))
  | "has_items" => pure (.has_items (← vals x))
  | "has_only_items" => pure (.has_only_items (← vals x))
  | "has_all_items" => pure (.has_all_items (← parseExpr x))
  | "is_in" => pure (.is_in (← vals x))
  | "has_entry" => pure (.has_entry (← keys x) (← parseExpr y))
  | "has_key" => pure (.has_key (← keys x))
  | "is_type" => pure (.is_type (← parseTy x) (← parseExpr y))
  | "is_type_any" => pure (.is_type_any (← parseTy x))
  | "all_of" => pure (.all_of (← exprs x))
  | "any_of" => pure (.any_of (← exprs x))
  | "anything" => pure .anything
  | "something" => pure .something
  | "existing" => pure .existing
  | "present" => pure .present
  | "hide" => pure (.hide_result_details (← parseExpr x))
  | "override" => pure (.override_description (← text x) (← parseExpr y))
  | t => throw s!"unknown constructor {t}"

def optStrJ : Option Str → Json
  | none => Json.null
  | some s => str s

def errName : PyErr → String
  | .typeError => "TypeError"

def outcomeJ : Outcome → Json
  | .error e => Json.mkObj [("error", Json.str (errName e))]
  | .ok r => Json.mkObj [("ok", Json.bool r.ok), ("details", optStrJ r.details)]

def boolEJ : Except PyErr Bool → Json
  | .error e => Json.str (errName e)
  | .ok b => Json.bool b

def trJ (t : Tr) : Json := Json.mkObj [("conjugate", Json.bool t.conjugate), ("negative", Json.bool t.negative)]

def checkJ (c : Check) : Json :=
  Json.mkObj [("description", str c.description), ("ok", Json.bool c.ok), ("details", optStrJ c.details)]

def opResultJ : OpResult → Json
  | .returned r => Json.mkObj [("returned", outcomeJ (.ok r))]
  | .abortTest => Json.mkObj [("raised", Json.str "AbortTest")]
  | .pyError e => Json.mkObj [("raised", Json.str (errName e))]
  | .indexError => Json.mkObj [("raised", Json.str "IndexError")]

def opJ (p : List Check × OpResult) : Json :=
  Json.mkObj [("log", Json.arr (p.1.map checkJ).toArray), ("result", opResultJ p.2)]

/-- request `{ops: [{op, expr, value, hint?, quiet?}…]}`: the operations applied in sequence to one check
    log, starting from the empty log; per operation the checks it appended and what it did to its caller. -/
def handleOps (ops : Array Json) : Except String Json := do
  let mut log : List Check := []
  let mut out : Array Json := #[]
  for o in ops do
    let e ← parseExpr (← o.getObjVal? "expr")
    let v ← parseVal (← o.getObjVal? "value")
    let hint := match o.getObjVal? "hint" with
      | .ok (.str s) => some s.toList
      | _ => none
    let quiet := match o.getObjVal? "quiet" with
      | .ok (.bool b) => b
      | _ => false
    let m := build e
    let p ← match (← (← o.getObjVal? "op").getStr?) with
      | "check" => pure (checkThat hint v m quiet log)
      | "require" => pure (requireThat hint v m quiet log)
      | "assert" => pure (assertThat hint v m quiet log)
      | t => throw s!"unknown operation {t}"
    let added := p.1.drop log.length
    out := out.push (Json.mkObj [("checks", Json.arr (added.map checkJ).toArray), ("result", opResultJ p.2),
                                 ("prefix_kept", Json.bool (p.1.take log.length == log))])
    log := p.1
  pure (Json.mkObj [("steps", Json.arr out), ("log_length", Json.num log.length)])

/-- request `{expr, tr?: {conjugate, negative}, value?, hint?, quiet?}`: the description (text and the
    state of the transformer object afterwards), and — if a value is given — the match outcome, the
    reference semantics, and what the three operations do on an empty check log. -/
def handle (j : Json) : Except String Json := do
  if let .ok (.arr ops) := j.getObjVal? "ops" then return (← handleOps ops)
  if let .ok (.arr es) := j.getObjVal? "exprs" then
    -- request `{exprs: [Expr…]}`: the descriptions under `MatcherDescriptionTransformer()`
    let ds ← es.mapM fun ej => do
      let e ← parseExpr ej
      pure (str (describeSt false (build e) Tr.plain).1)
    return Json.mkObj [("descs", Json.arr ds)]
  let e ← parseExpr (← j.getObjVal? "expr")
  let m := build e
  let t : Tr ← match j.getObjVal? "tr" with
    | .ok (.obj _) => do
      let tj ← j.getObjVal? "tr"
      pure ⟨← (← tj.getObjVal? "conjugate").getBool?, ← (← tj.getObjVal? "negative").getBool?⟩
    | _ => pure Tr.plain
  let d := describeSt false m t
  let base := [("desc", str d.1), ("tr_after", trJ d.2), ("desc_pure", str (describe m t)),
               ("short", str (shortDescribe m t))]
  match j.getObjVal? "value" with
  | .error _ => pure (Json.mkObj base)
  | .ok vj => do
    let v ← parseVal vj
    let hint ← match j.getObjVal? "hint" with
      | .ok (.str s) => pure (some s.toList)
      | _ => pure none
    let quiet ← match j.getObjVal? "quiet" with
      | .ok (.bool b) => pure b
      | _ => pure false
    pure (Json.mkObj (base ++ [
      ("res", outcomeJ (matchOf m v)),
      ("sem", boolEJ (sem m v)),
      ("check", opJ (checkThat hint v m quiet [])),
      ("require", opJ (requireThat hint v m quiet [])),
      ("assert", opJ (assertThat hint v m quiet []))]))

end LccModel.MatcherJson

/-
  Which fixture names does a callable need?  Model of `lemoncheesecake/helpers/introspection.py:get_callable_args`,
  the ONE function through which the framework reads the parameters of a test callback (`Test.get_arguments`),
  of a fixture function (`load_fixtures_from_func`) and of the `setup_suite` hook (`Suite.get_fixtures`,
  `Suite.get_hook_params`), and of the declaration-time verdict of `@lcc.fixture(scope=…, per_thread=…)` followed by
  `PreparedProject.create` (`prepareFull`).

  A callable is described by HOW IT WAS WRITTEN, not by introspection:
    * `kind`    — what sort of object is handed to the framework;
    * `params`  — the positional parameters written in the `def` / `lambda` of the object that is really CALLED
                  (for a method or a `__call__`: including the leading `self`; `*args` / `**kwargs` / keyword-only
                  parameters contribute no name);
    * `wrapped` — when the object was produced by a `functools.wraps`-based decorator (`@mock.patch(...)`, a decorator
                  supplying or renaming arguments): the positional parameters of the function it wraps (`__wrapped__`).
  The code uses `inspect.getfullargspec`, which does NOT follow `__wrapped__`: the answer is the own positional
  parameters of the called object, minus the bound `self`.  Core Lean only.
-/
import LccModel.Model.Inject
import LccModel.Model.FixtureDecl

namespace LccModel.Callable

inductive Kind where
  | function        -- `def` / `lambda` at module level, a `@staticmethod` read from anywhere, a plain function read from a class
  | boundMethod     -- a method read from an instance (test method of a suite object, fixture of a holder object, classmethod)
  | callableObject  -- an instance of a class defining `__call__(self, …)`: the framework takes `obj.__call__`, a bound method
  | partialObject   -- a `functools.partial`: not a routine, `partial.__call__` is a slot wrapper `(self, /, *args, **kwargs)`
deriving DecidableEq, Repr

structure Callable where
  kind : Kind
  params : List String
  wrapped : Option (List String) := none
deriving DecidableEq, Repr

/-- `get_callable_args(cb)` -/
def neededArgs (c : Callable) : List String :=
  match c.kind with
  | .function => c.params
  | .boundMethod => c.params.drop 1
  | .callableObject => c.params.drop 1
  | .partialObject => ["self"]       -- `getfullargspec(partial.__call__).args`; `ismethod` is false for a slot wrapper

/-- the keyword arguments the framework passes when it calls the callable: one per needed name
    (`test.callback(**params)`, `fixture.func(**params)`, `setup_suite(**params)`) -/
def callKeywords (c : Callable) : List String := neededArgs c

/-- a test of the fixture machinery whose arguments are READ from its callable -/
def testOf (path : String) (fn : Callable) (parameters : List String) (disabled : Bool) : Fixture.Test :=
  ⟨path, neededArgs fn, parameters, disabled⟩

/-- a fixture declaration whose parameters are READ from its callable -/
structure CDecl where
  names : List String
  scope : Fixture.Scope
  perThread : Bool
  fn : Callable
deriving Repr

def CDecl.lower (d : CDecl) : Fixture.Decl := ⟨d.names, d.scope, d.perThread, neededArgs d.fn⟩

end LccModel.Callable

namespace LccModel.Prepare
open LccModel.Inject

/-- outcome classes of `lcc check` / `lcc run` BEFORE anything executes: a fixture declaration refused by the
    `@lcc.fixture` decorator while the fixture files are imported (`FixtureLoadingError` / `ModuleImportError` around
    the decorator's `AssertionError`), or a `ValidationError` of `PreparedProject.create` -/
inductive PrepErr where
  | declRefused (names : List String)
  | validation (e : ValidationErr)
deriving Repr

def PrepErr.isRejection : PrepErr → Bool
  | .declRefused _ => true
  | .validation e => e.isValidation

/-- `project.load_fixtures()`: every decorated function is evaluated — the first refused declaration aborts the import -/
def checkDecls : List Fixture.Decl → Except PrepErr Unit
  | [] => .ok ()
  | d :: rest => if Fixture.declAllowed d.scope d.perThread then checkDecls rest else .error (.declRefused d.names)

/-- `PreparedProject.create` on a project whose fixture declarations go through the real decorator: the suites are
    loaded, the metadata policy and the test dependencies are checked FIRST (their errors win), then the fixtures are
    loaded (a refused declaration stops here), then the registry checks. -/
def prepareFull (p : DProject) : Except PrepErr Prepared :=
  match prepareD p with
  | .error (.policy e) => .error (.validation (.policy e))
  | .error (.deps e) => .error (.validation (.deps e))
  | r =>
    match checkDecls p.decls with
    | .error e => .error e
    | .ok () =>
      match r with
      | .ok v => .ok v
      | .error e => .error (.validation e)

end LccModel.Prepare

/-
  How a run ENDS for its caller — model of the tail of `task.run_tasks` and `runner._run_suites`
  (lemoncheesecake/task.py, lemoncheesecake/runner.py):

      try:   … dispatch loop …
      except KeyboardInterrupt:                       -- Ctrl-C while the caller waits for a completion
          context.enable_task_abort(); skip_all_tasks(…)      -- swallowed: the remaining tasks are skipped
      finally: pool.close()
      if some task.result is a TaskResultException:   raise LemoncheesecakeException(internal error)

      with session.event_manager.handle_events():
          session.start_test_session(); run_tasks(…); session.end_test_session()
      exception, text = session.event_manager.get_pending_failure()
      if exception:  raise <an error carrying `text`>          -- C11: the backend failure reaches the caller
      (run_suites then returns `report.is_successful()`)

  What becomes the pending failure — model of `AsyncEventManager._handler_loop` (lemoncheesecake/events.py, after fix D42):

      try:    self.handle_event(event)               -- `for handler in handlers: handler(event)`
      except BaseException as excp:   self._pending_failure = excp, <text>;  break
      finally: self._queue.task_done()

  EVERY exception a handler raises is recorded: the classes the iteration protocols treat specially (StopIteration,
  StopAsyncIteration) like any other Exception, and — since fix D42 (`except BaseException`; before, `except Exception` let
  them kill the event-handling thread silently) — the BaseExceptions that are no Exception (GeneratorExit, SystemExit,
  KeyboardInterrupt raised INSIDE a handler, on the event-handling thread).  `_run_suites` then raises an error carrying the
  text: an instance of the failure's own class when that class is an Exception (and can be built from one message), a
  `LemoncheesecakeException` otherwise — a backend's `sys.exit()` must not end the caller's process.

  The facts this decision reads are finite; the table obtained by executing the real `run_suites` on every
  combination of (keyboard interrupt, reporting-backend failure) is re-proved equal to `outcome` on every run
  (`Generated/C11TablesCheck.lean: run_outcome_table_agrees`).  Core Lean only.
-/
namespace LccModel.RunOutcome

structure Facts where
  /-- a KeyboardInterrupt reached `run_tasks` (before or after the backend failure) -/
  interrupted : Bool
  /-- some task ended with a `TaskResultException` (an exception escaped `task.run` itself: runner defect) -/
  taskException : Bool
  /-- the pending failure of the event manager: the text of the first exception a backend handler raised -/
  pending : Option String
  /-- `report.is_successful()` at the end of the run -/
  successful : Bool
deriving Repr, DecidableEq

/-- the class of what a backend handler raised, as far as `_handler_loop` can tell classes apart -/
inductive FaultClass
  | exception            -- Exception and every subclass not named below (KeyError, OSError, user-defined, …)
  | stopIteration | stopAsyncIteration      -- Exceptions with a meaning for `next` / `list(map(..))` / `async for`
  | generatorExit | systemExit | keyboardInterrupt     -- BaseExceptions that are no Exception
deriving Repr, DecidableEq

def FaultClass.ofName (n : String) : FaultClass :=
  if n == "StopIteration" then .stopIteration else if n == "StopAsyncIteration" then .stopAsyncIteration
  else if n == "GeneratorExit" then .generatorExit else if n == "SystemExit" then .systemExit
  else if n == "KeyboardInterrupt" then .keyboardInterrupt else .exception

/-- `isinstance(excp, Exception)` (read by `_run_suites` when it re-raises the pending failure) -/
def FaultClass.isException : FaultClass → Bool
  | .generatorExit | .systemExit | .keyboardInterrupt => false
  | _ => true

/-- `_handler_loop` (`except BaseException`, fix D42): the pending failure after a handler raised an instance of class
    `c` with text `text` (none pending before) — recorded whatever the class -/
def pendingAfter (_c : FaultClass) (text : String) : Option String := some text

/-- `_run_suites`: the error raised to the caller is a `LemoncheesecakeException` (not an instance of the failure's own
    class) when the pending failure is not an `Exception` — SystemExit / KeyboardInterrupt / GeneratorExit never reach the
    caller as such -/
def reraisedAsFrameworkError (c : FaultClass) : Bool := !c.isException

inductive TasksEnd | returns | raisesInternal | raisesKeyboardInterrupt
deriving Repr, DecidableEq

/-- `run_tasks`: the keyboard interrupt is handled inside (flag, skip everything that remains, wait) and does
    not leave the function; internal task exceptions are raised once every task has completed -/
def runTasksEnd (f : Facts) : TasksEnd :=
  if f.taskException then .raisesInternal else .returns

inductive Outcome
  | raisedBackendError (text : String)     -- an error carrying the backend's original text
  | raisedInternal                         -- LemoncheesecakeException about a task that raised by itself
  | raisedKeyboardInterrupt
  | returned (ok : Bool)
deriving Repr, DecidableEq

/-- `_run_suites` + the end of `run_suites` -/
def outcome (f : Facts) : Outcome :=
  match runTasksEnd f with
  | .raisesInternal => .raisedInternal               -- leaves the `with handle_events()` block by the exception
  | .raisesKeyboardInterrupt => .raisedKeyboardInterrupt
  | .returns =>
    match f.pending with
    | some text => .raisedBackendError text
    | none => .returned f.successful

def Outcome.name : Outcome → String
  | .raisedBackendError t => "raised-backend-error:" ++ t
  | .raisedInternal => "raised-internal"
  | .raisedKeyboardInterrupt => "raised-KeyboardInterrupt"
  | .returned true => "returned:true"
  | .returned false => "returned:false"

end LccModel.RunOutcome

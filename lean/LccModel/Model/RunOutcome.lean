/-
  How a run ENDS for its caller — model of the tail of `task.run_tasks` and `runner._run_suites`
  (lemoncheesecake/task.py, lemoncheesecake/runner.py):

      try:   … dispatch loop …
      except KeyboardInterrupt:                       -- Ctrl-C while the caller waits for a completion
          context.enable_task_abort(); skip_all_tasks(…)      -- swallowed: the remaining tasks are skipped
      finally: pool.close()
      if some task.result is a TaskResultException:   raise LemoncheesecakeException(internal error)

      with session.event_manager.handle_events():
          session.start_test_session(); run_tasks(…); session.end_test_session()
      exception, text = session.event_manager.get_pending_failure()
      if exception:  raise <an error carrying `text`>          -- C11: the backend failure reaches the caller
      (run_suites then returns `report.is_successful()`)

  The facts this decision reads are finite; the table obtained by executing the real `run_suites` on every
  combination of (keyboard interrupt, reporting-backend failure) is re-proved equal to `outcome` on every run
  (`Generated/C11TablesCheck.lean: run_outcome_table_agrees`).  Core Lean only.
-/
namespace LccModel.RunOutcome

structure Facts where
  /-- a KeyboardInterrupt reached `run_tasks` (before or after the backend failure) -/
  interrupted : Bool
  /-- some task ended with a `TaskResultException` (an exception escaped `task.run` itself: runner defect) -/
  taskException : Bool
  /-- the pending failure of the event manager: the text of the first exception a backend handler raised -/
  pending : Option String
  /-- `report.is_successful()` at the end of the run -/
  successful : Bool
deriving Repr, DecidableEq

inductive TasksEnd | returns | raisesInternal | raisesKeyboardInterrupt
deriving Repr, DecidableEq

/-- `run_tasks`: the keyboard interrupt is handled inside (flag, skip everything that remains, wait) and does
    not leave the function; internal task exceptions are raised once every task has completed -/
def runTasksEnd (f : Facts) : TasksEnd :=
  if f.taskException then .raisesInternal else .returns

inductive Outcome
  | raisedBackendError (text : String)     -- an error carrying the backend's original text
  | raisedInternal                         -- LemoncheesecakeException about a task that raised by itself
  | raisedKeyboardInterrupt
  | returned (ok : Bool)
deriving Repr, DecidableEq

/-- `_run_suites` + the end of `run_suites` -/
def outcome (f : Facts) : Outcome :=
  match runTasksEnd f with
  | .raisesInternal => .raisedInternal               -- leaves the `with handle_events()` block by the exception
  | .raisesKeyboardInterrupt => .raisedKeyboardInterrupt
  | .returns =>
    match f.pending with
    | some text => .raisedBackendError text
    | none => .returned f.successful

def Outcome.name : Outcome → String
  | .raisedBackendError t => "raised-backend-error:" ++ t
  | .raisedInternal => "raised-internal"
  | .raisedKeyboardInterrupt => "raised-KeyboardInterrupt"
  | .returned true => "returned:true"
  | .returned false => "returned:false"

end LccModel.RunOutcome

/-
  M10 (second half, a) — `reporting/replay.py`: a report regenerated as an event stream, depth first,
  with the original timestamps, on ONE thread id.

  This file mirrors the code WITH the candidate fix `fixes/D6-replay-unfinished-step.diff` applied
  (`_replay_step` fires `StepEndEvent` only `if step.end_time:`, like every other end event).
  The unfixed behaviour is kept as `replayStepUnfixed` for the refutation theorem of C18.

  `Event.__init__` stores `event_time or time.time()`: a missing or ZERO time becomes "now" (`evTime`);
  `now` is a parameter.  End events are guarded by Python truthiness (`if x.end_time:`), so an end time of
  0.0 counts as "not ended" (`Writer.truthyTime`).
  Core Lean only.
-/
import LccModel.Model.Report
import LccModel.Model.Writer

namespace LccModel.Replay
open LccModel.Report LccModel.Writer

/-- `event_time or time.time()` -/
def evTime (now : Time) : Option Time → Time
  | some t => if t = 0 then now else t
  | none => now

def entryEvent (now : Time) (tid : Nat) (loc : Loc) (stepDesc : String) : Entry → Event
  | .log level msg t => .log loc (some stepDesc) tid level msg (evTime now (some t))
  | .check d ok det t => .check loc (some stepDesc) tid d ok det (evTime now (some t))
  | .attachment d f img t => .attachment loc (some stepDesc) tid f d img (evTime now (some t))
  | .url d u t => .url loc (some stepDesc) tid u d (evTime now (some t))

def endEvent (t : Option Time) (mk : Time → Event) : List Event :=
  match t with
  | some t => if t != 0 then [mk t] else []
  | none => []

/-- `_replay_step` (fixed: the end event is guarded) -/
def replayStep (now : Time) (tid : Nat) (loc : Loc) (s : Step) : List Event :=
  [.stepStart loc s.description tid (evTime now s.startTime)]
  ++ s.entries.map (entryEvent now tid loc s.description)
  ++ endEvent s.endTime (fun t => .stepEnd loc s.description tid t)

/-- `_replay_step` as it is in the unchanged tree (D6): the end event is fired unconditionally, and
    `StepEndEvent(event_time=None)` carries "now". -/
def replayStepUnfixed (now : Time) (tid : Nat) (loc : Loc) (s : Step) : List Event :=
  [.stepStart loc s.description tid (evTime now s.startTime)]
  ++ s.entries.map (entryEvent now tid loc s.description)
  ++ [.stepEnd loc s.description tid (evTime now s.endTime)]

/-- `_replay_steps_events` -/
def replaySteps (now : Time) (tid : Nat) (loc : Loc) (steps : List Step) : List Event :=
  steps.flatMap (replayStep now tid loc)

/-- a setup / teardown phase: start, steps, guarded end -/
def replayPhase (now : Time) (tid : Nat) (loc : Loc) (start end_ : Time → Event) : Option Result → List Event
  | none => []
  | some r => [start (evTime now r.startTime)] ++ replaySteps now tid loc r.steps ++ endEvent r.endTime end_

/-- `_replay_test_events`; `p` is the path of the test's suite -/
def replayTest (now : Time) (tid : Nat) (p : Path) (t : TestResult) : List Event :=
  let tp := p ++ [t.md.name]
  match t.result.status with
  | some .skipped => [.testSkipped tp t.md t.result.statusDetails (evTime now t.result.startTime)]
  | some .disabled => [.testDisabled tp t.md t.result.statusDetails (evTime now t.result.startTime)]
  | _ =>
    [.testStart tp t.md (evTime now t.result.startTime)] ++ replaySteps now tid (.test tp) t.result.steps
    ++ endEvent t.result.endTime (fun e => .testEnd tp e)

mutual
/-- `_replay_suite_events` on a suite whose children are in accessor order; `parent` is the path of the
    enclosing suite (`[]` at top level) -/
def replaySuite (now : Time) (tid : Nat) (parent : Path) : SuiteResult → List Event
  | .mk md st en su td ts ss =>
    let p := parent ++ [md.name]
    [.suiteStart p md (evTime now st)]
    ++ replayPhase now tid (.suiteSetup p) (fun t => .suiteSetupStart p t) (fun t => .suiteSetupEnd p t) su
    ++ ts.flatMap (replayTest now tid p)
    ++ replaySuites now tid p ss
    ++ replayPhase now tid (.suiteTeardown p) (fun t => .suiteTeardownStart p t) (fun t => .suiteTeardownEnd p t) td
    ++ endEvent en (fun t => .suiteEnd p t)
def replaySuites (now : Time) (tid : Nat) (parent : Path) : List SuiteResult → List Event
  | [] => []
  | s :: ss => replaySuite now tid parent s ++ replaySuites now tid parent ss
end

/-- `replay_report_events(report, eventmgr)`: the fired events in order -/
def replay (now : Time) (tid : Nat) (r : Report) : List Event :=
  [.sessionStart (evTime now r.startTime)]
  ++ replayPhase now tid .sessionSetup .sessionSetupStart .sessionSetupEnd r.setup
  ++ replaySuites now tid [] (view r)
  ++ replayPhase now tid .sessionTeardown .sessionTeardownStart .sessionTeardownEnd r.teardown
  ++ endEvent r.endTime .sessionEnd

/-! ### what the aggregation of the replayed stream is (`Writer.fold ∘ replay`), written down directly -/

def keepEnd : Option Time → Option Time
  | some t => if t != 0 then some t else none
  | none => none

def entryImage (now : Time) : Entry → Entry
  | .log level msg t => .log level msg (evTime now (some t))
  | .check d ok det t => .check d ok det (evTime now (some t))
  | .attachment d f img t => .attachment d f img (evTime now (some t))
  | .url d u t => .url d u (evTime now (some t))

def stepImage (now : Time) (s : Step) : Step :=
  { description := s.description, startTime := some (evTime now s.startTime), endTime := keepEnd s.endTime,
    entries := s.entries.map (entryImage now) }

/-- a started result: the status is recomputed by `_finalize_result` when an end event is replayed -/
def resultImage (now : Time) (r : Result) : Result :=
  let steps := r.steps.map (stepImage now)
  match keepEnd r.endTime with
  | some e => { steps := steps, startTime := some (evTime now r.startTime), endTime := some e,
                status := some (if steps.all Step.ok then .passed else .failed), statusDetails := none }
  | none => { steps := steps, startTime := some (evTime now r.startTime), endTime := none, status := none,
              statusDetails := none }

def testImage (now : Time) (t : TestResult) : TestResult :=
  match t.result.status with
  | some .skipped => bypassTest t.md .skipped t.result.statusDetails (evTime now t.result.startTime)
  | some .disabled => bypassTest t.md .disabled t.result.statusDetails (evTime now t.result.startTime)
  | _ => { md := t.md, result := resultImage now t.result }

mutual
def suiteImage (now : Time) : SuiteResult → SuiteResult
  | .mk md st en su td ts ss =>
    .mk md (some (evTime now st)) (keepEnd en) (su.map (resultImage now)) (td.map (resultImage now))
      (ts.map (testImage now)) (suiteImages now ss)
def suiteImages (now : Time) : List SuiteResult → List SuiteResult
  | [] => []
  | s :: ss => suiteImage now s :: suiteImages now ss
end

/-- the report a fresh `ReportWriter` over `r0` builds from `replay now tid r` -/
def replayImage (now : Time) (r0 r : Report) : Report :=
  { r0 with startTime := some (evTime now r.startTime), endTime := (keepEnd r.endTime).or r0.endTime,
            setup := (r.setup.map (resultImage now)).or r0.setup,
            teardown := (r.teardown.map (resultImage now)).or r0.teardown,
            suites := r0.suites ++ suiteImages now (view r) }

/-! ### the reports replay reproduces exactly -/

def realTime : Option Time → Bool
  | some t => t != 0
  | none => false

def endOk : Option Time → Bool
  | some t => t != 0
  | none => true

def entryTime : Entry → Time
  | .log _ _ t => t
  | .check _ _ _ t => t
  | .attachment _ _ _ t => t
  | .url _ _ t => t

def stepExact (s : Step) : Bool := realTime s.startTime && endOk s.endTime && s.entries.all (fun e => entryTime e != 0)

/-- a started result as the writer leaves it: real times; finished ⇔ it has a status, which then is the
    verdict of its own logs; no status details -/
def resultExact (r : Result) : Bool :=
  realTime r.startTime && endOk r.endTime && r.steps.all stepExact && r.statusDetails == none
  && (match r.endTime with
      | some _ => r.status == some (if r.steps.all Step.ok then .passed else .failed)
      | none => r.status == none)

def optResultExact : Option Result → Bool
  | none => true
  | some r => resultExact r

def testExact (t : TestResult) : Bool :=
  match t.result.status with
  | some .skipped | some .disabled =>
    realTime t.result.startTime && t.result.steps.isEmpty && t.result.endTime == t.result.startTime
  | _ => resultExact t.result

mutual
def suiteExact : SuiteResult → Bool
  | .mk _ st en su td ts ss =>
    realTime st && endOk en && optResultExact su && optResultExact td && ts.all testExact && suitesExact ss
def suitesExact : List SuiteResult → Bool
  | [] => true
  | s :: ss => suiteExact s && suitesExact ss
end

/-- Exactly the reports for which `fold ∘ replay` is the identity (up to the order/rank normalisation
    `view` and the report-level fields events do not carry): every time that travels in an event is a real
    (non-zero) time, end times are absent or real, and every result is as `ReportWriter` leaves it —
    status = verdict of its logs once ended, none while in progress, skipped/disabled tests without steps
    and with `end_time == start_time`, `status_details` only on skipped/disabled tests. -/
def replayExact (r : Report) : Bool :=
  realTime r.startTime && endOk r.endTime && optResultExact r.setup && optResultExact r.teardown && suitesExact r.suites

/-! ### finished reports: every item has a real end time -/

def stepFinished (s : Step) : Bool := realTime s.endTime
def resultFinished (r : Result) : Bool := realTime r.endTime && r.steps.all stepFinished
def optResultFinished : Option Result → Bool
  | none => true
  | some r => resultFinished r
def testFinished (t : TestResult) : Bool :=
  match t.result.status with
  | some .skipped | some .disabled => true
  | _ => resultFinished t.result

mutual
def suiteFinished : SuiteResult → Bool
  | .mk _ _ en su td ts ss =>
    realTime en && optResultFinished su && optResultFinished td && ts.all testFinished && suitesFinished ss
def suitesFinished : List SuiteResult → Bool
  | [] => true
  | s :: ss => suiteFinished s && suitesFinished ss
end

/-- the report of a run that ended: session, suites, results and steps all carry a real end time -/
def finished (r : Report) : Bool :=
  realTime r.endTime && optResultFinished r.setup && optResultFinished r.teardown && suitesFinished r.suites

def suiteNames (ss : List SuiteResult) : List String := ss.map (fun s => s.md.name)

mutual
/-- sibling suites have distinct names (the writer addresses a suite by its path and takes the first
    match) and tests within a suite too (`_tests` is a dict) -/
def suiteNamesOk : SuiteResult → Bool
  | .mk _ _ _ _ _ ts ss =>
    distinctNames (ts.map (fun t => t.md.name)) && distinctNames (suiteNames ss) && suitesNamesOk ss
def suitesNamesOk : List SuiteResult → Bool
  | [] => true
  | s :: ss => suiteNamesOk s && suitesNamesOk ss
end

def namesOk (r : Report) : Bool := distinctNames (suiteNames r.suites) && suitesNamesOk r.suites

end LccModel.Replay

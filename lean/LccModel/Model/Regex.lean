/-
  `Regex` — executable model of what `--grep` does with ONE text: `re.compile(p, re.IGNORECASE | re.MULTILINE).search(text)`
  (`lemoncheesecake/filter.py: _make_grep_criterion`, `_grep`), for the fragment of Python's `re` syntax that
  denotes a regular language with line/string anchors:

    literals (case-insensitive), `.`, bracket expressions (negated or not; single characters, ranges, the
    categories `\s \S \d \D \w \W`), the same categories outside brackets, `^ $ \A \Z \b \B`,
    concatenation, `|`, groups, `* + ? {m,n}` (greedy or lazy: the same for a yes/no answer).

  Out of the fragment (the harness never sends them): back-references, look-around, conditionals, atomic /
  possessive constructs, inline flags.

  Core Lean only.  Text is a list of code points.  The matcher is a Brzozowski-derivative matcher whose
  nullability test sees the characters around the current position, so the zero-width assertions are exact:
    `^`  start of text or just after a newline      `$`  end of text or just before a newline   (MULTILINE)
    `\A` start of text only                          `\Z` end of text only
  The declarative semantics (`Matches`) and the proof that the matcher decides it are in `Lemmas/Regex.lean`.

  Validated against Python on ASCII letters for case pairs, on every code point below U+3100 for `\s`, on
  ASCII for `\d` and `\w` (the harness keeps other alphanumerics / cased characters out of regex cases).
-/

namespace LccModel.Regex

abbrev Str := List Nat

def cNL : Nat := 10

def lowerAscii (c : Nat) : Nat := if 65 ≤ c ∧ c ≤ 90 then c + 32 else c
def upperAscii (c : Nat) : Nat := if 97 ≤ c ∧ c ≤ 122 then c - 32 else c

/-! ## Character sets -/

inductive Cat where
  | space | digit | word
deriving Repr, DecidableEq

/-- `str.isspace()` as `\s` uses it (`Py_UNICODE_ISSPACE`). -/
def isSpace (c : Nat) : Bool :=
  (decide (9 ≤ c) && decide (c ≤ 13)) || (decide (28 ≤ c) && decide (c ≤ 32)) || c == 0x85 || c == 0xa0 || c == 0x1680
    || (decide (0x2000 ≤ c) && decide (c ≤ 0x200a)) || c == 0x2028 || c == 0x2029 || c == 0x202f || c == 0x205f
    || c == 0x3000

/-- `\d` on ASCII. -/
def isDigit (c : Nat) : Bool := decide (48 ≤ c) && decide (c ≤ 57)

/-- `\w` on ASCII. -/
def isWord (c : Nat) : Bool :=
  isDigit c || (decide (65 ≤ c) && decide (c ≤ 90)) || (decide (97 ≤ c) && decide (c ≤ 122)) || c == 95

def Cat.has : Cat → Nat → Bool
  | .space, c => isSpace c
  | .digit, c => isDigit c
  | .word, c => isWord c

/-- A member of a bracket expression. -/
inductive Item where
  | single (c : Nat)
  | range (lo hi : Nat)
  | cat (k : Cat) (neg : Bool)
deriving Repr, DecidableEq

/-- Membership under `re.IGNORECASE`: the compiler lowers every member of the set (a range member by member),
    the engine lowers the character.  On ASCII: some case variant of the character is in the written set. -/
def Item.has : Item → Nat → Bool
  | .single a, c => lowerAscii a == lowerAscii c
  | .range lo hi, c =>
    (decide (lo ≤ lowerAscii c) && decide (lowerAscii c ≤ hi)) || (decide (lo ≤ upperAscii c) && decide (upperAscii c ≤ hi))
  | .cat k neg, c => k.has c != neg

/-- A bracket expression `[...]` / `[^...]`, or a category escape outside brackets. -/
structure CSet where
  neg : Bool
  items : List Item
deriving Repr, DecidableEq

def CSet.accepts (s : CSet) (c : Nat) : Bool := s.items.any (·.has c) != s.neg

/-! ## Regular expressions with anchors -/

inductive RE where
  | fail                    -- matches nothing (only produced by derivatives)
  | eps                     -- the empty pattern / an empty group
  | lit (c : Nat)           -- a literal character (case-insensitive)
  | any                     -- `.`: anything but a newline (no DOTALL)
  | set (s : CSet)          -- `[...]`, `\s`, `\D`, …
  | bol                     -- `^`  (MULTILINE)
  | eol                     -- `$`  (MULTILINE)
  | bos                     -- `\A`
  | eos                     -- `\Z`
  | wordB (neg : Bool)      -- `\b` / `\B`
  | seq (a b : RE)
  | alt (a b : RE)
  | star (a : RE)
deriving Repr, DecidableEq

def RE.plus (a : RE) : RE := .seq a (.star a)
def RE.opt (a : RE) : RE := .alt a .eps

/-- `re.escape(lit)` as a pattern: the characters of `lit` one after the other. -/
def RE.ofLit : Str → RE
  | [] => .eps
  | c :: cs => .seq (.lit c) (RE.ofLit cs)

def isWordO : Option Nat → Bool
  | some c => isWord c
  | none => false

def atBol (prev : Option Nat) : Bool := prev == none || prev == some cNL
def atEol (next : Option Nat) : Bool := next == none || next == some cNL

/-- `\b` (neg = false) / `\B` (neg = true) between `prev` and `next`.  `sre` answers "no" to both on an
    empty text (CPython ≤ 3.13). -/
def atWordB (neg : Bool) (prev next : Option Nat) : Bool :=
  if prev.isNone && next.isNone then false else (isWordO prev != isWordO next) != neg

/-- Does `r` match the empty string at a position whose neighbours are `prev` and `next`? -/
def null (prev next : Option Nat) : RE → Bool
  | .fail => false
  | .eps => true
  | .lit _ => false
  | .any => false
  | .set _ => false
  | .bol => atBol prev
  | .eol => atEol next
  | .bos => prev.isNone
  | .eos => next.isNone
  | .wordB neg => atWordB neg prev next
  | .seq a b => null prev next a && null prev next b
  | .alt a b => null prev next a || null prev next b
  | .star _ => true

/-- Smart constructors: keep derivatives small (`fail` and `eps` are absorbed). -/
def mkSeq : RE → RE → RE
  | .fail, _ => .fail
  | .eps, b => b
  | a, b => .seq a b

/-- Is `a` one of the alternatives of `b`? -/
def altMem (a : RE) : RE → Bool
  | .alt x y => altMem a x || altMem a y
  | b => a == b

/-- `a | b` without `fail`, without repeating an alternative that is already there (keeps the derivatives of
    starred alternations from doubling at every character). -/
def mkAlt : RE → RE → RE
  | .fail, b => b
  | .alt x y, b => mkAlt x (mkAlt y b)
  | a, b => if b == .fail then a else if altMem a b then b else .alt a b

/-- Derivative: what must match after `c` has been consumed at a position whose previous character is
    `prev` (the next one is `c` itself). -/
def der (prev : Option Nat) (c : Nat) : RE → RE
  | .fail => .fail
  | .eps => .fail
  | .lit a => if lowerAscii a == lowerAscii c then .eps else .fail
  | .any => if c == cNL then .fail else .eps
  | .set s => if s.accepts c then .eps else .fail
  | .bol => .fail
  | .eol => .fail
  | .bos => .fail
  | .eos => .fail
  | .wordB _ => .fail
  | .seq a b =>
    if null prev (some c) a then mkAlt (mkSeq (der prev c a) b) (der prev c b)
    else mkSeq (der prev c a) b
  | .alt a b => mkAlt (der prev c a) (der prev c b)
  | .star a => mkSeq (der prev c a) (.star a)

/-- `r` matches some prefix of the text, the previous character being `prev` (`pattern.match` at a position). -/
def matchPrefix (prev : Option Nat) (r : RE) : Str → Bool
  | [] => null prev none r
  | c :: s => null prev (some c) r || matchPrefix (some c) (der prev c r) s

/-- `r` matches somewhere in the text, the previous character being `prev`. -/
def searchFrom (prev : Option Nat) (r : RE) : Str → Bool
  | [] => null prev none r
  | c :: s => matchPrefix prev r (c :: s) || searchFrom (some c) r s

/-- `re.compile(r, IGNORECASE | MULTILINE).search(text) is not None`. -/
def search (r : RE) (text : Str) : Bool := searchFrom none r text

/-! ## What the seeded idea "one search over the joined items is enough" would compute -/

/-- `"\n".join(items)`. -/
def joinNL : List Str → Str
  | [] => []
  | [x] => x
  | x :: y :: r => x ++ cNL :: joinNL (y :: r)

/-- Patterns for which searching line by line is the same as searching the whole text: no atom can consume
    a newline, no `\A` / `\Z`, no `\B`. -/
def RE.lineLocal : RE → Bool
  | .fail => true
  | .eps => true
  | .lit c => c != cNL
  | .any => true
  | .set s => !s.accepts cNL
  | .bol => true
  | .eol => true
  | .bos => false
  | .eos => false
  | .wordB neg => !neg      -- `\B` is not: it says "no" on an empty text, "yes" at the start of an empty line
  | .seq a b => a.lineLocal && b.lineLocal
  | .alt a b => a.lineLocal && b.lineLocal
  | .star a => a.lineLocal

/-- The text up to its first newline. -/
def firstLine : Str → Str
  | [] => []
  | c :: s => if c == cNL then [] else c :: firstLine s

/-- `text.split("\n")`. -/
def lines : Str → List Str
  | [] => [[]]
  | c :: s =>
    if c == cNL then [] :: lines s
    else match lines s with
      | [] => [[c]]
      | l :: ls => (c :: l) :: ls

end LccModel.Regex

/-
  M3a — the calls a test makes, as WRITTEN, on top of the core session model M3 (`Model/Session.lean`).

  Some public calls are nothing but a spelling of core calls, and one core call depends on the file system the
  report directory lives on.  They are modelled by LOWERING a call to the core ops it stands for (in the state it
  is made in), so that every theorem about core op sequences is a theorem about call sequences
  (`Lemmas/SessionApi.lean`: `runCalls_eq_runOps`):

  * `with lcc.detached_step(d):` (deprecated since 1.4.5, still public): entering it IS `set_step(d)`; leaving it
    does NOTHING — the step stays the current step of the thread, whatever the thread logs next lands in it.
  * `lcc.end_step(step)` (deprecated): does nothing.
  * the one-call attachment forms (`save_attachment_content`, `save_attachment_file`, `save_image_*`, a `with
    prepare_attachment(..)` whose body only writes the file) on a real file system: when the file system refuses
    the stored name (`AttachName.storable`: longer than NAME_MAX bytes, or not a single path component) the
    write raises `OSError` INSIDE the block — the block is entered (the number is consumed) and left by the
    exception: `attachBegin; attachAbort`.  No event, nothing referenced.

  Core Lean only.
-/
import LccModel.Model.Session

namespace LccModel.SessionApi
open LccModel.Session

inductive Call
  | op (o : Op)                                        -- a call the core model has
  | detachedEnter (description : String)               -- entering `with lcc.detached_step(description):`
  | detachedExit                                       -- leaving that block
  | endStepDeprecated                                  -- `lcc.end_step(step)`
  | attachFile (filename description : String) (asImage : Bool)   -- a one-call attachment form, written to the file system
deriving Repr, DecidableEq

/-- the core ops a call stands for, in the state it is made in -/
def lower (s : St) : Call → List Op
  | .op o => [o]
  | .detachedEnter d => [.setStep d]
  | .detachedExit => []
  | .endStepDeprecated => []
  | .attachFile f d img =>
    if AttachName.storable (s.attachCount + 1) f.toList then [.attach f d img]
    else [.attachBegin f d img, .attachAbort]

def stepCall (s : St) (tid : Nat) (c : Call) : Except Err St :=
  runOps s ((lower s c).map (fun o => (tid, o)))

def runCalls : St → List (Nat × Call) → Except Err St
  | s, [] => .ok s
  | s, (tid, c) :: rest => match stepCall s tid c with
    | .error e => .error e
    | .ok s' => runCalls s' rest

/-- the core op sequence a call sequence stands for (up to and including the first rejected call) -/
def lowerAll : St → List (Nat × Call) → List (Nat × Op)
  | _, [] => []
  | s, (tid, c) :: rest =>
    let ops := (lower s c).map (fun o => (tid, o))
    match runOps s ops with
    | .error _ => ops
    | .ok s' => ops ++ lowerAll s' rest

/-- THE VARIANT THAT IS NOT THE CODE (kept for the refutation `detached_exit_ending_the_step_breaks_bracketing`):
    leaving `detached_step` "closes" the step -/
def lowerClosing (s : St) : Call → List Op
  | .detachedExit => [.endStep]
  | c => lower s c

def runCallsWith (low : St → Call → List Op) : St → List (Nat × Call) → Except Err St
  | s, [] => .ok s
  | s, (tid, c) :: rest => match runOps s ((low s c).map (fun o => (tid, o))) with
    | .error e => .error e
    | .ok s' => runCallsWith low s' rest

end LccModel.SessionApi

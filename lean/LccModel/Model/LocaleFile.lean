/-
  The report file seen through the LOCALE of the process: `open(path, "w")` / `open(path, "r")` (reporting/backend.py
  `open_for_atomic_write`, reporting/backends/json_.py `load_report_from_file`) encode and decode with the locale encoding,
  errors="strict".

  * `Codec`: a text encoding as a pair of partial functions code points ⟷ bytes (`none` = UnicodeEncodeError /
    UnicodeDecodeError).  `AsciiTransparent c`: `c` writes and reads ASCII text byte for code point — every encoding a POSIX
    locale or a Windows ANSI code page can have (ASCII, ISO-8859-x, cp125x, UTF-8, the EUC / Shift-JIS families on their ASCII
    range…); UTF-16/32 are not locale encodings.
  * three concrete codecs, written out: `asciiCodec`, `latin1Codec`, `utf8Codec` (strict UTF-8: shortest form, no surrogates,
    ≤ U+10FFFF), whose `enc` accepts a text exactly when `JsonFile.writeOk` says so.
  * `account`: what C01 reads in a report — every test with its path and status, every suite with its path, opened / closed.

  Core Lean only.
-/
import LccModel.Model.JsonRender

namespace LccModel.LocaleFile
open LccModel.Report LccModel.Writer LccModel.JsonFile

/-! ## codecs -/

structure Codec where
  /-- `fh.write(text)` + close: the bytes on disk; `none`: `UnicodeEncodeError` -/
  enc : List Nat → Option (List Nat)
  /-- `fh.read()`: the text; `none`: `UnicodeDecodeError` -/
  dec : List Nat → Option (List Nat)

def IsAscii (t : List Nat) : Prop := ∀ x ∈ t, x < 128

/-- the codec writes and reads ASCII text as it is -/
def AsciiTransparent (c : Codec) : Prop := ∀ t, IsAscii t → c.enc t = some t ∧ c.dec t = some t

/-- the bytes of one code point the codec can encode -/
def bytesOf : Encoding → Nat → List Nat
  | .ascii, c => [c]
  | .latin1, c => [c]
  | .utf8, c =>
    if c < 128 then [c]
    else if c < 2048 then [192 + c / 64, 128 + c % 64]
    else if c < 65536 then [224 + c / 4096, 128 + c / 64 % 64, 128 + c % 64]
    else [240 + c / 262144, 128 + c / 4096 % 64, 128 + c / 64 % 64, 128 + c % 64]

/-- `str.encode(e)`, strict: refused exactly when `JsonFile.writeOk e` is false -/
def encode (e : Encoding) (t : List Nat) : Option (List Nat) :=
  if writeOk e t then some (t.flatMap (bytesOf e)) else none

/-- strict UTF-8 decoder as a byte-by-byte automaton: `need` continuation bytes still expected for the current character,
    `acc` its value so far, `lo` the smallest value a sequence of that length may spell (shortest form) -/
def utf8DecAux : (need acc lo : Nat) → List Nat → Option (List Nat)
  | 0, _, _, [] => some []
  | _ + 1, _, _, [] => none                                   -- truncated sequence
  | 0, _, _, b :: bs =>
    if b < 128 then (utf8DecAux 0 0 0 bs).map (b :: ·)
    else if 194 ≤ b ∧ b < 224 then utf8DecAux 1 (b - 192) 128 bs
    else if 224 ≤ b ∧ b < 240 then utf8DecAux 2 (b - 224) 2048 bs
    else if 240 ≤ b ∧ b < 245 then utf8DecAux 3 (b - 240) 65536 bs
    else none                                                 -- stray continuation byte, 0xC0 / 0xC1, 0xF5..0xFF
  | n + 1, acc, lo, b :: bs =>
    if 128 ≤ b ∧ b < 192 then
      let acc' := acc * 64 + (b - 128)
      if n = 0 then
        if lo ≤ acc' ∧ acc' < 1114112 ∧ ¬ (55296 ≤ acc' ∧ acc' ≤ 57343) then (utf8DecAux 0 0 0 bs).map (acc' :: ·) else none
      else utf8DecAux n acc' lo bs
    else none

/-- `bytes.decode(e)`, strict -/
def decode : Encoding → List Nat → Option (List Nat)
  | .ascii, bs => if bs.all (· < 128) then some bs else none
  | .latin1, bs => if bs.all (· < 256) then some bs else none
  | .utf8, bs => utf8DecAux 0 0 0 bs

def codecOf (e : Encoding) : Codec := { enc := encode e, dec := decode e }
def asciiCodec : Codec := codecOf .ascii
def latin1Codec : Codec := codecOf .latin1
def utf8Codec : Codec := codecOf .utf8

/-! ## the JSON report file under two locales: written under `w`, read under `r` -/

def chars (t : List Nat) : List Char := t.map Char.ofNat

/-- `save_report_into_file` under the codec `w`: the bytes left on disk, `none` when the write raised (the temporary file is
    removed, the report file is not created / not refreshed) -/
def savedBytes (w : Codec) (a : Atoms) (o : Opts) (g : Time) (r : Report) : Option (List Nat) :=
  w.enc (fileText a o (Serial.toJson g r))

/-- `load_report_from_file` under the codec `rd`, with `parse` = `json.loads`: decode, strip the JavaScript prefix (anchored),
    parse, unserialise.  `none`: the file is missing or cannot be decoded / parsed. -/
def loadBytes (rd : Codec) (parse : List Char → Option Serial.JVal) (bytes : Option (List Nat)) :
    Option (Except Serial.LoadErr Report) :=
  match bytes with
  | none => none
  | some bs =>
    match rd.dec bs with
    | none => none
    | some text => (parse (unframe (chars text))).map Serial.fromJson

/-! ## what C01 reads in a report -/

inductive Item
  | test (path : Path) (status : Option Status)
  | suite (path : Path) (opened closed : Bool)
deriving DecidableEq, Repr

mutual
def suiteItems (pre : Path) : SuiteResult → List Item
  | .mk md st en _ _ ts ss =>
    .suite (pre ++ [md.name]) st.isSome en.isSome ::
      (ts.map (fun t => Item.test (pre ++ [md.name, t.md.name]) t.result.status) ++ suitesItems (pre ++ [md.name]) ss)
def suitesItems (pre : Path) : List SuiteResult → List Item
  | [] => []
  | s :: ss => suiteItems pre s ++ suitesItems pre ss
end

/-- every test of the report with its path and status, every suite with its path and whether it has a start and an end time -/
def account (r : Report) : List Item := suitesItems [] r.suites

/-- C01 for one test: listed exactly once, with that terminal status -/
def listedOnce (r : Report) (path : Path) (s : Status) : Prop :=
  (account r).count (.test path (some s)) = 1 ∧ ∀ s', Item.test path s' ∈ account r → s' = some s

end LccModel.LocaleFile

/-
  M10 (third file backend) — `reporting/backends/junit.py`: report tree → JUnit element tree.

  The JUnit file has no loader; what matters for C10 is that writing it never fails: `FileReportSession._save` runs on
  the one event-handling thread, so a save that raises — of ANY attached backend — stops event handling for every
  backend of the run.

  The serialiser reads, besides texts:
    * `report.end_time - report.start_time` when the session has ended               (needs the start time),
    * per suite with tests: `min(t.start_time for t in tests)`                        (needs every test's start time),
    * per suite: the sum over its tests of `t.duration or 0` — a test in progress has `duration = None` and counts 0;
      `_serialize_test_result` does the same for the `time` of a `<testcase>`.
  So a JUnit save taken in the middle of a test is fine.  `strictSum` is the variant WITHOUT the `or 0`
  (`sum(t.duration for t in tests)`), kept to state what the `or 0` is for (`Props/C10.lean`).

  Numbers are opaque (`XVal.num`, milliseconds); texts matter because the document is written raw like the XML report
  (`Serial.etNorm`, `Store.pyCode`): test names, the dotted suite path, failure / error messages.
  Core Lean only.
-/
import LccModel.Model.Store

namespace LccModel.Junit
open LccModel.Report LccModel.Writer LccModel.Serial LccModel.JsonFile

/-- `_get_duration(start, end)`: `None` unless both are set -/
def duration? (x : Result) : Option Nat :=
  match x.startTime, x.endTime with
  | some s, some e => some (e - s)
  | _, _ => none

/-- `t.duration or 0` -/
def durOr0 (x : Result) : Nat := (duration? x).getD 0

/-- the `time` of a `<testsuite>`: in-progress tests count 0 -/
def suiteTime (ts : List TestResult) : Nat := (ts.map (fun t => durOr0 t.result)).sum

/-- `sum(t.duration for t in tests)`: `none` = `TypeError` (some test has no duration yet) -/
def strictSum : List TestResult → Option Nat
  | [] => some 0
  | t :: ts =>
    match duration? t.result, strictSum ts with
    | some d, some s => some (d + s)
    | _, _ => none

def failureMsg (step d : String) (details : Option String) : String :=
  "failed check in step '" ++ step ++ "', " ++ d ++
    (match details with
     | some x => if x.isEmpty then "" else ": " ++ x
     | none => "")

def errorMsg (step msg : String) : String := "error log in step '" ++ step ++ "': " ++ msg

def entryElems (step : String) : Entry → List XElem
  | .check d false det _ => [leaf "failure" [("message", .text (failureMsg step d det))] none]
  | .log .error msg _ => [leaf "error" [("message", .text (errorMsg step msg))] none]
  | _ => []

/-- `_serialize_test_result` -/
def toTestcase (t : TestResult) : XElem :=
  .mk "testcase" [("name", .text t.md.name), ("time", .num (durOr0 t.result))] none
    (if t.result.status = some .skipped then [leaf "skipped" [] none]
     else t.result.steps.flatMap (fun st => st.entries.flatMap (entryElems st.description)))

def countStatus (st : Status) (ts : List TestResult) : Nat := (ts.filter (fun t => t.result.status = some st)).length

def minTime : List TestResult → Nat
  | [] => 0
  | t :: ts => ts.foldl (fun m x => min m (x.result.startTime.getD 0)) (t.result.startTime.getD 0)

/-- `_serialize_suite_result` on a suite whose tests are in accessor order; `path` = the names from the top -/
def toTestsuite (path : List String) (ts : List TestResult) : XElem :=
  .mk "testsuite"
    [("name", .text (".".intercalate path)), ("tests", .num ts.length), ("failures", .num (countStatus .failed ts)),
     ("skipped", .num (countStatus .skipped ts)), ("time", .num (suiteTime ts)), ("timestamp", .time (minTime ts))]
    none (ts.map toTestcase)

mutual
/-- `for suite in report.all_suites(): if suite.get_tests(): …` over `sortDeep`-ed suites, carrying the path -/
def suiteElems (pre : List String) : SuiteResult → List XElem
  | .mk md _ _ _ _ ts ss =>
    (if ts.isEmpty then [] else [toTestsuite (pre ++ [md.name]) ts]) ++ suitesElems (pre ++ [md.name]) ss
def suitesElems (pre : List String) : List SuiteResult → List XElem
  | [] => []
  | s :: ss => suiteElems pre s ++ suitesElems pre ss
end

/-- the times the serialiser cannot do without (it raises `TypeError` otherwise) -/
def timesOk (r : Report) : Bool :=
  (r.endTime.isNone || r.startTime.isSome) && (allTests r).all (fun t => t.result.startTime.isSome)

/-- the document, when nothing is missing -/
def build (r : Report) : XElem :=
  .mk "testsuites"
    ([("tests", XVal.num (countStatus .passed (allTests r))), ("failures", XVal.num (countStatus .failed (allTests r)))]
      ++ (match r.startTime, r.endTime with
          | some s, some e => [("time", XVal.num (e - s))]
          | _, _ => []))
    none (suitesElems [] (sortDeepList r.suites))

/-- `serialize_report_as_xml_tree` of junit.py -/
def toJunit (r : Report) : Except SaveErr XElem :=
  if timesOk r then .ok (build r) else .error (.noneTime "junit")

/-- does `save_report_into_file` of junit.py succeed when the file's (locale) encoding is `e`? -/
def saveOkEnc (e : Encoding) (r : Report) : Bool :=
  match toJunit r with
  | .error _ => false
  | .ok x => x.chars.all (fun c => encodable e (Store.pyCode c))

/-- is what a successful save leaves on disk well-formed XML? -/
def wellFormed (r : Report) : Bool :=
  match toJunit r with
  | .error _ => false
  | .ok x => match etNorm x with
    | .ok _ => true
    | .error _ => false

end LccModel.Junit

/-
  Model of `lemoncheesecake/metadatapolicy.py`: `MetadataPolicy._check_compliance`,
  `check_test_compliance`, `check_suite_compliance`, `check_suites_compliance`.

  The policy's two dicts are lists of rules with distinct names (dict order).  A node (test or suite)
  carries its own `properties` (dict items, in order) and `tags` — the code checks the node's own
  metadata only, not the inherited ones.  `values = []` stands for "no restriction" (`accepted_values`
  is `None` or an empty list: both are falsy in `if available_properties[name]["values"] and …`).
  Core Lean only.
-/
import LccModel.Model.Loops

namespace LccModel.Policy
open LccModel.Loops

inductive NodeType where
  | test | suite
deriving DecidableEq, Repr

structure PropRule where
  name : String
  values : List String
  onTest : Bool
  onSuite : Bool
  required : Bool
deriving DecidableEq, Repr

structure TagRule where
  name : String
  onTest : Bool
  onSuite : Bool
deriving DecidableEq, Repr

structure Policy where
  props : List PropRule
  tags : List TagRule
  noUnknownProps : Bool       -- `disallow_unknown_properties()`
  noUnknownTags : Bool        -- `disallow_unknown_tags()`
deriving Repr

structure Node where
  type : NodeType
  path : String
  props : List (String × String)
  tags : List String
deriving Repr

inductive Err where
  | propNotAllowed (path prop : String)          -- "the property '%s' is not allowed (available are …)"
  | propForbidden (path prop : String)           -- "the property '%s' is not allowed on a test/suite"
  | propMissing (path prop : String)             -- "the mandatory property '%s' is missing"
  | propBadValue (path prop value : String)      -- "value '%s' of property '%s' is not among accepted values"
  | tagNotAllowed (path tag : String)            -- "the tag '%s' is not allowed (available are …)"
  | tagForbidden (path tag : String)             -- "the tag '%s' is not allowed on a test/suite"
deriving DecidableEq, Repr

def PropRule.on (r : PropRule) : NodeType → Bool
  | .test => r.onTest
  | .suite => r.onSuite

def TagRule.on (r : TagRule) : NodeType → Bool
  | .test => r.onTest
  | .suite => r.onSuite

/-- `{name: p for name, p in self._properties.items() if p["on_<type>"]}` -/
def availableProps (P : Policy) (ty : NodeType) : List PropRule := P.props.filter (fun r => r.on ty)
/-- `[name for name, p in self._properties.items() if not p["on_<type>"]]` -/
def forbiddenProps (P : Policy) (ty : NodeType) : List String := (P.props.filter (fun r => !r.on ty)).map (·.name)
def availableTags (P : Policy) (ty : NodeType) : List TagRule := P.tags.filter (fun r => r.on ty)
def forbiddenTags (P : Policy) (ty : NodeType) : List String := (P.tags.filter (fun r => !r.on ty)).map (·.name)

/-- `a; b` where `a` may raise -/
def seqE {ε : Type} (a b : Except ε Unit) : Except ε Unit :=
  match a with
  | .error e => .error e
  | .ok () => b

/-- `MetadataPolicy._check_compliance`, the six checks in the code's order -/
def checkNode (P : Policy) (n : Node) : Except Err Unit :=
  seqE (if P.noUnknownProps then
          forE n.props (fun kv => if kv.1 ∈ (availableProps P n.type).map (·.name) then .ok ()
                                  else .error (.propNotAllowed n.path kv.1))
        else .ok ()) <|
  seqE (forE n.props (fun kv => if kv.1 ∈ forbiddenProps P n.type then .error (.propForbidden n.path kv.1)
                                else .ok ())) <|
  seqE (forE ((availableProps P n.type).filter (·.required)) (fun r =>
          if r.name ∈ n.props.map (·.1) then .ok () else .error (.propMissing n.path r.name))) <|
  seqE (forE n.props (fun kv =>
          match (availableProps P n.type).find? (fun r => decide (r.name = kv.1)) with
          | none => .ok ()
          | some r => if r.values ≠ [] ∧ kv.2 ∉ r.values then .error (.propBadValue n.path kv.1 kv.2)
                      else .ok ())) <|
  seqE (if P.noUnknownTags then
          forE n.tags (fun t => if t ∈ (availableTags P n.type).map (·.name) then .ok ()
                                else .error (.tagNotAllowed n.path t))
        else .ok ()) <|
  forE n.tags (fun t => if t ∈ forbiddenTags P n.type then .error (.tagForbidden n.path t) else .ok ())

/-- `check_suites_compliance` on the nodes in the order the code visits them
    (`flatten_suites`: each suite, then its tests, then its sub-suites) -/
def checkNodes (P : Policy) (nodes : List Node) : Except Err Unit := forE nodes (checkNode P)

end LccModel.Policy
